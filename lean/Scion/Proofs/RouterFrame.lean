import Scion.Proofs.RouterProcess
/-! Frame lemmas for C07: which bytes of the packet buffer the router's in-place edits can
change, and what they write there. -/
namespace Scion.Router
open Scion.Util
open Scion.PathMeta hiding Info

/-! ### what the serialisers write, byte by byte -/

theorem ofNat_toNat_of_eq (x : UInt8) (n : Nat) (h : n = x.toNat) : UInt8.ofNat n = x := by
  subst h; simp

/-- `MetaHdr.SerializeTo` of a header with the segment lengths of the received line: only the
first byte carries the pointers, the reserved bits of the second byte come out as zero, the rest
is as received -/
theorem natBE_encode_bytes (m0 m1 m2 m3 : UInt8) (pm' : Hdr)
    (h0 : pm'.s0 = (decode (beNat [m0, m1, m2, m3])).s0)
    (h1 : pm'.s1 = (decode (beNat [m0, m1, m2, m3])).s1)
    (h2 : pm'.s2 = (decode (beNat [m0, m1, m2, m3])).s2) :
    natBE 4 (encode pm') =
      [UInt8.ofNat (pm'.currINF % 4 * 64 + pm'.currHF % 64), UInt8.ofNat (m1.toNat % 4), m2, m3] := by
  have b0 := m0.toNat_lt; have b1 := m1.toNat_lt; have b2 := m2.toNat_lt; have b3 := m3.toNat_lt
  simp only [decode, beNat, List.foldl] at h0 h1 h2
  simp only [natBE, encode, h0, h1, h2]
  refine List.cons_eq_cons.mpr ⟨?_, List.cons_eq_cons.mpr ⟨?_, List.cons_eq_cons.mpr ⟨?_, List.cons_eq_cons.mpr ⟨?_, rfl⟩⟩⟩⟩
  · congr 1; omega
  · congr 1; omega
  · apply ofNat_toNat_of_eq; omega
  · apply ofNat_toNat_of_eq; omega

/-- two info fields that differ at most in the SegID -/
structure SameButSegID (a b : Info) : Prop where
  peer : a.peer = b.peer
  consDir : a.consDir = b.consDir
  ts : a.ts = b.ts

theorem SameButSegID.refl (a : Info) : SameButSegID a a := ⟨rfl, rfl, rfl⟩
theorem SameButSegID.upd (a b : Info) (x : Hop) (h : SameButSegID a b) : SameButSegID (updSegID a x) b :=
  ⟨h.peer, h.consDir, h.ts⟩

theorem flags_byte (b0 : UInt8) :
    b2n (b0.toNat / 2 % 2 == 1) * 2 + b2n (b0.toNat % 2 == 1) = b0.toNat % 4 := by
  have h : b0.toNat % 4 = 0 ∨ b0.toNat % 4 = 1 ∨ b0.toNat % 4 = 2 ∨ b0.toNat % 4 = 3 := by omega
  rcases h with h | h | h | h
  · have h1 : b0.toNat / 2 % 2 = 0 := by omega
    have h2 : b0.toNat % 2 = 0 := by omega
    simp [h, h1, h2, b2n]
  · have h1 : b0.toNat / 2 % 2 = 0 := by omega
    have h2 : b0.toNat % 2 = 1 := by omega
    simp [h, h1, h2, b2n]
  · have h1 : b0.toNat / 2 % 2 = 1 := by omega
    have h2 : b0.toNat % 2 = 0 := by omega
    simp [h, h1, h2, b2n]
  · have h1 : b0.toNat / 2 % 2 = 1 := by omega
    have h2 : b0.toNat % 2 = 1 := by omega
    simp [h, h1, h2, b2n]

/-- `InfoField.SerializeTo` of a field that differs from the received one at most in the SegID:
flags without the reserved bits, a zero reserved byte, some SegID, the received timestamp -/
theorem encodeInfo_bytes (b0 b1 s0 s1 t0 t1 t2 t3 : UInt8) (inf0 inf : Info)
    (hd : decodeInfo [b0, b1, s0, s1, t0, t1, t2, t3] = some inf0) (hs : SameButSegID inf inf0) :
    ∃ x y, encodeInfo inf = [UInt8.ofNat (b0.toNat % 4), 0, x, y, t0, t1, t2, t3] := by
  have c0 := t0.toNat_lt; have c1 := t1.toNat_lt; have c2 := t2.toNat_lt; have c3 := t3.toNat_lt
  simp only [decodeInfo, Option.some.injEq] at hd
  subst hd
  obtain ⟨hp, hc, ht⟩ := hs
  simp only at hp hc ht
  refine ⟨UInt8.ofNat (inf.segID / 256 ^ 1 % 256), UInt8.ofNat (inf.segID / 256 ^ 0 % 256), ?_⟩
  simp only [encodeInfo, natBE, hp, hc, ht, flags_byte, List.cons_append, List.nil_append]
  refine List.cons_eq_cons.mpr ⟨rfl, List.cons_eq_cons.mpr ⟨rfl, List.cons_eq_cons.mpr ⟨rfl,
    List.cons_eq_cons.mpr ⟨rfl, List.cons_eq_cons.mpr ⟨?_, List.cons_eq_cons.mpr ⟨?_,
    List.cons_eq_cons.mpr ⟨?_, List.cons_eq_cons.mpr ⟨?_, rfl⟩⟩⟩⟩⟩⟩⟩⟩
  · apply ofNat_toNat_of_eq; omega
  · apply ofNat_toNat_of_eq; omega
  · apply ofNat_toNat_of_eq; omega
  · apply ofNat_toNat_of_eq; omega

/-! ### the mutable fields and the reserved bits -/

/-- the two SegID bytes of info field `j` -/
def segIDPos (h : Hd) (j i : Nat) : Prop := infoOff h j + 2 ≤ i ∧ i < infoOff h j + 4

/-- the bytes the property allows a forwarding router to change: the byte that holds
CurrINF/CurrHF, the SegID of the current segment and — at a segment change — of the next one -/
def Mutable (h : Hd) (pm : Hdr) (i : Nat) : Prop :=
  i = h.pathOff ∨ segIDPos h pm.currINF i ∨
  (isXover (base h pm) = true ∧ segIDPos h (infIdx pm (pm.currHF + 1)) i)

/-- info field `j` is one whose SegID this router may update: the current one or, at a segment
change, the next one -/
def Touched (h : Hd) (pm : Hdr) (j : Nat) : Prop :=
  j = pm.currINF ∨ (isXover (base h pm) = true ∧ j = infIdx pm (pm.currHF + 1))

instance (h : Hd) (pm : Hdr) (j : Nat) : Decidable (Touched h pm j) := by unfold Touched; infer_instance

/-- a byte with the reserved bits of its position cleared: the six RSV bits of the path meta
header (second byte of the line), the six reserved flag bits (first byte) and the reserved
second byte of a touched info field; every other position is left alone -/
def clr (h : Hd) (pm : Hdr) (i : Nat) (x : UInt8) : UInt8 :=
  if i = h.pathOff + 1 then UInt8.ofNat (x.toNat % 4)
  else if i = infoOff h pm.currINF ∨
      (isXover (base h pm) = true ∧ i = infoOff h (infIdx pm (pm.currHF + 1))) then
    UInt8.ofNat (x.toNat % 4)
  else if i = infoOff h pm.currINF + 1 ∨
      (isXover (base h pm) = true ∧ i = infoOff h (infIdx pm (pm.currHF + 1)) + 1) then 0
  else x

theorem clr_info_flags (h : Hd) (pm : Hdr) (j : Nat) (x : UInt8) (ht : Touched h pm j) :
    clr h pm (infoOff h j) x = UInt8.ofNat (x.toNat % 4) := by
  unfold clr
  split
  · rfl
  · rw [if_pos]
    rcases ht with rfl | ⟨hx, rfl⟩
    · left; rfl
    · right; exact ⟨hx, rfl⟩

theorem clr_info_rsv (h : Hd) (pm : Hdr) (j : Nat) (x : UInt8) (ht : Touched h pm j) :
    clr h pm (infoOff h j + 1) x = 0 := by
  unfold clr
  rw [if_neg (by unfold infoOff MetaLen InfoLen; omega)]
  rw [if_neg, if_pos]
  · rcases ht with rfl | ⟨hx, rfl⟩
    · left; rfl
    · right; exact ⟨hx, rfl⟩
  · unfold infoOff MetaLen InfoLen
    rintro (hc | ⟨_, hc⟩) <;> omega

theorem clr_meta_rsv (h : Hd) (pm : Hdr) (x : UInt8) : clr h pm (h.pathOff + 1) x = UInt8.ofNat (x.toNat % 4) := by
  unfold clr; rw [if_pos rfl]

/-- `b` equals `raw` except in the mutable fields and for reserved bits that were cleared -/
def Near (h : Hd) (pm : Hdr) (raw b : Bytes) : Prop :=
  b.length = raw.length ∧
  ∀ i, ¬ Mutable h pm i → (b[i]? = raw[i]? ∨ b[i]? = (raw[i]?).map (clr h pm i))

theorem Near.refl (h : Hd) (pm : Hdr) (raw : Bytes) : Near h pm raw raw := ⟨rfl, fun _ _ => Or.inl rfl⟩

theorem raw_at_of_slice {raw : Bytes} {off n : Nat} {l : Bytes} (hs : slice raw off n = l) (t : Nat)
    (ht : t < n) : raw[off + t]? = l[t]? := by
  have := slice_getElem? raw off n t
  rw [hs] at this
  simp [ht] at this
  exact this.symm

/-- rewriting the meta line keeps `Near` -/
theorem near_setMeta {h : Hd} {pm : Hdr} {raw b : Bytes} (hn : Near h pm raw b) (pm' : Hdr)
    (m0 m1 m2 m3 : UInt8) (hm : slice raw h.pathOff 4 = [m0, m1, m2, m3])
    (h0 : pm'.s0 = (decode (beNat [m0, m1, m2, m3])).s0)
    (h1 : pm'.s1 = (decode (beNat [m0, m1, m2, m3])).s1)
    (h2 : pm'.s2 = (decode (beNat [m0, m1, m2, m3])).s2) :
    Near h pm raw (setMeta h b pm') := by
  have hlen : h.pathOff + 4 ≤ raw.length := by
    have := congrArg List.length hm
    rw [length_slice] at this
    simp at this; omega
  have hb : h.pathOff + 4 ≤ b.length := by rw [hn.1]; exact hlen
  refine ⟨by rw [length_setMeta h b pm' hb, hn.1], ?_⟩
  intro i hi
  by_cases hr : i < h.pathOff ∨ h.pathOff + 4 ≤ i
  · rw [setMeta_getElem?_out h b pm' hb i hr]; exact hn.2 i hi
  · have hin : h.pathOff ≤ i ∧ i < h.pathOff + 4 := by omega
    obtain ⟨t, rfl⟩ : ∃ t, i = h.pathOff + t := ⟨i - h.pathOff, by omega⟩
    have ht : t < 4 := by omega
    have hw : (setMeta h b pm')[h.pathOff + t]? = (natBE 4 (encode pm'))[t]? := by
      unfold setMeta
      rw [writeAt_getElem? _ _ _ (by rw [length_natBE]; exact hb)]
      rw [length_natBE]
      have : ¬ h.pathOff + t < h.pathOff := by omega
      simp [this, ht]
    rw [hw, natBE_encode_bytes m0 m1 m2 m3 pm' h0 h1 h2, raw_at_of_slice hm t ht]
    have hne : t ≠ 0 := by
      intro h0; apply hi; left; omega
    have hcases : t = 1 ∨ t = 2 ∨ t = 3 := by omega
    rcases hcases with rfl | rfl | rfl
    · right
      show some (UInt8.ofNat (m1.toNat % 4)) = some (clr h pm (h.pathOff + 1) m1)
      rw [clr_meta_rsv]
    · left; rfl
    · left; rfl

/-- rewriting an info field with one that differs from the received one at most in the SegID
keeps `Near`, provided its SegID is among the mutable fields -/
theorem near_setInfo {h : Hd} {pm : Hdr} {raw b : Bytes} (hn : Near h pm raw b) (j : Nat)
    (inf0 inf : Info) (hg : getInfo h raw j = some inf0) (hs : SameButSegID inf inf0)
    (hj : Touched h pm j) :
    Near h pm raw (setInfo h b j inf) := by
  obtain ⟨hjn, hlen⟩ := getInfo_some_bound hg
  have hb : infoOff h j + 8 ≤ b.length := by rw [hn.1]; exact hlen
  refine ⟨by rw [length_setInfo h b j inf hb, hn.1], ?_⟩
  intro i hi
  by_cases hr : i < infoOff h j ∨ infoOff h j + 8 ≤ i
  · rw [setInfo_getElem?_out h b j inf hb i hr]; exact hn.2 i hi
  · obtain ⟨t, rfl⟩ : ∃ t, i = infoOff h j + t := ⟨i - infoOff h j, by omega⟩
    have ht : t < 8 := by omega
    -- the received bytes of the field
    unfold getInfo at hg
    simp only [hjn, if_true] at hg
    have hsl : (slice raw (infoOff h j) 8).length = 8 := decodeInfo_some_length hg
    obtain ⟨b0, b1, s0, s1, t0, t1, t2, t3, hbytes⟩ :
        ∃ b0 b1 s0 s1 t0 t1 t2 t3, slice raw (infoOff h j) 8 = [b0, b1, s0, s1, t0, t1, t2, t3] := by
      match hx : slice raw (infoOff h j) 8, hsl with
      | [b0, b1, s0, s1, t0, t1, t2, t3], _ => exact ⟨b0, b1, s0, s1, t0, t1, t2, t3, rfl⟩
    rw [hbytes] at hg
    obtain ⟨x, y, henc⟩ := encodeInfo_bytes b0 b1 s0 s1 t0 t1 t2 t3 inf0 inf hg hs
    have hw : (setInfo h b j inf)[infoOff h j + t]? = (encodeInfo inf)[t]? := by
      unfold setInfo
      rw [writeAt_getElem? _ _ _ (by rw [length_encodeInfo]; exact hb)]
      rw [length_encodeInfo]
      have : ¬ infoOff h j + t < infoOff h j := by omega
      simp [this, ht]
    rw [hw, henc, raw_at_of_slice hbytes t ht]
    have hnm : ¬ (2 ≤ t ∧ t < 4) := by
      intro hc; apply hi
      rcases hj with rfl | ⟨hx, rfl⟩
      · right; left; unfold segIDPos; omega
      · right; right; exact ⟨hx, by unfold segIDPos; omega⟩
    have hcases : t = 0 ∨ t = 1 ∨ t = 4 ∨ t = 5 ∨ t = 6 ∨ t = 7 := by omega
    rcases hcases with rfl | rfl | rfl | rfl | rfl | rfl
    · right
      show some (UInt8.ofNat (b0.toNat % 4)) = some (clr h pm (infoOff h j) b0)
      rw [clr_info_flags h pm j b0 hj]
    · right
      show some (0 : UInt8) = some (clr h pm (infoOff h j + 1) b1)
      rw [clr_info_rsv h pm j b1 hj]
    · left; rfl
    · left; rfl
    · left; rfl
    · left; rfl

/-! ### composition along `process` -/

/-- what `incPath` does when it succeeds -/
theorem incPath_ok' {b b' : Base} (e : incPath b = .ok b') :
    b'.pm.currHF = b.pm.currHF + 1 ∧ b'.pm.currINF = infIdx b.pm (b.pm.currHF + 1) ∧
    b'.pm.s0 = b.pm.s0 ∧ b'.pm.s1 = b.pm.s1 ∧ b'.pm.s2 = b.pm.s2 := by
  unfold incPath at e
  split at e
  · cases e
  · split at e
    · cases e
    · cases e; exact ⟨rfl, rfl, rfl, rfl, rfl⟩

/-- the state after the ingress SegID update, relative to the received packet -/
theorem segid_state {h : Hd} {pm : Hdr} {raw : Bytes} {ing : Ingress} {s0 s1 : St}
    (a : ParseOk h pm raw s0) (b : SegIDOk h ing s0 s1) :
    s1.pm = pm ∧ SameButSegID s1.inf s0.inf ∧ s1.buf.length = raw.length ∧
    (∀ m0 m1 m2 m3, slice raw h.pathOff 4 = [m0, m1, m2, m3] → Near h pm raw s1.buf) := by
  have bi := getInfo_some_bound a.inf
  refine ⟨by rw [b.hpm, a.hpm], ?_, ?_, ?_⟩
  · rw [b.inf]; split
    · exact SameButSegID.upd _ _ _ (SameButSegID.refl _)
    · exact SameButSegID.refl _
  · rw [b.buf, a.buf]; split
    · rw [a.hpm]; exact length_setInfo h raw pm.currINF _ bi.2
    · rfl
  · intro m0 m1 m2 m3 _
    rw [b.buf, a.buf]; split
    · rw [a.hpm]
      exact near_setInfo (Near.refl h pm raw) pm.currINF s0.inf _ a.inf
        (SameButSegID.upd _ _ _ (SameButSegID.refl _)) (Or.inl rfl)
    · exact Near.refl h pm raw

/-- the state after the cross-over stage, relative to the received packet: the current info
field is one of the two whose SegID is mutable, and the cached copy differs from the received
one at most in the SegID -/
theorem xover_state {cfg : Cfg} {mac : Mac} {h : Hd} {pm : Hdr} {raw : Bytes} {now : Nat}
    {ing : Ingress} {s0 s1 s5 : St}
    (a : ParseOk h pm raw s0) (b : SegIDOk h ing s0 s1) (x : XoverOk cfg mac h now s1 s5) :
    (s5.pm.currINF = pm.currINF ∨
      (isXover (base h pm) = true ∧ s5.pm.currINF = infIdx pm (pm.currHF + 1))) ∧
    s5.pm.s0 = pm.s0 ∧ s5.pm.s1 = pm.s1 ∧ s5.pm.s2 = pm.s2 ∧
    (∃ inf0, getInfo h raw s5.pm.currINF = some inf0 ∧ SameButSegID s5.inf inf0) ∧
    (∀ m0 m1 m2 m3, slice raw h.pathOff 4 = [m0, m1, m2, m3] → pm = decode (beNat [m0, m1, m2, m3]) →
      Near h pm raw s5.buf) := by
  obtain ⟨hpm1, hsame, hlen, hnear⟩ := segid_state a b
  have bi := getInfo_some_bound a.inf
  cases hdx : doesXover h s1
  · have := x.no hdx; subst this
    refine ⟨Or.inl (by rw [hpm1]), by rw [hpm1], by rw [hpm1], by rw [hpm1], ⟨s0.inf, ?_, hsame⟩, ?_⟩
    · rw [hpm1]; exact a.inf
    · intro m0 m1 m2 m3 hm _; exact hnear m0 m1 m2 m3 hm
  · obtain ⟨b', hinc, hpm', hbuf, _, hi2, _, _, _⟩ := x.yes hdx
    rw [hpm1] at hinc
    obtain ⟨_, e2, e3, e4, e5⟩ := incPath_ok' hinc
    simp only [base] at e2 e3 e4 e5
    have hmeta : h.pathOff + 4 ≤ s1.buf.length := by
      have := pathOff_le_infoOff h pm.currINF; omega
    have hxo : isXover (base h pm) = true := by
      unfold doesXover at hdx
      rw [hpm1] at hdx
      simp at hdx
      exact hdx.1
    have hne : infIdx pm (pm.currHF + 1) ≠ pm.currINF := by
      unfold isXover base at hxo
      simp at hxo
      intro hc; exact hxo.2 hc.symm
    have hraw : getInfo h raw (infIdx pm (pm.currHF + 1)) = some s5.inf := by
      rw [getInfo_setMeta h s1.buf b'.pm hmeta, e2] at hi2
      rw [← hi2, b.buf, a.buf]
      split
      · rw [a.hpm]; exact (getInfo_setInfo_ne h raw pm.currINF _ bi.2 _ hne).symm
      · rfl
    refine ⟨Or.inr ⟨hxo, by rw [hpm', e2]⟩, by rw [hpm', e3], by rw [hpm', e4], by rw [hpm', e5],
      ⟨s5.inf, by rw [hpm', e2]; exact hraw, SameButSegID.refl _⟩, ?_⟩
    intro m0 m1 m2 m3 hm hdec
    rw [hbuf]
    exact near_setMeta (hnear m0 m1 m2 m3 hm) b'.pm m0 m1 m2 m3 hm
      (by rw [e3, hdec]) (by rw [e4, hdec]) (by rw [e5, hdec])

/-- **frame of an accepted packet**: the output buffer of `process` equals the received packet
except in the mutable fields and for cleared reserved bits -/
theorem accept_near (cfg : Cfg) (mac : Mac) (resolve : Cfg → Hd → ResolveOut) (now : Nat)
    (ing : Ingress) (h : Hd) (pm : Hdr) (raw : Bytes)
    (m0 m1 m2 m3 : UInt8) (hm : slice raw h.pathOff 4 = [m0, m1, m2, m3])
    (hdec : pm = decode (beNat [m0, m1, m2, m3]))
    (hacc : (process cfg mac resolve now ing h pm raw).1.accepting = true) :
    Near h pm raw (process cfg mac resolve now ing h pm raw).2 := by
  obtain ⟨s0, s1, p⟩ := process_accepting_inv hacc
  have a := stParse_ok p.parse
  have b := stSegID_ok p.segid
  rw [process_of_passed p] at hacc ⊢
  unfold tail at hacc ⊢
  by_cases hd : h.dstIA = cfg.localIA
  · simp only [hd, beq_self_eq_true, if_true]
    rw [inbound_buf]
    exact (segid_state a b).2.2.2 m0 m1 m2 m3 hm
  · have hb : (h.dstIA == cfg.localIA) = false := by simpa using hd
    simp only [hb, Bool.false_eq_true, if_false] at hacc ⊢
    obtain ⟨s5, l, o⟩ := outbound_accepting_inv hacc
    have x := stXover_ok o.xo
    obtain ⟨hidx, e0, e1, e2, ⟨inf0, hg, hsame⟩, hnear⟩ := xover_state a b x
    have hn5 := hnear m0 m1 m2 m3 hm hdec
    rcases o.buf with ⟨_, s7, hpe, hbuf⟩ | ⟨_, hbuf⟩
    · rw [hbuf]
      obtain ⟨b', hinc, _, hb7⟩ := stProcessEgress_ok hpe
      obtain ⟨_, _, f0, f1, f2⟩ := incPath_ok' hinc
      simp only [base] at f0 f1 f2
      rw [hb7]
      apply near_setMeta _ b'.pm m0 m1 m2 m3 hm (by rw [f0, e0, hdec]) (by rw [f1, e1, hdec])
        (by rw [f2, e2, hdec])
      split
      · exact near_setInfo hn5 s5.pm.currINF inf0 _ hg (SameButSegID.upd _ _ _ hsame) hidx
      · exact hn5
    · rw [hbuf]; exact hn5

/-! ### what the decoder guarantees about the meta line -/

theorem list4_of_length {l : Bytes} (h : l.length = 4) : ∃ a b c d, l = [a, b, c, d] := by
  match l, h with
  | [a, b, c, d], _ => exact ⟨a, b, c, d, rfl⟩

theorem parse_ok_meta {raw : Bytes} {h : Hd} {pm : Hdr} (e : parse raw = .ok h pm) :
    (∃ m0 m1 m2 m3, slice raw h.pathOff 4 = [m0, m1, m2, m3] ∧ pm = decode (beNat [m0, m1, m2, m3])) ∧
    (∃ b, baseDecode pm = some b ∧ h.numINF = b.numINF ∧ h.numHops = b.numHops) := by
  unfold parse at e
  split at e
  · rename_i x0 x1 x2 x3 nh hl pl0 pl1 pt ty x10 x11 rest
    dsimp only at e
    split at e
    · cases e
    · split at e
      · cases e
      · rename_i c1
        split at e
        · cases e
        · rename_i c2
          split at e
          · cases e
          · rename_i c3
            split at e
            · cases e
            · rename_i c4
              split at e
              · cases e
              · rename_i b hb
                split at e
                · cases e
                · split at e
                  · cases e
                  · split at e
                    · cases e
                    · split at e
                      · cases e
                      · cases e
                        simp only
                        have hlen : (slice (x0 :: x1 :: x2 :: x3 :: nh :: hl :: pl0 :: pl1 :: pt :: ty :: x10 :: x11 :: rest)
                            (28 + addrLen (ty.toNat / 16) + addrLen (ty.toNat % 16)) 4).length = 4 := by
                          rw [length_slice]
                          simp only [List.length_cons] at c3 ⊢
                          omega
                        obtain ⟨a, b', c, d, habcd⟩ := list4_of_length hlen
                        refine ⟨⟨a, b', c, d, habcd, ?_⟩, ⟨b, hb, rfl, rfl⟩⟩
                        rw [← habcd]
  · cases e
/-- for a header the decoder accepted, every hop index below NumHops lies in a segment whose
info field exists -/
theorem infIdx_lt_numINF {m : Hdr} {b : Base} (e : baseDecode m = some b) (c : Nat)
    (hc : c < b.numHops) : infIdx m c < b.numINF := by
  obtain ⟨ci, ch, s0, s1, s2⟩ := m
  unfold infIdx
  cases s0 <;> cases s1 <;> cases s2 <;>
    simp [baseDecode, List.foldl, baseStep, segLen, maxHops] at e <;>
    (try (obtain ⟨_, e⟩ := e)) <;> (try subst e) <;> simp at hc ⊢ <;> (try split) <;> (try split) <;> omega

theorem touched_in_range {raw : Bytes} {h : Hd} {pm : Hdr} (hp : parse raw = .ok h pm)
    (hcur : pm.currINF < h.numINF) {j : Nat} (ht : Touched h pm j) : j < h.numINF := by
  rcases ht with rfl | ⟨hx, rfl⟩
  · exact hcur
  · obtain ⟨_, b, hb, h1, h2⟩ := parse_ok_meta hp
    unfold isXover base at hx
    simp at hx
    rw [h1]
    apply infIdx_lt_numINF hb
    rw [← h2]; exact hx.1

theorem accepting_currINF_lt {cfg : Cfg} {mac : Mac} {resolve : Cfg → Hd → ResolveOut} {now : Nat}
    {ing : Ingress} {h : Hd} {pm : Hdr} {raw : Bytes}
    (hacc : (process cfg mac resolve now ing h pm raw).1.accepting = true) : pm.currINF < h.numINF := by
  obtain ⟨s0, s1, p⟩ := process_accepting_inv hacc
  exact (getInfo_some_bound (stParse_ok p.parse).inf).1

/-- outside the meta line and the info fields `clr` never changes anything -/
theorem clr_id_outside {raw : Bytes} {h : Hd} {pm : Hdr} (hp : parse raw = .ok h pm)
    (hcur : pm.currINF < h.numINF) (i : Nat)
    (hi : i < h.pathOff ∨ h.pathOff + 4 + 8 * h.numINF ≤ i) (x : UInt8) : clr h pm i x = x := by
  have hinf : ∀ j, Touched h pm j → i ≠ infoOff h j ∧ i ≠ infoOff h j + 1 := by
    intro j ht
    have hj := touched_in_range hp hcur ht
    have := Nat.mul_le_mul_left 8 hj
    unfold infoOff MetaLen InfoLen
    omega
  unfold clr
  rw [if_neg (by omega), if_neg, if_neg]
  · rintro (hc | ⟨hx, hc⟩)
    · exact (hinf _ (Or.inl rfl)).2 hc
    · exact (hinf _ (Or.inr ⟨hx, rfl⟩)).2 hc
  · rintro (hc | ⟨hx, hc⟩)
    · exact (hinf _ (Or.inl rfl)).1 hc
    · exact (hinf _ (Or.inr ⟨hx, rfl⟩)).1 hc

end Scion.Router
