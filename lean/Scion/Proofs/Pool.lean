import Scion.Model.Pool
/-! Lemmas for C14: every event moves buffers, never copies or drops them. Core Lean only. -/
namespace Scion.Pool

def bufs (h : List (Loc × Buf)) : List Buf := h.map (·.2)

theorem moveOne_perm (h h' : List (Loc × Buf)) (src dst : Loc) (b : Buf)
    (hm : moveOne h src dst b = some h') : (bufs h').Perm (bufs h) := by
  unfold moveOne at hm
  split at hm
  · rename_i hin
    cases hm
    have h1 : h.Perm ((src, b) :: h.erase (src, b)) := List.perm_cons_erase hin
    have h2 : (bufs h).Perm (b :: bufs (h.erase (src, b))) := by
      have := h1.map (·.2)
      simpa [bufs] using this
    have h3 : (bufs (h.erase (src, b) ++ [(dst, b)])).Perm (b :: bufs (h.erase (src, b))) := by
      simp only [bufs, List.map_append, List.map_cons, List.map_nil]
      exact List.perm_append_comm
    exact h3.trans h2.symm
  · cases hm

theorem moveAll_perm (src dst : Loc) (bs : List Buf) : ∀ (h h' : List (Loc × Buf)),
    moveAll h src dst bs = some h' → (bufs h').Perm (bufs h) := by
  induction bs with
  | nil => intro h h' hm; simp only [moveAll] at hm; cases hm; exact List.Perm.refl _
  | cons b bs ih =>
    intro h h' hm
    simp only [moveAll] at hm
    cases h1 : moveOne h src dst b with
    | none => rw [h1] at hm; cases hm
    | some h2 =>
      rw [h1] at hm
      exact (ih h2 h' hm).trans (moveOne_perm h h2 src dst b h1)

theorem step_moveAll (s s' : State) (e : Ev) (hs : step s e = some s') :
    moveAll s.holdings e.move.1 e.move.2.1 e.move.2.2 = some s'.holdings := by
  unfold step at hs
  dsimp only at hs
  split at hs
  · cases hs
  · split at hs
    · split at hs
      · cases hm : moveAll s.holdings (Ev.rxRead _ _).move.1 (Ev.rxRead _ _).move.2.1
            (Ev.rxRead _ _).move.2.2 with
        | none => rw [hm] at hs; cases hs
        | some h' => rw [hm] at hs; cases hs; rfl
      · cases hs
    · cases hm : moveAll s.holdings e.move.1 e.move.2.1 e.move.2.2 with
      | none => rw [hm] at hs; cases hs
      | some h' => rw [hm] at hs; cases hs; rfl

theorem step_perm (s s' : State) (e : Ev) (hs : step s e = some s') :
    (bufs s'.holdings).Perm (bufs s.holdings) :=
  moveAll_perm _ _ _ _ _ (step_moveAll s s' e hs)

theorem run_perm (es : List Ev) : ∀ (s s' : State), run s es = some s' →
    (bufs s'.holdings).Perm (bufs s.holdings) := by
  induction es with
  | nil => intro s s' h; simp only [run] at h; cases h; exact List.Perm.refl _
  | cons e es ih =>
    intro s s' h
    simp only [run] at h
    cases hs : step s e with
    | none => rw [hs] at h; cases h
    | some s1 =>
      rw [hs] at h
      exact (ih s1 s' h).trans (step_perm s s1 e hs)

theorem bufs_init (n : Nat) : bufs (init n).holdings = List.range n := by
  simp only [bufs, init, List.map_map]
  have : ((fun x : Loc × Buf => x.2) ∘ fun b => (Loc.pool, b)) = id := rfl
  rw [this, List.map_id]

/-- in a list whose second components are pairwise distinct, an element is determined by its
second component -/
theorem eq_of_nodup_snd (h : List (Loc × Buf)) (hn : (bufs h).Nodup) (p q : Loc × Buf)
    (hp : p ∈ h) (hq : q ∈ h) (he : p.2 = q.2) : p = q := by
  induction h with
  | nil => cases hp
  | cons x xs ih =>
    simp only [bufs, List.map_cons, List.nodup_cons] at hn
    obtain ⟨hx, hxs⟩ := hn
    rcases List.mem_cons.mp hp with rfl | hp'
    · rcases List.mem_cons.mp hq with rfl | hq'
      · rfl
      · exact absurd (List.mem_map.mpr ⟨q, hq', he.symm⟩) hx
    · rcases List.mem_cons.mp hq with rfl | hq'
      · exact absurd (List.mem_map.mpr ⟨p, hp', he⟩) hx
      · exact ih hxs hp' hq'

/-! ### nothing is lost unless `bfdSend.Send` fails to serialise -/

def NoLost (h : List (Loc × Buf)) : Prop := ∀ p ∈ h, p.1 ≠ Loc.lost

theorem moveOne_noLost (h h' : List (Loc × Buf)) (src dst : Loc) (b : Buf)
    (hd : dst ≠ .lost) (hm : moveOne h src dst b = some h') (hn : NoLost h) : NoLost h' := by
  unfold moveOne at hm
  split at hm
  · cases hm
    intro p hp
    rcases List.mem_append.mp hp with h1 | h1
    · exact hn p (List.mem_of_mem_erase h1)
    · simp only [List.mem_cons, List.mem_nil_iff, or_false] at h1
      rw [h1]; exact hd
  · cases hm

theorem moveAll_noLost (src dst : Loc) (hd : dst ≠ .lost) (bs : List Buf) :
    ∀ (h h' : List (Loc × Buf)), moveAll h src dst bs = some h' → NoLost h → NoLost h' := by
  induction bs with
  | nil => intro h h' hm hn; simp only [moveAll] at hm; cases hm; exact hn
  | cons b bs ih =>
    intro h h' hm hn
    simp only [moveAll] at hm
    cases h1 : moveOne h src dst b with
    | none => rw [h1] at hm; cases hm
    | some h2 =>
      rw [h1] at hm
      exact ih h2 h' hm (moveOne_noLost h h2 src dst b hd h1 hn)

theorem dst_ne_lost (e : Ev) (he : e.isSerializeError = false) : e.move.2.1 ≠ .lost := by
  cases e <;> simp [Ev.move] <;> simp [Ev.isSerializeError] at he

theorem step_noLost (s s' : State) (e : Ev) (he : e.isSerializeError = false)
    (hs : step s e = some s') (hn : NoLost s.holdings) : NoLost s'.holdings :=
  moveAll_noLost _ _ (dst_ne_lost e he) _ _ _ (step_moveAll s s' e hs) hn

theorem run_noLost (es : List Ev) : ∀ (s s' : State), (∀ e ∈ es, e.isSerializeError = false) →
    run s es = some s' → NoLost s.holdings → NoLost s'.holdings := by
  induction es with
  | nil => intro s s' _ h hn; simp only [run] at h; cases h; exact hn
  | cons e es ih =>
    intro s s' hall h hn
    simp only [run] at h
    cases hs : step s e with
    | none => rw [hs] at h; cases h
    | some s1 =>
      rw [hs] at h
      exact ih s1 s' (fun e' he' => hall e' (List.mem_cons_of_mem _ he')) h
        (step_noLost s s1 e (hall e List.mem_cons_self) hs hn)

theorem noLost_init (n : Nat) : NoLost (init n).holdings := by
  intro p hp
  simp only [init, List.mem_map] at hp
  obtain ⟨b, _, rfl⟩ := hp
  intro h; cases h

end Scion.Pool
