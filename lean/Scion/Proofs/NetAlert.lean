import Scion.Proofs.Net
/-! Router alerts (traceroute): which router consumes the flag.  Core Lean only. -/
namespace Scion.Net

theorem stChecks_alert (mac : MacFn) (cfg : RCfg) (now : Nat) (arr : Arrival) (sl dl : Bool)
    (c1 : Cursor) (p b : Bool) (e : Nat) (c' : Cursor)
    (h : stChecks mac cfg now arr sl dl c1 p = .error (.alert b e c')) :
    b = true ∧ e = 0 ∧ arr.ifid ≠ 0 ∧ c' = clearInAlert c1 ∧
      (if c1.info.consDir then c1.cur.inAlert else c1.cur.egAlert) = true ∧
      macOk mac cfg.key c1.info c1.cur = true := by
  unfold stChecks at h
  repeat' split at h
  all_goals (first | (cases h; done) | skip)
  all_goals (cases h)
  all_goals simp_all

theorem stXover_no_alert (mac : MacFn) (cfg : RCfg) (now : Nat) (s : StIn) (b : Bool) (e : Nat)
    (c' : Cursor) : stXover mac cfg now s ≠ .error (.alert b e c') := by
  intro h
  unfold stXover at h
  repeat' split at h
  all_goals (first | (cases h; done) | skip)

theorem stEgress_alert (cfg : RCfg) (arr : Arrival) (x : StX) (b : Bool) (e : Nat) (c' : Cursor)
    (h : stEgress cfg arr x = .alert b e c') :
    b = false ∧ e = egressOf x.c ∧ c' = clearEgAlert x.c ∧
      ∃ eg, egressIface cfg e = some eg ∧ eg.owner = cfg.self ∧
        (if x.c.info.consDir then x.c.cur.egAlert else x.c.cur.inAlert) = true := by
  unfold stEgress at h
  dsimp only at h
  repeat' split at h
  all_goals (first | (cases h; done) | skip)
  all_goals (cases h)
  all_goals (refine ⟨rfl, rfl, rfl, _, by assumption, ?_, ?_⟩ <;> simp_all)

/-- **traceroute ownership on the model.**  A router consumes a router-alert flag only
    * on the ingress side: when the packet came in over one of ITS external links (`arr = ext i`),
      after the hop's MAC verified; the answer is requested for interface `i`;
    * on the egress side: when the egress interface of the hop is owned by THIS router; the answer
      is requested for that interface.
    A sibling router that merely hands the packet on never answers. -/
theorem alert_answered_by_owner (mac : MacFn) (cfg : RCfg) (now : Nat) (arr : Arrival) (sl dl : Bool)
    (c : Cursor) (b : Bool) (e : Nat) (c' : Cursor)
    (h : routerStep mac cfg now arr sl dl c = .alert b e c') :
    (b = true ∧ e = 0 ∧ ∃ i, arr = .ext i ∧ i ≠ 0) ∨
    (b = false ∧ ∃ eg, egressIface cfg e = some eg ∧ eg.owner = cfg.self) := by
  unfold routerStep at h
  split at h
  · rename_i o ho
    subst h
    unfold stIngress at ho
    split at ho
    · cases ho
    · split at ho
      · cases ho
      · obtain ⟨hb, he, hi, _⟩ := stChecks_alert _ _ _ _ _ _ _ _ _ _ _ ho
        left
        refine ⟨hb, he, ?_⟩
        cases arr with
        | host => simp [Arrival.ifid] at hi
        | sibling k => simp [Arrival.ifid] at hi
        | ext i => exact ⟨i, rfl, by simpa [Arrival.ifid] using hi⟩
  · rename_i s hs
    split at h
    · cases h
    · split at h
      · rename_i o ho
        subst h
        exact absurd ho (stXover_no_alert _ _ _ _ _ _ _)
      · rename_i x hx
        obtain ⟨hb, _, _, eg, heg, hown, _⟩ := stEgress_alert _ _ _ _ _ _ h
        exact Or.inr ⟨hb, eg, heg, hown⟩

end Scion.Net
