import Scion.Model.GwFrames
import Scion.Proofs.GwFramesScan
import Scion.Proofs.GwFramesEnc
/-! C41 helper lemmas, part 3: the sender's output as a *trace* of steps, each annotated with the
packet in progress before and after the frame and the packets the frame completes. -/
namespace Scion.Proofs.GwFrames
open Scion.GwFrames Scion.Util

/-- the packet in progress and the number of its bytes already carried by earlier frames -/
abbrev Pend := Option (Bytes × Nat)

def Pend.pkt : Pend → List Bytes
  | none => []
  | some (p, _) => [p]

def tailOf : Pend → Bytes
  | none => []
  | some (p, c) => p.drop c

def PendOK : Pend → Prop
  | none => True
  | some (p, c) => validPkt p = true ∧ 0 < c ∧ c < p.length

def postOf (h : Bytes) : Option Bytes → Pend
  | none => none
  | some p => some (p, h.length)

structure Step where
  f : Frame
  pre : Pend
  post : Pend
  /-- packets that start and end in this frame -/
  qs : List Bytes
  /-- the frame carries the end of the packet in progress (if any) -/
  completes : Bool

/-- the packets completed by the frame, in order -/
def Step.done (s : Step) : List Bytes := (if s.completes then s.pre.pkt else []) ++ s.qs

inductive StepOK (mtu : Nat) : Step → Prop
  /-- a full slice of the packet in progress, which continues -/
  | middle (p : Bytes) (c : Nat) (f : Frame) :
      validPkt p = true → 0 < c → c + (mtu - hdrLen) < p.length →
      f.payload = (p.drop c).take (mtu - hdrLen) → f.index = noIndex →
      StepOK mtu ⟨f, some (p, c), some (p, c + (mtu - hdrLen)), [], false⟩
  /-- rest of the packet in progress ++ complete packets ++ head of the next packet -/
  | general (pre : Pend) (qs : List Bytes) (h : Bytes) (cur : Option Bytes) (f : Frame) :
      PendOK pre → (∀ x ∈ qs, validPkt x = true) → HeadOK h cur →
      f.payload = tailOf pre ++ qs.flatten ++ h →
      f.index = (if qs = [] ∧ cur = none then noIndex else (tailOf pre).length) →
      ((qs ≠ [] ∨ cur ≠ none) → (tailOf pre).length < noIndex) →
      StepOK mtu ⟨f, pre, postOf h cur, qs, true⟩

def ResOK (res : Bytes) (pre : Pend) : Prop := PendOK pre ∧ res = tailOf pre

theorem postOf_ok (h : Bytes) (cur : Option Bytes) (hh : HeadOK h cur) :
    ResOK (resOf h cur) (postOf h cur) := by
  cases cur with
  | none => exact ⟨trivial, rfl⟩
  | some p =>
    obtain ⟨hv, k, rfl, hk, hlt⟩ := hh
    have hl : (p.take k).length = k := by simp [List.length_take]; omega
    exact ⟨⟨hv, by omega, by omega⟩, rfl⟩

theorem postOf_pkt (h : Bytes) (cur : Option Bytes) : (postOf h cur).pkt = cur.toList := by
  cases cur <;> rfl

/-- what one `encoder.Read` does, in terms of steps -/
theorem readFrame_step (mtu epoch : Nat) (hm : 56 ≤ mtu) (hM : mtu ≤ 65535) (st : EncSt)
    (queue : List Bytes) (sched : List Bool) (pre : Pend) (hr : ResOK st.res pre) :
    match readFrame mtu epoch st queue sched with
    | .nothing _ _ => pre = none ∧ queue.filter validPkt = []
    | .frame f st' q' _ =>
      ∃ step : Step, step.f = f ∧ step.pre = pre ∧ StepOK mtu step ∧ f.seq = st.seq ∧
        f.epoch = epoch ∧ st'.seq = st.seq + 1 ∧ ResOK st'.res step.post ∧
        pre.pkt ++ queue.filter validPkt = step.done ++ step.post.pkt ++ q'.filter validPkt ∧
        st'.res.length + totalLen q' < st.res.length + totalLen queue := by
  obtain ⟨hp, hres⟩ := hr
  cases pre with
  | some pc =>
    obtain ⟨p, c⟩ := pc
    obtain ⟨hv, hc0, hcl⟩ := hp
    simp only [tailOf] at hres
    have hrl : st.res.length = p.length - c := by rw [hres]; simp
    have hne : st.res.isEmpty = false := by
      rw [List.isEmpty_eq_false_iff]; intro he; rw [he] at hrl; simp at hrl; omega
    unfold readFrame
    simp only [hne, Bool.not_false, if_true]
    by_cases hbig : mtu - hdrLen < st.res.length
    · -- middle frame
      have hmin : min (mtu - hdrLen) st.res.length = mtu - hdrLen := by omega
      have hd : (st.res.drop (mtu - hdrLen)).isEmpty = false := by
        rw [List.isEmpty_eq_false_iff]; intro he
        have := congrArg List.length he
        simp only [List.length_drop, List.length_nil] at this
        omega
      simp only [hmin, hd, Bool.not_false, if_true]
      refine ⟨⟨⟨noIndex, epoch, st.seq, st.res.take (mtu - hdrLen)⟩, some (p, c),
        some (p, c + (mtu - hdrLen)), [], false⟩, rfl, rfl, ?_, by first | rfl | trivial,
        by first | rfl | trivial, by first | rfl | trivial, ?_, ?_, ?_⟩
      · exact StepOK.middle p c _ hv hc0 (by omega) (by simp [hres]) rfl
      · refine ⟨⟨hv, by omega, by omega⟩, ?_⟩
        simp only [tailOf, hres, List.drop_drop]
        try (congr 1; omega)
      · simp [Step.done, Pend.pkt]
      · simp only [List.length_drop, hdrLen] at *; omega
    · -- the rest of the packet fits; more packets may follow
      have hmin : min (mtu - hdrLen) st.res.length = st.res.length := by omega
      have hd : (st.res.drop st.res.length).isEmpty = true := by simp
      simp only [hmin, hd, Bool.not_true, Bool.false_eq_true, if_false, List.take_length]
      obtain ⟨qs, h, cur, sp⟩ := fill_shape mtu queue sched st.res none
      refine ⟨⟨_, some (p, c), postOf h cur, qs, true⟩, rfl, rfl, ?_, by first | rfl | trivial,
        by first | rfl | trivial, by first | rfl | trivial, ?_, ?_, ?_⟩
      · refine StepOK.general (some (p, c)) qs h cur _ ⟨hv, hc0, hcl⟩ sp.valid sp.head ?_ ?_ ?_
        · simp only [tailOf, ← hres]; exact sp.payload
        · simp only [tailOf, ← hres, sp.index, idxOf]
          split <;> rfl
        · intro hq
          have := sp.room hq
          simp only [tailOf, ← hres, hdrLen, noIndex] at *
          omega
      · simp only [sp.res]; exact postOf_ok h cur sp.head
      · simp only [Step.done, if_true, postOf_pkt]
        rw [sp.owed]; simp [Pend.pkt]
      · have := (fill_measure mtu queue sched st.res none).1
        omega
  | none =>
    simp only [tailOf] at hres
    unfold readFrame
    simp only [hres, List.isEmpty_nil, Bool.not_true, Bool.false_eq_true, if_false]
    obtain ⟨qs, h, cur, sp⟩ := fill_shape mtu queue sched [] none
    cases he : (fill mtu queue sched [] none).eof with
    | true =>
      simp only [if_true]
      obtain ⟨_, hq, hc, hrest⟩ := sp.eof he
      refine ⟨by first | rfl | trivial, ?_⟩
      rw [sp.owed, hq, hc, hrest]; rfl
    | false =>
      simp only [Bool.false_eq_true, if_false]
      refine ⟨⟨_, none, postOf h cur, qs, true⟩, rfl, rfl, ?_, by first | rfl | trivial,
        by first | rfl | trivial, by first | rfl | trivial, ?_, ?_, ?_⟩
      · refine StepOK.general none qs h cur _ trivial sp.valid sp.head ?_ ?_ ?_
        · simp only [tailOf]; exact sp.payload
        · simp only [tailOf, sp.index, idxOf]
          split <;> rfl
        · intro _; simp [tailOf, noIndex]
      · simp only [sp.res]; exact postOf_ok h cur sp.head
      · simp only [Step.done, if_true, postOf_pkt]
        rw [sp.owed]; simp [Pend.pkt]
      · have := (fill_measure mtu queue sched [] none).2 hm rfl he
        simp only [List.length_nil, Nat.zero_add]
        exact this

/-- a well-formed trace: consecutive sequence numbers, one epoch, the packet in progress handed
from step to step -/
def TraceOK (mtu epoch : Nat) : Nat → Pend → List Step → Prop
  | _, _, [] => True
  | s, pre, st :: rest =>
    st.pre = pre ∧ st.f.seq = s ∧ st.f.epoch = epoch ∧ StepOK mtu st ∧
      TraceOK mtu epoch (s + 1) st.post rest

/-- the packet in progress after the last step -/
def finalPost : Pend → List Step → Pend
  | pre, [] => pre
  | _, st :: rest => finalPost st.post rest

/-- the sender's frames form a well-formed trace; with enough fuel the trace completes exactly
the packet in progress and the valid packets of the queue, in order, and leaves nothing pending;
every packet ever in progress is one of them -/
theorem encodeF_trace (mtu epoch : Nat) (hm : 56 ≤ mtu) (hM : mtu ≤ 65535) :
    ∀ (fuel : Nat) (st : EncSt) (queue : List Bytes) (sched : List Bool) (pre : Pend),
      ResOK st.res pre →
      ∃ tr : List Step, TraceOK mtu epoch st.seq pre tr ∧
        tr.map (·.f) = encodeF mtu epoch fuel st queue sched ∧
        (∀ s ∈ tr, ∀ x ∈ s.pre.pkt, x ∈ pre.pkt ++ queue.filter validPkt) ∧
        (st.res.length + totalLen queue < fuel →
          tr.flatMap Step.done = pre.pkt ++ queue.filter validPkt ∧ finalPost pre tr = none) := by
  intro fuel
  induction fuel with
  | zero =>
    intro st queue sched pre _
    refine ⟨[], trivial, rfl, ?_, ?_⟩
    · intro s hs; cases hs
    · intro h; omega
  | succ fuel ih =>
    intro st queue sched pre hr
    have hstep := readFrame_step mtu epoch hm hM st queue sched pre hr
    rw [encodeF]
    cases hrf : readFrame mtu epoch st queue sched with
    | nothing st' s' =>
      rw [hrf] at hstep
      obtain ⟨hp, hq⟩ := hstep
      refine ⟨[], trivial, rfl, ?_, ?_⟩
      · intro s hs; cases hs
      · intro _; rw [hp, hq]; exact ⟨rfl, rfl⟩
    | frame f st' q' s' =>
      rw [hrf] at hstep
      obtain ⟨step, hf, hpre, hok, hseq, hep, hseq', hres', howed, hmeas⟩ := hstep
      obtain ⟨tr, htr, hmap, hmem, hdone⟩ := ih st' q' s' step.post hres'
      refine ⟨step :: tr, ?_, ?_, ?_, ?_⟩
      · refine ⟨hpre, by rw [hf]; exact hseq, by rw [hf]; exact hep, hok, ?_⟩
        rw [← hseq']; exact htr
      · simp only [List.map_cons, hf, hmap]
      · intro s hs x hx
        rcases List.mem_cons.1 hs with rfl | hs
        · rw [hpre] at hx; exact List.mem_append_left _ hx
        · have := hmem s hs x hx
          rw [howed]
          rcases List.mem_append.1 this with h1 | h1
          · exact List.mem_append_left _ (List.mem_append_right _ h1)
          · exact List.mem_append_right _ h1
      · intro hfuel
        obtain ⟨hd1, hd2⟩ := hdone (by omega)
        refine ⟨?_, hd2⟩
        simp only [List.flatMap_cons]
        rw [hd1, howed]
        simp

/-- facts about the `k`-th step of a well-formed trace -/
theorem trace_get (mtu ep : Nat) : ∀ (tr : List Step) (s : Nat) (pre : Pend),
    TraceOK mtu ep s pre tr → ∀ (k : Nat) (hk : k < tr.length),
      (tr[k]).f.seq = s + k ∧ (tr[k]).f.epoch = ep ∧ StepOK mtu (tr[k]) ∧
        (∀ hk1 : k + 1 < tr.length, (tr[k + 1]).pre = (tr[k]).post) := by
  intro tr
  induction tr with
  | nil => intro s pre _ k hk; simp at hk
  | cons a tr ih =>
    intro s pre h k hk
    obtain ⟨h1, h2, h3, h4, h5⟩ := h
    cases k with
    | zero =>
      refine ⟨h2, h3, h4, ?_⟩
      intro hk1
      cases tr with
      | nil => simp at hk1
      | cons b tr => exact h5.1
    | succ k =>
      have hk' : k < tr.length := by simp only [List.length_cons] at hk; omega
      obtain ⟨i1, i2, i3, i4⟩ := ih (s + 1) a.post h5 k hk'
      refine ⟨by simp only [List.getElem_cons_succ]; omega, i2, i3, ?_⟩
      intro hk1
      exact i4 (by simp only [List.length_cons] at hk1; omega)

/-- the bytes of the packet in progress that earlier frames already carried -/
def carried : Pend → Bytes
  | none => []
  | some (p, c) => p.take c

/-- the frames carry exactly the bytes of the packets they complete (plus the part of the packet
still in progress) -/
theorem trace_bytes (mtu ep : Nat) : ∀ (tr : List Step) (s : Nat) (pre : Pend),
    TraceOK mtu ep s pre tr →
      carried pre ++ (tr.map (·.f.payload)).flatten =
        (tr.flatMap Step.done).flatten ++ carried (finalPost pre tr) := by
  intro tr
  induction tr with
  | nil => intro s pre _; simp [finalPost]
  | cons a tr ih =>
    intro s pre h
    obtain ⟨h1, _, _, h4, h5⟩ := h
    have := ih (s + 1) a.post h5
    simp only [List.map_cons, List.flatten_cons, List.flatMap_cons, List.flatten_append, finalPost,
      List.append_assoc]
    rw [← this, ← List.append_assoc, ← List.append_assoc]
    congr 1
    subst h1
    cases h4 with
    | middle p c f hv hc hlt hpl hidx =>
      simp only [carried, Step.done, Pend.pkt, Bool.false_eq_true, if_false, List.flatten_nil,
        List.nil_append, hpl, List.append_nil]
      rw [← List.take_add]
    | general pre qs h cur f hp hq hh hpl hidx hb =>
      simp only [Step.done, if_true, hpl]
      cases pre with
      | none =>
        simp only [carried, tailOf, Pend.pkt, List.nil_append]
        cases cur with
        | none => simp only [HeadOK] at hh; simp [hh, postOf]
        | some p' =>
          obtain ⟨_, k, rfl, _, _⟩ := hh
          simp [postOf, List.length_take]
      | some pc =>
        obtain ⟨p, c⟩ := pc
        simp only [carried, tailOf, Pend.pkt, List.singleton_append, List.flatten_cons]
        rw [← List.append_assoc, ← List.append_assoc, List.take_append_drop]
        cases cur with
        | none => simp only [HeadOK] at hh; simp [hh, postOf]
        | some p' =>
          obtain ⟨_, k, rfl, _, _⟩ := hh
          simp [postOf, List.length_take]

end Scion.Proofs.GwFrames
