import Scion.Model.Seq
/-! The derivative matcher `Rx.accepts` decides the usual language of a regular expression. -/
namespace Scion.Seq.Rx
variable {π α : Type} (sat : π → α → Bool)

/-- the regular-expression meaning, by recursion on the expression -/
def Lang : Rx π → List α → Prop
  | zero, _ => False
  | eps, w => w = []
  | atom p, w => ∃ x, w = [x] ∧ sat p x = true
  | cat a b, w => ∃ u v, w = u ++ v ∧ Lang a u ∧ Lang b v
  | alt a b, w => Lang a w ∨ Lang b w
  | opt a, w => w = [] ∨ Lang a w
  | plus a, w => ∃ ws : List (List α), ws ≠ [] ∧ w = ws.flatten ∧ ∀ u ∈ ws, Lang a u
  | star a, w => ∃ ws : List (List α), w = ws.flatten ∧ ∀ u ∈ ws, Lang a u

theorem accepts_nil (e : Rx π) : accepts sat e [] = e.nullable := rfl

theorem accepts_cons (e : Rx π) (x : α) (xs : List α) :
    accepts sat e (x :: xs) = accepts sat (deriv sat e x) xs := rfl

theorem accepts_zero (w : List α) : accepts sat (zero : Rx π) w = false := by
  induction w with
  | nil => rfl
  | cons x xs ih => simpa [accepts_cons, deriv] using ih

theorem accepts_eps (w : List α) : accepts sat (eps : Rx π) w = w.isEmpty := by
  cases w with
  | nil => rfl
  | cons x xs => simp [accepts_cons, deriv, accepts_zero]

theorem accepts_atom (p : π) (w : List α) :
    accepts sat (atom p) w = true ↔ ∃ x, w = [x] ∧ sat p x = true := by
  cases w with
  | nil => simp [accepts_nil, nullable]
  | cons x xs =>
    rw [accepts_cons]
    simp only [deriv]
    by_cases h : sat p x = true
    · simp only [h, if_true, accepts_eps]
      cases xs <;> simp [h]
    · simp [h, accepts_zero]

theorem accepts_alt (a b : Rx π) (w : List α) :
    accepts sat (alt a b) w = (accepts sat a w || accepts sat b w) := by
  induction w generalizing a b with
  | nil => rfl
  | cons x xs ih => simp only [accepts_cons, deriv, ih]

theorem accepts_cat (a b : Rx π) (w : List α) :
    accepts sat (cat a b) w = true ↔
      ∃ u v, w = u ++ v ∧ accepts sat a u = true ∧ accepts sat b v = true := by
  induction w generalizing a b with
  | nil =>
    simp only [accepts_nil, nullable, Bool.and_eq_true]
    constructor
    · intro h; exact ⟨[], [], rfl, h.1, h.2⟩
    · rintro ⟨u, v, huv, hu, hv⟩
      have : u = [] ∧ v = [] := by simpa using huv.symm
      rw [this.1] at hu; rw [this.2] at hv
      exact ⟨hu, hv⟩
  | cons x xs ih =>
    rw [accepts_cons]
    simp only [deriv]
    by_cases hn : a.nullable = true
    · simp only [hn, if_true, accepts_alt, Bool.or_eq_true, ih]
      constructor
      · rintro (⟨u, v, huv, hu, hv⟩ | h)
        · exact ⟨x :: u, v, by simp [huv], hu, hv⟩
        · exact ⟨[], x :: xs, rfl, hn, h⟩
      · rintro ⟨u, v, huv, hu, hv⟩
        cases u with
        | nil =>
          right
          simp only [List.nil_append] at huv
          rw [← huv] at hv; exact hv
        | cons y ys =>
          left
          simp only [List.cons_append, List.cons.injEq] at huv
          obtain ⟨rfl, rfl⟩ := huv
          exact ⟨ys, v, rfl, hu, hv⟩
    · simp only [hn, if_false, ih, Bool.false_eq_true]
      constructor
      · rintro ⟨u, v, huv, hu, hv⟩
        exact ⟨x :: u, v, by simp [huv], hu, hv⟩
      · rintro ⟨u, v, huv, hu, hv⟩
        cases u with
        | nil => exact absurd hu hn
        | cons y ys =>
          simp only [List.cons_append, List.cons.injEq] at huv
          obtain ⟨rfl, rfl⟩ := huv
          exact ⟨ys, v, rfl, hu, hv⟩

theorem accepts_opt (a : Rx π) (w : List α) :
    accepts sat (opt a) w = (w.isEmpty || accepts sat a w) := by
  cases w with
  | nil => rfl
  | cons x xs => simp [accepts_cons, deriv]

/-- a non-empty word is in `a*` iff it splits into a non-empty first factor in `a` and a rest
    in `a*` -/
theorem accepts_star_cons (a : Rx π) (x : α) (xs : List α) :
    accepts sat (star a) (x :: xs) = true ↔
      ∃ u v, xs = u ++ v ∧ accepts sat a (x :: u) = true ∧ accepts sat (star a) v = true := by
  rw [accepts_cons]
  simp only [deriv, accepts_cat]
  rfl

theorem accepts_plus_cons (a : Rx π) (x : α) (xs : List α) :
    accepts sat (plus a) (x :: xs) = true ↔
      ∃ u v, xs = u ++ v ∧ accepts sat a (x :: u) = true ∧ accepts sat (star a) v = true := by
  rw [accepts_cons]
  simp only [deriv, accepts_cat]
  rfl

theorem accepts_star_of_flatten (a : Rx π) (ws : List (List α))
    (h : ∀ u ∈ ws, accepts sat a u = true) : accepts sat (star a) ws.flatten = true := by
  induction ws with
  | nil => rfl
  | cons u ws ih =>
    have hu := h u (by simp)
    have hr := ih (fun v hv => h v (by simp [hv]))
    cases u with
    | nil => simpa using hr
    | cons x xs =>
      simp only [List.flatten_cons, List.cons_append]
      rw [accepts_star_cons]
      exact ⟨xs, ws.flatten, rfl, hu, hr⟩

theorem flatten_of_accepts_star (a : Rx π) : ∀ (n : Nat) (w : List α), w.length ≤ n →
    accepts sat (star a) w = true →
    ∃ ws : List (List α), w = ws.flatten ∧ ∀ u ∈ ws, u ≠ [] ∧ accepts sat a u = true := by
  intro n
  induction n with
  | zero =>
    intro w hl _
    have : w = [] := by cases w <;> simp_all
    exact ⟨[], by simp [this], by simp⟩
  | succ n ih =>
    intro w hl h
    cases w with
    | nil => exact ⟨[], by simp, by simp⟩
    | cons x xs =>
      rw [accepts_star_cons] at h
      obtain ⟨u, v, huv, hu, hv⟩ := h
      have hvl : v.length ≤ n := by
        have : xs.length = u.length + v.length := by rw [huv]; simp
        simp only [List.length_cons] at hl
        omega
      obtain ⟨ws, hws, hall⟩ := ih v hvl hv
      refine ⟨(x :: u) :: ws, by simp [huv, hws], ?_⟩
      intro t ht
      simp only [List.mem_cons] at ht
      rcases ht with rfl | ht
      · exact ⟨by simp, hu⟩
      · exact hall t ht

/-- `a*`: concatenations of words of `a` -/
theorem accepts_star_iff (a : Rx π) (w : List α) :
    accepts sat (star a) w = true ↔
      ∃ ws : List (List α), w = ws.flatten ∧ ∀ u ∈ ws, accepts sat a u = true := by
  constructor
  · intro h
    obtain ⟨ws, hws, hall⟩ := flatten_of_accepts_star sat a w.length w (Nat.le_refl _) h
    exact ⟨ws, hws, fun u hu => (hall u hu).2⟩
  · rintro ⟨ws, rfl, hall⟩
    exact accepts_star_of_flatten sat a ws hall

/-- `a+ = a a*` -/
theorem accepts_plus (a : Rx π) (w : List α) :
    accepts sat (plus a) w = true ↔
      ∃ u v, w = u ++ v ∧ accepts sat a u = true ∧ accepts sat (star a) v = true := by
  cases w with
  | nil =>
    simp only [accepts_nil, nullable]
    constructor
    · intro h; exact ⟨[], [], rfl, h, rfl⟩
    · rintro ⟨u, v, huv, hu, _⟩
      have : u = [] := by
        have := huv.symm; simp at this; exact this.1
      rw [this] at hu; exact hu
  | cons x xs =>
    rw [accepts_plus_cons]
    constructor
    · rintro ⟨u, v, huv, hu, hv⟩
      exact ⟨x :: u, v, by simp [huv], hu, hv⟩
    · rintro ⟨u, v, huv, hu, hv⟩
      cases u with
      | nil =>
        simp only [List.nil_append] at huv
        rw [← huv, accepts_star_cons] at hv
        exact hv
      | cons y ys =>
        simp only [List.cons_append, List.cons.injEq] at huv
        obtain ⟨rfl, rfl⟩ := huv
        exact ⟨ys, v, rfl, hu, hv⟩

/-- `a+`: non-empty concatenations of words of `a` -/
theorem accepts_plus_iff (a : Rx π) (w : List α) :
    accepts sat (plus a) w = true ↔
      ∃ ws : List (List α), ws ≠ [] ∧ w = ws.flatten ∧ ∀ u ∈ ws, accepts sat a u = true := by
  rw [accepts_plus]
  constructor
  · rintro ⟨u, v, rfl, hu, hv⟩
    obtain ⟨ws, rfl, hall⟩ := (accepts_star_iff sat a v).1 hv
    refine ⟨u :: ws, by simp, by simp, ?_⟩
    intro t ht
    simp only [List.mem_cons] at ht
    rcases ht with rfl | ht
    · exact hu
    · exact hall t ht
  · rintro ⟨ws, hne, rfl, hall⟩
    cases ws with
    | nil => exact absurd rfl hne
    | cons u ws =>
      exact ⟨u, ws.flatten, by simp, hall u (by simp),
        accepts_star_of_flatten sat a ws (fun v hv => hall v (by simp [hv]))⟩

/-- **the matcher decides the language** -/
theorem accepts_iff_lang (e : Rx π) : ∀ w : List α, accepts sat e w = true ↔ Lang sat e w := by
  induction e with
  | zero => intro w; simp [accepts_zero, Lang]
  | eps => intro w; simp [accepts_eps, Lang]
  | atom p => intro w; simp [accepts_atom, Lang]
  | cat a b iha ihb =>
    intro w
    rw [accepts_cat]
    simp only [Lang]
    constructor
    · rintro ⟨u, v, h, hu, hv⟩; exact ⟨u, v, h, (iha u).1 hu, (ihb v).1 hv⟩
    · rintro ⟨u, v, h, hu, hv⟩; exact ⟨u, v, h, (iha u).2 hu, (ihb v).2 hv⟩
  | alt a b iha ihb =>
    intro w
    simp only [accepts_alt, Bool.or_eq_true, Lang, iha w, ihb w]
  | opt a iha =>
    intro w
    simp only [accepts_opt, Bool.or_eq_true, Lang, iha w, List.isEmpty_iff]
  | plus a iha =>
    intro w
    rw [accepts_plus_iff]
    simp only [Lang]
    constructor
    · rintro ⟨ws, h1, h2, h3⟩; exact ⟨ws, h1, h2, fun u hu => (iha u).1 (h3 u hu)⟩
    · rintro ⟨ws, h1, h2, h3⟩; exact ⟨ws, h1, h2, fun u hu => (iha u).2 (h3 u hu)⟩
  | star a iha =>
    intro w
    rw [accepts_star_iff]
    simp only [Lang]
    constructor
    · rintro ⟨ws, h2, h3⟩; exact ⟨ws, h2, fun u hu => (iha u).1 (h3 u hu)⟩
    · rintro ⟨ws, h2, h3⟩; exact ⟨ws, h2, fun u hu => (iha u).2 (h3 u hu)⟩

end Scion.Seq.Rx
