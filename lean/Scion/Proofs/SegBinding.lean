import Scion.Model.SegVerify
/-!
Position binding for path segments (helper for C24): because entry `k` is signed together with the
concatenation `info ‖ hb₀ ‖ sig₀ ‖ … ‖ hb_{k-1} ‖ sig_{k-1}`, a list of entries each of which is
"one of the signed entries, with exactly the associated data it was signed with" is a contiguous
run of the signed list.  Pure list reasoning; the cryptographic input is abstracted into `Bound`.
-/
namespace Scion.SegVerify
open Scion.Util (Bytes)

/-- the bytes the entries contribute to later associated data -/
def flatE (es : List RawEntry) : Bytes := (es.flatMap fun e => [e.hb, e.sig]).flatten

@[simp] theorem flatE_nil : flatE [] = [] := rfl

@[simp] theorem flatE_cons (e : RawEntry) (es : List RawEntry) :
    flatE (e :: es) = e.hb ++ (e.sig ++ flatE es) := by
  simp [flatE]

@[simp] theorem flatE_append (a b : List RawEntry) : flatE (a ++ b) = flatE a ++ flatE b := by
  induction a with
  | nil => simp
  | cons e t ih => simp [ih]

theorem assocData_flatten (info : Bytes) (earlier : List RawEntry) :
    (assocData info earlier).flatten = info ++ flatE earlier := by
  simp [assocData, flatE]

theorem flatE_eq_nil {es : List RawEntry} (hne : ∀ e ∈ es, e.hb ≠ []) (h : flatE es = []) :
    es = [] := by
  cases es with
  | nil => rfl
  | cons e t =>
    simp only [flatE_cons, List.append_eq_nil_iff] at h
    exact absurd h.1 (hne e (by simp))

/-- two prefixes of the same list that contribute the same bytes are equal -/
theorem prefix_unique {es a r a2 r2 : List RawEntry} (hne : ∀ e ∈ es, e.hb ≠ [])
    (h1 : es = a ++ r) (h2 : es = a2 ++ r2) (hf : flatE a = flatE a2) : a = a2 := by
  have h12 : a ++ r = a2 ++ r2 := h1.symm.trans h2
  rcases List.append_eq_append_iff.mp h12 with ⟨c, hc, _⟩ | ⟨c, hc, _⟩
  · -- a2 = a ++ c
    rw [hc, flatE_append] at hf
    have hcn : flatE c = [] := by
      have := congrArg List.length hf
      simp only [List.length_append] at this
      exact List.eq_nil_of_length_eq_zero (by omega)
    have : c = [] := flatE_eq_nil (fun e he => hne e (by rw [h2, hc]; simp [he])) hcn
    rw [hc, this, List.append_nil]
  · rw [hc, flatE_append] at hf
    have hcn : flatE c = [] := by
      have := congrArg List.length hf
      simp only [List.length_append] at this
      exact List.eq_nil_of_length_eq_zero (by omega)
    have : c = [] := flatE_eq_nil (fun e he => hne e (by rw [h1, hc]; simp [he])) hcn
    rw [hc, this, List.append_nil]

/-- lists that agree entry by entry, except that the signature of the *last* entry is free (it is
covered by no later signature) -/
def Agree : List RawEntry → List RawEntry → Prop
  | [], [] => True
  | [e'], [e] => e'.hb = e.hb
  | e' :: x' :: t', e :: x :: t => e' = e ∧ Agree (x' :: t') (x :: t)
  | _, _ => False

theorem Agree.ne_nil {l' l : List RawEntry} (h : Agree l' l) (hl : l' ≠ []) : l ≠ [] := by
  cases l' with
  | nil => exact absurd rfl hl
  | cons e' t' =>
    cases l with
    | nil => cases t' <;> simp [Agree] at h
    | cons e t => simp

theorem Agree.length_eq : ∀ {l' l : List RawEntry}, Agree l' l → l'.length = l.length
  | [], [], _ => rfl
  | [_], [_], _ => rfl
  | _ :: x' :: t', _ :: x :: t, h => by
    have := Agree.length_eq (l' := x' :: t') (l := x :: t) h.2
    simp only [List.length_cons] at this ⊢
    omega
  | [], _ :: _, h => by simp [Agree] at h
  | [_], [], h => by simp [Agree] at h
  | [_], _ :: _ :: _, h => by simp [Agree] at h
  | _ :: _ :: _, [], h => by simp [Agree] at h
  | _ :: _ :: _, [_], h => by simp [Agree] at h

/-- what the signatures bind, abstractly: every entry `e'` of the candidate `(pre', es')` carries
an accepted signature and is one of the signed entries `e` of `(pre, es)`, placed after exactly
the bytes `e` was signed after -/
def Bound (V : Bytes → Prop) (pre : Bytes) (es : List RawEntry) (pre' : Bytes)
    (es' : List RawEntry) : Prop :=
  ∀ a' e' b', es' = a' ++ e' :: b' →
    V e'.sig ∧ ∃ a e b, es = a ++ e :: b ∧ e'.hb = e.hb ∧ pre' ++ flatE a' = pre ++ flatE a

theorem Bound.tail {V : Bytes → Prop} {pre pre' : Bytes} {es t' : List RawEntry} {e' : RawEntry}
    (h : Bound V pre es pre' (e' :: t')) : Bound V pre es (pre' ++ (e'.hb ++ e'.sig)) t' := by
  intro a'' y b'' hs
  obtain ⟨hv, a, e, b, h1, h2, h3⟩ := h (e' :: a'') y b'' (by simp [hs])
  refine ⟨hv, a, e, b, h1, h2, ?_⟩
  rw [← h3]
  simp [List.append_assoc]

/-- the step of the induction: the entry that follows `e` in the candidate sits, in the signed
list, right after `e`, and the candidate carries `e`'s signature -/
theorem next_position {V : Bytes → Prop} (PF : ∀ σ x, V σ → V (σ ++ x) → x = [])
    {es a b a2 b2 : List RawEntry} {e e2 : RawEntry} {σ' : Bytes}
    (hne : ∀ x ∈ es, x.hb ≠ []) (hV : ∀ x ∈ es, V x.sig) (hσ : V σ')
    (h1 : es = a ++ e :: b) (h2 : es = a2 ++ e2 :: b2)
    (hf : flatE a2 = flatE a ++ (e.hb ++ σ')) : σ' = e.sig ∧ a2 = a ++ [e] := by
  have h12 : a ++ e :: b = a2 ++ e2 :: b2 := h1.symm.trans h2
  have ehb : e.hb ≠ [] := hne e (by rw [h1]; simp)
  rcases List.append_eq_append_iff.mp h12 with ⟨c, hc, hc2⟩ | ⟨c, hc, hc2⟩
  · -- a2 = a ++ c,  e :: b = c ++ e2 :: b2
    cases c with
    | nil =>
      rw [hc, List.append_nil] at hf
      have := congrArg List.length hf
      simp only [List.length_append] at this
      have : e.hb.length = 0 := by omega
      exact absurd (List.eq_nil_of_length_eq_zero this) ehb
    | cons y c' =>
      simp only [List.cons_append, List.cons.injEq] at hc2
      obtain ⟨rfl, hb⟩ := hc2
      rw [hc, flatE_append, flatE_cons] at hf
      have hf' : e.sig ++ flatE c' = σ' := by
        have := List.append_cancel_left hf
        exact List.append_cancel_left this
      have hc'nil : flatE c' = [] := PF e.sig (flatE c') (hV e (by rw [h1]; simp)) (by rw [hf']; exact hσ)
      have : c' = [] := flatE_eq_nil (fun x hx => hne x (by rw [h2, hc]; simp [hx])) hc'nil
      subst this
      simp only [flatE_nil, List.append_nil] at hf'
      exact ⟨hf'.symm, hc⟩
  · -- a = a2 ++ c
    rw [hc, flatE_append] at hf
    have := congrArg List.length hf
    simp only [List.length_append] at this
    have : e.hb.length = 0 := by omega
    exact absurd (List.eq_nil_of_length_eq_zero this) ehb

/-- **Position binding.**  A non-empty candidate all of whose entries are bound to signed entries
of `(pre, es)` is a contiguous run `m` of `es` (its info being `pre` extended by everything before
the run), entry by entry identical except for the signature of its last entry. -/
theorem bound_is_run {V : Bytes → Prop} (PF : ∀ σ x, V σ → V (σ ++ x) → x = [])
    {pre : Bytes} {es : List RawEntry} (hne : ∀ x ∈ es, x.hb ≠ []) (hV : ∀ x ∈ es, V x.sig) :
    ∀ (es' : List RawEntry) (pre' : Bytes), es' ≠ [] → Bound V pre es pre' es' →
      ∃ a m b, es = a ++ m ++ b ∧ pre' = pre ++ flatE a ∧ Agree es' m := by
  intro es'
  induction es' with
  | nil => intro _ h; exact absurd rfl h
  | cons e' t' ih =>
    intro pre' _ hB
    obtain ⟨hv0, a, e, b, h1, hhb, hpre⟩ := hB [] e' t' rfl
    simp only [flatE_nil, List.append_nil] at hpre
    cases t' with
    | nil =>
      exact ⟨a, [e], b, by simp [h1], hpre, hhb⟩
    | cons x' t'' =>
      obtain ⟨_, a2, e2, b2, h2, _, hpre2⟩ := hB [e'] x' t'' rfl
      have hf : flatE a2 = flatE a ++ (e.hb ++ e'.sig) := by
        rw [hpre] at hpre2
        simp only [flatE_cons, flatE_nil, List.append_nil, List.append_assoc] at hpre2
        rw [hhb] at hpre2
        exact (List.append_cancel_left hpre2).symm
      obtain ⟨hsig, ha2⟩ := next_position PF hne hV hv0 h1 h2 hf
      have hee : e' = e := by
        cases e'; cases e; simp only [RawEntry.mk.injEq]; exact ⟨hhb, hsig⟩
      obtain ⟨a4, m4, b4, h4, hpre4, hag⟩ := ih (pre' ++ (e'.hb ++ e'.sig)) (by simp) hB.tail
      -- a4 is the prefix a ++ [e]
      have ha4 : a4 = a ++ [e] := by
        have hfl : flatE a4 = flatE (a ++ [e]) := by
          rw [hpre, hee] at hpre4
          simp only [List.append_assoc] at hpre4
          have := List.append_cancel_left hpre4
          simp [this]
        exact prefix_unique (r := m4 ++ b4) (r2 := b) hne (by rw [h4, List.append_assoc]) (by rw [h1]; simp) hfl
      have hm4 : m4 ≠ [] := hag.ne_nil (by simp)
      cases m4 with
      | nil => exact absurd rfl hm4
      | cons z t4 =>
        refine ⟨a, e :: z :: t4, b4, ?_, hpre, hee, hag⟩
        rw [h4, ha4]; simp

/-- `Agree` spelled out: same signed bytes everywhere, same entries (signatures included) except
for the last one -/
theorem Agree.map_hb : ∀ {l' l : List RawEntry}, Agree l' l →
    l'.map (·.hb) = l.map (·.hb) ∧ l'.dropLast = l.dropLast
  | [], [], _ => ⟨rfl, rfl⟩
  | [_], [_], h => ⟨by simpa [Agree] using h, rfl⟩
  | e' :: x' :: t', e :: x :: t, h => by
    obtain ⟨h1, h2⟩ := h
    obtain ⟨i1, i2⟩ := Agree.map_hb (l' := x' :: t') (l := x :: t) h2
    subst h1
    exact ⟨by simp only [List.map_cons] at i1 ⊢; rw [i1], by
      simp only [List.dropLast_cons_cons] at i2 ⊢; rw [i2]⟩
  | [], _ :: _, h => by simp [Agree] at h
  | [_], [], h => by simp [Agree] at h
  | [_], _ :: _ :: _, h => by simp [Agree] at h
  | _ :: _ :: _, [], h => by simp [Agree] at h
  | _ :: _ :: _, [_], h => by simp [Agree] at h


end Scion.SegVerify
