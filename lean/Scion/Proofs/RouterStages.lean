import Scion.Model.Router
/-! Stage lemmas for `Scion.Router.process`: what each stage establishes when it succeeds, and
that a stage failure is never an accepting disposition. -/
namespace Scion.Router
open Scion.Util Scion.PathMeta

/-- peel an if/match chain in `h : chain = .error r` completely -/
macro "peel_err" h:ident : tactic =>
  `(tactic| ((repeat' (split at $h:ident)) <;> (first | (cases $h:ident; rfl) | (cases $h:ident))))

/-! ### checked accesses -/

theorem readHop_ok {h : Hd} {buf : Bytes} {idx : Nat} {x : Hop} (e : readHop h buf idx = .ok x) :
    getHop h buf idx = some x := by
  unfold readHop at e
  unfold getHop
  split at e
  · rename_i hi
    simp only [hi, if_true]
    split at e
    · rename_i hd; cases e; exact hd
    · cases e
  · cases e

theorem readInfo_ok {h : Hd} {buf : Bytes} {idx : Nat} {x : Info} (e : readInfo h buf idx = .ok x) :
    getInfo h buf idx = some x := by
  unfold readInfo at e
  unfold getInfo
  split at e
  · rename_i hi
    simp only [hi, if_true]
    split at e
    · rename_i hd; cases e; exact hd
    · cases e
  · cases e

theorem readHop_of_get {h : Hd} {buf : Bytes} {idx : Nat} {x : Hop} (e : getHop h buf idx = some x) :
    readHop h buf idx = .ok x := by
  unfold getHop at e
  unfold readHop
  split at e
  · rename_i hi; simp only [hi, if_true, e]
  · cases e

theorem readInfo_of_get {h : Hd} {buf : Bytes} {idx : Nat} {x : Info} (e : getInfo h buf idx = some x) :
    readInfo h buf idx = .ok x := by
  unfold getInfo at e
  unfold readInfo
  split at e
  · rename_i hi; simp only [hi, if_true, e]
  · cases e

theorem wrInfo_of_le {h : Hd} {buf : Bytes} {idx : Nat} {i : Info} (hl : infoOff h idx + 8 ≤ buf.length) :
    wrInfo h buf idx i = some (setInfo h buf idx i) := by unfold wrInfo; simp [hl]

theorem wrMeta_of_le {h : Hd} {buf : Bytes} {pm : Hdr} (hl : h.pathOff + 4 ≤ buf.length) :
    wrMeta h buf pm = some (setMeta h buf pm) := by unfold wrMeta; simp [hl]

theorem wrHop_of_le {h : Hd} {buf : Bytes} {idx : Nat} {x : Hop} (hl : hopOff h idx + 12 ≤ buf.length) :
    wrHop h buf idx x = some (setHop h buf idx x) := by unfold wrHop; simp [hl]

theorem wrInfo_some {h : Hd} {buf b : Bytes} {idx : Nat} {i : Info} (e : wrInfo h buf idx i = some b) :
    b = setInfo h buf idx i ∧ infoOff h idx + 8 ≤ buf.length := by
  unfold wrInfo at e
  split at e
  · rename_i hl; cases e; exact ⟨rfl, hl⟩
  · cases e

theorem wrMeta_some {h : Hd} {buf b : Bytes} {pm : Hdr} (e : wrMeta h buf pm = some b) :
    b = setMeta h buf pm ∧ h.pathOff + 4 ≤ buf.length := by
  unfold wrMeta at e
  split at e
  · rename_i hl; cases e; exact ⟨rfl, hl⟩
  · cases e

theorem wrHop_some {h : Hd} {buf b : Bytes} {idx : Nat} {x : Hop} (e : wrHop h buf idx x = some b) :
    b = setHop h buf idx x ∧ hopOff h idx + 12 ≤ buf.length := by
  unfold wrHop at e
  split at e
  · rename_i hl; cases e; exact ⟨rfl, hl⟩
  · cases e

/-! ### stParse -/

theorem stParse_err {h pm raw r} (e : stParse h pm raw = .error r) :
    r.1.accepting = false ∧ r.2 = raw := by
  unfold stParse at e
  (repeat' (split at e)) <;> first | (cases e; exact ⟨rfl, rfl⟩) | (cases e)

structure ParseOk (h : Hd) (pm : Hdr) (raw : Bytes) (s : St) : Prop where
  hop : getHop h raw pm.currHF = some s.hop
  inf : getInfo h raw pm.currINF = some s.inf
  peer : determinePeer pm s.inf = some s.peering
  buf : s.buf = raw
  hpm : s.pm = pm
  eff : s.effXover = false
  idx : pm.currINF = infIdx pm pm.currHF
  single : s.inf.peer = false → pm.s0 ≠ 1 ∧ pm.s1 ≠ 1 ∧ pm.s2 ≠ 1

theorem stParse_ok {h pm raw s} (e : stParse h pm raw = .ok s) : ParseOk h pm raw s := by
  unfold stParse at e
  split at e
  · cases e
  · cases e
  · rename_i hop hh0
    have hh := readHop_ok hh0
    split at e
    · cases e
    · cases e
    · rename_i inf hi0
      have hi := readInfo_ok hi0
      split at e
      · cases e
      · rename_i hs
        split at e
        · cases e
        · rename_i hx
          split at e
          · cases e
          · rename_i peering hp
            cases e
            refine ⟨hh, hi, hp, rfl, rfl, rfl, by simpa using hx, ?_⟩
            intro hpf
            simp at hs
            have := hs hpf
            exact ⟨this.1.1, this.1.2, this.2⟩

/-! ### stSegID -/

theorem stSegID_err {h ing s r} (e : stSegID h ing s = .error r) : r.1.accepting = false := by
  unfold stSegID at e
  (repeat' (split at e)) <;> first | (cases e; rfl) | (cases e)

structure SegIDOk (h : Hd) (ing : Ingress) (s s' : St) : Prop where
  hop : s'.hop = s.hop
  hpm : s'.pm = s.pm
  peering : s'.peering = s.peering
  eff : s'.effXover = s.effXover
  inf : s'.inf = if ingressUpdates ing s.inf s.peering then updSegID s.inf s.hop else s.inf
  buf : s'.buf = if ingressUpdates ing s.inf s.peering
                 then setInfo h s.buf s.pm.currINF (updSegID s.inf s.hop) else s.buf

theorem stSegID_ok {h ing s s'} (e : stSegID h ing s = .ok s') : SegIDOk h ing s s' := by
  unfold stSegID at e
  split at e
  · rename_i hu
    split at e
    · split at e
      · cases e
      · rename_i b hw
        cases e; exact ⟨rfl, rfl, rfl, rfl, by simp [hu], by simp [hu, (wrInfo_some hw).1]⟩
    · cases e
  · rename_i hu
    cases e; exact ⟨rfl, rfl, rfl, rfl, by simp [hu], by simp [hu]⟩

/-! ### stValidate1 -/

theorem stValidate1_err {h now ing s r} (e : stValidate1 h now ing s = .error r) :
    r.1.accepting = false ∧ r.2 = s.buf := by
  unfold stValidate1 at e
  (repeat' (split at e)) <;> first | (cases e; exact ⟨rfl, rfl⟩) | (cases e)

theorem stValidate1_ok {h now ing s s'} (e : stValidate1 h now ing s = .ok s') :
    s' = s ∧ unexpired now s.inf s.hop = true ∧
    (ing.ifID ≠ 0 → ing.ifID = travelIn s.inf s.hop) ∧
    h.pldLenOk = true := by
  unfold stValidate1 at e
  split at e
  · cases e
  · rename_i h1
    split at e
    · cases e
    · rename_i h2
      split at e
      · cases e
      · rename_i h3
        cases e
        refine ⟨rfl, by simpa using h1, ?_, by simpa using h3⟩
        intro hne
        simp [hne] at h2
        exact h2

/-- the expiry check is the first one: an expired hop is answered with PathExpired at its offset -/
theorem stValidate1_expired {h now ing s} (hx : unexpired now s.inf s.hop = false) :
    stValidate1 h now ing s = .error (.slow PP cExpired (hopPtr h s.pm), s.buf) := by
  unfold stValidate1
  simp [hx]

/-! ### stTransit -/

theorem stTransit_err {cfg h ing s r} (e : stTransit cfg h ing s = .error r) :
    r.1.accepting = false ∧ r.2 = s.buf := by
  unfold stTransit at e
  (repeat' (split at e)) <;> first | (cases e; exact ⟨rfl, rfl⟩) | (cases e)

theorem stTransit_ok {cfg h ing s s'} (e : stTransit cfg h ing s = .ok s') :
    s' = s ∧ (s.pm.currHF ≠ 0 → ing.ifID = 0 →
      ∃ id l, ingressInterface h s = some id ∧ cfg.ifaces id = some l ∧
        l.linkId = ing.linkId ∧ l.scope = .sibling) := by
  unfold stTransit at e
  split at e
  · rename_i h1
    cases e
    refine ⟨rfl, ?_⟩
    intro a b
    simp [a, b] at h1
  · split at e
    · cases e
    · rename_i id hid
      split at e
      · cases e
      · rename_i l hl
        split at e
        · cases e
        · rename_i hc
          cases e
          refine ⟨rfl, fun _ _ => ⟨id, l, hid, hl, ?_, ?_⟩⟩
          · simp at hc; exact hc.1
          · simp at hc; exact hc.2

/-! ### stSrcDst -/

theorem stSrcDst_err {cfg h ing s r} (e : stSrcDst cfg h ing s = .error r) :
    r.1.accepting = false ∧ r.2 = s.buf := by
  unfold stSrcDst at e
  (repeat' (split at e)) <;> first | (cases e; exact ⟨rfl, rfl⟩) | (cases e)

structure SrcDstOk (cfg : Cfg) (h : Hd) (ing : Ingress) (s : St) : Prop where
  intFirst : ing.ifID = 0 → s.pm.currHF = 0 → h.srcIA = cfg.localIA
  intDst : ing.ifID = 0 → h.dstIA ≠ cfg.localIA
  extSrc : ing.ifID ≠ 0 → h.srcIA ≠ cfg.localIA
  extDst : ing.ifID ≠ 0 → (isLastHop (base h s.pm) = true ↔ h.dstIA = cfg.localIA)
  srcHost : h.srcIA = cfg.localIA → srcHostBad h = false

theorem stSrcDst_ok {cfg h ing s s'} (e : stSrcDst cfg h ing s = .ok s') :
    s' = s ∧ SrcDstOk cfg h ing s := by
  unfold stSrcDst at e
  split at e
  · cases e
  · rename_i h1
    split at e
    · cases e
    · rename_i h2
      split at e
      · cases e
      · rename_i h3
        split at e
        · cases e
        · rename_i h4
          split at e
          · cases e
          · rename_i h5
            cases e
            refine ⟨rfl, ⟨?_, ?_, ?_, ?_, ?_⟩⟩
            · intro a b; simp [a, b] at h1; exact h1
            · intro a; simp [a] at h2; exact h2
            · intro a; simp [a] at h3; exact h3
            · intro a
              simp [a] at h4
              cases hl : isLastHop (base h s.pm) <;> simp [hl] at h4 ⊢ <;> exact h4
            · intro a; simp [a] at h5; exact h5

/-! ### stMac -/

theorem stMac_err {cfg mac h ing s r} (e : stMac cfg mac h ing s = .error r) :
    r.1.accepting = false := by
  unfold stMac at e
  (repeat' (split at e)) <;> first | (cases e; rfl) | (cases e)

theorem stMac_ok {cfg mac h ing s s'} (e : stMac cfg mac h ing s = .ok s') :
    s' = s ∧ macOk mac cfg.key s.inf s.hop = true := by
  unfold stMac at e
  split at e
  · cases e
  · rename_i h1
    split at e
    · (repeat' (split at e)) <;> cases e
    · cases e
      exact ⟨rfl, by simpa using h1⟩

/-- a MAC mismatch at this stage is answered with InvalidHopFieldMAC at the hop's offset -/
theorem stMac_bad {cfg mac h ing s} (hx : macOk mac cfg.key s.inf s.hop = false) :
    stMac cfg mac h ing s = .error (.slow PP cBadMac (hopPtr h s.pm), s.buf) := by
  unfold stMac
  simp [hx]

/-! ### inbound -/

theorem inbound_buf (res : ResolveOut) (s : St) : (inbound res s).2 = s.buf := by
  unfold inbound; cases res <;> rfl

theorem inbound_not_forward (res : ResolveOut) (s : St) : (inbound res s).1.isForward = false := by
  unfold inbound; cases res <;> rfl

theorem inbound_accepting_deliver (res : ResolveOut) (s : St)
    (h : (inbound res s).1.accepting = true) : (inbound res s).1.isDeliver = true := by
  cases res <;> simp_all [inbound, Disp.accepting, Disp.isDeliver]

/-! ### stXover -/

theorem stXover_err {cfg mac h now s r} (e : stXover cfg mac h now s = .error r) :
    r.1.accepting = false := by
  unfold stXover at e
  (repeat' (split at e)) <;> first | (cases e; rfl) | (cases e)

structure XoverOk (cfg : Cfg) (mac : Mac) (h : Hd) (now : Nat) (s s' : St) : Prop where
  peering : s'.peering = s.peering
  no : doesXover h s = false → s' = s
  yes : doesXover h s = true →
    ∃ b', incPath (base h s.pm) = .ok b' ∧ s'.pm = b'.pm ∧ s'.buf = setMeta h s.buf b'.pm ∧
      getHop h (setMeta h s.buf b'.pm) b'.pm.currHF = some s'.hop ∧
      getInfo h (setMeta h s.buf b'.pm) b'.pm.currINF = some s'.inf ∧
      unexpired now s'.inf s'.hop = true ∧ macOk mac cfg.key s'.inf s'.hop = true ∧
      s'.effXover = true

theorem stXover_ok {cfg mac h now s s'} (e : stXover cfg mac h now s = .ok s') :
    XoverOk cfg mac h now s s' := by
  unfold stXover at e
  split at e
  · rename_i hx
    split at e
    · cases e
    · rename_i b' hb
      split at e
      · cases e
      · rename_i buf1 hw
        have hw' := (wrMeta_some hw).1
        subst hw'
        split at e
        · cases e
        · cases e
        · rename_i hop2 hh0
          have hh := readHop_ok hh0
          split at e
          · cases e
          · cases e
          · rename_i inf2 hi0
            have hi := readInfo_ok hi0
            split at e
            · cases e
            · rename_i h1
              split at e
              · cases e
              · rename_i h2
                cases e
                refine ⟨rfl, ?_, ?_⟩
                · intro hn; simp [hn] at hx
                · intro _
                  exact ⟨b', hb, rfl, rfl, hh, hi, by simpa using h1, by simpa using h2, rfl⟩
  · rename_i hx
    cases e
    refine ⟨rfl, fun _ => rfl, ?_⟩
    intro hy; simp [hy] at hx

/-! ### stEgressID -/

theorem stEgressID_err {cfg h ing s r} (e : stEgressID cfg h ing s = .error r) :
    r.1.accepting = false ∧ r.2 = s.buf := by
  unfold stEgressID at e
  (repeat' (split at e)) <;> first | (cases e; exact ⟨rfl, rfl⟩) | (cases e)

theorem stEgressID_ok {cfg h ing s l} (e : stEgressID cfg h ing s = .ok l) :
    cfg.ifaces (egressOf s) = some l ∧ (ing.ifID = 0 → l.scope = .external) ∧
    pairCheck s.effXover ing.ifID (cfg.ltype ing.ifID) (cfg.ltype (egressOf s)) = none := by
  unfold stEgressID at e
  split at e
  · cases e
  · rename_i l' hl
    split at e
    · cases e
    · rename_i h1
      split at e
      · rename_i hp
        cases e
        refine ⟨hl, ?_, hp⟩
        intro a
        simp [a] at h1
        exact h1
      · cases e

/-! ### stEgressAlertUp -/

theorem stEgressAlertUp_err {h l s r} (e : stEgressAlertUp h l s = .error r) :
    r.1.accepting = false := by
  unfold stEgressAlertUp at e
  (repeat' (split at e)) <;> first | (cases e; rfl) | (cases e)

theorem stEgressAlertUp_ok {h l s s'} (e : stEgressAlertUp h l s = .ok s') :
    s' = s ∧ l.up = true := by
  unfold stEgressAlertUp at e
  split at e
  · (repeat' (split at e)) <;> cases e
  · split at e
    · cases e
    · rename_i hu
      cases e
      exact ⟨rfl, by simpa using hu⟩

/-! ### stProcessEgress -/

theorem stProcessEgress_err {h s r} (e : stProcessEgress h s = .error r) : r.1.accepting = false := by
  unfold stProcessEgress at e
  (repeat' (split at e)) <;> first | (cases e; rfl) | (cases e)

theorem stProcessEgress_ok {h s s'} (e : stProcessEgress h s = .ok s') :
    ∃ b', incPath (base h s.pm) = .ok b' ∧ s'.pm = b'.pm ∧
      s'.buf = setMeta h (if egressUpdates s.inf s.peering
                          then setInfo h s.buf s.pm.currINF (updSegID s.inf s.hop) else s.buf) b'.pm := by
  unfold stProcessEgress at e
  split at e
  · rename_i hu
    split at e
    · split at e
      · cases e
      · rename_i buf1 hw1
        have h1 := (wrInfo_some hw1).1; subst h1
        split at e
        · cases e
        · rename_i b' hb
          split at e
          · cases e
          · rename_i buf2 hw2
            have h2 := (wrMeta_some hw2).1; subst h2
            cases e
            exact ⟨b', hb, rfl, by simp [hu]⟩
    · cases e
  · rename_i hu
    split at e
    · cases e
    · rename_i b' hb
      split at e
      · cases e
      · rename_i buf2 hw2
        have h2 := (wrMeta_some hw2).1; subst h2
        cases e
        exact ⟨b', hb, rfl, by simp [hu]⟩

end Scion.Router
