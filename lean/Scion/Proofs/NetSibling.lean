import Scion.Proofs.NetRun
/-! Several border routers per AS: a transit hop handled by two sibling routers (ingress router hands
the packet over the sibling link, egress router sends it out) produces exactly the packet a single
router would have produced.  Core Lean only. -/
namespace Scion.Net
open Scion.SegID (updateSegID)

/-- the configuration of border router `r` of AS `a` -/
def cfgR (net : Net) (a r : Nat) : RCfg := ⟨(net a).key, r, (net a).ifaces⟩

theorem cfgR_self (net : Net) (a r : Nat) : (cfgR net a r).self = r := rfl
theorem cfgR_key (net : Net) (a r : Nat) : (cfgR net a r).key = (net a).key := rfl

/-- ingress router: the egress interface belongs to a sibling router — the packet is handed over
    unchanged except for the ingress SegID update -/
theorem sibling_ingress_step (mac : MacFn) (net : Net) (now src dst : Nat) (cd : Bool)
    (ts seg a r1 i : Nat) (h : Hop) (before : List Seg) (done todo : List Hop) (after : List Seg)
    (fi f : Iface)
    (hb : ∀ s ∈ before, s.hops.length ≠ 1) (ha : ∀ s ∈ after, s.hops.length ≠ 1)
    (hlen : done.length + 1 + todo.length ≠ 1) (htodo : todo ≠ [])
    (hi0 : i ≠ 0) (hi : i = inSide cd h) (hsrc : a ≠ src) (hdst : a ≠ dst)
    (hmac : macOk mac (net a).key ⟨cd, false, usedSeg cd seg h, ts⟩ h = true)
    (hexp : expired now ts h.exp = false) (hia : h.inAlert = false) (hea : h.egAlert = false)
    (hfi : (net a).iface i = some fi)
    (hf : (net a).iface (outSide cd h) = some f) (ho0 : outSide cd h ≠ 0)
    (hown : f.owner ≠ r1) (hlt : ltSame fi.lt f.lt = true) :
    routerStep mac (cfgR net a r1) now (.ext i) (a == src) (a == dst)
        ⟨before, ⟨cd, false, seg, ts⟩, done, h, todo, after⟩ =
      .forward (outSide cd h) ⟨before, ⟨cd, false, usedSeg cd seg h, ts⟩, done, h, todo, after⟩ := by
  have hsl : (a == src) = false := by simp [hsrc]
  have hdl : (a == dst) = false := by simp [hdst]
  rw [hsl, hdl]
  have hing : ingUpd ⟨before, ⟨cd, false, seg, ts⟩, done, h, todo, after⟩ (.ext i) false =
      ⟨before, ⟨cd, false, usedSeg cd seg h, ts⟩, done, h, todo, after⟩ := by
    cases cd <;> simp [ingUpd, usedSeg, Arrival.ifid, hi0]
  have hst : stIngress mac (cfgR net a r1) now (.ext i) false false
      ⟨before, ⟨cd, false, seg, ts⟩, done, h, todo, after⟩ =
      .ok ⟨ingUpd ⟨before, ⟨cd, false, seg, ts⟩, done, h, todo, after⟩ (.ext i) false, false⟩ := by
    apply stIngress_pass
    · have := hasSingleton_false before ⟨cd, false, seg, ts⟩ done h todo after hb ha hlen
      simp [this]
    · simp [determinePeer]
    · rw [hing]; exact hexp
    · intro _; rw [hing]; simp only [Arrival.ifid]; cases cd <;> simpa [inSide] using hi
    · simp [Arrival.ifid, hi0]
    · simp [Arrival.ifid, hi0]
    · rw [hing]
      have : (⟨before, ⟨cd, false, usedSeg cd seg h, ts⟩, done, h, todo, after⟩ : Cursor).isLastHop = false := by
        cases todo <;> simp_all [Cursor.isLastHop]
      simp [Arrival.ifid, hi0, this]
    · rw [hing]; exact hmac
    · rw [hing]; cases cd <;> simp [hia, hea]
  rw [hing] at hst
  unfold routerStep
  rw [hst]
  simp only [Bool.false_eq_true, if_false]
  have hx : (⟨before, ⟨cd, false, usedSeg cd seg h, ts⟩, done, h, todo, after⟩ : Cursor).isXover = false := by
    cases todo <;> simp_all [Cursor.isXover]
  unfold stXover
  simp only [hx, Bool.false_and, Bool.false_eq_true, if_false]
  unfold stEgress
  have heo : egressOf ⟨before, ⟨cd, false, usedSeg cd seg h, ts⟩, done, h, todo, after⟩ = outSide cd h := by
    cases cd <;> rfl
  have hne0 : (outSide cd h == 0) = false := by simp [ho0]
  have hown' : (f.owner == r1) = false := by simp [hown]
  have hfr : (cfgR net a r1).iface (outSide cd h) = some f := hf
  have hfir : (cfgR net a r1).iface i = some fi := hfi
  simp only [heo, egressIface, hne0, Bool.false_eq_true, if_false, hfr, cfgR_self, hown', Arrival.ifid,
    ingressLT, hfir]
  simp [hlt, hi0]

/-- egress router: the packet arrives over the sibling link from the router that owns the ingress
    interface; it is validated again and leaves over the external link -/
theorem sibling_egress_step (mac : MacFn) (net : Net) (now src dst : Nat) (cd : Bool)
    (ts seg a r1 r2 i : Nat) (h : Hop) (done todo : List Hop) (after : List Seg)
    (fi f : Iface)
    (ha : ∀ s ∈ after, s.hops.length ≠ 1) (hdone : done ≠ []) (htodo : todo ≠ [])
    (hi : i = inSide cd h) (hsrc : a ≠ src) (hdst : a ≠ dst)
    (hmac : macOk mac (net a).key ⟨cd, false, seg, ts⟩ h = true)
    (hexp : expired now ts h.exp = false) (hea : h.egAlert = false) (hia : h.inAlert = false)
    (hfi : (net a).iface i = some fi) (hfio : fi.owner = r1) (h12 : r1 ≠ r2)
    (hf : (net a).iface (outSide cd h) = some f) (ho0 : outSide cd h ≠ 0) (hup : f.up = true)
    (hown : f.owner = r2) :
    routerStep mac (cfgR net a r2) now (.sibling r1) (a == src) (a == dst)
        ⟨[], ⟨cd, false, seg, ts⟩, done, h, todo, after⟩ =
      .forward (outSide cd h)
        (mkCur [] ⟨cd, false, egSeg cd seg h, ts⟩ (done ++ [h]) todo after) := by
  have hsl : (a == src) = false := by simp [hsrc]
  have hdl : (a == dst) = false := by simp [hdst]
  rw [hsl, hdl]
  have hing : ingUpd ⟨[], ⟨cd, false, seg, ts⟩, done, h, todo, after⟩ (.sibling r1) false =
      ⟨[], ⟨cd, false, seg, ts⟩, done, h, todo, after⟩ := by
    simp [ingUpd, Arrival.ifid]
  have hfh : (⟨[], ⟨cd, false, seg, ts⟩, done, h, todo, after⟩ : Cursor).isFirstHop = false := by
    cases done <;> simp_all [Cursor.isFirstHop]
  have hii : ingressInterface ⟨[], ⟨cd, false, seg, ts⟩, done, h, todo, after⟩ false = i := by
    rw [hi]; cases cd <;> simp [ingressInterface, Cursor.isFirstHopAfterXover, inSide]
  have hst : stIngress mac (cfgR net a r2) now (.sibling r1) false false
      ⟨[], ⟨cd, false, seg, ts⟩, done, h, todo, after⟩ =
      .ok ⟨⟨[], ⟨cd, false, seg, ts⟩, done, h, todo, after⟩, false⟩ := by
    unfold stIngress
    have hs := hasSingleton_false [] ⟨cd, false, seg, ts⟩ done h todo after (by simp) ha
      (by have := List.length_pos_iff.mpr hdone; omega)
    simp only [hs, Bool.and_false, Bool.false_eq_true, if_false, determinePeer, Bool.not_false, if_true,
      hing]
    unfold stChecks
    have hfir : (cfgR net a r2).iface i = some fi := hfi
    have hl : (⟨[], ⟨cd, false, seg, ts⟩, done, h, todo, after⟩ : Cursor).isLastHop = false := by
      cases todo <;> simp_all [Cursor.isLastHop]
    simp [hexp, Arrival.ifid, hfh, hii, hfir, hfio, h12, hmac, cfgR_self, cfgR_key]
  unfold routerStep
  rw [hst]
  simp only [Bool.false_eq_true, if_false]
  have hx : (⟨[], ⟨cd, false, seg, ts⟩, done, h, todo, after⟩ : Cursor).isXover = false := by
    cases todo <;> simp_all [Cursor.isXover]
  unfold stXover
  simp only [hx, Bool.false_and, Bool.false_eq_true, if_false]
  unfold stEgress
  have heo : egressOf ⟨[], ⟨cd, false, seg, ts⟩, done, h, todo, after⟩ = outSide cd h := by
    cases cd <;> rfl
  have hne0 : (outSide cd h == 0) = false := by simp [ho0]
  have hfr : (cfgR net a r2).iface (outSide cd h) = some f := hf
  have heg : egUpd ⟨[], ⟨cd, false, seg, ts⟩, done, h, todo, after⟩ false =
      ⟨[], ⟨cd, false, egSeg cd seg h, ts⟩, done, h, todo, after⟩ := by
    cases cd <;> simp [egUpd, egSeg]
  have hinc := incPath_mkCur [] ⟨cd, false, egSeg cd seg h, ts⟩ done h todo after htodo
  have hal : (if cd = true then h.egAlert else h.inAlert) = false := by cases cd <;> simp [hia, hea]
  simp only [heo, egressIface, hne0, Bool.false_eq_true, if_false, hfr, cfgR_self, hown, Arrival.ifid,
    beq_self_eq_true, Bool.not_true, Bool.and_false, hal, Bool.false_and, hup, heg, hinc, if_true,
    Bool.and_true, Bool.not_false]
  simp

/-- **sibling hand-over = single router**: what leaves the AS after the two routers is what
    `transit_step` says a single router sends (`nextSeg = egSeg ∘ usedSeg`) -/
theorem sibling_handover_segid (cd : Bool) (seg : Nat) (h : Hop) :
    egSeg cd (usedSeg cd seg h) h = nextSeg cd seg h := by
  cases cd <;> rfl

end Scion.Net
