import Scion.Model.Wire
/-! Helper lemmas for C18: big-endian fields, guarded slices, per-piece codec round trips. -/
namespace Scion.Wire
open Scion.Util

macro "bytes_eq" : tactic => `(tactic| (and_intros <;> (apply UInt8.toNat_inj.mp; simp; omega)))

theorem beNat_natBE2 (n : Nat) : beNat (natBE 2 n) = n % 65536 := by
  simp [beNat, natBE]; omega
theorem beNat_natBE4 (n : Nat) : beNat (natBE 4 n) = n % 2^32 := by
  simp [beNat, natBE]; omega
theorem beNat_natBE8 (n : Nat) : beNat (natBE 8 n) = n % 2^64 := by
  simp [beNat, natBE]; omega
theorem natBE_beNat2 (a b : UInt8) : natBE 2 (beNat [a,b]) = [a,b] := by
  have := a.toNat_lt; have := b.toNat_lt
  simp [beNat, natBE]
  bytes_eq
theorem natBE_beNat4 (a b c d : UInt8) : natBE 4 (beNat [a,b,c,d]) = [a,b,c,d] := by
  have := a.toNat_lt; have := b.toNat_lt; have := c.toNat_lt; have := d.toNat_lt
  simp [beNat, natBE]
  bytes_eq
theorem natBE_beNat8 (a b c d e f g h : UInt8) :
    natBE 8 (beNat [a,b,c,d,e,f,g,h]) = [a,b,c,d,e,f,g,h] := by
  have := a.toNat_lt; have := b.toNat_lt; have := c.toNat_lt; have := d.toNat_lt
  have := e.toNat_lt; have := f.toNat_lt; have := g.toNat_lt; have := h.toNat_lt
  simp [beNat, natBE]
  bytes_eq

theorem beNat2_lt (a b : UInt8) : beNat [a,b] < 65536 := by
  have := a.toNat_lt; have := b.toNat_lt; simp [beNat]; omega
theorem beNat4_lt (a b c d : UInt8) : beNat [a,b,c,d] < 2^32 := by
  have := a.toNat_lt; have := b.toNat_lt; have := c.toNat_lt; have := d.toNat_lt
  simp [beNat]; omega

theorem length_natBE (k n : Nat) : (natBE k n).length = k := by
  induction k with
  | zero => simp [natBE]
  | succ k ih => simp [natBE, ih]

/-! ### guarded slices -/

theorem takeN_append (a b : Bytes) : takeN a.length (a ++ b) = some (a, b) := by
  simp [takeN]

theorem takeN_append' (n : Nat) (a b : Bytes) (h : a.length = n) : takeN n (a ++ b) = some (a, b) := by
  subst h; exact takeN_append a b

theorem takeN_eq_some {n : Nat} {l x y : Bytes} (h : takeN n l = some (x, y)) :
    l = x ++ y ∧ x.length = n := by
  unfold takeN at h
  split at h
  · cases h
    constructor
    · simp
    · simp; omega
  · cases h

theorem takeN_isSome {n : Nat} {l : Bytes} (h : n ≤ l.length) :
    takeN n l = some (l.take n, l.drop n) := by
  simp [takeN, h]

theorem takeN_ne_none {n : Nat} {l : Bytes} (h : n ≤ l.length) : takeN n l ≠ none := by
  simp [takeN, h]

/-! ### info / hop fields -/

def Info.WF (i : Info) : Prop := i.segID < 65536 ∧ i.ts < 2^32
def Hop.WF (h : Hop) : Prop :=
  h.expTime < 256 ∧ h.consIn < 65536 ∧ h.consEg < 65536 ∧ h.mac.length = 6

instance (i : Info) : Decidable i.WF := by unfold Info.WF; exact inferInstance
instance (h : Hop) : Decidable h.WF := by unfold Hop.WF; exact inferInstance

theorem length_encInfo (i : Info) : (encInfo i).length = 8 := by
  simp [encInfo, length_natBE]

theorem length_fit (n : Nat) (l : Bytes) : (fit n l).length = n := by
  simp [fit]

theorem fit_eq (n : Nat) (l : Bytes) (h : l.length = n) : fit n l = l := by
  subst h; simp [fit]

theorem length_encHop (h : Hop) : (encHop h).length = 12 := by
  simp [encHop, length_natBE, length_fit]

theorem decInfo_encInfo (i : Info) (h : i.WF) : decInfo (encInfo i) = some i := by
  obtain ⟨h1, h2⟩ := h
  obtain ⟨p, c, s, t⟩ := i
  simp only at h1 h2
  simp only [encInfo, natBE, List.cons_append, List.nil_append, decInfo]
  have e1 := beNat_natBE2 s
  have e2 := beNat_natBE4 t
  simp only [natBE] at e1 e2
  rw [e1, e2]
  cases p <;> cases c <;> simp [b2n] <;> omega

theorem decHop_encHop (h : Hop) (hw : h.WF) : decHop (encHop h) = some h := by
  obtain ⟨h1, h2, h3, h4⟩ := hw
  obtain ⟨ia, ea, x, ci, ce, mac⟩ := h
  simp only at h1 h2 h3 h4
  match mac, h4 with
  | [m0, m1, m2, m3, m4, m5], _ =>
    simp only [encHop, natBE, List.cons_append, List.nil_append, decHop, fit, List.take]
    have e1 := beNat_natBE2 ci
    have e2 := beNat_natBE2 ce
    simp only [natBE] at e1 e2
    rw [e1, e2]
    cases ia <;> cases ea <;> simp [b2n] <;> omega

/-- re-encoding a decoded info field zeroes the reserved bits only -/
theorem encInfo_decInfo (f r s0 s1 t0 t1 t2 t3 : UInt8) (i : Info)
    (h : decInfo [f, r, s0, s1, t0, t1, t2, t3] = some i) :
    encInfo i = [UInt8.ofNat (f.toNat % 4), 0, s0, s1, t0, t1, t2, t3] ∧ i.WF := by
  simp only [decInfo, Option.some.injEq] at h
  subst h
  constructor
  · simp only [encInfo, natBE_beNat2, natBE_beNat4, List.cons_append, List.nil_append,
      List.cons.injEq, and_true, true_and]
    apply UInt8.toNat_inj.mp
    have := f.toNat_lt
    by_cases h1 : f.toNat % 2 = 1 <;> by_cases h2 : f.toNat / 2 % 2 = 1 <;>
      simp [b2n, h1, h2] <;> omega
  · exact ⟨beNat2_lt _ _, beNat4_lt _ _ _ _⟩

theorem encHop_decHop (f e i0 i1 e0 e1 m0 m1 m2 m3 m4 m5 : UInt8) (h : Hop)
    (hd : decHop [f, e, i0, i1, e0, e1, m0, m1, m2, m3, m4, m5] = some h) :
    encHop h = [UInt8.ofNat (f.toNat % 4), e, i0, i1, e0, e1, m0, m1, m2, m3, m4, m5] ∧ h.WF := by
  simp only [decHop, Option.some.injEq] at hd
  subst hd
  constructor
  · simp only [encHop, natBE_beNat2, List.cons_append, List.nil_append, fit, List.take,
      List.cons.injEq, and_true, true_and, UInt8.ofNat_toNat]
    apply UInt8.toNat_inj.mp
    have := f.toNat_lt
    by_cases h1 : f.toNat % 2 = 1 <;> by_cases h2 : f.toNat / 2 % 2 = 1 <;>
      simp [b2n, h1, h2] <;> omega
  · exact ⟨e.toNat_lt, beNat2_lt _ _, beNat2_lt _ _, rfl⟩

end Scion.Wire
