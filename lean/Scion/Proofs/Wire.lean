import Scion.Model.Wire
/-! Helper lemmas for C18: big-endian fields, guarded slices, per-piece codec round trips. -/
namespace Scion.Wire
open Scion.Util

macro "bytes_eq" : tactic => `(tactic| (and_intros <;> (apply UInt8.toNat_inj.mp; simp; omega)))

theorem beNat_natBE2 (n : Nat) : beNat (natBE 2 n) = n % 65536 := by
  simp [beNat, natBE]; omega
theorem beNat_natBE4 (n : Nat) : beNat (natBE 4 n) = n % 2^32 := by
  simp [beNat, natBE]; omega
theorem beNat_natBE8 (n : Nat) : beNat (natBE 8 n) = n % 2^64 := by
  simp [beNat, natBE]; omega
theorem natBE_beNat2 (a b : UInt8) : natBE 2 (beNat [a,b]) = [a,b] := by
  have := a.toNat_lt; have := b.toNat_lt
  simp [beNat, natBE]
  bytes_eq
theorem natBE_beNat4 (a b c d : UInt8) : natBE 4 (beNat [a,b,c,d]) = [a,b,c,d] := by
  have := a.toNat_lt; have := b.toNat_lt; have := c.toNat_lt; have := d.toNat_lt
  simp [beNat, natBE]
  bytes_eq
theorem natBE_beNat8 (a b c d e f g h : UInt8) :
    natBE 8 (beNat [a,b,c,d,e,f,g,h]) = [a,b,c,d,e,f,g,h] := by
  have := a.toNat_lt; have := b.toNat_lt; have := c.toNat_lt; have := d.toNat_lt
  have := e.toNat_lt; have := f.toNat_lt; have := g.toNat_lt; have := h.toNat_lt
  simp [beNat, natBE]
  bytes_eq

theorem beNat2_lt (a b : UInt8) : beNat [a,b] < 65536 := by
  have := a.toNat_lt; have := b.toNat_lt; simp [beNat]; omega
theorem beNat4_lt (a b c d : UInt8) : beNat [a,b,c,d] < 2^32 := by
  have := a.toNat_lt; have := b.toNat_lt; have := c.toNat_lt; have := d.toNat_lt
  simp [beNat]; omega

theorem length_natBE (k n : Nat) : (natBE k n).length = k := by
  induction k with
  | zero => simp [natBE]
  | succ k ih => simp [natBE, ih]

/-! ### guarded slices -/

theorem takeN_append (a b : Bytes) : takeN a.length (a ++ b) = some (a, b) := by
  simp [takeN]

theorem takeN_append' (n : Nat) (a b : Bytes) (h : a.length = n) : takeN n (a ++ b) = some (a, b) := by
  subst h; exact takeN_append a b

theorem takeN_eq_some {n : Nat} {l x y : Bytes} (h : takeN n l = some (x, y)) :
    l = x ++ y ∧ x.length = n := by
  unfold takeN at h
  split at h
  · cases h
    constructor
    · simp
    · simp; omega
  · cases h

theorem takeN_isSome {n : Nat} {l : Bytes} (h : n ≤ l.length) :
    takeN n l = some (l.take n, l.drop n) := by
  simp [takeN, h]

theorem takeN_ne_none {n : Nat} {l : Bytes} (h : n ≤ l.length) : takeN n l ≠ none := by
  simp [takeN, h]

/-! ### info / hop fields -/


theorem length_encInfo (i : Info) : (encInfo i).length = 8 := by
  simp [encInfo, length_natBE]

theorem length_fit (n : Nat) (l : Bytes) : (fit n l).length = n := by
  simp [fit]

theorem fit_eq (n : Nat) (l : Bytes) (h : l.length = n) : fit n l = l := by
  subst h; simp [fit]

theorem length_encHop (h : Hop) : (encHop h).length = 12 := by
  simp [encHop, length_natBE, length_fit]

theorem decInfo_encInfo (i : Info) (h : i.WF) : decInfo (encInfo i) = some i := by
  obtain ⟨h1, h2⟩ := h
  obtain ⟨p, c, s, t⟩ := i
  simp only at h1 h2
  simp only [encInfo, natBE, List.cons_append, List.nil_append, decInfo]
  have e1 := beNat_natBE2 s
  have e2 := beNat_natBE4 t
  simp only [natBE] at e1 e2
  rw [e1, e2]
  cases p <;> cases c <;> simp [b2n] <;> omega

theorem decHop_encHop (h : Hop) (hw : h.WF) : decHop (encHop h) = some h := by
  obtain ⟨h1, h2, h3, h4⟩ := hw
  obtain ⟨ia, ea, x, ci, ce, mac⟩ := h
  simp only at h1 h2 h3 h4
  match mac, h4 with
  | [m0, m1, m2, m3, m4, m5], _ =>
    simp only [encHop, natBE, List.cons_append, List.nil_append, decHop, fit, List.take]
    have e1 := beNat_natBE2 ci
    have e2 := beNat_natBE2 ce
    simp only [natBE] at e1 e2
    rw [e1, e2]
    cases ia <;> cases ea <;> simp [b2n] <;> omega

/-- re-encoding a decoded info field zeroes the reserved bits only -/
theorem encInfo_decInfo (f r s0 s1 t0 t1 t2 t3 : UInt8) (i : Info)
    (h : decInfo [f, r, s0, s1, t0, t1, t2, t3] = some i) :
    encInfo i = [UInt8.ofNat (f.toNat % 4), 0, s0, s1, t0, t1, t2, t3] ∧ i.WF := by
  simp only [decInfo, Option.some.injEq] at h
  subst h
  constructor
  · simp only [encInfo, natBE_beNat2, natBE_beNat4, List.cons_append, List.nil_append,
      List.cons.injEq, and_true, true_and]
    apply UInt8.toNat_inj.mp
    have := f.toNat_lt
    by_cases h1 : f.toNat % 2 = 1 <;> by_cases h2 : f.toNat / 2 % 2 = 1 <;>
      simp [b2n, h1, h2] <;> omega
  · exact ⟨beNat2_lt _ _, beNat4_lt _ _ _ _⟩

theorem encHop_decHop (f e i0 i1 e0 e1 m0 m1 m2 m3 m4 m5 : UInt8) (h : Hop)
    (hd : decHop [f, e, i0, i1, e0, e1, m0, m1, m2, m3, m4, m5] = some h) :
    encHop h = [UInt8.ofNat (f.toNat % 4), e, i0, i1, e0, e1, m0, m1, m2, m3, m4, m5] ∧ h.WF := by
  simp only [decHop, Option.some.injEq] at hd
  subst hd
  constructor
  · simp only [encHop, natBE_beNat2, List.cons_append, List.nil_append, fit, List.take,
      List.cons.injEq, and_true, true_and, UInt8.ofNat_toNat]
    apply UInt8.toNat_inj.mp
    have := f.toNat_lt
    by_cases h1 : f.toNat % 2 = 1 <;> by_cases h2 : f.toNat / 2 % 2 = 1 <;>
      simp [b2n, h1, h2] <;> omega
  · exact ⟨e.toNat_lt, beNat2_lt _ _, beNat2_lt _ _, rfl⟩

/-! ### scion.Raw -/


theorem meta_decode_encode (m : PathMeta.Hdr) (h : m.InRange) :
    PathMeta.decode (PathMeta.encode m) = m ∧ PathMeta.encode m < 2^32 := by
  obtain ⟨h1, h2, h3, h4, h5⟩ := h
  cases m
  simp only [PathMeta.encode, PathMeta.decode, PathMeta.Hdr.mk.injEq] at *
  refine ⟨⟨?_, ?_, ?_, ?_, ?_⟩, ?_⟩ <;> omega

theorem decRaw_natBE (w : Nat) (tail : Bytes) :
    decRaw (natBE 4 w ++ tail) = decRawBody (w % 2^32) tail := by
  have e := beNat_natBE4 w
  simp only [natBE] at e
  simp only [natBE, List.cons_append, List.nil_append, decRaw]
  rw [e]

theorem decRawBody_eq (w : Nat) (m : PathMeta.Hdr) (body rest : Bytes) (b : PathMeta.Base)
    (hd : PathMeta.decode w = m) (hb : PathMeta.baseDecode m = some b)
    (hl : body.length = bodyLen b) :
    decRawBody w (body ++ rest) = .ok (m, body, 4 + bodyLen b) := by
  unfold decRawBody
  rw [hd, hb]
  simp only
  have : ¬ (body ++ rest).length < bodyLen b := by simp; omega
  rw [if_neg this, takeN_append' _ _ _ hl]

theorem decRaw_encRaw (m : PathMeta.Hdr) (body rest : Bytes) (b : PathMeta.Base)
    (hm : m.InRange) (hb : PathMeta.baseDecode m = some b) (hl : body.length = bodyLen b) :
    decRaw (encRaw m body ++ rest) = .ok (m, body, 4 + bodyLen b) := by
  obtain ⟨hd, hlt⟩ := meta_decode_encode m hm
  unfold encRaw
  rw [List.append_assoc, decRaw_natBE, Nat.mod_eq_of_lt hlt]
  exact decRawBody_eq _ m body rest b hd hb hl

theorem decode_inRange (w : Nat) : (PathMeta.decode w).InRange := by
  simp only [PathMeta.decode, PathMeta.Hdr.InRange]
  omega

/-- what a successful `decRawBody` establishes -/
theorem decRawBody_ok {w : Nat} {rest : Bytes} {m : PathMeta.Hdr} {body : Bytes} {n : Nat}
    (h : decRawBody w rest = .ok (m, body, n)) :
    m = PathMeta.decode w ∧ RawWF m body ∧ (∃ slack, rest = body ++ slack) ∧
      n = 4 + body.length := by
  unfold decRawBody at h
  split at h
  · cases h
  · rename_i base hb
    split at h
    · cases h
    · split at h
      · cases h
      · rename_i bd sl ht
        cases h
        obtain ⟨e1, e2⟩ := takeN_eq_some ht
        refine ⟨rfl, ⟨decode_inRange w, ?_⟩, ⟨sl, e1⟩, by omega⟩
        rw [hb]; exact e2

theorem decRawBody_ne_panic (w : Nat) (rest : Bytes) : decRawBody w rest ≠ .error .panic := by
  unfold decRawBody
  split
  · simp
  · split
    · simp
    · rename_i hlen
      split
      · rename_i ht
        exact absurd ht (takeN_ne_none (by omega))
      · simp

theorem decRaw_ne_panic (data : Bytes) : decRaw data ≠ .error .panic := by
  unfold decRaw
  split
  · exact decRawBody_ne_panic _ _
  · simp

/-! ### one-hop and EPIC paths -/

theorem decOneHop_enc (i : Info) (h1 h2 : Hop) (rest : Bytes) (hi : i.WF) (w1 : h1.WF) (w2 : h2.WF) :
    decOneHop (encInfo i ++ encHop h1 ++ encHop h2 ++ rest) = .ok (.onehop i h1 h2) := by
  unfold decOneHop
  have hl : ¬ (encInfo i ++ encHop h1 ++ encHop h2 ++ rest).length < 32 := by
    simp [length_encInfo, length_encHop]; omega
  rw [if_neg hl]
  rw [show encInfo i ++ encHop h1 ++ encHop h2 ++ rest = encInfo i ++ (encHop h1 ++ (encHop h2 ++ rest)) by simp]
  rw [takeN_append' 8 _ _ (length_encInfo i)]
  simp only
  rw [takeN_append' 12 _ _ (length_encHop h1)]
  simp only
  rw [takeN_append' 12 _ _ (length_encHop h2)]
  simp only
  rw [decInfo_encInfo i hi, decHop_encHop h1 w1, decHop_encHop h2 w2]

theorem length8 {l : Bytes} (h : l.length = 8) : ∃ a b c d e f g k, l = [a,b,c,d,e,f,g,k] := by
  match l, h with
  | [a,b,c,d,e,f,g,k], _ => exact ⟨a,b,c,d,e,f,g,k,rfl⟩

theorem length12 {l : Bytes} (h : l.length = 12) :
    ∃ a b c d e f g k x y z w, l = [a,b,c,d,e,f,g,k,x,y,z,w] := by
  match l, h with
  | [a,b,c,d,e,f,g,k,x,y,z,w], _ => exact ⟨a,b,c,d,e,f,g,k,x,y,z,w,rfl⟩

theorem length4 {l : Bytes} (h : l.length = 4) : ∃ a b c d, l = [a,b,c,d] := by
  match l, h with
  | [a,b,c,d], _ => exact ⟨a,b,c,d,rfl⟩

theorem decInfo_isSome {l : Bytes} (h : l.length = 8) : ∃ i, decInfo l = some i := by
  obtain ⟨a,b,c,d,e,f,g,k,rfl⟩ := length8 h
  exact ⟨_, rfl⟩

theorem decHop_isSome {l : Bytes} (h : l.length = 12) : ∃ i, decHop l = some i := by
  obtain ⟨a,b,c,d,e,f,g,k,x,y,z,w,rfl⟩ := length12 h
  exact ⟨_, rfl⟩

theorem decOneHop_ne_panic (data : Bytes) : decOneHop data ≠ .error .panic := by
  unfold decOneHop
  split
  · simp
  · rename_i hlen
    split
    · rename_i ht; exact absurd ht (takeN_ne_none (by omega))
    · rename_i ib r1 ht1
      obtain ⟨e1, l1⟩ := takeN_eq_some ht1
      have hr1 : r1.length = data.length - 8 := by rw [e1]; simp; omega
      split
      · rename_i ht; exact absurd ht (takeN_ne_none (by omega))
      · rename_i h1b r2 ht2
        obtain ⟨e2, l2⟩ := takeN_eq_some ht2
        have hr2 : r2.length = r1.length - 12 := by rw [e2]; simp; omega
        split
        · rename_i ht; exact absurd ht (takeN_ne_none (by omega))
        · rename_i h2b r3 ht3
          obtain ⟨e3, l3⟩ := takeN_eq_some ht3
          obtain ⟨i, hi⟩ := decInfo_isSome l1
          obtain ⟨x1, hx1⟩ := decHop_isSome l2
          obtain ⟨x2, hx2⟩ := decHop_isSome l3
          rw [hi, hx1, hx2]
          simp

/-- what a successful one-hop decode establishes: the input starts with 32 bytes whose
re-encoding differs in reserved bits only -/
theorem decOneHop_ok {data : Bytes} {p : PathV} (h : decOneHop data = .ok p) :
    ∃ i h1 h2 ib h1b h2b slack, p = .onehop i h1 h2 ∧ data = ib ++ h1b ++ h2b ++ slack ∧
      ib.length = 8 ∧ h1b.length = 12 ∧ h2b.length = 12 ∧
      decInfo ib = some i ∧ decHop h1b = some h1 ∧ decHop h2b = some h2 := by
  unfold decOneHop at h
  split at h
  · cases h
  · split at h
    · cases h
    · rename_i ib r1 ht1
      split at h
      · cases h
      · rename_i h1b r2 ht2
        split at h
        · cases h
        · rename_i h2b r3 ht3
          obtain ⟨e1, l1⟩ := takeN_eq_some ht1
          obtain ⟨e2, l2⟩ := takeN_eq_some ht2
          obtain ⟨e3, l3⟩ := takeN_eq_some ht3
          split at h
          · rename_i i x1 x2 hi hx1 hx2
            cases h
            refine ⟨i, x1, x2, ib, h1b, h2b, r3, rfl, ?_, l1, l2, l3, hi, hx1, hx2⟩
            rw [e1, e2, e3]; simp
          · cases h

/-! ### paths -/


theorem rawWF_elim {m : PathMeta.Hdr} {body : Bytes} (h : RawWF m body) :
    m.InRange ∧ ∃ b, PathMeta.baseDecode m = some b ∧ body.length = bodyLen b := by
  obtain ⟨h1, h2⟩ := h
  refine ⟨h1, ?_⟩
  split at h2
  · rename_i b hb; exact ⟨b, hb, h2⟩
  · exact absurd h2 (by simp)

theorem length_encRaw (m : PathMeta.Hdr) (body : Bytes) : (encRaw m body).length = 4 + body.length := by
  simp [encRaw, length_natBE]

theorem decEpic_of (ts ctr : Nat) (p l tail : Bytes) (m : PathMeta.Hdr) (body : Bytes) (n : Nat)
    (h1 : ts < 2^32) (h2 : ctr < 2^32) (h3 : p.length = 4) (h4 : l.length = 4)
    (hr : decRaw tail = .ok (m, body, n)) :
    decEpic (natBE 4 ts ++ natBE 4 ctr ++ p ++ l ++ tail) =
      .ok (.epic ts ctr p l m body, 16 + n) := by
  obtain ⟨p0, p1, p2, p3, rfl⟩ := length4 h3
  obtain ⟨l0, l1, l2, l3, rfl⟩ := length4 h4
  have e1 := beNat_natBE4 ts
  have e2 := beNat_natBE4 ctr
  simp only [natBE] at e1 e2
  unfold decEpic
  simp only [natBE, List.cons_append, List.nil_append]
  rw [e1, e2, Nat.mod_eq_of_lt h1, Nat.mod_eq_of_lt h2, hr]

theorem decEpic_enc (ts ctr : Nat) (p l : Bytes) (m : PathMeta.Hdr) (body rest : Bytes)
    (b : PathMeta.Base) (h1 : ts < 2^32) (h2 : ctr < 2^32) (h3 : p.length = 4) (h4 : l.length = 4)
    (hm : m.InRange) (hb : PathMeta.baseDecode m = some b) (hl : body.length = bodyLen b) :
    decEpic (natBE 4 ts ++ natBE 4 ctr ++ p ++ l ++ (encRaw m body ++ rest)) =
      .ok (.epic ts ctr p l m body, 16 + (4 + bodyLen b)) :=
  decEpic_of ts ctr p l _ m body _ h1 h2 h3 h4 (decRaw_encRaw m body rest b hm hb hl)

theorem decEpic_ne_panic (data : Bytes) : decEpic data ≠ .error .panic := by
  unfold decEpic
  split
  · rename_i rest
    have := decRaw_ne_panic rest
    split
    · rename_i e he; intro hc; cases hc; exact this he
    · simp
  · simp

theorem decPath_ne_panic (pt : Nat) (pb : Bytes) : decPath pt pb ≠ .error .panic := by
  unfold decPath
  split
  · split <;> simp
  · split
    · have := decRaw_ne_panic pb
      split
      · rename_i e he; intro hc; cases hc; exact this he
      · simp
    · split
      · have := decOneHop_ne_panic pb
        split
        · rename_i e he; intro hc; cases hc; exact this he
        · simp
      · split
        · exact decEpic_ne_panic pb
        · simp

theorem decPath_raw (pb : Bytes) (m : PathMeta.Hdr) (body : Bytes) (n : Nat)
    (h : decRaw pb = .ok (m, body, n)) : decPath 1 pb = .ok (.scion m body, n) := by
  simp [decPath, h]

theorem decPath_onehop (pb : Bytes) (p : PathV)
    (h : decOneHop pb = .ok p) : decPath 2 pb = .ok (p, 32) := by
  simp [decPath, h]

theorem decPath_epic (pb : Bytes) : decPath 3 pb = decEpic pb := by
  simp [decPath]

/-- serialising a well-formed path and decoding exactly those bytes gives the path back -/
theorem decPath_encPath (p : PathV) (hw : PathWF p) :
    ∃ pb, encPath p = some pb ∧ pb.length = pathLen p ∧ decPath p.type pb = .ok (p, pathLen p) := by
  cases p with
  | empty => exact ⟨[], rfl, rfl, rfl⟩
  | scion m body =>
    obtain ⟨hm, b, hb, hl⟩ := rawWF_elim hw
    refine ⟨encRaw m body, rfl, ?_, ?_⟩
    · simp [pathLen, hb, length_encRaw, hl]
    · have := decRaw_encRaw m body [] b hm hb hl
      rw [List.append_nil] at this
      have e : pathLen (.scion m body) = 4 + bodyLen b := by simp [pathLen, hb]
      rw [e]
      exact decPath_raw _ _ _ _ this
  | onehop i h1 h2 =>
    obtain ⟨hi, w1, w2⟩ := hw
    refine ⟨encInfo i ++ encHop h1 ++ encHop h2, rfl, ?_, ?_⟩
    · simp [pathLen, length_encInfo, length_encHop]
    · have := decOneHop_enc i h1 h2 [] hi w1 w2
      rw [List.append_nil] at this
      exact decPath_onehop _ _ this
  | epic ts ctr p l m body =>
    obtain ⟨h1, h2, h3, h4, hr⟩ := hw
    obtain ⟨hm, b, hb, hl⟩ := rawWF_elim hr
    refine ⟨natBE 4 ts ++ natBE 4 ctr ++ p ++ l ++ encRaw m body, ?_, ?_, ?_⟩
    · simp [encPath, h3, h4]
    · simp [pathLen, hb, length_encRaw, length_natBE, h3, h4, hl]; omega
    · have := decEpic_enc ts ctr p l m body [] b h1 h2 h3 h4 hm hb hl
      rw [List.append_nil] at this
      have e : pathLen (.epic ts ctr p l m body) = 16 + (4 + bodyLen b) := by
        simp [pathLen, hb]; omega
      rw [e]
      show decPath 3 _ = _
      rw [decPath_epic]
      exact this

/-! ### common and address header -/


theorem length_encCmn (c : Cmn) : (encCmn c).length = 12 := by
  simp [encCmn, length_natBE]

theorem decCmn_encCmn (c : Cmn) (rest : Bytes) (h : c.WF) : decCmn (encCmn c ++ rest) = some (c, rest) := by
  obtain ⟨h1, h2, h3, h4, h5, h6, h7, h8, h9⟩ := h
  obtain ⟨v, tc, fl, nh, hl, pl, pt, dt, st⟩ := c
  simp only at h1 h2 h3 h4 h5 h6 h7 h8 h9
  have e1 := beNat_natBE4 (v % 16 * 2^28 + tc % 256 * 2^20 + fl % 2^20)
  have e2 := beNat_natBE2 pl
  simp only [natBE] at e1 e2
  simp only [encCmn, natBE, List.cons_append, List.nil_append, decCmn]
  rw [e1, e2]
  simp only [Option.some.injEq, Prod.mk.injEq, and_true, Cmn.mk.injEq, UInt8.toNat_ofNat']
  refine ⟨?_, ?_, ?_, ?_, ?_, ?_, ?_, ?_, ?_⟩ <;> omega

/-- re-encoding a decoded common header zeroes the two reserved bytes only -/
theorem encCmn_decCmn {data : Bytes} {c : Cmn} {rest : Bytes} (h : decCmn data = some (c, rest)) :
    ∃ b0 b1 b2 b3 b4 b5 b6 b7 b8 b9 r0 r1,
      data = b0 :: b1 :: b2 :: b3 :: b4 :: b5 :: b6 :: b7 :: b8 :: b9 :: r0 :: r1 :: rest ∧
      encCmn c = [b0, b1, b2, b3, b4, b5, b6, b7, b8, b9, 0, 0] ∧ c.WF := by
  match data, h with
  | b0 :: b1 :: b2 :: b3 :: nh :: hl :: p0 :: p1 :: pt :: atl :: r0 :: r1 :: rest', h =>
    simp only [decCmn, Option.some.injEq, Prod.mk.injEq] at h
    obtain ⟨hc, hr⟩ := h
    subst hr
    refine ⟨b0, b1, b2, b3, nh, hl, p0, p1, pt, atl, r0, r1, rfl, ?_, ?_⟩
    · subst hc
      have hw := beNat4_lt b0 b1 b2 b3
      have e : (beNat [b0, b1, b2, b3] / 2^28 % 16 * 2^28 + beNat [b0, b1, b2, b3] / 2^20 % 256 % 256 * 2^20
          + beNat [b0, b1, b2, b3] % 2^20 % 2^20) = beNat [b0, b1, b2, b3] := by omega
      simp only [encCmn, e, natBE_beNat4, natBE_beNat2, UInt8.ofNat_toNat, List.cons_append,
        List.nil_append, List.cons.injEq, and_true, true_and]
      apply UInt8.toNat_inj.mp
      have := atl.toNat_lt
      simp
      omega
    · subst hc
      have hw := beNat4_lt b0 b1 b2 b3
      have := beNat2_lt p0 p1
      have := nh.toNat_lt; have := hl.toNat_lt; have := pt.toNat_lt; have := atl.toNat_lt
      simp only [Cmn.WF]
      refine ⟨?_, ?_, ?_, ?_, ?_, ?_, ?_, ?_, ?_⟩ <;> omega

theorem decCmn_none_iff (data : Bytes) : decCmn data = none ↔ data.length < 12 := by
  match data with
  | [] | [_] | [_,_] | [_,_,_] | [_,_,_,_] | [_,_,_,_,_] | [_,_,_,_,_,_] | [_,_,_,_,_,_,_]
  | [_,_,_,_,_,_,_,_] | [_,_,_,_,_,_,_,_,_] | [_,_,_,_,_,_,_,_,_,_] | [_,_,_,_,_,_,_,_,_,_,_] =>
    simp [decCmn]
  | _ :: _ :: _ :: _ :: _ :: _ :: _ :: _ :: _ :: _ :: _ :: _ :: rest => simp [decCmn]


theorem length_encAddr (c : Cmn) (a : Addr) : (encAddr c a).length = addrHdrLen c := by
  simp [encAddr, length_natBE, length_fit, addrHdrLen]; omega

theorem decAddr_encAddr (c : Cmn) (a : Addr) (rest : Bytes) (h : a.WF c) :
    decAddr c (encAddr c a ++ rest) = .ok (a, rest) := by
  obtain ⟨h1, h2, h3, h4⟩ := h
  unfold decAddr
  have hl : ¬ (encAddr c a ++ rest).length < addrHdrLen c := by
    simp [length_encAddr]
  rw [if_neg hl]
  unfold encAddr
  rw [fit_eq _ _ h3, fit_eq _ _ h4]
  rw [show natBE 8 a.dstIA ++ natBE 8 a.srcIA ++ a.rawDst ++ a.rawSrc ++ rest =
    natBE 8 a.dstIA ++ (natBE 8 a.srcIA ++ (a.rawDst ++ (a.rawSrc ++ rest))) by simp]
  rw [takeN_append' 8 _ _ (length_natBE 8 _)]
  simp only
  rw [takeN_append' 8 _ _ (length_natBE 8 _)]
  simp only
  rw [takeN_append' _ _ _ h3]
  simp only
  rw [takeN_append' _ _ _ h4]
  simp only
  rw [beNat_natBE8, beNat_natBE8, Nat.mod_eq_of_lt h1, Nat.mod_eq_of_lt h2]

theorem decAddr_ne_panic (c : Cmn) (rest : Bytes) : decAddr c rest ≠ .error .panic := by
  unfold decAddr
  split
  · simp
  · rename_i hlen
    unfold addrHdrLen at hlen
    split
    · rename_i ht; exact absurd ht (takeN_ne_none (by omega))
    · rename_i dia r1 ht1
      obtain ⟨e1, l1⟩ := takeN_eq_some ht1
      have hr1 : r1.length = rest.length - 8 := by rw [e1]; simp; omega
      split
      · rename_i ht; exact absurd ht (takeN_ne_none (by omega))
      · rename_i sia r2 ht2
        obtain ⟨e2, l2⟩ := takeN_eq_some ht2
        have hr2 : r2.length = r1.length - 8 := by rw [e2]; simp; omega
        split
        · rename_i ht; exact absurd ht (takeN_ne_none (by omega))
        · rename_i dst r3 ht3
          obtain ⟨e3, l3⟩ := takeN_eq_some ht3
          have hr3 : r3.length = r2.length - addrLen c.dstType := by rw [e3]; simp; omega
          split
          · rename_i ht; exact absurd ht (takeN_ne_none (by omega))
          · simp

/-- what a successful address decode establishes -/
theorem decAddr_ok {c : Cmn} {rest : Bytes} {a : Addr} {r4 : Bytes} (h : decAddr c rest = .ok (a, r4)) :
    rest = encAddr c a ++ r4 ∧ a.WF c := by
  unfold decAddr at h
  split at h
  · cases h
  · split at h
    · cases h
    · rename_i dia r1 ht1
      split at h
      · cases h
      · rename_i sia r2 ht2
        split at h
        · cases h
        · rename_i dst r3 ht3
          split at h
          · cases h
          · rename_i src r4' ht4
            obtain ⟨e1, l1⟩ := takeN_eq_some ht1
            obtain ⟨e2, l2⟩ := takeN_eq_some ht2
            obtain ⟨e3, l3⟩ := takeN_eq_some ht3
            obtain ⟨e4, l4⟩ := takeN_eq_some ht4
            cases h
            obtain ⟨a0,a1,a2,a3,a4,a5,a6,a7,rfl⟩ := length8 l1
            obtain ⟨c0,c1,c2,c3,c4,c5,c6,c7,rfl⟩ := length8 l2
            constructor
            · simp only [encAddr, natBE_beNat8]
              rw [fit_eq _ _ l3, fit_eq _ _ l4, e1, e2, e3, e4]
              simp
            · refine ⟨?_, ?_, l3, l4⟩
              · show beNat [a0,a1,a2,a3,a4,a5,a6,a7] < 2^64
                have := beNat_natBE8 (beNat [a0,a1,a2,a3,a4,a5,a6,a7])
                rw [natBE_beNat8] at this
                have h2 : beNat [a0,a1,a2,a3,a4,a5,a6,a7] % 2^64 < 2^64 := Nat.mod_lt _ (by decide)
                omega
              · show beNat [c0,c1,c2,c3,c4,c5,c6,c7] < 2^64
                have := beNat_natBE8 (beNat [c0,c1,c2,c3,c4,c5,c6,c7])
                rw [natBE_beNat8] at this
                have h2 : beNat [c0,c1,c2,c3,c4,c5,c6,c7] % 2^64 < 2^64 := Nat.mod_lt _ (by decide)
                omega

/-! ### the path part of the SCION decoder -/

theorem pathType_le (p : PathV) : p.type ≤ 3 := by cases p <;> simp [PathV.type]

theorem decPathPart_enc (c : Cmn) (p : PathV) (pb payload : Bytes) (dataLen : Nat)
    (hpt : c.pathType = p.type) (hlen : c.hdrLen * 4 = 12 + addrHdrLen c + pathLen p)
    (hpb : pb.length = pathLen p) (hd : decPath p.type pb = .ok (p, pathLen p))
    (hdl : dataLen = 12 + addrHdrLen c + pb.length + payload.length) :
    decPathPart c dataLen (pb ++ payload) = .ok (p, payload) := by
  unfold decPathPart
  have := pathType_le p
  have e : c.hdrLen * 4 - 12 - addrHdrLen c = pb.length := by omega
  rw [if_neg (by omega), if_neg (by omega), if_neg (by omega), e, takeN_append]
  simp only
  rw [hpt, hd]
  simp only
  rw [if_neg (by omega)]

theorem decPathPart_ne_panic (c : Cmn) (dataLen : Nat) (r4 : Bytes)
    (h : r4.length + 12 + addrHdrLen c = dataLen) : decPathPart c dataLen r4 ≠ .error .panic := by
  unfold decPathPart
  split
  · simp
  · split
    · simp
    · split
      · simp
      · split
        · rename_i ht; exact absurd ht (takeN_ne_none (by omega))
        · rename_i pb payload ht
          have := decPath_ne_panic c.pathType pb
          split
          · rename_i e he; intro hc; cases hc; exact this he
          · split <;> simp

theorem decPathPart_ok {c : Cmn} {dataLen : Nat} {r4 : Bytes} {p : PathV} {payload : Bytes}
    (h : decPathPart c dataLen r4 = .ok (p, payload)) :
    ∃ pb, r4 = pb ++ payload ∧ 12 + addrHdrLen c + pb.length = c.hdrLen * 4 ∧
      decPath c.pathType pb = .ok (p, pb.length) := by
  unfold decPathPart at h
  split at h
  · cases h
  · split at h
    · cases h
    · split at h
      · cases h
      · split at h
        · cases h
        · rename_i pb pl ht
          obtain ⟨e1, l1⟩ := takeN_eq_some ht
          split at h
          · cases h
          · rename_i p' n hd
            split at h
            · cases h
            · rename_i hn
              cases h
              refine ⟨pb, e1, by omega, ?_⟩
              rw [hd, l1]
              congr 2
              omega

/-! ### reserved bits -/

theorem keepLow_zero (b : UInt8) : keepLow 0 b = 0 := by
  apply UInt8.toNat_inj.mp; simp [keepLow]; omega

theorem keepLow_two (b : UInt8) : keepLow 2 b = UInt8.ofNat (b.toNat % 4) := by
  simp [keepLow]

theorem clr_append_right (x y : Bytes) (p k : Nat) : clr (x.length + p) k (x ++ y) = x ++ clr p k y := by
  induction x with
  | nil => simp
  | cons a r ih =>
    simp only [List.length_cons, List.cons_append]
    rw [show r.length + 1 + p = (r.length + p) + 1 by omega]
    simp [clr, ih]

theorem clr_append_left (x y : Bytes) (p k : Nat) (h : p < x.length) :
    clr p k (x ++ y) = clr p k x ++ y := by
  induction x generalizing p with
  | nil => simp at h
  | cons a r ih =>
    cases p with
    | zero => simp [clr]
    | succ q =>
      simp only [List.length_cons] at h
      simp [clr, ih q (by omega)]

theorem length_clr (p k : Nat) (l : Bytes) : (clr p k l).length = l.length := by
  induction l generalizing p with
  | nil => simp [clr]
  | cons a r ih => cases p <;> simp [clr, ih]

theorem length_clearBits (l : Bytes) (ms : List (Nat × Nat)) : (clearBits l ms).length = l.length := by
  induction ms generalizing l with
  | nil => rfl
  | cons m ms ih => obtain ⟨p, k⟩ := m; simp only [clearBits]; rw [ih, length_clr]

theorem clearBits_append_right (x y : Bytes) (ms : List (Nat × Nat)) :
    clearBits (x ++ y) (ms.map fun (p, k) => (x.length + p, k)) = x ++ clearBits y ms := by
  induction ms generalizing y with
  | nil => simp [clearBits]
  | cons m ms ih =>
    obtain ⟨p, k⟩ := m
    simp only [List.map_cons, clearBits, clr_append_right, ih]

theorem clearBits_append_left (x y : Bytes) (ms : List (Nat × Nat))
    (h : ∀ m ∈ ms, m.1 < x.length) : clearBits (x ++ y) ms = clearBits x ms ++ y := by
  induction ms generalizing x with
  | nil => simp [clearBits]
  | cons m ms ih =>
    obtain ⟨p, k⟩ := m
    have hp : p < x.length := h (p, k) (by simp)
    simp only [clearBits, clr_append_left x y p k hp]
    apply ih
    intro m hm
    rw [length_clr]
    exact h m (by simp [hm])

theorem natBE4_encode_decode (a b c d : UInt8) :
    natBE 4 (PathMeta.encode (PathMeta.decode (beNat [a, b, c, d]))) = [a, keepLow 2 b, c, d] := by
  have := a.toNat_lt; have := b.toNat_lt; have := c.toNat_lt; have := d.toNat_lt
  simp only [PathMeta.encode, PathMeta.decode, beNat, natBE, keepLow, List.foldl]
  simp only [List.cons.injEq, and_true]
  bytes_eq

/-- a raw SCION path decoded from exactly `rest`: re-encoding clears the six reserved bits of the
meta line only -/
theorem decRaw_ok_exact {rest : Bytes} {m : PathMeta.Hdr} {body : Bytes}
    (h : decRaw rest = .ok (m, body, rest.length)) :
    RawWF m body ∧ 4 + body.length = rest.length ∧ encRaw m body = clr 1 2 rest := by
  unfold decRaw at h
  split at h
  · rename_i a b c d tl
    obtain ⟨hm, hw, ⟨slack, hs⟩, hn⟩ := decRawBody_ok h
    simp only [List.length_cons] at hn
    have hsl : slack = [] := by
      have : tl.length = body.length + slack.length := by rw [hs]; simp
      apply List.eq_nil_of_length_eq_zero; omega
    subst hsl
    simp only [List.append_nil] at hs
    subst hs
    refine ⟨hw, by simp only [List.length_cons]; omega, ?_⟩
    rw [hm]
    unfold encRaw
    rw [natBE4_encode_decode]
    rfl
  · cases h

theorem rawWF_pathLen {m : PathMeta.Hdr} {body : Bytes} (h : RawWF m body) :
    (match PathMeta.baseDecode m with | some b => 4 + bodyLen b | none => 4) = 4 + body.length := by
  obtain ⟨_, b, hb, hl⟩ := rawWF_elim h
  rw [hb]; simp [hl]

theorem decPath_ok {pt : Nat} {pb : Bytes} {p : PathV} (h : decPath pt pb = .ok (p, pb.length)) :
    PathWF p ∧ p.type = pt ∧ pathLen p = pb.length ∧
      encPath p = some (clearBits pb (pathMask p)) ∧ ∀ m ∈ pathMask p, m.1 < pb.length := by
  unfold decPath at h
  split at h
  · rename_i hpt
    split at h
    · cases h
    · rename_i hl
      simp only [Except.ok.injEq, Prod.mk.injEq] at h
      obtain ⟨hp, _⟩ := h
      subst hp
      have : pb = [] := List.eq_nil_of_length_eq_zero (by omega)
      subst this
      exact ⟨trivial, hpt.symm, rfl, rfl, by simp [pathMask]⟩
  · split at h
    · rename_i hpt
      split at h
      · cases h
      · rename_i m body n hr
        simp only [Except.ok.injEq, Prod.mk.injEq] at h
        obtain ⟨hp, hn⟩ := h
        subst hp
        subst hn
        obtain ⟨hw, hl, he⟩ := decRaw_ok_exact hr
        refine ⟨hw, hpt.symm, ?_, ?_, ?_⟩
        · show (match PathMeta.baseDecode m with | some b => 4 + bodyLen b | none => 4) = _
          rw [rawWF_pathLen hw]; exact hl
        · show some (encRaw m body) = _
          rw [he]; rfl
        · simp [pathMask]; omega
    · split at h
      · rename_i hpt
        split at h
        · cases h
        · rename_i p' hr
          simp only [Except.ok.injEq, Prod.mk.injEq] at h
          obtain ⟨hp, hlen⟩ := h
          subst hp
          obtain ⟨i, h1, h2, ib, h1b, h2b, slack, rfl, hdat, l1, l2, l3, hi, hh1, hh2⟩ :=
            decOneHop_ok hr
          have hsl : slack = [] := by
            have : pb.length = 8 + 12 + 12 + slack.length := by rw [hdat]; simp [l1, l2, l3]; omega
            apply List.eq_nil_of_length_eq_zero; omega
          subst hsl
          obtain ⟨a0,a1,a2,a3,a4,a5,a6,a7,rfl⟩ := length8 l1
          obtain ⟨c0,c1,c2,c3,c4,c5,c6,c7,c8,c9,c10,c11,rfl⟩ := length12 l2
          obtain ⟨d0,d1,d2,d3,d4,d5,d6,d7,d8,d9,d10,d11,rfl⟩ := length12 l3
          obtain ⟨e1, w1⟩ := encInfo_decInfo _ _ _ _ _ _ _ _ _ hi
          obtain ⟨e2, w2⟩ := encHop_decHop _ _ _ _ _ _ _ _ _ _ _ _ _ hh1
          obtain ⟨e3, w3⟩ := encHop_decHop _ _ _ _ _ _ _ _ _ _ _ _ _ hh2
          subst hdat
          refine ⟨⟨w1, w2, w3⟩, hpt.symm, by simp [pathLen], ?_, by simp [pathMask]⟩
          show some (encInfo i ++ encHop h1 ++ encHop h2) = _
          rw [e1, e2, e3]
          simp [clearBits, clr, pathMask, keepLow_zero, keepLow_two]
      · split at h
        · rename_i hpt
          unfold decEpic at h
          split at h
          · rename_i t0 t1 t2 t3 c0 c1 c2 c3 p0 p1 p2 p3 l0 l1 l2 l3 rest
            split at h
            · cases h
            · rename_i m body n hr
              simp only [Except.ok.injEq, Prod.mk.injEq, List.length_cons] at h
              obtain ⟨hp, hn⟩ := h
              have hn' : n = rest.length := by omega
              subst hn'
              subst hp
              obtain ⟨hw, hl, he⟩ := decRaw_ok_exact hr
              refine ⟨⟨beNat4_lt _ _ _ _, beNat4_lt _ _ _ _, rfl, rfl, hw⟩, hpt.symm, ?_, ?_, ?_⟩
              · show (match PathMeta.baseDecode m with | some b => 20 + bodyLen b | none => 20) = _
                have := rawWF_pathLen hw
                obtain ⟨_, b, hb, hlb⟩ := rawWF_elim hw
                rw [hb] at this ⊢
                simp only [List.length_cons] 
                simp only at this
                omega
              · simp only [encPath]
                rw [if_neg (by simp), natBE_beNat4, natBE_beNat4, he]
                rfl
              · simp [pathMask]; omega
          · cases h
        · cases h

/-! ### lists of info / hop fields (`scion.Decoded`) -/

theorem decInfos_encInfos (is : List Info) (rest : Bytes) (hw : ∀ i ∈ is, i.WF) :
    decInfos is.length (encInfos is ++ rest) = some (is, rest) := by
  induction is with
  | nil => simp [encInfos, decInfos]
  | cons i is ih =>
    have hi := hw i (by simp)
    have his : ∀ j ∈ is, j.WF := fun j hj => hw j (by simp [hj])
    show decInfos (is.length + 1) (encInfo i ++ (encInfos is) ++ rest) = _
    rw [List.append_assoc]
    simp only [decInfos]
    rw [takeN_append' 8 _ _ (length_encInfo i)]
    simp only
    rw [decInfo_encInfo i hi, ih his]

theorem decHops_encHops (hs : List Hop) (rest : Bytes) (hw : ∀ h ∈ hs, h.WF) :
    decHops hs.length (encHops hs ++ rest) = some (hs, rest) := by
  induction hs with
  | nil => simp [encHops, decHops]
  | cons h hs ih =>
    have hh := hw h (by simp)
    have hhs : ∀ j ∈ hs, j.WF := fun j hj => hw j (by simp [hj])
    show decHops (hs.length + 1) (encHop h ++ (encHops hs) ++ rest) = _
    rw [List.append_assoc]
    simp only [decHops]
    rw [takeN_append' 12 _ _ (length_encHop h)]
    simp only
    rw [decHop_encHop h hh, ih hhs]

theorem length_encInfos (is : List Info) : (encInfos is).length = is.length * 8 := by
  induction is with
  | nil => rfl
  | cons i is ih =>
    show (encInfo i ++ encInfos is).length = _
    simp [length_encInfo, ih]; omega

theorem length_encHops (hs : List Hop) : (encHops hs).length = hs.length * 12 := by
  induction hs with
  | nil => rfl
  | cons h hs ih =>
    show (encHop h ++ encHops hs).length = _
    simp [length_encHop, ih]; omega

end Scion.Wire
