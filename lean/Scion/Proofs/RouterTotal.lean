import Scion.Proofs.RouterFrame
/-! Totality of the fast-path model: under the guarantee of the decoder (the whole path header
lies inside the buffer) no slice or index of `process` is out of range, so the explicit `crash`
outcome is unreachable; every answer is one of the documented dispositions. -/
namespace Scion.Router
open Scion.Util
open Scion.PathMeta hiding Info

/-- the dispositions (and SCMP type/code pairs) the fast path is documented to produce -/
def Documented : Disp → Prop
  | .crash => False
  | .slow t c _ =>
    (t = PP ∧ (c = cPktSize ∨ c = cBadSrc ∨ c = cBadDst ∨ c = cInvalidPath ∨ c = cUnkIngress ∨
      c = cUnkEgress ∨ c = cBadMac ∨ c = cExpired ∨ c = cSegChange)) ∨
    (t = tDestUnreach ∧ c = 0) ∨ (t = tExtDown ∧ c = 0) ∨ (t = tIntDown ∧ c = 0)
  | _ => True

/-- close a goal `Documented (d, _).1` for a concrete non-crash disposition -/
macro "doc_close" : tactic =>
  `(tactic| first
    | trivial
    | (simp [Documented, codeUnkIn, codeUnkEg, downType, PP, cPktSize, cBadSrc, cBadDst, cInvalidPath,
        cUnkIngress, cUnkEgress, cBadMac, cExpired, cSegChange, tDestUnreach, tExtDown, tIntDown]; done)
    | (simp only [Documented, codeUnkIn, codeUnkEg, downType]; split <;>
        simp [PP, cPktSize, cBadSrc, cBadDst, cInvalidPath, cUnkIngress, cUnkEgress, cBadMac, cExpired,
          cSegChange, tDestUnreach, tExtDown, tIntDown]))

theorem decodeHop_of_length {l : Bytes} (h : l.length = 12) : ∃ x, decodeHop l = some x := by
  match l, h with
  | [_, _, _, _, _, _, _, _, _, _, _, _], _ => exact ⟨_, rfl⟩

theorem decodeInfo_of_length {l : Bytes} (h : l.length = 8) : ∃ x, decodeInfo l = some x := by
  match l, h with
  | [_, _, _, _, _, _, _, _], _ => exact ⟨_, rfl⟩

theorem inBuf_hop (h : Hd) (buf : Bytes) (hb : InBuf h buf) (idx : Nat) (hi : idx < h.numHops) :
    hopOff h idx + 12 ≤ buf.length := by
  have := hopOff_mono h idx h.numHops hi
  unfold InBuf at hb; omega

theorem inBuf_info (h : Hd) (buf : Bytes) (hb : InBuf h buf) (idx : Nat) (hi : idx < h.numINF) :
    infoOff h idx + 8 ≤ buf.length := by
  have := infoOff_le_hopOff h idx h.numHops hi
  unfold InBuf at hb; omega

theorem inBuf_meta (h : Hd) (buf : Bytes) (hb : InBuf h buf) : h.pathOff + 4 ≤ buf.length := by
  unfold InBuf hopOff MetaLen at hb; omega

/-- an in-range hop read never leaves the buffer -/
theorem readHop_inBuf (h : Hd) (buf : Bytes) (hb : InBuf h buf) (idx : Nat) :
    readHop h buf idx = .err ∨ ∃ x, readHop h buf idx = .ok x := by
  unfold readHop
  split
  · rename_i hi
    right
    have hl : (slice buf (hopOff h idx) 12).length = 12 := by
      rw [length_slice]; have := inBuf_hop h buf hb idx hi; omega
    obtain ⟨x, hx⟩ := decodeHop_of_length hl
    exact ⟨x, by rw [hx]⟩
  · left; rfl

theorem readInfo_inBuf (h : Hd) (buf : Bytes) (hb : InBuf h buf) (idx : Nat) :
    readInfo h buf idx = .err ∨ ∃ x, readInfo h buf idx = .ok x := by
  unfold readInfo
  split
  · rename_i hi
    right
    have hl : (slice buf (infoOff h idx) 8).length = 8 := by
      rw [length_slice]; have := inBuf_info h buf hb idx hi; omega
    obtain ⟨x, hx⟩ := decodeInfo_of_length hl
    exact ⟨x, by rw [hx]⟩
  · left; rfl

/-- what every stage keeps: the path stays inside the buffer and the pointers stay on the path -/
structure Inv (h : Hd) (s : St) : Prop where
  buf : InBuf h s.buf
  inf : s.pm.currINF < h.numINF
  hop : s.pm.currHF < h.numHops
  mac : s.hop.mac.length = 6

theorem inBuf_of_length {h : Hd} {a b : Bytes} (hb : InBuf h a) (hl : b.length = a.length) : InBuf h b := by
  unfold InBuf at *; omega

/-! ### stage by stage -/

theorem stParse_total {h pm raw} (hb : InBuf h raw) :
    (∀ r, stParse h pm raw = .error r → Documented r.1) ∧
    (∀ s, stParse h pm raw = .ok s → Inv h s) := by
  constructor
  · intro r e
    unfold stParse at e
    rcases readHop_inBuf h raw hb pm.currHF with h1 | ⟨x, h1⟩
    · simp only [h1] at e; cases e; trivial
    · simp only [h1] at e
      rcases readInfo_inBuf h raw hb pm.currINF with h2 | ⟨y, h2⟩
      · simp only [h2] at e; cases e; trivial
      · simp only [h2] at e
        (repeat' (split at e)) <;> first | (cases e; trivial) | (cases e)
  · intro s e
    have a := stParse_ok e
    have b1 := getHop_some_bound a.hop
    have b2 := getInfo_some_bound a.inf
    exact ⟨by rw [a.buf]; exact hb, by rw [a.hpm]; exact b2.1, by rw [a.hpm]; exact b1.1, b1.2.2⟩

theorem stSegID_total {h ing s} (iv : Inv h s) :
    (∀ r, stSegID h ing s = .error r → Documented r.1) ∧
    (∀ s', stSegID h ing s = .ok s' → Inv h s') := by
  have hw := wrInfo_of_le (i := updSegID s.inf s.hop) (inBuf_info h s.buf iv.buf s.pm.currINF iv.inf)
  constructor
  · intro r e
    unfold stSegID at e
    simp only [iv.inf, if_true, hw] at e
    split at e <;> cases e
  · intro s' e
    have b := stSegID_ok e
    refine ⟨?_, by rw [b.hpm]; exact iv.inf, by rw [b.hpm]; exact iv.hop, by rw [b.hop]; exact iv.mac⟩
    rw [b.buf]
    split
    · exact inBuf_of_length iv.buf (length_setInfo h s.buf _ _ (inBuf_info h s.buf iv.buf _ iv.inf))
    · exact iv.buf

theorem stValidate1_total {h now ing s} :
    ∀ r, stValidate1 h now ing s = .error r → Documented r.1 := by
  intro r e
  unfold stValidate1 at e
  (repeat' (split at e)) <;> first | (cases e; doc_close) | (cases e)

theorem ingressInterface_some {h s} (iv : Inv h s) : ∃ id, ingressInterface h s = some id := by
  unfold ingressInterface
  split
  · rename_i hc
    simp only [Bool.and_eq_true] at hc
    have hx := hc.2
    unfold isFirstHopAfterXover base at hx
    simp at hx
    have h1 : s.pm.currINF - 1 < h.numINF := by have := iv.inf; omega
    have h2 : s.pm.currHF - 1 < h.numHops := by have := iv.hop; omega
    rcases readInfo_inBuf h s.buf iv.buf (s.pm.currINF - 1) with e1 | ⟨x, e1⟩
    · unfold readInfo at e1; simp [h1] at e1; split at e1 <;> cases e1
    · rcases readHop_inBuf h s.buf iv.buf (s.pm.currHF - 1) with e2 | ⟨y, e2⟩
      · unfold readHop at e2; simp [h2] at e2; split at e2 <;> cases e2
      · rw [readInfo_ok e1, readHop_ok e2]; exact ⟨_, rfl⟩
  · exact ⟨_, rfl⟩

theorem stTransit_total {cfg h ing s} (iv : Inv h s) :
    ∀ r, stTransit cfg h ing s = .error r → Documented r.1 := by
  intro r e
  unfold stTransit at e
  obtain ⟨id, hid⟩ := ingressInterface_some iv
  simp only [hid] at e
  (repeat' (split at e)) <;> first | (cases e; trivial) | (cases e)

theorem stSrcDst_total {cfg h ing s} :
    ∀ r, stSrcDst cfg h ing s = .error r → Documented r.1 := by
  intro r e
  unfold stSrcDst at e
  (repeat' (split at e)) <;> first | (cases e; doc_close) | (cases e)

theorem length_clearIngressAlert (inf : Info) (x : Hop) : (clearIngressAlert inf x).mac = x.mac := by
  unfold clearIngressAlert; split <;> rfl

theorem length_clearEgressAlert (inf : Info) (x : Hop) : (clearEgressAlert inf x).mac = x.mac := by
  unfold clearEgressAlert; split <;> rfl

theorem stMac_total {cfg mac h ing s} (iv : Inv h s) :
    ∀ r, stMac cfg mac h ing s = .error r → Documented r.1 := by
  intro r e
  unfold stMac at e
  have hw := wrHop_of_le (x := clearIngressAlert s.inf s.hop) (inBuf_hop h s.buf iv.buf s.pm.currHF iv.hop)
  simp only [iv.hop, if_true, hw] at e
  (repeat' (split at e)) <;> first | (cases e; doc_close) | (cases e)

theorem inbound_total (res : ResolveOut) (s : St) : Documented (inbound res s).1 := by
  cases res <;> simp [inbound, Documented]

theorem incPath_inv {h : Hd} {pm : Hdr} {b' : Base} (e : incPath (base h pm) = .ok b') :
    b'.pm.currHF < h.numHops := by
  unfold incPath base at e
  split at e
  · cases e
  · split at e
    · cases e
    · rename_i hc; cases e; simp at hc ⊢; omega

theorem stXover_total {cfg mac h now s} (iv : Inv h s) :
    (∀ r, stXover cfg mac h now s = .error r → Documented r.1) ∧
    (∀ s', stXover cfg mac h now s = .ok s' → Inv h s') := by
  constructor
  · intro r e
    unfold stXover at e
    split at e
    · split at e
      · cases e; trivial
      · rename_i b' hb
        have hm := inBuf_meta h s.buf iv.buf
        simp only [wrMeta_of_le hm] at e
        have ib : InBuf h (setMeta h s.buf b'.pm) :=
          inBuf_of_length iv.buf (length_setMeta h s.buf b'.pm hm)
        rcases readHop_inBuf h _ ib b'.pm.currHF with h1 | ⟨x, h1⟩
        · simp only [h1] at e; cases e; trivial
        · simp only [h1] at e
          rcases readInfo_inBuf h _ ib b'.pm.currINF with h2 | ⟨y, h2⟩
          · simp only [h2] at e; cases e; trivial
          · simp only [h2] at e
            (repeat' (split at e)) <;> first | (cases e; doc_close) | (cases e)
    · cases e
  · intro s' e
    have x := stXover_ok e
    cases hdx : doesXover h s
    · rw [x.no hdx]; exact iv
    · obtain ⟨b', hinc, hpm', hbuf, hh, hi, _, _, _⟩ := x.yes hdx
      have hm := inBuf_meta h s.buf iv.buf
      refine ⟨?_, ?_, ?_, (getHop_some_bound hh).2.2⟩
      · rw [hbuf]; exact inBuf_of_length iv.buf (length_setMeta h s.buf b'.pm hm)
      · rw [hpm']; exact (getInfo_some_bound hi).1
      · rw [hpm']; exact (getHop_some_bound hh).1

theorem pairCheck_codes (x : Bool) (ifid : Nat) (i e : LinkType) (c : Nat)
    (h : pairCheck x ifid i e = some c) : c = cInvalidPath ∨ c = cSegChange := by
  cases x <;> cases i <;> cases e <;> by_cases h0 : ifid = 0 <;>
    simp [pairCheck, h0] at h <;> simp [← h]

theorem stEgressID_total {cfg h ing s} :
    ∀ r, stEgressID cfg h ing s = .error r → Documented r.1 := by
  intro r e
  unfold stEgressID at e
  split at e
  · cases e; doc_close
  · split at e
    · cases e; doc_close
    · split at e
      · cases e
      · rename_i code hp
        cases e
        rcases pairCheck_codes _ _ _ _ _ hp with hc | hc <;> subst hc <;> doc_close

theorem stEgressAlertUp_total {h l s} (iv : Inv h s) :
    ∀ r, stEgressAlertUp h l s = .error r → Documented r.1 := by
  intro r e
  unfold stEgressAlertUp at e
  have hw := wrHop_of_le (x := clearEgressAlert s.inf s.hop) (inBuf_hop h s.buf iv.buf s.pm.currHF iv.hop)
  simp only [iv.hop, if_true, hw] at e
  (repeat' (split at e)) <;> first | (cases e; doc_close) | (cases e)

theorem stProcessEgress_total {h s} (iv : Inv h s) :
    (∀ r, stProcessEgress h s = .error r → Documented r.1) ∧
    (∀ s', stProcessEgress h s = .ok s' → InBuf h s'.buf ∧ s'.buf.length = s.buf.length) := by
  have hi := inBuf_info h s.buf iv.buf s.pm.currINF iv.inf
  have hm := inBuf_meta h s.buf iv.buf
  have hl1 := length_setInfo h s.buf s.pm.currINF (updSegID s.inf s.hop) hi
  constructor
  · intro r e
    unfold stProcessEgress at e
    simp only [iv.inf, if_true, wrInfo_of_le hi, wrMeta_of_le hm] at e
    split at e
    · split at e
      · cases e; trivial
      · rw [wrMeta_of_le (by rw [hl1]; exact hm)] at e
        cases e
    · split at e
      · cases e; trivial
      · cases e
  · intro s' e
    obtain ⟨b', _, _, hb⟩ := stProcessEgress_ok e
    have : s'.buf.length = s.buf.length := by
      rw [hb]
      split
      · rw [length_setMeta _ _ _ (by rw [hl1]; exact hm), hl1]
      · rw [length_setMeta _ _ _ hm]
    exact ⟨inBuf_of_length iv.buf this, this⟩

theorem outbound_total {cfg mac h now ing s} (iv : Inv h s) :
    Documented (outbound cfg mac h now ing s).1 := by
  unfold outbound
  cases e0 : stXover cfg mac h now s with
  | error r => exact (stXover_total iv).1 r e0
  | ok s5 =>
    have iv5 := (stXover_total iv).2 s5 e0
    simp only
    cases e1 : stEgressID cfg h ing s5 with
    | error r => exact stEgressID_total r e1
    | ok l =>
      simp only
      cases e2 : stEgressAlertUp h l s5 with
      | error r => exact stEgressAlertUp_total iv5 r e2
      | ok s6 =>
        have h6 := (stEgressAlertUp_ok e2).1; subst h6
        simp only
        split
        · cases e3 : stProcessEgress h s6 with
          | error r => exact (stProcessEgress_total iv5).1 r e3
          | ok s7 => trivial
        · trivial

/-- **no crash, documented answers only**: whenever the path header lies inside the buffer,
`process` answers with a documented disposition — none of its slices or indices is out of range -/
theorem process_documented (cfg : Cfg) (mac : Mac) (resolve : Cfg → Hd → ResolveOut) (now : Nat)
    (ing : Ingress) (h : Hd) (pm : Hdr) (raw : Bytes) (hb : InBuf h raw) :
    Documented (process cfg mac resolve now ing h pm raw).1 := by
  unfold process
  cases e0 : stParse h pm raw with
  | error r => exact (stParse_total hb).1 r e0
  | ok s0 =>
    have iv0 := (stParse_total hb).2 s0 e0
    simp only
    cases e1 : stSegID h ing s0 with
    | error r => exact (stSegID_total iv0).1 r e1
    | ok s1 =>
      have iv := (stSegID_total iv0).2 s1 e1
      simp only
      cases e2 : stValidate1 h now ing s1 with
      | error r => exact stValidate1_total r e2
      | ok s2 =>
        have h2 := (stValidate1_ok e2).1; subst h2
        simp only
        cases e3 : stTransit cfg h ing s2 with
        | error r => exact stTransit_total iv r e3
        | ok s3 =>
          have h3 := (stTransit_ok e3).1; subst h3
          simp only
          cases e4 : stSrcDst cfg h ing s3 with
          | error r => exact stSrcDst_total r e4
          | ok s4 =>
            have h4 := (stSrcDst_ok e4).1; subst h4
            simp only
            cases e5 : stMac cfg mac h ing s4 with
            | error r => exact stMac_total iv r e5
            | ok s5 =>
              have h5 := (stMac_ok e5).1; subst h5
              simp only
              split
              · exact inbound_total _ _
              · exact outbound_total iv

/-- the decoder's guarantee: the whole path header lies inside the buffer -/
theorem parse_inBuf {raw : Bytes} {h : Hd} {pm : Hdr} (e : parse raw = .ok h pm) : InBuf h raw := by
  unfold parse at e
  split at e
  · rename_i x0 x1 x2 x3 nh hl pl0 pl1 pt ty x10 x11 rest
    dsimp only at e
    split at e
    · cases e
    · split at e
      · cases e
      · rename_i c1
        split at e
        · cases e
        · rename_i c2
          split at e
          · cases e
          · rename_i c3
            split at e
            · cases e
            · rename_i c4
              split at e
              · cases e
              · rename_i b hb
                split at e
                · cases e
                · rename_i c5
                  split at e
                  · cases e
                  · rename_i c6
                    split at e
                    · cases e
                    · split at e
                      · cases e
                      · cases e
                        unfold InBuf hopOff MetaLen InfoLen HopLen
                        simp only [List.length_cons] at c3 ⊢
                        omega
  · cases e

end Scion.Router
