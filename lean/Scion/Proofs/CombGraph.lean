import Scion.Proofs.Combinator
/-! Lemmas relating the graph model (`newDMG`, `getPaths`) of `Scion.Model.Combinator` to the
specification `allJoins` / `IsJoin` (used by `Props/C29.lean`). -/
namespace Scion.Combinator


/-- a chain of graph edges explored by the search: starts at vertex `v` with current segment kind
`k`, every edge leaves the vertex the previous one reached, respects `validNextSeg`, only the last
edge reaches `dst` -/
def Chain (g : DMG) (dst : Vertex) : Option Kind → Vertex → List GEdge → Prop
  | _, _, [] => False
  | k, v, [x] => x ∈ g ∧ x.src = v ∧ validNextSeg k x.e.kind = true ∧ x.dst = dst
  | k, v, x :: y :: r => x ∈ g ∧ x.src = v ∧ validNextSeg k x.e.kind = true ∧ x.dst ≠ dst ∧
      Chain g dst (some x.e.kind) x.dst (y :: r)

theorem mem_expand {g : DMG} {s s' : Sol} :
    s' ∈ expand g s ↔ ∃ x ∈ g, x.src = s.cur ∧ validNextSeg s.kind x.e.kind = true ∧
      s' = ⟨s.edges ++ [x.e], x.dst, some x.e.kind⟩ := by
  unfold expand
  simp only [List.mem_map, List.mem_filter, Bool.and_eq_true, beq_iff_eq]
  constructor
  · rintro ⟨x, ⟨hx, h1, h2⟩, rfl⟩; exact ⟨x, hx, h1, h2, rfl⟩
  · rintro ⟨x, hx, h1, h2, rfl⟩; exact ⟨x, ⟨hx, h1, h2⟩, rfl⟩

theorem mem_bfs {g : DMG} {dst : Vertex} (n : Nat) (q : List Sol) (es : List Edge) :
    es ∈ bfs g dst n q ↔ ∃ s ∈ q, ∃ c : List GEdge, c.length ≤ n ∧ Chain g dst s.kind s.cur c ∧
      es = s.edges ++ c.map (·.e) := by
  induction n generalizing q with
  | zero =>
    simp only [bfs, List.not_mem_nil, false_iff]
    rintro ⟨s, _, c, hc, hch, _⟩
    cases c with
    | nil => exact hch
    | cons => simp at hc
  | succ n ih =>
    unfold bfs
    simp only [List.mem_append, List.mem_map, List.mem_filter, List.mem_flatMap, ih, beq_iff_eq,
      bne_iff_ne, mem_expand]
    constructor
    · rintro (⟨s', ⟨⟨s, hs, x, hx, h1, h2, rfl⟩, hd⟩, rfl⟩ | ⟨s', ⟨⟨s, hs, x, hx, h1, h2, rfl⟩, hd⟩, c, hc, hch, rfl⟩)
      · exact ⟨s, hs, [x], by simp, ⟨hx, h1, h2, hd⟩, by simp⟩
      · cases c with
        | nil => exact absurd hch (by simp [Chain])
        | cons y r =>
          refine ⟨s, hs, x :: y :: r, by simp at hc ⊢; omega, ⟨hx, h1, h2, hd, hch⟩, by simp⟩
    · rintro ⟨s, hs, c, hc, hch, rfl⟩
      match c, hch with
      | [x], ⟨hx, h1, h2, hd⟩ =>
        exact .inl ⟨_, ⟨⟨s, hs, x, hx, h1, h2, rfl⟩, hd⟩, by simp⟩
      | x :: y :: r, ⟨hx, h1, h2, hd, hch⟩ =>
        exact .inr ⟨_, ⟨⟨s, hs, x, hx, h1, h2, rfl⟩, hd⟩, y :: r, by simp at hc ⊢; omega, hch, by simp⟩

def kindRank : Option Kind → Nat
  | none => 0
  | some .up => 1
  | some .core => 2
  | some .down => 3

theorem validNext_rank {k : Option Kind} {n : Kind} (h : validNextSeg k n = true) :
    kindRank k + 1 ≤ kindRank (some n) := by
  cases k with
  | none => cases n <;> simp [kindRank]
  | some k => cases k <;> cases n <;> simp_all [validNextSeg, kindRank]

theorem chain_length {g : DMG} {dst : Vertex} {k : Option Kind} {v : Vertex} {c : List GEdge}
    (h : Chain g dst k v c) : c.length + kindRank k ≤ 3 := by
  induction c generalizing k v with
  | nil => exact absurd h (by simp [Chain])
  | cons x r ih =>
    cases r with
    | nil =>
      obtain ⟨_, _, h2, _⟩ := h
      have := validNext_rank h2
      have : kindRank (some x.e.kind) ≤ 3 := by cases x.e.kind <;> simp [kindRank]
      simp; omega
    | cons y r =>
      obtain ⟨_, _, h2, _, hch⟩ := h
      have := validNext_rank h2
      have := ih hch
      simp at this ⊢; omega

/-- the solutions found by the search are exactly the chains from `src` to `dst` -/
theorem getPaths_iff_chain {g : DMG} {src dst : Nat} {es : List Edge} :
    es ∈ getPaths g src dst ↔ ∃ c, Chain g (vIA dst) none (vIA src) c ∧ es = c.map (·.e) := by
  unfold getPaths
  rw [mem_bfs]
  simp only [List.mem_singleton, exists_eq_left, List.nil_append]
  constructor
  · rintro ⟨c, _, hch, rfl⟩; exact ⟨c, hch, rfl⟩
  · rintro ⟨c, hch, rfl⟩
    have := chain_length hch
    exact ⟨c, by omega, hch, rfl⟩

/-- more fuel finds nothing new: four rounds exhaust the queue -/
theorem bfs_fuel {g : DMG} {src dst : Nat} (n : Nat) (es : List Edge) :
    es ∈ bfs g (vIA dst) (4 + n) [⟨[], vIA src, none⟩] ↔ es ∈ getPaths g src dst := by
  unfold getPaths
  rw [mem_bfs, mem_bfs]
  simp only [List.mem_singleton, exists_eq_left, List.nil_append]
  constructor
  · rintro ⟨c, _, hch, rfl⟩
    have := chain_length hch
    exact ⟨c, by omega, hch, rfl⟩
  · rintro ⟨c, _, hch, rfl⟩
    exact ⟨c, by omega, hch, rfl⟩


theorem traverseSegment_eq {g g' : DMG} {s kind i} (h : traverseSegment g s kind i = some g') :
    g' = (segTuples kind (i, s)).foldl addEdge g := by
  unfold traverseSegment at h
  unfold segTuples
  split at h
  · next l f hl hf =>
    simp only [hl, hf]
    split at h
    · next hk => cases h; simp [hk]
    · next hk => cases h; simp [hk]
  · cases h

theorem traverseAll_eq {kind} {g g' : DMG} {i ss} (h : traverseAll kind g i ss = some g') :
    g' = ((indexedFrom i ss).flatMap (segTuples kind)).foldl addEdge g := by
  induction ss generalizing g i with
  | nil => simp [traverseAll] at h; simp [indexedFrom, h]
  | cons s ss ih =>
    unfold traverseAll at h
    split at h
    · cases h
    · next g1 h1 =>
      rw [ih h, traverseSegment_eq h1]
      simp [indexedFrom, List.foldl_append]

theorem newDMG_eq {ups cores downs : List Seg} {g : DMG} (h : newDMG ups cores downs = some g) :
    g = (allTuples ups cores downs).foldl addEdge [] := by
  unfold newDMG at h
  split at h
  · cases h
  · next g1 h1 =>
    split at h
    · cases h
    · next g2 h2 =>
      rw [traverseAll_eq h, traverseAll_eq h2, traverseAll_eq h1]
      simp [allTuples, List.foldl_append]

theorem mem_addEdge {g : DMG} {y x : GEdge} (h : x ∈ addEdge g y) : x ∈ g ∨ x = y := by
  unfold addEdge at h
  split at h
  · rw [List.mem_map] at h
    obtain ⟨z, hz, rfl⟩ := h
    split
    · exact .inr rfl
    · exact .inl hz
  · rcases List.mem_append.1 h with h | h
    · exact .inl h
    · simp at h; exact .inr h

theorem mem_foldl_addEdge {l g : DMG} {x : GEdge} (h : x ∈ l.foldl addEdge g) : x ∈ g ∨ x ∈ l := by
  induction l generalizing g with
  | nil => exact .inl h
  | cons y l ih =>
    rcases ih h with h | h
    · rcases mem_addEdge h with h | h
      · exact .inl h
      · exact .inr (h ▸ List.mem_cons_self)
    · exact .inr (List.mem_cons_of_mem _ h)

theorem foldl_addEdge_noCollision {l g : DMG} (h : NoCollision (g ++ l)) :
    l.foldl addEdge g = g ++ l := by
  induction l generalizing g with
  | nil => simp
  | cons y l ih =>
    have hy : addEdge g y = g ++ [y] := by
      unfold addEdge
      have : g.any (·.sameKey y) = false := by
        rw [List.any_eq_false]
        intro z hz
        have := (List.pairwise_append.1 h).2.2 z hz y List.mem_cons_self
        simp [this]
      simp [this]
    simp only [List.foldl_cons, hy]
    rw [ih (by simpa using h)]
    simp

/-- the graph contains only edges handed to `AddEdge` … -/
theorem dmg_sound {ups cores downs : List Seg} {g : DMG} (h : newDMG ups cores downs = some g)
    {x : GEdge} (hx : x ∈ g) : x ∈ allTuples ups cores downs := by
  rw [newDMG_eq h] at hx
  rcases mem_foldl_addEdge hx with h | h
  · cases h
  · exact h

/-- … and all of them when no key occurs twice -/
theorem dmg_complete {ups cores downs : List Seg} {g : DMG} (h : newDMG ups cores downs = some g)
    (hn : NoCollision (allTuples ups cores downs)) : g = allTuples ups cores downs := by
  rw [newDMG_eq h, foldl_addEdge_noCollision (by simpa using hn)]
  simp


theorem lastIA_some_iff {s : Seg} : (∃ l, lastIA s = some l) ↔ s.ents ≠ [] := by
  unfold lastIA
  cases h : s.ents.getLast? with
  | none => simp [List.getLast?_eq_none_iff.1 h]
  | some a =>
    simp
    intro hn; simp [hn] at h

theorem firstIA_some_iff {s : Seg} : (∃ f, firstIA s = some f) ↔ s.ents ≠ [] := by
  unfold firstIA
  cases h : s.ents with
  | nil => simp
  | cons a t => simp

/-- the (vertex, peer index) pairs of one AS entry -/
def ExitAt (len : Nat) (k : Nat) (ent : ASE) (v : Vertex) (pe : Nat) : Prop :=
  (pe = 0 ∧ k + 1 ≠ len ∧ v = vIA ent.ia) ∨
  (∃ j p, pe = j + 1 ∧ ent.peers[j]? = some p ∧ v = vPeering ent.ia p.hf.inIf p.peer p.peerIf)

theorem mem_entryTuples {s : Seg} {kind : Kind} {i l k : Nat} {ent : ASE} {x : GEdge} :
    x ∈ entryTuples s kind i l (k, ent) ↔ ∃ v pe, ExitAt s.ents.length k ent v pe ∧
      x = (if kind = Kind.down then (⟨v.reverse, vIA l, i, ⟨s, kind, k, pe⟩⟩ : GEdge)
           else ⟨vIA l, v, i, ⟨s, kind, k, pe⟩⟩) := by
  unfold entryTuples ExitAt
  simp only [List.mem_map, List.mem_append, Prod.exists, mem_indexedFrom_zero]
  constructor
  · rintro ⟨v, pe, (h | ⟨j, p, hp, h⟩), rfl⟩
    · split at h
      · next hne => simp at h; obtain ⟨rfl, rfl⟩ := h; exact ⟨_, _, .inl ⟨rfl, hne, rfl⟩, rfl⟩
      · cases h
    · simp at h; obtain ⟨rfl, rfl⟩ := h; exact ⟨_, _, .inr ⟨j, p, rfl, hp, rfl⟩, rfl⟩
  · rintro ⟨v, pe, (⟨rfl, hne, rfl⟩ | ⟨j, p, rfl, hp, rfl⟩), rfl⟩
    · exact ⟨_, _, .inl (by simp [hne]), rfl⟩
    · exact ⟨_, _, .inr ⟨j, p, hp, rfl⟩, rfl⟩

theorem mem_segTuples_up {i : Nat} {u : Seg} {x : GEdge} :
    x ∈ segTuples .up (i, u) ↔
      ∃ l, lastIA u = some l ∧ IsUpExit u x.e x.dst ∧ x.src = vIA l ∧ x.segIdx = i := by
  unfold segTuples
  cases hl : lastIA u with
  | none => simp
  | some l =>
    obtain ⟨f, hf⟩ := firstIA_some_iff.2 (lastIA_some_iff.1 ⟨l, hl⟩)
    simp only [hf, reduceCtorEq, if_false, List.mem_flatMap, List.mem_reverse, Prod.exists,
      mem_indexedFrom_zero, mem_entryTuples, Option.some.injEq, exists_eq_left']
    unfold IsUpExit ExitAt
    constructor
    · rintro ⟨k, ent, hk, v, pe, hex, rfl⟩
      exact ⟨⟨rfl, rfl, ent, hk, hex⟩, rfl, rfl⟩
    · rintro ⟨⟨h1, h2, ent, hk, hex⟩, h3, h4⟩
      refine ⟨x.e.sc, ent, hk, x.dst, x.e.peer, hex, ?_⟩
      obtain ⟨xs, xd, xi, ⟨es, ek, esc, ep⟩⟩ := x
      simp_all

theorem mem_segTuples_down {i : Nat} {d : Seg} {x : GEdge} :
    x ∈ segTuples .down (i, d) ↔
      ∃ l, lastIA d = some l ∧ IsDownEntry d x.src x.e ∧ x.dst = vIA l ∧ x.segIdx = i := by
  unfold segTuples
  cases hl : lastIA d with
  | none => simp
  | some l =>
    obtain ⟨f, hf⟩ := firstIA_some_iff.2 (lastIA_some_iff.1 ⟨l, hl⟩)
    simp only [hf, reduceCtorEq, if_false, List.mem_flatMap, List.mem_reverse, Prod.exists,
      mem_indexedFrom_zero, mem_entryTuples, Option.some.injEq, exists_eq_left', if_true]
    unfold IsDownEntry ExitAt
    constructor
    · rintro ⟨k, ent, hk, v, pe, (⟨rfl, hne, rfl⟩ | ⟨j, p, rfl, hp, rfl⟩), rfl⟩
      · exact ⟨⟨rfl, rfl, ent, hk, .inl ⟨rfl, hne, rfl⟩⟩, rfl, rfl⟩
      · exact ⟨⟨rfl, rfl, ent, hk, .inr ⟨j, p, rfl, hp, rfl⟩⟩, rfl, rfl⟩
    · rintro ⟨⟨h1, h2, ent, hk, hex⟩, h3, h4⟩
      obtain ⟨xs, xd, xi, ⟨es, ek, esc, ep⟩⟩ := x
      simp only at h1 h2 h3 h4 hk hex
      subst h1 h2 h3 h4
      rcases hex with ⟨rfl, hne, rfl⟩ | ⟨j, p, rfl, hp, rfl⟩
      · exact ⟨esc, ent, hk, vIA ent.ia, 0, .inl ⟨rfl, hne, rfl⟩, rfl⟩
      · exact ⟨esc, ent, hk, vPeering ent.ia p.hf.inIf p.peer p.peerIf, j + 1,
          .inr ⟨j, p, rfl, hp, rfl⟩, rfl⟩

theorem mem_segTuples_core {i : Nat} {c : Seg} {x : GEdge} :
    x ∈ segTuples .core (i, c) ↔
      ∃ l f, lastIA c = some l ∧ firstIA c = some f ∧ x = ⟨vIA l, vIA f, i, ⟨c, .core, 0, 0⟩⟩ := by
  unfold segTuples
  cases hl : lastIA c with
  | none => simp
  | some l =>
    obtain ⟨f, hf⟩ := firstIA_some_iff.2 (lastIA_some_iff.1 ⟨l, hl⟩)
    simp [hf]


theorem vIA_inj {a b : Nat} (h : vIA a = vIA b) : a = b := by
  unfold vIA at h; injection h

def IsUpG (ups : List Seg) (x : GEdge) : Prop :=
  x.e.kind = .up ∧ ∃ u ∈ ups, ∃ l, lastIA u = some l ∧ x.src = vIA l ∧ IsUpExit u x.e x.dst
def IsCoreG (cores : List Seg) (x : GEdge) : Prop :=
  x.e.kind = .core ∧ CoreOf cores x.src x.e x.dst
def IsDownG (downs : List Seg) (x : GEdge) : Prop :=
  x.e.kind = .down ∧ ∃ d ∈ downs, ∃ l, lastIA d = some l ∧ x.dst = vIA l ∧ IsDownEntry d x.src x.e

theorem allTuples_class {ups cores downs : List Seg} {x : GEdge}
    (h : x ∈ allTuples ups cores downs) : IsUpG ups x ∨ IsCoreG cores x ∨ IsDownG downs x := by
  unfold allTuples at h
  simp only [List.mem_append, List.mem_flatMap, Prod.exists, mem_indexedFrom] at h
  rcases h with (⟨k, u, ⟨_, hu⟩, hx⟩ | ⟨k, c, ⟨_, hc⟩, hx⟩) | ⟨k, d, ⟨_, hd⟩, hx⟩
  · obtain ⟨l, hl, hex, hs, _⟩ := mem_segTuples_up.1 hx
    exact .inl ⟨hex.2.1, u, List.mem_of_getElem? hu, l, hl, hs, hex⟩
  · obtain ⟨l, f, hl, hf, rfl⟩ := mem_segTuples_core.1 hx
    exact .inr (.inl ⟨rfl, c, List.mem_of_getElem? hc, rfl, l, f, hl, hf, rfl, rfl⟩)
  · obtain ⟨l, hl, hex, hs, _⟩ := mem_segTuples_down.1 hx
    exact .inr (.inr ⟨hex.2.1, d, List.mem_of_getElem? hd, l, hl, hs, hex⟩)

theorem up_in_tuples {ups cores downs : List Seg} {src : Nat} {e : Edge} {v : Vertex}
    (h : UpFrom ups src e v) :
    ∃ x ∈ allTuples ups cores downs, x.e = e ∧ x.src = vIA src ∧ x.dst = v := by
  obtain ⟨u, hu, hl, hex⟩ := h
  obtain ⟨i, hi⟩ := List.mem_iff_getElem?.1 hu
  refine ⟨⟨vIA src, v, i, e⟩, ?_, rfl, rfl, rfl⟩
  unfold allTuples
  simp only [List.mem_append, List.mem_flatMap, Prod.exists, mem_indexedFrom]
  exact .inl (.inl ⟨i, u, ⟨Nat.zero_le _, by simpa using hi⟩, mem_segTuples_up.2 ⟨src, hl, hex, rfl, rfl⟩⟩)

theorem core_in_tuples {ups cores downs : List Seg} {a b : Vertex} {e : Edge}
    (h : CoreOf cores a e b) :
    ∃ x ∈ allTuples ups cores downs, x.e = e ∧ x.src = a ∧ x.dst = b := by
  obtain ⟨c, hc, rfl, l, f, hl, hf, rfl, rfl⟩ := h
  obtain ⟨i, hi⟩ := List.mem_iff_getElem?.1 hc
  refine ⟨⟨vIA l, vIA f, ups.length + i, ⟨c, .core, 0, 0⟩⟩, ?_, rfl, rfl, rfl⟩
  unfold allTuples
  simp only [List.mem_append, List.mem_flatMap, Prod.exists, mem_indexedFrom]
  exact .inl (.inr ⟨ups.length + i, c, ⟨Nat.le_add_right _ _, by simpa using hi⟩,
    mem_segTuples_core.2 ⟨l, f, hl, hf, rfl⟩⟩)

theorem down_in_tuples {ups cores downs : List Seg} {dst : Nat} {e : Edge} {v : Vertex}
    (h : DownTo downs dst v e) :
    ∃ x ∈ allTuples ups cores downs, x.e = e ∧ x.src = v ∧ x.dst = vIA dst := by
  obtain ⟨d, hd, hl, hex⟩ := h
  obtain ⟨i, hi⟩ := List.mem_iff_getElem?.1 hd
  refine ⟨⟨v, vIA dst, ups.length + cores.length + i, e⟩, ?_, rfl, rfl, rfl⟩
  unfold allTuples
  simp only [List.mem_append, List.mem_flatMap, Prod.exists, mem_indexedFrom]
  exact .inr ⟨ups.length + cores.length + i, d, ⟨Nat.le_add_right _ _, by simpa using hi⟩,
    mem_segTuples_down.2 ⟨dst, hl, hex, rfl, rfl⟩⟩

/-- `IsJoin` whose intermediate join points are not the destination vertex (the search of
graph.go does not extend a solution that has reached the destination) -/
def IsJoinStrict (ups cores downs : List Seg) (src dst : Nat) (es : List Edge) : Prop :=
  (∃ e, es = [e] ∧ UpFrom ups src e (vIA dst)) ∨
  (∃ c, es = [c] ∧ CoreOf cores (vIA src) c (vIA dst)) ∨
  (∃ d, es = [d] ∧ DownTo downs dst (vIA src) d) ∨
  (∃ e c v, es = [e, c] ∧ v ≠ vIA dst ∧ UpFrom ups src e v ∧ CoreOf cores v c (vIA dst)) ∨
  (∃ e d v, es = [e, d] ∧ v ≠ vIA dst ∧ UpFrom ups src e v ∧ DownTo downs dst v d) ∨
  (∃ c d v, es = [c, d] ∧ v ≠ vIA dst ∧ CoreOf cores (vIA src) c v ∧ DownTo downs dst v d) ∨
  (∃ e c d v w, es = [e, c, d] ∧ v ≠ vIA dst ∧ w ≠ vIA dst ∧ UpFrom ups src e v ∧
    CoreOf cores v c w ∧ DownTo downs dst w d)

theorem IsJoinStrict.isJoin {ups cores downs : List Seg} {src dst : Nat} {es : List Edge}
    (h : IsJoinStrict ups cores downs src dst es) : IsJoin ups cores downs src dst es := by
  rcases h with h | h | h | ⟨e, c, v, h, _, h2⟩ | ⟨e, d, v, h, _, h2⟩ | ⟨c, d, v, h, _, h2⟩ |
    ⟨e, c, d, v, w, h, _, _, h2⟩
  · exact .inl h
  · exact .inr (.inl h)
  · exact .inr (.inr (.inl h))
  · exact .inr (.inr (.inr (.inl ⟨e, c, v, h, h2⟩)))
  · exact .inr (.inr (.inr (.inr (.inl ⟨e, d, v, h, h2⟩))))
  · exact .inr (.inr (.inr (.inr (.inr (.inl ⟨c, d, v, h, h2⟩)))))
  · exact .inr (.inr (.inr (.inr (.inr (.inr ⟨e, c, d, v, w, h, h2⟩)))))

theorem upG_first {ups : List Seg} {x : GEdge} {src : Nat} (h : IsUpG ups x) (hs : x.src = vIA src) :
    UpFrom ups src x.e x.dst := by
  obtain ⟨_, u, hu, l, hl, hsl, hex⟩ := h
  have : l = src := vIA_inj (hsl.symm.trans hs)
  subst this
  exact ⟨u, hu, hl, hex⟩

theorem downG_last {downs : List Seg} {x : GEdge} {dst : Nat} (h : IsDownG downs x)
    (hd : x.dst = vIA dst) : DownTo downs dst x.src x.e := by
  obtain ⟨_, d, hdm, l, hl, hdl, hex⟩ := h
  have : l = dst := vIA_inj (hdl.symm.trans hd)
  subst this
  exact ⟨d, hdm, hl, hex⟩

theorem chain_to_join {ups cores downs : List Seg} {g : DMG} {src dst : Nat} {c : List GEdge}
    (hg : ∀ x ∈ g, x ∈ allTuples ups cores downs)
    (h : Chain g (vIA dst) none (vIA src) c) :
    IsJoinStrict ups cores downs src dst (c.map (·.e)) := by
  match c, h with
  | [x], ⟨hx, hs, _, hd⟩ =>
    rcases allTuples_class (hg x hx) with hu | hc | hdn
    · exact .inl ⟨x.e, rfl, hd ▸ upG_first hu hs⟩
    · exact .inr (.inl ⟨x.e, rfl, hs ▸ hd ▸ hc.2⟩)
    · exact .inr (.inr (.inl ⟨x.e, rfl, hs ▸ downG_last hdn hd⟩))
  | [x, y], ⟨hx, hs, _, hnd, hy, hys, hv, hyd⟩ =>
    rcases allTuples_class (hg x hx) with hu | hc | hdn
    · rcases allTuples_class (hg y hy) with hu2 | hc2 | hdn2
      · simp [validNextSeg, hu.1, hu2.1] at hv
      · exact .inr (.inr (.inr (.inl ⟨x.e, y.e, x.dst, rfl, hnd, upG_first hu hs, hys ▸ hyd ▸ hc2.2⟩)))
      · exact .inr (.inr (.inr (.inr (.inl ⟨x.e, y.e, x.dst, rfl, hnd, upG_first hu hs,
          hys ▸ downG_last hdn2 hyd⟩))))
    · rcases allTuples_class (hg y hy) with hu2 | hc2 | hdn2
      · simp [validNextSeg, hc.1, hu2.1] at hv
      · simp [validNextSeg, hc.1, hc2.1] at hv
      · exact .inr (.inr (.inr (.inr (.inr (.inl ⟨x.e, y.e, x.dst, rfl, hnd, hs ▸ hc.2,
          hys ▸ downG_last hdn2 hyd⟩)))))
    · simp [validNextSeg, hdn.1] at hv
  | [x, y, z], ⟨hx, hs, _, hnd, hy, hys, hv, hnd2, hz, hzs, hv2, hzd⟩ =>
    rcases allTuples_class (hg x hx) with hu | hc | hdn
    · rcases allTuples_class (hg y hy) with hu2 | hc2 | hdn2
      · simp [validNextSeg, hu.1, hu2.1] at hv
      · rcases allTuples_class (hg z hz) with hu3 | hc3 | hdn3
        · simp [validNextSeg, hc2.1, hu3.1] at hv2
        · simp [validNextSeg, hc2.1, hc3.1] at hv2
        · exact .inr (.inr (.inr (.inr (.inr (.inr ⟨x.e, y.e, z.e, x.dst, y.dst, rfl, hnd, hnd2,
            upG_first hu hs, hys ▸ hc2.2, hzs ▸ downG_last hdn3 hzd⟩)))))
      · simp [validNextSeg, hdn2.1] at hv2
    · rcases allTuples_class (hg y hy) with hu2 | hc2 | hdn2
      · simp [validNextSeg, hc.1, hu2.1] at hv
      · simp [validNextSeg, hc.1, hc2.1] at hv
      · simp [validNextSeg, hdn2.1] at hv2
    · simp [validNextSeg, hdn.1] at hv
  | _ :: _ :: _ :: _ :: _, h =>
    have := chain_length h
    simp [kindRank] at this

theorem join_to_chain {ups cores downs : List Seg} {g : DMG} {src dst : Nat} {es : List Edge}
    (hg : ∀ x ∈ allTuples ups cores downs, x ∈ g)
    (h : IsJoinStrict ups cores downs src dst es) :
    ∃ c, Chain g (vIA dst) none (vIA src) c ∧ es = c.map (·.e) := by
  rcases h with ⟨e, rfl, hu⟩ | ⟨c, rfl, hc⟩ | ⟨d, rfl, hd⟩ | ⟨e, c, v, rfl, hv, hu, hc⟩ |
    ⟨e, d, v, rfl, hv, hu, hd⟩ | ⟨c, d, v, rfl, hv, hc, hd⟩ | ⟨e, c, d, v, w, rfl, hv, hw, hu, hc, hd⟩
  · obtain ⟨x, hx, rfl, hs, hd⟩ := up_in_tuples (cores := cores) (downs := downs) hu
    exact ⟨[x], ⟨hg x hx, hs, rfl, hd⟩, rfl⟩
  · obtain ⟨x, hx, rfl, hs, hd⟩ := core_in_tuples (ups := ups) (downs := downs) hc
    exact ⟨[x], ⟨hg x hx, hs, rfl, hd⟩, rfl⟩
  · obtain ⟨x, hx, rfl, hs, hd⟩ := down_in_tuples (ups := ups) (cores := cores) hd
    exact ⟨[x], ⟨hg x hx, hs, rfl, hd⟩, rfl⟩
  · have hk := hu.choose_spec.2.2.2.1
    obtain ⟨x, hx, rfl, hs, hxd⟩ := up_in_tuples (cores := cores) (downs := downs) hu
    have hkc : c.kind = .core := by obtain ⟨_, _, rfl, _⟩ := hc; rfl
    obtain ⟨y, hy, rfl, hys, hyd⟩ := core_in_tuples (ups := ups) (downs := downs) hc
    refine ⟨[x, y], ⟨hg x hx, hs, rfl, hxd ▸ hv, hg y hy, hys.trans hxd.symm, ?_, hyd⟩, rfl⟩
    simp [validNextSeg, hk, hkc]
  · have hk := hu.choose_spec.2.2.2.1
    obtain ⟨x, hx, rfl, hs, hxd⟩ := up_in_tuples (cores := cores) (downs := downs) hu
    have hkd := hd.choose_spec.2.2.2.1
    obtain ⟨y, hy, rfl, hys, hyd⟩ := down_in_tuples (ups := ups) (cores := cores) hd
    refine ⟨[x, y], ⟨hg x hx, hs, rfl, hxd ▸ hv, hg y hy, hys.trans hxd.symm, ?_, hyd⟩, rfl⟩
    simp [validNextSeg, hk, hkd]
  · have hkc : c.kind = .core := by obtain ⟨_, _, rfl, _⟩ := hc; rfl
    obtain ⟨x, hx, rfl, hs, hxd⟩ := core_in_tuples (ups := ups) (downs := downs) hc
    have hkd := hd.choose_spec.2.2.2.1
    obtain ⟨y, hy, rfl, hys, hyd⟩ := down_in_tuples (ups := ups) (cores := cores) hd
    refine ⟨[x, y], ⟨hg x hx, hs, rfl, hxd ▸ hv, hg y hy, hys.trans hxd.symm, ?_, hyd⟩, rfl⟩
    simp [validNextSeg, hkc, hkd]
  · have hk := hu.choose_spec.2.2.2.1
    obtain ⟨x, hx, rfl, hs, hxd⟩ := up_in_tuples (cores := cores) (downs := downs) hu
    have hkc : c.kind = .core := by obtain ⟨_, _, rfl, _⟩ := hc; rfl
    obtain ⟨y, hy, rfl, hys, hyd⟩ := core_in_tuples (ups := ups) (downs := downs) hc
    have hkd := hd.choose_spec.2.2.2.1
    obtain ⟨z, hz, rfl, hzs, hzd⟩ := down_in_tuples (ups := ups) (cores := cores) hd
    refine ⟨[x, y, z], ⟨hg x hx, hs, rfl, hxd ▸ hv, hg y hy, hys.trans hxd.symm, ?_, hyd ▸ hw,
      hg z hz, hzs.trans hyd.symm, ?_, hzd⟩, rfl⟩
    · simp [validNextSeg, hk, hkc]
    · simp [validNextSeg, hkc, hkd]


/-- the shortcut index addresses an entry and the peer index (if any) one of its peer entries -/
def EdgeOk (e : Edge) : Prop :=
  ∃ ent, e.seg.ents[e.sc]? = some ent ∧ (e.peer = 0 ∨ ∃ k p, e.peer = k + 1 ∧ ent.peers[k]? = some p)

theorem drop_of_getElem? {α : Type} {l : List α} {i : Nat} {a : α} (h : l[i]? = some a) :
    ∃ tl, l.drop i = a :: tl := by
  induction l generalizing i with
  | nil => simp at h
  | cons x xs ih =>
    cases i with
    | zero => simp at h; exact ⟨xs, by simp [h]⟩
    | succ i => simp at h; simpa using ih h

theorem edgeOut_ok {e : Edge} (h : EdgeOk e) (m : Nat) : ∃ s m', edgeOut m e = .ok (s, m') := by
  obtain ⟨ent, hent, hp⟩ := h
  obtain ⟨tl, htl⟩ := drop_of_getElem? hent
  have hit : ∃ it, iter (tl.reverse.foldl plainMtu m) ent (e.sc != 0) e.peer = .ok it := by
    unfold iter
    rcases hp with hp | ⟨k, p, hk, hp⟩
    · rw [hp]; exact ⟨_, rfl⟩
    · rw [hk]; simp only [hp]; exact ⟨_, rfl⟩
  obtain ⟨it, hit⟩ := hit
  unfold edgeOut segLoop
  simp only [htl, hit]
  split <;> exact ⟨_, _, rfl⟩

theorem pathLoop_ok {es : List Edge} (h : ∀ e ∈ es, EdgeOk e) (m : Nat) :
    ∃ segs m', pathLoop m es = .ok (segs, m') ∧ segs.length = es.length := by
  induction es generalizing m with
  | nil => exact ⟨[], m, rfl, rfl⟩
  | cons e es ih =>
    obtain ⟨s, m1, h1⟩ := edgeOut_ok (h e List.mem_cons_self) m
    obtain ⟨ss, m2, h2, hl⟩ := ih (fun x hx => h x (List.mem_cons_of_mem _ hx)) m1
    exact ⟨s :: ss, m2, by simp [pathLoop, h1, h2], by simp [hl]⟩

theorem pathOf_ok {es : List Edge} (h : ∀ e ∈ es, EdgeOk e) (hl : es.length ≤ 3) :
    ∃ p, pathOf es = .ok p := by
  obtain ⟨segs, m, h1, h2⟩ := pathLoop_ok h 65535
  unfold pathOf
  simp only [h1]
  have : ¬ segs.length > 3 := by omega
  simp [this]

theorem IsUpExit.edgeOk {u e v} (h : IsUpExit u e v) : EdgeOk e := by
  obtain ⟨rfl, _, ent, hent, h | ⟨k, p, hk, hp, _⟩⟩ := h
  · exact ⟨ent, hent, .inl h.1⟩
  · exact ⟨ent, hent, .inr ⟨k, p, hk, hp⟩⟩

theorem IsDownEntry.edgeOk {d v e} (h : IsDownEntry d v e) : EdgeOk e := by
  obtain ⟨rfl, _, ent, hent, h | ⟨k, p, hk, hp, _⟩⟩ := h
  · exact ⟨ent, hent, .inl h.1⟩
  · exact ⟨ent, hent, .inr ⟨k, p, hk, hp⟩⟩

theorem CoreOf.edgeOk {cores a e b} (h : CoreOf cores a e b) : EdgeOk e := by
  obtain ⟨c, _, rfl, l, f, hl, hf, _, _⟩ := h
  have hne := firstIA_some_iff.1 ⟨f, hf⟩
  cases hc : c.ents with
  | nil => exact absurd hc hne
  | cons x xs => exact ⟨x, by simp [hc], .inl rfl⟩

/-- `Path` does not panic on any join -/
theorem pathOf_ok_of_join {ups cores downs : List Seg} {src dst : Nat} {es : List Edge}
    (h : IsJoin ups cores downs src dst es) : ∃ p, pathOf es = .ok p := by
  rcases h with ⟨e, rfl, hu⟩ | ⟨c, rfl, hc⟩ | ⟨d, rfl, hd⟩ | ⟨e, c, v, rfl, hu, hc⟩ |
    ⟨e, d, v, rfl, hu, hd⟩ | ⟨c, d, v, rfl, hc, hd⟩ | ⟨e, c, d, v, w, rfl, hu, hc, hd⟩
  all_goals apply pathOf_ok _ (by simp)
  all_goals intro x hx; simp only [List.mem_cons, List.not_mem_nil, or_false] at hx
  · subst hx; exact hu.choose_spec.2.2.edgeOk
  · subst hx; exact hc.edgeOk
  · subst hx; exact hd.choose_spec.2.2.edgeOk
  · rcases hx with rfl | rfl
    · exact hu.choose_spec.2.2.edgeOk
    · exact hc.edgeOk
  · rcases hx with rfl | rfl
    · exact hu.choose_spec.2.2.edgeOk
    · exact hd.choose_spec.2.2.edgeOk
  · rcases hx with rfl | rfl
    · exact hc.edgeOk
    · exact hd.choose_spec.2.2.edgeOk
  · rcases hx with rfl | rfl | rfl
    · exact hu.choose_spec.2.2.edgeOk
    · exact hc.edgeOk
    · exact hd.choose_spec.2.2.edgeOk

/-! `NoCollision` for well-formed segments -/


/-- a segment as beaconing produces it: no AS twice, no zero IA, every peering interface announced
once per AS entry -/
def SegWF (s : Seg) : Prop :=
  s.ents.Pairwise (fun a b => a.ia ≠ b.ia) ∧
  ∀ e ∈ s.ents, e.ia ≠ 0 ∧
    e.peers.Pairwise fun p q => ¬(p.hf.inIf = q.hf.inIf ∧ p.peer = q.peer ∧ p.peerIf = q.peerIf)

theorem indexedFrom_pairwise_snd {α : Type} {R : α → α → Prop} {l : List α} (h : l.Pairwise R)
    (n : Nat) : (indexedFrom n l).Pairwise fun a b => R a.2 b.2 := by
  induction l generalizing n with
  | nil => exact List.Pairwise.nil
  | cons a as ih =>
    rw [List.pairwise_cons] at h
    simp only [indexedFrom]
    refine List.pairwise_cons.2 ⟨?_, ih h.2 _⟩
    intro x hx
    obtain ⟨k, y⟩ := x
    rw [mem_indexedFrom] at hx
    exact h.1 y (List.mem_of_getElem? hx.2)

theorem mem_indexedFrom_snd {α : Type} {l : List α} {n : Nat} {x : Nat × α}
    (h : x ∈ indexedFrom n l) : x.2 ∈ l := by
  obtain ⟨k, y⟩ := x
  rw [mem_indexedFrom] at h
  exact List.mem_of_getElem? h.2

/-- the vertex of a tuple of entry `ent` mentions `ent.ia` -/
def vertexHas (v : Vertex) (ia : Nat) : Prop := v.ia = ia ∨ v.upIA = ia ∨ v.downIA = ia

theorem entryTuples_key {s : Seg} {kind : Kind} {i l k : Nat} {ent : ASE} {x : GEdge}
    (hk : kind ≠ .core) (h : x ∈ entryTuples s kind i l (k, ent)) :
    x.segIdx = i ∧ ((kind = .up ∧ x.src = vIA l ∧ (x.dst = vIA ent.ia ∨ (x.dst.ia = 0 ∧ x.dst.upIA = ent.ia))) ∨
      (kind = .down ∧ x.dst = vIA l ∧ (x.src = vIA ent.ia ∨ (x.src.ia = 0 ∧ x.src.downIA = ent.ia)))) := by
  obtain ⟨v, pe, hex, rfl⟩ := mem_entryTuples.1 h
  cases kind with
  | core => exact absurd rfl hk
  | up =>
    simp only [reduceCtorEq, if_false, true_and, false_and, or_false]
    rcases hex with ⟨_, _, rfl⟩ | ⟨j, p, _, _, rfl⟩
    · exact .inl rfl
    · exact .inr ⟨rfl, rfl⟩
  | down =>
    simp only [if_true, true_and, reduceCtorEq, false_and, false_or]
    rcases hex with ⟨_, _, rfl⟩ | ⟨j, p, _, _, rfl⟩
    · exact .inl rfl
    · exact .inr ⟨rfl, rfl⟩

theorem sameKey_false_of_dst {a b : GEdge} (h : a.dst ≠ b.dst) : a.sameKey b = false := by
  unfold GEdge.sameKey
  simp [h]

theorem sameKey_false_of_src {a b : GEdge} (h : a.src ≠ b.src) : a.sameKey b = false := by
  unfold GEdge.sameKey
  simp [h]

theorem sameKey_false_of_idx {a b : GEdge} (h : a.segIdx ≠ b.segIdx) : a.sameKey b = false := by
  unfold GEdge.sameKey
  simp [h]

/-- tuples of two entries with different IAs never collide -/
theorem entryTuples_cross {s : Seg} {kind : Kind} {i l k k' : Nat} {e e' : ASE} {x y : GEdge}
    (hk : kind ≠ .core) (hne : e.ia ≠ e'.ia) (h0 : e.ia ≠ 0) (h0' : e'.ia ≠ 0)
    (hx : x ∈ entryTuples s kind i l (k, e)) (hy : y ∈ entryTuples s kind i l (k', e')) :
    x.sameKey y = false := by
  obtain ⟨_, hx⟩ := entryTuples_key hk hx
  obtain ⟨_, hy⟩ := entryTuples_key hk hy
  rcases hx with ⟨hu, _, hx⟩ | ⟨hd, _, hx⟩
  · rcases hy with ⟨_, _, hy⟩ | ⟨hd, _, _⟩
    · apply sameKey_false_of_dst
      intro heq
      rcases hx with hx | ⟨hx1, hx2⟩ <;> rcases hy with hy | ⟨hy1, hy2⟩
      · rw [hx, hy] at heq; exact hne (vIA_inj heq)
      · rw [hx] at heq; rw [← heq] at hy1; simp [vIA] at hy1; exact h0 hy1
      · rw [hy] at heq; rw [heq] at hx1; simp [vIA] at hx1; exact h0' hx1
      · rw [heq] at hx2; exact hne (hx2.symm.trans hy2)
    · rw [hu] at hd; cases hd
  · rcases hy with ⟨hu, _, _⟩ | ⟨_, _, hy⟩
    · rw [hd] at hu; cases hu
    · apply sameKey_false_of_src
      intro heq
      rcases hx with hx | ⟨hx1, hx2⟩ <;> rcases hy with hy | ⟨hy1, hy2⟩
      · rw [hx, hy] at heq; exact hne (vIA_inj heq)
      · rw [hx] at heq; rw [← heq] at hy1; simp [vIA] at hy1; exact h0 hy1
      · rw [hy] at heq; rw [heq] at hx1; simp [vIA] at hx1; exact h0' hx1
      · rw [heq] at hx2; exact hne (hx2.symm.trans hy2)


theorem Vertex.reverse_reverse (v : Vertex) : v.reverse.reverse = v := by
  cases v; rfl

theorem entryTuples_pairwise {s : Seg} {kind : Kind} {i l k : Nat} {ent : ASE}
    (hk : kind ≠ .core) (h0 : ent.ia ≠ 0)
    (hp : ent.peers.Pairwise fun p q => ¬(p.hf.inIf = q.hf.inIf ∧ p.peer = q.peer ∧ p.peerIf = q.peerIf)) :
    (entryTuples s kind i l (k, ent)).Pairwise fun a b => a.sameKey b = false := by
  unfold entryTuples
  dsimp only
  rw [List.pairwise_map]
  have hv : ((if k + 1 ≠ s.ents.length then [(vIA ent.ia, 0)] else []) ++
      (indexedFrom 0 ent.peers).map fun (kp : Nat × PeerE) =>
        (vPeering ent.ia kp.2.hf.inIf kp.2.peer kp.2.peerIf, kp.1 + 1)).Pairwise
      (fun (a b : Vertex × Nat) => a.1 ≠ b.1) := by
    rw [List.pairwise_append]
    refine ⟨by split <;> simp, ?_, ?_⟩
    · rw [List.pairwise_map]
      refine (indexedFrom_pairwise_snd hp 0).imp ?_
      intro a b hab heq
      simp only [vPeering, Vertex.mk.injEq, true_and] at heq
      exact hab heq
    · intro a ha b hb
      split at ha
      · simp only [List.mem_singleton] at ha
        subst ha
        simp only [List.mem_map] at hb
        obtain ⟨kp, _, rfl⟩ := hb
        simp only [vIA, vPeering, ne_eq, Vertex.mk.injEq, not_and]
        intro h; exact absurd h h0
      · cases ha
  refine hv.imp ?_
  intro a b hab
  cases kind with
  | core => exact absurd rfl hk
  | up =>
    simp only [reduceCtorEq, if_false]
    exact sameKey_false_of_dst hab
  | down =>
    simp only [if_true]
    apply sameKey_false_of_src
    intro heq
    apply hab
    have := congrArg Vertex.reverse heq
    simpa [Vertex.reverse_reverse] using this

theorem segTuples_idx {kind : Kind} {i : Nat} {s : Seg} {x : GEdge} (h : x ∈ segTuples kind (i, s)) :
    x.segIdx = i := by
  unfold segTuples at h
  split at h
  · split at h
    · simp at h; subst h; rfl
    · next hk =>
      simp only [List.mem_flatMap, List.mem_reverse, Prod.exists] at h
      obtain ⟨k, ent, _, hx⟩ := h
      exact (entryTuples_key hk hx).1
  · cases h

theorem segTuples_pairwise {kind : Kind} {i : Nat} {s : Seg} (hw : SegWF s) :
    (segTuples kind (i, s)).Pairwise fun a b => a.sameKey b = false := by
  unfold segTuples
  split
  · split
    · simp
    · next l f _ _ hk =>
      rw [List.pairwise_flatMap]
      constructor
      · intro a ha
        obtain ⟨k, ent⟩ := a
        have hm := mem_indexedFrom_snd (List.mem_reverse.1 ha)
        exact entryTuples_pairwise hk (hw.2 ent hm).1 (hw.2 ent hm).2
      · rw [List.pairwise_reverse]
        refine (List.Pairwise.and_mem.1 (indexedFrom_pairwise_snd hw.1 0)).imp ?_
        rintro ⟨k, e⟩ ⟨k', e'⟩ ⟨hm, hm', hne⟩ x hx y hy
        have h1 := mem_indexedFrom_snd hm
        have h2 := mem_indexedFrom_snd hm'
        exact entryTuples_cross hk (Ne.symm hne) (hw.2 _ h2).1 (hw.2 _ h1).1 hx hy
  · exact List.Pairwise.nil

theorem flatMap_segTuples_pairwise {kind : Kind} (n : Nat) (l : List Seg)
    (hw : ∀ s ∈ l, SegWF s) :
    ((indexedFrom n l).flatMap (segTuples kind)).Pairwise fun a b => a.sameKey b = false := by
  rw [List.pairwise_flatMap]
  constructor
  · rintro ⟨k, s⟩ hks
    exact segTuples_pairwise (hw s (mem_indexedFrom_snd hks))
  · refine (indexedFrom_pairwise l n).imp ?_
    rintro ⟨k, s⟩ ⟨k', s'⟩ hlt x hx y hy
    apply sameKey_false_of_idx
    rw [segTuples_idx hx, segTuples_idx hy]
    simp only at hlt; omega

theorem flatMap_segTuples_idx {kind : Kind} {n : Nat} {l : List Seg} {x : GEdge}
    (h : x ∈ (indexedFrom n l).flatMap (segTuples kind)) : n ≤ x.segIdx ∧ x.segIdx < n + l.length := by
  simp only [List.mem_flatMap, Prod.exists] at h
  obtain ⟨k, s, hks, hx⟩ := h
  rw [mem_indexedFrom] at hks
  rw [segTuples_idx hx]
  refine ⟨hks.1, ?_⟩
  have : k - n < l.length := by
    rcases Nat.lt_or_ge (k - n) l.length with h | h
    · exact h
    · rw [List.getElem?_eq_none h] at hks; cases hks.2
  omega

/-- segments as beaconing produces them never make `AddEdge` overwrite an edge -/
theorem noCollision_of_wf {ups cores downs : List Seg}
    (hw : ∀ s ∈ ups ++ cores ++ downs, SegWF s) : NoCollision (allTuples ups cores downs) := by
  unfold NoCollision allTuples
  rw [List.pairwise_append, List.pairwise_append]
  refine ⟨⟨flatMap_segTuples_pairwise _ _ (fun s hs => hw s (by simp [hs])),
    flatMap_segTuples_pairwise _ _ (fun s hs => hw s (by simp [hs])), ?_⟩,
    flatMap_segTuples_pairwise _ _ (fun s hs => hw s (by simp [hs])), ?_⟩
  · intro a ha b hb
    apply sameKey_false_of_idx
    have := flatMap_segTuples_idx ha
    have := flatMap_segTuples_idx hb
    omega
  · intro a ha b hb
    apply sameKey_false_of_idx
    have := flatMap_segTuples_idx hb
    rcases List.mem_append.1 ha with ha | ha
    · have := flatMap_segTuples_idx ha; omega
    · have := flatMap_segTuples_idx ha; omega

/-! joins through the destination vertex are long -/


/-- number of interface entries of AS `x` in an interface list (what `filterLongPaths` counts) -/
def cnt (x : Nat) (l : List Iface) : Nat := (l.map (·.ia)).count x

theorem cnt_append (x : Nat) (a b : List Iface) : cnt x (a ++ b) = cnt x a + cnt x b := by
  simp [cnt, List.count_append]

theorem cnt_reverse (x : Nat) (a : List Iface) : cnt x a.reverse = cnt x a := by
  simp [cnt, List.map_reverse, List.count_reverse]

theorem cnt_pos_of_mem {x : Nat} {l : List Iface} {id : Nat} (h : (⟨x, id⟩ : Iface) ∈ l) :
    1 ≤ cnt x l := by
  unfold cnt
  rw [List.one_le_count_iff]
  exact List.mem_map.2 ⟨_, h, rfl⟩

theorem isLong_of_cnt {x : Nat} {l : List Iface} (h : 3 ≤ cnt x l) : isLong l = true := by
  unfold isLong
  rw [List.any_eq_true]
  have hm : x ∈ l.map (·.ia) := by
    rw [← List.one_le_count_iff]; unfold cnt at h; omega
  obtain ⟨i, hi, rfl⟩ := List.mem_map.1 hm
  exact ⟨i, hi, by unfold cnt at h; simp; omega⟩

/-- non-zero interface ids where a link exists: the last entry has an ingress, every other entry an
egress, and a segment has at least two entries -/
def IfWF (s : Seg) : Prop :=
  2 ≤ s.ents.length ∧ (∀ t, s.ents.getLast? = some t → t.hf.inIf ≠ 0) ∧
  ∀ (i : Nat) (ent : ASE), s.ents[i]? = some ent → i + 1 ≠ s.ents.length → ent.hf.egIf ≠ 0

/-- interface count of an output segment whose edge uses no peer entry: head part + tail part -/
theorem edgeOut_cnt {mtu : Nat} {e : Edge} {s : SegOut} {m : Nat} {h : ASE} {tl : List ASE}
    (ho : edgeOut mtu e = .ok (s, m)) (hp : e.peer = 0) (hd : e.seg.ents.drop e.sc = h :: tl) (x : Nat) :
    cnt x s.intfs = cnt x (if e.sc ≠ 0 then [] else nz h.ia h.hf.inIf) + cnt x (nz h.ia h.hf.egIf) +
      cnt x (tl.flatMap fun t => nz t.ia t.hf.inIf ++ nz t.ia t.hf.egIf) := by
  have h1 := edgeOut_intfs ho
  unfold consIfaces at h1
  simp only [hd, hp, headHop, Option.map_some, Option.some.injEq, and_true] at h1
  have : cnt x s.intfs = cnt x (if e.kind = Kind.down then s.intfs else s.intfs.reverse) := by
    split
    · rfl
    · rw [cnt_reverse]
  rw [this, ← h1, cnt_append, cnt_append]

theorem cnt_nz_self {ia id : Nat} (h : id ≠ 0) : cnt ia (nz ia id) = 1 := by
  simp [cnt, nz, h]

theorem cnt_tail_pos {tl : List ASE} {t : ASE} (ht : t ∈ tl) (h : t.hf.inIf ≠ 0) :
    1 ≤ cnt t.ia (tl.flatMap fun t => nz t.ia t.hf.inIf ++ nz t.ia t.hf.egIf) := by
  apply cnt_pos_of_mem (id := t.hf.inIf)
  rw [List.mem_flatMap]
  exact ⟨t, ht, by simp [nz, h]⟩

theorem last_mem_drop {α : Type} {l : List α} {t : α} {n : Nat} (h : l.getLast? = some t)
    (hn : n < l.length) : t ∈ l.drop n := by
  apply List.mem_of_getLast?
  rw [List.getLast?_drop]
  have : ¬ l.length ≤ n := by omega
  simp [this, h]

/-- an edge without peer entry leaving/entering at entry `ent` (not the last one): the AS of `ent`
is counted once (its egress), the last AS of the segment once (its ingress), separately -/
theorem edgeOut_cnt_ends {mtu : Nat} {e : Edge} {s : SegOut} {m : Nat} {ent last : ASE}
    (hw : IfWF e.seg) (ho : edgeOut mtu e = .ok (s, m)) (hp : e.peer = 0)
    (hent : e.seg.ents[e.sc]? = some ent) (hne : e.sc + 1 ≠ e.seg.ents.length)
    (hlast : e.seg.ents.getLast? = some last) (x : Nat) :
    (if ent.ia = x then 1 else 0) + (if last.ia = x then 1 else 0) ≤ cnt x s.intfs := by
  obtain ⟨tl, hd⟩ := drop_of_getElem? hent
  rw [edgeOut_cnt ho hp hd x]
  have hlt : e.sc + 1 < e.seg.ents.length := by
    have : e.sc < e.seg.ents.length := by
      rcases Nat.lt_or_ge e.sc e.seg.ents.length with h | h
      · exact h
      · rw [List.getElem?_eq_none h] at hent; cases hent
    omega
  have htl : last ∈ tl := by
    have h1 := last_mem_drop hlast hlt
    have : e.seg.ents.drop (e.sc + 1) = tl := by
      rw [← List.drop_drop, hd]; rfl
    rwa [this] at h1
  have h1 : (if ent.ia = x then 1 else 0) ≤ cnt x (nz ent.ia ent.hf.egIf) := by
    split
    · next hx => subst hx; rw [cnt_nz_self (hw.2.2 _ _ hent hne)]; exact Nat.le_refl 1
    · exact Nat.zero_le _
  have h2 : (if last.ia = x then 1 else 0) ≤
      cnt x (tl.flatMap fun t => nz t.ia t.hf.inIf ++ nz t.ia t.hf.egIf) := by
    split
    · next hx => subst hx; exact cnt_tail_pos htl (hw.2.1 _ hlast)
    · exact Nat.zero_le _
  omega


theorem vPeering_ne_vIA {a b c d x : Nat} (hx : x ≠ 0) : vPeering a b c d ≠ vIA x := by
  intro h
  simp only [vPeering, vIA, Vertex.mk.injEq] at h
  exact hx h.1.symm

theorem lastIA_getLast {s : Seg} {l : Nat} (h : lastIA s = some l) :
    ∃ t, s.ents.getLast? = some t ∧ t.ia = l := by
  unfold lastIA at h
  cases hg : s.ents.getLast? with
  | none => simp [hg] at h
  | some t => simp [hg] at h; exact ⟨t, rfl, h⟩

theorem firstIA_head {s : Seg} {f : Nat} (h : firstIA s = some f) :
    ∃ t, s.ents[0]? = some t ∧ t.ia = f := by
  unfold firstIA at h
  cases hs : s.ents with
  | nil => simp [hs] at h
  | cons t r => simp [hs] at h; exact ⟨t, by simp, h⟩

/-- up segment left at the AS vertex of `x`: `x` has an interface entry in the segment's part -/
theorem up_cnt {mtu : Nat} {u : Seg} {e : Edge} {s : SegOut} {m x : Nat} (hx : x ≠ 0)
    (hw : IfWF u) (hex : IsUpExit u e (vIA x)) (ho : edgeOut mtu e = .ok (s, m)) :
    1 ≤ cnt x s.intfs := by
  obtain ⟨rfl, _, ent, hent, ⟨hp, hne, hv⟩ | ⟨k, p, _, _, hv⟩⟩ := hex
  · have hne' : e.seg.ents ≠ [] := by
      intro h; rw [h] at hent; simp at hent
    obtain ⟨l, hl⟩ := lastIA_some_iff.2 hne'
    obtain ⟨last, hlast, _⟩ := lastIA_getLast hl
    have := edgeOut_cnt_ends hw ho hp hent hne hlast x
    have hia : ent.ia = x := (vIA_inj hv).symm
    simp only [hia, if_true] at this
    omega
  · exact absurd hv.symm (vPeering_ne_vIA hx)

/-- down segment entered at the AS vertex of `x` and ending at `dst` -/
theorem down_cnt {mtu : Nat} {d : Seg} {e : Edge} {s : SegOut} {m x dst : Nat} (hx : x ≠ 0)
    (hw : IfWF d) (hl : lastIA d = some dst) (hex : IsDownEntry d (vIA x) e)
    (ho : edgeOut mtu e = .ok (s, m)) (y : Nat) :
    (if x = y then 1 else 0) + (if dst = y then 1 else 0) ≤ cnt y s.intfs := by
  obtain ⟨last, hlast, hlia⟩ := lastIA_getLast hl
  obtain ⟨rfl, _, ent, hent, ⟨hp, hne, hv⟩ | ⟨k, p, _, _, hv⟩⟩ := hex
  · have := edgeOut_cnt_ends hw ho hp hent hne hlast y
    have hia : ent.ia = x := (vIA_inj hv).symm
    rw [hia, hlia] at this
    exact this
  · exact absurd hv.symm (vPeering_ne_vIA hx)

/-- core segment from its last AS `l` to its first AS `f` -/
theorem core_cnt {mtu : Nat} {cores : List Seg} {a b : Vertex} {e : Edge} {s : SegOut} {m : Nat}
    (hw : ∀ c ∈ cores, IfWF c) (hc : CoreOf cores a e b) (ho : edgeOut mtu e = .ok (s, m)) (y : Nat) :
    (if b = vIA y then 1 else 0) + (if a = vIA y then 1 else 0) ≤ cnt y s.intfs := by
  obtain ⟨c, hcm, rfl, l, f, hl, hf, rfl, rfl⟩ := hc
  obtain ⟨last, hlast, hlia⟩ := lastIA_getLast hl
  obtain ⟨first, hfirst, hfia⟩ := firstIA_head hf
  have hwc := hw c hcm
  have hne : 0 + 1 ≠ c.ents.length := by have := hwc.1; omega
  have := edgeOut_cnt_ends (e := ⟨c, .core, 0, 0⟩) hwc ho rfl hfirst hne hlast y
  rw [hfia, hlia] at this
  have e1 : (vIA f = vIA y) = (f = y) := propext ⟨vIA_inj, fun h => h ▸ rfl⟩
  have e2 : (vIA l = vIA y) = (l = y) := propext ⟨vIA_inj, fun h => h ▸ rfl⟩
  simp only [e1, e2]
  exact this

theorem pathOf_two {a b : Edge} {p : Path} (h : pathOf [a, b] = .ok p) :
    ∃ s1 s2 m1 m2, edgeOut 65535 a = .ok (s1, m1) ∧ edgeOut m1 b = .ok (s2, m2) ∧
      p.intfs = s1.intfs ++ s2.intfs := by
  unfold pathOf at h
  simp only [pathLoop] at h
  cases h1 : edgeOut 65535 a with
  | error x => simp [h1] at h
  | ok r1 =>
    obtain ⟨s1, m1⟩ := r1
    cases h2 : edgeOut m1 b with
    | error x => simp [h1, h2] at h
    | ok r2 =>
      obtain ⟨s2, m2⟩ := r2
      simp [h1, h2] at h
      exact ⟨s1, s2, m1, m2, rfl, h2, by rw [← h]⟩

theorem pathOf_three {a b c : Edge} {p : Path} (h : pathOf [a, b, c] = .ok p) :
    ∃ s1 s2 s3 m1 m2 m3, edgeOut 65535 a = .ok (s1, m1) ∧ edgeOut m1 b = .ok (s2, m2) ∧
      edgeOut m2 c = .ok (s3, m3) ∧ p.intfs = s1.intfs ++ s2.intfs ++ s3.intfs := by
  unfold pathOf at h
  simp only [pathLoop] at h
  cases h1 : edgeOut 65535 a with
  | error x => simp [h1] at h
  | ok r1 =>
    obtain ⟨s1, m1⟩ := r1
    cases h2 : edgeOut m1 b with
    | error x => simp [h1, h2] at h
    | ok r2 =>
      obtain ⟨s2, m2⟩ := r2
      cases h3 : edgeOut m2 c with
      | error x => simp [h1, h2, h3] at h
      | ok r3 =>
        obtain ⟨s3, m3⟩ := r3
        simp [h1, h2, h3] at h
        exact ⟨s1, s2, s3, m1, m2, m3, rfl, h2, h3, by rw [← h]; simp⟩


theorem firstIA_ne_zero {s : Seg} {f : Nat} (hw : SegWF s) (h : firstIA s = some f) : f ≠ 0 := by
  obtain ⟨t, ht, rfl⟩ := firstIA_head h
  exact (hw.2 t (List.mem_of_getElem? ht)).1

/-- a join either avoids the destination vertex at its intermediate join points, or its path has at
least three interface entries of the destination AS (it enters, leaves and re-enters it) -/
theorem join_strict_or_long {ups cores downs : List Seg} {src dst : Nat} {es : List Edge} {p : Path}
    (hdst : dst ≠ 0) (hw : ∀ s ∈ ups ++ cores ++ downs, SegWF s ∧ IfWF s)
    (hj : IsJoin ups cores downs src dst es) (hp : pathOf es = .ok p) :
    IsJoinStrict ups cores downs src dst es ∨ isLong p.intfs = true := by
  have hwu : ∀ s ∈ ups, IfWF s := fun s hs => (hw s (by simp [hs])).2
  have hwc : ∀ s ∈ cores, IfWF s := fun s hs => (hw s (by simp [hs])).2
  have hwd : ∀ s ∈ downs, IfWF s := fun s hs => (hw s (by simp [hs])).2
  rcases hj with h | h | h | ⟨e, c, v, rfl, hu, hc⟩ | ⟨e, d, v, rfl, hu, hd⟩ |
    ⟨c, d, v, rfl, hc, hd⟩ | ⟨e, c, d, v, w, rfl, hu, hc, hd⟩
  · exact .inl (.inl h)
  · exact .inl (.inr (.inl h))
  · exact .inl (.inr (.inr (.inl h)))
  · by_cases hv : v = vIA dst
    · subst hv
      right
      obtain ⟨s1, s2, m1, m2, h1, h2, hi⟩ := pathOf_two hp
      obtain ⟨u, hum, _, hex⟩ := hu
      have c1 := up_cnt hdst (hwu u hum) hex h1
      have c2 := core_cnt hwc hc h2 dst
      simp only [if_true] at c2
      apply isLong_of_cnt (x := dst)
      rw [hi, cnt_append]; omega
    · exact .inl (.inr (.inr (.inr (.inl ⟨e, c, v, rfl, hv, hu, hc⟩))))
  · by_cases hv : v = vIA dst
    · subst hv
      right
      obtain ⟨s1, s2, m1, m2, h1, h2, hi⟩ := pathOf_two hp
      obtain ⟨u, hum, _, hex⟩ := hu
      obtain ⟨d', hdm, hl, hex2⟩ := hd
      have c1 := up_cnt hdst (hwu u hum) hex h1
      have c2 := down_cnt hdst (hwd d' hdm) hl hex2 h2 dst
      simp only [if_true] at c2
      apply isLong_of_cnt (x := dst)
      rw [hi, cnt_append]; omega
    · exact .inl (.inr (.inr (.inr (.inr (.inl ⟨e, d, v, rfl, hv, hu, hd⟩)))))
  · by_cases hv : v = vIA dst
    · subst hv
      right
      obtain ⟨s1, s2, m1, m2, h1, h2, hi⟩ := pathOf_two hp
      obtain ⟨d', hdm, hl, hex2⟩ := hd
      have c1 := core_cnt hwc hc h1 dst
      have c2 := down_cnt hdst (hwd d' hdm) hl hex2 h2 dst
      simp only [if_true] at c1 c2
      apply isLong_of_cnt (x := dst)
      rw [hi, cnt_append]; omega
    · exact .inl (.inr (.inr (.inr (.inr (.inr (.inl ⟨c, d, v, rfl, hv, hc, hd⟩))))))
  · by_cases hv : v = vIA dst
    · subst hv
      right
      obtain ⟨s1, s2, s3, m1, m2, m3, h1, h2, h3, hi⟩ := pathOf_three hp
      obtain ⟨u, hum, _, hex⟩ := hu
      obtain ⟨d', hdm, hl, hex2⟩ := hd
      have c1 := up_cnt hdst (hwu u hum) hex h1
      have c2 := core_cnt hwc hc h2 dst
      simp only [if_true] at c2
      -- the down segment is entered at the first AS `f` of the core segment
      obtain ⟨c', hcm, _, l, f, _, hf, _, rfl⟩ := hc
      have hf0 : f ≠ 0 := firstIA_ne_zero (hw c' (by simp [hcm])).1 hf
      have c3 := down_cnt hf0 (hwd d' hdm) hl hex2 h3 dst
      simp only [if_true] at c3
      apply isLong_of_cnt (x := dst)
      rw [hi, cnt_append, cnt_append]; omega
    · by_cases hw' : w = vIA dst
      · subst hw'
        right
        obtain ⟨s1, s2, s3, m1, m2, m3, h1, h2, h3, hi⟩ := pathOf_three hp
        obtain ⟨d', hdm, hl, hex2⟩ := hd
        have c2 := core_cnt hwc hc h2 dst
        have c3 := down_cnt hdst (hwd d' hdm) hl hex2 h3 dst
        simp only [if_true] at c2 c3
        apply isLong_of_cnt (x := dst)
        rw [hi, cnt_append, cnt_append]; omega
      · exact .inl (.inr (.inr (.inr (.inr (.inr (.inr ⟨e, c, d, v, w, rfl, hv, hw', hu, hc, hd⟩))))))

end Scion.Combinator
