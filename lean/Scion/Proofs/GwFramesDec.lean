import Scion.Model.GwFrames
import Scion.Proofs.GwFramesScan
/-! C41 helper lemmas, part 4: the receiver.  `Sync L p c s0`: the reassembly list `L` holds
exactly the first `c` bytes of the valid packet `p` (0 < c < |p|) in consecutive frames starting
with sequence number `s0`. -/
namespace Scion.Proofs.GwFrames
open Scion.GwFrames Scion.Util

def SeqFrom : Nat → List FB → Prop
  | _, [] => True
  | s, fb :: r => fb.seq = s ∧ SeqFrom (s + 1) r

theorem seqFrom_append (s : Nat) (l : List FB) (fb : FB) (h : SeqFrom s l) (hs : fb.seq = s + l.length) :
    SeqFrom s (l ++ [fb]) := by
  induction l generalizing s with
  | nil => simp [SeqFrom] at *; exact hs
  | cons a l ih =>
    obtain ⟨h1, h2⟩ := h
    refine ⟨h1, ih (s + 1) h2 ?_⟩
    simp only [List.length_cons] at hs; omega

theorem lastSeq_seqFrom (s : Nat) (l : List FB) (h : SeqFrom s l) (hne : l ≠ []) :
    lastSeq l = s + l.length - 1 := by
  induction l generalizing s with
  | nil => exact absurd rfl hne
  | cons a l ih =>
    obtain ⟨h1, h2⟩ := h
    cases l with
    | nil => simp [lastSeq, h1]
    | cons b l =>
      have := ih (s + 1) h2 (by simp)
      simp only [lastSeq, List.length_cons] at *
      omega

/-- a frame in the middle of the list: carries no packet start, nothing processed yet -/
structure MidOK (m : FB) : Prop where
  index : m.index = noIndex
  frag0 : m.frag0Start = 0
  cpp : m.completePktsProcessed = true

def bytesOf (l : List FB) : Bytes := (l.map (·.payload)).flatten

theorem bytesOf_cons (a : FB) (l : List FB) : bytesOf (a :: l) = a.payload ++ bytesOf l := by
  simp [bytesOf]

theorem bytesOf_append (l : List FB) (a : FB) : bytesOf (l ++ [a]) = bytesOf l ++ a.payload := by
  simp [bytesOf]

/-- the waiting loop of `tryReassemble` over middle frames followed by the new frame -/
theorem reassembleScan_mids (pktLen : Nat) (mids : List FB) (fb : FB) :
    ∀ bytes, (∀ m ∈ mids, MidOK m) → bytes + (bytesOf mids).length < pktLen →
    reassembleScan pktLen bytes (mids ++ [fb]) =
      if bytes + (bytesOf mids).length + fb.payload.length ≥ pktLen then .can
      else if fb.index != noIndex then .framingError else .wait := by
  induction mids with
  | nil =>
    intro bytes _ _
    simp [reassembleScan, bytesOf, FB.frameLen]
  | cons m mids ih =>
    intro bytes hm hlt
    have hmo := hm m (by simp)
    rw [bytesOf_cons, List.length_append] at hlt
    simp only [List.cons_append, reassembleScan, FB.frameLen, Nat.add_sub_cancel_left]
    rw [if_neg (by omega)]
    simp only [hmo.index, bne_self_eq_false, Bool.false_eq_true, if_false]
    rw [ih (bytes + m.payload.length) (fun x hx => hm x (by simp [hx])) (by omega)]
    rw [bytesOf_cons, List.length_append]
    simp only [Nat.add_assoc]

/-- the collecting loop of `collectAndWrite` over middle frames followed by the completing frame -/
theorem collect_mids (pktLen : Nat) (mids : List FB) (fb : FB) :
    ∀ buf : Bytes, buf.length + (bytesOf mids).length < pktLen →
      pktLen ≤ buf.length + (bytesOf mids).length + fb.payload.length →
      collect pktLen buf (mids ++ [fb]) =
        (buf ++ bytesOf mids ++ fb.payload.take (pktLen - (buf.length + (bytesOf mids).length)),
         (mids ++ [fb]).map (fun m => { m with fragNProcessed := true }), []) := by
  induction mids with
  | nil =>
    intro buf hlt hge
    simp only [bytesOf, List.map_nil, List.flatten_nil, List.length_nil, Nat.add_zero] at hlt hge
    simp only [List.nil_append, collect, hlt, if_true, FB.frameLen, bytesOf, List.map_nil,
      List.flatten_nil, List.append_nil, List.length_nil, Nat.add_zero, List.map_cons]
    have : min (pktLen - buf.length + hdrLen) (hdrLen + fb.payload.length) - hdrLen
        = pktLen - buf.length := by omega
    rw [this]
  | cons m mids ih =>
    intro buf hlt hge
    rw [bytesOf_cons, List.length_append] at hlt hge
    simp only [List.cons_append, collect]
    rw [if_pos (by omega)]
    have hmin : min (pktLen - buf.length + hdrLen) m.frameLen - hdrLen = m.payload.length := by
      unfold FB.frameLen hdrLen; omega
    simp only [hmin, List.take_length]
    rw [ih (buf ++ m.payload) (by rw [List.length_append]; omega) (by rw [List.length_append]; omega)]
    simp only [List.map_cons, bytesOf_cons, List.length_append, List.append_assoc, Nat.add_assoc]

/-! ### `ProcessCompletePkts` on a frame whose payload is tail ++ packets ++ head -/

theorem pcp_noIndex (fb : FB) (h : fb.index = noIndex) :
    processCompletePkts fb = ({ fb with completePktsProcessed := true }, []) := by
  unfold processCompletePkts
  simp [h]

structure PcpResult (fb fb' : FB) (tailLen : Nat) (qs : List Bytes) (cur : Option Bytes) : Prop where
  seq : fb'.seq = fb.seq
  index : fb'.index = fb.index
  payload : fb'.payload = fb.payload
  fragN : fb'.fragNProcessed = fb.fragNProcessed
  cpp : fb'.completePktsProcessed = true
  none : cur = none → fb'.frag0Start = 0
  some : ∀ p, cur = some p → fb'.frag0Start = hdrLen + tailLen + qs.flatten.length ∧
    fb'.pktLen = p.length ∧ fb'.frag0Processed = false

theorem pcp_index (fb : FB) (tail : Bytes) (qs : List Bytes) (h : Bytes) (cur : Option Bytes)
    (hq : ∀ x ∈ qs, validPkt x = true) (hh : HeadOK h cur)
    (hpl : fb.payload = tail ++ qs.flatten ++ h) (hidx : fb.index = tail.length)
    (hb : tail.length < noIndex) (hcpp : fb.completePktsProcessed = false)
    (hf0 : fb.frag0Start = 0) :
    ∃ fb', processCompletePkts fb = (fb', qs) ∧ PcpResult fb fb' tail.length qs cur := by
  unfold processCompletePkts
  have hni : (fb.index == noIndex) = false := by
    rw [hidx]; simp only [beq_eq_false_iff_ne, ne_eq]; omega
  simp only [hcpp, hni, Bool.or_self, Bool.false_eq_true, if_false]
  have hdrop : fb.payload.drop fb.index = qs.flatten ++ h := by
    rw [hpl, hidx, List.append_assoc, List.drop_left]
  rw [hdrop, scan_shape qs h cur hq hh]
  cases cur with
  | none =>
    refine ⟨_, rfl, ?_⟩
    constructor <;> simp [curLen, hf0]
  | some p =>
    obtain ⟨hv, k, rfl, hk, hlt⟩ := hh
    have hkl : (p.take k).length = k := by simp [List.length_take]; omega
    have hoff : fb.index + hdrLen + qs.flatten.length < fb.frameLen := by
      simp only [FB.frameLen, hpl, List.length_append, hkl, hidx]; omega
    simp only [curLen, hoff, if_true]
    refine ⟨_, rfl, ⟨rfl, rfl, rfl, rfl, rfl, ?_, ?_⟩⟩
    · intro hc; cases hc
    · intro p' hp'
      cases hp'
      refine ⟨?_, rfl, ?_⟩
      · simp only [hidx]; omega
      · simp only [beq_eq_false_iff_ne, ne_eq, hdrLen]; omega


/-! ### the reassembly list in sync with a packet in progress -/

structure Sync (start : FB) (mids : List FB) (p : Bytes) (c s0 : Nat) : Prop where
  f0lo : hdrLen ≤ start.frag0Start
  f0hi : start.frag0Start ≤ start.frameLen
  pktLen : start.pktLen = p.length
  bytes : start.payload.drop (start.frag0Start - hdrLen) ++ bytesOf mids = p.take c
  clt : c < p.length
  seqs : SeqFrom s0 (start :: mids)
  midsOK : ∀ m ∈ mids, MidOK m

theorem Sync.count {start : FB} {mids : List FB} {p : Bytes} {c s0 : Nat}
    (h : Sync start mids p c s0) :
    start.frameLen - start.frag0Start + (bytesOf mids).length = c := by
  have := congrArg List.length h.bytes
  have h1 := h.f0lo
  have h2 := h.f0hi
  have h3 := h.clt
  simp only [List.length_append, List.length_drop, List.length_take, FB.frameLen] at *
  omega

theorem tryReassemble_cons (start : FB) (r : List FB) (hr : r ≠ []) :
    tryReassemble (start :: r) =
      if start.frag0Start == 0 then ([], [])
      else
        match reassembleScan start.pktLen (start.frameLen - start.frag0Start) r with
        | .can => collectAndWrite start r
        | .framingError => (match r.getLast? with | some l => [l] | none => [], [])
        | .wait => (start :: r, []) := by
  cases r with
  | nil => exact absurd rfl hr
  | cons a r => rfl

/-- the guards of `Insert` for the frame that directly follows the list -/
theorem insert_next (start : FB) (mids : List FB) (fb : FB) (s0 : Nat)
    (hs : SeqFrom s0 (start :: mids)) (hseq : fb.seq = s0 + 1 + mids.length)
    (hcap : (start :: mids).length ≠ listCap) :
    GwFrames.insert (start :: mids) fb = tryReassemble (start :: (mids ++ [fb])) := by
  have hl := lastSeq_seqFrom s0 (start :: mids) hs (by simp)
  have h0 : start.seq = s0 := hs.1
  simp only [List.length_cons] at hl
  unfold GwFrames.insert
  simp only
  rw [if_neg (by omega), if_neg (by omega), if_neg (by omega), if_neg hcap]
  rfl

theorem filter_mids (mids : List FB) (hm : ∀ m ∈ mids, MidOK m) :
    (mids.map (fun m => { m with fragNProcessed := true })).filter (fun fb => !fb.processed) = [] := by
  induction mids with
  | nil => rfl
  | cons m mids ih =>
    have hmo := hm m (by simp)
    simp only [List.map_cons]
    rw [List.filter_cons_of_neg]
    · exact ih (fun x hx => hm x (by simp [hx]))
    · simp [FB.processed, hmo.cpp, hmo.frag0]

/-- a middle frame arrives in sync: the list grows, nothing is written -/
theorem insert_middle (start : FB) (mids : List FB) (p : Bytes) (c s0 m : Nat) (fb : FB)
    (hs : Sync start mids p c s0) (hcap : (start :: mids).length ≠ listCap)
    (hseq : fb.seq = s0 + 1 + mids.length) (hidx : fb.index = noIndex) (hf0 : fb.frag0Start = 0)
    (hcpp : fb.completePktsProcessed = true) (hpl : fb.payload = (p.drop c).take m)
    (hm : c + m < p.length) :
    GwFrames.insert (start :: mids) fb = (start :: (mids ++ [fb]), []) ∧
      Sync start (mids ++ [fb]) p (c + m) s0 := by
  have hcount := hs.count
  have hfl : fb.payload.length = m := by
    rw [hpl]; simp only [List.length_take, List.length_drop]; omega
  constructor
  · rw [insert_next start mids fb s0 hs.seqs hseq hcap]
    rw [tryReassemble_cons _ _ (by simp)]
    have h0 : (start.frag0Start == 0) = false := by
      have := hs.f0lo; simp only [beq_eq_false_iff_ne, ne_eq, hdrLen] at *; omega
    rw [h0]
    simp only [Bool.false_eq_true, if_false]
    rw [reassembleScan_mids _ _ _ _ hs.midsOK (by rw [hs.pktLen]; omega)]
    rw [if_neg (by rw [hs.pktLen]; omega)]
    simp [hidx]
  · refine ⟨hs.f0lo, hs.f0hi, hs.pktLen, ?_, hm, ?_, ?_⟩
    · rw [bytesOf_append, ← List.append_assoc, hs.bytes, hpl, List.take_add]
    · have := seqFrom_append s0 (start :: mids) fb hs.seqs (by simp only [List.length_cons]; omega)
      exact this
    · intro x hx
      rcases List.mem_append.1 hx with hx | hx
      · exact hs.midsOK x hx
      · simp only [List.mem_singleton] at hx; subst hx; exact ⟨hidx, hf0, hcpp⟩


/-! ### general frames: tail ++ complete packets ++ head -/

structure GenFB (fb : FB) (tail : Bytes) (qs : List Bytes) (h : Bytes) (cur : Option Bytes) : Prop where
  valid : ∀ x ∈ qs, validPkt x = true
  head : HeadOK h cur
  payload : fb.payload = tail ++ qs.flatten ++ h
  index : fb.index = if qs = [] ∧ cur = none then noIndex else tail.length
  bound : (qs ≠ [] ∨ cur ≠ none) → tail.length < noIndex
  f0 : fb.frag0Start = 0
  cpp : fb.completePktsProcessed = (fb.index == noIndex)

/-- the list after a general frame has been digested: empty, or the frame itself holding the
head of the next packet -/
def After (L' : List FB) (h : Bytes) (cur : Option Bytes) (seq : Nat) : Prop :=
  match cur with
  | none => L' = []
  | some p' => ∃ st', L' = [st'] ∧ Sync st' [] p' h.length seq

structure PcpGen (fb fb' : FB) (tailLen : Nat) (qs : List Bytes) (cur : Option Bytes) : Prop where
  seq : fb'.seq = fb.seq
  payload : fb'.payload = fb.payload
  fragN : fb'.fragNProcessed = fb.fragNProcessed
  cpp : fb'.completePktsProcessed = true
  none : cur = none → fb'.frag0Start = 0
  some : ∀ p, cur = some p → fb'.frag0Start = hdrLen + tailLen + qs.flatten.length ∧
    fb'.pktLen = p.length ∧ fb'.frag0Processed = false

theorem pcp_gen (fb : FB) (tail : Bytes) (qs : List Bytes) (h : Bytes) (cur : Option Bytes)
    (g : GenFB fb tail qs h cur) :
    ∃ fb', processCompletePkts fb = (fb', qs) ∧ PcpGen fb fb' tail.length qs cur := by
  by_cases hc : qs = [] ∧ cur = none
  · have hi : fb.index = noIndex := by rw [g.index, if_pos hc]
    rw [pcp_noIndex fb hi]
    obtain ⟨hq, hcn⟩ := hc
    subst hq; subst hcn
    refine ⟨_, rfl, rfl, rfl, rfl, rfl, ?_, ?_⟩
    · intro _; exact g.f0
    · intro p hp; cases hp
  · have hi : fb.index = tail.length := by rw [g.index, if_neg hc]
    have hb : tail.length < noIndex := g.bound (by
      by_cases hq : qs = []
      · right; intro hcn; exact hc ⟨hq, hcn⟩
      · left; exact hq)
    have hcpp : fb.completePktsProcessed = false := by
      rw [g.cpp, hi]; simp only [beq_eq_false_iff_ne, ne_eq]; omega
    obtain ⟨fb', h1, h2⟩ := pcp_index fb tail qs h cur g.valid g.head g.payload hi hb hcpp g.f0
    exact ⟨fb', h1, h2.seq, h2.payload, h2.fragN, h2.cpp, h2.none, h2.some⟩

theorem sync_of_pcp (fb fb' : FB) (tail : Bytes) (qs : List Bytes) (h : Bytes) (p' : Bytes)
    (hpl : fb.payload = tail ++ qs.flatten ++ h) (hh : HeadOK h (some p'))
    (r : PcpGen fb fb' tail.length qs (some p')) : Sync fb' [] p' h.length fb.seq := by
  obtain ⟨hf0, hpk, _⟩ := r.some p' rfl
  obtain ⟨hv, k, rfl, hk, hlt⟩ := hh
  have hkl : (p'.take k).length = k := by simp [List.length_take]; omega
  refine ⟨by rw [hf0]; omega, ?_, hpk, ?_, by omega, ⟨r.seq, trivial⟩, by intro m hm; cases hm⟩
  · rw [hf0]; simp only [FB.frameLen, r.payload, hpl, List.length_append]; omega
  · rw [hf0, r.payload, hpl]
    have : hdrLen + tail.length + qs.flatten.length - hdrLen = (tail ++ qs.flatten).length := by
      rw [List.length_append]; omega
    rw [this, List.drop_left, hkl]
    simp [bytesOf]

theorem insertFirst_gen (fb : FB) (tail : Bytes) (qs : List Bytes) (h : Bytes) (cur : Option Bytes)
    (g : GenFB fb tail qs h cur) :
    ∃ L', insertFirst fb = (L', qs) ∧ After L' h cur fb.seq := by
  obtain ⟨fb', h1, r⟩ := pcp_gen fb tail qs h cur g
  unfold insertFirst
  rw [h1]
  cases cur with
  | none =>
    have := r.none rfl
    simp only [this, bne_self_eq_false, Bool.false_eq_true, if_false]
    exact ⟨[], rfl, rfl⟩
  | some p' =>
    obtain ⟨hf0, _, _⟩ := r.some p' rfl
    have hne : (fb'.frag0Start != 0) = true := by
      rw [hf0]; simp only [bne_iff_ne, ne_eq, hdrLen]; omega
    simp only [hne, if_true]
    exact ⟨[fb'], rfl, fb', rfl, sync_of_pcp fb fb' tail qs h p' g.payload g.head r⟩

theorem insertFirst_noIndex (fb : FB) (hi : fb.index = noIndex) (hf0 : fb.frag0Start = 0) :
    insertFirst fb = ([], []) := by
  unfold insertFirst
  rw [pcp_noIndex fb hi]
  simp [hf0]


/-- the frame that completes the packet in progress arrives in sync: the packet is written,
followed by the complete packets of the frame; the list is left empty or holds the head of the
next packet -/
theorem insert_general (start : FB) (mids : List FB) (p : Bytes) (c s0 : Nat) (fb : FB)
    (qs : List Bytes) (h : Bytes) (cur : Option Bytes)
    (hs : Sync start mids p c s0) (hcap : (start :: mids).length ≠ listCap)
    (hseq : fb.seq = s0 + 1 + mids.length) (g : GenFB fb (p.drop c) qs h cur) :
    ∃ L', GwFrames.insert (start :: mids) fb = (L', p :: qs) ∧ After L' h cur fb.seq := by
  have hcount := hs.count
  have hclt := hs.clt
  have htl : (p.drop c).length = p.length - c := by simp
  have hfl : fb.payload.length = p.length - c + qs.flatten.length + h.length := by
    rw [g.payload]; simp only [List.length_append, htl]
  rw [insert_next start mids fb s0 hs.seqs hseq hcap]
  rw [tryReassemble_cons _ _ (by simp)]
  have h0 : (start.frag0Start == 0) = false := by
    have := hs.f0lo; simp only [beq_eq_false_iff_ne, ne_eq, hdrLen] at *; omega
  rw [h0]
  simp only [Bool.false_eq_true, if_false]
  rw [reassembleScan_mids _ _ _ _ hs.midsOK (by rw [hs.pktLen]; omega)]
  rw [if_pos (by rw [hs.pktLen]; omega)]
  simp only
  -- collectAndWrite
  unfold collectAndWrite
  dsimp only
  have hb0 : (start.payload.drop (start.frag0Start - hdrLen)).length = start.frameLen - start.frag0Start := by
    have := hs.f0lo; have := hs.f0hi
    simp only [List.length_drop, FB.frameLen] at *; omega
  rw [collect_mids _ _ _ _ (by rw [hs.pktLen, hb0]; omega) (by rw [hs.pktLen, hb0]; omega)]
  simp only
  -- the buffer is the packet
  have hbuf : start.payload.drop (start.frag0Start - hdrLen) ++ bytesOf mids ++
      fb.payload.take (start.pktLen - ((start.payload.drop (start.frag0Start - hdrLen)).length +
        (bytesOf mids).length)) = p := by
    rw [hs.bytes, hb0, hs.pktLen, hcount, g.payload, List.append_assoc (p.drop c)]
    rw [← htl, List.take_left]
    exact List.take_append_drop c p
  rw [hbuf]
  simp only [hs.pktLen, if_true]
  -- the last frame visited is the new frame
  have hrev : ((mids ++ [fb]).map (fun m => { m with fragNProcessed := true })).reverse =
      { fb with fragNProcessed := true } ::
        (mids.map (fun m => { m with fragNProcessed := true })).reverse := by
    simp
  rw [hrev]
  simp only [List.reverse_reverse]
  have g' : GenFB { fb with fragNProcessed := true } (p.drop c) qs h cur :=
    ⟨g.valid, g.head, g.payload, g.index, g.bound, g.f0, g.cpp⟩
  obtain ⟨fb', h1, r⟩ := pcp_gen _ _ qs h cur g'
  rw [h1]
  simp only [List.singleton_append]
  -- removeProcessed
  have hst : (start.setProcessed.processed) = true := by
    simp [FB.setProcessed, FB.processed]
  rw [List.filter_cons_of_neg (by simp [hst]), List.filter_append, filter_mids mids hs.midsOK,
    List.nil_append]
  cases cur with
  | none =>
    have hf := r.none rfl
    have hproc : fb'.processed = true := by
      simp [FB.processed, r.cpp, r.fragN, hf]
    refine ⟨[], ?_, rfl⟩
    rw [List.filter_cons_of_neg (by simp [hproc])]
    rfl
  | some p' =>
    obtain ⟨hf0, _, hfp⟩ := r.some p' rfl
    have hproc : fb'.processed = false := by
      have : (fb'.frag0Start == 0) = false := by
        rw [hf0]; simp only [beq_eq_false_iff_ne, ne_eq, hdrLen]; omega
      simp [FB.processed, this, hfp]
    refine ⟨[fb'], ?_, fb', rfl, ?_⟩
    · rw [List.filter_cons_of_pos (by simp [hproc])]
      rfl
    · exact sync_of_pcp { fb with fragNProcessed := true } fb' (p.drop c) qs h p' g'.payload g'.head r

end Scion.Proofs.GwFrames
