import Scion.Proofs.NetRun
import Scion.Proofs.NetChain
/-! From control-plane chains to data-plane runs: the transit hops of a registered segment are
traversed in either direction.  Core Lean only. -/
namespace Scion.Net
open Scion.SegID (updateSegID extractBeta xorAll)

def firstOf (l : List ASE) (last : ASE) : ASE :=
  match l with
  | [] => last
  | e :: _ => e

/-- interfaces crossed while traversing `l` and arriving at `last`, construction direction -/
def downTrace : List ASE → ASE → List (Nat × Nat)
  | [], _ => []
  | e :: rest, last =>
    (e.ia, e.hop.cEg) :: ((firstOf rest last).ia, (firstOf rest last).hop.cIn) :: downTrace rest last

/-- interfaces crossed while traversing `l` (forwarding order) against construction direction -/
def upTrace : List ASE → ASE → List (Nat × Nat)
  | [], _ => []
  | e :: rest, last =>
    (e.ia, e.hop.cIn) :: ((firstOf rest last).ia, (firstOf rest last).hop.cEg) :: upTrace rest last

theorem ltSame_down (core : Bool) (a b : LinkType) (h1 : opposite (beaconLink core) a = true)
    (h2 : b = beaconLink core) : ltSame a b = true := by
  subst h2; cases core <;> cases a <;> simp_all [opposite, beaconLink, ltSame]

theorem ltSame_up (core : Bool) (a b : LinkType) (h1 : a = beaconLink core)
    (h2 : opposite (beaconLink core) b = true) : ltSame a b = true := by
  subst h1; cases core <;> cases b <;> simp_all [opposite, beaconLink, ltSame]

section
variable (mac : MacFn) (net : Net) (now src dst : Nat) (pr core : Bool) (ts : Nat)
variable (hWF : WFNet net) (hUp : AllUp net) (hSR : SingleRouter net)
include hWF hUp hSR

/-- construction direction: the ASes of `l` hand the packet on until it reaches `last` -/
theorem down_transits (l : List ASE) : ∀ (prevE last : ASE) (β : Nat),
    Chain mac net core ts β (prevE :: (l ++ [last])) →
    (∀ e ∈ l, e.ia ≠ src ∧ e.ia ≠ dst ∧ expired now ts e.hop.exp = false) →
    Transits mac net now src dst true pr ts (updateSegID β (pfx prevE.hop.mac))
      (firstOf l last).ia (firstOf l last).hop.cIn (l.map fun e => hopOf e.hop)
      (extractBeta (updateSegID β (pfx prevE.hop.mac)) (sig l)) last.ia last.hop.cIn
      (downTrace l last) := by
  induction l with
  | nil =>
    intro prevE last β _ _
    simpa [firstOf, sig, extractBeta, downTrace] using Transits.nil _ _ _
  | cons e rest ih =>
    intro prevE last β hc hprop
    simp only [List.cons_append, Chain] at hc
    obtain ⟨_, hl0, hc1⟩ := hc
    obtain ⟨f0, hf0, hf0lt, hf0n, hf0i, _⟩ := hl0
    obtain ⟨_, _, g0, hg0, _, _, hopp0⟩ := hWF _ _ _ hf0
    rw [hf0n, hf0i] at hg0
    have hcin0 : e.hop.cIn ≠ 0 := (hWF _ _ _ hg0).1
    -- the link towards the next AS
    have hne : rest ++ [last] = firstOf rest last :: (rest ++ [last]).tail := by
      cases rest <;> simp [firstOf]
    rw [hne] at hc1
    simp only [Chain] at hc1
    obtain ⟨hm, hl1, _⟩ := hc1
    obtain ⟨f1, hf1, hf1lt, hf1n, hf1i, hceg⟩ := hl1
    obtain ⟨_, _, g1, hg1, _, _, _⟩ := hWF _ _ _ hf1
    obtain ⟨hs, hd, hexp⟩ := hprop e (by simp)
    have hrec := ih e last (updateSegID β (pfx prevE.hop.mac))
      (by
        have hc1' : Chain mac net core ts (updateSegID β (pfx prevE.hop.mac)) (e :: (rest ++ [last])) := by
          rw [hne]; simp only [Chain]; exact ⟨hm, ⟨f1, hf1, hf1lt, hf1n, hf1i, hceg⟩, by assumption⟩
        exact hc1')
      (fun x hx => hprop x (by simp [hx]))
    have hcons := Transits.cons (mac := mac) (net := net) (now := now) (src := src) (dst := dst)
      (cd := true) (pr := pr) (ts := ts) (updateSegID β (pfx prevE.hop.mac)) e.ia e.hop.cIn
      (hopOf e.hop) (rest.map fun e => hopOf e.hop)
      (extractBeta (updateSegID (updateSegID β (pfx prevE.hop.mac)) (pfx e.hop.mac)) (sig rest))
      last.ia last.hop.cIn (downTrace rest last) g0 f1 g1
      hcin0 (by simp [inSide, hopOf]) hs hd
      (by simpa [macOk, usedSeg, hopOf] using hm.1.symm)
      (by simpa [hopOf] using hexp) rfl rfl hg0
      (by simpa [outSide, hopOf] using hf1) (by simpa [outSide, hopOf] using hceg)
      (hUp _ _ _ hf1) (hSR _ _ _ hf1)
      (ltSame_down core _ _ (by rw [← hf0lt]; exact hopp0) hf1lt)
      hg1 (hSR _ _ _ hg1)
      (by
        rw [hf1n, hf1i]
        simpa [nextSeg, hopOf] using hrec)
    simpa [firstOf, sig, extractBeta, downTrace, outSide, hopOf, hf1n, hf1i] using hcons

/-- metadata interfaces of the ASes after the first one of a down traversal -/
theorem ifaces_down_tail (mid : List ASE) (last : ASE) (hm : ∀ y ∈ mid, y.hop.cEg ≠ 0)
    (hl : last.hop.cEg = 0) :
    ((mid ++ [last]).map fun y =>
        [(y.ia, y.hop.cIn)] ++ (if y.hop.cEg ≠ 0 then [(y.ia, y.hop.cEg)] else [])).flatten =
      ((firstOf mid last).ia, (firstOf mid last).hop.cIn) :: downTrace mid last := by
  induction mid with
  | nil => simp [firstOf, downTrace, hl]
  | cons y ys ih =>
    have hy := hm y (by simp)
    have := ih (fun z hz => hm z (by simp [hz]))
    simp only [List.cons_append, List.map_cons, List.flatten_cons, this, firstOf, downTrace]
    simp [hy]

/-- **one down segment** (or the part of it from a shortcut AS on): a packet from a host of the
    AS of entry `x` is forwarded by `x`, every AS of `mid`, and delivered in the AS of `last` -/
theorem down_segment_run (s0 : Nat) (pre : List ASE) (x : ASE) (mid : List ASE) (last : ASE)
    (hc : Chain mac net core ts s0 (pre ++ x :: (mid ++ [last])))
    (hsrc : src = x.ia) (hdst : dst = last.ia)
    (hnd : ((x :: (mid ++ [last])).map (·.ia)).Nodup)
    (hexp : ∀ e ∈ x :: (mid ++ [last]), expired now ts e.hop.exp = false) :
    ∃ cf, run mac net now src dst (2 * (mid.length + 2) + 2) src 0 .host
        ⟨[], ⟨true, pr, extractBeta s0 (sig pre), ts⟩, [], hopOf x.hop,
          (mid ++ [last]).map (fun e => hopOf e.hop), []⟩ [] =
      .delivered dst ((x.ia, x.hop.cEg) :: ((firstOf mid last).ia, (firstOf mid last).hop.cIn) ::
        downTrace mid last) cf := by
  have hc1 := chain_drop mac net core ts s0 pre _ hc
  -- facts about x and its link
  have hne : mid ++ [last] = firstOf mid last :: (mid ++ [last]).tail := by
    cases mid <;> simp [firstOf]
  have hc1' := hc1
  rw [hne] at hc1'
  simp only [Chain] at hc1'
  obtain ⟨hmx, hlx, _⟩ := hc1'
  obtain ⟨fx, hfx, _, hfxn, hfxi, hxeg⟩ := hlx
  obtain ⟨_, _, gx, hgx, _, _, _⟩ := hWF _ _ _ hfx
  -- distinctness
  have hnd' := hnd
  simp only [List.map_cons, List.map_append, List.map_nil, List.nodup_cons, List.mem_append,
    List.mem_map, List.mem_cons, List.not_mem_nil, or_false, List.nodup_append] at hnd'
  have hsd : src ≠ dst := by
    rw [hsrc, hdst]; intro h; exact hnd'.1 (Or.inr h.symm ▸ Or.inr rfl)
  sorry

end

end Scion.Net
