import Scion.Proofs.NetRun
import Scion.Proofs.NetChain
/-! From control-plane chains to data-plane runs: the transit hops of a registered segment are
traversed in either direction.  Core Lean only. -/
namespace Scion.Net
open Scion.SegID (updateSegID extractBeta xorAll)

def firstOf (l : List ASE) (last : ASE) : ASE :=
  match l with
  | [] => last
  | e :: _ => e

/-- interfaces crossed while traversing `l` and arriving at `last`, construction direction -/
def downTrace : List ASE → ASE → List (Nat × Nat)
  | [], _ => []
  | e :: rest, last =>
    (e.ia, e.hop.cEg) :: ((firstOf rest last).ia, (firstOf rest last).hop.cIn) :: downTrace rest last

/-- interfaces crossed while traversing `l` (forwarding order) against construction direction -/
def upTrace : List ASE → ASE → List (Nat × Nat)
  | [], _ => []
  | e :: rest, last =>
    (e.ia, e.hop.cIn) :: ((firstOf rest last).ia, (firstOf rest last).hop.cEg) :: upTrace rest last

theorem ltSame_down (core : Bool) (a b : LinkType) (h1 : opposite (beaconLink core) a = true)
    (h2 : b = beaconLink core) : ltSame a b = true := by
  subst h2; cases core <;> cases a <;> simp_all [opposite, beaconLink, ltSame]

theorem ltSame_up (core : Bool) (a b : LinkType) (h1 : a = beaconLink core)
    (h2 : opposite (beaconLink core) b = true) : ltSame a b = true := by
  subst h1; cases core <;> cases b <;> simp_all [opposite, beaconLink, ltSame]

section
variable (mac : MacFn) (net : Net) (now src dst : Nat) (pr core : Bool) (ts : Nat)
variable (hWF : WFNet net) (hUp : AllUp net) (hSR : SingleRouter net)
include hWF hUp hSR

/-- construction direction: the ASes of `l` hand the packet on until it reaches `last` -/
theorem down_transits (l : List ASE) : ∀ (prevE last : ASE) (β : Nat),
    Chain mac net core ts β (prevE :: (l ++ [last])) →
    (∀ e ∈ l, e.ia ≠ src ∧ e.ia ≠ dst ∧ expired now ts e.hop.exp = false) →
    Transits mac net now src dst true pr ts (updateSegID β (pfx prevE.hop.mac))
      (firstOf l last).ia (firstOf l last).hop.cIn (l.map fun e => hopOf e.hop)
      (extractBeta (updateSegID β (pfx prevE.hop.mac)) (sig l)) last.ia last.hop.cIn
      (downTrace l last) := by
  induction l with
  | nil =>
    intro prevE last β _ _
    simpa [firstOf, sig, extractBeta, downTrace] using Transits.nil _ _ _
  | cons e rest ih =>
    intro prevE last β hc hprop
    simp only [List.cons_append, Chain] at hc
    obtain ⟨_, hl0, hc1⟩ := hc
    obtain ⟨f0, hf0, hf0lt, hf0n, hf0i, _⟩ := hl0
    obtain ⟨_, _, g0, hg0, _, _, hopp0⟩ := hWF _ _ _ hf0
    rw [hf0n, hf0i] at hg0
    have hcin0 : e.hop.cIn ≠ 0 := (hWF _ _ _ hg0).1
    -- the link towards the next AS
    have hne : rest ++ [last] = firstOf rest last :: (rest ++ [last]).tail := by
      cases rest <;> simp [firstOf]
    rw [hne] at hc1
    simp only [Chain] at hc1
    obtain ⟨hm, hl1, _⟩ := hc1
    obtain ⟨f1, hf1, hf1lt, hf1n, hf1i, hceg⟩ := hl1
    obtain ⟨_, _, g1, hg1, _, _, _⟩ := hWF _ _ _ hf1
    obtain ⟨hs, hd, hexp⟩ := hprop e (by simp)
    have hrec := ih e last (updateSegID β (pfx prevE.hop.mac))
      (by
        have hc1' : Chain mac net core ts (updateSegID β (pfx prevE.hop.mac)) (e :: (rest ++ [last])) := by
          rw [hne]; simp only [Chain]; exact ⟨hm, ⟨f1, hf1, hf1lt, hf1n, hf1i, hceg⟩, by assumption⟩
        exact hc1')
      (fun x hx => hprop x (by simp [hx]))
    have hcons := Transits.cons (mac := mac) (net := net) (now := now) (src := src) (dst := dst)
      (cd := true) (pr := pr) (ts := ts) (updateSegID β (pfx prevE.hop.mac)) e.ia e.hop.cIn
      (hopOf e.hop) (rest.map fun e => hopOf e.hop)
      (extractBeta (updateSegID (updateSegID β (pfx prevE.hop.mac)) (pfx e.hop.mac)) (sig rest))
      last.ia last.hop.cIn (downTrace rest last) g0 f1 g1
      hcin0 (by simp [inSide, hopOf]) hs hd
      (by simpa [macOk, usedSeg, hopOf] using hm.1.symm)
      (by simpa [hopOf] using hexp) rfl rfl hg0
      (by simpa [outSide, hopOf] using hf1) (by simpa [outSide, hopOf] using hceg)
      (hUp _ _ _ hf1) (hSR _ _ _ hf1)
      (ltSame_down core _ _ (by rw [← hf0lt]; exact hopp0) hf1lt)
      hg1 (hSR _ _ _ hg1)
      (by
        rw [hf1n, hf1i]
        simpa [nextSeg, hopOf] using hrec)
    simpa [firstOf, sig, extractBeta, downTrace, outSide, hopOf, hf1n, hf1i] using hcons

omit hWF hUp hSR in
/-- metadata interfaces of the ASes after the first one of a down traversal -/
theorem ifaces_down_tail (mid : List ASE) (last : ASE) (hm : ∀ y ∈ mid, y.hop.cEg ≠ 0)
    (hl : last.hop.cEg = 0) :
    ((mid ++ [last]).map fun y =>
        [(y.ia, y.hop.cIn)] ++ (if y.hop.cEg ≠ 0 then [(y.ia, y.hop.cEg)] else [])).flatten =
      ((firstOf mid last).ia, (firstOf mid last).hop.cIn) :: downTrace mid last := by
  induction mid with
  | nil => simp [firstOf, downTrace, hl]
  | cons y ys ih =>
    have hy := hm y (by simp)
    rw [List.cons_append, List.map_cons, List.flatten_cons, ih (fun z hz => hm z (by simp [hz]))]
    simp [firstOf, downTrace, hy]

omit hWF hUp hSR in
theorem nd_facts (x : ASE) (mid : List ASE) (last : ASE)
    (hnd : ((x :: (mid ++ [last])).map (·.ia)).Nodup) :
    x.ia ≠ last.ia ∧ ∀ e ∈ mid, e.ia ≠ x.ia ∧ e.ia ≠ last.ia := by
  simp only [List.map_cons, List.map_append, List.map_nil, List.nodup_cons, List.mem_append,
    List.mem_map, List.mem_cons, List.not_mem_nil, or_false, List.nodup_append] at hnd
  obtain ⟨h1, h2, h3, h4⟩ := hnd
  refine ⟨fun h => h1 (Or.inr h), fun e he => ⟨fun h => h1 (Or.inl ⟨e, he, h⟩), ?_⟩⟩
  intro h
  exact h4 e.ia ⟨e, he, rfl⟩ last.ia (by simp) h

omit hWF hUp hSR in
theorem chain_link_last (mid : List ASE) : ∀ (p last : ASE) (β : Nat),
    Chain mac net core ts β (p :: (mid ++ [last])) → ∃ e, Linked net core e last := by
  induction mid with
  | nil => intro p last β hc; simp only [List.nil_append, Chain] at hc; exact ⟨p, hc.2.1⟩
  | cons m ms ih =>
    intro p last β hc
    simp only [List.cons_append, Chain] at hc
    exact ih m last _ hc.2.2

/-- **the rest of a down segment that ends the path**: the packet has just entered the AS of the
    entry after `prevE`; the ASes of `mid` hand it on and the AS of `last` delivers it -/
theorem down_tail_run (prevE : ASE) (mid : List ASE) (last : ASE) (β : Nat)
    (hc : Chain mac net core ts β (prevE :: (mid ++ [last])))
    (hdst : dst = last.ia) (hsd : src ≠ dst)
    (hmid : ∀ e ∈ mid, e.ia ≠ src ∧ e.ia ≠ dst ∧ expired now ts e.hop.exp = false)
    (hexpl : expired now ts last.hop.exp = false)
    (before : List Seg) (hb : ∀ s ∈ before, s.hops.length ≠ 1)
    (done : List Hop) (hdone : done ≠ []) (fuel : Nat) (tr0 : List (Nat × Nat)) :
    run mac net now src dst (fuel + 1 + mid.length) (firstOf mid last).ia 0
        (.ext (firstOf mid last).hop.cIn)
        (mkCur before ⟨true, false, updateSegID β (pfx prevE.hop.mac), ts⟩ done
          ((mid.map fun e => hopOf e.hop) ++ hopOf last.hop :: []) []) tr0 =
      .delivered dst (tr0 ++ downTrace mid last)
        ⟨before, ⟨true, false, extractBeta (updateSegID β (pfx prevE.hop.mac)) (sig mid), ts⟩,
          done ++ (mid.map fun e => hopOf e.hop), hopOf last.hop, [], []⟩ := by
  have hT := down_transits mac net now src dst false core ts hWF hUp hSR mid prevE last β hc hmid
  have hrun := run_transits hT before [] hb (by simp) (by simp) done (hopOf last.hop) [] (fuel + 1) tr0
    (by simp) (by have := List.length_pos_iff.mpr hdone; simp; omega)
  simp only [List.length_map] at hrun
  rw [hrun]
  -- the last hop: MAC of `last` under the accumulator reached
  have hcl : Chain mac net core ts (extractBeta (updateSegID β (pfx prevE.hop.mac)) (sig mid)) [last] := by
    have := chain_drop mac net core ts β (prevE :: mid) [last] (by simpa using hc)
    simpa [sig, extractBeta] using this
  simp only [Chain] at hcl
  -- its ingress interface is not 0: it is the far end of a link
  have hlast_in : last.hop.cIn ≠ 0 := by
    obtain ⟨e, f, hf, _, hfn, hfi, _⟩ := chain_link_last mac net core ts mid prevE last β hc
    obtain ⟨_, _, g, hg, _, _, _⟩ := hWF _ _ _ hf
    rw [hfn, hfi] at hg
    exact (hWF _ _ _ hg).1
  have hstep := last_step mac net now src dst true false false ts
    (extractBeta (updateSegID β (pfx prevE.hop.mac)) (sig mid)) last.hop.cIn (hopOf last.hop) before
    (done ++ mid.map fun e => hopOf e.hop) hb (by intro _; cases done <;> simp_all)
    (by simp [determinePeer]) hsd hlast_in (by simp [inSide, hopOf])
    (by rw [hdst]; simpa [macOk, lastSeg, hopOf] using hcl.1.symm)
    (by simpa [hopOf] using hexpl) rfl rfl
  rw [hdst]
  rw [hdst] at hstep
  simp only [mkCur]
  rw [run_deliver mac net now src last.ia fuel last.ia 0 _ _ _ _ hstep]
  simp [lastSeg]

/-- **one down segment** (or the part of it from a shortcut AS on): a packet from a host of the
    AS of entry `x` is forwarded by `x`, by every AS of `mid`, and delivered in the AS of `last` -/
theorem down_segment_run (s0 : Nat) (pre : List ASE) (x : ASE) (mid : List ASE) (last : ASE)
    (hc : Chain mac net core ts s0 (pre ++ x :: (mid ++ [last])))
    (hsrc : src = x.ia) (hdst : dst = last.ia)
    (hnd : ((x :: (mid ++ [last])).map (·.ia)).Nodup)
    (hexp : ∀ e ∈ x :: (mid ++ [last]), expired now ts e.hop.exp = false) (fuel : Nat) :
    run mac net now src dst (fuel + 2 + mid.length) src 0 .host
        ⟨[], ⟨true, false, extractBeta s0 (sig pre), ts⟩, [], hopOf x.hop,
          (mid ++ [last]).map (fun e => hopOf e.hop), []⟩ [] =
      .delivered dst ((x.ia, x.hop.cEg) :: ((firstOf mid last).ia, (firstOf mid last).hop.cIn) ::
        downTrace mid last)
        ⟨[], ⟨true, false,
            extractBeta (updateSegID (extractBeta s0 (sig pre)) (pfx x.hop.mac)) (sig mid), ts⟩,
          [hopOf x.hop] ++ mid.map (fun e => hopOf e.hop), hopOf last.hop, [], []⟩ := by
  have hc1 := chain_drop mac net core ts s0 pre _ hc
  have hne : mid ++ [last] = firstOf mid last :: (mid ++ [last]).tail := by
    cases mid <;> simp [firstOf]
  have hc1' := hc1
  rw [hne] at hc1'
  simp only [Chain] at hc1'
  obtain ⟨hmx, hlx, _⟩ := hc1'
  obtain ⟨fx, hfx, _, hfxn, hfxi, hxeg⟩ := hlx
  obtain ⟨_, _, gx, hgx, _, _, _⟩ := hWF _ _ _ hfx
  obtain ⟨hxl, hmid⟩ := nd_facts x mid last hnd
  have hsd : src ≠ dst := by rw [hsrc, hdst]; exact hxl
  have hstep := first_step mac net now src dst true false ts (extractBeta s0 (sig pre)) (hopOf x.hop)
    ((mid ++ [last]).map fun e => hopOf e.hop) [] fx (by simp) (by simp) (by simp) hsd
    (by rw [hsrc]; simpa [macOk, hopOf] using hmx.1.symm)
    (by simpa [hopOf] using hexp x (by simp)) rfl rfl
    (by rw [hsrc]; simpa [outSide, hopOf] using hfx) (by simpa [outSide, hopOf] using hxeg)
    (hUp _ _ _ hfx) (hSR _ _ _ hfx)
  have hfx' : (net src).iface (outSide true (hopOf x.hop)) = some fx := by
    rw [hsrc]; simpa [outSide, hopOf] using hfx
  have h1 : fuel + 2 + mid.length = (fuel + 1 + mid.length) + 1 := by omega
  rw [h1, run_forward_ext mac net now src dst (fuel + 1 + mid.length) src 0 .host _ _ []
    (outSide true (hopOf x.hop)) fx gx hstep hfx' (hSR _ _ _ hfx) hgx, hSR _ _ _ hgx]
  have htail := down_tail_run mac net now src dst core ts hWF hUp hSR x mid last
    (extractBeta s0 (sig pre)) hc1 hdst hsd
    (fun e he => ⟨by rw [hsrc]; exact (hmid e he).1, by rw [hdst]; exact (hmid e he).2,
      hexp e (by simp [he])⟩)
    (hexp last (by simp)) [] (by simp) [hopOf x.hop] (by simp) fuel
    ([] ++ [(src, outSide true (hopOf x.hop)), ((firstOf mid last).ia, (firstOf mid last).hop.cIn)])
  rw [hfxn, hfxi]
  have e1 : (hopOf x.hop).mac = x.hop.mac := rfl
  simp only [List.map_append, List.map_cons, List.map_nil, egSeg, if_true, e1] at htail ⊢
  rw [htail]
  have e2 : ([] : List (Nat × Nat)) ++ [(src, outSide true (hopOf x.hop)),
      ((firstOf mid last).ia, (firstOf mid last).hop.cIn)] ++ downTrace mid last =
      (x.ia, x.hop.cEg) :: ((firstOf mid last).ia, (firstOf mid last).hop.cIn) :: downTrace mid last := by
    simp [outSide, hopOf, hsrc]
  rw [e2]

/-- against construction direction: the ASes of `r` (forwarding order) hand the packet on until
    it reaches `last` -/
theorem up_transits (r : List ASE) : ∀ (prevE last : ASE) (b : Nat),
    ChainUp mac net core ts b (prevE :: (r ++ [last])) →
    (∀ e ∈ r, e.ia ≠ src ∧ e.ia ≠ dst ∧ expired now ts e.hop.exp = false) →
    Transits mac net now src dst false pr ts (updateSegID b (pfx prevE.hop.mac))
      (firstOf r last).ia (firstOf r last).hop.cEg (r.map fun e => hopOf e.hop)
      (extractBeta (updateSegID b (pfx prevE.hop.mac)) (sig r)) last.ia last.hop.cEg
      (upTrace r last) := by
  induction r with
  | nil =>
    intro prevE last b _ _
    simpa [firstOf, sig, extractBeta, upTrace] using Transits.nil _ _ _
  | cons e rest ih =>
    intro prevE last b hc hprop
    simp only [List.cons_append, ChainUp] at hc
    obtain ⟨_, hl0, hc1⟩ := hc
    -- the link between e (parent side) and prevE (child side)
    obtain ⟨f0, hf0, hf0lt, _, _, hceg⟩ := hl0
    have hne : rest ++ [last] = firstOf rest last :: (rest ++ [last]).tail := by
      cases rest <;> simp [firstOf]
    have hc1' := hc1
    rw [hne] at hc1'
    simp only [ChainUp] at hc1'
    obtain ⟨hm, hl1, _⟩ := hc1'
    -- the link between the next AS (parent side) and e (child side)
    obtain ⟨f1, hf1, hf1lt, hf1n, hf1i, _⟩ := hl1
    obtain ⟨_, _, g1, hg1, hg1n, hg1i, hopp1⟩ := hWF _ _ _ hf1
    rw [hf1n, hf1i] at hg1
    have hcin0 : e.hop.cIn ≠ 0 := (hWF _ _ _ hg1).1
    obtain ⟨hs, hd, hexp⟩ := hprop e (by simp)
    have hrec := ih e last (updateSegID b (pfx prevE.hop.mac)) hc1
      (fun x hx => hprop x (by simp [hx]))
    have hf1' : (net g1.nbr).iface g1.nbrIf = some f1 := by rw [hg1n, hg1i]; exact hf1
    have hcons := Transits.cons (mac := mac) (net := net) (now := now) (src := src) (dst := dst)
      (cd := false) (pr := pr) (ts := ts) (updateSegID b (pfx prevE.hop.mac)) e.ia e.hop.cEg
      (hopOf e.hop) (rest.map fun e => hopOf e.hop)
      (extractBeta (updateSegID (updateSegID b (pfx prevE.hop.mac)) (pfx e.hop.mac)) (sig rest))
      last.ia last.hop.cEg (upTrace rest last) f0 g1 f1
      hceg (by simp [inSide, hopOf]) hs hd
      (by simpa [macOk, usedSeg, hopOf] using hm.1.symm)
      (by simpa [hopOf] using hexp) rfl rfl hf0
      (by simpa [outSide, hopOf] using hg1) (by simpa [outSide, hopOf] using hcin0)
      (hUp _ _ _ hg1) (hSR _ _ _ hg1)
      (ltSame_up core _ _ hf0lt (by rw [← hf1lt]; exact hopp1))
      hf1' (hSR _ _ _ hf1)
      (by
        rw [hg1n, hg1i]
        simpa [nextSeg, hopOf] using hrec)
    simpa [firstOf, sig, extractBeta, upTrace, outSide, hopOf, hg1n, hg1i] using hcons

omit hWF hUp hSR in
theorem chainUp_link_last (r : List ASE) : ∀ (p last : ASE) (b : Nat),
    ChainUp mac net core ts b (p :: (r ++ [last])) → ∃ e, Linked net core last e := by
  induction r with
  | nil => intro p last b hc; simp only [List.nil_append, ChainUp] at hc; exact ⟨p, hc.2.1⟩
  | cons m ms ih =>
    intro p last b hc
    simp only [List.cons_append, ChainUp] at hc
    exact ih m last _ hc.2.2

omit hWF hUp hSR in
/-- a `ChainUp` continues after any prefix -/
theorem chainUp_drop (pre l : List ASE) : ∀ (b : Nat),
    ChainUp mac net core ts b (pre ++ l) →
    ChainUp mac net core ts (extractBeta b (sig pre)) l := by
  induction pre with
  | nil => intro b hc; simpa [sig, extractBeta] using hc
  | cons x xs ih =>
    intro b hc
    cases hxl : xs ++ l with
    | nil =>
      have : l = [] := by cases xs <;> simp_all
      subst this; simp [ChainUp]
    | cons y ys =>
      simp only [List.cons_append, hxl, ChainUp] at hc
      have := ih (updateSegID b (pfx x.hop.mac)) (by rw [hxl]; exact hc.2.2)
      simpa [sig, extractBeta] using this

/-- **the rest of an up segment that ends the path** (destination = the AS where the used part of
    the segment ends) -/
theorem up_tail_run (prevE : ASE) (r : List ASE) (last : ASE) (b : Nat)
    (hc : ChainUp mac net core ts b (prevE :: (r ++ [last])))
    (hdst : dst = last.ia) (hsd : src ≠ dst)
    (hmid : ∀ e ∈ r, e.ia ≠ src ∧ e.ia ≠ dst ∧ expired now ts e.hop.exp = false)
    (hexpl : expired now ts last.hop.exp = false)
    (before : List Seg) (hb : ∀ s ∈ before, s.hops.length ≠ 1)
    (done : List Hop) (hdone : done ≠ []) (fuel : Nat) (tr0 : List (Nat × Nat)) :
    run mac net now src dst (fuel + 1 + r.length) (firstOf r last).ia 0
        (.ext (firstOf r last).hop.cEg)
        (mkCur before ⟨false, false, updateSegID b (pfx prevE.hop.mac), ts⟩ done
          ((r.map fun e => hopOf e.hop) ++ hopOf last.hop :: []) []) tr0 =
      .delivered dst (tr0 ++ upTrace r last)
        ⟨before, ⟨false, false,
            updateSegID (extractBeta (updateSegID b (pfx prevE.hop.mac)) (sig r)) (pfx last.hop.mac), ts⟩,
          done ++ (r.map fun e => hopOf e.hop), hopOf last.hop, [], []⟩ := by
  have hT := up_transits mac net now src dst false core ts hWF hUp hSR r prevE last b hc hmid
  have hrun := run_transits hT before [] hb (by simp) (by simp) done (hopOf last.hop) [] (fuel + 1) tr0
    (by simp) (by have := List.length_pos_iff.mpr hdone; simp; omega)
  simp only [List.length_map] at hrun
  rw [hrun]
  have hcl : ChainUp mac net core ts (extractBeta (updateSegID b (pfx prevE.hop.mac)) (sig r)) [last] := by
    have := chainUp_drop mac net core ts (prevE :: r) [last] b (by simpa using hc)
    simpa [sig, extractBeta] using this
  simp only [ChainUp] at hcl
  have hlast_eg : last.hop.cEg ≠ 0 := by
    obtain ⟨e, f, _, _, _, _, h0⟩ := chainUp_link_last mac net core ts r prevE last b hc
    exact h0
  have hstep := last_step mac net now src dst false false false ts
    (extractBeta (updateSegID b (pfx prevE.hop.mac)) (sig r)) last.hop.cEg (hopOf last.hop) before
    (done ++ r.map fun e => hopOf e.hop) hb (by intro _; cases done <;> simp_all)
    (by simp [determinePeer]) hsd hlast_eg (by simp [inSide, hopOf])
    (by rw [hdst]; simpa [macOk, lastSeg, hopOf] using hcl.1.symm)
    (by simpa [hopOf] using hexpl) rfl rfl
  rw [hdst]
  rw [hdst] at hstep
  simp only [mkCur]
  rw [run_deliver mac net now src last.ia fuel last.ia 0 _ _ _ _ hstep]
  simp [lastSeg, hopOf]

/-- **one up segment** (up to a shortcut AS): a packet from a host of the AS of the last entry
    `top` is forwarded by `top`, by every AS of `r` (forwarding order), and delivered in the AS of
    `x`, the entry where the used part of the segment ends -/
theorem up_segment_run (b : Nat) (top : ASE) (r : List ASE) (x : ASE)
    (hc : ChainUp mac net core ts b (top :: (r ++ [x])))
    (hsrc : src = top.ia) (hdst : dst = x.ia)
    (hnd : ((top :: (r ++ [x])).map (·.ia)).Nodup)
    (hexp : ∀ e ∈ top :: (r ++ [x]), expired now ts e.hop.exp = false) (fuel : Nat) :
    run mac net now src dst (fuel + 2 + r.length) src 0 .host
        ⟨[], ⟨false, false, updateSegID b (pfx top.hop.mac), ts⟩, [], hopOf top.hop,
          (r ++ [x]).map (fun e => hopOf e.hop), []⟩ [] =
      .delivered dst ((top.ia, top.hop.cIn) :: ((firstOf r x).ia, (firstOf r x).hop.cEg) ::
        upTrace r x)
        ⟨[], ⟨false, false,
            updateSegID (extractBeta (updateSegID b (pfx top.hop.mac)) (sig r)) (pfx x.hop.mac), ts⟩,
          [hopOf top.hop] ++ r.map (fun e => hopOf e.hop), hopOf x.hop, [], []⟩ := by
  have hne : r ++ [x] = firstOf r x :: (r ++ [x]).tail := by
    cases r <;> simp [firstOf]
  have hc' := hc
  rw [hne] at hc'
  simp only [ChainUp] at hc'
  obtain ⟨hmt, hlt, _⟩ := hc'
  obtain ⟨f1, hf1, _, hf1n, hf1i, _⟩ := hlt
  obtain ⟨_, _, g1, hg1, hg1n, hg1i, _⟩ := hWF _ _ _ hf1
  rw [hf1n, hf1i] at hg1
  have hcin0 : top.hop.cIn ≠ 0 := (hWF _ _ _ hg1).1
  have hf1' : (net g1.nbr).iface g1.nbrIf = some f1 := by rw [hg1n, hg1i]; exact hf1
  obtain ⟨hxl, hmid⟩ := nd_facts top r x hnd
  have hsd : src ≠ dst := by rw [hsrc, hdst]; exact hxl
  have hstep := first_step mac net now src dst false false ts (updateSegID b (pfx top.hop.mac))
    (hopOf top.hop) ((r ++ [x]).map fun e => hopOf e.hop) [] g1 (by simp) (by simp) (by simp) hsd
    (by rw [hsrc]; simpa [macOk, hopOf] using hmt.1.symm)
    (by simpa [hopOf] using hexp top (by simp)) rfl rfl
    (by rw [hsrc]; simpa [outSide, hopOf] using hg1) (by simpa [outSide, hopOf] using hcin0)
    (hUp _ _ _ hg1) (hSR _ _ _ hg1)
  have hg1' : (net src).iface (outSide false (hopOf top.hop)) = some g1 := by
    rw [hsrc]; simpa [outSide, hopOf] using hg1
  have h1 : fuel + 2 + r.length = (fuel + 1 + r.length) + 1 := by omega
  rw [h1, run_forward_ext mac net now src dst (fuel + 1 + r.length) src 0 .host _ _ []
    (outSide false (hopOf top.hop)) g1 f1 hstep hg1' (hSR _ _ _ hg1) hf1', hSR _ _ _ hf1]
  have htail := up_tail_run mac net now src dst core ts hWF hUp hSR top r x b hc hdst hsd
    (fun e he => ⟨by rw [hsrc]; exact (hmid e he).1, by rw [hdst]; exact (hmid e he).2,
      hexp e (by simp [he])⟩)
    (hexp x (by simp)) [] (by simp) [hopOf top.hop] (by simp) fuel
    ([] ++ [(src, outSide false (hopOf top.hop)), ((firstOf r x).ia, (firstOf r x).hop.cEg)])
  rw [hg1n, hg1i]
  simp only [List.map_append, List.map_cons, List.map_nil, egSeg, Bool.false_eq_true, if_false]
    at htail ⊢
  rw [htail]
  have e2 : ([] : List (Nat × Nat)) ++ [(src, outSide false (hopOf top.hop)),
      ((firstOf r x).ia, (firstOf r x).hop.cEg)] ++ upTrace r x =
      (top.ia, top.hop.cIn) :: ((firstOf r x).ia, (firstOf r x).hop.cEg) :: upTrace r x := by
    simp [outSide, hopOf, hsrc]
  rw [e2]

/-- **up segment followed by down segment, joined at a common AS** (core AS or, for shortcuts,
    any AS both segments pass through): from a host of the AS of `topU` up to the AS of `xU`,
    which is also the AS of `xD`, and down to the AS of `lastD` -/
theorem up_down_run (coreD : Bool) (tsD : Nat)
    (bU : Nat) (topU : ASE) (rU : List ASE) (xU : ASE)
    (hcU : ChainUp mac net false ts bU (topU :: (rU ++ [xU])))
    (βD : Nat) (xD : ASE) (midD : List ASE) (lastD : ASE)
    (hcD : Chain mac net coreD tsD βD (xD :: (midD ++ [lastD])))
    (hcoreD : coreD = false)
    (hjoint : xU.ia = xD.ia)
    (hsrc : src = topU.ia) (hdst : dst = lastD.ia)
    (hnd : ((topU :: (rU ++ [xU])).map (·.ia) ++ (midD ++ [lastD]).map (·.ia)).Nodup)
    (hexpU : ∀ e ∈ topU :: (rU ++ [xU]), expired now ts e.hop.exp = false)
    (hexpD : ∀ e ∈ xD :: (midD ++ [lastD]), expired now tsD e.hop.exp = false) (fuel : Nat) :
    ∃ cf, run mac net now src dst (fuel + 3 + rU.length + midD.length) src 0 .host
        ⟨[], ⟨false, false, updateSegID bU (pfx topU.hop.mac), ts⟩, [], hopOf topU.hop,
          (rU ++ [xU]).map (fun e => hopOf e.hop),
          [⟨⟨true, false, βD, tsD⟩, (xD :: (midD ++ [lastD])).map (fun e => hopOf e.hop)⟩]⟩ [] =
      .delivered dst
        (((topU.ia, topU.hop.cIn) :: ((firstOf rU xU).ia, (firstOf rU xU).hop.cEg) :: upTrace rU xU) ++
         ((xD.ia, xD.hop.cEg) :: ((firstOf midD lastD).ia, (firstOf midD lastD).hop.cIn) ::
            downTrace midD lastD)) cf := by
  subst hcoreD
  -- distinctness facts
  have hndU : ((topU :: (rU ++ [xU])).map (·.ia)).Nodup := (List.nodup_append.1 hnd).1
  obtain ⟨htx, hmidU⟩ := nd_facts topU rU xU hndU
  have hdisj := (List.nodup_append.1 hnd).2.2
  have hndD : ((midD ++ [lastD]).map (·.ia)).Nodup := (List.nodup_append.1 hnd).2.1
  have hUne : ∀ e ∈ topU :: (rU ++ [xU]), e.ia ≠ lastD.ia := by
    intro e he
    exact hdisj e.ia (List.mem_map.2 ⟨e, he, rfl⟩) lastD.ia (by simp)
  have hDne : ∀ e ∈ midD, e.ia ≠ topU.ia ∧ e.ia ≠ lastD.ia := by
    intro e he
    refine ⟨fun h => hdisj topU.ia (by simp) e.ia (List.mem_map.2 ⟨e, by simp [he], rfl⟩) h.symm, ?_⟩
    intro h
    simp only [List.map_append, List.map_cons, List.map_nil, List.nodup_append] at hndD
    exact hndD.2.2 e.ia (List.mem_map.2 ⟨e, he, rfl⟩) lastD.ia (by simp) h
  have hsd : src ≠ dst := by rw [hsrc, hdst]; exact hUne topU (by simp)
  -- first hop of the up segment
  have hne : rU ++ [xU] = firstOf rU xU :: (rU ++ [xU]).tail := by
    cases rU <;> simp [firstOf]
  have hcU' := hcU
  rw [hne] at hcU'
  simp only [ChainUp] at hcU'
  obtain ⟨hmt, hlt, _⟩ := hcU'
  obtain ⟨f1, hf1, _, hf1n, hf1i, _⟩ := hlt
  obtain ⟨_, _, g1, hg1, hg1n, hg1i, _⟩ := hWF _ _ _ hf1
  rw [hf1n, hf1i] at hg1
  have hcin0 : topU.hop.cIn ≠ 0 := (hWF _ _ _ hg1).1
  have hf1' : (net g1.nbr).iface g1.nbrIf = some f1 := by rw [hg1n, hg1i]; exact hf1
  have hdsl : ∀ s ∈ [(⟨⟨true, false, βD, tsD⟩, (xD :: (midD ++ [lastD])).map (fun e => hopOf e.hop)⟩ : Seg)], s.hops.length ≠ 1 := by
    intro s hs; simp only [List.mem_singleton] at hs; subst hs; simp
  have hstep := first_step mac net now src dst false false ts (updateSegID bU (pfx topU.hop.mac))
    (hopOf topU.hop) ((rU ++ [xU]).map fun e => hopOf e.hop) [(⟨⟨true, false, βD, tsD⟩, (xD :: (midD ++ [lastD])).map (fun e => hopOf e.hop)⟩ : Seg)] g1 hdsl (by simp) (by simp) hsd
    (by rw [hsrc]; simpa [macOk, hopOf] using hmt.1.symm)
    (by simpa [hopOf] using hexpU topU (by simp)) rfl rfl
    (by rw [hsrc]; simpa [outSide, hopOf] using hg1) (by simpa [outSide, hopOf] using hcin0)
    (hUp _ _ _ hg1) (hSR _ _ _ hg1)
  have hg1' : (net src).iface (outSide false (hopOf topU.hop)) = some g1 := by
    rw [hsrc]; simpa [outSide, hopOf] using hg1
  have h1 : fuel + 3 + rU.length + midD.length = ((fuel + 2 + midD.length) + rU.length) + 1 := by omega
  rw [h1, run_forward_ext mac net now src dst _ src 0 .host _ _ []
    (outSide false (hopOf topU.hop)) g1 f1 hstep hg1' (hSR _ _ _ hg1) hf1', hSR _ _ _ hf1, hg1n, hg1i]
  -- transit ASes of the up segment
  have hT := up_transits mac net now src dst false false ts hWF hUp hSR rU topU xU bU hcU
    (fun e he => ⟨by rw [hsrc]; exact (hmidU e he).1,
      by rw [hdst]; exact hUne e (by simp [he]), hexpU e (by simp [he])⟩)
  have hrun := run_transits hT [] [(⟨⟨true, false, βD, tsD⟩, (xD :: (midD ++ [lastD])).map (fun e => hopOf e.hop)⟩ : Seg)] (by simp) hdsl (by simp) [hopOf topU.hop] (hopOf xU.hop) []
    (fuel + 2 + midD.length) ([] ++ [(src, outSide false (hopOf topU.hop)),
      ((firstOf rU xU).ia, (firstOf rU xU).hop.cEg)]) (by simp) (by simp)
  simp only [List.length_map, egSeg, Bool.false_eq_true, if_false, List.map_append, List.map_cons,
    List.map_nil] at hrun ⊢
  rw [hrun]
  simp only [mkCur]
  -- the cross-over AS
  have hclU : ChainUp mac net false ts (extractBeta (updateSegID bU (pfx topU.hop.mac)) (sig rU)) [xU] := by
    have := chainUp_drop mac net false ts (topU :: rU) [xU] bU (by simpa using hcU)
    simpa [sig, extractBeta] using this
  simp only [ChainUp] at hclU
  obtain ⟨eL, fL, hfL, hfLlt, _, _, hxUeg⟩ := chainUp_link_last mac net false ts rU topU xU bU hcU
  have hneD : midD ++ [lastD] = firstOf midD lastD :: (midD ++ [lastD]).tail := by
    cases midD <;> simp [firstOf]
  have hcD' := hcD
  rw [hneD] at hcD'
  simp only [Chain] at hcD'
  obtain ⟨hmxD, ⟨fD, hfD, hfDlt, hfDn, hfDi, hxDeg⟩, _⟩ := hcD'
  obtain ⟨_, _, gD, hgD, _, _, _⟩ := hWF _ _ _ hfD
  have hxs : xU.ia ≠ src := by rw [hsrc]; exact Ne.symm htx
  have hxd : xU.ia ≠ dst := by rw [hdst]; exact hUne xU (by simp)
  have hxstep := xover_step mac net now src dst true ts
    (extractBeta (updateSegID bU (pfx topU.hop.mac)) (sig rU)) tsD βD xU.ia xU.hop.cEg
    (hopOf xU.hop) (hopOf xD.hop) ((midD ++ [lastD]).map fun e => hopOf e.hop) []
    ([hopOf topU.hop] ++ rU.map fun e => hopOf e.hop) [] fL fD (by simp) (by simp) (by simp) (by simp)
    hxUeg rfl hxs hxd
    (by simpa [macOk, hopOf] using hclU.1.symm)
    (by simpa [hopOf] using hexpU xU (by simp)) rfl rfl
    (by rw [hjoint]; simpa [macOk, hopOf] using hmxD.1.symm)
    (by simpa [hopOf] using hexpD xD (by simp)) rfl rfl hfL
    (by rw [hjoint]; simpa [outSide, hopOf] using hfD) (by simpa [outSide, hopOf] using hxDeg)
    (hUp _ _ _ hfD) (hSR _ _ _ hfD)
    (by rw [hfLlt, hfDlt]; rfl)
  have hfD' : (net xU.ia).iface (outSide true (hopOf xD.hop)) = some fD := by
    rw [hjoint]; simpa [outSide, hopOf] using hfD
  have h2 : fuel + 2 + midD.length = (fuel + 1 + midD.length) + 1 := by omega
  simp only [List.map_append, List.map_cons, List.map_nil, List.nil_append] at hxstep ⊢
  rw [h2, run_forward_ext mac net now src dst _ xU.ia 0 _ _ _ _
    (outSide true (hopOf xD.hop)) fD gD hxstep hfD' (hSR _ _ _ hfD) hgD, hSR _ _ _ hgD, hfDn, hfDi]
  -- the down segment
  have htail := down_tail_run mac net now src dst false tsD hWF hUp hSR xD midD lastD βD hcD hdst hsd
    (fun e he => ⟨by rw [hsrc]; exact (hDne e he).1, by rw [hdst]; exact (hDne e he).2,
      hexpD e (by simp [he])⟩)
    (hexpD lastD (by simp))
    [⟨⟨false, false, updateSegID (extractBeta (updateSegID bU (pfx topU.hop.mac)) (sig rU))
        (pfx (hopOf xU.hop).mac), ts⟩, hopOf topU.hop :: (rU.map fun e => hopOf e.hop) ++ [hopOf xU.hop]⟩]
    (by intro s hs; simp only [List.mem_singleton] at hs; subst hs; simp)
    [hopOf xD.hop] (by simp) fuel
  simp only [egSeg, if_true, List.map_append, List.map_cons, List.map_nil, List.singleton_append,
    List.cons_append, List.nil_append] at htail ⊢
  have e1 : (hopOf xD.hop).mac = xD.hop.mac := rfl
  rw [e1, htail]
  have e2 : ((src, outSide false (hopOf topU.hop)) ::
            ((firstOf rU xU).ia, (firstOf rU xU).hop.cEg) ::
              (upTrace rU xU ++
                [(xU.ia, outSide true (hopOf xD.hop)), ((firstOf midD lastD).ia, (firstOf midD lastD).hop.cIn)]) ++
          downTrace midD lastD) =
      ((topU.ia, topU.hop.cIn) :: ((firstOf rU xU).ia, (firstOf rU xU).hop.cEg) ::
        (upTrace rU xU ++ (xD.ia, xD.hop.cEg) ::
          ((firstOf midD lastD).ia, (firstOf midD lastD).hop.cIn) :: downTrace midD lastD)) := by
    simp [outSide, hopOf, hsrc, hjoint]
  exact ⟨_, by rw [e2]⟩

end

end Scion.Net
