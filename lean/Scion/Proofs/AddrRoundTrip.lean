import Scion.Proofs.AddrDigits
/-! Round trip of the AS text for a single-character separator (used by C46 and C47). -/
namespace Scion.Addr

theorem notin_toDigits (c : Char) (hc : ∀ d, d < 16 → c ≠ digitChar d) (b : Nat) (hb : 2 ≤ b)
    (hb' : b ≤ 16) (n : Nat) : c ∉ toDigits b n := by
  intro hm
  obtain ⟨d, hd, rfl⟩ := mem_toDigits b hb n c hm
  exact hc d (by omega) rfl

theorem parseAS_fmtAS (c : Char) (hc : ∀ d, d < 16 → c ≠ digitChar d) (as : Nat)
    (h : as < 2 ^ 48) : parseAS [c] (fmtAS [c] as) = .ok as := by
  have h1 : ¬ maxAS < as := by simp only [maxAS]; omega
  unfold fmtAS
  simp only [h1, if_false]
  split
  · rename_i hle
    have hlt : as < 2 ^ 32 := by simp only [maxBGPAS] at hle; omega
    unfold parseAS
    rw [split_single_notin c _ (notin_toDigits c hc 10 (by omega) (by omega) as)]
    exact parseUint_toDigits 10 32 as (by omega) (by omega) hlt
  · have e : toDigits 16 (as / 2 ^ 32 % 2 ^ 16) ++ [c] ++ toDigits 16 (as / 2 ^ 16 % 2 ^ 16) ++ [c] ++
        toDigits 16 (as % 2 ^ 16) =
        toDigits 16 (as / 2 ^ 32 % 2 ^ 16) ++ c :: (toDigits 16 (as / 2 ^ 16 % 2 ^ 16) ++ c ::
        toDigits 16 (as % 2 ^ 16)) := by simp
    unfold parseAS
    rw [e, split_single_append c _ _ (notin_toDigits c hc 16 (by omega) (by omega) _),
      split_single_append c _ _ (notin_toDigits c hc 16 (by omega) (by omega) _),
      split_single_notin c _ (notin_toDigits c hc 16 (by omega) (by omega) _)]
    simp only [asPartBase, asPartBits]
    rw [parseUint_toDigits 16 16 _ (by omega) (by omega) (Nat.mod_lt _ (by omega)),
      parseUint_toDigits 16 16 _ (by omega) (by omega) (Nat.mod_lt _ (by omega)),
      parseUint_toDigits 16 16 _ (by omega) (by omega) (Nat.mod_lt _ (by omega))]
    have hv : (as / 2 ^ 32 % 2 ^ 16 * 2 ^ 16 + as / 2 ^ 16 % 2 ^ 16) * 2 ^ 16 + as % 2 ^ 16 = as := by
      omega
    simp only [hv, h1, if_false]


theorem colon_ne_digit : ∀ d, d < 16 → ':' ≠ digitChar d := by decide
theorem dash_ne_digit : ∀ d, d < 16 → '-' ≠ digitChar d := by decide

/-- the AS text determines the AS number -/
theorem fmtAS_inj (m n : Nat) (hm : m < 2 ^ 48) (hn : n < 2 ^ 48)
    (h : fmtAS [':'] m = fmtAS [':'] n) : m = n := by
  have h1 := parseAS_fmtAS ':' colon_ne_digit m hm
  have h2 := parseAS_fmtAS ':' colon_ne_digit n hn
  rw [h, h2] at h1
  cases h1; rfl

/-- the digit string determines the number -/
theorem toDigits_inj (b : Nat) (hb : 2 ≤ b) (hb' : b ≤ 16) (m n : Nat)
    (h : toDigits b m = toDigits b n) : m = n := by
  have h1 := parseUintGo_toDigits b (m + n) hb hb' m (by omega)
  have h2 := parseUintGo_toDigits b (m + n) hb hb' n (by omega)
  rw [h, h2] at h1
  cases h1; rfl

end Scion.Addr
