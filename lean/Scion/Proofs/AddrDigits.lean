import Scion.Model.Addr
/-! Lemmas about the digit strings and the splitting functions of `Scion.Model.Addr`. -/
namespace Scion.Addr

/-! ### digits -/

theorem digitVal_digitChar : ∀ d, d < 16 → digitVal (digitChar d) = some d := by decide

theorem toDigitsFuel_acc (b : Nat) : ∀ fuel n acc,
    toDigitsFuel b fuel n acc = toDigitsFuel b fuel n [] ++ acc := by
  intro fuel
  induction fuel with
  | zero => intro n acc; simp [toDigitsFuel]
  | succ f ih =>
    intro n acc
    simp only [toDigitsFuel]
    split
    · simp
    · rw [ih (n / b) (digitChar (n % b) :: acc), ih (n / b) [digitChar (n % b)]]
      simp

theorem toDigitsFuel_fuel (b : Nat) (hb : 2 ≤ b) : ∀ f1 f2 n, n < f1 → n < f2 →
    toDigitsFuel b f1 n [] = toDigitsFuel b f2 n [] := by
  intro f1
  induction f1 with
  | zero => intro f2 n h; omega
  | succ f ih =>
    intro f2 n h1 h2
    cases f2 with
    | zero => omega
    | succ g =>
      simp only [toDigitsFuel]
      split
      · rfl
      · rename_i hnb
        have hpos : 0 < n := by omega
        have hlt : n / b < n := Nat.div_lt_self hpos (by omega)
        rw [toDigitsFuel_acc b f, toDigitsFuel_acc b g, ih g (n / b) (by omega) (by omega)]

theorem toDigits_lt (b n : Nat) (h : n < b) : toDigits b n = [digitChar n] := by
  simp [toDigits, toDigitsFuel, h]

theorem toDigits_step (b n : Nat) (hb : 2 ≤ b) (h : b ≤ n) :
    toDigits b n = toDigits b (n / b) ++ [digitChar (n % b)] := by
  have hlt : n / b < n := Nat.div_lt_self (by omega) (by omega)
  have hnb : ¬ n < b := by omega
  have e1 : toDigits b n = toDigitsFuel b n (n / b) [digitChar (n % b)] := by
    unfold toDigits
    rw [toDigitsFuel]
    simp [hnb]
  rw [e1, toDigitsFuel_acc, toDigitsFuel_fuel b hb n (n / b + 1) (n / b) hlt (by omega)]
  rfl

theorem toDigits_ne_nil (b n : Nat) : toDigits b n ≠ [] := by
  simp only [toDigits, toDigitsFuel]
  split
  · simp
  · rw [toDigitsFuel_acc]; simp

/-- every character printed in base `b` is one of the `b` digit characters -/
theorem mem_toDigits (b : Nat) (hb : 2 ≤ b) : ∀ n c, c ∈ toDigits b n → ∃ d, d < b ∧ c = digitChar d := by
  intro n
  induction n using Nat.strongRecOn with
  | _ n ih =>
    intro c hc
    by_cases h : n < b
    · rw [toDigits_lt b n h] at hc
      simp at hc
      exact ⟨n, h, hc⟩
    · rw [toDigits_step b n hb (by omega)] at hc
      simp only [List.mem_append, List.mem_singleton] at hc
      rcases hc with hc | hc
      · exact ih (n / b) (Nat.div_lt_self (by omega) (by omega)) c hc
      · exact ⟨n % b, Nat.mod_lt _ (by omega), hc⟩

/-! ### `parseUintGo` -/

theorem parseUintGo_append (b M : Nat) : ∀ s t acc,
    parseUintGo b M acc (s ++ t) =
      match parseUintGo b M acc s with
      | .error e => .error e
      | .ok v => parseUintGo b M v t := by
  intro s
  induction s with
  | nil => intro t acc; simp [parseUintGo]
  | cons c cs ih =>
    intro t acc
    simp only [List.cons_append, parseUintGo]
    split
    · rfl
    · split
      · rfl
      · split
        · rfl
        · exact ih t _

theorem parseUintGo_single (b M acc d : Nat) (hd : d < b) (hb : b ≤ 16) (hM : acc * b + d ≤ M) :
    parseUintGo b M acc [digitChar d] = .ok (acc * b + d) := by
  have h1 : ¬ b ≤ d := by omega
  have h2 : ¬ M < acc * b + d := by omega
  simp [parseUintGo, digitVal_digitChar d (by omega), h1, h2]

theorem parseUintGo_toDigits (b M : Nat) (hb : 2 ≤ b) (hb' : b ≤ 16) : ∀ n, n ≤ M →
    parseUintGo b M 0 (toDigits b n) = .ok n := by
  intro n
  induction n using Nat.strongRecOn with
  | _ n ih =>
    intro hM
    by_cases h : n < b
    · rw [toDigits_lt b n h]
      have := parseUintGo_single b M 0 n h hb' (by omega)
      simpa using this
    · have hlt : n / b < n := Nat.div_lt_self (by omega) (by omega)
      rw [toDigits_step b n hb (by omega), parseUintGo_append, ih (n / b) hlt (by omega)]
      have hdm : n / b * b + n % b = n := by
        rw [Nat.mul_comm]; exact Nat.div_add_mod n b
      have := parseUintGo_single b M (n / b) (n % b) (Nat.mod_lt _ (by omega)) hb' (by omega)
      simp only [this, hdm]

theorem parseUint_toDigits (b bits n : Nat) (hb : 2 ≤ b) (hb' : b ≤ 16) (hn : n < 2 ^ bits) :
    parseUint b bits (toDigits b n) = .ok n := by
  have hne := toDigits_ne_nil b n
  unfold parseUint
  split
  · rename_i heq; exact absurd heq hne
  · exact parseUintGo_toDigits b _ hb hb' n (by omega)

/-! ### splitting at a single character -/

theorem splitGo_single_notin (c : Char) : ∀ s, c ∉ s → splitGo [c] 0 s = [s] := by
  intro s
  induction s with
  | nil => intro _; simp [splitGo]
  | cons x xs ih =>
    intro h
    simp only [List.mem_cons, not_or] at h
    have hx : ¬ c = x := h.1
    simp [splitGo, List.isPrefixOf, hx, ih h.2, consHead]

theorem splitGo_single_append (c : Char) : ∀ a rest, c ∉ a →
    splitGo [c] 0 (a ++ c :: rest) = a :: splitGo [c] 0 rest := by
  intro a
  induction a with
  | nil => intro rest _; simp [splitGo, List.isPrefixOf]
  | cons x xs ih =>
    intro rest h
    simp only [List.mem_cons, not_or] at h
    have hx : ¬ c = x := h.1
    simp [splitGo, List.isPrefixOf, hx, ih rest h.2, consHead]

theorem split_single_notin (c : Char) (s : Str) (h : c ∉ s) : split [c] s = [s] := by
  simp [split, splitGo_single_notin c s h]

theorem split_single_append (c : Char) (a rest : Str) (h : c ∉ a) :
    split [c] (a ++ c :: rest) = a :: split [c] rest := by
  simp [split, splitGo_single_append c a rest h]

end Scion.Addr
