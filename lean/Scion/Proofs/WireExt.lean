import Scion.Model.WireExt
import Scion.Proofs.Wire
/-! Helper lemmas for C18: extension headers, TLV options, L4 headers. -/
namespace Scion.WireExt
open Scion.Util Scion.Wire

theorem length_encOpt_pos (o : Opt) : 0 < (encOpt o).length := by
  unfold encOpt; split <;> simp

theorem encOpt_wf (o : Opt) (h : o.WF) :
    encOpt o = if o.typ = 0 then [0] else UInt8.ofNat o.typ :: UInt8.ofNat o.data.length :: o.data := by
  obtain ⟨_, h2, h3, _, _, _⟩ := h
  unfold encOpt
  split
  · rfl
  · rw [h2, Nat.mod_eq_of_lt h3, fit_eq _ _ rfl]

/-- value → bytes → value for option lists (any sufficient fuel) -/
theorem decOpts_encOpts (os : List Opt) (hw : ∀ o ∈ os, o.WF) (f : Nat)
    (hf : (encOpts os).length ≤ f) : decOpts f (encOpts os) = .ok os := by
  induction os generalizing f with
  | nil => cases f <;> simp [encOpts, decOpts]
  | cons o os ih =>
    have ho := hw o (by simp)
    have hos : ∀ o' ∈ os, o'.WF := fun o' h' => hw o' (by simp [h'])
    have hlen : (encOpts (o :: os)).length = (encOpt o).length + (encOpts os).length := by
      simp [encOpts]
    obtain ⟨h1, h2, h3, h4, h5, h6⟩ := ho
    have he := encOpt_wf o ⟨h1, h2, h3, h4, h5, h6⟩
    have hpos := length_encOpt_pos o
    cases f with
    | zero => omega
    | succ f =>
      show decOpts (f + 1) (encOpt o ++ encOpts os) = _
      rw [he]
      by_cases ht : o.typ = 0
      · simp only [ht, if_true, List.cons_append, List.nil_append, decOpts]
        rw [he, if_pos ht] at hlen
        simp only [List.length_cons, List.length_nil] at hlen
        rw [ih hos f (by omega)]
        have : o = ⟨0, 0, [], 0, 0⟩ := by
          cases o; simp only at *; simp_all
        simp [this]
      · simp only [ht, if_false, List.cons_append, decOpts]
        have hne : UInt8.ofNat o.typ ≠ 0 := by
          intro hc
          have := congrArg UInt8.toNat hc
          simp at this; omega
        rw [if_neg hne]
        simp only [UInt8.toNat_ofNat', Nat.mod_eq_of_lt h3]
        rw [if_neg (by simp), takeN_append]
        simp only
        rw [he, if_neg ht] at hlen
        simp only [List.length_cons] at hlen
        rw [ih hos f (by omega)]
        have : o = ⟨o.typ, o.data.length, o.data, 0, 0⟩ := by
          cases o; simp only at *; simp_all
        simp only [Nat.mod_eq_of_lt h1]
        rw [← this]

/-- bytes → value → bytes for option lists: exact (options have no reserved bits) -/
theorem encOpts_decOpts (f : Nat) (body : Bytes) (os : List Opt) (h : decOpts f body = .ok os) :
    encOpts os = body ∧ ∀ o ∈ os, o.WF := by
  induction f generalizing body os with
  | zero =>
    cases body with
    | nil => simp [decOpts] at h; subst h; simp [encOpts]
    | cons a r => simp [decOpts] at h
  | succ f ih =>
    cases body with
    | nil => simp [decOpts] at h; subst h; simp [encOpts]
    | cons t rest =>
      simp only [decOpts] at h
      split at h
      · rename_i ht
        split at h
        · rename_i os' hos
          cases h
          obtain ⟨e, w⟩ := ih rest os' hos
          refine ⟨?_, ?_⟩
          · simp [encOpts, encOpt] at e ⊢; subst ht; simp [e]
          · intro o ho
            simp at ho
            rcases ho with rfl | ho
            · simp [Opt.WF]
            · exact w o ho
        · cases h
      · rename_i ht
        split at h
        · cases h
        · rename_i l rest2
          split at h
          · cases h
          · split at h
            · cases h
            · rename_i d r htk
              obtain ⟨e1, l1⟩ := takeN_eq_some htk
              split at h
              · rename_i os' hos
                cases h
                obtain ⟨e, w⟩ := ih r os' hos
                have hl := l.toNat_lt
                have htl := t.toNat_lt
                refine ⟨?_, ?_⟩
                · have hne : ¬ t.toNat = 0 := by
                    intro hc; apply ht; exact UInt8.toNat_inj.mp (by simpa using hc)
                  simp only [encOpts, List.map_cons, List.flatten_cons, encOpt, hne, if_false,
                    UInt8.ofNat_toNat]
                  rw [Nat.mod_eq_of_lt (by omega), fit_eq _ _ l1]
                  simp only [encOpts] at e
                  rw [e, e1]
                  simp
                · intro o ho
                  simp at ho
                  rcases ho with rfl | ho
                  · refine ⟨htl, l1.symm, by show d.length < 256; omega, ?_, rfl, rfl⟩
                    intro hc
                    exfalso; apply ht; exact UInt8.toNat_inj.mp (by simpa using hc)
                  · exact w o ho
              · cases h

theorem decOpts_ne_panic (f : Nat) (body : Bytes) (hf : body.length ≤ f) :
    decOpts f body ≠ .error .panic := by
  induction f generalizing body with
  | zero =>
    cases body with
    | nil => simp [decOpts]
    | cons a r => simp at hf
  | succ f ih =>
    cases body with
    | nil => simp [decOpts]
    | cons t rest =>
      simp only [List.length_cons] at hf
      simp only [decOpts]
      split
      · have := ih rest (by omega)
        split
        · simp
        · rename_i e he; intro hc; cases hc; exact this he
      · split
        · simp
        · rename_i l rest2
          split
          · simp
          · rename_i hlen
            split
            · rename_i htk; exact absurd htk (takeN_ne_none (by omega))
            · rename_i d r htk
              obtain ⟨e1, l1⟩ := takeN_eq_some htk
              have hr : r.length ≤ f := by
                have : rest2.length = d.length + r.length := by rw [e1]; simp
                simp only [List.length_cons] at hf
                omega
              have := ih r hr
              split
              · simp
              · rename_i e he; intro hc; cases hc; exact this he

theorem decExtBase_ok {data : Bytes} {b : ExtBase} {body payload : Bytes}
    (h : decExtBase data = .ok (b, body, payload)) :
    data = UInt8.ofNat b.nextHdr :: UInt8.ofNat b.extLen :: (body ++ payload) ∧
      body.length + 2 = (b.extLen + 1) * 4 ∧ b.nextHdr < 256 ∧ b.extLen < 256 := by
  unfold decExtBase at h
  split at h
  · rename_i nh el rest
    split at h
    · cases h
    · split at h
      · cases h
      · rename_i bd pl htk
        obtain ⟨e1, l1⟩ := takeN_eq_some htk
        cases h
        refine ⟨?_, ?_, nh.toNat_lt, el.toNat_lt⟩
        · simp [e1]
        · simp only; omega
  · cases h

theorem decExtBase_enc (nh el : Nat) (body payload : Bytes) (h1 : nh < 256) (h2 : el < 256)
    (hl : body.length + 2 = (el + 1) * 4) :
    decExtBase (UInt8.ofNat nh :: UInt8.ofNat el :: (body ++ payload)) = .ok (⟨nh, el⟩, body, payload) := by
  unfold decExtBase
  simp only [UInt8.toNat_ofNat', Nat.mod_eq_of_lt h1, Nat.mod_eq_of_lt h2, List.length_cons,
    List.length_append]
  rw [if_neg (by omega)]
  have : (el + 1) * 4 - 2 = body.length := by omega
  rw [this, takeN_append]

theorem decExtBase_ne_panic (data : Bytes) : decExtBase data ≠ .error .panic := by
  unfold decExtBase
  split
  · rename_i nh el rest
    split
    · simp
    · rename_i hlen
      simp only [List.length_cons] at hlen
      split
      · rename_i htk; exact absurd htk (takeN_ne_none (by omega))
      · simp
  · simp

/-- decoding an extension header (HBH when `chk = hbhChk`, E2E when `e2eChk`) and re-serializing
it reproduces the bytes -/
theorem encExt_dec (chk : Nat → Bool) (data : Bytes) (b : ExtBase) (body payload : Bytes)
    (os : List Opt) (hb : decExtBase data = .ok (b, body, payload)) (hc : chk b.nextHdr = false)
    (ho : decOpts body.length body = .ok os) :
    Ext.WF ⟨b, os⟩ ∧ ∃ bytes, encExt chk false ⟨b, os⟩ = .ok bytes ∧ bytes ++ payload = data := by
  obtain ⟨hd, hl, h1, h2⟩ := decExtBase_ok hb
  obtain ⟨he, hw⟩ := encOpts_decOpts _ _ _ ho
  refine ⟨⟨h1, h2, hw, by rw [he]; exact hl⟩, ?_⟩
  unfold encExt
  simp only [hc, Bool.false_eq_true, if_false, he]
  rw [if_neg (by omega)]
  exact ⟨_, rfl, by rw [hd]; simp⟩

theorem decExt_enc (chk : Nat → Bool) (e : Ext) (payload : Bytes) (hw : e.WF)
    (hc : chk e.base.nextHdr = false) :
    ∃ bytes, encExt chk false e = .ok bytes ∧
      decExtBase (bytes ++ payload) = .ok (e.base, encOpts e.opts, payload) ∧
      decOpts (encOpts e.opts).length (encOpts e.opts) = .ok e.opts := by
  obtain ⟨h1, h2, ho, hl⟩ := hw
  unfold encExt
  simp only [hc, Bool.false_eq_true, if_false]
  rw [if_neg (by omega)]
  refine ⟨_, rfl, ?_, decOpts_encOpts _ ho _ (Nat.le_refl _)⟩
  simp only [List.cons_append]
  exact decExtBase_enc _ _ _ _ h1 h2 hl

/-- with enough fuel the option loop does not depend on the fuel -/
theorem decOpts_fuel (f g : Nat) (l : Bytes) (hf : l.length ≤ f) (hg : l.length ≤ g) :
    decOpts f l = decOpts g l := by
  induction f generalizing g l with
  | zero =>
    have : l = [] := List.eq_nil_of_length_eq_zero (by omega)
    subst this
    cases g <;> simp [decOpts]
  | succ f ih =>
    cases l with
    | nil => cases g <;> simp [decOpts]
    | cons t rest =>
      cases g with
      | zero => simp at hg
      | succ g =>
        simp only [List.length_cons] at hf hg
        simp only [decOpts]
        split
        · rw [ih g rest (by omega) (by omega)]
        · split
          · rfl
          · rename_i l' rest2
            simp only [List.length_cons] at hf hg
            split
            · rfl
            · split
              · rfl
              · rename_i d r htk
                obtain ⟨e1, l1⟩ := takeN_eq_some htk
                have : r.length ≤ rest2.length := by rw [e1]; simp
                rw [ih g r (by omega) (by omega)]

/-- a byte string that is a complete sequence of options, followed by another one -/
theorem decOpts_append (a b : Bytes) (x y : List Opt) (f1 f2 f : Nat)
    (h1 : decOpts f1 a = .ok x) (hf1 : a.length ≤ f1)
    (h2 : decOpts f2 b = .ok y) (hf2 : b.length ≤ f2) (hf : (a ++ b).length ≤ f) :
    decOpts f (a ++ b) = .ok (x ++ y) := by
  induction f1 generalizing a x f with
  | zero =>
    have : a = [] := List.eq_nil_of_length_eq_zero (by omega)
    subst this
    simp [decOpts] at h1
    subst h1
    simp only [List.nil_append] at hf ⊢
    rw [decOpts_fuel f f2 b hf hf2, h2]
  | succ f1 ih =>
    cases a with
    | nil =>
      simp [decOpts] at h1
      subst h1
      simp only [List.nil_append] at hf ⊢
      rw [decOpts_fuel f f2 b hf hf2, h2]
    | cons t rest =>
      simp only [List.length_cons, List.cons_append, List.length_append] at hf hf1
      cases f with
      | zero => omega
      | succ f =>
        simp only [decOpts] at h1
        simp only [List.cons_append, decOpts]
        split at h1
        · rename_i ht
          split at h1
          · rename_i os hos
            cases h1
            rw [if_pos ht, ih rest os f hos (by omega) (by simp; omega)]
            rfl
          · cases h1
        · rename_i ht
          rw [if_neg ht]
          split at h1
          · cases h1
          · rename_i l' rest2
            simp only [List.length_cons] at hf hf1
            split at h1
            · cases h1
            · rename_i hlen
              split at h1
              · cases h1
              · rename_i d r htk
                obtain ⟨e1, l1⟩ := takeN_eq_some htk
                split at h1
                · rename_i os hos
                  cases h1
                  simp only [List.cons_append]
                  rw [if_neg (by simp; omega)]
                  have hr : r.length ≤ rest2.length := by rw [e1]; simp
                  have : takeN l'.toNat (rest2 ++ b) = some (d, r ++ b) := by
                    rw [e1, List.append_assoc]; exact takeN_append' _ _ _ l1
                  rw [this]
                  simp only
                  rw [ih r os f hos (by omega) (by simp; omega)]
                · cases h1

/-- the padding the serializer inserts decodes to padding options only -/
theorem decOpts_padBytes (n : Nat) (hn : n ≤ 257) :
    ∃ ps, decOpts (padBytes n).length (padBytes n) = .ok ps ∧ contents ps = [] ∧
      (padBytes n).length = n := by
  unfold padBytes
  split
  · rename_i h0; subst h0; exact ⟨[], by simp [decOpts], rfl, rfl⟩
  · split
    · rename_i h1; subst h1
      exact ⟨[⟨0, 0, [], 0, 0⟩], by simp [decOpts], by simp [contents, Opt.isPad], rfl⟩
    · rename_i h0 h1
      have hm : (n - 2) % 256 = n - 2 := Nat.mod_eq_of_lt (by omega)
      refine ⟨[⟨1, n - 2, List.replicate (n - 2) 0, 0, 0⟩], ?_, by simp [contents, Opt.isPad], ?_⟩
      · rw [hm]
        simp only [List.length_cons, List.length_replicate, decOpts]
        rw [if_neg (by decide)]
        simp only [UInt8.toNat_ofNat', hm, List.length_replicate]
        have : takeN (n - 2) (List.replicate (n - 2) (0 : UInt8)) = some (List.replicate (n - 2) 0, []) := by
          have := takeN_append' (n - 2) (List.replicate (n - 2) (0 : UInt8)) [] (by simp)
          simpa using this
        rw [this]
        simp only
        cases (n - 2) <;> simp [decOpts]
      · rw [hm]; simp; omega

/-- one option as the `fixLengths` serializer writes it decodes to itself (content-wise) -/
theorem decOpts_optBytes (o : Opt) (h : o.FixWF) :
    let ob := if o.typ = 0 then [0] else UInt8.ofNat o.typ :: UInt8.ofNat o.data.length :: o.data
    ∃ p, decOpts ob.length ob = .ok [p] ∧ contents [p] = contents [o] := by
  obtain ⟨h1, h2, h3, _⟩ := h
  by_cases ht : o.typ = 0
  · simp only [ht, if_true]
    refine ⟨⟨0, 0, [], 0, 0⟩, by simp [decOpts], ?_⟩
    simp [contents, Opt.isPad, ht]
  · simp only [ht, if_false]
    refine ⟨⟨o.typ, o.data.length, o.data, 0, 0⟩, ?_, ?_⟩
    · simp only [List.length_cons, decOpts]
      have hne : UInt8.ofNat o.typ ≠ 0 := by
        intro hc
        have := congrArg UInt8.toNat hc
        simp at this; omega
      rw [if_neg hne]
      simp only [UInt8.toNat_ofNat', Nat.mod_eq_of_lt h2, Nat.mod_eq_of_lt h1]
      rw [if_neg (by omega)]
      have : takeN o.data.length o.data = some (o.data, []) := by
        have := takeN_append o.data []
        simpa using this
      rw [this]
      simp only
      cases o.data.length <;> simp [decOpts]
    · by_cases h1' : o.typ = 1 <;> simp [contents, Opt.isPad, Opt.content, ht, h1']

theorem contents_append (a b : List Opt) : contents (a ++ b) = contents a ++ contents b := by
  simp [contents]

/-- the alignment padding is shorter than the alignment unit -/
theorem pad_lt (len x y : Nat) (hx : x ≠ 0) (hy : y < x) :
    (let offset := x * (len / x) + y
     let offset := if offset < len then offset + x else offset
     offset - len) < x ∧
    (let offset := x * (len / x) + y
     let offset := if offset < len then offset + x else offset
     (len + (offset - len)) % x = y) := by
  have h1 := Nat.div_add_mod len x
  have h2 := Nat.mod_lt len (Nat.pos_of_ne_zero hx)
  simp only
  split
  · constructor
    · omega
    · have : len + (x * (len / x) + y + x - len) = x * (len / x + 1) + y := by
        rw [Nat.mul_add]; omega
      rw [this, Nat.mul_add_mod]; exact Nat.mod_eq_of_lt hy
  · constructor
    · omega
    · have : len + (x * (len / x) + y - len) = x * (len / x) + y := by omega
      rw [this, Nat.mul_add_mod]; exact Nat.mod_eq_of_lt hy

/-- **FixLengths serialization of an option list**: the bytes decode, the decoded options are
the given ones plus padding options only, and `length` + bytes is a multiple of 4. -/
theorem decOpts_encOptsFix (os : List Opt) (hw : ∀ o ∈ os, o.FixWF) (len : Nat) :
    ∃ ds, decOpts (encOptsFix len os).length (encOptsFix len os) = .ok ds ∧
      contents ds = contents os ∧ (len + (encOptsFix len os).length) % 4 = 0 := by
  induction os generalizing len with
  | nil =>
    simp only [encOptsFix]
    split
    · rename_i hm
      obtain ⟨ps, hp, hc, hl⟩ := decOpts_padBytes (4 - len % 4) (by omega)
      exact ⟨ps, hp, by rw [hc]; rfl, by rw [hl]; omega⟩
    · rename_i hm
      exact ⟨[], by simp [decOpts], rfl, by simp; omega⟩
  | cons o os ih =>
    have ho := hw o (by simp)
    have hos : ∀ o' ∈ os, o'.FixWF := fun o' h' => hw o' (by simp [h'])
    obtain ⟨h1, h2, h3, h4⟩ := ho
    simp only [encOptsFix]
    generalize hpad : (if o.alignX ≠ 0 then
        (if o.alignX * (len / o.alignX) + o.alignY < len then
          o.alignX * (len / o.alignX) + o.alignY + o.alignX
        else o.alignX * (len / o.alignX) + o.alignY) - len else 0) = pad
    have hpl : pad ≤ 257 := by
      rcases h4 with h4 | ⟨h4, h5⟩
      · simp [h4] at hpad; omega
      · have hx : o.alignX ≠ 0 := by omega
        have := (pad_lt len o.alignX o.alignY hx h4).1
        simp only at this
        rw [if_pos hx] at hpad
        omega
    generalize hob : (if o.typ = 0 then [0]
      else UInt8.ofNat o.typ :: UInt8.ofNat o.data.length :: o.data) = ob
    obtain ⟨ps, hp, hpc, hpl'⟩ := decOpts_padBytes pad hpl
    obtain ⟨p, hpo, hpoc⟩ := decOpts_optBytes o ⟨h1, h2, h3, h4⟩
    simp only [hob] at hpo
    obtain ⟨ds, hd, hdc, hdl⟩ := ih hos (len + pad + ob.length)
    have s1 := decOpts_append (padBytes pad) ob ps [p] _ _ (padBytes pad ++ ob).length hp
      (Nat.le_refl _) hpo (Nat.le_refl _) (Nat.le_refl _)
    have s2 := decOpts_append (padBytes pad ++ ob) (encOptsFix (len + pad + ob.length) os) (ps ++ [p]) ds
      _ _ (padBytes pad ++ ob ++ encOptsFix (len + pad + ob.length) os).length s1 (Nat.le_refl _) hd
      (Nat.le_refl _) (Nat.le_refl _)
    refine ⟨ps ++ [p] ++ ds, s2, ?_, ?_⟩
    · rw [contents_append, contents_append, hpc, hpoc, hdc]
      show contents [o] ++ contents os = contents (o :: os)
      rw [← contents_append]; rfl
    · simp only [List.length_append, hpl']
      have : len + (pad + ob.length + (encOptsFix (len + pad + ob.length) os).length) =
          len + pad + ob.length + (encOptsFix (len + pad + ob.length) os).length := by omega
      rw [this]; exact hdl

theorem decExt_ne_panic (chk : Nat → Bool) (data : Bytes) : decExt chk data ≠ .error .panic := by
  unfold decExt
  have h1 := decExtBase_ne_panic data
  split
  · rename_i e he; intro hc; cases hc; exact h1 he
  · rename_i b body payload hb
    split
    · simp
    · have h2 := decOpts_ne_panic body.length body (Nat.le_refl _)
      split
      · rename_i e he; intro hc; cases hc; exact h2 he
      · simp

theorem decExt_serialize (chk : Nat → Bool) (e : Ext) (payload : Bytes) (hw : e.WF)
    (hc : chk e.base.nextHdr = false) :
    ∃ bytes, encExt chk false e = .ok bytes ∧ decExt chk (bytes ++ payload) = .ok (e, payload) := by
  obtain ⟨bytes, h1, h2, h3⟩ := decExt_enc chk e payload hw hc
  refine ⟨bytes, h1, ?_⟩
  unfold decExt
  rw [h2]
  simp only [hc, Bool.false_eq_true, if_false, h3]

theorem serialize_decExt (chk : Nat → Bool) (data : Bytes) (x : Ext) (payload : Bytes)
    (h : decExt chk data = .ok (x, payload)) :
    x.WF ∧ ∃ bytes, encExt chk false x = .ok bytes ∧ bytes ++ payload = data := by
  unfold decExt at h
  split at h
  · cases h
  · rename_i b body pl hb
    split at h
    · cases h
    · rename_i hc
      split at h
      · cases h
      · rename_i os ho
        cases h
        exact encExt_dec chk data b body payload os hb (by simpa using hc) ho

/-- FixLengths serialization of an extension header: decodes again, to the same `NextHdr` and the
same options plus padding options -/
theorem decExt_serialize_fix (chk : Nat → Bool) (nh el : Nat) (os : List Opt) (payload : Bytes)
    (hnh : nh < 256) (hw : ∀ o ∈ os, o.FixWF) (hc : chk nh = false)
    (hlen : (encOptsFix 2 os).length + 2 ≤ 1024) :
    ∃ bytes x, encExt chk true ⟨⟨nh, el⟩, os⟩ = .ok bytes ∧ bytes.length % 4 = 0 ∧
      decExt chk (bytes ++ payload) = .ok (x, payload) ∧ x.base.nextHdr = nh ∧
      contents x.opts = contents os ∧ (x.base.extLen + 1) * 4 = bytes.length := by
  obtain ⟨ds, hd, hcont, hmod⟩ := decOpts_encOptsFix os hw 2
  have hm : ((encOptsFix 2 os).length + 2) % 4 = 0 := by omega
  have hel : ((encOptsFix 2 os).length + 2) / 4 - 1 < 256 := by omega
  have hpos : 4 ≤ (encOptsFix 2 os).length + 2 := by omega
  refine ⟨UInt8.ofNat nh :: UInt8.ofNat (((encOptsFix 2 os).length + 2) / 4 - 1) :: encOptsFix 2 os,
    ⟨⟨nh, ((encOptsFix 2 os).length + 2) / 4 - 1⟩, ds⟩, ?_, ?_, ?_, rfl, hcont, ?_⟩
  · unfold encExt
    simp only [hc, Bool.false_eq_true, if_false, if_true]
    rw [if_neg (by omega)]
  · simp only [List.length_cons]; omega
  · unfold decExt
    simp only [List.cons_append]
    rw [decExtBase_enc nh _ (encOptsFix 2 os) payload hnh hel (by omega)]
    simp only [hc, Bool.false_eq_true, if_false, hd]
  · simp only [List.length_cons]; omega

/-! ### UDP / SCMP headers -/


theorem decUDP_enc (u : UDP) (pl : Bytes) (hw : u.WF) (hl : u.length = 8 + pl.length) :
    decUDP (encUDP u ++ pl) = .ok (u, pl) := by
  obtain ⟨h1, h2, h3, h4⟩ := hw
  have e1 := beNat_natBE2 u.srcPort
  have e2 := beNat_natBE2 u.dstPort
  have e3 := beNat_natBE2 u.length
  have e4 := beNat_natBE2 u.checksum
  simp only [natBE] at e1 e2 e3 e4
  simp only [encUDP, natBE, List.cons_append, List.nil_append, decUDP]
  rw [e1, e2, e3, e4, Nat.mod_eq_of_lt h1, Nat.mod_eq_of_lt h2, Nat.mod_eq_of_lt h3,
    Nat.mod_eq_of_lt h4]
  rw [if_pos (by omega)]
  have : u.length - 8 = pl.length := by omega
  rw [this]
  simp

theorem encUDP_dec (data : Bytes) (u : UDP) (pl : Bytes) (h : decUDP data = .ok (u, pl)) :
    u.WF ∧ encUDP u = data.take 8 ∧ 8 ≤ data.length := by
  match data, h with
  | s0 :: s1 :: d0 :: d1 :: l0 :: l1 :: c0 :: c1 :: rest, h =>
    have hu : UDP.WF ⟨beNat [s0, s1], beNat [d0, d1], beNat [l0, l1], beNat [c0, c1]⟩ :=
      ⟨beNat2_lt _ _, beNat2_lt _ _, beNat2_lt _ _, beNat2_lt _ _⟩
    have he : encUDP ⟨beNat [s0, s1], beNat [d0, d1], beNat [l0, l1], beNat [c0, c1]⟩ =
        [s0, s1, d0, d1, l0, l1, c0, c1] := by
      simp only [encUDP, natBE_beNat2]; rfl
    have hu' : u = ⟨beNat [s0, s1], beNat [d0, d1], beNat [l0, l1], beNat [c0, c1]⟩ := by
      simp only [decUDP] at h
      split at h
      · cases h; rfl
      · split at h
        · cases h; rfl
        · cases h
    subst hu'
    exact ⟨hu, by rw [he]; rfl, by simp⟩


theorem decSCMP_enc (h : SCMPHdr) (pl : Bytes) (hw : h.WF) : decSCMP (encSCMP h ++ pl) = .ok (h, pl) := by
  obtain ⟨h1, h2, h3⟩ := hw
  have e := beNat_natBE2 h.checksum
  simp only [natBE] at e
  simp only [encSCMP, natBE, List.cons_append, List.nil_append, decSCMP]
  rw [e, Nat.mod_eq_of_lt h3]
  simp [Nat.mod_eq_of_lt h1, Nat.mod_eq_of_lt h2]

theorem encSCMP_dec (data : Bytes) (h : SCMPHdr) (pl : Bytes) (hd : decSCMP data = .ok (h, pl)) :
    h.WF ∧ encSCMP h ++ pl = data := by
  unfold decSCMP at hd
  split at hd
  · rename_i t c k0 k1 rest
    cases hd
    refine ⟨⟨t.toNat_lt, c.toNat_lt, beNat2_lt _ _⟩, ?_⟩
    simp only [encSCMP, natBE_beNat2, UInt8.ofNat_toNat]
    rfl
  · cases hd

/-! ### SPAO option views; alignment invariant -/

theorem beNat_natBE6' (n : Nat) : beNat (natBE 6 n) = n % 2^48 := by
  simp [beNat, natBE]; omega

theorem natBE_beNat6 (a b c d e f : UInt8) : natBE 6 (beNat [a,b,c,d,e,f]) = [a,b,c,d,e,f] := by
  have := a.toNat_lt; have := b.toNat_lt; have := c.toNat_lt; have := d.toNat_lt
  have := e.toNat_lt; have := f.toNat_lt
  simp [beNat, natBE]
  bytes_eq

theorem beNat6_lt (a b c d e f : UInt8) : beNat [a,b,c,d,e,f] < 2^48 := by
  have := a.toNat_lt; have := b.toNat_lt; have := c.toNat_lt; have := d.toNat_lt
  have := e.toNat_lt; have := f.toNat_lt
  simp [beNat]; omega

/-- params → option → params -/
theorem parseAuthOpt_enc (p : AuthParams) (hw : p.WF) :
    ∃ o, encAuthOpt p = .ok o ∧ parseAuthOpt o = .ok p ∧ o.FixWF ∧ o.data.length = 12 + p.auth.length := by
  obtain ⟨h1, h2, h3, h4⟩ := hw
  unfold encAuthOpt
  rw [if_neg (by omega)]
  refine ⟨_, rfl, ?_, ?_, ?_⟩
  · have e1 := beNat_natBE4 p.spi
    have e2 := beNat_natBE6' p.ts
    simp only [natBE] at e1 e2
    simp only [parseAuthOpt, natBE, List.cons_append, List.nil_append, ne_eq, not_true_eq_false,
      if_false]
    rw [e1, e2, Nat.mod_eq_of_lt h1, Nat.mod_eq_of_lt h3]
    simp [Nat.mod_eq_of_lt h2]
  · refine ⟨by show 2 < 256; omega, ?_, by simp, Or.inr ⟨by show 2 < 4; omega, by show 4 < 256; omega⟩⟩
    simp [length_natBE]; omega
  · simp [length_natBE]; omega

/-- option → params → option: reproduces the option data except the reserved byte (index 5) -/
theorem encAuthOpt_parse (o : Opt) (p : AuthParams) (hl : o.data.length < 256)
    (h : parseAuthOpt o = .ok p) :
    p.WF ∧ ∃ o', encAuthOpt p = .ok o' ∧ o'.typ = o.typ ∧ o'.data = clr 5 0 o.data ∧
      o'.dataLen = o.data.length := by
  unfold parseAuthOpt at h
  split at h
  · cases h
  · rename_i ht
    split at h
    · rename_i s0 s1 s2 s3 a r t0 t1 t2 t3 t4 t5 auth hd
      cases h
      rw [hd] at hl
      simp only [List.length_cons] at hl
      have hts := beNat6_lt t0 t1 t2 t3 t4 t5
      refine ⟨⟨beNat4_lt _ _ _ _, a.toNat_lt, hts, by show auth.length ≤ 243; omega⟩, ?_⟩
      unfold encAuthOpt
      rw [if_neg (by simp only; omega)]
      refine ⟨_, rfl, by simp only; omega, ?_, ?_⟩
      · simp only [natBE_beNat4, natBE_beNat6, UInt8.ofNat_toNat, hd]
        simp [clr, keepLow_zero]
      · simp only [hd, List.length_cons]; omega
    · cases h

/-- **Alignment invariant of `serializeTLVOptions(fixLengths)`**: every option of the list is
found in the serialized bytes at an offset (counted from the start of the extension header, i.e.
`len` = 2 for the first) that satisfies its alignment request `offset ≡ y (mod x)`. -/
theorem encOptsFix_aligned (os : List Opt) (hw : ∀ o ∈ os, o.FixWF) (len : Nat) (i : Nat)
    (hi : i < os.length) :
    ∃ pre post, encOptsFix len os = pre ++ optBytes os[i] ++ post ∧
      (os[i].alignX ≠ 0 → (len + pre.length) % os[i].alignX = os[i].alignY) := by
  induction os generalizing len i with
  | nil => simp at hi
  | cons o os ih =>
    have ho := hw o (by simp)
    have hos : ∀ o' ∈ os, o'.FixWF := fun o' h' => hw o' (by simp [h'])
    obtain ⟨h1, h2, h3, h4⟩ := ho
    simp only [encOptsFix]
    generalize hpad : (if o.alignX ≠ 0 then
        (if o.alignX * (len / o.alignX) + o.alignY < len then
          o.alignX * (len / o.alignX) + o.alignY + o.alignX
        else o.alignX * (len / o.alignX) + o.alignY) - len else 0) = pad
    have hob : (if o.typ = 0 then [0]
      else UInt8.ofNat o.typ :: UInt8.ofNat o.data.length :: o.data) = optBytes o := rfl
    rw [hob]
    have hpl : pad ≤ 257 ∧ (o.alignX ≠ 0 → (len + pad) % o.alignX = o.alignY) := by
      rcases h4 with h4 | ⟨h4, h5⟩
      · simp [h4] at hpad; exact ⟨by omega, fun hx => absurd h4 hx⟩
      · have hx : o.alignX ≠ 0 := by omega
        have := pad_lt len o.alignX o.alignY hx h4
        simp only at this
        rw [if_pos hx] at hpad
        rw [hpad] at this
        exact ⟨by omega, fun _ => this.2⟩
    obtain ⟨_, _, _, hplen⟩ := decOpts_padBytes pad hpl.1
    cases i with
    | zero =>
      refine ⟨padBytes pad, encOptsFix (len + pad + (optBytes o).length) os, by simp, ?_⟩
      intro hx
      rw [hplen]
      exact hpl.2 hx
    | succ j =>
      simp only [List.length_cons] at hi
      obtain ⟨pre, post, he, ha⟩ := ih hos (len + pad + (optBytes o).length) j (by omega)
      refine ⟨padBytes pad ++ optBytes o ++ pre, post, ?_, ?_⟩
      · simp only [List.getElem_cons_succ]
        rw [he]; simp
      · simp only [List.getElem_cons_succ]
        intro hx
        have := ha hx
        simp only [List.length_append, hplen]
        rw [show len + (pad + (optBytes o).length + pre.length) =
          len + pad + (optBytes o).length + pre.length by omega]
        exact this

end Scion.WireExt
