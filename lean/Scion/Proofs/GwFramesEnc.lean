import Scion.Model.GwFrames
import Scion.Proofs.GwFramesScan
/-! C41 helper lemmas, part 2: the shape of the frames the sender produces.  Every frame is
either a *middle* frame (a full slice of the packet in progress) or a *general* frame
(rest of the packet in progress ++ complete valid packets ++ head of the next valid packet). -/
namespace Scion.Proofs.GwFrames
open Scion.GwFrames Scion.Util

/-! ### `fill` -/

def resOf (h : Bytes) : Option Bytes → Bytes
  | none => []
  | some p => p.drop h.length

def idxOf (idx : Option Nat) (pl : Bytes) (qs : List Bytes) (cur : Option Bytes) : Option Nat :=
  match idx with
  | some i => some i
  | none => if qs = [] ∧ cur = none then none else some pl.length

theorem fill_cons (mtu : Nat) (p : Bytes) (q : List Bytes) (sched : List Bool) (pl : Bytes)
    (idx : Option Nat) :
    fill mtu (p :: q) sched pl idx =
      if mtu - (hdrLen + pl.length) < 40 then ⟨pl, idx, [], p :: q, sched, false⟩
      else
        match ringRead pl.isEmpty sched with
        | (false, sched') => ⟨pl, idx, [], p :: q, sched', false⟩
        | (true, sched') =>
          if !validPkt p then fill mtu q sched' pl idx
          else
            if (p.drop (min (mtu - (hdrLen + pl.length)) p.length)).isEmpty then
              fill mtu q sched' (pl ++ p.take (min (mtu - (hdrLen + pl.length)) p.length))
                (setIndex idx pl.length)
            else ⟨pl ++ p.take (min (mtu - (hdrLen + pl.length)) p.length), setIndex idx pl.length,
                  p.drop (min (mtu - (hdrLen + pl.length)) p.length), q, sched', false⟩ := by
  rw [fill.eq_def]
  rfl

structure FillSpec (mtu : Nat) (q : List Bytes) (sched : List Bool) (pl : Bytes) (idx : Option Nat)
    (qs : List Bytes) (h : Bytes) (cur : Option Bytes) : Prop where
  payload : (fill mtu q sched pl idx).payload = pl ++ qs.flatten ++ h
  valid : ∀ x ∈ qs, validPkt x = true
  head : HeadOK h cur
  res : (fill mtu q sched pl idx).res = resOf h cur
  owed : q.filter validPkt = qs ++ cur.toList ++ (fill mtu q sched pl idx).queue.filter validPkt
  index : (fill mtu q sched pl idx).index = idxOf idx pl qs cur
  room : (qs ≠ [] ∨ cur ≠ none) → pl.length + 40 ≤ mtu - hdrLen
  eof : (fill mtu q sched pl idx).eof = true →
    pl = [] ∧ qs = [] ∧ cur = none ∧ (fill mtu q sched pl idx).queue.filter validPkt = []

theorem fill_shape (mtu : Nat) (q : List Bytes) : ∀ (sched : List Bool) (pl : Bytes) (idx : Option Nat),
    ∃ qs h cur, FillSpec mtu q sched pl idx qs h cur := by
  induction q with
  | nil =>
    intro sched pl idx
    refine ⟨[], [], none, ?_⟩
    constructor <;> simp [fill, HeadOK, resOf, idxOf]
    cases idx <;> rfl
  | cons p q ih =>
    intro sched pl idx
    by_cases hroom : mtu - (hdrLen + pl.length) < 40
    · refine ⟨[], [], none, ?_⟩
      have hf : fill mtu (p :: q) sched pl idx = ⟨pl, idx, [], p :: q, sched, false⟩ := by
        rw [fill_cons]; simp [hroom]
      constructor <;> simp [hf, HeadOK, resOf, idxOf]
      cases idx <;> rfl
    · cases hrr : ringRead pl.isEmpty sched with
      | mk got sched' =>
        cases got with
        | false =>
          refine ⟨[], [], none, ?_⟩
          have hf : fill mtu (p :: q) sched pl idx = ⟨pl, idx, [], p :: q, sched', false⟩ := by
            rw [fill_cons]; simp [hroom, hrr]
          constructor <;> simp [hf, HeadOK, resOf, idxOf]
          cases idx <;> rfl
        | true =>
          by_cases hv : validPkt p = true
          · -- a valid packet is taken
            have hlen := valid_length p hv
            by_cases hfit : p.length ≤ mtu - (hdrLen + pl.length)
            · -- it fits completely
              obtain ⟨qs, h, cur, sp⟩ := ih sched' (pl ++ p)
                (setIndex idx pl.length)
              have hf : fill mtu (p :: q) sched pl idx =
                  fill mtu q sched' (pl ++ p) (setIndex idx pl.length) := by
                rw [fill_cons]
                simp only [hroom, if_false, hrr, hv, Bool.not_true, Bool.false_eq_true]
                have hmin : min (mtu - (hdrLen + pl.length)) p.length = p.length := by omega
                simp [hmin]
              refine ⟨p :: qs, h, cur, ?_⟩
              constructor
              · rw [hf, sp.payload]; simp
              · intro x hx
                rcases List.mem_cons.1 hx with rfl | hx
                · exact hv
                · exact sp.valid x hx
              · exact sp.head
              · rw [hf, sp.res]
              · rw [hf, List.filter_cons_of_pos hv, sp.owed]; simp
              · rw [hf, sp.index]
                cases idx <;> simp [idxOf, setIndex]
              · intro _; simp only [hdrLen] at *; omega
              · intro he
                rw [hf] at he
                have := (sp.eof he).1
                have hl : (pl ++ p).length = 0 := by rw [this]; rfl
                rw [List.length_append] at hl
                omega
            · -- it does not fit: the frame is full, the rest stays in `e.pkt`
              have hmin : min (mtu - (hdrLen + pl.length)) p.length = mtu - (hdrLen + pl.length) := by
                omega
              have hdrop : (p.drop (mtu - (hdrLen + pl.length))).isEmpty = false := by
                rw [List.isEmpty_eq_false_iff]
                intro he
                have := congrArg List.length he
                simp only [List.length_drop, List.length_nil] at this
                omega
              have hf : fill mtu (p :: q) sched pl idx =
                  ⟨pl ++ p.take (mtu - (hdrLen + pl.length)),
                   (setIndex idx pl.length),
                   p.drop (mtu - (hdrLen + pl.length)), q, sched', false⟩ := by
                rw [fill_cons]
                simp only [hroom, if_false, hrr, hv, Bool.not_true, Bool.false_eq_true, hmin, hdrop]
              refine ⟨[], p.take (mtu - (hdrLen + pl.length)), some p, ?_⟩
              have hk : (p.take (mtu - (hdrLen + pl.length))).length = mtu - (hdrLen + pl.length) := by
                simp [List.length_take]; omega
              constructor
              · rw [hf]; simp
              · intro x hx; cases hx
              · exact ⟨hv, _, rfl, by omega, by omega⟩
              · rw [hf]; simp only [resOf, hk]
              · rw [hf, List.filter_cons_of_pos hv]; simp
              · rw [hf]; cases idx <;> simp [idxOf, setIndex]
              · intro _; simp only [hdrLen] at *; omega
              · intro he; rw [hf] at he; cases he
          · -- an invalid packet is skipped
            obtain ⟨qs, h, cur, sp⟩ := ih sched' pl idx
            have hf : fill mtu (p :: q) sched pl idx = fill mtu q sched' pl idx := by
              rw [fill_cons]
              simp [hroom, hrr, hv]
            refine ⟨qs, h, cur, ?_⟩
            constructor
            · rw [hf]; exact sp.payload
            · exact sp.valid
            · exact sp.head
            · rw [hf]; exact sp.res
            · rw [hf, List.filter_cons_of_neg hv]; exact sp.owed
            · rw [hf]; exact sp.index
            · exact sp.room
            · intro he; rw [hf] at he ⊢; exact sp.eof he

/-- `fill` never lengthens what is left to send; from an empty frame it consumes something
unless the ring is closed and empty -/
theorem fill_measure (mtu : Nat) (q : List Bytes) : ∀ (sched : List Bool) (pl : Bytes) (idx : Option Nat),
    (fill mtu q sched pl idx).res.length + totalLen (fill mtu q sched pl idx).queue ≤ totalLen q ∧
    (56 ≤ mtu → pl = [] → (fill mtu q sched pl idx).eof = false →
      (fill mtu q sched pl idx).res.length + totalLen (fill mtu q sched pl idx).queue < totalLen q) := by
  induction q with
  | nil => intro sched pl idx; simp [fill, totalLen]
  | cons p q ih =>
    intro sched pl idx
    have htl : totalLen (p :: q) = p.length + 1 + totalLen q := by simp [totalLen]
    by_cases hroom : mtu - (hdrLen + pl.length) < 40
    · have hf : fill mtu (p :: q) sched pl idx = ⟨pl, idx, [], p :: q, sched, false⟩ := by
        rw [fill_cons]; simp [hroom]
      rw [hf]
      refine ⟨by simp, ?_⟩
      intro hm hpl _
      subst hpl
      simp [hdrLen] at hroom
      omega
    · cases hrr : ringRead pl.isEmpty sched with
      | mk got sched' =>
        cases got with
        | false =>
          have hf : fill mtu (p :: q) sched pl idx = ⟨pl, idx, [], p :: q, sched', false⟩ := by
            rw [fill_cons]; simp [hroom, hrr]
          rw [hf]
          refine ⟨by simp, ?_⟩
          intro _ hpl _
          subst hpl
          cases sched <;> simp [ringRead] at hrr
        | true =>
          by_cases hv : validPkt p = true
          · by_cases hfit : p.length ≤ mtu - (hdrLen + pl.length)
            · have hf : fill mtu (p :: q) sched pl idx =
                  fill mtu q sched' (pl ++ p) (setIndex idx pl.length) := by
                rw [fill_cons]
                simp only [hroom, if_false, hrr, hv, Bool.not_true, Bool.false_eq_true]
                have hmin : min (mtu - (hdrLen + pl.length)) p.length = p.length := by omega
                simp [hmin]
              rw [hf]
              have := (ih sched' (pl ++ p) (setIndex idx pl.length)).1
              refine ⟨by omega, ?_⟩
              intro _ _ _; omega
            · have hmin : min (mtu - (hdrLen + pl.length)) p.length = mtu - (hdrLen + pl.length) := by
                omega
              have hdrop : (p.drop (mtu - (hdrLen + pl.length))).isEmpty = false := by
                rw [List.isEmpty_eq_false_iff]
                intro he
                have := congrArg List.length he
                simp only [List.length_drop, List.length_nil] at this
                omega
              have hf : fill mtu (p :: q) sched pl idx =
                  ⟨pl ++ p.take (mtu - (hdrLen + pl.length)),
                   (setIndex idx pl.length),
                   p.drop (mtu - (hdrLen + pl.length)), q, sched', false⟩ := by
                rw [fill_cons]
                simp only [hroom, if_false, hrr, hv, Bool.not_true, Bool.false_eq_true, hmin, hdrop]
              rw [hf]
              simp only [List.length_drop]
              refine ⟨by omega, ?_⟩
              intro _ _ _; omega
          · have hf : fill mtu (p :: q) sched pl idx = fill mtu q sched' pl idx := by
              rw [fill_cons]
              simp [hroom, hrr, hv]
            rw [hf]
            have := ih sched' pl idx
            refine ⟨by omega, ?_⟩
            intro hm hpl he
            have := this.2 hm hpl he
            omega


/-- a frame never exceeds the frame size -/
theorem fill_len (mtu : Nat) (q : List Bytes) : ∀ (sched : List Bool) (pl : Bytes) (idx : Option Nat),
    pl.length ≤ mtu - hdrLen → (fill mtu q sched pl idx).payload.length ≤ mtu - hdrLen := by
  induction q with
  | nil => intro sched pl idx h; simpa [fill] using h
  | cons p q ih =>
    intro sched pl idx h
    rw [fill_cons]
    split
    · exact h
    · split
      · exact h
      · split
        · exact ih _ _ _ h
        · split
          · apply ih
            simp only [List.length_append, List.length_take, hdrLen] at *
            omega
          · simp only [List.length_append, List.length_take, hdrLen] at *
            omega

theorem readFrame_len (mtu epoch : Nat) (st : EncSt) (queue : List Bytes) (sched : List Bool)
    (f : Frame) (st' : EncSt) (q' : List Bytes) (s' : List Bool)
    (h : readFrame mtu epoch st queue sched = .frame f st' q' s') :
    f.payload.length ≤ mtu - hdrLen := by
  unfold readFrame at h
  split at h
  · dsimp only at h
    split at h
    · cases h
      simp only [List.length_take]; omega
    · cases h
      apply fill_len
      simp only [List.length_take]; omega
  · dsimp only at h
    split at h
    · cases h
    · cases h
      apply fill_len
      simp

theorem encodeF_len (mtu epoch : Nat) : ∀ (fuel : Nat) (st : EncSt) (queue : List Bytes)
    (sched : List Bool), ∀ f ∈ encodeF mtu epoch fuel st queue sched,
      f.payload.length ≤ mtu - hdrLen := by
  intro fuel
  induction fuel with
  | zero => intro st queue sched f hf; cases hf
  | succ fuel ih =>
    intro st queue sched f hf
    rw [encodeF] at hf
    cases hrf : readFrame mtu epoch st queue sched with
    | nothing st' s' => rw [hrf] at hf; cases hf
    | frame f' st' q' s' =>
      rw [hrf] at hf
      rcases List.mem_cons.1 hf with rfl | hf
      · exact readFrame_len mtu epoch st queue sched _ st' q' s' hrf
      · exact ih st' q' s' f hf

end Scion.Proofs.GwFrames
