import Scion.Model.GwPolicyText
/-! C42 helper lemmas: `unmarshal (marshal rs) = some rs` for rules the text form can express. -/
namespace Scion.Proofs.GwPolicyText
open Scion.GwPolicyText

/-! ### what the text form can express -/

def wordChar (c : Char) : Bool := decide (33 ≤ c.toNat) && decide (c.toNat ≤ 126) && c != '#'
def printable (c : Char) : Bool := decide (32 ≤ c.toNat) && decide (c.toNat ≤ 126)

def isWord (w : List Char) : Bool := !w.isEmpty && w.all wordChar
def atomOK (w : List Char) : Bool := isWord w && w.head? != some '!'
def netOK (w : List Char) : Bool := atomOK w && w.all (· != ',')
def commentOK (c : List Char) : Bool :=
  c.all printable && c.head? != some ' ' && c.getLast? != some ' '

/-- the generator-guarded class (DESIGN §7a): atoms are words, at most one negation (a flag), a
non-empty network list, a next hop only on advertise rules, a single-line comment without
leading or trailing blank -/
def ruleOK (r : TRule) : Bool :=
  atomOK r.fromIA && atomOK r.toIA && !r.nets.isEmpty && r.nets.all netOK &&
    (r.nextHop.isEmpty || (isWord r.nextHop && r.action == .advertise)) && commentOK r.comment

theorem wordChar_facts (c : Char) (h : wordChar c = true) :
    isSp c = false ∧ c ≠ '#' ∧ c ≠ ' ' ∧ c ≠ '\n' ∧ c ≠ '\r' ∧ printable c = true := by
  simp only [wordChar, Bool.and_eq_true, decide_eq_true_eq, bne_iff_ne, ne_eq] at h
  obtain ⟨⟨h1, h2⟩, h3⟩ := h
  refine ⟨?_, h3, ?_, ?_, ?_, ?_⟩
  · simp only [isSp, Bool.or_eq_false_iff, beq_eq_false_iff_ne, ne_eq]
    refine ⟨⟨⟨⟨⟨?_, ?_⟩, ?_⟩, ?_⟩, ?_⟩, ?_⟩
    iterate 4 (intro hc; subst hc; revert h1; decide)
    · omega
    · omega
  iterate 3 (intro hc; subst hc; revert h1; decide)
  · simp only [printable, Bool.and_eq_true, decide_eq_true_eq]; omega

theorem printable_facts (c : Char) (h : printable c = true) : c ≠ '\n' ∧ c ≠ '\r' := by
  simp only [printable, Bool.and_eq_true, decide_eq_true_eq] at h
  constructor <;> (intro hc; subst hc; revert h; decide)

/-! ### runs -/

def Stops (p : Char → Bool) : List Char → Prop
  | [] => True
  | c :: _ => p c = false

theorem takeWhile_run (p : Char → Bool) (xs r : List Char) (h : ∀ x ∈ xs, p x = true)
    (hr : Stops p r) : (xs ++ r).takeWhile p = xs ∧ (xs ++ r).dropWhile p = r := by
  induction xs with
  | nil =>
    cases r with
    | nil => simp
    | cons c t => simp only [Stops] at hr; simp [hr]
  | cons x xs ih =>
    have hx := h x (by simp)
    obtain ⟨i1, i2⟩ := ih (fun y hy => h y (by simp [hy]))
    simp [hx, i1, i2]

theorem dropWhile_append_cons (p : Char → Bool) (a b : List Char) (c : Char) (r : List Char)
    (h : a.dropWhile p = c :: r) : (a ++ b).dropWhile p = c :: (r ++ b) := by
  induction a with
  | nil => simp at h
  | cons x xs ih =>
    by_cases hx : p x = true
    · simp only [List.dropWhile, hx] at h
      simp only [List.cons_append, List.dropWhile, hx]
      exact ih h
    · simp only [Bool.not_eq_true] at hx
      simp only [List.dropWhile, hx] at h
      simp only [List.cons_append, List.dropWhile, hx]
      cases h
      rfl

theorem takeWhile_append_cons (p : Char → Bool) (a b : List Char) (c : Char) (r : List Char)
    (h : a.dropWhile p = c :: r) : (a ++ b).takeWhile p = a.takeWhile p := by
  induction a with
  | nil => simp at h
  | cons x xs ih =>
    by_cases hx : p x = true
    · simp only [List.dropWhile, hx] at h
      simp only [List.cons_append, List.takeWhile, hx]
      rw [ih h]
    · simp only [Bool.not_eq_true] at hx
      simp [List.takeWhile, hx]

theorem dropWhile_nil_iff (p : Char → Bool) (l : List Char) :
    l.dropWhile p = [] ↔ ∀ x ∈ l, p x = true := by
  induction l with
  | nil => simp
  | cons a l ih =>
    by_cases ha : p a = true
    · simp only [List.dropWhile, ha, ih, List.mem_cons, forall_eq_or_imp, true_and]
    · simp only [Bool.not_eq_true] at ha
      simp [List.dropWhile, ha]

theorem dropWhile_head (p : Char → Bool) (l : List Char) (c : Char) (r : List Char)
    (h : l.dropWhile p = c :: r) : p c = false := by
  induction l with
  | nil => simp at h
  | cons a l ih =>
    by_cases ha : p a = true
    · simp only [List.dropWhile, ha] at h; exact ih h
    · simp only [Bool.not_eq_true] at ha
      simp only [List.dropWhile, ha] at h
      cases h; exact ha

theorem spaces_all (k : Nat) : ∀ x ∈ spaces k, x = ' ' := by
  intro x hx; exact List.eq_of_mem_replicate hx

theorem spaces_succ (k : Nat) : spaces (k + 1) = ' ' :: spaces k := rfl

theorem dropWhile_isSp_spaces (k : Nat) (l : List Char) :
    (spaces k ++ l).dropWhile isSp = l.dropWhile isSp := by
  induction k with
  | zero => rfl
  | succ k ih =>
    rw [spaces_succ, List.cons_append, List.dropWhile]
    have : isSp ' ' = true := by decide
    simp only [this]
    exact ih

/-! ### `fields` -/

theorem fields_nil_of (l : List Char) (h : l.dropWhile isSp = []) : fields l = [] := by
  rw [fields]
  split
  · rfl
  · rename_i c r h'; rw [h] at h'; cases h'

theorem fields_cons_of (l : List Char) (c : Char) (r : List Char) (h : l.dropWhile isSp = c :: r) :
    fields l = (c :: r).takeWhile (fun x => !isSp x) :: fields (r.dropWhile (fun x => !isSp x)) := by
  rw [fields]
  split
  · rename_i h'; rw [h] at h'; cases h'
  · rename_i c' r' h'
    rw [h] at h'
    cases h'
    rfl

theorem fields_spaces (k : Nat) (l : List Char) : fields (spaces k ++ l) = fields l := by
  have hd := dropWhile_isSp_spaces k l
  cases h : l.dropWhile isSp with
  | nil => rw [fields_nil_of _ (by rw [hd, h]), fields_nil_of _ h]
  | cons c r => rw [fields_cons_of _ c r (by rw [hd, h]), fields_cons_of _ c r h]

theorem fields_only_spaces (k : Nat) : fields (spaces k) = [] := by
  have := fields_spaces k []
  rw [List.append_nil] at this
  rw [this]
  exact fields_nil_of [] rfl

/-- a word, then nothing or a blank -/
theorem fields_word (w l : List Char) (hne : w ≠ []) (hw : ∀ x ∈ w, isSp x = false)
    (hl : Stops (fun x => !isSp x) l) : fields (w ++ l) = w :: fields l := by
  cases w with
  | nil => exact absurd rfl hne
  | cons c cs =>
    have hc := hw c (by simp)
    have hd : ((c :: cs) ++ l).dropWhile isSp = c :: (cs ++ l) := by
      simp [List.dropWhile, hc]
    rw [fields_cons_of _ c _ hd]
    have hall : ∀ x ∈ c :: cs, (fun x => !isSp x) x = true := by
      intro x hx; simp [hw x hx]
    obtain ⟨t1, _⟩ := takeWhile_run (fun x => !isSp x) (c :: cs) l hall hl
    obtain ⟨_, t2⟩ := takeWhile_run (fun x => !isSp x) cs l
      (fun x hx => hall x (by simp [hx])) hl
    rw [List.cons_append] at t1
    rw [t1, t2]

theorem stops_spaces (k : Nat) (hk : 1 ≤ k) (l : List Char) :
    Stops (fun x => !isSp x) (spaces k ++ l) := by
  cases k with
  | zero => omega
  | succ k => rw [spaces_succ]; show (!isSp ' ') = false; decide

/-- a padded word in front -/
theorem fields_pad (w : List Char) (k : Nat) (l : List Char) (hne : w ≠ [])
    (hw : ∀ x ∈ w, isSp x = false) (hk : 1 ≤ k) :
    fields (w ++ spaces k ++ l) = w :: fields l := by
  rw [List.append_assoc, fields_word w _ hne hw (stops_spaces k hk l), fields_spaces]

/-- blanks at the end do not matter -/
theorem fields_append_spaces (k : Nat) : ∀ (n : Nat) (x : List Char), x.length ≤ n →
    fields (x ++ spaces k) = fields x := by
  intro n
  induction n with
  | zero =>
    intro x hx
    have : x = [] := List.eq_nil_of_length_eq_zero (by omega)
    subst this
    rw [List.nil_append, fields_only_spaces]
    exact (fields_nil_of [] rfl).symm
  | succ n ih =>
    intro x hx
    cases hd : x.dropWhile isSp with
    | nil =>
      have hall : ∀ y ∈ x, isSp y = true := (dropWhile_nil_iff _ _).1 hd
      have : (x ++ spaces k).dropWhile isSp = [] := by
        rw [dropWhile_nil_iff]
        intro y hy
        rcases List.mem_append.1 hy with hy | hy
        · exact hall y hy
        · rw [spaces_all k y hy]; decide
      rw [fields_nil_of _ this, fields_nil_of _ hd]
    | cons c r =>
      have hlen : r.length < x.length := by
        have := length_dropWhile_le isSp x
        rw [hd] at this
        simp only [List.length_cons] at this
        omega
      rw [fields_cons_of _ c _ (dropWhile_append_cons isSp x (spaces k) c r hd),
        fields_cons_of _ c r hd]
      cases hr : r.dropWhile (fun x => !isSp x) with
      | nil =>
        have hall : ∀ y ∈ r, (fun x => !isSp x) y = true := (dropWhile_nil_iff _ _).1 hr
        have hst : Stops (fun x => !isSp x) (spaces k) := by
          cases k with
          | zero => trivial
          | succ k => show (!isSp ' ') = false; decide
        -- the head `c` is not a blank
        have hc : (fun x => !isSp x) c = true := by
          have := dropWhile_head isSp x c r hd
          simp [this]
        obtain ⟨t1, _⟩ := takeWhile_run (fun x => !isSp x) (c :: r) (spaces k)
          (by intro y hy; rcases List.mem_cons.1 hy with rfl | hy; exact hc; exact hall y hy) hst
        obtain ⟨t3, _⟩ := takeWhile_run (fun x => !isSp x) (c :: r) []
          (by intro y hy; rcases List.mem_cons.1 hy with rfl | hy; exact hc; exact hall y hy) trivial
        obtain ⟨_, t2⟩ := takeWhile_run (fun x => !isSp x) r (spaces k) hall hst
        rw [List.cons_append] at t1
        rw [List.append_nil] at t3
        rw [t1, t2, t3, fields_only_spaces]
        exact congrArg _ (fields_nil_of [] rfl).symm
      | cons c' r' =>
        have h1 := takeWhile_append_cons (fun x => !isSp x) r (spaces k) c' r' hr
        have h2 := dropWhile_append_cons (fun x => !isSp x) r (spaces k) c' r' hr
        have hlen' : (c' :: r').length ≤ n := by
          have := length_dropWhile_le (fun x => !isSp x) r
          rw [hr] at this
          omega
        have := ih (c' :: r') hlen'
        rw [List.cons_append] at this
        rw [h2, this]
        congr 1
        simp only [List.takeWhile]
        split
        · rw [h1]
        · rfl


/-! ### `trimRight` -/

theorem reverse_spaces (k : Nat) : (spaces k).reverse = spaces k := by
  simp [spaces]

theorem mem_takeWhile (p : Char → Bool) (l : List Char) (x : Char) (h : x ∈ l.takeWhile p) :
    p x = true := by
  induction l with
  | nil => simp at h
  | cons a l ih =>
    by_cases ha : p a = true
    · simp only [List.takeWhile, ha] at h
      rcases List.mem_cons.1 h with rfl | h
      · exact ha
      · exact ih h
    · simp only [Bool.not_eq_true] at ha
      simp [List.takeWhile, ha] at h

/-- a list is its right-trimmed part followed by blanks -/
theorem trimRight_decomp (l : List Char) : ∃ k, l = trimRight l ++ spaces k := by
  have h := List.takeWhile_append_dropWhile (p := (· == ' ')) (l := l.reverse)
  have ht : ∀ x ∈ l.reverse.takeWhile (· == ' '), x = ' ' := by
    intro x hx
    have := mem_takeWhile _ _ x hx
    simpa using this
  have hs : l.reverse.takeWhile (· == ' ') = spaces (l.reverse.takeWhile (· == ' ')).length :=
    List.eq_replicate_of_mem ht
  have hl : l = (l.reverse.dropWhile (· == ' ')).reverse ++ (l.reverse.takeWhile (· == ' ')).reverse := by
    have := congrArg List.reverse h
    rw [List.reverse_append, List.reverse_reverse] at this
    exact this.symm
  have hr : (l.reverse.takeWhile (· == ' ')).reverse = spaces (l.reverse.takeWhile (· == ' ')).length := by
    rw [hs, reverse_spaces]
    simp [spaces]
  exact ⟨(l.reverse.takeWhile (· == ' ')).length, by
    calc l = (l.reverse.dropWhile (· == ' ')).reverse ++ (l.reverse.takeWhile (· == ' ')).reverse := hl
      _ = trimRight l ++ spaces (l.reverse.takeWhile (· == ' ')).length := by rw [hr]; rfl⟩

theorem trimRight_of_last (xs : List Char) (c : Char) (hc : c ≠ ' ') :
    trimRight (xs ++ [c]) = xs ++ [c] := by
  have : (c == ' ') = false := by simp [hc]
  simp [trimRight, List.dropWhile, this]

theorem fields_trimRight (l : List Char) : fields (trimRight l) = fields l := by
  obtain ⟨k, hk⟩ := trimRight_decomp l
  have := fields_append_spaces k (trimRight l).length (trimRight l) (Nat.le_refl _)
  rw [← hk] at this
  exact this.symm

theorem mem_trimRight (l : List Char) (x : Char) (h : x ∈ trimRight l) : x ∈ l := by
  obtain ⟨k, hk⟩ := trimRight_decomp l
  rw [hk]; exact List.mem_append_left _ h

/-! ### `#`, `,`, `!` -/

theorem splitHash_none (l : List Char) (h : ∀ x ∈ l, x ≠ '#') : splitHash l = (l, none) := by
  have : l.dropWhile (· != '#') = [] := by
    rw [dropWhile_nil_iff]; intro x hx; simp [h x hx]
  simp [splitHash, this]

theorem splitHash_some (a r : List Char) (h : ∀ x ∈ a, x ≠ '#') :
    splitHash (a ++ '#' :: r) = (a, some r) := by
  obtain ⟨t1, t2⟩ := takeWhile_run (· != '#') a ('#' :: r) (by intro x hx; simp [h x hx])
    (by show ('#' != '#') = false; decide)
  simp [splitHash, t1, t2]

theorem splitComma_single (w : List Char) (h : ∀ x ∈ w, x ≠ ',') : splitComma w = [w] := by
  have : w.dropWhile (· != ',') = [] := by
    rw [dropWhile_nil_iff]; intro x hx; simp [h x hx]
  rw [splitComma]
  split
  · rfl
  · rename_i c r h'; rw [this] at h'; cases h'

theorem splitComma_cons (w rest : List Char) (h : ∀ x ∈ w, x ≠ ',') :
    splitComma (w ++ ',' :: rest) = w :: splitComma rest := by
  obtain ⟨t1, t2⟩ := takeWhile_run (· != ',') w (',' :: rest) (by intro x hx; simp [h x hx])
    (by show (',' != ',') = false; decide)
  rw [splitComma]
  split
  · rename_i h'; rw [t2] at h'; cases h'
  · rename_i c r h'
    rw [t2] at h'
    cases h'
    rw [t1]

theorem splitComma_join (nets : List (List Char)) (hne : nets ≠ [])
    (h : ∀ w ∈ nets, ∀ x ∈ w, x ≠ ',') : splitComma (joinComma nets) = nets := by
  induction nets with
  | nil => exact absurd rfl hne
  | cons w ws ih =>
    cases ws with
    | nil => simp only [joinComma]; exact splitComma_single w (h w (by simp))
    | cons w' ws' =>
      simp only [joinComma]
      rw [splitComma_cons w _ (h w (by simp)), ih (by simp) (fun v hv => h v (by simp [hv]))]

theorem unbang_bang (neg : Bool) (w : List Char) (h : w.head? ≠ some '!') :
    unbang (bang neg w) = (neg, w) := by
  cases neg
  · simp only [bang, Bool.false_eq_true, if_false]
    cases w with
    | nil => rfl
    | cons c cs =>
      have : c ≠ '!' := by intro hc; subst hc; simp at h
      simp [unbang, this]
  · simp [bang, unbang]

theorem parseAction_name (a : Action) : parseAction a.name = some a := by
  cases a <;> decide


/-! ### one rule -/

theorem isWord_facts (w : List Char) (h : isWord w = true) :
    w ≠ [] ∧ (∀ x ∈ w, isSp x = false) ∧ (∀ x ∈ w, x ≠ '#') ∧ (∀ x ∈ w, printable x = true) := by
  simp only [isWord, Bool.and_eq_true, Bool.not_eq_true', List.isEmpty_eq_false_iff,
    List.all_eq_true] at h
  exact ⟨h.1, fun x hx => (wordChar_facts x (h.2 x hx)).1, fun x hx => (wordChar_facts x (h.2 x hx)).2.1,
    fun x hx => (wordChar_facts x (h.2 x hx)).2.2.2.2.2⟩

theorem isWord_bang (neg : Bool) (w : List Char) (h : isWord w = true) : isWord (bang neg w) = true := by
  cases neg
  · simpa [bang] using h
  · simp only [isWord, Bool.and_eq_true, Bool.not_eq_true', List.isEmpty_eq_false_iff,
      List.all_eq_true] at h
    simp only [bang, if_true, isWord, List.isEmpty_cons, Bool.not_false, List.all_cons,
      Bool.true_and, Bool.and_eq_true, List.all_eq_true]
    exact ⟨by decide, h.2⟩

theorem isWord_action (a : Action) : isWord a.name = true := by
  cases a <;> decide

theorem isWord_join (nets : List (List Char)) (hne : nets ≠ []) (h : ∀ w ∈ nets, isWord w = true) :
    isWord (joinComma nets) = true := by
  induction nets with
  | nil => exact absurd rfl hne
  | cons w ws ih =>
    cases ws with
    | nil => simpa [joinComma] using h w (by simp)
    | cons w' ws' =>
      have h1 := h w (by simp)
      have h2 := ih (by simp) (fun v hv => h v (by simp [hv]))
      simp only [isWord, Bool.and_eq_true, Bool.not_eq_true', List.isEmpty_eq_false_iff,
        List.all_eq_true] at h1 h2 ⊢
      simp only [joinComma]
      refine ⟨by simp [h1.1], ?_⟩
      intro x hx
      rcases List.mem_append.1 hx with hx | hx
      · exact h1.2 x hx
      · rcases List.mem_cons.1 hx with rfl | hx
        · decide
        · exact h2.2 x hx

theorem join_head (nets : List (List Char)) (hne : nets ≠ [])
    (h : ∀ w ∈ nets, w ≠ [] ∧ w.head? ≠ some '!') : (joinComma nets).head? ≠ some '!' := by
  cases nets with
  | nil => exact absurd rfl hne
  | cons w ws =>
    obtain ⟨hw1, hw2⟩ := h w (by simp)
    cases w with
    | nil => exact absurd rfl hw1
    | cons c cs =>
      cases ws with
      | nil => simpa [joinComma] using hw2
      | cons w' ws' => simpa [joinComma] using hw2

theorem exists_last (l : List Char) (h : l ≠ []) : ∃ xs z, l = xs ++ [z] := by
  cases hr : l.reverse with
  | nil => exact absurd (List.reverse_eq_nil_iff.1 hr) h
  | cons z t =>
    refine ⟨t.reverse, z, ?_⟩
    have := congrArg List.reverse hr
    simpa using this

structure RuleFacts (r : TRule) : Prop where
  fromW : isWord r.fromIA = true
  fromH : r.fromIA.head? ≠ some '!'
  toW : isWord r.toIA = true
  toH : r.toIA.head? ≠ some '!'
  netsNe : r.nets ≠ []
  netsW : ∀ w ∈ r.nets, isWord w = true
  netsH : ∀ w ∈ r.nets, w ≠ [] ∧ w.head? ≠ some '!'
  netsC : ∀ w ∈ r.nets, ∀ x ∈ w, x ≠ ','
  hop : r.nextHop = [] ∨ (isWord r.nextHop = true ∧ r.action = .advertise)
  cmP : ∀ x ∈ r.comment, printable x = true
  cmH : r.comment.head? ≠ some ' '
  cmL : r.comment.getLast? ≠ some ' '

theorem ruleFacts (r : TRule) (h : ruleOK r = true) : RuleFacts r := by
  simp only [ruleOK, atomOK, netOK, commentOK, Bool.and_eq_true, Bool.or_eq_true, bne_iff_ne, ne_eq,
    Bool.not_eq_true', List.isEmpty_eq_false_iff, List.all_eq_true, List.isEmpty_iff,
    beq_iff_eq] at h
  obtain ⟨⟨⟨⟨⟨⟨f1, f2⟩, ⟨t1, t2⟩⟩, n1⟩, n2⟩, hp⟩, ⟨⟨c1, c2⟩, c3⟩⟩ := h
  refine ⟨f1, f2, t1, t2, n1, fun w hw => (n2 w hw).1.1, ?_, ?_, hp, c1, c2, c3⟩
  · intro w hw
    exact ⟨(isWord_facts w (n2 w hw).1.1).1, (n2 w hw).1.2⟩
  · intro w hw x hx
    have := (n2 w hw).2 x hx
    simpa using this

theorem parseRule_core (line before : List Char) (cm : Option (List Char)) (r : TRule)
    (f : RuleFacts r) (hs : splitHash line = (before, cm))
    (hc : commentOf cm = r.comment)
    (hf : fields before = r.action.name :: bang r.fromNeg r.fromIA :: bang r.toNeg r.toIA ::
      bang r.netNeg (joinComma r.nets) :: (if r.nextHop.isEmpty then [] else [r.nextHop])) :
    parseRule line = some r := by
  unfold parseRule
  rw [hs]
  simp only [hc, hf, parseAction_name, unbang_bang _ _ f.fromH, unbang_bang _ _ f.toH,
    unbang_bang _ _ (join_head r.nets f.netsNe f.netsH), splitComma_join r.nets f.netsNe f.netsC]
  have e1 : r.fromIA.isEmpty = false := by
    rw [List.isEmpty_eq_false_iff]; exact (isWord_facts _ f.fromW).1
  have e2 : r.toIA.isEmpty = false := by
    rw [List.isEmpty_eq_false_iff]; exact (isWord_facts _ f.toW).1
  have e3 : r.nets.any (·.isEmpty) = false := by
    rw [List.any_eq_false]
    intro w hw
    simp only [List.isEmpty_iff]
    exact (f.netsH w hw).1
  simp only [e1, e2, e3, Bool.or_self, Bool.false_eq_true, if_false]
  rcases f.hop with hh | ⟨hw, ha⟩
  · simp only [hh, List.isEmpty_nil, if_true]
    cases r
    simp_all
  · have hne : r.nextHop.isEmpty = false := by
      rw [List.isEmpty_eq_false_iff]; exact (isWord_facts _ hw).1
    simp only [hne, Bool.false_eq_true, if_false, ha, if_true]
    cases r
    simp_all


/-- the five padded cells of a line -/
def body (w : Nat → Nat) (r : TRule) : List Char :=
  pad (w 0) r.action.name ++ (pad (w 1) (bang r.fromNeg r.fromIA) ++
    (pad (w 2) (bang r.toNeg r.toIA) ++ (pad (w 3) (bang r.netNeg (joinComma r.nets)) ++
      pad (w 4) r.nextHop)))

theorem printLine_eq (w : Nat → Nat) (r : TRule) : printLine w r = body w r ++ commentPart r := by
  simp [printLine, body, List.append_assoc]

theorem mem_pad (w : Nat) (c : List Char) (x : Char) (h : x ∈ pad w c) : x ∈ c ∨ x = ' ' := by
  rcases List.mem_append.1 h with h | h
  · exact Or.inl h
  · exact Or.inr (spaces_all _ x h)

/-- the widths leave at least one blank after each of the first four cells -/
def WidthsOK (w : Nat → Nat) (r : TRule) : Prop :=
  r.action.name.length + 1 ≤ w 0 ∧ (bang r.fromNeg r.fromIA).length + 1 ≤ w 1 ∧
  (bang r.toNeg r.toIA).length + 1 ≤ w 2 ∧ (bang r.netNeg (joinComma r.nets)).length + 1 ≤ w 3

theorem body_facts (w : Nat → Nat) (r : TRule) (f : RuleFacts r) (hw : WidthsOK w r) :
    fields (body w r) = r.action.name :: bang r.fromNeg r.fromIA :: bang r.toNeg r.toIA ::
      bang r.netNeg (joinComma r.nets) :: (if r.nextHop.isEmpty then [] else [r.nextHop]) ∧
    (∀ x ∈ body w r, x ≠ '#' ∧ printable x = true) := by
  have w0 := isWord_facts _ (isWord_action r.action)
  have w1 := isWord_facts _ (isWord_bang r.fromNeg _ f.fromW)
  have w2 := isWord_facts _ (isWord_bang r.toNeg _ f.toW)
  have w3 := isWord_facts _ (isWord_bang r.netNeg _ (isWord_join r.nets f.netsNe f.netsW))
  obtain ⟨h0, h1, h2, h3⟩ := hw
  constructor
  · unfold body pad
    rw [fields_pad _ _ _ w0.1 w0.2.1 (by omega), fields_pad _ _ _ w1.1 w1.2.1 (by omega),
      fields_pad _ _ _ w2.1 w2.2.1 (by omega), fields_pad _ _ _ w3.1 w3.2.1 (by omega)]
    rw [fields_append_spaces _ _ _ (Nat.le_refl _)]
    rcases f.hop with hh | ⟨hw4, _⟩
    · rw [hh]; simp only [List.isEmpty_nil, if_true]
      rw [fields_nil_of [] rfl]
    · have w4 := isWord_facts _ hw4
      have hne : r.nextHop.isEmpty = false := by rw [List.isEmpty_eq_false_iff]; exact w4.1
      simp only [hne, Bool.false_eq_true, if_false]
      have := fields_word r.nextHop [] w4.1 w4.2.1 trivial
      rw [List.append_nil] at this
      rw [this, fields_nil_of [] rfl]
  · intro x hx
    have sp : (' ' : Char) ≠ '#' ∧ printable ' ' = true := by decide
    unfold body at hx
    rcases List.mem_append.1 hx with hx | hx
    · rcases mem_pad _ _ x hx with hx | rfl
      · exact ⟨w0.2.2.1 x hx, w0.2.2.2 x hx⟩
      · exact sp
    rcases List.mem_append.1 hx with hx | hx
    · rcases mem_pad _ _ x hx with hx | rfl
      · exact ⟨w1.2.2.1 x hx, w1.2.2.2 x hx⟩
      · exact sp
    rcases List.mem_append.1 hx with hx | hx
    · rcases mem_pad _ _ x hx with hx | rfl
      · exact ⟨w2.2.2.1 x hx, w2.2.2.2 x hx⟩
      · exact sp
    rcases List.mem_append.1 hx with hx | hx
    · rcases mem_pad _ _ x hx with hx | rfl
      · exact ⟨w3.2.2.1 x hx, w3.2.2.2 x hx⟩
      · exact sp
    · rcases mem_pad _ _ x hx with hx | rfl
      · rcases f.hop with hh | ⟨hw4, _⟩
        · rw [hh] at hx; cases hx
        · have w4 := isWord_facts _ hw4
          exact ⟨w4.2.2.1 x hx, w4.2.2.2 x hx⟩
      · exact sp

/-- a printed line parses back to its rule, and consists of printable characters only -/
theorem parseRule_printLine (w : Nat → Nat) (r : TRule) (f : RuleFacts r) (hw : WidthsOK w r) :
    parseRule (trimRight (printLine w r)) = some r ∧
      ∀ x ∈ trimRight (printLine w r), printable x = true := by
  obtain ⟨hf, hb⟩ := body_facts w r f hw
  rw [printLine_eq]
  cases hc : r.comment with
  | nil =>
    have hcp : commentPart r = [] := by simp [commentPart, hc]
    rw [hcp, List.append_nil]
    constructor
    · apply parseRule_core _ (trimRight (body w r)) none r f
      · exact splitHash_none _ (fun x hx => (hb x (mem_trimRight _ x hx)).1)
      · rw [hc]; rfl
      · rw [fields_trimRight]; exact hf
    · intro x hx; exact (hb x (mem_trimRight _ x hx)).2
  | cons c cs =>
    have hcp : commentPart r = '#' :: ' ' :: (c :: cs) := by simp [commentPart, hc]
    rw [hcp]
    -- the comment ends with a non-blank: nothing is trimmed
    obtain ⟨xs, z, hxs⟩ := exists_last (c :: cs) (by simp)
    have hz : z ≠ ' ' := by
      have := f.cmL
      rw [hc, hxs] at this
      simpa using this
    have hline : body w r ++ '#' :: ' ' :: (c :: cs) = (body w r ++ '#' :: ' ' :: xs) ++ [z] := by
      rw [hxs]; simp
    have htrim : trimRight (body w r ++ '#' :: ' ' :: (c :: cs)) = body w r ++ '#' :: ' ' :: (c :: cs) := by
      rw [hline]; exact trimRight_of_last _ z hz
    rw [htrim]
    constructor
    · apply parseRule_core _ (body w r) (some (' ' :: (c :: cs))) r f
      · exact splitHash_some _ _ (fun x hx => (hb x hx).1)
      · simp only [commentOf, trimPrefixSpace]
        rw [hc, hxs]; exact trimRight_of_last xs z hz
      · exact hf
    · intro x hx
      rcases List.mem_append.1 hx with hx | hx
      · exact (hb x hx).2
      · rcases List.mem_cons.1 hx with rfl | hx
        · decide
        · rcases List.mem_cons.1 hx with rfl | hx
          · decide
          · exact f.cmP x (by rw [hc]; exact hx)


/-! ### the whole policy -/

theorem le_foldl_max (l : List Nat) (a : Nat) : a ≤ l.foldl max a ∧ ∀ x ∈ l, x ≤ l.foldl max a := by
  induction l generalizing a with
  | nil => simp
  | cons y l ih =>
    simp only [List.foldl_cons]
    obtain ⟨h1, h2⟩ := ih (max a y)
    refine ⟨by omega, ?_⟩
    intro x hx
    rcases List.mem_cons.1 hx with rfl | hx
    · omega
    · exact h2 x hx

theorem colWidth_ge (rs : List TRule) (r : TRule) (hr : r ∈ rs) (j : Nat) :
    ((cells r)[j]?.getD []).length + 4 ≤ colWidth rs j := by
  unfold colWidth
  have := (le_foldl_max (rs.map fun r => ((cells r)[j]?.getD []).length) 0).2
    (((cells r)[j]?.getD []).length) (List.mem_map.2 ⟨r, hr, rfl⟩)
  omega

theorem widthsOK_col (rs : List TRule) (r : TRule) (hr : r ∈ rs) : WidthsOK (colWidth rs) r := by
  have h0 := colWidth_ge rs r hr 0
  have h1 := colWidth_ge rs r hr 1
  have h2 := colWidth_ge rs r hr 2
  have h3 := colWidth_ge rs r hr 3
  simp only [cells, List.getElem?_cons_zero, List.getElem?_cons_succ, Option.getD_some] at h0 h1 h2 h3
  exact ⟨by omega, by omega, by omega, by omega⟩

theorem dropCR_id (l : List Char) (h : ∀ x ∈ l, x ≠ '\r') : dropCR l = l := by
  unfold dropCR
  split
  · rename_i r hr
    have : '\r' ∈ l := by
      have : '\r' ∈ l.reverse := by rw [hr]; simp
      simpa using this
    exact absurd rfl (h _ this)
  · rfl

theorem splitLines_cons (line rest : List Char) (hn : ∀ x ∈ line, x ≠ '\n')
    (hr : ∀ x ∈ line, x ≠ '\r') : splitLines (line ++ '\n' :: rest) = line :: splitLines rest := by
  obtain ⟨t1, t2⟩ := takeWhile_run (· != '\n') line ('\n' :: rest)
    (by intro x hx; simp [hn x hx]) (by show ('\n' != '\n') = false; decide)
  cases hl : line ++ '\n' :: rest with
  | nil => simp at hl
  | cons c t =>
    rw [splitLines]
    rw [hl] at t1 t2
    split
    · rename_i h'; rw [t2] at h'; cases h'
    · rename_i c' r' h'
      rw [t2] at h'
      cases h'
      rw [t1, dropCR_id line hr]

theorem splitLines_lines (ls : List (List Char)) (h : ∀ l ∈ ls, ∀ x ∈ l, x ≠ '\n' ∧ x ≠ '\r') :
    splitLines ((ls.map fun l => l ++ ['\n']).flatten) = ls := by
  induction ls with
  | nil => simp [splitLines]
  | cons l ls ih =>
    simp only [List.map_cons, List.flatten_cons, List.append_assoc, List.cons_append, List.nil_append]
    rw [splitLines_cons l _ (fun x hx => (h l (by simp) x hx).1) (fun x hx => (h l (by simp) x hx).2)]
    rw [ih (fun l' hl' => h l' (by simp [hl']))]

theorem parseAll_map (rs : List TRule) (f : TRule → List Char)
    (h : ∀ r ∈ rs, parseRule (f r) = some r) : parseAll (rs.map f) = some rs := by
  induction rs with
  | nil => rfl
  | cons r rs ih =>
    simp only [List.map_cons, parseAll, h r (by simp), ih (fun r' hr' => h r' (by simp [hr']))]

/-- **the text form round trip** -/
theorem unmarshal_marshal (rs : List TRule) (h : ∀ r ∈ rs, ruleOK r = true) :
    unmarshal (marshal rs) = some rs := by
  unfold unmarshal marshal
  have hl : (rs.map fun r => trimRight (printLine (colWidth rs) r) ++ ['\n']) =
      (rs.map fun r => trimRight (printLine (colWidth rs) r)).map fun l => l ++ ['\n'] := by
    simp [List.map_map]
  rw [hl, splitLines_lines]
  · apply parseAll_map
    intro r hr
    exact (parseRule_printLine _ r (ruleFacts r (h r hr)) (widthsOK_col rs r hr)).1
  · intro l hl' x hx
    obtain ⟨r, hr, rfl⟩ := List.mem_map.1 hl'
    have := (parseRule_printLine _ r (ruleFacts r (h r hr)) (widthsOK_col rs r hr)).2 x hx
    exact printable_facts x this

end Scion.Proofs.GwPolicyText
