import Scion.Proofs.NetSteps
/-! Run-level lemmas: a packet moving along the transit hops of one segment.  Core Lean only. -/
namespace Scion.Net
open Scion.SegID (updateSegID)

def inSide (cd : Bool) (h : Hop) : Nat := if cd then h.cIn else h.cEg
def outSide (cd : Bool) (h : Hop) : Nat := if cd then h.cEg else h.cIn

/-- SegID presented to the MAC check of hop `h` when the packet arrived over an external link -/
def usedSeg (cd : Bool) (seg : Nat) (h : Hop) : Nat := if cd then seg else updateSegID seg (pfx h.mac)
/-- SegID in the packet when it leaves the AS of hop `h` over an external link -/
def nextSeg (cd : Bool) (seg : Nat) (h : Hop) : Nat :=
  if cd then updateSegID seg (pfx h.mac) else updateSegID seg (pfx h.mac)

/-- cursor on the first hop of `l` (the current segment's hops still to be processed) -/
def mkCur (before : List Seg) (info : Info) (done l : List Hop) (after : List Seg) : Cursor :=
  match l with
  | h :: t => ⟨before, info, done, h, t, after⟩
  | [] => ⟨before, info, done, ⟨0, 0, 0, 0, false, false⟩, [], after⟩

theorem incPath_mkCur (before : List Seg) (info : Info) (done : List Hop) (h : Hop) (l : List Hop)
    (after : List Seg) (hl : l ≠ []) :
    (⟨before, info, done, h, l, after⟩ : Cursor).incPath = some (mkCur before info (done ++ [h]) l after) := by
  cases l with
  | nil => exact absurd rfl hl
  | cons x y => rfl

/-- the router configuration of the only border router of AS `a` -/
def cfgOf (net : Net) (a : Nat) : RCfg := ⟨(net a).key, 0, (net a).ifaces⟩

theorem cfgOf_iface (net : Net) (a e : Nat) : (cfgOf net a).iface e = (net a).iface e := rfl

/-- `Transits … seg a i hops seg' a' i' tr`: a packet that enters AS `a` on interface `i` with
    SegID `seg` and `hops` as the next hop fields of its current segment (none of them the last of
    the segment) is handed from AS to AS, each hop field being consumed by the AS it belongs to,
    and arrives at AS `a'` on interface `i'` with SegID `seg'`, having crossed `tr`. -/
inductive Transits (mac : MacFn) (net : Net) (now src dst : Nat) (cd pr : Bool) (ts : Nat) :
    Nat → Nat → Nat → List Hop → Nat → Nat → Nat → List (Nat × Nat) → Prop
  | nil (seg a i : Nat) : Transits mac net now src dst cd pr ts seg a i [] seg a i []
  | cons (seg a i : Nat) (h : Hop) (rest : List Hop) (seg' a' i' : Nat) (tr : List (Nat × Nat))
      (fi f g : Iface) :
      i ≠ 0 → i = inSide cd h → a ≠ src → a ≠ dst →
      macOk mac (net a).key ⟨cd, pr, usedSeg cd seg h, ts⟩ h = true →
      expired now ts h.exp = false → h.inAlert = false → h.egAlert = false →
      (net a).iface i = some fi →
      (net a).iface (outSide cd h) = some f → outSide cd h ≠ 0 → f.up = true → f.owner = 0 →
      ltSame fi.lt f.lt = true →
      (net f.nbr).iface f.nbrIf = some g → g.owner = 0 →
      Transits mac net now src dst cd pr ts (nextSeg cd seg h) f.nbr f.nbrIf rest seg' a' i' tr →
      Transits mac net now src dst cd pr ts seg a i (h :: rest) seg' a' i'
        ((a, outSide cd h) :: (f.nbr, f.nbrIf) :: tr)

theorem hasSingleton_false (before : List Seg) (info : Info) (done : List Hop) (cur : Hop)
    (todo : List Hop) (after : List Seg)
    (hb : ∀ s ∈ before, s.hops.length ≠ 1) (ha : ∀ s ∈ after, s.hops.length ≠ 1)
    (hc : done.length + 1 + todo.length ≠ 1) :
    (⟨before, info, done, cur, todo, after⟩ : Cursor).hasSingleton = false := by
  simp only [Cursor.hasSingleton, Cursor.segLens, Cursor.curSegLen, List.any_append, List.any_map,
    List.any_cons, List.any_nil, Bool.or_false, Bool.or_eq_false_iff, List.any_eq_false,
    Function.comp, beq_iff_eq]
  exact ⟨⟨fun s hs => hb s hs, by simpa using hc⟩, fun s hs => ha s hs⟩

/-- one transit AS: in over an external link, out over an external link, same segment -/
theorem transit_step (mac : MacFn) (net : Net) (now src dst : Nat) (cd pr : Bool) (ts seg a i : Nat)
    (h : Hop) (before : List Seg) (done todo : List Hop) (after : List Seg) (fi f : Iface)
    (hb : ∀ s ∈ before, s.hops.length ≠ 1) (ha : ∀ s ∈ after, s.hops.length ≠ 1)
    (hlen : done.length + 1 + todo.length ≠ 1)
    (hpr : pr = true → before.length + 1 + after.length = 2 ∧ (before ≠ [] → done ≠ []))
    (htodo : todo ≠ [])
    (hi0 : i ≠ 0) (hi : i = inSide cd h) (hsrc : a ≠ src) (hdst : a ≠ dst)
    (hmac : macOk mac (net a).key ⟨cd, pr, usedSeg cd seg h, ts⟩ h = true)
    (hexp : expired now ts h.exp = false) (hia : h.inAlert = false) (hea : h.egAlert = false)
    (hfi : (net a).iface i = some fi)
    (hf : (net a).iface (outSide cd h) = some f) (ho0 : outSide cd h ≠ 0) (hup : f.up = true)
    (hown : f.owner = 0) (hlt : ltSame fi.lt f.lt = true) :
    routerStep mac (cfgOf net a) now (.ext i) (a == src) (a == dst)
        ⟨before, ⟨cd, pr, seg, ts⟩, done, h, todo, after⟩ =
      .forward (outSide cd h)
        (mkCur before ⟨cd, pr, nextSeg cd seg h, ts⟩ (done ++ [h]) todo after) := by
  have hsl : (a == src) = false := by simp [hsrc]
  have hdl : (a == dst) = false := by simp [hdst]
  rw [hsl, hdl]
  -- peering is false on a transit hop
  have hdp : determinePeer ⟨before, ⟨cd, pr, seg, ts⟩, done, h, todo, after⟩ = some false := by
    unfold determinePeer
    cases pr with
    | false => simp
    | true =>
      obtain ⟨h2, h3⟩ := hpr rfl
      have ht : todo.isEmpty = false := by cases todo <;> simp_all
      by_cases hbe : before = []
      · subst hbe; simp at h2; simp [h2, ht]
      · have hd : done.isEmpty = false := by
          have := h3 hbe; cases done <;> simp_all
        have hbb : before.isEmpty = false := by cases before <;> simp_all
        simp [h2, ht, hd, hbb]
  have hing : ingUpd ⟨before, ⟨cd, pr, seg, ts⟩, done, h, todo, after⟩ (.ext i) false =
      ⟨before, ⟨cd, pr, usedSeg cd seg h, ts⟩, done, h, todo, after⟩ := by
    cases cd <;> simp [ingUpd, usedSeg, Arrival.ifid, hi0]
  have hst : stIngress mac (cfgOf net a) now (.ext i) false false
      ⟨before, ⟨cd, pr, seg, ts⟩, done, h, todo, after⟩ =
      .ok ⟨ingUpd ⟨before, ⟨cd, pr, seg, ts⟩, done, h, todo, after⟩ (.ext i) false, false⟩ := by
    apply stIngress_pass
    · have := hasSingleton_false before ⟨cd, pr, seg, ts⟩ done h todo after hb ha hlen
      simp [this]
    · exact hdp
    · rw [hing]; exact hexp
    · intro _; rw [hing]; simp only [Arrival.ifid]; cases cd <;> simpa [inSide] using hi
    · simp [Arrival.ifid, hi0]
    · simp [Arrival.ifid, hi0]
    · rw [hing]
      have : (⟨before, ⟨cd, pr, usedSeg cd seg h, ts⟩, done, h, todo, after⟩ : Cursor).isLastHop = false := by
        cases todo <;> simp_all [Cursor.isLastHop]
      simp [Arrival.ifid, hi0, this]
    · rw [hing]; exact hmac
    · rw [hing]; cases cd <;> simp [hia, hea]
  rw [hing] at hst
  have := routerStep_forward mac (cfgOf net a) now (.ext i) false
    ⟨before, ⟨cd, pr, seg, ts⟩, done, h, todo, after⟩ false f
    (mkCur before ⟨cd, pr, nextSeg cd seg h, ts⟩ (done ++ [h]) todo after)
  rw [hing] at this
  have heo : egressOf ⟨before, ⟨cd, pr, usedSeg cd seg h, ts⟩, done, h, todo, after⟩ = outSide cd h := by
    cases cd <;> rfl
  rw [heo] at this
  apply this hst
  · have : (⟨before, ⟨cd, pr, usedSeg cd seg h, ts⟩, done, h, todo, after⟩ : Cursor).isXover = false := by
      cases todo <;> simp_all [Cursor.isXover]
    simp [this]
  · simp only [egressIface]
    have : (outSide cd h == 0) = false := by simp [ho0]
    rw [this]; simp only [Bool.false_eq_true, if_false]; exact hf
  · exact hown
  · right
    simp only [ingressLT, Arrival.ifid, cfgOf_iface, hfi]; exact hlt
  · cases cd <;> simp [hia, hea]
  · exact hup
  · have : egUpd ⟨before, ⟨cd, pr, usedSeg cd seg h, ts⟩, done, h, todo, after⟩ false =
        ⟨before, ⟨cd, pr, nextSeg cd seg h, ts⟩, done, h, todo, after⟩ := by
      cases cd <;> simp [egUpd, usedSeg, nextSeg]
    rw [this]
    exact incPath_mkCur before _ done h todo after htodo

/-- one step of `run` when the router forwards over one of its own external links -/
theorem run_forward_ext (mac : MacFn) (net : Net) (now src dst fuel a r : Nat) (arr : Arrival)
    (c c' : Cursor) (tr : List (Nat × Nat)) (e : Nat) (f g : Iface)
    (hstep : routerStep mac ⟨(net a).key, r, (net a).ifaces⟩ now arr (a == src) (a == dst) c = .forward e c')
    (hf : (net a).iface e = some f) (hown : f.owner = r)
    (hg : (net f.nbr).iface f.nbrIf = some g) :
    run mac net now src dst (fuel + 1) a r arr c tr =
      run mac net now src dst fuel f.nbr g.owner (.ext f.nbrIf) c' (tr ++ [(a, e), (f.nbr, f.nbrIf)]) := by
  simp [run, hstep, hf, hown, hg]

theorem run_deliver (mac : MacFn) (net : Net) (now src dst fuel a r : Nat) (arr : Arrival)
    (c c' : Cursor) (tr : List (Nat × Nat))
    (hstep : routerStep mac ⟨(net a).key, r, (net a).ifaces⟩ now arr (a == src) (a == dst) c = .deliver c') :
    run mac net now src dst (fuel + 1) a r arr c tr = .delivered a tr c' := by
  simp [run, hstep]

/-- the packet moves along all transit hops -/
theorem run_transits {mac : MacFn} {net : Net} {now src dst : Nat} {cd pr : Bool} {ts : Nat}
    {seg a i : Nat} {hops : List Hop} {seg' a' i' : Nat} {tr : List (Nat × Nat)}
    (hT : Transits mac net now src dst cd pr ts seg a i hops seg' a' i' tr)
    (before after : List Seg)
    (hb : ∀ s ∈ before, s.hops.length ≠ 1) (ha : ∀ s ∈ after, s.hops.length ≠ 1)
    (hpr : pr = true → before.length + 1 + after.length = 2) :
    ∀ (done : List Hop) (t0 : Hop) (tl : List Hop) (fuel : Nat) (tr0 : List (Nat × Nat)),
      (pr = true → before ≠ [] → done ≠ []) →
      done.length + (hops ++ t0 :: tl).length ≠ 1 →
      run mac net now src dst (fuel + hops.length) a 0 (.ext i)
          (mkCur before ⟨cd, pr, seg, ts⟩ done (hops ++ t0 :: tl) after) tr0 =
        run mac net now src dst fuel a' 0 (.ext i')
          (mkCur before ⟨cd, pr, seg', ts⟩ (done ++ hops) (t0 :: tl) after) (tr0 ++ tr) := by
  induction hT with
  | nil seg a i => intro done t0 tl fuel tr0 _ _; simp
  | cons seg a i h rest seg' a' i' tr fi f g hi0 hi hsrc hdst hmac hexp hia hea hfi hf ho0 hup hown
      hlt hg hgo _ ih =>
    intro done t0 tl fuel tr0 hd hlen
    have hstep := transit_step mac net now src dst cd pr ts seg a i h before done (rest ++ t0 :: tl)
      after fi f hb ha (by simp at hlen ⊢; omega)
      (fun hp => ⟨hpr hp, hd hp⟩) (by simp) hi0 hi hsrc hdst hmac hexp hia hea hfi hf ho0 hup hown hlt
    have h1 : fuel + (h :: rest).length = (fuel + rest.length) + 1 := by simp; omega
    rw [h1]
    simp only [List.cons_append, mkCur]
    rw [run_forward_ext mac net now src dst (fuel + rest.length) a 0 (.ext i) _ _ tr0 (outSide cd h) f g
      hstep hf hown hg, hgo]
    have := ih (done ++ [h]) t0 tl fuel (tr0 ++ [(a, outSide cd h), (f.nbr, f.nbrIf)])
      (fun _ _ => by simp) (by simp at hlen ⊢; omega)
    rw [this]
    simp [List.append_assoc, mkCur]

/-- SegID in the packet when it leaves the first AS of a segment (no ingress update there) -/
def egSeg (cd : Bool) (seg : Nat) (h : Hop) : Nat := if cd then updateSegID seg (pfx h.mac) else seg

/-- the source AS: the packet comes from a host and leaves over an external link -/
theorem first_step (mac : MacFn) (net : Net) (now src dst : Nat) (cd pr : Bool) (ts seg : Nat)
    (h : Hop) (todo : List Hop) (after : List Seg) (f : Iface)
    (ha : ∀ s ∈ after, s.hops.length ≠ 1) (htodo : todo ≠ [])
    (hpr : pr = true → after.length = 1)
    (hsd : src ≠ dst)
    (hmac : macOk mac (net src).key ⟨cd, pr, seg, ts⟩ h = true)
    (hexp : expired now ts h.exp = false) (hia : h.inAlert = false) (hea : h.egAlert = false)
    (hf : (net src).iface (outSide cd h) = some f) (ho0 : outSide cd h ≠ 0) (hup : f.up = true)
    (hown : f.owner = 0) :
    routerStep mac (cfgOf net src) now .host (src == src) (src == dst)
        ⟨[], ⟨cd, pr, seg, ts⟩, [], h, todo, after⟩ =
      .forward (outSide cd h) (mkCur [] ⟨cd, pr, egSeg cd seg h, ts⟩ [h] todo after) := by
  have hdl : (src == dst) = false := by simp [hsd]
  rw [hdl]
  simp only [beq_self_eq_true]
  have hte : todo.isEmpty = false := by cases todo <;> simp_all
  have hdp : determinePeer ⟨[], ⟨cd, pr, seg, ts⟩, [], h, todo, after⟩ = some false := by
    unfold determinePeer
    cases pr with
    | false => simp
    | true => simp [hpr rfl, hte]
  have hing : ingUpd ⟨[], ⟨cd, pr, seg, ts⟩, [], h, todo, after⟩ .host false =
      ⟨[], ⟨cd, pr, seg, ts⟩, [], h, todo, after⟩ := by
    simp [ingUpd, Arrival.ifid]
  have hst : stIngress mac (cfgOf net src) now .host true false
      ⟨[], ⟨cd, pr, seg, ts⟩, [], h, todo, after⟩ =
      .ok ⟨ingUpd ⟨[], ⟨cd, pr, seg, ts⟩, [], h, todo, after⟩ .host false, false⟩ := by
    apply stIngress_pass
    · have := hasSingleton_false [] ⟨cd, pr, seg, ts⟩ [] h todo after (by simp) ha
        (by cases todo <;> simp_all)
      simp [this]
    · exact hdp
    · rw [hing]; exact hexp
    · intro h0; simp [Arrival.ifid] at h0
    · rw [hing]; simp [Cursor.isFirstHop]
    · simp [Arrival.ifid]
    · simp [Arrival.ifid]
    · rw [hing]; exact hmac
    · simp [Arrival.ifid]
  have := routerStep_forward mac (cfgOf net src) now .host true
    ⟨[], ⟨cd, pr, seg, ts⟩, [], h, todo, after⟩ false f
    (mkCur [] ⟨cd, pr, egSeg cd seg h, ts⟩ [h] todo after)
  rw [hing] at this hst
  have heo : egressOf ⟨[], ⟨cd, pr, seg, ts⟩, [], h, todo, after⟩ = outSide cd h := by
    cases cd <;> rfl
  rw [heo] at this
  apply this hst
  · simp [Cursor.isXover, hte]
  · simp only [egressIface]
    have : (outSide cd h == 0) = false := by simp [ho0]
    rw [this]; simp only [Bool.false_eq_true, if_false]; exact hf
  · exact hown
  · left; rfl
  · cases cd <;> simp [hia, hea]
  · exact hup
  · have : egUpd ⟨[], ⟨cd, pr, seg, ts⟩, [], h, todo, after⟩ false =
        ⟨[], ⟨cd, pr, egSeg cd seg h, ts⟩, [], h, todo, after⟩ := by
      cases cd <;> simp [egUpd, egSeg]
    rw [this]
    exact incPath_mkCur [] _ [] h todo after htodo

/-- SegID presented to the MAC check of the last hop of the path -/
def lastSeg (cd p : Bool) (seg : Nat) (h : Hop) : Nat :=
  if !cd && !p then updateSegID seg (pfx h.mac) else seg

/-- the destination AS: the packet arrives over an external link on the last hop of the path and
    is handed to the internal network -/
theorem last_step (mac : MacFn) (net : Net) (now src dst : Nat) (cd pr p : Bool) (ts seg i : Nat)
    (h : Hop) (before : List Seg) (done : List Hop)
    (hb : ∀ s ∈ before, s.hops.length ≠ 1) (hlen : pr = false → done ≠ [])
    (hp : determinePeer ⟨before, ⟨cd, pr, seg, ts⟩, done, h, [], []⟩ = some p)
    (hsd : src ≠ dst) (hi0 : i ≠ 0) (hi : i = inSide cd h)
    (hmac : macOk mac (net dst).key ⟨cd, pr, lastSeg cd p seg h, ts⟩ h = true)
    (hexp : expired now ts h.exp = false) (hia : h.inAlert = false) (hea : h.egAlert = false) :
    routerStep mac (cfgOf net dst) now (.ext i) (dst == src) (dst == dst)
        ⟨before, ⟨cd, pr, seg, ts⟩, done, h, [], []⟩ =
      .deliver ⟨before, ⟨cd, pr, lastSeg cd p seg h, ts⟩, done, h, [], []⟩ := by
  have hsl : (dst == src) = false := by simp [Ne.symm hsd]
  rw [hsl]
  simp only [beq_self_eq_true]
  have hing : ingUpd ⟨before, ⟨cd, pr, seg, ts⟩, done, h, [], []⟩ (.ext i) p =
      ⟨before, ⟨cd, pr, lastSeg cd p seg h, ts⟩, done, h, [], []⟩ := by
    cases cd <;> cases p <;> simp [ingUpd, lastSeg, Arrival.ifid, hi0]
  have hst : stIngress mac (cfgOf net dst) now (.ext i) false true
      ⟨before, ⟨cd, pr, seg, ts⟩, done, h, [], []⟩ =
      .ok ⟨ingUpd ⟨before, ⟨cd, pr, seg, ts⟩, done, h, [], []⟩ (.ext i) p, p⟩ := by
    apply stIngress_pass
    · cases pr with
      | true => simp
      | false =>
        have := hasSingleton_false before ⟨cd, false, seg, ts⟩ done h [] [] hb (by simp)
          (by have := hlen rfl; cases done <;> simp_all)
        simp [this]
    · exact hp
    · rw [hing]; exact hexp
    · intro _; rw [hing]; simp only [Arrival.ifid]; cases cd <;> simpa [inSide] using hi
    · simp [Arrival.ifid, hi0]
    · simp [Arrival.ifid, hi0]
    · rw [hing]; simp [Arrival.ifid, hi0, Cursor.isLastHop]
    · rw [hing]; exact hmac
    · rw [hing]; cases cd <;> simp [hia, hea]
  have := routerStep_deliver mac (cfgOf net dst) now (.ext i) false
    ⟨before, ⟨cd, pr, seg, ts⟩, done, h, [], []⟩ p hst
  rw [hing] at this
  exact this

/-- the AS where two segments meet (no peering): the last hop of the first segment (always
    traversed against construction direction) and the first hop of the second are validated by the
    same router, the packet leaves over the egress interface of the second -/
theorem xover_step (mac : MacFn) (net : Net) (now src dst : Nat) (cd2 : Bool)
    (ts1 seg1 ts2 seg2 a i : Nat) (h1 h2 : Hop) (t2 : List Hop)
    (before : List Seg) (done : List Hop) (after2 : List Seg) (fi f : Iface)
    (hb : ∀ s ∈ before, s.hops.length ≠ 1) (ha : ∀ s ∈ after2, s.hops.length ≠ 1)
    (hdone : done ≠ []) (ht2 : t2 ≠ [])
    (hi0 : i ≠ 0) (hi : i = h1.cEg) (hsrc : a ≠ src) (hdst : a ≠ dst)
    (hmac1 : macOk mac (net a).key ⟨false, false, updateSegID seg1 (pfx h1.mac), ts1⟩ h1 = true)
    (hexp1 : expired now ts1 h1.exp = false) (hia1 : h1.inAlert = false) (hea1 : h1.egAlert = false)
    (hmac2 : macOk mac (net a).key ⟨cd2, false, seg2, ts2⟩ h2 = true)
    (hexp2 : expired now ts2 h2.exp = false) (hia2 : h2.inAlert = false) (hea2 : h2.egAlert = false)
    (hfi : (net a).iface i = some fi)
    (hf : (net a).iface (outSide cd2 h2) = some f) (ho0 : outSide cd2 h2 ≠ 0) (hup : f.up = true)
    (hown : f.owner = 0) (hlt : ltXover fi.lt f.lt = true) :
    routerStep mac (cfgOf net a) now (.ext i) (a == src) (a == dst)
        ⟨before, ⟨false, false, seg1, ts1⟩, done, h1, [], ⟨⟨cd2, false, seg2, ts2⟩, h2 :: t2⟩ :: after2⟩ =
      .forward (outSide cd2 h2)
        (mkCur (before ++ [⟨⟨false, false, updateSegID seg1 (pfx h1.mac), ts1⟩, done ++ [h1]⟩])
          ⟨cd2, false, egSeg cd2 seg2 h2, ts2⟩ [h2] t2 after2) := by
  have hsl : (a == src) = false := by simp [hsrc]
  have hdl : (a == dst) = false := by simp [hdst]
  rw [hsl, hdl]
  have hing : ingUpd ⟨before, ⟨false, false, seg1, ts1⟩, done, h1, [],
        ⟨⟨cd2, false, seg2, ts2⟩, h2 :: t2⟩ :: after2⟩ (.ext i) false =
      ⟨before, ⟨false, false, updateSegID seg1 (pfx h1.mac), ts1⟩, done, h1, [],
        ⟨⟨cd2, false, seg2, ts2⟩, h2 :: t2⟩ :: after2⟩ := by
    simp [ingUpd, Arrival.ifid, hi0]
  have hst : stIngress mac (cfgOf net a) now (.ext i) false false
      ⟨before, ⟨false, false, seg1, ts1⟩, done, h1, [], ⟨⟨cd2, false, seg2, ts2⟩, h2 :: t2⟩ :: after2⟩ =
      .ok ⟨ingUpd ⟨before, ⟨false, false, seg1, ts1⟩, done, h1, [],
        ⟨⟨cd2, false, seg2, ts2⟩, h2 :: t2⟩ :: after2⟩ (.ext i) false, false⟩ := by
    apply stIngress_pass
    · have := hasSingleton_false before ⟨false, false, seg1, ts1⟩ done h1 []
        (⟨⟨cd2, false, seg2, ts2⟩, h2 :: t2⟩ :: after2) hb
        (by
          intro s hs
          simp only [List.mem_cons] at hs
          rcases hs with rfl | hs
          · cases t2 <;> simp_all
          · exact ha s hs)
        (by cases done <;> simp_all)
      simp [this]
    · simp [determinePeer]
    · rw [hing]; exact hexp1
    · intro _; rw [hing]; simp only [Arrival.ifid]; simpa using hi
    · simp [Arrival.ifid, hi0]
    · simp [Arrival.ifid, hi0]
    · rw [hing]; simp [Arrival.ifid, hi0, Cursor.isLastHop]
    · rw [hing]; exact hmac1
    · rw [hing]; simp [hia1, hea1]
  rw [hing] at hst
  have := routerStep_xover mac (cfgOf net a) now (.ext i) false
    ⟨before, ⟨false, false, seg1, ts1⟩, done, h1, [], ⟨⟨cd2, false, seg2, ts2⟩, h2 :: t2⟩ :: after2⟩
    ⟨before ++ [⟨⟨false, false, updateSegID seg1 (pfx h1.mac), ts1⟩, done ++ [h1]⟩],
      ⟨cd2, false, seg2, ts2⟩, [], h2, t2, after2⟩ f
    (mkCur (before ++ [⟨⟨false, false, updateSegID seg1 (pfx h1.mac), ts1⟩, done ++ [h1]⟩])
          ⟨cd2, false, egSeg cd2 seg2 h2, ts2⟩ [h2] t2 after2)
  rw [hing] at this
  have heo : egressOf ⟨before ++ [⟨⟨false, false, updateSegID seg1 (pfx h1.mac), ts1⟩, done ++ [h1]⟩],
      ⟨cd2, false, seg2, ts2⟩, [], h2, t2, after2⟩ = outSide cd2 h2 := by
    cases cd2 <;> rfl
  rw [heo] at this
  apply this hst
  · simp [Cursor.isXover]
  · simp [Cursor.incPath]
  · exact hexp2
  · exact hmac2
  · simp only [egressIface]
    have : (outSide cd2 h2 == 0) = false := by simp [ho0]
    rw [this]; simp only [Bool.false_eq_true, if_false]; exact hf
  · exact hown
  · simpa [Arrival.ifid] using hi0
  · simp only [ingressLT, Arrival.ifid, cfgOf_iface, hfi]; exact hlt
  · cases cd2 <;> simp [hia2, hea2]
  · exact hup
  · have : egUpd ⟨before ++ [⟨⟨false, false, updateSegID seg1 (pfx h1.mac), ts1⟩, done ++ [h1]⟩],
          ⟨cd2, false, seg2, ts2⟩, [], h2, t2, after2⟩ false =
        ⟨before ++ [⟨⟨false, false, updateSegID seg1 (pfx h1.mac), ts1⟩, done ++ [h1]⟩],
          ⟨cd2, false, egSeg cd2 seg2 h2, ts2⟩, [], h2, t2, after2⟩ := by
      cases cd2 <;> simp [egUpd, egSeg]
    rw [this]
    exact incPath_mkCur _ _ [] h2 t2 after2 ht2

/-- the AS where two segments meet (no peering), first segment in either direction: the last hop of the first segment (always
    traversed against construction direction) and the first hop of the second are validated by the
    same router, the packet leaves over the egress interface of the second -/
theorem xover_step_gen (mac : MacFn) (net : Net) (now src dst : Nat) (cd1 cd2 : Bool)
    (ts1 seg1 ts2 seg2 a i : Nat) (h1 h2 : Hop) (t2 : List Hop)
    (before : List Seg) (done : List Hop) (after2 : List Seg) (fi f : Iface)
    (hb : ∀ s ∈ before, s.hops.length ≠ 1) (ha : ∀ s ∈ after2, s.hops.length ≠ 1)
    (hdone : done ≠ []) (ht2 : t2 ≠ [])
    (hi0 : i ≠ 0) (hi : i = inSide cd1 h1) (hsrc : a ≠ src) (hdst : a ≠ dst)
    (hmac1 : macOk mac (net a).key ⟨cd1, false, usedSeg cd1 seg1 h1, ts1⟩ h1 = true)
    (hexp1 : expired now ts1 h1.exp = false) (hia1 : h1.inAlert = false) (hea1 : h1.egAlert = false)
    (hmac2 : macOk mac (net a).key ⟨cd2, false, seg2, ts2⟩ h2 = true)
    (hexp2 : expired now ts2 h2.exp = false) (hia2 : h2.inAlert = false) (hea2 : h2.egAlert = false)
    (hfi : (net a).iface i = some fi)
    (hf : (net a).iface (outSide cd2 h2) = some f) (ho0 : outSide cd2 h2 ≠ 0) (hup : f.up = true)
    (hown : f.owner = 0) (hlt : ltXover fi.lt f.lt = true) :
    routerStep mac (cfgOf net a) now (.ext i) (a == src) (a == dst)
        ⟨before, ⟨cd1, false, seg1, ts1⟩, done, h1, [], ⟨⟨cd2, false, seg2, ts2⟩, h2 :: t2⟩ :: after2⟩ =
      .forward (outSide cd2 h2)
        (mkCur (before ++ [⟨⟨cd1, false, usedSeg cd1 seg1 h1, ts1⟩, done ++ [h1]⟩])
          ⟨cd2, false, egSeg cd2 seg2 h2, ts2⟩ [h2] t2 after2) := by
  have hsl : (a == src) = false := by simp [hsrc]
  have hdl : (a == dst) = false := by simp [hdst]
  rw [hsl, hdl]
  have hing : ingUpd ⟨before, ⟨cd1, false, seg1, ts1⟩, done, h1, [],
        ⟨⟨cd2, false, seg2, ts2⟩, h2 :: t2⟩ :: after2⟩ (.ext i) false =
      ⟨before, ⟨cd1, false, usedSeg cd1 seg1 h1, ts1⟩, done, h1, [],
        ⟨⟨cd2, false, seg2, ts2⟩, h2 :: t2⟩ :: after2⟩ := by
    cases cd1 <;> simp [ingUpd, usedSeg, Arrival.ifid, hi0]
  have hst : stIngress mac (cfgOf net a) now (.ext i) false false
      ⟨before, ⟨cd1, false, seg1, ts1⟩, done, h1, [], ⟨⟨cd2, false, seg2, ts2⟩, h2 :: t2⟩ :: after2⟩ =
      .ok ⟨ingUpd ⟨before, ⟨cd1, false, seg1, ts1⟩, done, h1, [],
        ⟨⟨cd2, false, seg2, ts2⟩, h2 :: t2⟩ :: after2⟩ (.ext i) false, false⟩ := by
    apply stIngress_pass
    · have := hasSingleton_false before ⟨cd1, false, seg1, ts1⟩ done h1 []
        (⟨⟨cd2, false, seg2, ts2⟩, h2 :: t2⟩ :: after2) hb
        (by
          intro s hs
          simp only [List.mem_cons] at hs
          rcases hs with rfl | hs
          · cases t2 <;> simp_all
          · exact ha s hs)
        (by cases done <;> simp_all)
      simp [this]
    · simp [determinePeer]
    · rw [hing]; exact hexp1
    · intro _; rw [hing]; simp only [Arrival.ifid]; cases cd1 <;> simpa [inSide] using hi
    · simp [Arrival.ifid, hi0]
    · simp [Arrival.ifid, hi0]
    · rw [hing]; simp [Arrival.ifid, hi0, Cursor.isLastHop]
    · rw [hing]; exact hmac1
    · rw [hing]; cases cd1 <;> simp [hia1, hea1]
  rw [hing] at hst
  have := routerStep_xover mac (cfgOf net a) now (.ext i) false
    ⟨before, ⟨cd1, false, seg1, ts1⟩, done, h1, [], ⟨⟨cd2, false, seg2, ts2⟩, h2 :: t2⟩ :: after2⟩
    ⟨before ++ [⟨⟨cd1, false, usedSeg cd1 seg1 h1, ts1⟩, done ++ [h1]⟩],
      ⟨cd2, false, seg2, ts2⟩, [], h2, t2, after2⟩ f
    (mkCur (before ++ [⟨⟨cd1, false, usedSeg cd1 seg1 h1, ts1⟩, done ++ [h1]⟩])
          ⟨cd2, false, egSeg cd2 seg2 h2, ts2⟩ [h2] t2 after2)
  rw [hing] at this
  have heo : egressOf ⟨before ++ [⟨⟨cd1, false, usedSeg cd1 seg1 h1, ts1⟩, done ++ [h1]⟩],
      ⟨cd2, false, seg2, ts2⟩, [], h2, t2, after2⟩ = outSide cd2 h2 := by
    cases cd2 <;> rfl
  rw [heo] at this
  apply this hst
  · simp [Cursor.isXover]
  · simp [Cursor.incPath]
  · exact hexp2
  · exact hmac2
  · simp only [egressIface]
    have : (outSide cd2 h2 == 0) = false := by simp [ho0]
    rw [this]; simp only [Bool.false_eq_true, if_false]; exact hf
  · exact hown
  · simpa [Arrival.ifid] using hi0
  · simp only [ingressLT, Arrival.ifid, cfgOf_iface, hfi]; exact hlt
  · cases cd2 <;> simp [hia2, hea2]
  · exact hup
  · have : egUpd ⟨before ++ [⟨⟨cd1, false, usedSeg cd1 seg1 h1, ts1⟩, done ++ [h1]⟩],
          ⟨cd2, false, seg2, ts2⟩, [], h2, t2, after2⟩ false =
        ⟨before ++ [⟨⟨cd1, false, usedSeg cd1 seg1 h1, ts1⟩, done ++ [h1]⟩],
          ⟨cd2, false, egSeg cd2 seg2 h2, ts2⟩, [], h2, t2, after2⟩ := by
      cases cd2 <;> simp [egUpd, egSeg]
    rw [this]
    exact incPath_mkCur _ _ [] h2 t2 after2 ht2

/-- a transit AS finds the current hop field expired: SCMP "path expired" is requested and the
    packet handed to the slow path already carries the SegID as updated at ingress -/
theorem expired_step (mac : MacFn) (net : Net) (now src dst : Nat) (cd : Bool) (ts seg a i : Nat)
    (h : Hop) (before : List Seg) (done todo : List Hop) (after : List Seg)
    (hb : ∀ s ∈ before, s.hops.length ≠ 1) (ha : ∀ s ∈ after, s.hops.length ≠ 1)
    (hlen : done.length + 1 + todo.length ≠ 1) (hi0 : i ≠ 0)
    (hexp : expired now ts h.exp = true) :
    routerStep mac (cfgOf net a) now (.ext i) (a == src) (a == dst)
        ⟨before, ⟨cd, false, seg, ts⟩, done, h, todo, after⟩ =
      .slow 4 52 0 ⟨before, ⟨cd, false, usedSeg cd seg h, ts⟩, done, h, todo, after⟩ := by
  have hing : ingUpd ⟨before, ⟨cd, false, seg, ts⟩, done, h, todo, after⟩ (.ext i) false =
      ⟨before, ⟨cd, false, usedSeg cd seg h, ts⟩, done, h, todo, after⟩ := by
    cases cd <;> simp [ingUpd, usedSeg, Arrival.ifid, hi0]
  have hs := hasSingleton_false before ⟨cd, false, seg, ts⟩ done h todo after hb ha hlen
  unfold routerStep stIngress
  simp only [hs, Bool.and_false, Bool.false_eq_true, if_false, determinePeer, Bool.not_false,
    if_true, hing]
  unfold stChecks
  simp [hexp]

/-! ### Peering hops -/

/-- the peering AS of the up segment, packet from a neighbour: validated with the SegID as it is
    (no update on a peering hop), sent over the peering link, pointers moved to the down segment -/
theorem peer_out_ext (mac : MacFn) (net : Net) (now src dst : Nat) (ts seg a i : Nat) (h : Hop)
    (done : List Hop) (i1 : Info) (h1 : Hop) (t1 : List Hop) (fi f : Iface)
    (hi0 : i ≠ 0) (hi : i = h.cEg) (hsrc : a ≠ src) (hdst : a ≠ dst)
    (hmac : macOk mac (net a).key ⟨false, true, seg, ts⟩ h = true)
    (hexp : expired now ts h.exp = false) (hia : h.inAlert = false) (hea : h.egAlert = false)
    (hfi : (net a).iface i = some fi)
    (hf : (net a).iface h.cIn = some f) (ho0 : h.cIn ≠ 0) (hup : f.up = true) (hown : f.owner = 0)
    (hlt : ltSame fi.lt f.lt = true) :
    routerStep mac (cfgOf net a) now (.ext i) (a == src) (a == dst)
        ⟨[], ⟨false, true, seg, ts⟩, done, h, [], [⟨i1, h1 :: t1⟩]⟩ =
      .forward h.cIn ⟨[⟨⟨false, true, seg, ts⟩, done ++ [h]⟩], i1, [], h1, t1, []⟩ := by
  have hsl : (a == src) = false := by simp [hsrc]
  have hdl : (a == dst) = false := by simp [hdst]
  rw [hsl, hdl]
  have hdp : determinePeer ⟨[], ⟨false, true, seg, ts⟩, done, h, [], [⟨i1, h1 :: t1⟩]⟩ = some true := by
    simp [determinePeer]
  have hing : ingUpd ⟨[], ⟨false, true, seg, ts⟩, done, h, [], [⟨i1, h1 :: t1⟩]⟩ (.ext i) true =
      ⟨[], ⟨false, true, seg, ts⟩, done, h, [], [⟨i1, h1 :: t1⟩]⟩ := by
    simp [ingUpd]
  have hst : stIngress mac (cfgOf net a) now (.ext i) false false
      ⟨[], ⟨false, true, seg, ts⟩, done, h, [], [⟨i1, h1 :: t1⟩]⟩ =
      .ok ⟨ingUpd ⟨[], ⟨false, true, seg, ts⟩, done, h, [], [⟨i1, h1 :: t1⟩]⟩ (.ext i) true, true⟩ := by
    apply stIngress_pass
    · simp
    · exact hdp
    · rw [hing]; exact hexp
    · intro _; rw [hing]; simpa [Arrival.ifid] using hi
    · simp [Arrival.ifid, hi0]
    · simp [Arrival.ifid, hi0]
    · rw [hing]; simp [Arrival.ifid, hi0, Cursor.isLastHop]
    · rw [hing]; exact hmac
    · rw [hing]; simp [hea]
  have := routerStep_forward mac (cfgOf net a) now (.ext i) false
    ⟨[], ⟨false, true, seg, ts⟩, done, h, [], [⟨i1, h1 :: t1⟩]⟩ true f
    ⟨[⟨⟨false, true, seg, ts⟩, done ++ [h]⟩], i1, [], h1, t1, []⟩
  rw [hing] at this hst
  have heo : egressOf ⟨[], ⟨false, true, seg, ts⟩, done, h, [], [⟨i1, h1 :: t1⟩]⟩ = h.cIn := rfl
  rw [heo] at this
  apply this hst
  · simp
  · simp only [egressIface]
    have : (h.cIn == 0) = false := by simp [ho0]
    rw [this]; simp only [Bool.false_eq_true, if_false]; exact hf
  · exact hown
  · right; simp only [ingressLT, Arrival.ifid, cfgOf_iface, hfi]; exact hlt
  · simp [hia]
  · exact hup
  · simp [egUpd, Cursor.incPath]

/-- the same when the source AS itself is the peering AS: the packet comes from a host -/
theorem peer_out_host (mac : MacFn) (net : Net) (now src dst : Nat) (ts seg : Nat) (h : Hop)
    (i1 : Info) (h1 : Hop) (t1 : List Hop) (f : Iface) (hsd : src ≠ dst)
    (hmac : macOk mac (net src).key ⟨false, true, seg, ts⟩ h = true)
    (hexp : expired now ts h.exp = false) (hia : h.inAlert = false)
    (hf : (net src).iface h.cIn = some f) (ho0 : h.cIn ≠ 0) (hup : f.up = true) (hown : f.owner = 0) :
    routerStep mac (cfgOf net src) now .host (src == src) (src == dst)
        ⟨[], ⟨false, true, seg, ts⟩, [], h, [], [⟨i1, h1 :: t1⟩]⟩ =
      .forward h.cIn ⟨[⟨⟨false, true, seg, ts⟩, [h]⟩], i1, [], h1, t1, []⟩ := by
  have hdl : (src == dst) = false := by simp [hsd]
  rw [hdl]
  simp only [beq_self_eq_true]
  have hdp : determinePeer ⟨[], ⟨false, true, seg, ts⟩, [], h, [], [⟨i1, h1 :: t1⟩]⟩ = some true := by
    simp [determinePeer]
  have hing : ingUpd ⟨[], ⟨false, true, seg, ts⟩, [], h, [], [⟨i1, h1 :: t1⟩]⟩ .host true =
      ⟨[], ⟨false, true, seg, ts⟩, [], h, [], [⟨i1, h1 :: t1⟩]⟩ := by
    simp [ingUpd]
  have hst : stIngress mac (cfgOf net src) now .host true false
      ⟨[], ⟨false, true, seg, ts⟩, [], h, [], [⟨i1, h1 :: t1⟩]⟩ =
      .ok ⟨ingUpd ⟨[], ⟨false, true, seg, ts⟩, [], h, [], [⟨i1, h1 :: t1⟩]⟩ .host true, true⟩ := by
    apply stIngress_pass
    · simp
    · exact hdp
    · rw [hing]; exact hexp
    · intro h0; simp [Arrival.ifid] at h0
    · rw [hing]; simp [Cursor.isFirstHop]
    · simp [Arrival.ifid]
    · simp [Arrival.ifid]
    · rw [hing]; exact hmac
    · simp [Arrival.ifid]
  have := routerStep_forward mac (cfgOf net src) now .host true
    ⟨[], ⟨false, true, seg, ts⟩, [], h, [], [⟨i1, h1 :: t1⟩]⟩ true f
    ⟨[⟨⟨false, true, seg, ts⟩, [h]⟩], i1, [], h1, t1, []⟩
  rw [hing] at this hst
  have heo : egressOf ⟨[], ⟨false, true, seg, ts⟩, [], h, [], [⟨i1, h1 :: t1⟩]⟩ = h.cIn := rfl
  rw [heo] at this
  apply this hst
  · simp
  · simp only [egressIface]
    have : (h.cIn == 0) = false := by simp [ho0]
    rw [this]; simp only [Bool.false_eq_true, if_false]; exact hf
  · exact hown
  · left; rfl
  · simp [hia]
  · exact hup
  · simp [egUpd, Cursor.incPath]

/-- the peering AS of the down segment: the packet arrives over the peering link -/
theorem peer_in_forward (mac : MacFn) (net : Net) (now src dst : Nat) (ts seg a i : Nat) (h : Hop)
    (s0 : Seg) (t0 : Hop) (tl : List Hop) (fi f : Iface)
    (hi0 : i ≠ 0) (hi : i = h.cIn) (hsrc : a ≠ src) (hdst : a ≠ dst)
    (hmac : macOk mac (net a).key ⟨true, true, seg, ts⟩ h = true)
    (hexp : expired now ts h.exp = false) (hia : h.inAlert = false) (hea : h.egAlert = false)
    (hfi : (net a).iface i = some fi)
    (hf : (net a).iface h.cEg = some f) (ho0 : h.cEg ≠ 0) (hup : f.up = true) (hown : f.owner = 0)
    (hlt : ltSame fi.lt f.lt = true) :
    routerStep mac (cfgOf net a) now (.ext i) (a == src) (a == dst)
        ⟨[s0], ⟨true, true, seg, ts⟩, [], h, t0 :: tl, []⟩ =
      .forward h.cEg ⟨[s0], ⟨true, true, seg, ts⟩, [h], t0, tl, []⟩ := by
  have hsl : (a == src) = false := by simp [hsrc]
  have hdl : (a == dst) = false := by simp [hdst]
  rw [hsl, hdl]
  have hdp : determinePeer ⟨[s0], ⟨true, true, seg, ts⟩, [], h, t0 :: tl, []⟩ = some true := by
    simp [determinePeer]
  have hing : ingUpd ⟨[s0], ⟨true, true, seg, ts⟩, [], h, t0 :: tl, []⟩ (.ext i) true =
      ⟨[s0], ⟨true, true, seg, ts⟩, [], h, t0 :: tl, []⟩ := by
    simp [ingUpd]
  have hst : stIngress mac (cfgOf net a) now (.ext i) false false
      ⟨[s0], ⟨true, true, seg, ts⟩, [], h, t0 :: tl, []⟩ =
      .ok ⟨ingUpd ⟨[s0], ⟨true, true, seg, ts⟩, [], h, t0 :: tl, []⟩ (.ext i) true, true⟩ := by
    apply stIngress_pass
    · simp
    · exact hdp
    · rw [hing]; exact hexp
    · intro _; rw [hing]; simpa [Arrival.ifid] using hi
    · simp [Arrival.ifid, hi0]
    · simp [Arrival.ifid, hi0]
    · rw [hing]; simp [Arrival.ifid, hi0, Cursor.isLastHop]
    · rw [hing]; exact hmac
    · rw [hing]; simp [hia]
  have := routerStep_forward mac (cfgOf net a) now (.ext i) false
    ⟨[s0], ⟨true, true, seg, ts⟩, [], h, t0 :: tl, []⟩ true f
    ⟨[s0], ⟨true, true, seg, ts⟩, [h], t0, tl, []⟩
  rw [hing] at this hst
  have heo : egressOf ⟨[s0], ⟨true, true, seg, ts⟩, [], h, t0 :: tl, []⟩ = h.cEg := rfl
  rw [heo] at this
  apply this hst
  · simp [Cursor.isXover]
  · simp only [egressIface]
    have : (h.cEg == 0) = false := by simp [ho0]
    rw [this]; simp only [Bool.false_eq_true, if_false]; exact hf
  · exact hown
  · right; simp only [ingressLT, Arrival.ifid, cfgOf_iface, hfi]; exact hlt
  · simp [hea]
  · exact hup
  · simp [egUpd, Cursor.incPath]

/-- … which is also the destination AS -/
theorem peer_in_deliver (mac : MacFn) (net : Net) (now src dst : Nat) (ts seg i : Nat) (h : Hop)
    (s0 : Seg) (hsd : src ≠ dst) (hi0 : i ≠ 0) (hi : i = h.cIn)
    (hmac : macOk mac (net dst).key ⟨true, true, seg, ts⟩ h = true)
    (hexp : expired now ts h.exp = false) (hia : h.inAlert = false) :
    routerStep mac (cfgOf net dst) now (.ext i) (dst == src) (dst == dst)
        ⟨[s0], ⟨true, true, seg, ts⟩, [], h, [], []⟩ =
      .deliver ⟨[s0], ⟨true, true, seg, ts⟩, [], h, [], []⟩ := by
  have hsl : (dst == src) = false := by simp [Ne.symm hsd]
  rw [hsl]
  simp only [beq_self_eq_true]
  have hing : ingUpd ⟨[s0], ⟨true, true, seg, ts⟩, [], h, [], []⟩ (.ext i) true =
      ⟨[s0], ⟨true, true, seg, ts⟩, [], h, [], []⟩ := by
    simp [ingUpd]
  have hst : stIngress mac (cfgOf net dst) now (.ext i) false true
      ⟨[s0], ⟨true, true, seg, ts⟩, [], h, [], []⟩ =
      .ok ⟨ingUpd ⟨[s0], ⟨true, true, seg, ts⟩, [], h, [], []⟩ (.ext i) true, true⟩ := by
    apply stIngress_pass
    · simp
    · simp [determinePeer]
    · rw [hing]; exact hexp
    · intro _; rw [hing]; simpa [Arrival.ifid] using hi
    · simp [Arrival.ifid, hi0]
    · simp [Arrival.ifid, hi0]
    · rw [hing]; simp [Arrival.ifid, hi0, Cursor.isLastHop]
    · rw [hing]; exact hmac
    · rw [hing]; simp [hia]
  have := routerStep_deliver mac (cfgOf net dst) now (.ext i) false
    ⟨[s0], ⟨true, true, seg, ts⟩, [], h, [], []⟩ true hst
  rw [hing] at this
  exact this

end Scion.Net
