import Scion.Model.ScmpMsg
import Scion.Proofs.Wire
/-! Helper lemmas for C18: SCMP message layers as sequences of fixed big-endian fields. -/
namespace Scion.ScmpMsg
open Scion.Util Scion.Wire

theorem spec_ok (typ : Nat) (spec : List Field) (h : msgSpec typ = some spec) : ∀ f ∈ spec, f.Ok := by
  unfold msgSpec at h
  repeat' split at h
  all_goals cases h
  all_goals decide

theorem beNat_natBE_ok (w v : Nat) (hw : w = 2 ∨ w = 4 ∨ w = 8) (hv : v < 256 ^ w) :
    beNat (natBE w v) = v := by
  rcases hw with rfl | rfl | rfl
  · rw [beNat_natBE2]; omega
  · rw [beNat_natBE4]; omega
  · rw [beNat_natBE8]; omega

theorem natBE_beNat_ok (w : Nat) (b : Bytes) (hw : w = 2 ∨ w = 4 ∨ w = 8) (hb : b.length = w) :
    natBE w (beNat b) = b ∧ beNat b < 256 ^ w := by
  rcases hw with rfl | rfl | rfl
  · match b, hb with
    | [x, y], _ => exact ⟨natBE_beNat2 x y, beNat2_lt x y⟩
  · obtain ⟨x, y, z, u, rfl⟩ := length4 hb
    exact ⟨natBE_beNat4 x y z u, beNat4_lt x y z u⟩
  · obtain ⟨a, b', c, d, e, f, g, k, rfl⟩ := length8 hb
    refine ⟨natBE_beNat8 _ _ _ _ _ _ _ _, ?_⟩
    have := beNat_natBE8 (beNat [a, b', c, d, e, f, g, k])
    rw [natBE_beNat8] at this
    have h2 : beNat [a, b', c, d, e, f, g, k] % 2 ^ 64 < 2 ^ 64 := Nat.mod_lt _ (by decide)
    omega

theorem length_encFields (spec : List Field) (vs : List Nat) :
    (encFields spec vs).length = totalLen spec := by
  induction spec generalizing vs with
  | nil => rfl
  | cons f fs ih =>
    simp only [encFields, totalLen, List.map_cons, List.sum_cons]
    split
    · simp [ih, totalLen]
    · split <;> simp [ih, totalLen, length_natBE]

/-- value → bytes → value -/
theorem decFields_encFields (spec : List Field) (vs : List Nat) (rest : Bytes)
    (hok : ∀ f ∈ spec, f.Ok) (hv : ValuesWF spec vs) :
    decFields spec (encFields spec vs ++ rest) = some (vs, rest) := by
  induction spec generalizing vs with
  | nil => simp [ValuesWF] at hv; subst hv; rfl
  | cons f fs ih =>
    have hf := hok f (by simp)
    have hfs : ∀ g ∈ fs, g.Ok := fun g hg => hok g (by simp [hg])
    simp only [ValuesWF] at hv
    simp only [encFields, decFields]
    by_cases hr : f.reserved = true
    · simp only [hr, if_true] at hv ⊢
      rw [List.append_assoc, takeN_append' _ _ _ (by simp)]
      simp only
      rw [ih vs hfs hv]
    · simp only [hr, if_false, Bool.false_eq_true] at hv ⊢
      match vs, hv with
      | v :: vs', ⟨hlt, hrest⟩ =>
        simp only
        rw [List.append_assoc, takeN_append' _ _ _ (length_natBE _ _)]
        simp only
        rw [ih vs' hfs hrest, beNat_natBE_ok _ _ hf hlt]

theorem length_zeroReserved (spec : List Field) (l : Bytes) : (zeroReserved spec l).length = l.length := by
  induction spec generalizing l with
  | nil => rfl
  | cons f fs ih =>
    simp only [zeroReserved, List.length_append, ih, List.length_drop]
    split <;> simp <;> omega

/-- bytes → value → bytes: reproduces the input with the reserved fields zeroed -/
theorem encFields_decFields (spec : List Field) (data : Bytes) (vs : List Nat) (rest : Bytes)
    (hok : ∀ f ∈ spec, f.Ok) (h : decFields spec data = some (vs, rest)) :
    ValuesWF spec vs ∧ encFields spec vs ++ rest = zeroReserved spec data := by
  induction spec generalizing data vs with
  | nil => simp only [decFields, Option.some.injEq, Prod.mk.injEq] at h; obtain ⟨rfl, rfl⟩ := h; exact ⟨rfl, rfl⟩
  | cons f fs ih =>
    have hf := hok f (by simp)
    have hfs : ∀ g ∈ fs, g.Ok := fun g hg => hok g (by simp [hg])
    simp only [decFields] at h
    split at h
    · cases h
    · rename_i b r htk
      obtain ⟨e1, l1⟩ := takeN_eq_some htk
      split at h
      · cases h
      · rename_i vs' r' hd
        simp only [Option.some.injEq, Prod.mk.injEq] at h
        obtain ⟨hvs, hr'⟩ := h
        subst hr'
        obtain ⟨w, e⟩ := ih r vs' hfs hd
        have hdrop : data.drop f.width = r := by rw [e1, ← l1]; simp
        have htake : data.take f.width = b := by rw [e1, ← l1]; simp
        have hmin : min f.width data.length = f.width := by
          have : data.length = b.length + r.length := by rw [e1]; simp
          omega
        by_cases hres : f.reserved = true
        · simp only [hres, if_true] at hvs
          subst hvs
          refine ⟨by simp only [ValuesWF, hres, if_true]; exact w, ?_⟩
          simp only [encFields, zeroReserved, hres, if_true, hdrop, hmin, List.append_assoc, e]
        · simp only [hres, if_false, Bool.false_eq_true] at hvs
          subst hvs
          obtain ⟨n1, n2⟩ := natBE_beNat_ok f.width b hf l1
          refine ⟨by simp only [ValuesWF, hres, if_false, Bool.false_eq_true]; exact ⟨n2, w⟩, ?_⟩
          simp only [encFields, zeroReserved, hres, if_false, Bool.false_eq_true, hdrop, htake, n1,
            List.append_assoc, e]

theorem decFields_isSome (spec : List Field) (data : Bytes) (h : totalLen spec ≤ data.length) :
    decFields spec data ≠ none := by
  induction spec generalizing data with
  | nil => simp [decFields]
  | cons f fs ih =>
    simp only [totalLen, List.map_cons, List.sum_cons] at h
    simp only [decFields]
    rw [takeN_isSome (by omega)]
    simp only
    have := ih (data.drop f.width) (by simp [totalLen]; omega)
    split
    · rename_i hn; exact absurd hn this
    · simp

theorem decMsg_ne_panic (spec : List Field) (data : Bytes) : decMsg spec data ≠ .error .panic := by
  unfold decMsg
  split
  · simp
  · rename_i hl
    have := decFields_isSome spec data (by omega)
    split
    · rename_i hn; exact absurd hn this
    · simp

end Scion.ScmpMsg
