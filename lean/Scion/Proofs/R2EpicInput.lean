import Scion.Model.Epic
/-! Helper lemmas for C13: the EPIC MAC input (`prepareMacInput`) is an injective function of the
    protected fields. Core Lean only. -/
namespace Scion.R2EpicInput
open Scion.Util Scion.Epic

theorem natBE_length (k n : Nat) : (natBE k n).length = k := by
  induction k with
  | zero => rfl
  | succ k ih => simp [natBE, ih]

theorem u8_inj (x y : Nat) (h : UInt8.ofNat x = UInt8.ofNat y) : x % 256 = y % 256 := by
  have := congrArg UInt8.toNat h
  simpa using this

theorem natBE_inj_mod (k n m : Nat) (h : natBE k n = natBE k m) : n % 256 ^ k = m % 256 ^ k := by
  induction k with
  | zero => simp [Nat.mod_one]
  | succ k ih =>
    simp only [natBE, List.cons.injEq] at h
    have h1 := u8_inj _ _ h.1
    have h2 := ih h.2
    rw [Nat.mod_pow_succ, Nat.mod_pow_succ, h2]
    simp only [Nat.mod_mod] at h1
    rw [h1]

theorem natBE_inj (k n m : Nat) (hn : n < 256 ^ k) (hm : m < 256 ^ k) (h : natBE k n = natBE k m) : n = m := by
  have := natBE_inj_mod k n m h
  rwa [Nat.mod_eq_of_lt hn, Nat.mod_eq_of_lt hm] at this

/-- the unpadded input -/
def body (p : Pkt) (ts0 : Nat) : Bytes :=
  [UInt8.ofNat (p.srcLenBits % 4)] ++ natBE 4 ts0 ++ natBE 4 p.pktTs ++ natBE 4 p.pktCtr ++
    natBE 8 p.srcIA ++ p.srcAddr ++ natBE 2 p.payloadLen

theorem macInputEpic_eq (p : Pkt) (ts0 : Nat) :
    macInputEpic p ts0 = body p ts0 ++ List.replicate ((16 - (body p ts0).length % 16) % 16) 0 := rfl

theorem body_length (p : Pkt) (ts0 : Nat) : (body p ts0).length = 23 + p.srcAddr.length := by
  simp [body, natBE_length]; omega

/-- fields as they come out of a decoded header -/
structure WF (p : Pkt) (ts0 : Nat) : Prop where
  ts0 : ts0 < 2 ^ 32
  pktTs : p.pktTs < 2 ^ 32
  pktCtr : p.pktCtr < 2 ^ 32
  srcIA : p.srcIA < 2 ^ 64
  payloadLen : p.payloadLen < 2 ^ 16
  lenBits : p.srcLenBits < 4
  /-- the address length is the one the length bits encode -/
  srcAddr : p.srcAddr.length = 4 * (p.srcLenBits + 1)

/-- **The EPIC MAC input determines every protected field**: equal inputs (as handed to the PRF) imply
    equal info-field timestamp, packet id (timestamp and counter), source ISD-AS, source host address
    (length and bytes) and payload length. -/
theorem macInputEpic_injective (p q : Pkt) (ts ts' : Nat) (hp : WF p ts) (hq : WF q ts')
    (h : macInputEpic p ts = macInputEpic q ts') :
    ts = ts' ∧ p.pktTs = q.pktTs ∧ p.pktCtr = q.pktCtr ∧ p.srcIA = q.srcIA ∧
      p.srcLenBits = q.srcLenBits ∧ p.srcAddr = q.srcAddr ∧ p.payloadLen = q.payloadLen := by
  rw [macInputEpic_eq, macInputEpic_eq] at h
  -- the first byte carries the length bits
  have hfirst : UInt8.ofNat (p.srcLenBits % 4) = UInt8.ofNat (q.srcLenBits % 4) := by
    have := congrArg List.head? h
    simpa [body] using this
  have hbits : p.srcLenBits = q.srcLenBits := by
    have := u8_inj _ _ hfirst
    have h1 := hp.lenBits; have h2 := hq.lenBits
    omega
  have hlen : p.srcAddr.length = q.srcAddr.length := by rw [hp.srcAddr, hq.srcAddr, hbits]
  have hbl : (body p ts).length = (body q ts').length := by rw [body_length, body_length, hlen]
  have hb := (List.append_inj h hbl).1
  -- peel the fields off from the left; every field has a fixed length
  unfold body at hb
  simp only [List.append_assoc] at hb
  have h1 := List.append_inj hb (by simp)
  have h2 := List.append_inj h1.2 (by simp [natBE_length])
  have h3 := List.append_inj h2.2 (by simp [natBE_length])
  have h4 := List.append_inj h3.2 (by simp [natBE_length])
  have h5 := List.append_inj h4.2 (by simp [natBE_length])
  have h6 := List.append_inj h5.2 hlen
  refine ⟨natBE_inj 4 _ _ hp.ts0 hq.ts0 h2.1, natBE_inj 4 _ _ hp.pktTs hq.pktTs h3.1,
    natBE_inj 4 _ _ hp.pktCtr hq.pktCtr h4.1, natBE_inj 8 _ _ hp.srcIA hq.srcIA h5.1, hbits, h6.1,
    natBE_inj 2 _ _ hp.payloadLen hq.payloadLen h6.2⟩

end Scion.R2EpicInput
