import Scion.Proofs.NetMulti3
/-! Several border routers per AS: the step of the collapsed network's router reproduced by the
routers of the network as it is.  Core Lean only. -/
namespace Scion.Net
open Scion.SegID (updateSegID)

theorem cfg_key_eq (net : Net) (a r : Nat) : (cfgR net a r).key = (cfgOf (collapse net) a).key := rfl

theorem iface_of_collapsed (net : Net) (a e : Nat) (eg0 : Iface)
    (h : (cfgOf (collapse net) a).iface e = some eg0) :
    ∃ f, (net a).iface e = some f ∧ eg0 = collapseIf f := by
  rw [cfg0_iface] at h
  cases hff : (net a).iface e with
  | none => rw [hff] at h; cases h
  | some f => rw [hff] at h; cases h; exact ⟨f, rfl, rfl⟩

/-- **one AS, packet from a neighbour AS.**  If the single router of the collapsed network
    forwards the packet, then in the network as it is the router owning the ingress interface
    either does exactly the same (it also owns the egress interface) or hands the packet to the
    sibling owning the egress interface, which sends out exactly the same packet. -/
theorem step_sim_ext (mac : MacFn) (net : Net) (now a i : Nat) (sl dl : Bool) (c : Cursor) (e : Nat)
    (c' : Cursor) (fi : Iface) (hfi : (net a).iface i = some fi) (hi0 : i ≠ 0)
    (hU : Uniform c) (hA : ArrOK c)
    (h : routerStep mac (cfgOf (collapse net) a) now (.ext i) sl dl c = .forward e c') :
    dl = false ∧ ∃ f, (net a).iface e = some f ∧ e ≠ 0 ∧
      ((f.owner = fi.owner ∧
          routerStep mac (cfgR net a fi.owner) now (.ext i) sl false c = .forward e c') ∨
       (f.owner ≠ fi.owner ∧ ∃ cm,
          routerStep mac (cfgR net a fi.owner) now (.ext i) sl false c = .forward e cm ∧
          routerStep mac (cfgR net a f.owner) now (.sibling fi.owner) sl false cm = .forward e c')) ∧
      Uniform c' ∧ ArrOK c' ∧ remaining c' < remaining c := by
  obtain ⟨s, x, hs, hdl, hx, heg⟩ := routerStep_forward_inv _ _ _ _ _ _ _ _ _ h
  subst hdl
  refine ⟨rfl, ?_⟩
  obtain ⟨hdp, hsc, hsing, hchk⟩ := stIngress_ok _ _ _ _ _ _ _ _ hs
  obtain ⟨hseq, hexp, hin, _, _, hmac⟩ := stChecks_ok _ _ _ _ _ _ _ _ _ hchk
  have hin' := hin (by simpa [Arrival.ifid] using hi0)
  simp only [Arrival.ifid] at hin'
  obtain ⟨hxp, hxc⟩ := stXover_ok _ _ _ _ _ hx
  rw [hsc] at hxc
  obtain ⟨he, eg0, heg0, _, hc2, hc3, hc4, hc5, hc6, _⟩ := stEgress_forward_inv _ _ _ _ _ heg
  have he0 : e ≠ 0 := by
    intro h0
    rw [h0] at heg0
    simp only [egressIface, beq_self_eq_true, if_true, Option.some.injEq] at heg0
    subst heg0
    cases hxx : x.xover with
    | false => simp [hxx, Arrival.ifid, hi0, ltSame_unset] at hc2
    | true => simp [hxx, ltXover_unset] at hc3
  rw [egressIface_ne0 _ _ he0] at heg0
  obtain ⟨f, hf, rfl⟩ := iface_of_collapsed net a e eg0 heg0
  have hown0 : ((collapseIf f).owner == (cfgOf (collapse net) a).self) = true := rfl
  have hal : (if x.c.info.consDir then x.c.cur.egAlert else x.c.cur.inAlert) = false := by
    rw [hown0] at hc4; simpa using hc4
  have hup : f.up = true := by
    rw [hown0] at hc5
    have : (collapseIf f).up = f.up := rfl
    rw [this] at hc5; simpa using hc5
  have hinc := hc6 hown0
  rw [hxp] at hinc
  obtain ⟨F1, F2, F3, F4, F5, F6, F7, F8, F9⟩ := mid_facts mac (cfgOf (collapse net) a).key now i c
    s.peering x hU hA hdp hsing hexp hin' hmac hxc
  obtain ⟨G1, G2, G3⟩ := after_egress x.c c' s.peering F1 F3 F8 hinc
  refine ⟨f, hf, he0, ?_, G1, G2, by omega⟩
  have hs' : stIngress mac (cfgR net a fi.owner) now (.ext i) sl false c = .ok s := by
    rw [stIngress_cfg mac (cfgR net a fi.owner) (cfgOf (collapse net) a) now (.ext i) sl false c rfl
      (by intro k hk; cases hk)]
    exact hs
  have hx' : stXover mac (cfgR net a fi.owner) now s = .ok x := by
    rw [stXover_cfg mac (cfgR net a fi.owner) (cfgOf (collapse net) a) now s rfl]; exact hx
  have hegR : egressIface (cfgR net a fi.owner) (egressOf x.c) = some f := by
    rw [← he, egressIface_ne0 _ _ he0]; exact hf
  by_cases hown : f.owner = fi.owner
  · left
    refine ⟨hown, ?_⟩
    rw [routerStep_of_stages mac _ now _ sl c s x hs' hx', ← heg]
    refine (stEgress_congr _ _ _ _ (collapseIf f) f ?_ hegR rfl rfl ?_ ?_).symm
    · rw [← he, egressIface_ne0 _ _ he0]; exact heg0
    · rw [hown0]; simp [cfgR_self, hown]
    · exact ingressLT_collapse net a fi.owner _
  · right
    refine ⟨hown, x.c, ?_, ?_⟩
    · rw [he]
      refine sibling_in_step mac _ now i sl c s x f hs' hx' hegR (by simp [cfgR_self, hown]) hi0 ?_ ?_
      · rw [← ingressLT_collapse net a fi.owner]; exact hc2
      · rw [← ingressLT_collapse net a fi.owner]; exact hc3
    · rw [he]
      exact sibling_out_step mac net now a fi.owner f.owner sl x.c s.peering fi f c' F2 F3 F4 F5
        (by rw [F6]; exact hfi) rfl (Ne.symm hown) F7 F8 (by rw [← he]; exact he0)
        (by rw [← he]; exact hf) rfl hal hup hinc

/-- delivery is decided by the ingress stage alone -/
theorem step_sim_deliver (mac : MacFn) (net : Net) (now a r : Nat) (arr : Arrival) (sl dl : Bool)
    (c cf : Cursor) (harr : ∀ k, arr ≠ .sibling k)
    (h : routerStep mac (cfgOf (collapse net) a) now arr sl dl c = .deliver cf) :
    routerStep mac (cfgR net a r) now arr sl dl c = .deliver cf := by
  obtain ⟨s, hs, hdl, rfl⟩ := routerStep_deliver_inv _ _ _ _ _ _ _ _ h
  subst hdl
  apply routerStep_deliver_of
  rw [stIngress_cfg mac (cfgR net a r) (cfgOf (collapse net) a) now arr sl true c rfl harr]
  exact hs

/-- **source AS, packet from a host on its first hop**: the router owning the egress interface
    (the one the host hands the packet to) does what the single router does -/
theorem step_sim_host (mac : MacFn) (net : Net) (now a : Nat) (sl dl : Bool) (c : Cursor) (e : Nat)
    (c' : Cursor) (hU : Uniform c) (hfirst : c.isFirstHop = true)
    (h : routerStep mac (cfgOf (collapse net) a) now .host sl dl c = .forward e c') :
    dl = false ∧ e = (if c.info.consDir then c.cur.cEg else c.cur.cIn) ∧
    ∃ f, (net a).iface e = some f ∧ e ≠ 0 ∧
      routerStep mac (cfgR net a f.owner) now .host sl false c = .forward e c' ∧
      Uniform c' ∧ ArrOK c' ∧ remaining c' < remaining c := by
  obtain ⟨s, x, hs, hdl, hx, heg⟩ := routerStep_forward_inv _ _ _ _ _ _ _ _ _ h
  subst hdl
  refine ⟨rfl, ?_⟩
  obtain ⟨hdp, hsc, hsing, hchk⟩ := stIngress_ok _ _ _ _ _ _ _ _ hs
  obtain ⟨hxp, hxc⟩ := stXover_ok _ _ _ _ _ hx
  rw [hsc, ingUpd_internal c .host s.peering rfl] at hxc
  obtain ⟨he, eg0, heg0, hc1, _, _, _, _, hc6, _⟩ := stEgress_forward_inv _ _ _ _ _ heg
  -- no segment change on the first hop
  have hxno : x.xover = false ∧ x.c = c ∧ (c.isXover && !s.peering) = false := by
    rcases hxc with h1 | ⟨_, hyes, _⟩
    · exact h1
    · exfalso
      have hxo : c.isXover = true := by cases hh : c.isXover <;> simp_all
      have hpf : s.peering = false := by cases hh : s.peering <;> simp_all
      rw [hpf] at hdp
      have hns := hsing (peer_false_of_xover c hdp hxo)
      apply curSegLen_of_noSingleton c hns
      simp only [Cursor.isFirstHop, Bool.and_eq_true, List.isEmpty_iff] at hfirst
      simp only [Cursor.isXover, Bool.and_eq_true, List.isEmpty_iff] at hxo
      simp [Cursor.curSegLen, hfirst.2, hxo.1]
  obtain ⟨hxx, hxeq, hno⟩ := hxno
  have hown0' : (eg0.owner == (cfgOf (collapse net) a).self) = true := by
    simpa [Arrival.ifid] using hc1
  have he0 : e ≠ 0 := by
    intro h0
    rw [h0] at heg0
    simp only [egressIface, beq_self_eq_true, if_true, Option.some.injEq] at heg0
    subst heg0
    simp [cfgOf] at hown0'
  rw [egressIface_ne0 _ _ he0] at heg0
  obtain ⟨f, hf, rfl⟩ := iface_of_collapsed net a e eg0 heg0
  have hinc := hc6 hown0'
  rw [hxp, hxeq] at hinc
  obtain ⟨G1, G2, G3⟩ := after_egress c c' s.peering hU hdp hno hinc
  rw [hxeq] at he
  refine ⟨he, f, hf, he0, ?_, G1, G2, by omega⟩
  have hs' : stIngress mac (cfgR net a f.owner) now .host sl false c = .ok s := by
    rw [stIngress_cfg mac (cfgR net a f.owner) (cfgOf (collapse net) a) now .host sl false c rfl
      (by intro k hk; cases hk)]
    exact hs
  have hx' : stXover mac (cfgR net a f.owner) now s = .ok x := by
    rw [stXover_cfg mac (cfgR net a f.owner) (cfgOf (collapse net) a) now s rfl]; exact hx
  rw [routerStep_of_stages mac _ now _ sl c s x hs' hx', ← heg]
  refine (stEgress_congr _ _ _ _ (collapseIf f) f ?_ ?_ rfl rfl ?_ ?_).symm
  · rw [hxeq, ← he, egressIface_ne0 _ _ he0]; exact heg0
  · rw [hxeq, ← he, egressIface_ne0 _ _ he0]; exact hf
  · rw [hown0']; simp [cfgR_self]
  · exact ingressLT_collapse net a f.owner _

end Scion.Net
