import Scion.Proofs.NetMulti8
import Scion.Proofs.NetSpec
/-! Several border routers per AS, C10: transfer of "stopped with SCMP 4/51 or 4/52" from `send` in
the collapsed network, transfer of the reply's way back, facts about replies built on
single-segment packets, `FL` for the collapsed network.  Core Lean only. -/
namespace Scion.Net
open Scion.SegID (updateSegID extractBeta)

theorem entryRouter_collapse (net : Net) (a : Nat) (c : Cursor) : entryRouter (collapse net) a c = 0 := by
  unfold entryRouter
  split
  · rename_i f hf
    obtain ⟨f', _, rfl⟩ := collapse_iface_inv net a _ f hf
    rfl
  · rfl

theorem fuelFor_first (c : Cursor) (hfirst : c.isFirstHop = true) : fuelFor c = (2 * remaining c + 1) + 1 := by
  simp only [Cursor.isFirstHop, Bool.and_eq_true, List.isEmpty_iff] at hfirst
  simp only [fuelFor, toFlat, Cursor.segs, Cursor.curSeg, hfirst.1, hfirst.2, remaining,
    List.nil_append, List.map_append, List.map_cons, List.map_nil, List.flatten_append,
    List.flatten_cons, List.flatten_nil, List.length_append, List.length_cons, List.append_nil,
    List.length_nil]

theorem remaining_le_fuel (c : Cursor) : 2 * remaining c ≤ fuelFor c := by
  simp only [fuelFor, toFlat, Cursor.segs, Cursor.curSeg, remaining,
    List.map_append, List.map_cons, List.map_nil, List.flatten_append,
    List.flatten_cons, List.flatten_nil, List.length_append, List.length_cons, List.append_nil,
    List.length_nil]
  omega

section
variable (mac : MacFn) (net : Net) (now src dst : Nat)

/-- `send`, stopped with SCMP 4/51 or 4/52: transfer from the collapsed network -/
theorem send_sim_slow (hWF : WFNet net) (k : Nat) (hk : k = 51 ∨ k = 52) (c : Cursor) (hU : Uniform c)
    (hfirst : c.isFirstHop = true) (a' : Nat) (arr' : Arrival) (e0 : Nat) (c1 : Cursor)
    (tr' : List (Nat × Nat))
    (h : send mac (collapse net) now src dst c = .stopped a' 0 arr' (.slow 4 k e0 c1) tr') :
    ∃ r', send mac net now src dst c = .stopped a' r' arr' (.slow 4 k e0 c1) tr' := by
  unfold send at h ⊢
  rw [entryRouter_collapse] at h
  rw [fuelFor_first c hfirst] at h ⊢
  rcases run_slow_inv mac (collapse net) now src dst _ src 0 .host c [] a' 0 arr' 4 k e0 c1 tr' h with
    ⟨hst, h1, _, h3, h4⟩ | ⟨e, c', f0, hst, hf0, ⟨_, g0, hg0, hrun⟩ | ⟨ho, _⟩⟩
  · have := step_sim_stopped mac net now src (entryRouter net src c) .host (src == src) (src == dst) c k e0 c1
      (by intro k' hk'; cases hk') hk hst
    rw [h1, h3, h4]
    exact ⟨_, run_stopped_slow mac net now src dst _ src _ .host c c1 [] 4 k e0 this⟩
  · obtain ⟨hdl, he, f, hf, he0, hstep, hU', hA', hrem⟩ := step_sim_host mac net now src (src == src)
      (src == dst) c e c' hU hfirst hst
    have hf0' := collapse_iface_some net src e f hf
    rw [hf0'] at hf0
    cases hf0
    obtain ⟨_, _, g, hg, _, _, _⟩ := hWF src e f hf
    have hg0' := collapse_iface_some net f.nbr f.nbrIf g hg
    have hnb : (collapseIf f).nbr = f.nbr := rfl
    have hni : (collapseIf f).nbrIf = f.nbrIf := rfl
    rw [hnb, hni] at hg0 hrun
    rw [hg0'] at hg0
    cases hg0
    have hn0 : f.nbrIf ≠ 0 := (hWF f.nbr f.nbrIf g hg).1
    have hgo : (collapseIf g).owner = 0 := rfl
    rw [hgo] at hrun
    obtain ⟨r', hih⟩ := run_sim_slow mac net now src dst hWF k hk _ f.nbr f.nbrIf c' _ g a' arr' e0 c1 tr'
      hg hn0 hU' hA' hrun
    refine ⟨r', ?_⟩
    have hent : entryRouter net src c = f.owner := by
      unfold entryRouter
      rw [← he, hf]
    rw [hent]
    rw [← hdl] at hstep
    rw [run_forward_ext mac net now src dst _ src f.owner .host c c' [] e f g hstep hf rfl hg]
    obtain ⟨j, hj⟩ : ∃ j, 2 * remaining c + 1 = 2 * remaining c' + j := ⟨2 * remaining c + 1 - 2 * remaining c', by omega⟩
    rw [hj]
    exact run_mono_slow mac net now src dst _ _ _ _ _ _ _ _ _ _ _ _ _ _ hih j
  · exfalso
    obtain ⟨f, _, rfl⟩ := collapse_iface_inv net src e f0 hf0
    exact ho rfl

/-- the way back of a reply that leaves over the external link `i`: transfer from the collapsed
    network (the reply's first router is whichever router owns the neighbour's interface) -/
theorem followReply_sim (hWF : WFNet net) (a r r0 i : Nat) (rc : Cursor) (hU : Uniform rc) (hA : ArrOK rc)
    (d : Nat) (trr : List (Nat × Nat)) (cr : Cursor)
    (h : followReply mac (collapse net) now src a r0 (.ext i) rc = .delivered d trr cr) :
    followReply mac net now src a r (.ext i) rc = .delivered d trr cr := by
  unfold followReply at h ⊢
  simp only at h ⊢
  cases hf : (net a).iface i with
  | none =>
    rw [collapse_iface, hf] at h
    cases h
  | some f =>
    rw [collapse_iface_some net a i f hf] at h
    simp only at h ⊢
    obtain ⟨_, _, g, hg, _, _, _⟩ := hWF a i f hf
    have hnb : (collapseIf f).nbr = f.nbr := rfl
    have hni : (collapseIf f).nbrIf = f.nbrIf := rfl
    rw [hnb, hni, collapse_iface_some net f.nbr f.nbrIf g hg] at h
    rw [hg]
    simp only at h ⊢
    have hgo : (collapseIf g).owner = 0 := rfl
    rw [hgo] at h
    have hn0 : f.nbrIf ≠ 0 := (hWF f.nbr f.nbrIf g hg).1
    have := run_sim mac net now a src hWF _ f.nbr f.nbrIf rc _ g d trr cr hg hn0 hU hA h
    obtain ⟨j, hj⟩ : ∃ j, fuelFor rc = 2 * remaining rc + j := ⟨fuelFor rc - 2 * remaining rc, by
      have := remaining_le_fuel rc; omega⟩
    rw [hj]
    exact run_mono mac net now a src _ _ _ _ _ _ _ _ _ this j

end

/-- a reply built on a single-segment packet that leaves over an external link: single segment,
    not on its first hop -/
theorem scmpPrepare_single (c rc : Cursor) (hb : c.before = []) (ha : c.after = [])
    (h : scmpPrepare c true = some rc) : Uniform rc ∧ ArrOK rc := by
  unfold scmpPrepare at h
  simp only at h
  split at h
  · cases h
  · rename_i p _
    have hx : (reverseCursor c).isXover = false := by
      simp [reverseCursor, Cursor.isXover, hb]
    simp only [hx, Bool.false_and, Bool.false_eq_true, if_false, if_true] at h
    obtain ⟨sid, hsid⟩ := egUpd_setSeg (reverseCursor c) p
    rw [hsid] at h
    have hnf := incPath_not_first _ _ h
    rcases incPath_cases _ _ h with ⟨hd, t, _, rfl⟩ | ⟨_, s, rest, hd, t, hafter, _, _⟩
    · have hb' : (reverseCursor c).before = [] := by simp [reverseCursor, ha]
      have ha' : (reverseCursor c).after = [] := by simp [reverseCursor, hb]
      refine ⟨⟨?_, ?_⟩, hnf, ?_⟩
      · intro s hs; simp only [setSeg] at hs; rw [hb'] at hs; cases hs
      · intro s hs; simp only [setSeg] at hs; rw [ha'] at hs; cases hs
      · intro hf
        simp only [Cursor.isFirstHopAfterXover, setSeg] at hf
        rw [hb'] at hf; simp at hf
    · exfalso
      have ha' : (setSeg (reverseCursor c) sid).after = [] := by simp [setSeg, reverseCursor, hb]
      rw [ha'] at hafter; cases hafter

/-! ### `FL` does not depend on which router owns which interface -/

theorem macAt_collapse (mac : MacFn) (net : Net) (ts β : Nat) (e : ASE) (h : MacAt mac net ts β e) :
    MacAt mac (collapse net) ts β e := by
  obtain ⟨h1, h2⟩ := h
  refine ⟨h1, ?_⟩
  intro p hp
  obtain ⟨f, hf, r1, r2, r3, r4, r5⟩ := h2 p hp
  exact ⟨collapseIf f, collapse_iface_some net _ _ f hf, r1, r2, r3, r4, r5⟩

theorem linkF_collapse (net : Net) (core cd : Bool) (e e' : ASE) (h : LinkF net core cd e e') :
    LinkF (collapse net) core cd e e' := by
  obtain ⟨f, g, h1, h2, h3, h4, h5, h6, h7, h8, h9, h10⟩ := h
  exact ⟨collapseIf f, collapseIf g, collapse_iface_some net _ _ f h1, h2, h3, h4,
    collapse_iface_some net _ _ g h5, h6, h7, h8, h9, h10⟩

theorem fl_collapse (mac : MacFn) (net : Net) (core cd : Bool) (ts : Nat) (l : List ASE) :
    ∀ seg, FL mac net core cd ts seg l → FL mac (collapse net) core cd ts seg l := by
  induction l with
  | nil => intro _ _; trivial
  | cons e rest ih =>
    intro seg h
    cases rest with
    | nil => exact macAt_collapse mac net ts _ e h
    | cons e' r =>
      simp only [FL] at h ⊢
      exact ⟨macAt_collapse mac net ts _ e h.1, linkF_collapse net core cd e e' h.2.1, ih _ h.2.2⟩

end Scion.Net
