import Scion.Model.Combinator
/-! Helper lemmas about `Scion.Model.Combinator` (used by `Props/C28.lean`, `Props/C29.lean`). -/
namespace Scion.Combinator


theorem iter_hf {mtu e isSc peer it} (h : iter mtu e isSc peer = .ok it) :
    headHop e peer = some it.hf := by
  unfold iter at h
  split at h
  · cases h; rfl
  · split at h
    · cases h
    · next p hp => cases h; simp [headHop, hp]

theorem ifacesOf_reverse (ia : Nat) (hf : HopF) (a b : Bool) :
    (ifacesOf ia hf a b).reverse = (if (!a || b) then nz ia hf.inIf else []) ++ nz ia hf.egIf := by
  unfold ifacesOf nz
  by_cases h1 : hf.egIf = 0 <;> by_cases h2 : hf.inIf = 0 <;> cases a <;> cases b <;> simp [h1, h2]

theorem iter_intfs {mtu e isSc peer it} (h : iter mtu e isSc peer = .ok it) :
    it.intfs = ifacesOf e.ia it.hf isSc (peer != 0) := by
  unfold iter at h
  split at h
  · cases h; rfl
  · split at h
    · cases h
    · cases h; simp

theorem plainIfaces_reverse_flatMap (tl : List ASE) :
    (tl.reverse.flatMap plainIfaces).reverse =
      tl.flatMap fun e => nz e.ia e.hf.inIf ++ nz e.ia e.hf.egIf := by
  induction tl with
  | nil => rfl
  | cons a tl ih =>
    simp only [List.reverse_cons, List.flatMap_append, List.flatMap_cons, List.flatMap_nil,
      List.append_nil, List.reverse_append, ih, plainIfaces, ifacesOf_reverse]
    simp

theorem segLoop_intfs {mtu ents sc peer hops intfs m}
    (h : segLoop mtu ents sc peer = .ok (hops, intfs, m)) :
    consIfaces ents sc peer = some intfs.reverse := by
  unfold segLoop at h
  unfold consIfaces
  split at h
  · cases h; simp
  · next hd tl heq =>
    split at h
    · cases h
    · next it hit =>
      cases h
      simp only [iter_hf hit, Option.map_some, List.reverse_append,
        plainIfaces_reverse_flatMap, iter_intfs hit, ifacesOf_reverse]
      cases sc <;> cases peer <;> simp


theorem segLoop_hops {mtu ents sc peer hops intfs m}
    (h : segLoop mtu ents sc peer = .ok (hops, intfs, m)) :
    consHops ents sc peer = some hops.reverse := by
  unfold segLoop at h
  unfold consHops
  split at h
  · cases h; simp
  · next hd tl heq =>
    split at h
    · cases h
    · next it hit =>
      cases h
      simp [iter_hf hit]

theorem edgeOut_hops {mtu e s m} (h : edgeOut mtu e = .ok (s, m)) :
    consHops e.seg.ents e.sc e.peer = some (if e.kind = .down then s.hops else s.hops.reverse) := by
  unfold edgeOut at h
  split at h
  · cases h
  · next hops intfs m' hl =>
    dsimp only at h
    split at h
    · next hk => cases h; simp [hk, segLoop_hops hl]
    · next hk => cases h; simp [hk, segLoop_hops hl]

theorem edgeOut_info {mtu e s m} (h : edgeOut mtu e = .ok (s, m)) :
    s.info = ⟨e.seg.ts, calculateBeta e, e.kind == .down, e.peer != 0⟩ := by
  unfold edgeOut at h
  split at h
  · cases h
  · dsimp only at h
    split at h <;> cases h <;> rfl


theorem foldl_min_le_init (l : List Nat) (a : Nat) : l.foldl min a ≤ a := by
  induction l generalizing a with
  | nil => exact Nat.le_refl _
  | cons x xs ih => exact Nat.le_trans (ih _) (Nat.min_le_left _ _)

theorem foldl_min_le_mem (l : List Nat) (a x : Nat) (hx : x ∈ l) : l.foldl min a ≤ x := by
  induction l generalizing a with
  | nil => cases hx
  | cons y ys ih =>
    cases hx with
    | head => exact Nat.le_trans (foldl_min_le_init ys (min a x)) (Nat.min_le_right _ _)
    | tail _ h => exact ih _ h

theorem foldl_min_mem (l : List Nat) (a : Nat) : l.foldl min a = a ∨ l.foldl min a ∈ l := by
  induction l generalizing a with
  | nil => exact .inl rfl
  | cons y ys ih =>
    rcases ih (min a y) with h | h
    · simp only [List.foldl_cons, h]
      rcases Nat.le_total a y with h' | h'
      · left; exact Nat.min_eq_left h'
      · right; rw [Nat.min_eq_right h']; exact List.mem_cons_self
    · right; exact List.mem_cons_of_mem _ h

theorem plainMtu_eq (m : Nat) (e : ASE) : plainMtu m e = (plainTerms e).foldl min m := by
  unfold plainMtu plainTerms
  split <;> simp

theorem foldl_plainMtu (l : List ASE) (m : Nat) :
    l.foldl plainMtu m = (l.flatMap plainTerms).foldl min m := by
  induction l generalizing m with
  | nil => rfl
  | cons a l ih => simp [List.foldl_append, ih, plainMtu_eq]

theorem iter_mtu {mtu e sc peer it} (h : iter mtu e (sc != 0) peer = .ok it) :
    it.mtu = (headTerms e sc peer).foldl min mtu := by
  unfold iter at h
  unfold headTerms
  split at h
  · cases h
    cases sc <;> by_cases h0 : e.inMtu = 0 <;> simp [h0]
  · split at h
    · cases h
    · next p hp => cases h; simp [hp]

theorem segLoop_mtu {mtu ents sc peer hops intfs m}
    (h : segLoop mtu ents sc peer = .ok (hops, intfs, m)) :
    m = (mtuTerms ents sc peer).foldl min mtu := by
  unfold segLoop at h
  unfold mtuTerms
  split at h
  · cases h; simp
  · next hd tl heq =>
    split at h
    · cases h
    · next it hit =>
      cases h
      rw [iter_mtu hit, foldl_plainMtu]
      simp only [List.foldl_append]


theorem upExits_kind {u : Seg} {x} (h : x ∈ upExits u) : x.1.kind = .up ∧ x.1.seg = u := by
  unfold upExits at h
  simp only [List.mem_flatMap, List.mem_append, List.mem_map] at h
  obtain ⟨ie, _, h | ⟨kp, _, rfl⟩⟩ := h
  · split at h
    · simp at h; subst h; exact ⟨rfl, rfl⟩
    · cases h
  · exact ⟨rfl, rfl⟩

theorem downEntries_kind {d : Seg} {x} (h : x ∈ downEntries d) : x.2.kind = .down ∧ x.2.seg = d := by
  unfold downEntries at h
  simp only [List.mem_flatMap, List.mem_append, List.mem_map] at h
  obtain ⟨ie, _, h | ⟨kp, _, rfl⟩⟩ := h
  · split at h
    · simp at h; subst h; exact ⟨rfl, rfl⟩
    · cases h
  · exact ⟨rfl, rfl⟩

theorem upsFrom_kind {ups src x} (h : x ∈ upsFrom ups src) : x.1.kind = .up ∧ x.1.seg ∈ ups := by
  unfold upsFrom at h
  simp only [List.mem_flatMap, List.mem_filter] at h
  obtain ⟨u, ⟨hu, _⟩, hx⟩ := h
  have := upExits_kind hx
  exact ⟨this.1, this.2 ▸ hu⟩

theorem downsTo_kind {downs dst x} (h : x ∈ downsTo downs dst) : x.2.kind = .down ∧ x.2.seg ∈ downs := by
  unfold downsTo at h
  simp only [List.mem_flatMap, List.mem_filter] at h
  obtain ⟨u, ⟨hu, _⟩, hx⟩ := h
  have := downEntries_kind hx
  exact ⟨this.1, this.2 ▸ hu⟩

theorem coreLinks_kind {cores x} (h : x ∈ coreLinks cores) : x.2.1.kind = .core ∧ x.2.1.seg ∈ cores := by
  unfold coreLinks at h
  simp only [List.mem_filterMap] at h
  obtain ⟨c, hc, h⟩ := h
  split at h
  · simp at h; subst h; exact ⟨rfl, hc⟩
  · cases h

theorem allJoins_kinds {ups cores downs src dst es} (h : es ∈ allJoins ups cores downs src dst) :
    es.map (·.kind) ∈ kindShapes := by
  unfold allJoins at h
  simp only [List.mem_append, List.mem_map, List.mem_filter, List.mem_flatMap] at h
  rcases h with (((((⟨u, ⟨hu, _⟩, rfl⟩ | ⟨c, ⟨hc, _⟩, rfl⟩) | ⟨d, ⟨hd, _⟩, rfl⟩) |
    ⟨u, hu, c, ⟨hc, _⟩, rfl⟩) | ⟨u, hu, d, ⟨hd, _⟩, rfl⟩) | ⟨c, hc, h⟩) |
    ⟨u, hu, c, ⟨hc, _⟩, d, ⟨hd, _⟩, rfl⟩
  · simp [kindShapes, (upsFrom_kind hu).1]
  · simp [kindShapes, (coreLinks_kind hc).1]
  · simp [kindShapes, (downsTo_kind hd).1]
  · simp [kindShapes, (upsFrom_kind hu).1, (coreLinks_kind hc).1]
  · simp [kindShapes, (upsFrom_kind hu).1, (downsTo_kind hd).1]
  · split at h
    · simp only [List.mem_map, List.mem_filter] at h
      obtain ⟨d, ⟨hd, _⟩, rfl⟩ := h
      simp [kindShapes, (coreLinks_kind hc).1, (downsTo_kind hd).1]
    · cases h
  · simp [kindShapes, (upsFrom_kind hu).1, (coreLinks_kind hc).1, (downsTo_kind hd).1]


/-- every output segment of `pathLoop` is the `edgeOut` of the corresponding edge -/
theorem pathLoop_forall2 {m es segs m'} (h : pathLoop m es = .ok (segs, m')) :
    Rel2 (fun e s => ∃ a b, edgeOut a e = .ok (s, b)) es segs := by
  induction es generalizing m segs m' with
  | nil => simp [pathLoop] at h; obtain ⟨rfl, _⟩ := h; exact .nil
  | cons e es ih =>
    unfold pathLoop at h
    split at h
    · cases h
    · next s m1 he =>
      split at h
      · cases h
      · next ss m2 hl =>
        cases h
        exact .cons ⟨_, _, he⟩ (ih hl)

theorem edgeOut_mtu {mtu e s m} (h : edgeOut mtu e = .ok (s, m)) :
    m = (mtuTerms e.seg.ents e.sc e.peer).foldl min mtu := by
  unfold edgeOut at h
  split at h
  · cases h
  · next hops intfs m' hl =>
    dsimp only at h
    split at h <;> cases h <;> exact segLoop_mtu hl

theorem pathLoop_mtu {m es segs m'} (h : pathLoop m es = .ok (segs, m')) :
    m' = (allMtuTerms es).foldl min m := by
  induction es generalizing m segs m' with
  | nil => simp [pathLoop] at h; simp [allMtuTerms, h.2]
  | cons e es ih =>
    unfold pathLoop at h
    split at h
    · cases h
    · next s m1 he =>
      split at h
      · cases h
      · next ss m2 hl =>
        cases h
        rw [ih hl, edgeOut_mtu he]
        simp [allMtuTerms, List.foldl_append]

theorem edgeOut_intfs {mtu e s m} (h : edgeOut mtu e = .ok (s, m)) :
    consIfaces e.seg.ents e.sc e.peer =
      some (if e.kind = .down then s.intfs else s.intfs.reverse) := by
  unfold edgeOut at h
  split at h
  · cases h
  · next hops intfs m' hl =>
    dsimp only at h
    split at h
    · next hk => cases h; simp [hk, segLoop_intfs hl]
    · next hk => cases h; simp [hk, segLoop_intfs hl]

/-! expiry -/

theorem hopsTTL_eq (hops : List HopF) :
    hopsTTL hops = (hops.map fun h => expToMs h.exp).foldl min maxTTL := by
  unfold hopsTTL
  generalize maxTTL = a
  induction hops generalizing a with
  | nil => rfl
  | cons h t ih =>
    simp only [List.foldl_cons, List.map_cons]
    rw [ih]
    congr 1
    simp only [Nat.min_def]
    split <;> split <;> omega

theorem computeExpTime_eq (segs : List SegOut) :
    computeExpTime segs = (segs.map segExpiry).foldl min maxExpiration := by
  unfold computeExpTime
  generalize maxExpiration = a
  induction segs generalizing a with
  | nil => rfl
  | cons h t ih =>
    simp only [List.foldl_cons, List.map_cons]
    rw [ih]
    congr 1
    simp only [Nat.min_def]
    split <;> split <;> omega

/-! sorting -/

theorem insertByWeight_perm (p : Path) (l : List Path) : (insertByWeight p l).Perm (p :: l) := by
  induction l with
  | nil => exact .refl _
  | cons q qs ih =>
    unfold insertByWeight
    split
    · exact .refl _
    · exact (List.Perm.cons q ih).trans (List.Perm.swap p q qs)

theorem sortByWeight_perm (l : List Path) : (sortByWeight l).Perm l := by
  induction l with
  | nil => exact .refl _
  | cons p ps ih =>
    show (insertByWeight p (sortByWeight ps)).Perm (p :: ps)
    exact (insertByWeight_perm p _).trans (List.Perm.cons p ih)

theorem insertByWeight_sorted (p : Path) (l : List Path)
    (h : l.Pairwise fun a b => a.weight ≤ b.weight) :
    (insertByWeight p l).Pairwise fun a b => a.weight ≤ b.weight := by
  induction l with
  | nil => simp [insertByWeight]
  | cons q qs ih =>
    unfold insertByWeight
    rw [List.pairwise_cons] at h
    split
    · next hle =>
      refine List.pairwise_cons.2 ⟨?_, List.pairwise_cons.2 h⟩
      intro x hx
      cases hx with
      | head => exact hle
      | tail _ hx => exact Nat.le_trans hle (h.1 x hx)
    · next hnle =>
      refine List.pairwise_cons.2 ⟨?_, ih h.2⟩
      intro x hx
      have := (insertByWeight_perm p qs).mem_iff.1 hx
      cases this with
      | head => omega
      | tail _ hx => exact h.1 x hx

theorem sortByWeight_sorted (l : List Path) :
    (sortByWeight l).Pairwise fun a b => a.weight ≤ b.weight := by
  induction l with
  | nil => exact List.Pairwise.nil
  | cons p ps ih => exact insertByWeight_sorted p _ ih

theorem indexedFrom_map_snd {α : Type} (l : List α) (i : Nat) : (indexedFrom i l).map (·.2) = l := by
  induction l generalizing i with
  | nil => rfl
  | cons a as ih => simp [indexedFrom, ih]

theorem filterDuplicates_sublist (ps : List Path) : (filterDuplicates ps).Sublist ps := by
  unfold filterDuplicates
  dsimp only
  have h := (List.filter_sublist (l := indexedFrom 0 ps)
    (p := fun ip => ((indexedFrom 0 ps).foldl dedupStep []).any fun kv => kv.2.1 == ip.1)).map (·.2)
  rwa [indexedFrom_map_snd] at h


theorem mem_indexedFrom {α : Type} (l : List α) (i k : Nat) (a : α) :
    (k, a) ∈ indexedFrom i l ↔ i ≤ k ∧ l[k - i]? = some a := by
  induction l generalizing i with
  | nil => simp [indexedFrom]
  | cons x xs ih =>
    simp only [indexedFrom, List.mem_cons, Prod.mk.injEq, ih]
    constructor
    · rintro (⟨rfl, rfl⟩ | ⟨h1, h2⟩)
      · simp
      · refine ⟨by omega, ?_⟩
        have : k - i = (k - (i + 1)) + 1 := by omega
        rw [this]; simpa using h2
    · rintro ⟨h1, h2⟩
      by_cases hk : k = i
      · subst hk; simp at h2; exact .inl ⟨rfl, h2.symm⟩
      · right
        refine ⟨by omega, ?_⟩
        have : k - i = (k - (i + 1)) + 1 := by omega
        rw [this] at h2; simpa using h2

theorem mem_indexedFrom_zero {α : Type} (l : List α) (k : Nat) (a : α) :
    (k, a) ∈ indexedFrom 0 l ↔ l[k]? = some a := by
  simp [mem_indexedFrom]

theorem mem_upExits (u : Seg) (e : Edge) (v : Vertex) : (e, v) ∈ upExits u ↔ IsUpExit u e v := by
  unfold upExits IsUpExit
  simp only [List.mem_flatMap, List.mem_append, List.mem_map, Prod.exists, mem_indexedFrom_zero]
  constructor
  · rintro ⟨i, ent, hi, h | ⟨k, p, hk, h⟩⟩
    · split at h
      · next hne =>
        simp at h; obtain ⟨rfl, rfl⟩ := h
        exact ⟨rfl, rfl, ent, hi, .inl ⟨rfl, hne, rfl⟩⟩
      · cases h
    · simp at h; obtain ⟨rfl, rfl⟩ := h
      exact ⟨rfl, rfl, ent, hi, .inr ⟨k, p, rfl, hk, rfl⟩⟩
  · rintro ⟨rfl, hk, ent, hi, ⟨hp, hne, rfl⟩ | ⟨k, p, hp, hk2, rfl⟩⟩
    · refine ⟨e.sc, ent, hi, .inl ?_⟩
      simp only [hne, ne_eq, not_false_eq_true, if_true, List.mem_singleton, Prod.mk.injEq, and_true]
      cases e; simp_all
    · refine ⟨e.sc, ent, hi, .inr ⟨k, p, hk2, ?_⟩⟩
      cases e; simp_all


theorem mem_downEntries (d : Seg) (v : Vertex) (e : Edge) :
    (v, e) ∈ downEntries d ↔ IsDownEntry d v e := by
  unfold downEntries IsDownEntry
  simp only [List.mem_flatMap, List.mem_append, List.mem_map, Prod.exists, mem_indexedFrom_zero]
  constructor
  · rintro ⟨i, ent, hi, h | ⟨k, p, hk, h⟩⟩
    · split at h
      · next hne =>
        simp at h; obtain ⟨rfl, rfl⟩ := h
        exact ⟨rfl, rfl, ent, hi, .inl ⟨rfl, hne, rfl⟩⟩
      · cases h
    · simp at h; obtain ⟨rfl, rfl⟩ := h
      exact ⟨rfl, rfl, ent, hi, .inr ⟨k, p, rfl, hk, rfl⟩⟩
  · rintro ⟨rfl, hk, ent, hi, ⟨hp, hne, rfl⟩ | ⟨k, p, hp, hk2, rfl⟩⟩
    · refine ⟨e.sc, ent, hi, .inl ?_⟩
      simp only [hne, ne_eq, not_false_eq_true, if_true, List.mem_singleton, Prod.mk.injEq, true_and]
      cases e; simp_all
    · refine ⟨e.sc, ent, hi, .inr ⟨k, p, hk2, ?_⟩⟩
      cases e; simp_all

theorem mem_upsFrom (ups : List Seg) (src : Nat) (e : Edge) (v : Vertex) :
    (e, v) ∈ upsFrom ups src ↔ UpFrom ups src e v := by
  unfold upsFrom UpFrom
  simp only [List.mem_flatMap, List.mem_filter, mem_upExits, beq_iff_eq]
  constructor
  · rintro ⟨u, ⟨hu, hl⟩, h⟩; exact ⟨u, hu, hl, h⟩
  · rintro ⟨u, hu, hl, h⟩; exact ⟨u, ⟨hu, hl⟩, h⟩

theorem mem_downsTo (downs : List Seg) (dst : Nat) (v : Vertex) (e : Edge) :
    (v, e) ∈ downsTo downs dst ↔ DownTo downs dst v e := by
  unfold downsTo DownTo
  simp only [List.mem_flatMap, List.mem_filter, mem_downEntries, beq_iff_eq]
  constructor
  · rintro ⟨u, ⟨hu, hl⟩, h⟩; exact ⟨u, hu, hl, h⟩
  · rintro ⟨u, hu, hl, h⟩; exact ⟨u, ⟨hu, hl⟩, h⟩

theorem mem_coreLinks (cores : List Seg) (a b : Vertex) (e : Edge) :
    (a, e, b) ∈ coreLinks cores ↔ CoreOf cores a e b := by
  unfold coreLinks CoreOf
  simp only [List.mem_filterMap]
  constructor
  · rintro ⟨c, hc, h⟩
    split at h
    · next l f hl hf =>
      simp at h; obtain ⟨rfl, rfl, rfl⟩ := h
      exact ⟨c, hc, rfl, l, f, hl, hf, rfl, rfl⟩
    · cases h
  · rintro ⟨c, hc, rfl, l, f, hl, hf, rfl, rfl⟩
    exact ⟨c, hc, by simp [hl, hf]⟩

theorem allJoins_iff (ups cores downs : List Seg) (src dst : Nat) (es : List Edge) :
    es ∈ allJoins ups cores downs src dst ↔ IsJoin ups cores downs src dst es := by
  unfold allJoins IsJoin
  simp only [List.mem_append, List.mem_map, List.mem_filter, List.mem_flatMap, Prod.exists,
    mem_upsFrom, mem_downsTo, mem_coreLinks, decide_eq_true_eq]
  constructor
  · rintro ((((((⟨e, v, ⟨h, rfl⟩, rfl⟩ | ⟨a, c, b, ⟨h, rfl, rfl⟩, rfl⟩) | ⟨v, d, ⟨h, rfl⟩, rfl⟩) |
      ⟨e, v, hu, a, c, b, ⟨hc, rfl, rfl⟩, rfl⟩) | ⟨e, v, hu, w, d, ⟨hd, rfl⟩, rfl⟩) |
      ⟨a, c, b, hc, h⟩) | ⟨e, v, hu, a, c, b, ⟨hc, rfl⟩, w, d, ⟨hd, rfl⟩, rfl⟩)
    · exact .inl ⟨e, rfl, h⟩
    · exact .inr (.inl ⟨c, rfl, h⟩)
    · exact .inr (.inr (.inl ⟨d, rfl, h⟩))
    · exact .inr (.inr (.inr (.inl ⟨e, c, _, rfl, hu, hc⟩)))
    · exact .inr (.inr (.inr (.inr (.inl ⟨e, d, _, rfl, hu, hd⟩))))
    · split at h
      · next ha =>
        subst ha
        simp only [List.mem_map, List.mem_filter, Prod.exists, mem_downsTo, decide_eq_true_eq] at h
        obtain ⟨w, d, ⟨hd, rfl⟩, rfl⟩ := h
        exact .inr (.inr (.inr (.inr (.inr (.inl ⟨c, d, _, rfl, hc, hd⟩)))))
      · cases h
    · exact .inr (.inr (.inr (.inr (.inr (.inr ⟨e, c, d, _, _, rfl, hu, hc, hd⟩)))))
  · rintro (⟨e, rfl, h⟩ | ⟨c, rfl, h⟩ | ⟨d, rfl, h⟩ | ⟨e, c, v, rfl, hu, hc⟩ | ⟨e, d, v, rfl, hu, hd⟩ |
      ⟨c, d, v, rfl, hc, hd⟩ | ⟨e, c, d, v, w, rfl, hu, hc, hd⟩)
    · exact .inl (.inl (.inl (.inl (.inl (.inl ⟨e, _, ⟨h, rfl⟩, rfl⟩)))))
    · exact .inl (.inl (.inl (.inl (.inl (.inr ⟨_, c, _, ⟨h, rfl, rfl⟩, rfl⟩)))))
    · exact .inl (.inl (.inl (.inl (.inr ⟨_, d, ⟨h, rfl⟩, rfl⟩))))
    · exact .inl (.inl (.inl (.inr ⟨e, v, hu, v, c, _, ⟨hc, rfl, rfl⟩, rfl⟩)))
    · exact .inl (.inl (.inr ⟨e, v, hu, v, d, ⟨hd, rfl⟩, rfl⟩))
    · refine .inl (.inr ⟨_, c, v, hc, ?_⟩)
      simp only [if_true, List.mem_map, List.mem_filter, Prod.exists, mem_downsTo, decide_eq_true_eq]
      exact ⟨v, d, ⟨hd, rfl⟩, rfl⟩
    · exact .inr ⟨e, v, hu, v, c, w, ⟨hc, rfl⟩, w, d, ⟨hd, rfl⟩, rfl⟩

/-! `filterDuplicates` -/


def KeysDistinct (m : UMap) : Prop := m.Pairwise fun a b => a.1 ≠ b.1

theorem ulookup_none {m : UMap} {fp} : ulookup m fp = none ↔ ∀ kv ∈ m, kv.1 ≠ fp := by
  induction m with
  | nil => simp [ulookup]
  | cons a m ih =>
    obtain ⟨k, v⟩ := a
    unfold ulookup
    by_cases h : k = fp
    · simp [h]
    · simp [h, ih]

theorem ulookup_some {m : UMap} {fp v} (h : ulookup m fp = some v) : (fp, v) ∈ m := by
  induction m with
  | nil => simp [ulookup] at h
  | cons a m ih =>
    obtain ⟨k, w⟩ := a
    unfold ulookup at h
    by_cases hk : k = fp
    · simp [hk] at h; subst h; subst hk; exact List.mem_cons_self
    · simp [hk] at h; exact List.mem_cons_of_mem _ (ih h)

theorem mem_uset_iff {m : UMap} (hd : KeysDistinct m) {fp v x} :
    x ∈ uset m fp v ↔ x = (fp, v) ∨ (x ∈ m ∧ x.1 ≠ fp) := by
  induction m with
  | nil => simp [uset]
  | cons a m ih =>
    obtain ⟨k, w⟩ := a
    have hd' := List.pairwise_cons.1 hd
    unfold uset
    by_cases hk : k = fp
    · subst hk
      simp only [if_true, List.mem_cons]
      constructor
      · rintro (h | h)
        · exact .inl h
        · exact .inr ⟨.inr h, fun he => hd'.1 x h he.symm⟩
      · rintro (h | ⟨h1 | h1, h2⟩)
        · exact .inl h
        · subst h1; exact absurd rfl h2
        · exact .inr h1
    · simp only [hk, if_false, List.mem_cons, ih hd'.2]
      constructor
      · rintro (h | h | ⟨h1, h2⟩)
        · subst h; exact .inr ⟨.inl rfl, hk⟩
        · exact .inl h
        · exact .inr ⟨.inr h1, h2⟩
      · rintro (h | ⟨h1 | h1, h2⟩)
        · exact .inr (.inl h)
        · exact .inl h1
        · exact .inr (.inr ⟨h1, h2⟩)

theorem keysDistinct_uset {m : UMap} (hd : KeysDistinct m) (fp v) : KeysDistinct (uset m fp v) := by
  induction m with
  | nil => simp [uset, KeysDistinct]
  | cons a m ih =>
    obtain ⟨k, w⟩ := a
    have hd' := List.pairwise_cons.1 hd
    unfold uset
    by_cases hk : k = fp
    · subst hk
      simp only [if_true]
      exact List.pairwise_cons.2 ⟨hd'.1, hd'.2⟩
    · simp only [hk, if_false]
      refine List.pairwise_cons.2 ⟨?_, ih hd'.2⟩
      intro b hb
      rcases (mem_uset_iff hd'.2).1 hb with h | ⟨h1, _⟩
      · subst h; exact hk
      · exact hd'.1 b h1

theorem keysDistinct_eq {m : UMap} (hd : KeysDistinct m) {a b} (ha : a ∈ m) (hb : b ∈ m)
    (h : a.1 = b.1) : a = b := by
  induction m with
  | nil => cases ha
  | cons x m ih =>
    have hd' := List.pairwise_cons.1 hd
    rcases List.mem_cons.1 ha with rfl | ha' <;> rcases List.mem_cons.1 hb with rfl | hb'
    · rfl
    · exact absurd h (hd'.1 b hb')
    · exact absurd h.symm (hd'.1 a ha')
    · exact ih hd'.2 ha' hb'

/-- invariant of the first loop of `filterDuplicates` after the paths `pre` have been processed -/
structure DedupInv (m : UMap) (pre : List Path) : Prop where
  distinct : KeysDistinct m
  sound : ∀ kv ∈ m, ∃ p, pre[kv.2.1]? = some p ∧ p.intfs = kv.1 ∧ p.expiry = kv.2.2
  complete : ∀ p ∈ pre, ∃ kv ∈ m, kv.1 = p.intfs ∧ p.expiry ≤ kv.2.2

theorem dedupInv_step {m pre} (h : DedupInv m pre) (p : Path) :
    DedupInv (dedupStep m (pre.length, p)) (pre ++ [p]) := by
  have hnew : (pre ++ [p])[pre.length]? = some p := by simp
  have hold : ∀ (i : Nat) (q : Path), pre[i]? = some q → (pre ++ [p])[i]? = some q := by
    intro i q hq
    have hi : i < pre.length := by
      rcases Nat.lt_or_ge i pre.length with h | h
      · exact h
      · rw [List.getElem?_eq_none h] at hq; cases hq
    rw [List.getElem?_append_left hi]; exact hq
  unfold dedupStep
  dsimp only
  cases hl : ulookup m p.intfs with
  | none =>
    simp only
    have hno := ulookup_none.1 hl
    refine ⟨keysDistinct_uset h.distinct _ _, ?_, ?_⟩
    · intro kv hkv
      rcases (mem_uset_iff h.distinct).1 hkv with rfl | ⟨h1, _⟩
      · exact ⟨p, hnew, rfl, rfl⟩
      · obtain ⟨q, hq, h2, h3⟩ := h.sound kv h1
        exact ⟨q, hold _ _ hq, h2, h3⟩
    · intro q hq
      rcases List.mem_append.1 hq with hq | hq
      · obtain ⟨kv, hkv, h1, h2⟩ := h.complete q hq
        refine ⟨kv, (mem_uset_iff h.distinct).2 (.inr ⟨hkv, ?_⟩), h1, h2⟩
        exact hno kv hkv
      · simp at hq; subst hq
        exact ⟨_, (mem_uset_iff h.distinct).2 (.inl rfl), rfl, Nat.le_refl _⟩
  | some v =>
    obtain ⟨i0, e0⟩ := v
    simp only
    have hmem := ulookup_some hl
    split
    · next hgt =>
      refine ⟨keysDistinct_uset h.distinct _ _, ?_, ?_⟩
      · intro kv hkv
        rcases (mem_uset_iff h.distinct).1 hkv with rfl | ⟨h1, _⟩
        · exact ⟨p, hnew, rfl, rfl⟩
        · obtain ⟨q, hq, h2, h3⟩ := h.sound kv h1
          exact ⟨q, hold _ _ hq, h2, h3⟩
      · intro q hq
        rcases List.mem_append.1 hq with hq | hq
        · obtain ⟨kv, hkv, h1, h2⟩ := h.complete q hq
          by_cases hk : kv.1 = p.intfs
          · -- the replaced entry: it was (p.intfs, i0, e0) by distinctness
            have hkv' : kv = (p.intfs, i0, e0) := keysDistinct_eq h.distinct hkv hmem hk
            subst hkv'
            refine ⟨_, (mem_uset_iff h.distinct).2 (.inl rfl), h1, ?_⟩
            simp at h2 ⊢; omega
          · exact ⟨kv, (mem_uset_iff h.distinct).2 (.inr ⟨hkv, hk⟩), h1, h2⟩
        · simp at hq; subst hq
          exact ⟨_, (mem_uset_iff h.distinct).2 (.inl rfl), rfl, Nat.le_refl _⟩
    · next hle =>
      refine ⟨h.distinct, ?_, ?_⟩
      · intro kv hkv
        obtain ⟨q, hq, h2, h3⟩ := h.sound kv hkv
        exact ⟨q, hold _ _ hq, h2, h3⟩
      · intro q hq
        rcases List.mem_append.1 hq with hq | hq
        · exact h.complete q hq
        · simp at hq; subst hq
          exact ⟨_, hmem, rfl, by simp at hle ⊢; omega⟩

theorem dedupInv_fold (l : List Path) (m : UMap) (pre : List Path) (h : DedupInv m pre) :
    DedupInv ((indexedFrom pre.length l).foldl dedupStep m) (pre ++ l) := by
  induction l generalizing m pre with
  | nil => simpa [indexedFrom] using h
  | cons p l ih =>
    have := ih _ _ (dedupInv_step h p)
    simpa [indexedFrom] using this

theorem dedupInv_final (ps : List Path) : DedupInv ((indexedFrom 0 ps).foldl dedupStep []) ps := by
  have := dedupInv_fold ps [] [] ⟨List.Pairwise.nil, by simp, by simp⟩
  simpa using this

theorem indexedFrom_fst_ge {α : Type} (l : List α) (i : Nat) : ∀ x ∈ indexedFrom i l, i ≤ x.1 := by
  induction l generalizing i with
  | nil => simp [indexedFrom]
  | cons a as ih =>
    intro x hx
    simp only [indexedFrom, List.mem_cons] at hx
    rcases hx with rfl | hx
    · exact Nat.le_refl _
    · exact Nat.le_trans (Nat.le_succ _) (ih _ x hx)

theorem indexedFrom_pairwise {α : Type} (l : List α) (i : Nat) :
    (indexedFrom i l).Pairwise fun a b => a.1 < b.1 := by
  induction l generalizing i with
  | nil => exact List.Pairwise.nil
  | cons a as ih =>
    simp only [indexedFrom]
    exact List.pairwise_cons.2 ⟨fun x hx => indexedFrom_fst_ge as (i + 1) x hx, ih _⟩

/-- membership in the result of `filterDuplicates`, in terms of the final map -/
theorem mem_filterDuplicates {ps : List Path} {q : Path} :
    q ∈ filterDuplicates ps ↔ ∃ i, ps[i]? = some q ∧
      ∃ kv ∈ (indexedFrom 0 ps).foldl dedupStep [], kv.2.1 = i := by
  unfold filterDuplicates
  simp only [List.mem_map, List.mem_filter, List.any_eq_true, beq_iff_eq, Prod.exists,
    mem_indexedFrom_zero]
  constructor
  · rintro ⟨i, q', ⟨hq, kv, a, b, hkv, rfl⟩, rfl⟩
    exact ⟨_, hq, kv, a, b, hkv, rfl⟩
  · rintro ⟨i, hq, kv, a, b, hkv, rfl⟩
    exact ⟨_, q, ⟨hq, kv, a, b, hkv, rfl⟩, rfl⟩

theorem filterDuplicates_covers (ps : List Path) (p : Path) (hp : p ∈ ps) :
    ∃ q ∈ filterDuplicates ps, q.intfs = p.intfs ∧ p.expiry ≤ q.expiry := by
  have inv := dedupInv_final ps
  obtain ⟨kv, hkv, h1, h2⟩ := inv.complete p hp
  obtain ⟨q, hq, h3, h4⟩ := inv.sound kv hkv
  exact ⟨q, mem_filterDuplicates.2 ⟨_, hq, kv, hkv, rfl⟩, by rw [h3, h1], by rw [h4]; exact h2⟩

theorem filterDuplicates_latest (ps : List Path) (q : Path) (hq : q ∈ filterDuplicates ps)
    (p : Path) (hp : p ∈ ps) (hfp : p.intfs = q.intfs) : p.expiry ≤ q.expiry := by
  have inv := dedupInv_final ps
  obtain ⟨i, hqi, kv, hkv, rfl⟩ := mem_filterDuplicates.1 hq
  obtain ⟨q', hq', h3, h4⟩ := inv.sound kv hkv
  rw [hqi] at hq'; cases hq'
  obtain ⟨kv', hkv', h1, h2⟩ := inv.complete p hp
  have : kv' = kv := keysDistinct_eq inv.distinct hkv' hkv (by rw [h1, hfp, h3])
  subst this
  rw [h4]; exact h2

theorem filterDuplicates_unique (ps : List Path) :
    (filterDuplicates ps).Pairwise fun a b => a.intfs ≠ b.intfs := by
  have inv := dedupInv_final ps
  unfold filterDuplicates
  dsimp only
  rw [List.pairwise_map]
  have hp := (indexedFrom_pairwise ps 0).sublist (List.filter_sublist
    (p := fun ip => ((indexedFrom 0 ps).foldl dedupStep []).any fun kv => kv.2.1 == ip.1))
  refine hp.imp_of_mem ?_
  intro a b ha hb hlt heq
  simp only [List.mem_filter, List.any_eq_true, beq_iff_eq] at ha hb
  obtain ⟨ha1, kva, hkva, hia⟩ := ha
  obtain ⟨hb1, kvb, hkvb, hib⟩ := hb
  obtain ⟨ia, pa⟩ := a
  obtain ⟨ib, pb⟩ := b
  rw [mem_indexedFrom_zero] at ha1 hb1
  obtain ⟨qa, hqa, h3a, _⟩ := inv.sound kva hkva
  obtain ⟨qb, hqb, h3b, _⟩ := inv.sound kvb hkvb
  simp only at hia hib hlt heq
  rw [hia, ha1] at hqa; cases hqa
  rw [hib, hb1] at hqb; cases hqb
  have : kva = kvb := keysDistinct_eq inv.distinct hkva hkvb (by rw [← h3a, ← h3b, heq])
  subst this
  omega

/-! fingerprint abstraction -/

section Fingerprint
variable {F : Type} [DecidableEq F]
variable (fp : List Iface → F) (K : List Iface → Prop)

theorem ulookupF_map (hinj : ∀ a b, K a → K b → fp a = fp b → a = b) {m : UMap} {k : List Iface}
    (hm : ∀ kv ∈ m, K kv.1) (hk : K k) :
    ulookupF (m.map fun kv => (fp kv.1, kv.2)) (fp k) = ulookup m k := by
  induction m with
  | nil => rfl
  | cons a m ih =>
    obtain ⟨k', v⟩ := a
    have hk' : K k' := hm (k', v) List.mem_cons_self
    simp only [List.map_cons, ulookupF, ulookup]
    by_cases h : k' = k
    · simp [h]
    · have : fp k' ≠ fp k := fun he => h (hinj _ _ hk' hk he)
      simp only [h, this, if_false]
      exact ih (fun kv hkv => hm kv (List.mem_cons_of_mem _ hkv))

theorem usetF_map (hinj : ∀ a b, K a → K b → fp a = fp b → a = b) {m : UMap} {k : List Iface}
    (hm : ∀ kv ∈ m, K kv.1) (hk : K k) (v : Nat × Nat) :
    usetF (m.map fun kv => (fp kv.1, kv.2)) (fp k) v = (uset m k v).map fun kv => (fp kv.1, kv.2) := by
  induction m with
  | nil => rfl
  | cons a m ih =>
    obtain ⟨k', w⟩ := a
    have hk' : K k' := hm (k', w) List.mem_cons_self
    simp only [List.map_cons, usetF, uset]
    by_cases h : k' = k
    · simp [h]
    · have : fp k' ≠ fp k := fun he => h (hinj _ _ hk' hk he)
      simp only [h, this, if_false, List.map_cons]
      rw [ih (fun kv hkv => hm kv (List.mem_cons_of_mem _ hkv))]

theorem uset_keys {m : UMap} {k : List Iface} {v : Nat × Nat} (hm : ∀ kv ∈ m, K kv.1) (hk : K k) :
    ∀ kv ∈ uset m k v, K kv.1 := by
  induction m with
  | nil => intro kv h; simp [uset] at h; subst h; exact hk
  | cons a m ih =>
    obtain ⟨k', w⟩ := a
    intro kv h
    unfold uset at h
    split at h
    · rcases List.mem_cons.1 h with rfl | h
      · exact hm (k', w) List.mem_cons_self
      · exact hm kv (List.mem_cons_of_mem _ h)
    · rcases List.mem_cons.1 h with rfl | h
      · exact hm (k', w) List.mem_cons_self
      · exact ih (fun kv hkv => hm kv (List.mem_cons_of_mem _ hkv)) kv h

theorem dedupStepF_map (hinj : ∀ a b, K a → K b → fp a = fp b → a = b) {m : UMap}
    (hm : ∀ kv ∈ m, K kv.1) (ip : Nat × Path) (hk : K ip.2.intfs) :
    dedupStepF fp (m.map fun kv => (fp kv.1, kv.2)) ip = (dedupStep m ip).map (fun kv => (fp kv.1, kv.2))
    ∧ ∀ kv ∈ dedupStep m ip, K kv.1 := by
  unfold dedupStepF dedupStep
  rw [ulookupF_map fp K hinj hm hk]
  cases ulookup m ip.2.intfs with
  | none => exact ⟨usetF_map fp K hinj hm hk _, uset_keys K hm hk⟩
  | some v =>
    obtain ⟨i0, e0⟩ := v
    dsimp only
    split
    · exact ⟨usetF_map fp K hinj hm hk _, uset_keys K hm hk⟩
    · exact ⟨rfl, hm⟩

theorem foldl_dedupStepF_map (hinj : ∀ a b, K a → K b → fp a = fp b → a = b) (l : List (Nat × Path))
    (hl : ∀ ip ∈ l, K ip.2.intfs) (m : UMap) (hm : ∀ kv ∈ m, K kv.1) :
    l.foldl (dedupStepF fp) (m.map fun kv => (fp kv.1, kv.2)) =
      (l.foldl dedupStep m).map fun kv => (fp kv.1, kv.2) := by
  induction l generalizing m with
  | nil => rfl
  | cons ip l ih =>
    obtain ⟨h1, h2⟩ := dedupStepF_map fp K hinj hm ip (hl ip List.mem_cons_self)
    simp only [List.foldl_cons, h1]
    exact ih (fun x hx => hl x (List.mem_cons_of_mem _ hx)) _ h2

/-- soundness of modelling the fingerprint by the interface list itself: if the fingerprint function
is injective on the interface lists of the paths at hand (no SHA-256 collision among them), the
code's `filterDuplicates` keyed by fingerprints returns exactly what the model's returns -/
theorem filterDuplicatesF_eq (ps : List Path)
    (hinj : ∀ p ∈ ps, ∀ q ∈ ps, fp p.intfs = fp q.intfs → p.intfs = q.intfs) :
    filterDuplicatesF fp ps = filterDuplicates ps := by
  unfold filterDuplicatesF filterDuplicates
  dsimp only
  have hK : ∀ a b, (∃ p ∈ ps, p.intfs = a) → (∃ p ∈ ps, p.intfs = b) → fp a = fp b → a = b := by
    rintro a b ⟨p, hp, rfl⟩ ⟨q, hq, rfl⟩ h; exact hinj p hp q hq h
  have hl : ∀ ip ∈ indexedFrom 0 ps, ∃ p ∈ ps, p.intfs = ip.2.intfs :=
    fun ip hip => ⟨ip.2, (by obtain ⟨k, y⟩ := ip; rw [mem_indexedFrom] at hip; exact List.mem_of_getElem? hip.2), rfl⟩
  have := foldl_dedupStepF_map fp (fun a => ∃ p ∈ ps, p.intfs = a) hK (indexedFrom 0 ps) hl []
    (by simp)
  simp only [List.map_nil] at this
  rw [this]
  simp only [List.any_map]
  rfl

end Fingerprint

end Scion.Combinator
