import Scion.Model.Combinator
/-! Helper lemmas about `Scion.Model.Combinator` (used by `Props/C28.lean`, `Props/C29.lean`). -/
namespace Scion.Combinator


theorem iter_hf {mtu e isSc peer it} (h : iter mtu e isSc peer = .ok it) :
    headHop e peer = some it.hf := by
  unfold iter at h
  split at h
  · cases h; rfl
  · split at h
    · cases h
    · next p hp => cases h; simp [headHop, hp]

theorem ifacesOf_reverse (ia : Nat) (hf : HopF) (a b : Bool) :
    (ifacesOf ia hf a b).reverse = (if (!a || b) then nz ia hf.inIf else []) ++ nz ia hf.egIf := by
  unfold ifacesOf nz
  by_cases h1 : hf.egIf = 0 <;> by_cases h2 : hf.inIf = 0 <;> cases a <;> cases b <;> simp [h1, h2]

theorem iter_intfs {mtu e isSc peer it} (h : iter mtu e isSc peer = .ok it) :
    it.intfs = ifacesOf e.ia it.hf isSc (peer != 0) := by
  unfold iter at h
  split at h
  · cases h; rfl
  · split at h
    · cases h
    · cases h; simp

theorem plainIfaces_reverse_flatMap (tl : List ASE) :
    (tl.reverse.flatMap plainIfaces).reverse =
      tl.flatMap fun e => nz e.ia e.hf.inIf ++ nz e.ia e.hf.egIf := by
  induction tl with
  | nil => rfl
  | cons a tl ih =>
    simp only [List.reverse_cons, List.flatMap_append, List.flatMap_cons, List.flatMap_nil,
      List.append_nil, List.reverse_append, ih, plainIfaces, ifacesOf_reverse]
    simp

theorem segLoop_intfs {mtu ents sc peer hops intfs m}
    (h : segLoop mtu ents sc peer = .ok (hops, intfs, m)) :
    consIfaces ents sc peer = some intfs.reverse := by
  unfold segLoop at h
  unfold consIfaces
  split at h
  · next hd => cases h; simp [hd]
  · next hd tl heq =>
    split at h
    · cases h
    · next it hit =>
      cases h
      simp only [heq, iter_hf hit, Option.map_some, List.reverse_append,
        plainIfaces_reverse_flatMap, iter_intfs hit, ifacesOf_reverse]
      cases sc <;> cases peer <;> simp


theorem segLoop_hops {mtu ents sc peer hops intfs m}
    (h : segLoop mtu ents sc peer = .ok (hops, intfs, m)) :
    consHops ents sc peer = some hops.reverse := by
  unfold segLoop at h
  unfold consHops
  split at h
  · next hd => cases h; simp [hd]
  · next hd tl heq =>
    split at h
    · cases h
    · next it hit =>
      cases h
      simp [heq, iter_hf hit]

theorem edgeOut_hops {mtu e s m} (h : edgeOut mtu e = .ok (s, m)) :
    consHops e.seg.ents e.sc e.peer = some (if e.kind = .down then s.hops else s.hops.reverse) := by
  unfold edgeOut at h
  split at h
  · cases h
  · next hops intfs m' hl =>
    dsimp only at h
    split at h
    · next hk => cases h; simp [hk, segLoop_hops hl]
    · next hk => cases h; simp [hk, segLoop_hops hl]

theorem edgeOut_info {mtu e s m} (h : edgeOut mtu e = .ok (s, m)) :
    s.info = ⟨e.seg.ts, calculateBeta e, e.kind == .down, e.peer != 0⟩ := by
  unfold edgeOut at h
  split at h
  · cases h
  · dsimp only at h
    split at h <;> cases h <;> rfl


theorem foldl_min_le_init (l : List Nat) (a : Nat) : l.foldl min a ≤ a := by
  induction l generalizing a with
  | nil => exact Nat.le_refl _
  | cons x xs ih => exact Nat.le_trans (ih _) (Nat.min_le_left _ _)

theorem foldl_min_le_mem (l : List Nat) (a x : Nat) (hx : x ∈ l) : l.foldl min a ≤ x := by
  induction l generalizing a with
  | nil => cases hx
  | cons y ys ih =>
    cases hx with
    | head => exact Nat.le_trans (foldl_min_le_init ys (min a x)) (Nat.min_le_right _ _)
    | tail _ h => exact ih _ h

theorem foldl_min_mem (l : List Nat) (a : Nat) : l.foldl min a = a ∨ l.foldl min a ∈ l := by
  induction l generalizing a with
  | nil => exact .inl rfl
  | cons y ys ih =>
    rcases ih (min a y) with h | h
    · simp only [List.foldl_cons, h]
      rcases Nat.le_total a y with h' | h'
      · left; exact Nat.min_eq_left h'
      · right; rw [Nat.min_eq_right h']; exact List.mem_cons_self
    · right; exact List.mem_cons_of_mem _ h

theorem plainMtu_eq (m : Nat) (e : ASE) : plainMtu m e = (plainTerms e).foldl min m := by
  unfold plainMtu plainTerms
  split <;> simp

theorem foldl_plainMtu (l : List ASE) (m : Nat) :
    l.foldl plainMtu m = (l.flatMap plainTerms).foldl min m := by
  induction l generalizing m with
  | nil => rfl
  | cons a l ih => simp [List.foldl_append, ih, plainMtu_eq]

theorem iter_mtu {mtu e sc peer it} (h : iter mtu e (sc != 0) peer = .ok it) :
    it.mtu = (headTerms e sc peer).foldl min mtu := by
  unfold iter at h
  unfold headTerms
  split at h
  · cases h
    cases sc <;> by_cases h0 : e.inMtu = 0 <;> simp [h0]
  · split at h
    · cases h
    · next p hp => cases h; simp [hp]

theorem segLoop_mtu {mtu ents sc peer hops intfs m}
    (h : segLoop mtu ents sc peer = .ok (hops, intfs, m)) :
    m = (mtuTerms ents sc peer).foldl min mtu := by
  unfold segLoop at h
  unfold mtuTerms
  split at h
  · next hd => cases h; simp [hd]
  · next hd tl heq =>
    split at h
    · cases h
    · next it hit =>
      cases h
      rw [iter_mtu hit, foldl_plainMtu]
      simp only [heq, List.foldl_append]


theorem upExits_kind {u : Seg} {x} (h : x ∈ upExits u) : x.1.kind = .up ∧ x.1.seg = u := by
  unfold upExits at h
  simp only [List.mem_flatMap, List.mem_append, List.mem_map] at h
  obtain ⟨ie, _, h | ⟨kp, _, rfl⟩⟩ := h
  · split at h
    · simp at h; subst h; exact ⟨rfl, rfl⟩
    · cases h
  · exact ⟨rfl, rfl⟩

theorem downEntries_kind {d : Seg} {x} (h : x ∈ downEntries d) : x.2.kind = .down ∧ x.2.seg = d := by
  unfold downEntries at h
  simp only [List.mem_flatMap, List.mem_append, List.mem_map] at h
  obtain ⟨ie, _, h | ⟨kp, _, rfl⟩⟩ := h
  · split at h
    · simp at h; subst h; exact ⟨rfl, rfl⟩
    · cases h
  · exact ⟨rfl, rfl⟩

theorem upsFrom_kind {ups src x} (h : x ∈ upsFrom ups src) : x.1.kind = .up ∧ x.1.seg ∈ ups := by
  unfold upsFrom at h
  simp only [List.mem_flatMap, List.mem_filter] at h
  obtain ⟨u, ⟨hu, _⟩, hx⟩ := h
  have := upExits_kind hx
  exact ⟨this.1, this.2 ▸ hu⟩

theorem downsTo_kind {downs dst x} (h : x ∈ downsTo downs dst) : x.2.kind = .down ∧ x.2.seg ∈ downs := by
  unfold downsTo at h
  simp only [List.mem_flatMap, List.mem_filter] at h
  obtain ⟨u, ⟨hu, _⟩, hx⟩ := h
  have := downEntries_kind hx
  exact ⟨this.1, this.2 ▸ hu⟩

theorem coreLinks_kind {cores x} (h : x ∈ coreLinks cores) : x.2.1.kind = .core ∧ x.2.1.seg ∈ cores := by
  unfold coreLinks at h
  simp only [List.mem_filterMap] at h
  obtain ⟨c, hc, h⟩ := h
  split at h
  · simp at h; subst h; exact ⟨rfl, hc⟩
  · cases h

theorem allJoins_kinds {ups cores downs src dst es} (h : es ∈ allJoins ups cores downs src dst) :
    es.map (·.kind) ∈ kindShapes := by
  unfold allJoins at h
  simp only [List.mem_append, List.mem_map, List.mem_filter, List.mem_flatMap] at h
  rcases h with (((((⟨u, ⟨hu, _⟩, rfl⟩ | ⟨c, ⟨hc, _⟩, rfl⟩) | ⟨d, ⟨hd, _⟩, rfl⟩) |
    ⟨u, hu, c, ⟨hc, _⟩, rfl⟩) | ⟨u, hu, d, ⟨hd, _⟩, rfl⟩) | ⟨c, hc, h⟩) |
    ⟨u, hu, c, ⟨hc, _⟩, d, ⟨hd, _⟩, rfl⟩
  · simp [kindShapes, (upsFrom_kind hu).1]
  · simp [kindShapes, (coreLinks_kind hc).1]
  · simp [kindShapes, (downsTo_kind hd).1]
  · simp [kindShapes, (upsFrom_kind hu).1, (coreLinks_kind hc).1]
  · simp [kindShapes, (upsFrom_kind hu).1, (downsTo_kind hd).1]
  · split at h
    · simp only [List.mem_map, List.mem_filter] at h
      obtain ⟨d, ⟨hd, _⟩, rfl⟩ := h
      simp [kindShapes, (coreLinks_kind hc).1, (downsTo_kind hd).1]
    · cases h
  · simp [kindShapes, (upsFrom_kind hu).1, (coreLinks_kind hc).1, (downsTo_kind hd).1]


/-- every output segment of `pathLoop` is the `edgeOut` of the corresponding edge -/
theorem pathLoop_forall2 {m es segs m'} (h : pathLoop m es = .ok (segs, m')) :
    Rel2 (fun e s => ∃ a b, edgeOut a e = .ok (s, b)) es segs := by
  induction es generalizing m segs m' with
  | nil => simp [pathLoop] at h; obtain ⟨rfl, _⟩ := h; exact .nil
  | cons e es ih =>
    unfold pathLoop at h
    split at h
    · cases h
    · next s m1 he =>
      split at h
      · cases h
      · next ss m2 hl =>
        cases h
        exact .cons ⟨_, _, he⟩ (ih hl)

theorem edgeOut_mtu {mtu e s m} (h : edgeOut mtu e = .ok (s, m)) :
    m = (mtuTerms e.seg.ents e.sc e.peer).foldl min mtu := by
  unfold edgeOut at h
  split at h
  · cases h
  · next hops intfs m' hl =>
    dsimp only at h
    split at h <;> cases h <;> exact segLoop_mtu hl

theorem pathLoop_mtu {m es segs m'} (h : pathLoop m es = .ok (segs, m')) :
    m' = (allMtuTerms es).foldl min m := by
  induction es generalizing m segs m' with
  | nil => simp [pathLoop] at h; simp [allMtuTerms, h.2]
  | cons e es ih =>
    unfold pathLoop at h
    split at h
    · cases h
    · next s m1 he =>
      split at h
      · cases h
      · next ss m2 hl =>
        cases h
        rw [ih hl, edgeOut_mtu he]
        simp [allMtuTerms, List.foldl_append]

theorem edgeOut_intfs {mtu e s m} (h : edgeOut mtu e = .ok (s, m)) :
    consIfaces e.seg.ents e.sc e.peer =
      some (if e.kind = .down then s.intfs else s.intfs.reverse) := by
  unfold edgeOut at h
  split at h
  · cases h
  · next hops intfs m' hl =>
    dsimp only at h
    split at h
    · next hk => cases h; simp [hk, segLoop_intfs hl]
    · next hk => cases h; simp [hk, segLoop_intfs hl]

/-! expiry -/

theorem hopsTTL_eq (hops : List HopF) :
    hopsTTL hops = (hops.map fun h => expToMs h.exp).foldl min maxTTL := by
  unfold hopsTTL
  generalize maxTTL = a
  induction hops generalizing a with
  | nil => rfl
  | cons h t ih =>
    simp only [List.foldl_cons, List.map_cons]
    rw [ih]
    congr 1
    simp only [Nat.min_def]
    split <;> split <;> omega

theorem computeExpTime_eq (segs : List SegOut) :
    computeExpTime segs = (segs.map segExpiry).foldl min maxExpiration := by
  unfold computeExpTime
  generalize maxExpiration = a
  induction segs generalizing a with
  | nil => rfl
  | cons h t ih =>
    simp only [List.foldl_cons, List.map_cons]
    rw [ih]
    congr 1
    simp only [Nat.min_def]
    split <;> split <;> omega

/-! sorting -/

theorem insertByWeight_perm (p : Path) (l : List Path) : (insertByWeight p l).Perm (p :: l) := by
  induction l with
  | nil => exact .refl _
  | cons q qs ih =>
    unfold insertByWeight
    split
    · exact .refl _
    · exact (List.Perm.cons q ih).trans (List.Perm.swap p q qs)

theorem sortByWeight_perm (l : List Path) : (sortByWeight l).Perm l := by
  induction l with
  | nil => exact .refl _
  | cons p ps ih =>
    show (insertByWeight p (sortByWeight ps)).Perm (p :: ps)
    exact (insertByWeight_perm p _).trans (List.Perm.cons p ih)

theorem insertByWeight_sorted (p : Path) (l : List Path)
    (h : l.Pairwise fun a b => a.weight ≤ b.weight) :
    (insertByWeight p l).Pairwise fun a b => a.weight ≤ b.weight := by
  induction l with
  | nil => simp [insertByWeight]
  | cons q qs ih =>
    unfold insertByWeight
    rw [List.pairwise_cons] at h
    split
    · next hle =>
      refine List.pairwise_cons.2 ⟨?_, List.pairwise_cons.2 h⟩
      intro x hx
      cases hx with
      | head => exact hle
      | tail _ hx => exact Nat.le_trans hle (h.1 x hx)
    · next hnle =>
      refine List.pairwise_cons.2 ⟨?_, ih h.2⟩
      intro x hx
      have := (insertByWeight_perm p qs).mem_iff.1 hx
      cases this with
      | head => omega
      | tail _ hx => exact h.1 x hx

theorem sortByWeight_sorted (l : List Path) :
    (sortByWeight l).Pairwise fun a b => a.weight ≤ b.weight := by
  induction l with
  | nil => exact List.Pairwise.nil
  | cons p ps ih => exact insertByWeight_sorted p _ ih

theorem indexedFrom_map_snd {α : Type} (l : List α) (i : Nat) : (indexedFrom i l).map (·.2) = l := by
  induction l generalizing i with
  | nil => rfl
  | cons a as ih => simp [indexedFrom, ih]

theorem filterDuplicates_sublist (ps : List Path) : (filterDuplicates ps).Sublist ps := by
  unfold filterDuplicates
  dsimp only
  have h := (List.filter_sublist (l := indexedFrom 0 ps)
    (p := fun ip => ((indexedFrom 0 ps).foldl dedupStep []).any fun kv => kv.2.1 == ip.1)).map (·.2)
  rwa [indexedFrom_map_snd] at h


theorem mem_indexedFrom {α : Type} (l : List α) (i k : Nat) (a : α) :
    (k, a) ∈ indexedFrom i l ↔ i ≤ k ∧ l[k - i]? = some a := by
  induction l generalizing i with
  | nil => simp [indexedFrom]
  | cons x xs ih =>
    simp only [indexedFrom, List.mem_cons, Prod.mk.injEq, ih]
    constructor
    · rintro (⟨rfl, rfl⟩ | ⟨h1, h2⟩)
      · simp
      · refine ⟨by omega, ?_⟩
        have : k - i = (k - (i + 1)) + 1 := by omega
        rw [this]; simpa using h2
    · rintro ⟨h1, h2⟩
      by_cases hk : k = i
      · subst hk; simp at h2; exact .inl ⟨rfl, h2.symm⟩
      · right
        refine ⟨by omega, ?_⟩
        have : k - i = (k - (i + 1)) + 1 := by omega
        rw [this] at h2; simpa using h2

theorem mem_indexedFrom_zero {α : Type} (l : List α) (k : Nat) (a : α) :
    (k, a) ∈ indexedFrom 0 l ↔ l[k]? = some a := by
  simp [mem_indexedFrom]

theorem mem_upExits (u : Seg) (e : Edge) (v : Vertex) : (e, v) ∈ upExits u ↔ IsUpExit u e v := by
  unfold upExits IsUpExit
  simp only [List.mem_flatMap, List.mem_append, List.mem_map, Prod.exists, mem_indexedFrom_zero]
  constructor
  · rintro ⟨i, ent, hi, h | ⟨k, p, hk, h⟩⟩
    · split at h
      · next hne =>
        simp at h; obtain ⟨rfl, rfl⟩ := h
        exact ⟨rfl, rfl, ent, hi, .inl ⟨rfl, hne, rfl⟩⟩
      · cases h
    · simp at h; obtain ⟨rfl, rfl⟩ := h
      exact ⟨rfl, rfl, ent, hi, .inr ⟨k, p, rfl, hk, rfl⟩⟩
  · rintro ⟨rfl, hk, ent, hi, ⟨hp, hne, rfl⟩ | ⟨k, p, hp, hk2, rfl⟩⟩
    · refine ⟨e.sc, ent, hi, .inl ?_⟩
      simp only [hne, ne_eq, not_false_eq_true, if_true, List.mem_singleton, Prod.mk.injEq, and_true]
      cases e; simp_all
    · refine ⟨e.sc, ent, hi, .inr ⟨k, p, hk2, ?_⟩⟩
      cases e; simp_all


theorem mem_downEntries (d : Seg) (v : Vertex) (e : Edge) :
    (v, e) ∈ downEntries d ↔ IsDownEntry d v e := by
  unfold downEntries IsDownEntry
  simp only [List.mem_flatMap, List.mem_append, List.mem_map, Prod.exists, mem_indexedFrom_zero]
  constructor
  · rintro ⟨i, ent, hi, h | ⟨k, p, hk, h⟩⟩
    · split at h
      · next hne =>
        simp at h; obtain ⟨rfl, rfl⟩ := h
        exact ⟨rfl, rfl, ent, hi, .inl ⟨rfl, hne, rfl⟩⟩
      · cases h
    · simp at h; obtain ⟨rfl, rfl⟩ := h
      exact ⟨rfl, rfl, ent, hi, .inr ⟨k, p, rfl, hk, rfl⟩⟩
  · rintro ⟨rfl, hk, ent, hi, ⟨hp, hne, rfl⟩ | ⟨k, p, hp, hk2, rfl⟩⟩
    · refine ⟨e.sc, ent, hi, .inl ?_⟩
      simp only [hne, ne_eq, not_false_eq_true, if_true, List.mem_singleton, Prod.mk.injEq, true_and]
      cases e; simp_all
    · refine ⟨e.sc, ent, hi, .inr ⟨k, p, hk2, ?_⟩⟩
      cases e; simp_all

theorem mem_upsFrom (ups : List Seg) (src : Nat) (e : Edge) (v : Vertex) :
    (e, v) ∈ upsFrom ups src ↔ UpFrom ups src e v := by
  unfold upsFrom UpFrom
  simp only [List.mem_flatMap, List.mem_filter, mem_upExits, beq_iff_eq]
  constructor
  · rintro ⟨u, ⟨hu, hl⟩, h⟩; exact ⟨u, hu, hl, h⟩
  · rintro ⟨u, hu, hl, h⟩; exact ⟨u, ⟨hu, hl⟩, h⟩

theorem mem_downsTo (downs : List Seg) (dst : Nat) (v : Vertex) (e : Edge) :
    (v, e) ∈ downsTo downs dst ↔ DownTo downs dst v e := by
  unfold downsTo DownTo
  simp only [List.mem_flatMap, List.mem_filter, mem_downEntries, beq_iff_eq]
  constructor
  · rintro ⟨u, ⟨hu, hl⟩, h⟩; exact ⟨u, hu, hl, h⟩
  · rintro ⟨u, hu, hl, h⟩; exact ⟨u, ⟨hu, hl⟩, h⟩

theorem mem_coreLinks (cores : List Seg) (a b : Vertex) (e : Edge) :
    (a, e, b) ∈ coreLinks cores ↔ CoreOf cores a e b := by
  unfold coreLinks CoreOf
  simp only [List.mem_filterMap]
  constructor
  · rintro ⟨c, hc, h⟩
    split at h
    · next l f hl hf =>
      simp at h; obtain ⟨rfl, rfl, rfl⟩ := h
      exact ⟨c, hc, rfl, l, f, hl, hf, rfl, rfl⟩
    · cases h
  · rintro ⟨c, hc, rfl, l, f, hl, hf, rfl, rfl⟩
    exact ⟨c, hc, by simp [hl, hf]⟩

theorem allJoins_iff (ups cores downs : List Seg) (src dst : Nat) (es : List Edge) :
    es ∈ allJoins ups cores downs src dst ↔ IsJoin ups cores downs src dst es := by
  unfold allJoins IsJoin
  simp only [List.mem_append, List.mem_map, List.mem_filter, List.mem_flatMap, Prod.exists,
    mem_upsFrom, mem_downsTo, mem_coreLinks, decide_eq_true_eq]
  constructor
  · rintro ((((((⟨e, v, ⟨h, rfl⟩, rfl⟩ | ⟨a, c, b, ⟨h, rfl, rfl⟩, rfl⟩) | ⟨v, d, ⟨h, rfl⟩, rfl⟩) |
      ⟨e, v, hu, a, c, b, ⟨hc, rfl, rfl⟩, rfl⟩) | ⟨e, v, hu, w, d, ⟨hd, rfl⟩, rfl⟩) |
      ⟨a, c, b, hc, h⟩) | ⟨e, v, hu, a, c, b, ⟨hc, rfl⟩, w, d, ⟨hd, rfl⟩, rfl⟩)
    · exact .inl ⟨e, rfl, h⟩
    · exact .inr (.inl ⟨c, rfl, h⟩)
    · exact .inr (.inr (.inl ⟨d, rfl, h⟩))
    · exact .inr (.inr (.inr (.inl ⟨e, c, _, rfl, hu, hc⟩)))
    · exact .inr (.inr (.inr (.inr (.inl ⟨e, d, _, rfl, hu, hd⟩))))
    · split at h
      · next ha =>
        subst ha
        simp only [List.mem_map, List.mem_filter, Prod.exists, mem_downsTo, decide_eq_true_eq] at h
        obtain ⟨w, d, ⟨hd, rfl⟩, rfl⟩ := h
        exact .inr (.inr (.inr (.inr (.inr (.inl ⟨c, d, _, rfl, hc, hd⟩)))))
      · cases h
    · exact .inr (.inr (.inr (.inr (.inr (.inr ⟨e, c, d, _, _, rfl, hu, hc, hd⟩)))))
  · rintro (⟨e, rfl, h⟩ | ⟨c, rfl, h⟩ | ⟨d, rfl, h⟩ | ⟨e, c, v, rfl, hu, hc⟩ | ⟨e, d, v, rfl, hu, hd⟩ |
      ⟨c, d, v, rfl, hc, hd⟩ | ⟨e, c, d, v, w, rfl, hu, hc, hd⟩)
    · exact .inl (.inl (.inl (.inl (.inl (.inl ⟨e, _, ⟨h, rfl⟩, rfl⟩)))))
    · exact .inl (.inl (.inl (.inl (.inl (.inr ⟨_, c, _, ⟨h, rfl, rfl⟩, rfl⟩)))))
    · exact .inl (.inl (.inl (.inl (.inr ⟨_, d, ⟨h, rfl⟩, rfl⟩))))
    · exact .inl (.inl (.inl (.inr ⟨e, v, hu, v, c, _, ⟨hc, rfl, rfl⟩, rfl⟩)))
    · exact .inl (.inl (.inr ⟨e, v, hu, v, d, ⟨hd, rfl⟩, rfl⟩))
    · refine .inl (.inr ⟨_, c, v, hc, ?_⟩)
      simp only [if_true, List.mem_map, List.mem_filter, Prod.exists, mem_downsTo, decide_eq_true_eq]
      exact ⟨v, d, ⟨hd, rfl⟩, rfl⟩
    · exact .inr ⟨e, v, hu, v, c, w, ⟨hc, rfl⟩, w, d, ⟨hd, rfl⟩, rfl⟩

end Scion.Combinator
