import Scion.Proofs.NetMulti4
/-! Several border routers per AS: a delivery in the collapsed network is a delivery, with the same
trace and the same final packet, in the network as it is.  Core Lean only. -/
namespace Scion.Net
open Scion.SegID (updateSegID)

section
variable (mac : MacFn) (net : Net) (now src dst : Nat)

theorem run_forward_sib (fuel a r : Nat) (arr : Arrival)
    (c c' : Cursor) (tr : List (Nat × Nat)) (e : Nat) (f : Iface)
    (hstep : routerStep mac ⟨(net a).key, r, (net a).ifaces⟩ now arr (a == src) (a == dst) c = .forward e c')
    (hf : (net a).iface e = some f) (hown : f.owner ≠ r) :
    run mac net now src dst (fuel + 1) a r arr c tr =
      run mac net now src dst fuel a f.owner (.sibling r) c' tr := by
  simp [run, hstep, hf, hown]

/-- what a run did with its fuel (a forward step or none) -/
theorem run_delivered_inv (fuel a r : Nat) (arr : Arrival) (c : Cursor) (tr : List (Nat × Nat))
    (d : Nat) (tr' : List (Nat × Nat)) (cf : Cursor)
    (h : run mac net now src dst (fuel + 1) a r arr c tr = .delivered d tr' cf) :
    (routerStep mac ⟨(net a).key, r, (net a).ifaces⟩ now arr (a == src) (a == dst) c = .deliver cf ∧
      d = a ∧ tr' = tr) ∨
    (∃ e c' f, routerStep mac ⟨(net a).key, r, (net a).ifaces⟩ now arr (a == src) (a == dst) c = .forward e c' ∧
      (net a).iface e = some f ∧
      ((f.owner = r ∧ ∃ g, (net f.nbr).iface f.nbrIf = some g ∧
          run mac net now src dst fuel f.nbr g.owner (.ext f.nbrIf) c' (tr ++ [(a, e), (f.nbr, f.nbrIf)]) =
            .delivered d tr' cf) ∨
       (f.owner ≠ r ∧ run mac net now src dst fuel a f.owner (.sibling r) c' tr = .delivered d tr' cf))) := by
  simp only [run] at h
  cases hstep : routerStep mac ⟨(net a).key, r, (net a).ifaces⟩ now arr (a == src) (a == dst) c with
  | deliver c' =>
    rw [hstep] at h
    simp only [Result.delivered.injEq] at h
    obtain ⟨rfl, rfl, rfl⟩ := h
    exact Or.inl ⟨rfl, rfl, rfl⟩
  | forward e c' =>
    rw [hstep] at h
    simp only at h
    cases hf : (net a).iface e with
    | none => rw [hf] at h; cases h
    | some f =>
      rw [hf] at h
      simp only at h
      by_cases ho : f.owner = r
      · simp only [ho, beq_self_eq_true, if_true] at h
        cases hg : (net f.nbr).iface f.nbrIf with
        | none => rw [hg] at h; cases h
        | some g =>
          rw [hg] at h
          exact Or.inr ⟨e, c', f, rfl, hf, Or.inl ⟨ho, g, hg, h⟩⟩
      · have : (f.owner == r) = false := by simp [ho]
        simp only [this, Bool.false_eq_true, if_false] at h
        exact Or.inr ⟨e, c', f, rfl, hf, Or.inr ⟨ho, h⟩⟩
  | slow t k e c' => rw [hstep] at h; cases h
  | alert b e c' => rw [hstep] at h; cases h
  | drop => rw [hstep] at h; cases h

/-- more fuel does not change a delivery -/
theorem run_mono : ∀ (n a r : Nat) (arr : Arrival) (c : Cursor) (tr : List (Nat × Nat)) (d : Nat)
    (tr' : List (Nat × Nat)) (cf : Cursor),
    run mac net now src dst n a r arr c tr = .delivered d tr' cf →
    ∀ k, run mac net now src dst (n + k) a r arr c tr = .delivered d tr' cf := by
  intro n
  induction n with
  | zero => intro a r arr c tr d tr' cf h; simp [run] at h
  | succ n ih =>
    intro a r arr c tr d tr' cf h k
    rw [show n + 1 + k = (n + k) + 1 by omega]
    rcases run_delivered_inv mac net now src dst n a r arr c tr d tr' cf h with
      ⟨hst, hd, htr⟩ | ⟨e, c', f, hst, hf, ⟨ho, g, hg, hrun⟩ | ⟨ho, hrun⟩⟩
    · rw [hd, htr]; exact run_deliver mac net now src dst (n + k) a r arr c cf tr hst
    · rw [run_forward_ext mac net now src dst (n + k) a r arr c c' tr e f g hst hf ho hg]
      exact ih _ _ _ _ _ _ _ _ hrun k
    · rw [run_forward_sib mac net now src dst (n + k) a r arr c c' tr e f hst hf ho]
      exact ih _ _ _ _ _ _ _ _ hrun k

theorem remaining_pos (c : Cursor) : 1 ≤ remaining c := by unfold remaining; omega

/-- **a run through ASes with several border routers**: if the network with one router per AS
    delivers the packet, the network as it is delivers it too — same trace, same final packet -/
theorem run_sim (hWF : WFNet net) : ∀ (n a i : Nat) (c : Cursor) (tr : List (Nat × Nat)) (fi : Iface)
    (d : Nat) (tr' : List (Nat × Nat)) (cf : Cursor),
    (net a).iface i = some fi → i ≠ 0 → Uniform c → ArrOK c →
    run mac (collapse net) now src dst n a 0 (.ext i) c tr = .delivered d tr' cf →
    run mac net now src dst (2 * remaining c) a fi.owner (.ext i) c tr = .delivered d tr' cf := by
  intro n
  induction n with
  | zero => intro a i c tr fi d tr' cf _ _ _ _ h; simp [run] at h
  | succ n ih =>
    intro a i c tr fi d tr' cf hfi hi0 hU hA h
    have hpos := remaining_pos c
    rcases run_delivered_inv mac (collapse net) now src dst n a 0 (.ext i) c tr d tr' cf h with
      ⟨hst, hd, htr⟩ | ⟨e, c', f0, hst, hf0, ⟨_, g0, hg0, hrun⟩ | ⟨ho, _⟩⟩
    · have := step_sim_deliver mac net now a fi.owner (.ext i) (a == src) (a == dst) c cf
        (by intro k hk; cases hk) hst
      rw [show 2 * remaining c = (2 * remaining c - 1) + 1 by omega, hd, htr]
      exact run_deliver mac net now src dst _ a fi.owner (.ext i) c cf tr this
    · obtain ⟨hdl, f, hf, he0, hcase, hU', hA', hrem⟩ := step_sim_ext mac net now a i (a == src) (a == dst)
        c e c' fi hfi hi0 hU hA hst
      have hf0' := collapse_iface_some net a e f hf
      rw [hf0'] at hf0
      cases hf0
      obtain ⟨_, _, g, hg, _, _, _⟩ := hWF a e f hf
      have hg0' := collapse_iface_some net f.nbr f.nbrIf g hg
      have hnb : (collapseIf f).nbr = f.nbr := rfl
      have hni : (collapseIf f).nbrIf = f.nbrIf := rfl
      rw [hnb, hni] at hg0 hrun
      rw [hg0'] at hg0
      cases hg0
      have hn0 : f.nbrIf ≠ 0 := (hWF f.nbr f.nbrIf g hg).1
      have hgo : (collapseIf g).owner = 0 := rfl
      rw [hgo] at hrun
      have hih := ih f.nbr f.nbrIf c' _ g d tr' cf hg hn0 hU' hA' hrun
      rcases hcase with ⟨hown, hstep⟩ | ⟨hown, cm, hstep1, hstep2⟩
      · rw [← hdl] at hstep
        obtain ⟨k, hk⟩ : ∃ k, 2 * remaining c = (2 * remaining c' + k) + 1 := ⟨2 * remaining c - 2 * remaining c' - 1, by omega⟩
        rw [hk, run_forward_ext mac net now src dst _ a fi.owner (.ext i) c c' tr e f g hstep hf hown hg]
        exact run_mono mac net now src dst _ _ _ _ _ _ _ _ _ hih k
      · rw [← hdl] at hstep1 hstep2
        obtain ⟨k, hk⟩ : ∃ k, 2 * remaining c = ((2 * remaining c' + k) + 1) + 1 := ⟨2 * remaining c - 2 * remaining c' - 2, by omega⟩
        rw [hk, run_forward_sib mac net now src dst _ a fi.owner (.ext i) c cm tr e f hstep1 hf hown,
          run_forward_ext mac net now src dst _ a f.owner (.sibling fi.owner) cm c' tr e f g hstep2 hf rfl hg]
        exact run_mono mac net now src dst _ _ _ _ _ _ _ _ _ hih k
    · exfalso
      obtain ⟨f, _, rfl⟩ := collapse_iface_inv net a e f0 hf0
      exact ho rfl

/-- **`send` through a network with several border routers per AS** -/
theorem send_sim (hWF : WFNet net) (c : Cursor) (hU : Uniform c) (hfirst : c.isFirstHop = true)
    (d : Nat) (tr' : List (Nat × Nat)) (cf : Cursor)
    (h : send mac (collapse net) now src dst c = .delivered d tr' cf) :
    send mac net now src dst c = .delivered d tr' cf := by
  unfold send at h ⊢
  have hfuel : fuelFor c = (2 * remaining c + 1) + 1 := by
    simp only [Cursor.isFirstHop, Bool.and_eq_true, List.isEmpty_iff] at hfirst
    simp only [fuelFor, toFlat, Cursor.segs, Cursor.curSeg, hfirst.1, hfirst.2, remaining,
      List.nil_append, List.map_append, List.map_cons, List.map_nil, List.flatten_append,
      List.flatten_cons, List.flatten_nil, List.length_append, List.length_cons, List.append_nil,
      List.length_nil]
  rw [hfuel] at h ⊢
  rcases run_delivered_inv mac (collapse net) now src dst _ src _ .host c [] d tr' cf h with
    ⟨hst, hd, htr⟩ | ⟨e, c', f0, hst, hf0, ⟨_, g0, hg0, hrun⟩ | ⟨ho, _⟩⟩
  · have hr0 : entryRouter (collapse net) src c = 0 := by
      unfold entryRouter
      split
      · rename_i f hf
        obtain ⟨f', _, rfl⟩ := collapse_iface_inv net src _ f hf
        rfl
      · rfl
    rw [hr0] at hst
    have := step_sim_deliver mac net now src (entryRouter net src c) .host (src == src) (src == dst) c cf
      (by intro k hk; cases hk) hst
    rw [hd, htr]
    exact run_deliver mac net now src dst _ src _ .host c cf [] this
  · have hr0 : entryRouter (collapse net) src c = 0 := by
      unfold entryRouter
      split
      · rename_i f hf
        obtain ⟨f', _, rfl⟩ := collapse_iface_inv net src _ f hf
        rfl
      · rfl
    rw [hr0] at hst
    obtain ⟨hdl, he, f, hf, he0, hstep, hU', hA', hrem⟩ := step_sim_host mac net now src (src == src)
      (src == dst) c e c' hU hfirst hst
    have hf0' := collapse_iface_some net src e f hf
    rw [hf0'] at hf0
    cases hf0
    obtain ⟨_, _, g, hg, _, _, _⟩ := hWF src e f hf
    have hg0' := collapse_iface_some net f.nbr f.nbrIf g hg
    have hnb : (collapseIf f).nbr = f.nbr := rfl
    have hni : (collapseIf f).nbrIf = f.nbrIf := rfl
    rw [hnb, hni] at hg0 hrun
    rw [hg0'] at hg0
    cases hg0
    have hn0 : f.nbrIf ≠ 0 := (hWF f.nbr f.nbrIf g hg).1
    have hgo : (collapseIf g).owner = 0 := rfl
    rw [hgo] at hrun
    have hih := run_sim mac net now src dst hWF _ f.nbr f.nbrIf c' _ g d tr' cf hg hn0 hU' hA' hrun
    have hent : entryRouter net src c = f.owner := by
      unfold entryRouter
      rw [← he, hf]
    rw [hent]
    rw [← hdl] at hstep
    rw [run_forward_ext mac net now src dst _ src f.owner .host c c' [] e f g hstep hf rfl hg]
    obtain ⟨k, hk⟩ : ∃ k, 2 * remaining c + 1 = 2 * remaining c' + k := ⟨2 * remaining c + 1 - 2 * remaining c', by omega⟩
    rw [hk]
    exact run_mono mac net now src dst _ _ _ _ _ _ _ _ _ hih k
  · exfalso
    obtain ⟨f, _, rfl⟩ := collapse_iface_inv net src e f0 hf0
    apply ho
    unfold entryRouter
    split
    · rename_i f' hf'
      obtain ⟨f'', _, rfl⟩ := collapse_iface_inv net src _ f' hf'
      rfl
    · rfl

end

end Scion.Net
