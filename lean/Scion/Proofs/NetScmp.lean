import Scion.Proofs.NetPaths
/-! C10, run level: an expired hop field at a transit AS of a segment traversed against construction
direction; the SCMP reply built by the slow path travels back to the sender.  Core Lean only. -/
namespace Scion.Net
open Scion.SegID (updateSegID extractBeta xorAll)

theorem chainUp_take (mac : MacFn) (net : Net) (core : Bool) (ts : Nat) (l1 : List ASE) :
    ∀ (l2 : List ASE) (b : Nat), l1 ≠ [] → ChainUp mac net core ts b (l1 ++ l2) →
      ChainUp mac net core ts b l1 := by
  induction l1 with
  | nil => intro _ _ h; exact absurd rfl h
  | cons x xs ih =>
    intro l2 b _ hc
    cases xs with
    | nil =>
      cases l2 with
      | nil => simpa using hc
      | cons y ys => simp only [List.cons_append, List.nil_append, ChainUp] at hc ⊢; exact hc.1
    | cons y ys =>
      simp only [List.cons_append, ChainUp] at hc ⊢
      exact ⟨hc.1, hc.2.1, ih l2 _ (by simp) hc.2.2⟩

theorem run_stopped_slow (mac : MacFn) (net : Net) (now src dst fuel a r : Nat) (arr : Arrival)
    (c c' : Cursor) (tr : List (Nat × Nat)) (t k e : Nat)
    (hstep : routerStep mac ⟨(net a).key, r, (net a).ifaces⟩ now arr (a == src) (a == dst) c = .slow t k e c') :
    run mac net now src dst (fuel + 1) a r arr c tr = .stopped a r arr (.slow t k e c') tr := by
  simp [run, hstep]

section
variable (mac : MacFn) (net : Net) (now src dst : Nat) (core : Bool) (ts : Nat)
variable (hWF : WFNet net) (hUp : AllUp net) (hSR : SingleRouter net)
include hWF hUp hSR

/-- **C10, expired hop on a segment traversed against construction direction.**
    Forwarding order of the used part of the segment: `top`, `r1`, `ej`, `r2`, `x`.  The hop field
    of `ej` in the packet has an expired `ExpTime` (`exp'`).  The packet is stopped by the AS of
    `ej`, the reply built by `scmpPrepare` is delivered in the source AS. -/
theorem up_expired_reply_run (bU βj : Nat) (top : ASE) (r1 : List ASE) (ej : ASE) (r2 : List ASE) (x : ASE)
    (exp' : Nat)
    (hcU : ChainUp mac net core ts bU (top :: (r1 ++ ej :: (r2 ++ [x]))))
    (hcD : Chain mac net core ts βj (ej :: (r1.reverse ++ [top])))
    (hβ : updateSegID (extractBeta (updateSegID bU (pfx top.hop.mac)) (sig r1)) (pfx ej.hop.mac) = βj)
    (hsrc : src = top.ia) (hdst : dst = x.ia)
    (hnd : ((top :: (r1 ++ ej :: (r2 ++ [x]))).map (·.ia)).Nodup)
    (hexpU : ∀ e ∈ top :: r1, expired now ts e.hop.exp = false)
    (hexp' : expired now ts exp' = true) (fuel : Nat) :
    ∃ tr c1 rc trr cr,
      run mac net now src dst (fuel + 2 + r1.length) src 0 .host
        ⟨[], ⟨false, false, updateSegID bU (pfx top.hop.mac), ts⟩, [], hopOf top.hop,
          (r1.map fun e => hopOf e.hop) ++ { hopOf ej.hop with exp := exp' } ::
            ((r2 ++ [x]).map fun e => hopOf e.hop), []⟩ [] =
        .stopped ej.ia 0 (.ext ej.hop.cEg) (.slow 4 52 0 c1) tr ∧
      replyOf (.slow 4 52 0 c1) (.ext ej.hop.cEg) = some rc ∧
      followReply mac net now src ej.ia 0 (.ext ej.hop.cEg) rc = .delivered src trr cr := by
  -- distinctness
  have hsplit : top :: (r1 ++ ej :: (r2 ++ [x])) = (top :: (r1 ++ [ej])) ++ (r2 ++ [x]) := by simp
  rw [hsplit, List.map_append] at hnd
  have hnd1 := (List.nodup_append.1 hnd).1
  have hdisj := (List.nodup_append.1 hnd).2.2
  obtain ⟨htej, hmid1⟩ := nd_facts top r1 ej hnd1
  have hnx : ∀ e ∈ top :: (r1 ++ [ej]), e.ia ≠ x.ia := by
    intro e he
    exact hdisj e.ia (List.mem_map.2 ⟨e, he, rfl⟩) x.ia (by simp)
  have hsd : src ≠ dst := by rw [hsrc, hdst]; exact hnx top (by simp)
  -- the part of the chain up to ej
  have hcU1 : ChainUp mac net core ts bU (top :: (r1 ++ [ej])) :=
    chainUp_take mac net core ts (top :: (r1 ++ [ej])) (r2 ++ [x]) bU (by simp) (by rw [← hsplit]; exact hcU)
  have hne : r1 ++ [ej] = firstOf r1 ej :: (r1 ++ [ej]).tail := by
    cases r1 <;> simp [firstOf]
  have hcU' := hcU1
  rw [hne] at hcU'
  simp only [ChainUp] at hcU'
  obtain ⟨hmt, hlt, _⟩ := hcU'
  obtain ⟨f1, hf1, _, hf1n, hf1i, _⟩ := hlt
  obtain ⟨_, _, g1, hg1, hg1n, hg1i, _⟩ := hWF _ _ _ hf1
  rw [hf1n, hf1i] at hg1
  have hcin0 : top.hop.cIn ≠ 0 := (hWF _ _ _ hg1).1
  have hf1' : (net g1.nbr).iface g1.nbrIf = some f1 := by rw [hg1n, hg1i]; exact hf1
  -- first hop
  have hstep := first_step mac net now src dst false false ts (updateSegID bU (pfx top.hop.mac))
    (hopOf top.hop) ((r1.map fun e => hopOf e.hop) ++ { hopOf ej.hop with exp := exp' } ::
            ((r2 ++ [x]).map fun e => hopOf e.hop)) [] g1 (by simp) (by simp) (by simp) hsd
    (by rw [hsrc]; simpa [macOk, hopOf] using hmt.1.symm)
    (by simpa [hopOf] using hexpU top (by simp)) rfl rfl
    (by rw [hsrc]; simpa [outSide, hopOf] using hg1) (by simpa [outSide, hopOf] using hcin0)
    (hUp _ _ _ hg1) (hSR _ _ _ hg1)
  have hg1' : (net src).iface (outSide false (hopOf top.hop)) = some g1 := by
    rw [hsrc]; simpa [outSide, hopOf] using hg1
  have h1 : fuel + 2 + r1.length = ((fuel + 1) + r1.length) + 1 := by omega
  rw [h1, run_forward_ext mac net now src dst _ src 0 .host _ _ []
    (outSide false (hopOf top.hop)) g1 f1 hstep hg1' (hSR _ _ _ hg1) hf1', hSR _ _ _ hf1, hg1n, hg1i]
  -- transit ASes before ej
  have hT := up_transits mac net now src dst false core ts hWF hUp hSR r1 top ej bU hcU1
    (fun e he => ⟨by rw [hsrc]; exact (hmid1 e he).1,
      by rw [hdst]; exact hnx e (by simp [he]), hexpU e (by simp [he])⟩)
  have hrun := run_transits hT [] [] (by simp) (by simp) (by simp) [hopOf top.hop]
    { hopOf ej.hop with exp := exp' } ((r2 ++ [x]).map fun e => hopOf e.hop)
    (fuel + 1) ([] ++ [(src, outSide false (hopOf top.hop)),
      ((firstOf r1 ej).ia, (firstOf r1 ej).hop.cEg)]) (by simp) (by simp)
  simp only [List.length_map, egSeg, Bool.false_eq_true, if_false] at hrun ⊢
  rw [hrun]
  simp only [mkCur]
  -- the AS of ej finds the hop expired
  obtain ⟨eL, fL, hfL, _, hfLn, hfLi, hejeg⟩ := chainUp_link_last mac net core ts r1 top ej bU hcU1
  have hes := expired_step mac net now src dst false ts
    (extractBeta (updateSegID bU (pfx top.hop.mac)) (sig r1)) ej.ia ej.hop.cEg
    { hopOf ej.hop with exp := exp' } [] ([hopOf top.hop] ++ r1.map fun e => hopOf e.hop)
    ((r2 ++ [x]).map fun e => hopOf e.hop) [] (by simp) (by simp) (by simp; omega) hejeg (by simpa using hexp')
  have hus : usedSeg false (extractBeta (updateSegID bU (pfx top.hop.mac)) (sig r1))
      { hopOf ej.hop with exp := exp' } = βj := by
    simp only [usedSeg, Bool.false_eq_true, if_false]
    exact hβ
  rw [hus] at hes
  rw [run_stopped_slow mac net now src dst fuel ej.ia 0 _ _ _ _ 4 52 0 hes]
  -- the reply
  have hrl : (r1.map fun e => hopOf e.hop).reverse ++ [hopOf top.hop] ≠ [] := by simp
  have hreply : replyOf (.slow 4 52 0 ⟨[], ⟨false, false, βj, ts⟩,
        [hopOf top.hop] ++ r1.map (fun e => hopOf e.hop), { hopOf ej.hop with exp := exp' },
        (r2 ++ [x]).map (fun e => hopOf e.hop), []⟩) (.ext ej.hop.cEg) =
      some (mkCur [] ⟨true, false, updateSegID βj (pfx ej.hop.mac), ts⟩
        (((r2 ++ [x]).map fun e => hopOf e.hop).reverse ++ [{ hopOf ej.hop with exp := exp' }])
        ((r1.reverse.map fun e => hopOf e.hop) ++ [hopOf top.hop]) []) := by
    have hinc := incPath_mkCur [] ⟨true, false, updateSegID βj (pfx ej.hop.mac), ts⟩
      ((r2 ++ [x]).map fun e => hopOf e.hop).reverse { hopOf ej.hop with exp := exp' }
      ((r1.map fun e => hopOf e.hop).reverse ++ [hopOf top.hop]) [] hrl
    simp only [replyOf, scmpPrepare, reverseCursor, determinePeer, flipInfo, Cursor.isXover,
      List.reverse_nil, List.map_nil, List.isEmpty_nil, Bool.not_true, Bool.and_false,
      Bool.false_eq_true, if_false, Bool.not_false, if_true, egUpd, Bool.and_self, Arrival.ifid,
      List.reverse_append, List.reverse_cons, List.nil_append, hejeg, bne_iff_ne, ne_eq,
      not_false_eq_true, decide_true]
    simp only [Bool.false_and, Bool.false_eq_true, if_false, Bool.and_true, if_true]
    rw [List.map_reverse]
    exact hinc
  -- … travels back
  have hfollow : ∃ trr cr, followReply mac net now src ej.ia 0 (.ext ej.hop.cEg)
      (mkCur [] ⟨true, false, updateSegID βj (pfx ej.hop.mac), ts⟩
        (((r2 ++ [x]).map fun e => hopOf e.hop).reverse ++ [{ hopOf ej.hop with exp := exp' }])
        ((r1.reverse.map fun e => hopOf e.hop) ++ [hopOf top.hop]) []) = .delivered src trr cr := by
    have hneD : r1.reverse ++ [top] = firstOf r1.reverse top :: (r1.reverse ++ [top]).tail := by
      cases r1.reverse <;> simp [firstOf]
    have hcD' := hcD
    rw [hneD] at hcD'
    simp only [Chain] at hcD'
    obtain ⟨_, ⟨fD, hfD, _, hfDn, hfDi, _⟩, _⟩ := hcD'
    obtain ⟨_, _, gD, hgD, _, _, _⟩ := hWF _ _ _ hfD
    have htail := down_tail_run mac net now ej.ia src core ts hWF hUp hSR ej r1.reverse top βj hcD hsrc
      (by rw [hsrc]; exact Ne.symm htej)
      (fun e he => ⟨(hmid1 e (by simpa using he)).2, by rw [hsrc]; exact (hmid1 e (by simpa using he)).1,
        hexpU e (by simp at he; simp [he])⟩)
      (hexpU top (by simp)) [] (by simp)
      (((r2 ++ [x]).map fun e => hopOf e.hop).reverse ++ [{ hopOf ej.hop with exp := exp' }]) (by simp)
      (r1.length + 2 * r2.length + 7) [(ej.ia, ej.hop.cEg), (fD.nbr, fD.nbrIf)]
    have hfuel : fuelFor (mkCur [] ⟨true, false, updateSegID βj (pfx ej.hop.mac), ts⟩
          (((r2 ++ [x]).map fun e => hopOf e.hop).reverse ++ [{ hopOf ej.hop with exp := exp' }])
          ((r1.reverse.map fun e => hopOf e.hop) ++ [hopOf top.hop]) []) =
        r1.length + 2 * r2.length + 7 + 1 + r1.reverse.length := by
      cases hr : r1.reverse.map (fun e => hopOf e.hop) with
      | nil =>
        have : r1.length = 0 := by
          have := congrArg List.length hr; simpa using this
        simp [mkCur, fuelFor, toFlat, Cursor.segs, Cursor.curSeg, this]; omega
      | cons y ys =>
        have hl : r1.length = ys.length + 1 := by
          have := congrArg List.length hr; simpa using this
        simp [mkCur, fuelFor, toFlat, Cursor.segs, Cursor.curSeg, hl]; omega
    unfold followReply
    simp only [hfD, hgD, hSR _ _ _ hgD, hfuel]
    rw [hfDn, hfDi] at htail ⊢
    rw [htail]
    exact ⟨_, _, rfl⟩
  obtain ⟨trr, cr, hf⟩ := hfollow
  exact ⟨_, _, _, trr, cr, rfl, hreply, hf⟩

end

end Scion.Net
