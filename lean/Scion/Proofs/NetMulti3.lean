import Scion.Proofs.NetMulti2
/-! Several border routers per AS: one AS crossed by one router (collapsed network) and by one or two
routers (the network as it is), arbitrary packets.  Core Lean only. -/
namespace Scion.Net
open Scion.SegID (updateSegID)

theorem ltSame_unset (x : LinkType) : ltSame x .unset = false := by cases x <;> rfl
theorem ltXover_unset (x : LinkType) : ltXover x .unset = false := by cases x <;> rfl

theorem egressIface_ne0 (cfg : RCfg) (e : Nat) (h : e ≠ 0) : egressIface cfg e = cfg.iface e := by
  simp [egressIface, h]

/-- what holds for the packet a router sends out after egress processing -/
theorem after_egress (cm c' : Cursor) (p : Bool) (hU : Uniform cm) (hp : determinePeer cm = some p)
    (hx : (cm.isXover && !p) = false) (hinc : (egUpd cm p).incPath = some c') :
    Uniform c' ∧ ArrOK c' ∧ remaining c' + 1 = remaining cm := by
  obtain ⟨sid, hsid⟩ := egUpd_setSeg cm p
  rw [hsid] at hinc
  refine ⟨incPath_uniform _ _ hinc (uniform_setSeg _ _ hU), ⟨incPath_not_first _ _ hinc, ?_⟩, ?_⟩
  · intro hf
    rcases incPath_cases _ _ hinc with ⟨hd, t, _, rfl⟩ | ⟨ht, s, rest, hd, t, ha, _, rfl⟩
    · simp [Cursor.isFirstHopAfterXover, setSeg] at hf
    · have htodo : cm.todo = [] := ht
      have hafter : cm.after = s :: rest := ha
      have hxo : cm.isXover = true := by simp [Cursor.isXover, htodo, hafter]
      rw [hxo] at hx
      have hpt : p = true := by cases p <;> simp_all
      subst hpt
      have h1 := peer_true_of_peering cm hp
      have hs := hU.2 s (by rw [hafter]; simp)
      show s.info.peer = true
      rw [hs]; exact h1
  · have := incPath_remaining _ _ hinc
    rw [remaining_setSeg] at this; exact this

/-- **the egress router of an AS, any kind of hop** (transit, after a segment change, peering hop
    out, peering hop in): the packet comes over the sibling link from the router that owns the
    ingress interface (`validateTransitUnderlaySrc`), the hop field is validated again, egress
    processing is done here -/
theorem sibling_out_step (mac : MacFn) (net : Net) (now a r1 r2 : Nat) (sl : Bool) (cm : Cursor)
    (p : Bool) (fi f : Iface) (c' : Cursor)
    (hsing : (!cm.info.peer && cm.hasSingleton) = false)
    (hp : determinePeer cm = some p)
    (hexp : expired now cm.info.ts cm.cur.exp = false)
    (hnf : cm.isFirstHop = false)
    (hfi : (net a).iface (ingressInterface cm p) = some fi) (hr1 : fi.owner = r1) (h12 : r1 ≠ r2)
    (hmac : macOk mac (net a).key cm.info cm.cur = true)
    (hx : (cm.isXover && !p) = false)
    (he0 : egressOf cm ≠ 0) (hf : (net a).iface (egressOf cm) = some f) (hr2 : f.owner = r2)
    (hal : (if cm.info.consDir then cm.cur.egAlert else cm.cur.inAlert) = false)
    (hup : f.up = true) (hinc : (egUpd cm p).incPath = some c') :
    routerStep mac (cfgR net a r2) now (.sibling r1) sl false cm = .forward (egressOf cm) c' := by
  have hs := stIngress_pass_sibling mac (cfgR net a r2) now r1 sl cm p fi hsing hp hexp hnf hfi hr1 h12 hmac
  have hxo := stXover_none mac (cfgR net a r2) now cm p hx
  rw [routerStep_of_stages mac _ now _ sl cm _ _ hs hxo]
  exact stEgress_own (cfgR net a r2) (.sibling r1) ⟨cm, p, false⟩ f c'
    (by rw [egressIface_ne0 _ _ he0]; exact hf) (by simp [cfgR_self, hr2]) (by simp [Arrival.ifid])
    (by simp) hal hup hinc

/-- **the ingress router of an AS, any kind of hop**: when the egress interface belongs to a
    sibling router the packet is handed over as the ingress stage (and, at a segment change, the
    cross-over) left it -/
theorem sibling_in_step (mac : MacFn) (cfg : RCfg) (now i : Nat) (sl : Bool) (c : Cursor) (s : StIn)
    (x : StX) (eg : Iface)
    (hs : stIngress mac cfg now (.ext i) sl false c = .ok s) (hx : stXover mac cfg now s = .ok x)
    (heg : egressIface cfg (egressOf x.c) = some eg) (hown : (eg.owner == cfg.self) = false)
    (hi0 : i ≠ 0)
    (h2 : (!x.xover && (Arrival.ext i).ifid != 0 && !ltSame (ingressLT cfg (Arrival.ext i).ifid) eg.lt) = false)
    (h3 : (x.xover && !ltXover (ingressLT cfg (Arrival.ext i).ifid) eg.lt) = false) :
    routerStep mac cfg now (.ext i) sl false c = .forward (egressOf x.c) x.c := by
  rw [routerStep_of_stages mac cfg now _ sl c s x hs hx]
  exact stEgress_handover cfg (.ext i) x eg heg hown (by simp [Arrival.ifid, hi0]) h2 h3

/-- the packet between the two routers of an AS (`x.c`: as the ingress stage and the cross-over
    left it), for a packet that arrived over the external link `i` -/
theorem mid_facts (mac : MacFn) (key : Bytes) (now i : Nat) (c : Cursor) (p : Bool) (x : StX)
    (hU : Uniform c) (hA : ArrOK c)
    (hdp : determinePeer c = some p) (hsing : c.info.peer = false → c.hasSingleton = false)
    (hexp : expired now (ingUpd c (.ext i) p).info.ts (ingUpd c (.ext i) p).cur.exp = false)
    (hin : i = if (ingUpd c (.ext i) p).info.consDir then (ingUpd c (.ext i) p).cur.cIn
               else (ingUpd c (.ext i) p).cur.cEg)
    (hmac : macOk mac key (ingUpd c (.ext i) p).info (ingUpd c (.ext i) p).cur = true)
    (hxc : (x.xover = false ∧ x.c = ingUpd c (.ext i) p ∧ ((ingUpd c (.ext i) p).isXover && !p) = false) ∨
      (x.xover = true ∧ ((ingUpd c (.ext i) p).isXover && !p) = true ∧
        (ingUpd c (.ext i) p).incPath = some x.c ∧
        expired now x.c.info.ts x.c.cur.exp = false ∧ macOk mac key x.c.info x.c.cur = true)) :
    Uniform x.c ∧ (!x.c.info.peer && x.c.hasSingleton) = false ∧ determinePeer x.c = some p ∧
    expired now x.c.info.ts x.c.cur.exp = false ∧ x.c.isFirstHop = false ∧
    ingressInterface x.c p = i ∧ macOk mac key x.c.info x.c.cur = true ∧
    (x.c.isXover && !p) = false ∧ remaining x.c ≤ remaining c := by
  obtain ⟨sid, hsid⟩ := ingUpd_setSeg c (.ext i) p
  rw [hsid] at hexp hin hmac hxc
  rcases hxc with ⟨_, hxc, hno⟩ | ⟨_, hyes, hinc, hexp2, hmac2⟩
  · rw [hxc]
    refine ⟨uniform_setSeg _ _ hU, ?_, hdp, hexp, hA.1, ?_, hmac, hno, Nat.le_refl _⟩
    · cases hpe : c.info.peer with
      | true => simp [setSeg, hpe]
      | false =>
        have := hsing hpe
        simp only [setSeg, hpe, Bool.not_false, Bool.true_and]
        exact this
    · have hsel : (!p && (setSeg c sid).isFirstHopAfterXover) = false := by
        cases hf : c.isFirstHopAfterXover with
        | false =>
          have : (setSeg c sid).isFirstHopAfterXover = false := hf
          simp [this]
        | true =>
          have := peering_of_fhax c p hdp hf (hA.2 hf)
          simp [this]
      unfold ingressInterface
      simp only [hsel, Bool.false_eq_true, if_false]
      exact hin.symm
  · have hxo : (setSeg c sid).isXover = true := by
      cases h : (setSeg c sid).isXover <;> simp_all
    have hpf : p = false := by cases p <;> simp_all
    subst hpf
    have hcx : c.isXover = true := hxo
    have hpeer := peer_false_of_xover c hdp hcx
    have hns := hsing hpeer
    have hnsx : x.c.hasSingleton = false := by
      rw [incPath_hasSingleton _ _ hinc, hasSingleton_setSeg]; exact hns
    have hUx := incPath_uniform _ _ hinc (uniform_setSeg _ sid hU)
    have hrem := incPath_remaining _ _ hinc
    rw [remaining_setSeg] at hrem
    have hcl := curSegLen_of_noSingleton x.c hnsx
    rcases incPath_cases _ _ hinc with ⟨hd, t, ht, _⟩ | ⟨_, s0, rest, hd, t, ha, _, hxeq⟩
    · have : c.todo = hd :: t := ht
      simp [Cursor.isXover, this] at hcx
    · have hafter : c.after = s0 :: rest := ha
      have hs0 : s0.info.peer = false := by
        rw [hU.2 s0 (by rw [hafter]; simp)]; exact hpeer
      rw [hxeq] at hcl hnsx ⊢
      have ht : t ≠ [] := by
        intro h0; apply hcl; simp [Cursor.curSegLen, h0]
      refine ⟨by rw [← hxeq]; exact hUx, ?_, ?_, by rw [← hxeq]; exact hexp2, ?_, ?_,
        by rw [← hxeq]; exact hmac2, ?_, by rw [← hxeq]; omega⟩
      · simp only [hnsx, Bool.and_false]
      · simp [determinePeer, hs0]
      · simp [Cursor.isFirstHop]
      · simp only [ingressInterface, Cursor.isFirstHopAfterXover, Bool.not_false, Bool.true_and,
          List.isEmpty_nil, Bool.and_true]
        simp only [List.getLast?_append, List.getLast?_singleton, Option.some_or]
        simp
        exact hin.symm
      · cases t with
        | nil => exact absurd rfl ht
        | cons y ys => simp [Cursor.isXover]

end Scion.Net
