import Scion.Proofs.NetPaths
/-! Direction-generic description of a segment as the packet sees it (`FL`, forwarding order), its
derivation from the control-plane chains, its mirror image, and the transit lemma.  Core Lean only. -/
namespace Scion.Net
open Scion.SegID (updateSegID extractBeta xorAll)

/-- interface through which the packet leaves / enters the AS of entry `e` when the segment is
    traversed in construction direction (`cd`) or against it -/
def outF (cd : Bool) (e : ASE) : Nat := if cd then e.hop.cEg else e.hop.cIn
def inF (cd : Bool) (e : ASE) : Nat := if cd then e.hop.cIn else e.hop.cEg

/-- SegID under which the hop field of `e` verifies, given the SegID `seg` the packet carries when
    it reaches the AS over an external link -/
def usedAt (cd : Bool) (seg : Nat) (e : ASE) : Nat :=
  if cd then seg else updateSegID seg (pfx e.hop.mac)

def EgLT (core cd : Bool) (lt : LinkType) : Prop :=
  if cd then lt = beaconLink core else opposite (beaconLink core) lt = true
def InLT (core cd : Bool) (lt : LinkType) : Prop :=
  if cd then opposite (beaconLink core) lt = true else lt = beaconLink core

/-- the link between two consecutive ASes of a traversal, seen from both ends -/
def LinkF (net : Net) (core cd : Bool) (e e' : ASE) : Prop :=
  ∃ f g, (net e.ia).iface (outF cd e) = some f ∧ outF cd e ≠ 0 ∧ f.nbr = e'.ia ∧
    f.nbrIf = inF cd e' ∧ (net e'.ia).iface (inF cd e') = some g ∧ inF cd e' ≠ 0 ∧
    g.nbr = e.ia ∧ g.nbrIf = outF cd e ∧ EgLT core cd f.lt ∧ InLT core cd g.lt

/-- a segment (part) in forwarding order: every hop entry verifies under the SegID the routers
    will present, consecutive ASes are joined by links of the right kind -/
def FL (mac : MacFn) (net : Net) (core cd : Bool) (ts : Nat) : Nat → List ASE → Prop
  | _, [] => True
  | seg, [e] => MacAt mac net ts (usedAt cd seg e) e
  | seg, e :: e' :: rest =>
    MacAt mac net ts (usedAt cd seg e) e ∧ LinkF net core cd e e' ∧
      FL mac net core cd ts (updateSegID seg (pfx e.hop.mac)) (e' :: rest)

theorem opposite_symm (a b : LinkType) (h : opposite a b = true) : opposite b a = true := by
  cases a <;> cases b <;> simp_all [opposite]

theorem linkF_symm (net : Net) (core cd : Bool) (e e' : ASE) (h : LinkF net core cd e e') :
    LinkF net core (!cd) e' e := by
  obtain ⟨f, g, h1, h2, h3, h4, h5, h6, h7, h8, h9, h10⟩ := h
  refine ⟨g, f, ?_, ?_, ?_, ?_, ?_, ?_, ?_, ?_, ?_, ?_⟩ <;>
    cases cd <;> simp_all [outF, inF, EgLT, InLT]

theorem chain_FL (mac : MacFn) (net : Net) (core : Bool) (ts : Nat) (hWF : WFNet net)
    (l : List ASE) : ∀ β, Chain mac net core ts β l → FL mac net core true ts β l := by
  induction l with
  | nil => intro _ _; trivial
  | cons e rest ih =>
    intro β hc
    cases rest with
    | nil => simpa [FL, Chain, usedAt] using hc
    | cons e' r =>
      obtain ⟨hm, ⟨f, hf, hflt, hfn, hfi, hne⟩, hrest⟩ := hc
      obtain ⟨_, _, g, hg, hgn, hgi, hopp⟩ := hWF _ _ _ hf
      rw [hfn, hfi] at hg
      refine ⟨by simpa [usedAt] using hm, ⟨f, g, by simpa [outF] using hf, by simpa [outF] using hne,
        hfn, by simpa [inF] using hfi, by simpa [inF] using hg,
        by simpa [inF] using (hWF _ _ _ hg).1, hgn, by simpa [outF] using hgi,
        by simpa [EgLT] using hflt, by simpa [InLT, ← hflt] using hopp⟩, ih _ hrest⟩

theorem chainUp_FL (mac : MacFn) (net : Net) (core : Bool) (ts : Nat) (hWF : WFNet net)
    (l : List ASE) : ∀ b, ChainUp mac net core ts b l → FL mac net core false ts b l := by
  induction l with
  | nil => intro _ _; trivial
  | cons e rest ih =>
    intro b hc
    cases rest with
    | nil => simpa [FL, ChainUp, usedAt] using hc
    | cons e' r =>
      obtain ⟨hm, ⟨f, hf, hflt, hfn, hfi, hne⟩, hrest⟩ := hc
      -- f is the interface of e' (parent side) leading to e
      obtain ⟨_, _, g, hg, hgn, hgi, hopp⟩ := hWF _ _ _ hf
      rw [hfn, hfi] at hg
      refine ⟨by simpa [usedAt] using hm, ⟨g, f, by simpa [outF] using hg,
        by simpa [outF] using (hWF _ _ _ hg).1, hgn, by simpa [inF] using hgi,
        by simpa [inF] using hf, by simpa [inF] using hne, hfn, by simpa [outF] using hfi,
        by simpa [EgLT, ← hflt] using hopp, by simpa [InLT] using hflt⟩, ih _ hrest⟩

/-- interfaces crossed while traversing `l` and arriving at `last` -/
def fTrace (cd : Bool) : List ASE → ASE → List (Nat × Nat)
  | [], _ => []
  | e :: rest, last =>
    (e.ia, outF cd e) :: ((firstOf rest last).ia, inF cd (firstOf rest last)) :: fTrace cd rest last

theorem ltSame_of (core cd : Bool) (a b : LinkType) (h1 : InLT core cd a) (h2 : EgLT core cd b) :
    ltSame a b = true := by
  cases core <;> cases cd <;> cases a <;> cases b <;>
    simp_all [InLT, EgLT, opposite, beaconLink, ltSame]

theorem outSide_hopOf (cd : Bool) (e : ASE) : outSide cd (hopOf e.hop) = outF cd e := by
  cases cd <;> rfl
theorem inSide_hopOf (cd : Bool) (e : ASE) : inSide cd (hopOf e.hop) = inF cd e := by
  cases cd <;> rfl
theorem usedSeg_hopOf (cd : Bool) (seg : Nat) (e : ASE) :
    usedSeg cd seg (hopOf e.hop) = usedAt cd seg e := by
  cases cd <;> rfl
theorem nextSeg_hopOf (cd : Bool) (seg : Nat) (e : ASE) :
    nextSeg cd seg (hopOf e.hop) = updateSegID seg (pfx e.hop.mac) := by
  cases cd <;> rfl

theorem macOk_of_macAt (mac : MacFn) (net : Net) (ts β : Nat) (e : ASE) (cd pr : Bool)
    (h : MacAt mac net ts β e) : macOk mac (net e.ia).key ⟨cd, pr, β, ts⟩ (hopOf e.hop) = true := by
  simpa [macOk, hopOf] using h.1.symm

section
variable (mac : MacFn) (net : Net) (now src dst : Nat) (pr core cd : Bool) (ts : Nat)
variable (hUp : AllUp net) (hSR : SingleRouter net)
include hUp hSR

/-- the ASes of `l` hand the packet on until it reaches `last` (either direction) -/
theorem fl_transits (l : List ASE) : ∀ (prevE last : ASE) (seg : Nat),
    FL mac net core cd ts seg (prevE :: (l ++ [last])) →
    (∀ e ∈ l, e.ia ≠ src ∧ e.ia ≠ dst ∧ expired now ts e.hop.exp = false) →
    Transits mac net now src dst cd pr ts (updateSegID seg (pfx prevE.hop.mac))
      (firstOf l last).ia (inF cd (firstOf l last)) (l.map fun e => hopOf e.hop)
      (extractBeta (updateSegID seg (pfx prevE.hop.mac)) (sig l)) last.ia (inF cd last)
      (fTrace cd l last) := by
  induction l with
  | nil =>
    intro prevE last seg _ _
    simpa [firstOf, sig, extractBeta, fTrace] using Transits.nil _ _ _
  | cons e rest ih =>
    intro prevE last seg hc hprop
    simp only [List.cons_append, FL] at hc
    obtain ⟨_, hl0, hc1⟩ := hc
    obtain ⟨f0, g0, _, _, _, _, hg0, hin0, _, _, _, hInLT⟩ := hl0
    have hne : rest ++ [last] = firstOf rest last :: (rest ++ [last]).tail := by
      cases rest <;> simp [firstOf]
    have hc1' := hc1
    rw [hne] at hc1'
    simp only [FL] at hc1'
    obtain ⟨hm, hl1, _⟩ := hc1'
    obtain ⟨f1, g1, hf1, hout, hf1n, hf1i, hg1, _, _, _, hEgLT, _⟩ := hl1
    obtain ⟨hs, hd, hexp⟩ := hprop e (by simp)
    have hrec := ih e last (updateSegID seg (pfx prevE.hop.mac)) hc1
      (fun x hx => hprop x (by simp [hx]))
    have hcons := Transits.cons (mac := mac) (net := net) (now := now) (src := src) (dst := dst)
      (cd := cd) (pr := pr) (ts := ts) (updateSegID seg (pfx prevE.hop.mac)) e.ia (inF cd e)
      (hopOf e.hop) (rest.map fun e => hopOf e.hop)
      (extractBeta (updateSegID (updateSegID seg (pfx prevE.hop.mac)) (pfx e.hop.mac)) (sig rest))
      last.ia (inF cd last) (fTrace cd rest last) g0 f1 g1
      hin0 (inSide_hopOf cd e).symm hs hd
      (by rw [usedSeg_hopOf]; exact macOk_of_macAt mac net ts _ e cd pr hm)
      (by simpa [hopOf] using hexp) rfl rfl hg0
      (by rw [outSide_hopOf]; exact hf1) (by rw [outSide_hopOf]; exact hout)
      (hUp _ _ _ hf1) (hSR _ _ _ hf1)
      (ltSame_of core cd _ _ hInLT hEgLT)
      (by rw [hf1n, hf1i]; exact hg1) (hSR _ _ _ hg1)
      (by rw [hf1n, hf1i, nextSeg_hopOf]; exact hrec)
    rw [outSide_hopOf, hf1n, hf1i] at hcons
    simpa [firstOf, sig, extractBeta, fTrace] using hcons

end

/-- facts about the last entry of a traversal -/
theorem fl_last (mac : MacFn) (net : Net) (core cd : Bool) (ts : Nat) (l : List ASE) :
    ∀ (prevE last : ASE) (seg : Nat), FL mac net core cd ts seg (prevE :: (l ++ [last])) →
      MacAt mac net ts (usedAt cd (extractBeta (updateSegID seg (pfx prevE.hop.mac)) (sig l)) last) last ∧
      inF cd last ≠ 0 ∧ ∃ g, (net last.ia).iface (inF cd last) = some g ∧ InLT core cd g.lt := by
  induction l with
  | nil =>
    intro prevE last seg hc
    simp only [List.nil_append, FL] at hc
    obtain ⟨_, ⟨f, g, _, _, _, _, hg, h0, _, _, _, hlt⟩, hm⟩ := hc
    exact ⟨by simpa [sig, extractBeta] using hm, h0, g, hg, hlt⟩
  | cons e rest ih =>
    intro prevE last seg hc
    simp only [List.cons_append, FL] at hc
    have := ih e last _ hc.2.2
    simpa [sig, extractBeta] using this

/-- a path segment as the run lemmas see it: direction, kind, timestamp, the SegID state `seg0`
    (the packet carries `usedAt cd seg0 e0` when it enters the segment) and its ASes in forwarding
    order `e0 :: mid ++ [last]` -/
structure SegSpec where
  cd : Bool
  core : Bool
  ts : Nat
  seg0 : Nat
  e0 : ASE
  mid : List ASE
  last : ASE

namespace SegSpec
def l (s : SegSpec) : List ASE := s.e0 :: (s.mid ++ [s.last])
def hops (s : SegSpec) : List Hop := s.l.map fun e => hopOf e.hop
/-- the segment as path combination puts it into the packet -/
def toSeg (s : SegSpec) : Seg := ⟨⟨s.cd, false, usedAt s.cd s.seg0 s.e0, s.ts⟩, s.hops⟩
/-- SegID in the packet when it reaches the last AS of the segment -/
def arrSeg (s : SegSpec) : Nat := extractBeta (updateSegID s.seg0 (pfx s.e0.hop.mac)) (sig s.mid)
/-- the segment as it is left behind in the packet -/
def doneSeg (s : SegSpec) : Seg := ⟨⟨s.cd, false, usedAt s.cd s.arrSeg s.last, s.ts⟩, s.hops⟩
def trace (s : SegSpec) : List (Nat × Nat) :=
  (s.e0.ia, outF s.cd s.e0) :: ((firstOf s.mid s.last).ia, inF s.cd (firstOf s.mid s.last)) ::
    fTrace s.cd s.mid s.last
end SegSpec

/-- link-type pairs at the joint of two segments are admitted by the router -/
def XLT (s s2 : SegSpec) : Prop :=
  ∀ a b, InLT s.core s.cd a → EgLT s2.core s2.cd b → ltXover a b = true

/-- everything the rest of the journey needs, once the first AS of segment `s` has sent the
    packet on: `s` and the segments after it -/
def TailOK (mac : MacFn) (net : Net) (now src dst : Nat) : SegSpec → List SegSpec → Prop
  | s, [] =>
    FL mac net s.core s.cd s.ts s.seg0 s.l ∧
    (∀ e ∈ s.mid, e.ia ≠ src ∧ e.ia ≠ dst ∧ expired now s.ts e.hop.exp = false) ∧
    expired now s.ts s.last.hop.exp = false ∧ dst = s.last.ia
  | s, s2 :: r =>
    FL mac net s.core s.cd s.ts s.seg0 s.l ∧
    (∀ e ∈ s.mid, e.ia ≠ src ∧ e.ia ≠ dst ∧ expired now s.ts e.hop.exp = false) ∧
    expired now s.ts s.last.hop.exp = false ∧ s.last.ia ≠ src ∧ s.last.ia ≠ dst ∧
    s.last.ia = s2.e0.ia ∧ expired now s2.ts s2.e0.hop.exp = false ∧ XLT s s2 ∧
    TailOK mac net now src dst s2 r

def tailFuel : SegSpec → List SegSpec → Nat
  | s, [] => s.mid.length + 1
  | s, s2 :: r => s.mid.length + 1 + tailFuel s2 r

def tailTrace : SegSpec → List SegSpec → List (Nat × Nat)
  | s, [] => fTrace s.cd s.mid s.last
  | s, s2 :: r =>
    fTrace s.cd s.mid s.last ++
      ((s.last.ia, outF s2.cd s2.e0) ::
        ((firstOf s2.mid s2.last).ia, inF s2.cd (firstOf s2.mid s2.last)) :: tailTrace s2 r)

/-- the packet as delivered -/
def finalCur : List SegSpec → List Seg → SegSpec → Cursor
  | [], before, s =>
    ⟨before, ⟨s.cd, false, usedAt s.cd s.arrSeg s.last, s.ts⟩,
      hopOf s.e0.hop :: s.mid.map (fun e => hopOf e.hop), hopOf s.last.hop, [], []⟩
  | s2 :: r, before, s => finalCur r (before ++ [s.doneSeg]) s2

theorem toSeg_len (s : SegSpec) : s.toSeg.hops.length ≠ 1 := by
  simp [SegSpec.toSeg, SegSpec.hops, SegSpec.l]
theorem doneSeg_len (s : SegSpec) : s.doneSeg.hops.length ≠ 1 := by
  simp [SegSpec.doneSeg, SegSpec.hops, SegSpec.l]

theorem egSeg_usedAt (cd : Bool) (seg : Nat) (e : ASE) :
    egSeg cd (usedAt cd seg e) (hopOf e.hop) = updateSegID seg (pfx e.hop.mac) := by
  cases cd <;> rfl

theorem lastSeg_hopOf (cd : Bool) (seg : Nat) (e : ASE) :
    lastSeg cd false seg (hopOf e.hop) = usedAt cd seg e := by
  cases cd <;> rfl

section
variable (mac : MacFn) (net : Net) (now src dst : Nat)
variable (hUp : AllUp net) (hSR : SingleRouter net)
include hUp hSR

/-- **the rest of the journey** (any number of segments, any directions, no peering): from the
    arrival at the second AS of segment `s` to the delivery in the last AS of the last segment -/
theorem tail_run (hsd : src ≠ dst) : ∀ (rest : List SegSpec) (s : SegSpec) (before : List Seg)
    (fuel : Nat) (tr0 : List (Nat × Nat)),
    TailOK mac net now src dst s rest → (∀ sg ∈ before, sg.hops.length ≠ 1) →
    run mac net now src dst (fuel + tailFuel s rest) (firstOf s.mid s.last).ia 0
        (.ext (inF s.cd (firstOf s.mid s.last)))
        (mkCur before ⟨s.cd, false, updateSegID s.seg0 (pfx s.e0.hop.mac), s.ts⟩ [hopOf s.e0.hop]
          ((s.mid.map fun e => hopOf e.hop) ++ [hopOf s.last.hop]) (rest.map SegSpec.toSeg)) tr0 =
      .delivered dst (tr0 ++ tailTrace s rest) (finalCur rest before s) := by
  intro rest
  induction rest with
  | nil =>
    intro s before fuel tr0 hok hb
    obtain ⟨hfl, hmid, hexpl, hdst⟩ := hok
    have hT := fl_transits mac net now src dst false s.core s.cd s.ts hUp hSR s.mid s.e0 s.last s.seg0
      hfl hmid
    have hrun := run_transits hT before [] hb (by simp) (by simp) [hopOf s.e0.hop] (hopOf s.last.hop) []
      (fuel + 1) tr0 (by simp) (by simp)
    simp only [List.length_map] at hrun
    have h1 : fuel + tailFuel s [] = fuel + 1 + s.mid.length := by simp [tailFuel]; omega
    simp only [List.map_nil]
    rw [h1, hrun]
    obtain ⟨hml, hin0, _⟩ := fl_last mac net s.core s.cd s.ts s.mid s.e0 s.last s.seg0 hfl
    have hstep := last_step mac net now src dst s.cd false false s.ts
      (extractBeta (updateSegID s.seg0 (pfx s.e0.hop.mac)) (sig s.mid)) (inF s.cd s.last)
      (hopOf s.last.hop) before ([hopOf s.e0.hop] ++ s.mid.map fun e => hopOf e.hop) hb
      (by intro _; simp) (by simp [determinePeer]) hsd hin0 (inSide_hopOf s.cd s.last).symm
      (by rw [lastSeg_hopOf, hdst]; exact macOk_of_macAt mac net s.ts _ s.last s.cd false hml)
      (by simpa [hopOf] using hexpl) rfl rfl
    rw [hdst] at hstep ⊢
    simp only [mkCur]
    rw [run_deliver mac net now src s.last.ia fuel s.last.ia 0 _ _ _ _ hstep]
    simp [tailTrace, finalCur, lastSeg_hopOf, SegSpec.arrSeg]
  | cons s2 r ih =>
    intro s before fuel tr0 hok hb
    obtain ⟨hfl, hmid, hexpl, hls, hld, hjoint, hexp2, hxlt, hok2⟩ := hok
    have hT := fl_transits mac net now src dst false s.core s.cd s.ts hUp hSR s.mid s.e0 s.last s.seg0
      hfl hmid
    have hafter : ∀ sg ∈ (s2 :: r).map SegSpec.toSeg, sg.hops.length ≠ 1 := by
      intro sg hsg
      obtain ⟨x, _, rfl⟩ := List.mem_map.1 hsg
      exact toSeg_len x
    have hrun := run_transits hT before ((s2 :: r).map SegSpec.toSeg) hb hafter (by simp)
      [hopOf s.e0.hop] (hopOf s.last.hop) [] (fuel + tailFuel s2 r + 1) tr0 (by simp) (by simp)
    simp only [List.length_map] at hrun
    have h1 : fuel + tailFuel s (s2 :: r) = fuel + tailFuel s2 r + 1 + s.mid.length := by
      simp [tailFuel]; omega
    rw [h1, hrun]
    -- the joint AS
    obtain ⟨hml, hin0, g, hg, hglt⟩ := fl_last mac net s.core s.cd s.ts s.mid s.e0 s.last s.seg0 hfl
    have hfl2 : FL mac net s2.core s2.cd s2.ts s2.seg0 s2.l := by
      cases r <;> exact hok2.1
    have hne2 : s2.mid ++ [s2.last] = firstOf s2.mid s2.last :: (s2.mid ++ [s2.last]).tail := by
      cases s2.mid <;> simp [firstOf]
    have hfl2' := hfl2
    simp only [SegSpec.l] at hfl2'
    rw [hne2] at hfl2'
    simp only [FL] at hfl2'
    obtain ⟨hm2, ⟨f2, g2, hf2, hout2, hf2n, hf2i, hg2, _, _, _, hf2lt, _⟩, _⟩ := hfl2'
    have hxstep := xover_step_gen mac net now src dst s.cd s2.cd s.ts
      (extractBeta (updateSegID s.seg0 (pfx s.e0.hop.mac)) (sig s.mid)) s2.ts
      (usedAt s2.cd s2.seg0 s2.e0) s.last.ia (inF s.cd s.last) (hopOf s.last.hop) (hopOf s2.e0.hop)
      ((s2.mid.map fun e => hopOf e.hop) ++ [hopOf s2.last.hop]) before
      ([hopOf s.e0.hop] ++ s.mid.map fun e => hopOf e.hop) (r.map SegSpec.toSeg) g f2 hb
      (by
        intro sg hsg
        obtain ⟨x, _, rfl⟩ := List.mem_map.1 hsg
        exact toSeg_len x)
      (by simp) (by simp) hin0 (inSide_hopOf s.cd s.last).symm hls hld
      (by rw [usedSeg_hopOf]; exact macOk_of_macAt mac net s.ts _ s.last s.cd false hml)
      (by simpa [hopOf] using hexpl) rfl rfl
      (by rw [hjoint]; exact macOk_of_macAt mac net s2.ts _ s2.e0 s2.cd false hm2)
      (by simpa [hopOf] using hexp2) rfl rfl hg
      (by rw [outSide_hopOf, hjoint]; exact hf2) (by rw [outSide_hopOf]; exact hout2)
      (hUp _ _ _ hf2) (hSR _ _ _ hf2) (hxlt _ _ hglt hf2lt)
    have hf2' : (net s.last.ia).iface (outSide s2.cd (hopOf s2.e0.hop)) = some f2 := by
      rw [outSide_hopOf, hjoint]; exact hf2
    have hg2' : (net f2.nbr).iface f2.nbrIf = some g2 := by rw [hf2n, hf2i]; exact hg2
    have hcur : mkCur before ⟨s.cd, false, extractBeta (updateSegID s.seg0 (pfx s.e0.hop.mac)) (sig s.mid), s.ts⟩
        ([hopOf s.e0.hop] ++ s.mid.map fun e => hopOf e.hop) [hopOf s.last.hop]
        ((s2 :: r).map SegSpec.toSeg) =
        ⟨before, ⟨s.cd, false, extractBeta (updateSegID s.seg0 (pfx s.e0.hop.mac)) (sig s.mid), s.ts⟩,
          [hopOf s.e0.hop] ++ s.mid.map (fun e => hopOf e.hop), hopOf s.last.hop, [],
          ⟨⟨s2.cd, false, usedAt s2.cd s2.seg0 s2.e0, s2.ts⟩,
            hopOf s2.e0.hop :: ((s2.mid.map fun e => hopOf e.hop) ++ [hopOf s2.last.hop])⟩ ::
            r.map SegSpec.toSeg⟩ := by
      simp [mkCur, SegSpec.toSeg, SegSpec.hops, SegSpec.l]
    rw [hcur, run_forward_ext mac net now src dst (fuel + tailFuel s2 r) s.last.ia 0 _ _ _ _
      (outSide s2.cd (hopOf s2.e0.hop)) f2 g2 hxstep hf2' (hSR _ _ _ hf2) hg2', hSR _ _ _ hg2,
      hf2n, hf2i, egSeg_usedAt]
    have hdone : (⟨⟨s.cd, false, usedSeg s.cd (extractBeta (updateSegID s.seg0 (pfx s.e0.hop.mac)) (sig s.mid))
          (hopOf s.last.hop), s.ts⟩, ([hopOf s.e0.hop] ++ s.mid.map fun e => hopOf e.hop) ++
          [hopOf s.last.hop]⟩ : Seg) = s.doneSeg := by
      simp [SegSpec.doneSeg, SegSpec.hops, SegSpec.l, SegSpec.arrSeg, usedSeg_hopOf]
    rw [hdone]
    have := ih s2 (before ++ [s.doneSeg]) fuel
      (tr0 ++ fTrace s.cd s.mid s.last ++ [(s.last.ia, outSide s2.cd (hopOf s2.e0.hop)),
        ((firstOf s2.mid s2.last).ia, inF s2.cd (firstOf s2.mid s2.last))]) hok2
      (by
        intro sg hsg
        simp only [List.mem_append, List.mem_singleton] at hsg
        rcases hsg with h | rfl
        · exact hb sg h
        · exact doneSeg_len s)
    rw [this]
    simp [tailTrace, finalCur, outSide_hopOf, List.append_assoc]

end

/-! ### Whole paths -/

/-- the packet a host sends: cursor on the first hop of the first segment -/
def pathCur (s : SegSpec) (rest : List SegSpec) : Cursor :=
  ⟨[], ⟨s.cd, false, usedAt s.cd s.seg0 s.e0, s.ts⟩, [], hopOf s.e0.hop,
    (s.mid.map fun e => hopOf e.hop) ++ [hopOf s.last.hop], rest.map SegSpec.toSeg⟩

theorem pathCur_eq (s : SegSpec) (rest : List SegSpec) :
    startCursor ((s :: rest).map SegSpec.toSeg) = some (pathCur s rest) := by
  simp [startCursor, SegSpec.toSeg, SegSpec.hops, SegSpec.l, pathCur]

def pathTrace (s : SegSpec) (rest : List SegSpec) : List (Nat × Nat) :=
  (s.e0.ia, outF s.cd s.e0) :: ((firstOf s.mid s.last).ia, inF s.cd (firstOf s.mid s.last)) ::
    tailTrace s rest

def PathOK (mac : MacFn) (net : Net) (now src dst : Nat) (s : SegSpec) (rest : List SegSpec) : Prop :=
  src ≠ dst ∧ src = s.e0.ia ∧ expired now s.ts s.e0.hop.exp = false ∧ TailOK mac net now src dst s rest

theorem tailOK_fl (mac : MacFn) (net : Net) (now src dst : Nat) (s : SegSpec) (rest : List SegSpec)
    (h : TailOK mac net now src dst s rest) : FL mac net s.core s.cd s.ts s.seg0 s.l := by
  cases rest <;> exact h.1

section
variable (mac : MacFn) (net : Net) (now src dst : Nat)
variable (hUp : AllUp net) (hSR : SingleRouter net)
include hUp hSR

/-- **C02 at the level of segment descriptions**: a packet sent by a host of `src` over a path of
    any number of segments (no peering) is delivered in `dst`, crossing `pathTrace` -/
theorem specs_run (s : SegSpec) (rest : List SegSpec) (hok : PathOK mac net now src dst s rest)
    (fuel : Nat) :
    run mac net now src dst (fuel + 1 + tailFuel s rest) src 0 .host (pathCur s rest) [] =
      .delivered dst (pathTrace s rest) (finalCur rest [] s) := by
  obtain ⟨hsd, hsrc, hexp0, htail⟩ := hok
  have hfl := tailOK_fl mac net now src dst s rest htail
  have hne : s.mid ++ [s.last] = firstOf s.mid s.last :: (s.mid ++ [s.last]).tail := by
    cases s.mid <;> simp [firstOf]
  have hfl' := hfl
  simp only [SegSpec.l] at hfl'
  rw [hne] at hfl'
  simp only [FL] at hfl'
  obtain ⟨hm, ⟨f, g, hf, hout, hfn, hfi, hg, _, _, _, _, _⟩, _⟩ := hfl'
  have hstep := first_step mac net now src dst s.cd false s.ts (usedAt s.cd s.seg0 s.e0) (hopOf s.e0.hop)
    ((s.mid.map fun e => hopOf e.hop) ++ [hopOf s.last.hop]) (rest.map SegSpec.toSeg) f
    (by
      intro sg hsg
      obtain ⟨x, _, rfl⟩ := List.mem_map.1 hsg
      exact toSeg_len x)
    (by simp) (by simp) hsd
    (by rw [hsrc]; exact macOk_of_macAt mac net s.ts _ s.e0 s.cd false hm)
    (by simpa [hopOf] using hexp0) rfl rfl
    (by rw [hsrc, outSide_hopOf]; exact hf) (by rw [outSide_hopOf]; exact hout)
    (hUp _ _ _ hf) (hSR _ _ _ hf)
  have hf' : (net src).iface (outSide s.cd (hopOf s.e0.hop)) = some f := by
    rw [hsrc, outSide_hopOf]; exact hf
  have hg' : (net f.nbr).iface f.nbrIf = some g := by rw [hfn, hfi]; exact hg
  have h1 : fuel + 1 + tailFuel s rest = (fuel + tailFuel s rest) + 1 := by omega
  unfold pathCur
  rw [h1, run_forward_ext mac net now src dst _ src 0 .host _ _ [] (outSide s.cd (hopOf s.e0.hop)) f g
    hstep hf' (hSR _ _ _ hf) hg', hSR _ _ _ hg, hfn, hfi, egSeg_usedAt]
  rw [tail_run mac net now src dst hUp hSR hsd rest s [] fuel _ htail (by simp)]
  simp [pathTrace, outSide_hopOf, hsrc]

end

theorem downTrace_eq (l : List ASE) (last : ASE) : downTrace l last = fTrace true l last := by
  induction l with
  | nil => rfl
  | cons e r ih => simp [downTrace, fTrace, ih, outF, inF]

theorem upTrace_eq (l : List ASE) (last : ASE) : upTrace l last = fTrace false l last := by
  induction l with
  | nil => rfl
  | cons e r ih => simp [upTrace, fTrace, ih, outF, inF]

end Scion.Net
