/-! Model of "no traffic over links that BFD declares down" (C15):
    * the BFD state machine `transition` (router/bfd/fsm.go) and the way `Session.Run` feeds it
      (received state = event; a resulting AdminDown is normalised to Down; detection timer = event Timer);
    * `Session.IsUp`, `connectedLink.IsUp` / `detachedLink.IsUp` / `internalLink.IsUp`
      (router/underlayproviders/udpip/udpip.go);
    * `scionPacketProcessor.validateEgressUp` and the SCMP message the slow path builds for it
      (`slowPathPacketProcessor.processPacket`, router/dataplane.go).
    Core Lean only.

    One-hop packets are forwarded by `processOHP`, which never looks at the link state (event `ohp`).

    Parameter (not modelled): that a packet "would use" an interface, i.e. that `process()` reaches
    `validateEgressUp` with `pkt.egress` = that interface (all earlier checks passed). The engine obtains
    it by running the same packet through a twin data plane without BFD. -/
namespace Scion.LinkDown

/-- `layers.BFDState` numbering -/
inductive St where
  | adminDown | down | init | up
deriving DecidableEq, Repr

inductive Ev where
  | adminDown | down | init | up | timer | adminUp
deriving DecidableEq, Repr

/-- `transition` (fsm.go), case by case -/
def transition : St → Ev → St
  | .adminDown, .adminUp => .down
  | .adminDown, _ => .adminDown
  | .down, .init => .up
  | .down, .down => .init
  | .down, .up => .down
  | .down, .timer => .down
  | .down, .adminUp => .down
  | .down, .adminDown => .adminDown
  | .init, .init => .up
  | .init, .up => .up
  | .init, .timer => .down
  | .init, .down => .init
  | .init, .adminUp => .init
  | .init, .adminDown => .adminDown
  | .up, .init => .up
  | .up, .up => .up
  | .up, .adminUp => .up
  | .up, .timer => .down
  | .up, .down => .down
  | .up, .adminDown => .adminDown

/-- received state as event (`event(s.remoteState)`) -/
def evOf : St → Ev
  | .adminDown => .adminDown | .down => .down | .init => .init | .up => .up

/-- message branch of `Session.Run`: transition, then AdminDown is normalised to Down -/
def recvStep (s : St) (remote : St) : St :=
  let s' := transition s (evOf remote)
  if s' = .adminDown then .down else s'

/-- detection-timer branch of `Session.Run` -/
def timerStep (s : St) : St := transition s .timer

inductive Scope where
  | internal | sibling | external
deriving DecidableEq, Repr

/-- a link: its scope, the interface id it reports (`IfID()`: 0 unless external) and the state of its
    BFD session (`none`: no session configured) -/
structure Link where
  scope : Scope
  ifID : Nat
  session : Option St
deriving DecidableEq, Repr

/-- `Session.IsUp` / `*.IsUp` -/
def Link.isUp (l : Link) : Bool :=
  match l.session with
  | none => true
  | some s => decide (s = .up)

/-- data plane: link table and `interfaces[ifID]` as link index -/
structure State where
  localIA : Nat
  links : List Link
  ifaces : List (Nat × Nat)       -- interface id ↦ index into `links`
deriving Repr

def State.linkIdx (s : State) (ifID : Nat) : Option Nat := s.ifaces.lookup ifID

def State.link (s : State) (ifID : Nat) : Option Link :=
  match s.linkIdx ifID with
  | none => none
  | some i => s.links[i]?

def setSession (ls : List Link) (i : Nat) (f : St → St) : List Link :=
  ls.modify i fun l => { l with session := l.session.map f }

/-- the rule of `shouldDiscard` (RFC 5880 6.8.6) about the Your Discriminator field: a control message
    with Your Discriminator 0 is acceptable only if its State is Down or AdminDown -/
def acceptsYourDisc (yourDisc : Nat) (remote : St) : Bool :=
  !(yourDisc == 0 && remote != .adminDown && remote != .down)

inductive Event where
  /-- a BFD control message accepted by `shouldDiscard`, received over the link behind `ifID` -/
  | recv (ifID : Nat) (remote : St)
  /-- a BFD control message, otherwise well-formed, carrying the given Your Discriminator; it reaches the
      session only if `acceptsYourDisc` -/
  | recvDisc (ifID : Nat) (remote : St) (yourDisc : Nat)
  /-- the detection time of the session of that link elapsed -/
  | timeout (ifID : Nat)
  /-- a SCION- or EPIC-path packet that came in over a link reporting `ingress` and would leave through
      `egress` (i.e. `process()` reaches `validateEgressUp` with that egress) -/
  | pkt (ingress egress : Nat)
  /-- a one-hop-path packet from the internal side that passes every check of `processOHP` and whose
      first hop leaves through `egress` -/
  | ohp (egress : Nat)
deriving Repr

inductive Out where
  /-- BFD events: the new state of the session (`none`: the link has no session / no such link) -/
  | bfd (st : Option St)
  | fwd (egress : Nat)
  /-- SCMP ExternalInterfaceDown {IA, IfID} -/
  | extDown (ia ifID : Nat)
  /-- SCMP InternalConnectivityDown {IA, Ingress, Egress} -/
  | intDown (ia ingress egress : Nat)
  /-- no link behind the egress interface (`validateEgressID` would have answered; outside the parameter) -/
  | noLink
deriving DecidableEq, Repr

/-- `validateEgressUp` + the SCMP layer chosen by `slowPathPacketProcessor.processPacket` -/
def egressUp (s : State) (ingress egress : Nat) : Out :=
  match s.link egress with
  | none => .noLink
  | some l =>
    if l.isUp then .fwd egress
    else if l.scope ≠ .external then .intDown s.localIA ingress egress
    else .extDown s.localIA egress

def sessionOf (s : State) (ifID : Nat) : Option St :=
  match s.link ifID with
  | none => none
  | some l => l.session

def step (s : State) : Event → State × Out
  | .recv ifID remote =>
    match s.linkIdx ifID with
    | none => (s, .bfd none)
    | some i =>
      let s' := { s with links := setSession s.links i (fun st => recvStep st remote) }
      (s', .bfd (sessionOf s' ifID))
  | .recvDisc ifID remote yourDisc =>
    match s.linkIdx ifID with
    | none => (s, .bfd none)
    | some i =>
      if acceptsYourDisc yourDisc remote then
        let s' := { s with links := setSession s.links i (fun st => recvStep st remote) }
        (s', .bfd (sessionOf s' ifID))
      else (s, .bfd (sessionOf s ifID))                 -- discarded: nothing changes
  | .timeout ifID =>
    match s.linkIdx ifID with
    | none => (s, .bfd none)
    | some i =>
      let s' := { s with links := setSession s.links i timerStep }
      (s', .bfd (sessionOf s' ifID))
  | .pkt ingress egress => (s, egressUp s ingress egress)
  -- `processOHP` sets `pkt.egress` and returns `pForward` without consulting the link
  | .ohp egress => (s, .fwd egress)

/-- the trace of a history: every event with the state it was processed in and its output -/
def run : State → List Event → List (State × Event × Out)
  | _, [] => []
  | s, e :: es => (s, e, (step s e).2) :: run (step s e).1 es

def final : State → List Event → State
  | s, [] => s
  | s, e :: es => final (step s e).1 es

end Scion.LinkDown
