import Scion.Model.Wire
/-!
Byte-level codec model of the SCION extension headers and L4 headers: `pkg/slayers/extn.go`
(`decodeExtnBase`, `decodeTLVOption`, `serializeTLVOptions` with alignment/padding,
`HopByHopExtn`, `EndToEndExtn`, the skippers), `udp.go`, `scmp.go` and the fixed parts of the SCMP
messages (`scmp_msg.go`).  Same discipline as `Scion.Model.Wire`: guarded slices, explicit
`panic` outcome that is proved unreachable.  Core Lean only.
-/
namespace Scion.WireExt
open Scion.Util Scion.Wire

inductive EErr where
  | panic          -- slice out of range (unreachable: `C18.ext_decode_no_panic`)
  | short          -- decodeExtnBase: len(data) < 2                       (SetTruncated)
  | extLen         -- decodeExtnBase: len(data) < (ExtLen+1)*4
  | nextHdr        -- HBH repeated / E2E before HBH / E2E repeated
  | optShort       -- decodeTLVOption: buffer too short
  | notAligned     -- serializer: actual length not a multiple of 4
deriving DecidableEq, Repr

/-- `tlvOption` (decoded: `align = (0,0)`; `dataLen` is the `OptDataLen` field) -/
structure Opt where
  typ : Nat
  dataLen : Nat
  data : Bytes
  alignX : Nat := 0
  alignY : Nat := 0
deriving DecidableEq, Repr

/-- the option loop of `HopByHopExtn/EndToEndExtn.DecodeFromBytes` over `data[2:ActualLen]`;
`fuel` bounds the number of options by the number of bytes (each option consumes ≥ 1) -/
def decOpts : Nat → Bytes → Except EErr (List Opt)
  | _, [] => .ok []
  | 0, _ :: _ => .error .panic
  | f+1, t :: rest =>
    if t = 0 then                                   -- OptTypePad1: ActualLength 1
      match decOpts f rest with
      | .ok os => .ok (⟨0, 0, [], 0, 0⟩ :: os)
      | .error e => .error e
    else match rest with
      | [] => .error .optShort                     -- len(data) < 2
      | l :: rest2 =>
        if rest2.length < l.toNat then .error .optShort     -- len(data) < ActualLength
        else match takeN l.toNat rest2 with
          | none => .error .panic
          | some (d, r) =>
            match decOpts f r with
            | .ok os => .ok (⟨t.toNat, l.toNat, d, 0, 0⟩ :: os)
            | .error e => .error e

structure ExtBase where
  nextHdr : Nat
  extLen : Nat
deriving DecidableEq, Repr

/-- `decodeExtnBase`: header fields, the option bytes `data[2:ActualLen]`, the payload -/
def decExtBase (data : Bytes) : Except EErr (ExtBase × Bytes × Bytes) :=
  match data with
  | nh :: el :: rest =>
    if data.length < (el.toNat + 1) * 4 then .error .extLen
    else match takeN ((el.toNat + 1) * 4 - 2) rest with
      | none => .error .panic
      | some (body, payload) => .ok (⟨nh.toNat, el.toNat⟩, body, payload)
  | _ => .error .short

structure Ext where
  base : ExtBase
  opts : List Opt
deriving DecidableEq, Repr

/-- `checkHopByHopExtnNextHdr` / `checkEndToEndExtnNextHdr`: `true` = rejected -/
def hbhChk (nh : Nat) : Bool := nh == 200
def e2eChk (nh : Nat) : Bool := nh == 200 || nh == 201

/-- `HopByHopExtn/EndToEndExtn.DecodeFromBytes` (`chk` = the layer's `NextHdr` check):
`decodeExtnBase`, the check, then the option loop over `data[2:ActualLen]` -/
def decExt (chk : Nat → Bool) (data : Bytes) : Except EErr (Ext × Bytes) :=
  match decExtBase data with
  | .error e => .error e
  | .ok (b, body, payload) =>
    if chk b.nextHdr then .error .nextHdr
    else match decOpts body.length body with
      | .error e => .error e
      | .ok os => .ok (⟨b, os⟩, payload)

/-- `HopByHopExtn.DecodeFromBytes` -/
def decHBH (data : Bytes) : Except EErr (Ext × Bytes) := decExt hbhChk data

/-- `EndToEndExtn.DecodeFromBytes` -/
def decE2E (data : Bytes) : Except EErr (Ext × Bytes) := decExt e2eChk data

/-- `HopByHopExtnSkipper.DecodeFromBytes` (options are not parsed) -/
def decHBHSkip (data : Bytes) : Except EErr (ExtBase × Bytes) :=
  match decExtBase data with
  | .error e => .error e
  | .ok (b, _, payload) => if b.nextHdr = 200 then .error .nextHdr else .ok (b, payload)

/-! ### serialization -/

/-- `tlvOption.serializeTo(data, fixLengths=false)` into a slot of `length(false)` bytes -/
def encOpt (o : Opt) : Bytes :=
  if o.typ = 0 then [0] else UInt8.ofNat o.typ :: UInt8.ofNat o.dataLen :: fit (o.dataLen % 256) o.data

/-- `serializeTLVOptions(buf, options, fixLengths=false)` -/
def encOpts (os : List Opt) : Bytes := (os.map encOpt).flatten

/-- `serializeTLVOptionPadding` -/
def padBytes (n : Nat) : Bytes :=
  if n = 0 then [] else if n = 1 then [0]
  else 1 :: UInt8.ofNat (n - 2) :: List.replicate ((n - 2) % 256) 0

/-- the `fixLengths` loop of `serializeTLVOptions`; `length` starts at 2 -/
def encOptsFix : Nat → List Opt → Bytes
  | length, [] => if length % 4 ≠ 0 then padBytes (4 - length % 4) else []
  | length, o :: os =>
    let pad :=
      if o.alignX ≠ 0 then
        let offset := o.alignX * (length / o.alignX) + o.alignY
        let offset := if offset < length then offset + o.alignX else offset
        offset - length
      else 0
    let ob := if o.typ = 0 then [0]
      else UInt8.ofNat o.typ :: UInt8.ofNat o.data.length :: o.data
    padBytes pad ++ ob ++ encOptsFix (length + pad + ob.length) os

/-- `extnBase.serializeToWithTLVOptions` (the `NextHdr` check of the concrete layer is `chk`) -/
def encExt (chk : Nat → Bool) (fix : Bool) (e : Ext) : Except EErr Bytes :=
  if chk e.base.nextHdr then .error .nextHdr
  else
    let ob := if fix then encOptsFix 2 e.opts else encOpts e.opts
    if (ob.length + 2) % 4 ≠ 0 then .error .notAligned
    else
      let el := if fix then (ob.length + 2) / 4 - 1 else e.base.extLen
      .ok (UInt8.ofNat e.base.nextHdr :: UInt8.ofNat el :: ob)

/-! ### SCION/UDP and SCMP headers -/

structure UDP where
  srcPort : Nat
  dstPort : Nat
  length : Nat
  checksum : Nat
deriving DecidableEq, Repr

inductive L4Err where
  | short | udpLen
deriving DecidableEq, Repr

/-- `UDP.DecodeFromBytes`: header and payload -/
def decUDP (data : Bytes) : Except L4Err (UDP × Bytes) :=
  match data with
  | s0 :: s1 :: d0 :: d1 :: l0 :: l1 :: c0 :: c1 :: rest =>
    let len := beNat [l0, l1]
    let u : UDP := ⟨beNat [s0, s1], beNat [d0, d1], len, beNat [c0, c1]⟩
    if len ≥ 8 then .ok (u, rest.take (len - 8))      -- data[8:min(hlen,len(data))]
    else if len = 0 then .ok (u, rest)                 -- jumbogram
    else .error .udpLen
  | _ => .error .short

/-- `UDP.SerializeTo` without options -/
def encUDP (u : UDP) : Bytes :=
  natBE 2 u.srcPort ++ natBE 2 u.dstPort ++ natBE 2 u.length ++ natBE 2 u.checksum

structure SCMPHdr where
  typ : Nat
  code : Nat
  checksum : Nat
deriving DecidableEq, Repr

/-- `SCMP.DecodeFromBytes` -/
def decSCMP (data : Bytes) : Except L4Err (SCMPHdr × Bytes) :=
  match data with
  | t :: c :: k0 :: k1 :: rest => .ok (⟨t.toNat, c.toNat, beNat [k0, k1]⟩, rest)
  | _ => .error .short

def encSCMP (h : SCMPHdr) : Bytes :=
  [UInt8.ofNat h.typ, UInt8.ofNat h.code] ++ natBE 2 h.checksum

/-- fixed length of the SCMP message that follows the SCMP header (`scmp_msg.go`
`DecodeFromBytes` minimum lengths); `none`: `NextLayerType` is `LayerTypePayload` -/
def scmpMsgLen (typ : Nat) : Option Nat :=
  if typ = 1 then some 4          -- DestinationUnreachable
  else if typ = 2 then some 4     -- PacketTooBig
  else if typ = 4 then some 4     -- ParameterProblem
  else if typ = 5 then some 16    -- ExternalInterfaceDown
  else if typ = 6 then some 24    -- InternalConnectivityDown
  else if typ = 128 ∨ typ = 129 then some 4     -- Echo request / reply
  else if typ = 130 ∨ typ = 131 then some 20    -- Traceroute request / reply
  else none


/-! ### specification vocabulary -/

/-- a decoded-style option: widths, `Pad1` carries nothing, `OptDataLen` is the data length, no
alignment request -/
def Opt.WF (o : Opt) : Prop :=
  o.typ < 256 ∧ o.dataLen = o.data.length ∧ o.data.length < 256 ∧ (o.typ = 0 → o.data = []) ∧
  o.alignX = 0 ∧ o.alignY = 0

instance (o : Opt) : Decidable o.WF := by unfold Opt.WF; exact inferInstance


/-- a well-formed extension header value as the decoder produces it: field widths, well-formed
options, and `ExtLen` = the length the options really have -/
def Ext.WF (e : Ext) : Prop :=
  e.base.nextHdr < 256 ∧ e.base.extLen < 256 ∧ (∀ o ∈ e.opts, o.WF) ∧
  (encOpts e.opts).length + 2 = (e.base.extLen + 1) * 4

/-- padding options (`Pad1`, `PadN`) -/
def Opt.isPad (o : Opt) : Bool := o.typ == 0 || o.typ == 1

/-- what an option means: type and data (alignment is a serializer hint, `OptDataLen` derived) -/
def Opt.content (o : Opt) : Nat × Bytes := (o.typ, o.data)

/-- serializer input: option type and data fit their fields, `Pad1` carries nothing, and the
alignment request `x·n + y` is a proper one (`y < x`) -/
def Opt.FixWF (o : Opt) : Prop :=
  o.typ < 256 ∧ o.data.length < 256 ∧ (o.typ = 0 → o.data = []) ∧
  (o.alignX = 0 ∨ (o.alignY < o.alignX ∧ o.alignX < 256))

def contents (os : List Opt) : List (Nat × Bytes) := (os.filter (fun o => !o.isPad)).map Opt.content


instance (o : Opt) : Decidable o.FixWF := by unfold Opt.FixWF; exact inferInstance

def UDP.WF (u : UDP) : Prop :=
  u.srcPort < 65536 ∧ u.dstPort < 65536 ∧ u.length < 65536 ∧ u.checksum < 65536
def SCMPHdr.WF (h : SCMPHdr) : Prop := h.typ < 256 ∧ h.code < 256 ∧ h.checksum < 65536


/-! ### the SPAO option views (`pkg/slayers/pkt_auth.go`) -/

/-- `PacketAuthOptionParams` -/
structure AuthParams where
  spi : Nat
  alg : Nat
  ts : Nat          -- TimestampSN (48 bit)
  auth : Bytes
deriving DecidableEq, Repr

inductive AErr where
  | wrongType      -- ParsePacketAuthOption: OptType != OptTypeAuthenticator
  | short          -- ParsePacketAuthOption: len(OptData) < PacketAuthOptionMetadataLen
  | tsRange        -- Reset: TimestampSN >= 2^48
deriving DecidableEq, Repr

/-- `PacketAuthOption.Reset(p)` (= `NewPacketAuthOption`): the E2E option carrying the SPAO:
type 2, data = SPI(4) ‖ Algorithm(1) ‖ RSV(1)=0 ‖ Timestamp/SN(6) ‖ Authenticator, aligned 4n+2 -/
def encAuthOpt (p : AuthParams) : Except AErr Opt :=
  if p.ts ≥ 2^48 then .error .tsRange
  else .ok { typ := 2, dataLen := (12 + p.auth.length) % 256,
             data := natBE 4 p.spi ++ [UInt8.ofNat p.alg, 0] ++ natBE 6 p.ts ++ p.auth,
             alignX := 4, alignY := 2 }

/-- `ParsePacketAuthOption(o)` followed by the views `SPI()`, `Algorithm()`, `TimestampSN()`,
`Authenticator()` -/
def parseAuthOpt (o : Opt) : Except AErr AuthParams :=
  if o.typ ≠ 2 then .error .wrongType
  else match o.data with
    | s0 :: s1 :: s2 :: s3 :: a :: _ :: t0 :: t1 :: t2 :: t3 :: t4 :: t5 :: auth =>
      .ok ⟨beNat [s0, s1, s2, s3], a.toNat, beNat [t0, t1, t2, t3, t4, t5], auth⟩
    | _ => .error .short

/-- what the `fixLengths` serializer writes for one option (after its alignment padding) -/
def optBytes (o : Opt) : Bytes :=
  if o.typ = 0 then [0] else UInt8.ofNat o.typ :: UInt8.ofNat o.data.length :: o.data

def AuthParams.WF (p : AuthParams) : Prop :=
  p.spi < 2^32 ∧ p.alg < 256 ∧ p.ts < 2^48 ∧ p.auth.length ≤ 243

instance (p : AuthParams) : Decidable p.WF := by unfold AuthParams.WF; exact inferInstance

end Scion.WireExt
