import Scion.Model.Chain
/-!
Text form of the certificate / TRC facts written by `harness/pki2` (`Facts`, `TrcInfoWord`,
`X509FactsWord`), shared by the drivers `Chain`, `Signer`, `Renewal`.  Parsing only. Core only.
-/
namespace Scion.ChainParse
open Scion.Chain

def parseBool (s : String) : Option Bool :=
  if s == "1" then some true else if s == "0" then some false else none

/-- "-" = empty, else comma separated naturals -/
def parseNatList (s : String) : Option (List Nat) :=
  if s == "-" then some [] else (s.splitOn ",").mapM String.toNat?

def parseExt (s : String) : Option (Option Bool) :=
  if s == "n" then some none else (parseBool s).map some

def parseIA (s : String) : Option IARes :=
  if s == "n" then some .notFound
  else if s == "e" then some .malformed
  else s.toNat?.map .ok

/-- `nil` or `c:<version>:<serial>:<sigalg>:<skidEmpty>:<akid>:<skidExt>:<akidExt>:<bcExt>:<ku>:
<eku>:<ueku>:<bcValid>:<isCA>:<maxPathLen>:<issuerIA>:<subjectIA>:<nb>:<na>:<key>` -/
def parseCert (w : String) : Option (Option Cert) :=
  if w == "nil" then some none else
  match w.splitOn ":" with
  | ["c", ver, ser, alg, skE, ak, skX, akX, bcX, ku, eku, ueku, bcv, ca, mpl, iss, sub, nb, na, kid] => do
    let version ← ver.toNat?
    let hasSerial ← parseBool ser
    let sigAlg ← alg.toNat?
    let skidEmpty ← parseBool skE
    let akid ← ak.toNat?
    let skidExt ← parseExt skX
    let akidExt ← parseExt akX
    let bcExt ← parseExt bcX
    let keyUsage ← ku.toNat?
    let eku ← parseNatList eku
    let ueku ← parseNatList ueku
    let bcValid ← parseBool bcv
    let isCA ← parseBool ca
    let maxPathLen ← mpl.toInt?
    let issuerIA ← parseIA iss
    let subjectIA ← parseIA sub
    let notBefore ← nb.toInt?
    let notAfter ← na.toInt?
    let keyId ← kid.toNat?
    some (some { version, hasSerial, sigAlg, skidEmpty, akid, skidExt, akidExt, bcExt, keyUsage,
                 eku, ueku, bcValid, isCA, maxPathLen, issuerIA, subjectIA, notBefore, notAfter,
                 keyId })
  | _ => none

/-- take `n` items with `p` from the word list -/
def takeN {α : Type} (p : String → Option α) : Nat → List String → Option (List α × List String)
  | 0, ws => some ([], ws)
  | _ + 1, [] => none
  | n + 1, w :: ws => do
    let a ← p w
    let (r, rest) ← takeN p n ws
    some (a :: r, rest)

/-- `<n> <item>*n` -/
def takeCounted {α : Type} (p : String → Option α) : List String → Option (List α × List String)
  | [] => none
  | w :: ws => do
    let n ← w.toNat?
    takeN p n ws

def takeCerts := takeCounted parseCert

/-- `<base>:<serial>:<nb>:<na>:<grace>` -/
def parseTrcInfo (w : String) : Option TrcInfo :=
  match w.splitOn ":" with
  | [b, s, nb, na, g] => do
    let base ← b.toNat?
    let serial ← s.toNat?
    let notBefore ← nb.toInt?
    let notAfter ← na.toInt?
    let grace ← g.toInt?
    some { base, serial, notBefore, notAfter, grace }
  | _ => none

/-- `<caByRoot>:<nb>:<na>` -/
def parseRootFact (w : String) : Option (Bool × Int × Int) :=
  match w.splitOn ":" with
  | [s, nb, na] => do
    let s ← parseBool s
    let nb ← nb.toInt?
    let na ← na.toInt?
    some (s, nb, na)
  | _ => none

/-- `<nroots> <rootfact>*` -/
def takeX509Facts (ws : List String) : Option (X509Facts × List String) := do
  let (rs, rest) ← takeCounted parseRootFact ws
  some ({ roots := rs }, rest)

end Scion.ChainParse
