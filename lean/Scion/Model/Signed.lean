import Scion.Util.Hex
/-!
Model of `pkg/scrypto/signed` (`msg.go`, `algo.go`): `Sign`, `Verify`, `computeSignatureInput`,
`checkPubKeyAlgo`, `associatedDataLen`, and of the bytes `proto.Marshal` produces for
`cryptopb.Header` / `cryptopb.HeaderAndBody` (what `Sign` hands to the signature primitive).

* ECDSA and the hash are NOT modelled: a `Scheme` is a parameter (`sign`/`verify` receive the
  algorithm and the *pre-image* `hdrAndBody ‖ associatedData…`; the real code hashes the same
  bytes in the same order — tied by the engine `signed`).
* `proto.Unmarshal` (the lenient protobuf parser behind `extractHeaderAndBody`) is NOT modelled:
  its two uses are the fields `parseOuter` / `parseHdr` of a `Framing`.  `Verify` computes the
  signature input from the RAW `HeaderAndBody` bytes, never from the parsed header — the model
  does the same — and (`checkCanonicalHeaderAndBody`) accepts the raw bytes only if they are
  exactly what `proto.Marshal` produces for the parsed outer message.
* The encoder side (`encHeader`, `encHdrAndBody`, `preimage`) is concrete and executable: the
  driver prints the bytes and the engine compares them with the real ones.
Core Lean only.
-/
namespace Scion.Signed
open Scion.Util (Bytes)

/-- `signed.Header`.  `sec`/`nanos` are `Timestamp.Unix()` / `Timestamp.Nanosecond()`;
the zero `time.Time` is `sec = zeroSec ∧ nanos = 0`. -/
structure Header where
  algo : Nat
  keyId : Bytes
  sec : Int
  nanos : Nat
  metadata : Bytes
  adLen : Int
deriving DecidableEq, Repr

/-- `time.Time{}.Unix()` -/
def zeroSec : Int := -62135596800

def Header.tsIsZero (h : Header) : Bool := h.sec == zeroSec && h.nanos == 0

/-! ### protobuf wire encoding (encoder side only) -/

/-- base-128 little-endian varint (protowire.AppendVarint; all values that occur are `< 2^64`:
lengths, and `u64OfInt` images). -/
def varint (n : Nat) : Bytes :=
  if n < 128 then [UInt8.ofNat n]
  else UInt8.ofNat (n % 128 + 128) :: varint (n / 128)
decreasing_by omega

/-- two's-complement 64-bit image of a (sign-extended) integer field -/
def u64OfInt (i : Int) : Nat := (i % (2^64 : Int)).toNat

/-- Go `int32(x)` -/
def toInt32 (i : Int) : Int := (i + 2^31) % 2^32 - 2^31

/-- a length-delimited field (wire type 2); proto3 omits the empty value -/
def lenDelim (tag : UInt8) (x : Bytes) : Bytes :=
  if x.isEmpty then [] else tag :: (varint x.length ++ x)

/-- a varint field (wire type 0); proto3 omits zero -/
def varField (tag : UInt8) (n : Nat) : Bytes :=
  if n = 0 then [] else tag :: varint n

/-- `SignatureAlgorithm.toPB` -/
def algoToPB (a : Nat) : Nat := if a = 1 ∨ a = 2 ∨ a = 3 then a else 0

/-- `timestamppb.New(t)` marshalled: `seconds = 1` (int64), `nanos = 2` (int32) -/
def encTimestamp (sec : Int) (nanos : Nat) : Bytes :=
  varField 0x08 (u64OfInt sec) ++ varField 0x10 (u64OfInt (toInt32 nanos))

/-- `proto.Marshal(inputHdr)` in `Sign`: fields 1..5 in field order. The timestamp is a
sub-message: present (possibly empty) iff `!hdr.Timestamp.IsZero()`. -/
def encHeader (h : Header) : Bytes :=
  varField 0x08 (algoToPB h.algo) ++
  lenDelim 0x12 h.keyId ++
  (if h.tsIsZero then []
   else 0x1a :: (varint (encTimestamp h.sec h.nanos).length ++ encTimestamp h.sec h.nanos)) ++
  lenDelim 0x22 h.metadata ++
  varField 0x28 (u64OfInt (toInt32 h.adLen))

/-- `proto.Marshal(&cryptopb.HeaderAndBody{Header: rawHdr, Body: body})` -/
def encHdrAndBody (rawHdr body : Bytes) : Bytes :=
  lenDelim 0x0a rawHdr ++ lenDelim 0x12 body

/-! ### `Sign` / `Verify` -/

/-- `associatedDataLen` -/
def adLenOf (ad : List Bytes) : Nat := (ad.map List.length).sum

/-- what `computeSignatureInput` feeds to the hash (or returns, for `hash == 0`):
`hdrAndBody` followed by every associated-data slice in order -/
def preimage (hb : Bytes) (ad : List Bytes) : Bytes := hb ++ ad.flatten

inductive KeyKind | ecdsa | other
deriving DecidableEq, Repr

inductive Err | nilKey | parse | nonCanonical | adLen | algo | keyType | sig
deriving DecidableEq, Repr

/-- `_, ok := signatureAlgorithmDetails[a]` (keys regenerated into `Scion.Gen.Signed`) -/
def algoKnown (a : Nat) : Bool := a == 1 || a == 2 || a == 3

/-- `checkPubKeyAlgo`: every known algorithm has `pubKeyAlgo = pkECDSA`. -/
def checkPubKeyAlgo (a : Nat) (k : KeyKind) : Except Err Unit :=
  if !algoKnown a then .error .algo
  else match k with
    | .ecdsa => .ok ()
    | .other => .error .keyType

/-- the two uses of `proto.Unmarshal` in `extractHeaderAndBody` -/
structure Framing where
  /-- `proto.Unmarshal(hdrAndBody.Header, &hdr)` followed by the field conversions -/
  parseHdr : Bytes → Option Header
  /-- `proto.Unmarshal(signed.HeaderAndBody, &hdrAndBody)`: `Header`, `Body` and the unknown
  fields the message retains -/
  parseOuter : Bytes → Option (Bytes × Bytes × Bytes)

/-- `rawHdrAndBody` as computed by `Sign` -/
def enc (h : Header) (body : Bytes) : Bytes := encHdrAndBody (encHeader h) body

/-- `extractHeaderAndBody` -/
def extract (F : Framing) (hb : Bytes) : Option (Header × Bytes) :=
  match F.parseOuter hb with
  | none => none
  | some (e, b, _) =>
    match F.parseHdr e with
    | none => none
    | some h => some (h, b)

/-- `checkCanonicalHeaderAndBody`: re-marshalling the parsed outer message (known fields in field
order, then the retained unknown fields) must reproduce the raw bytes. -/
def canonical (F : Framing) (hb : Bytes) : Bool :=
  match F.parseOuter hb with
  | none => false
  | some (e, b, u) => encHdrAndBody e b ++ u == hb

/-- the signature primitive; `algo` selects the hash, the `Bytes` argument is the pre-image.
`rnd` stands for `rand.Reader`. -/
structure Scheme (SK PK : Type) where
  pub : SK → PK
  kind : PK → KeyKind
  sign : SK → Nat → Nat → Bytes → Bytes
  verify : PK → Nat → Bytes → Bytes → Bool

/-- `cryptopb.SignedMessage` -/
structure SignedMessage where
  hb : Bytes
  sig : Bytes
deriving DecidableEq, Repr

/-- `Sign` up to (excluding) the call of the primitive: the bytes to be signed. -/
def signInput (h : Header) (body : Bytes) (k : Option KeyKind) (ad : List Bytes) :
    Except Err (Bytes × Bytes) :=
  match k with
  | none => .error .nilKey
  | some k =>
    if (adLenOf ad : Int) ≠ h.adLen then .error .adLen
    else match checkPubKeyAlgo h.algo k with
      | .error e => .error e
      | .ok _ => .ok (enc h body, preimage (enc h body) ad)

/-- `Sign` -/
def signMsg {SK PK : Type} (S : Scheme SK PK) (h : Header) (body : Bytes)
    (sk : Option SK) (rnd : Nat) (ad : List Bytes) : Except Err SignedMessage :=
  match sk with
  | none => .error .nilKey
  | some s =>
    match signInput h body (some (S.kind (S.pub s))) ad with
    | .error e => .error e
    | .ok (hb, pre) => .ok ⟨hb, S.sign s rnd h.algo pre⟩

/-- `Verify` -/
def verifyMsg {SK PK : Type} (F : Framing) (S : Scheme SK PK) (m : SignedMessage)
    (pk : Option PK) (ad : List Bytes) : Except Err (Header × Bytes) :=
  match pk with
  | none => .error .nilKey
  | some pk =>
    match extract F m.hb with
    | none => .error .parse
    | some (h, b) =>
      if !canonical F m.hb then .error .nonCanonical
      else if (adLenOf ad : Int) ≠ h.adLen then .error .adLen
      else match checkPubKeyAlgo h.algo (S.kind pk) with
        | .error e => .error e
        | .ok _ =>
          if S.verify pk h.algo (preimage m.hb ad) m.sig then .ok (h, b) else .error .sig

end Scion.Signed
