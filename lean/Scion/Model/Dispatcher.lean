import Scion.Model.Wire
import Scion.Model.WireExt
/-!
Decision model of the shim dispatcher: `dispatcher/dispatcher.go` `Server.processMsgNextHop`
with `getDstSCMP`, `getDstSCIONUDP`, `replyToSCMPInfoRequest`, `reverseSCION`, and the part of
`gopacket.DecodingLayerParser.DecodeLayers` (IgnoreUnsupported) / `gopacket.NewPacket` that
decides which layers are seen.  The model works on the received bytes (decoded with
`Scion.Model.Wire`/`WireExt`), the outer IP destination (`underlay`) and the configuration.
Core Lean only.
-/
namespace Scion.Dispatcher
open Scion.Util Scion.Wire Scion.WireExt Scion

structure SvcEntry where
  ia : Nat
  svc : Nat
  ip : Bytes
  port : Nat
deriving DecidableEq, Repr

structure Cfg where
  isDispatcher : Bool
  svcs : List SvcEntry      -- `ServiceAddresses`
deriving Repr

/-- what `processMsgNextHop` decides (a zero `netip.AddrPort` is `drop`: `Serve` discards) -/
inductive Out where
  | drop
  /-- the received bytes, unchanged, to `ip:port` -/
  | fwd (ip : Bytes) (port : Nat)
  /-- a new packet to `prevHop`: SCION header `h`, SCMP type `typ` code 0, the request's SCMP
  payload, the E2E extension re-serialized iff `e2e` -/
  | reply (h : Hdr) (typ : Nat) (e2e : Bool)
deriving DecidableEq, Repr

/-- the last layer `DecodeLayers` reports (`s.decoded[len-1]`) -/
inductive Last where
  | scion | hbh | e2e
  | udp (u : UDP)
  | scmp (h : SCMPHdr) (payload : Bytes)
deriving DecidableEq, Repr

structure Parsed where
  hdr : Hdr
  /-- the path was kept as an opaque `rawPath` (unknown path type; `hdr.path` is then `.empty`) -/
  rawPath : Bool
  nLayers : Nat
  last : Last
  /-- `s.decoded[len-2] == LayerTypeEndToEndExtn`, with the decoded extension length -/
  e2eBefore : Option Nat
deriving DecidableEq, Repr

/-- L4 stage of `DecodeLayers`: `nh` after the previous layer, `data` its payload -/
def parseL4 (hdr : Hdr) (rp : Bool) (n : Nat) (prev : Last) (e2eLen : Option Nat) (nh : Nat)
    (data : Bytes) : Option Parsed :=
  if data.length = 0 then some ⟨hdr, rp, n, prev, none⟩    -- `len(data) == 0`: break
  else if nh = 17 then
    match decUDP data with
    | .error _ => none
    | .ok (u, _) => some ⟨hdr, rp, n + 1, .udp u, e2eLen⟩
  else if nh = 202 then
    match decSCMP data with
    | .error _ => none
    | .ok (h, pl) => some ⟨hdr, rp, n + 1, .scmp h pl, e2eLen⟩
  else some ⟨hdr, rp, n, prev, none⟩                        -- no decoder: IgnoreUnsupported

/-- E2E stage (full option decoding) -/
def parseE2E (hdr : Hdr) (rp : Bool) (n : Nat) (prev : Last) (nh : Nat) (data : Bytes) :
    Option Parsed :=
  if data.length = 0 then some ⟨hdr, rp, n, prev, none⟩
  else if nh = 201 then
    match decE2E data with
    | .error _ => none
    | .ok (x, p) => parseL4 hdr rp (n + 1) .e2e (some ((x.base.extLen + 1) * 4)) x.base.nextHdr p
  else parseL4 hdr rp n prev none nh data

/-- `SCION.DecodeFromBytes` of a layer with `RecyclePaths()` (the dispatcher's own layer):
`getPath` answers unknown path types (> 3) with the opaque `rawPath`, whose `Len()` is whatever
`HdrLen` leaves.  Known types are `Wire.decodeSCION`.  Third component: opaque path. -/
def decodeSCIONRecycle (data : Bytes) : Except Err (Hdr × Bytes × Bool) :=
  match decCmn data with
  | none => .error .shortCmn
  | some (c, rest) =>
    if c.pathType ≤ 3 then
      match decodeSCION data with
      | .error e => .error e
      | .ok (h, p) => .ok (h, p, false)
    else match decAddr c rest with
      | .error e => .error e
      | .ok (a, r4) =>
        if c.hdrLen * 4 < 12 + addrHdrLen c then .error .negPathLen
        else if data.length < 12 + addrHdrLen c + (c.hdrLen * 4 - 12 - addrHdrLen c) then
          .error .shortPath
        else match takeN (c.hdrLen * 4 - 12 - addrHdrLen c) r4 with
          | none => .error .panic
          | some (_, payload) => .ok (⟨c, a.dstIA, a.srcIA, a.rawDst, a.rawSrc, .empty⟩, payload, true)

/-- `s.parser.DecodeLayers(buf, &s.decoded)`; `none`: a decoder returned an error -/
def parseLayers (data : Bytes) : Option Parsed :=
  match decodeSCIONRecycle data with
  | .error _ => none
  | .ok (hdr, p, rp) =>
    if p.length = 0 then some ⟨hdr, rp, 1, .scion, none⟩
    else if hdr.cmn.nextHdr = 200 then
      match decHBHSkip p with
      | .error _ => none
      | .ok (b, p2) =>
        -- scionNextLayerTypeAfterHBH: a second HBH has no decoder
        if b.nextHdr = 200 then some ⟨hdr, rp, 2, .hbh, none⟩
        else parseE2E hdr rp 2 .hbh b.nextHdr p2
    else parseE2E hdr rp 1 .scion hdr.cmn.nextHdr p

/-- `netip.Addr.Unmap` on address bytes -/
def unmap (ip : Bytes) : Bytes :=
  match ip with
  | [0, 0, 0, 0, 0, 0, 0, 0, 0, 0, 0xff, 0xff, a, b, c, d] => [a, b, c, d]
  | _ => ip

/-- `addrPortFromBytes`: `netip.AddrFromSlice` accepts 4 or 16 bytes -/
def addrPortFromBytes (raw : Bytes) (port : Nat) : Option (Bytes × Nat) :=
  if raw.length = 4 ∨ raw.length = 16 then some (raw, port) else none

/-- the identifier (first two bytes) of an echo/traceroute message of at least `m` bytes -/
def msgIdent (m : Nat) (data : Bytes) : Option Nat :=
  if data.length < m then none
  else match data with
    | a :: b :: _ => some (beNat [a, b])
    | _ => none

inductive QStage where
  | afterScion | afterHBH | afterE2E
deriving DecidableEq, Repr

/-- the port the quoted (offending) packet yields: `gopacket.NewPacket(quote, LayerTypeSCION)`
walked by the registered decoders, then the UDP/SCMP case analysis of `getDstSCMP`.
`fuel` bounds the (at most two) extension headers. -/
def quotePort : Nat → QStage → Nat → Bytes → Option Nat
  | 0, _, _, _ => none
  | f+1, st, nh, data =>
    if data.length = 0 then none                       -- no further layer
    else if nh = 200 then
      if st ≠ .afterScion then none                   -- LayerTypeDecodeFailure
      else match decHBH data with
        | .error _ => none
        | .ok (x, p) => quotePort f .afterHBH x.base.nextHdr p
    else if nh = 201 then
      if st = .afterE2E then none
      else match decE2E data with
        | .error _ => none
        | .ok (x, p) => quotePort f .afterE2E x.base.nextHdr p
    else if nh = 17 then
      -- the UDP layer is added even when its decoding fails; a missing header reads as port 0
      match data with
      | s0 :: s1 :: _ :: _ :: _ :: _ :: _ :: _ :: _ =>
        let port := beNat [s0, s1]
        if port = 0 then none else some port
      | _ => none
    else if nh = 202 then
      match decSCMP data with
      | .error _ => none
      | .ok (h, pl) =>
        if h.typ < 128 then none                      -- error in response to an error
        else if h.typ = 128 then msgIdent 4 pl
        else if h.typ = 130 then msgIdent 20 pl
        else none
    else none                                          -- ErrUnsupportedL4

/-- `getDstSCMP` for an SCMP message that is not an echo/traceroute request -/
def getDstSCMP (hdr : Hdr) (h : SCMPHdr) (pl : Bytes) : Option (Bytes × Nat) :=
  if h.typ = 129 then
    match msgIdent 4 pl with
    | none => none
    | some id => addrPortFromBytes hdr.rawDst id
  else if h.typ = 131 then
    match msgIdent 20 pl with
    | none => none
    | some id => addrPortFromBytes hdr.rawDst id
  else match scmpMsgLen h.typ with
    | none => none                                     -- unknown SCMP type
    | some m =>
      if pl.length ≤ m then none                      -- undecodable message / no quote
      else match decodeSCION (pl.drop m) with
        | .error _ => none
        | .ok (qh, qp) =>
          match quotePort 3 .afterScion qh.cmn.nextHdr qp with
          | none => none
          | some port => addrPortFromBytes hdr.rawDst port

def lookupSvc (svcs : List SvcEntry) (ia svc : Nat) : Option (Bytes × Nat) :=
  match svcs.find? (fun e => e.ia == ia && e.svc == svc) with
  | some e => some (e.ip, e.port)
  | none => none

/-- `getDstSCIONUDP` -/
def getDstSCIONUDP (cfg : Cfg) (hdr : Hdr) (u : UDP) : Option (Bytes × Nat) :=
  if hdr.cmn.dstType = 4 then                          -- T4Svc
    match hdr.rawDst with
    | a :: b :: _ => lookupSvc cfg.svcs hdr.dstIA (beNat [a, b])
    | _ => none
  else if hdr.cmn.dstType = 0 ∨ hdr.cmn.dstType = 3 then   -- T4Ip, T16Ip
    addrPortFromBytes hdr.rawDst u.dstPort
  else none                                            -- ParseAddr: unsupported type

/-- `PackAddr(ParseAddr(t, raw))`: how an address comes out of `SetSrcAddr/SetDstAddr` -/
def repack (t : Nat) (raw : Bytes) : Option (Nat × Bytes) :=
  if t = 0 then some (0, fit 4 raw)
  else if t = 3 then
    let ip := fit 16 raw
    if (unmap ip).length = 4 then some (0, unmap ip) else some (3, ip)
  else if t = 4 then
    match raw with
    | a :: b :: _ => some (4, [a, b, 0, 0])
    | _ => none
  else none

def flipInfo (i : Info) : Info := { i with consDir := !i.consDir }

/-- `scion.Raw.Reverse` (via `Decoded.Reverse`) on meta fields and body bytes -/
def reverseRaw (m : PathMeta.Hdr) (body : Bytes) : Option PathV :=
  match PathMeta.baseDecode m with
  | none => none
  | some b =>
    match PathMeta.reverseMeta b with
    | none => none                                     -- empty decoded path
    | some rb =>
      match decInfos b.numINF body with
      | none => none
      | some (infos, rest) =>
        match decHops b.numHops rest with
        | none => none
        | some (hops, _) =>
          some (.scion (PathMeta.decode (PathMeta.encode rb.pm))
            (encInfos ((PathMeta.swapEnds infos).map flipInfo) ++ encHops hops.reverse))

/-- `Path.Reverse()` as `reverseSCION` uses it; the second component is the new `PathType` field
(only the EPIC case updates it) -/
def reversePath (pt : Nat) (p : PathV) : Option (Nat × PathV) :=
  match p with
  | .empty => some (pt, .empty)
  | .scion m body => (reverseRaw m body).map fun q => (pt, q)
  | .epic _ _ _ _ m body => (reverseRaw m body).map fun q => (if pt = 3 then 1 else pt, q)
  | .onehop i h1 h2 =>
    -- ToSCIONDecoded (SecondHop.ConsIngress != 0), IncPath, Reverse; PathType is NOT updated
    if h2.consIn = 0 then none
    else some (pt, .scion ⟨0, 0, 2, 0, 0⟩
      (encInfo { peer := false, consDir := false, segID := i.segID, ts := i.ts } ++
        encHop h2 ++ encHop h1))

/-- `replyToSCMPInfoRequest`/`reverseSCION`: the SCION layer of the reply, before `FixLengths` -/
def replyHdr (hdr : Hdr) : Option Hdr :=
  match repack hdr.cmn.srcType hdr.rawSrc, repack hdr.cmn.dstType hdr.rawDst with
  | some (nst, nsrc), some (ndt, ndst) =>
    -- SetSrcAddr(dst); SetDstAddr(src)
    match reversePath hdr.cmn.pathType hdr.path with
    | none => none
    | some (pt, rp) =>
      some { cmn := ⟨hdr.cmn.version, hdr.cmn.tc, hdr.cmn.flowID, 202, hdr.cmn.hdrLen,
                     hdr.cmn.payloadLen, pt, nst, ndt⟩,
             dstIA := hdr.srcIA, srcIA := hdr.dstIA, rawDst := nsrc, rawSrc := ndst, path := rp }
  | _, _ => none

/-- bytes after the SCION header of the reply: [E2E] ‖ SCMP header ‖ SCMP payload -/
def replyPayloadLen (e2eLen : Option Nat) (scmpPayloadLen : Nat) : Nat :=
  (match e2eLen with | some n => n | none => 0) + 4 + scmpPayloadLen

/-- the reply branch of `processMsgNextHop`, with the `FixLengths` serialization of the layers -/
def mkReply (hdr : Hdr) (typ : Nat) (e2eLen : Option Nat) (scmpPayloadLen : Nat) : Out :=
  match replyHdr hdr with
  | none => .drop
  | some h =>
    match encodeSCION (fixLengths h (replyPayloadLen e2eLen scmpPayloadLen)) with
    | .error _ => .drop
    | .ok _ => .reply (fixLengths h (replyPayloadLen e2eLen scmpPayloadLen)) (typ + 1) e2eLen.isSome

/-- `Server.processMsgNextHop(buf, underlay, prevHop)` -/
def process (cfg : Cfg) (data underlay : Bytes) : Out :=
  match parseLayers data with
  | none => .drop
  | some p =>
    if p.nLayers < 2 then .drop
    else match p.last with
      | .scmp h pl =>
        if h.typ = 128 ∨ h.typ = 130 then
          (if p.rawPath then .drop        -- rawPath.Reverse(): not supported
           else mkReply p.hdr h.typ p.e2eBefore pl.length)
        else if !cfg.isDispatcher then .drop
        else match getDstSCMP p.hdr h pl with
          | none => .drop
          | some (ip, port) => if unmap ip = unmap underlay then .fwd ip port else .drop
      | .udp u =>
        if !cfg.isDispatcher then .drop
        else match getDstSCIONUDP cfg p.hdr u with
          | none => .drop
          | some (ip, port) => if unmap ip = unmap underlay then .fwd ip port else .drop
      | _ => .drop

end Scion.Dispatcher
