import Scion.Model.Wire
/-!
Model of the SCMP message layers behind the 4-byte SCMP header: `pkg/slayers/scmp_msg.go`
(`SCMPDestinationUnreachable`, `SCMPPacketTooBig`, `SCMPParameterProblem`,
`SCMPExternalInterfaceDown`, `SCMPInternalConnectivityDown`, `SCMPEcho`, `SCMPTraceroute`) and
the dispatch `SCMP.NextLayerType`.  Every message is a fixed sequence of big-endian fields, some
of them reserved (written as zero, ignored on decoding).  Core Lean only.
-/
namespace Scion.ScmpMsg
open Scion.Util Scion.Wire

structure Field where
  width : Nat
  reserved : Bool
deriving DecidableEq, Repr

/-- `SCMP.NextLayerType` and the layout of that layer; `none`: `gopacket.LayerTypePayload` -/
def msgSpec (typ : Nat) : Option (List Field) :=
  if typ = 1 then some [⟨4, true⟩]                                  -- DestinationUnreachable: unused
  else if typ = 2 then some [⟨2, true⟩, ⟨2, false⟩]                 -- PacketTooBig: RSV, MTU
  else if typ = 4 then some [⟨2, true⟩, ⟨2, false⟩]                 -- ParameterProblem: RSV, Pointer
  else if typ = 5 then some [⟨8, false⟩, ⟨8, false⟩]                -- ExternalInterfaceDown: IA, IfID
  else if typ = 6 then some [⟨8, false⟩, ⟨8, false⟩, ⟨8, false⟩]    -- InternalConnectivityDown
  else if typ = 128 ∨ typ = 129 then some [⟨2, false⟩, ⟨2, false⟩]  -- Echo: Identifier, SeqNumber
  else if typ = 130 ∨ typ = 131 then
    some [⟨2, false⟩, ⟨2, false⟩, ⟨8, false⟩, ⟨8, false⟩]           -- Traceroute: Id, Seq, IA, Interface
  else none

def totalLen (spec : List Field) : Nat := (spec.map Field.width).sum

/-- the field reads of `DecodeFromBytes`: values of the non-reserved fields and the payload -/
def decFields : List Field → Bytes → Option (List Nat × Bytes)
  | [], l => some ([], l)
  | f :: fs, l =>
    match takeN f.width l with
    | none => none
    | some (b, r) =>
      match decFields fs r with
      | none => none
      | some (vs, r') => some (if f.reserved then vs else beNat b :: vs, r')

inductive MErr where
  | panic | short
deriving DecidableEq, Repr

/-- `DecodeFromBytes` of the message layer: the `minLength` guard, then the field reads -/
def decMsg (spec : List Field) (data : Bytes) : Except MErr (List Nat × Bytes) :=
  if data.length < totalLen spec then .error .short
  else match decFields spec data with
    | none => .error .panic
    | some r => .ok r

/-- the field writes of `SerializeTo` -/
def encFields : List Field → List Nat → Bytes
  | [], _ => []
  | f :: fs, vs =>
    if f.reserved then List.replicate f.width 0 ++ encFields fs vs
    else match vs with
      | v :: vs' => natBE f.width v ++ encFields fs vs'
      | [] => List.replicate f.width 0 ++ encFields fs []

/-! ### specification vocabulary -/

/-- widths that occur (`uint16`, 4 unused bytes, `uint64`) -/
def Field.Ok (f : Field) : Prop := f.width = 2 ∨ f.width = 4 ∨ f.width = 8

instance (f : Field) : Decidable f.Ok := by unfold Field.Ok; exact inferInstance

/-- one value per non-reserved field, fitting its width -/
def ValuesWF : List Field → List Nat → Prop
  | [], vs => vs = []
  | f :: fs, vs =>
    if f.reserved then ValuesWF fs vs
    else match vs with
      | v :: vs' => v < 256 ^ f.width ∧ ValuesWF fs vs'
      | [] => False

/-- the input with its reserved fields zeroed -/
def zeroReserved : List Field → Bytes → Bytes
  | [], l => l
  | f :: fs, l =>
    (if f.reserved then List.replicate (min f.width l.length) 0 else l.take f.width) ++
      zeroReserved fs (l.drop f.width)

end Scion.ScmpMsg
