/-!
Decision models of the path lookup (`private/segment/segfetcher`):

* `MultiSegmentSplitter.Split` / `inspect` / `isCore` / `toWildCard` (`splitter.go`);
* `Pather.GetPaths`, `buildAllPaths`, `findDestinations`, `filterRevoked`, `translatePaths`
  (`pather.go`).

The path combinator is a parameter (`combine dst` = what `combinator.Combine(src, dst, …)`
returns for the fetched segments; C28/C29 are about it), as are the revocation cache contents
(`revoked` = keys for which `RevCache.Get` returns a revocation), the clock and the next-hop
resolver.  Core Lean only.
-/
namespace Scion.Pather

abbrev IA := Nat × Nat

def IA.isd (ia : IA) : Nat := ia.1
/-- `addr.IA.IsWildcard` -/
def IA.isWildcard (ia : IA) : Bool := ia.1 == 0 || ia.2 == 0
/-- `addr.IA.IsZero` -/
def IA.isZero (ia : IA) : Bool := ia.1 == 0 && ia.2 == 0
/-- `toWildCard(ia)` -/
def IA.toWildcard (ia : IA) : IA := (ia.1, 0)

/-! ### the splitter -/

inductive SegType | up | core | down
deriving DecidableEq, Repr

structure Request where
  ty : SegType
  src : IA
  dst : IA
deriving DecidableEq, Repr

/-- what the `trust.Inspector` answers: `cores` = `ByAttributes(src.ISD, Core)`, `dstAttr` =
`HasAttributes(dst, Core)`; `none` = the call returns an error -/
structure Inspector where
  cores : Option (List IA)
  dstAttr : Option Bool
deriving DecidableEq, Repr

/-- `MultiSegmentSplitter.inspect` (with `isCore`): `(singleCore, dstCore)`; `none` = error -/
def inspect (insp : Inspector) (src dst : IA) : Option (IA × Bool) :=
  if src.isd ≠ dst.isd then
    if dst.isWildcard then some ((0, 0), true)
    else match insp.dstAttr with
      | none => none
      | some b => some ((0, 0), b)
  else match insp.cores with
    | none => none
    | some cores =>
      let single : IA := match cores with
        | [c] => c
        | _ => (0, 0)
      if cores.contains dst then some (single, true)
      else some (single, dst.isWildcard)

/-- `MultiSegmentSplitter.Split`; `insp = none` = no inspector configured; result `none` = error -/
def split (src : IA) (srcCore : Bool) (insp : Option Inspector) (dst : IA) :
    Option (List Request) :=
  match insp with
  | none =>
    if srcCore then
      some [⟨.down, src, dst⟩, ⟨.core, src, dst⟩, ⟨.core, src, dst.toWildcard⟩,
            ⟨.down, dst.toWildcard, dst⟩]
    else
      some [⟨.up, src, src.toWildcard⟩, ⟨.core, src.toWildcard, dst.toWildcard⟩,
            ⟨.core, src.toWildcard, dst⟩, ⟨.down, dst.toWildcard, dst⟩]
  | some insp =>
    match inspect insp src dst with
    | none => none
    | some (singleCore, dstCore) =>
      match srcCore, dstCore with
      | false, false =>
        if !singleCore.isZero then some [⟨.up, src, singleCore⟩, ⟨.down, singleCore, dst⟩]
        else some [⟨.up, src, src.toWildcard⟩, ⟨.core, src.toWildcard, dst.toWildcard⟩,
                   ⟨.down, dst.toWildcard, dst⟩]
      | false, true =>
        if (src.isd = dst.isd ∧ dst.isWildcard) ∨ singleCore = dst then some [⟨.up, src, dst⟩]
        else some [⟨.up, src, src.toWildcard⟩, ⟨.core, src.toWildcard, dst⟩]
      | true, false =>
        if singleCore = src then some [⟨.down, src, dst⟩]
        else some [⟨.core, src, dst.toWildcard⟩, ⟨.down, dst.toWildcard, dst⟩]
      | true, true => some [⟨.core, src, dst⟩]

/-! ### the pather -/

/-- a `combinator.Path` reduced to what the pather reads: identity, `Metadata.Expiry`,
`Metadata.Interfaces` -/
structure CPath where
  id : Nat
  expiry : Int
  ifs : List (IA × Nat)
deriving DecidableEq, Repr

structure Input where
  localIA : IA
  dst : IA
  now : Int
  upFirst : List IA        -- `ups.FirstIAs()`
  coreFirst : List IA      -- `cores.FirstIAs()`
  combine : IA → List CPath
  revoked : List (IA × Nat)
  hasNextHop : Nat → Bool  -- `NextHopper.UnderlayNextHop(id) != nil`
  splitErr : Bool          -- `Splitter.Split` failed
  fetchErr : Bool          -- `Fetcher.Fetch` returned an error

inductive Result
  | badDst                 -- `ErrBadDst`
  | localPath              -- exactly one empty path
  | splitErr
  | fetchErr
  | translateErr           -- "no paths after translation"
  | none                   -- `nil, nil`
  | paths (ps : List CPath)
  | panic                  -- `Interfaces[0]` of a path without interfaces
deriving DecidableEq, Repr

/-- `findDestinations` (a set in Go: duplicates removed, order irrelevant) -/
def destinations (inp : Input) : List IA :=
  if !inp.dst.isWildcard then [inp.dst]
  else (inp.coreFirst ++ (if inp.dst.isd = inp.localIA.isd then inp.upFirst else [])).eraseDups

/-- the revocation test of `filterRevoked` for one path -/
def isRevoked (revoked : List (IA × Nat)) (p : CPath) : Bool :=
  p.ifs.any fun i => revoked.contains i

/-- `buildAllPaths` followed by `filterRevoked` -/
def candidates (inp : Input) : List CPath :=
  (((destinations inp).flatMap inp.combine).filter fun p => p.expiry > inp.now).filter
    fun p => !isRevoked inp.revoked p

/-- `translatePath` succeeds: `some true`; next hop unknown: `some false`; no interfaces: `none` -/
def routable (inp : Input) (p : CPath) : Option Bool :=
  match p.ifs with
  | [] => Option.none
  | (_, id) :: _ => some (inp.hasNextHop id)

/-- `Pather.GetPaths` -/
def getPaths (inp : Input) : Result :=
  if inp.dst.isd = 0 then .badDst
  else if inp.dst = inp.localIA then .localPath
  else if inp.splitErr then .splitErr
  else
    let cs := candidates inp
    if cs.isEmpty then (if inp.fetchErr then .fetchErr else .none)
    else if cs.any (fun p => (routable inp p).isNone) then .panic
    else
      match cs.filter (fun p => routable inp p == some true) with
      | [] => .translateErr
      | ps => .paths ps

end Scion.Pather
