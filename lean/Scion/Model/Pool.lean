/-! Model of the packet-buffer ownership protocol of the router pipeline (property C14).
Core Lean only.

A state records, for every place a buffer can be, which buffers are there (`holdings`: pairs of
location and buffer id). The events are the `Get`/`Put` calls and channel hand-overs of
`udpConnection.receive`/`send`, `*Link.receive`, `runProcessor`, `runSlowPathProcessor`,
`internalLink.runProcessor` and `bfdSend.Send`, one constructor per source site; "queue full",
"write error", "partial batch" and "stop" are nondeterministic choices between events. An event is
enabled only if the acting stage really has the buffer in hand (that is what the code's control
flow must guarantee; engine `pool` validates observed traces against it). -/
namespace Scion.Pool

abbrev Buf := Nat

/-- where a buffer can be -/
inductive Loc where
  | pool
  /-- `udpConnection.receive` of connection `c`: in `packets`, registered in `msgs` -/
  | rx (c : Nat)
  /-- filled by `ReadBatch`, being demultiplexed by `link.receive` in the receiver goroutine -/
  | rxDeliver (c : Nat)
  | procQ (i : Nat)
  | proc (i : Nat)
  | slowQ (j : Nat)
  | slow (j : Nat)
  /-- `internalLink.procQ` / `internalLink.runProcessor` -/
  | intQ
  | intProc
  | egressQ (l : Nat)
  /-- `udpConnection.send` of link/connection `l`: in `pkts[:toWrite]` -/
  | tx (l : Nat)
  /-- `bfdSend.Send` between `Get` and `Send` -/
  | bfd (l : Nat)
  /-- returned by nobody -/
  | lost
  deriving DecidableEq, Repr

structure State where
  holdings : List (Loc × Buf)
  deriving Repr, DecidableEq

/-- all `n` buffers start in the pool (`initPacketPool`) -/
def init (n : Nat) : State := ⟨(List.range n).map fun b => (Loc.pool, b)⟩

inductive Ev where
  -- udpConnection.receive
  | rxGet (c : Nat) (b : Buf)
  | rxRead (c : Nat) (bs : List Buf)
  | rxPutInvalid (c : Nat) (b : Buf)
  | rxToProcQ (c : Nat) (b : Buf) (i : Nat)
  | rxToIntQ (c : Nat) (b : Buf)
  | rxPutBusy (c : Nat) (b : Buf)
  | rxStopPut (c : Nat) (b : Buf)
  -- runProcessor
  | procTake (i : Nat) (b : Buf)
  | procPut (i : Nat) (b : Buf)
  | procToSlowQ (i : Nat) (b : Buf) (j : Nat)
  | procToEgress (i : Nat) (b : Buf) (l : Nat)
  -- runSlowPathProcessor
  | slowTake (j : Nat) (b : Buf)
  | slowPut (j : Nat) (b : Buf)
  | slowToEgress (j : Nat) (b : Buf) (l : Nat)
  -- internalLink.runProcessor
  | intTake (b : Buf)
  | intPut (b : Buf)
  | intToEgress (b : Buf) (l : Nat)
  | intDrainPut (b : Buf)
  -- udpConnection.send
  | txTake (l : Nat) (b : Buf)
  | txPut (l : Nat) (b : Buf)
  -- bfdSend.Send
  | bfdGet (l : Nat) (b : Buf)
  | bfdToEgress (l : Nat) (b : Buf)
  | bfdPut (l : Nat) (b : Buf)
  | bfdSerializeError (l : Nat) (b : Buf)
  deriving Repr

/-- source location, destination location and buffers moved by an event -/
def Ev.move : Ev → Loc × Loc × List Buf
  | .rxGet c b => (.pool, .rx c, [b])
  | .rxRead c bs => (.rx c, .rxDeliver c, bs)
  | .rxPutInvalid c b => (.rxDeliver c, .pool, [b])
  | .rxToProcQ c b i => (.rxDeliver c, .procQ i, [b])
  | .rxToIntQ c b => (.rxDeliver c, .intQ, [b])
  | .rxPutBusy c b => (.rxDeliver c, .pool, [b])
  | .rxStopPut c b => (.rx c, .pool, [b])
  | .procTake i b => (.procQ i, .proc i, [b])
  | .procPut i b => (.proc i, .pool, [b])
  | .procToSlowQ i b j => (.proc i, .slowQ j, [b])
  | .procToEgress i b l => (.proc i, .egressQ l, [b])
  | .slowTake j b => (.slowQ j, .slow j, [b])
  | .slowPut j b => (.slow j, .pool, [b])
  | .slowToEgress j b l => (.slow j, .egressQ l, [b])
  | .intTake b => (.intQ, .intProc, [b])
  | .intPut b => (.intProc, .pool, [b])
  | .intToEgress b l => (.intProc, .egressQ l, [b])
  | .intDrainPut b => (.intQ, .pool, [b])
  | .txTake l b => (.egressQ l, .tx l, [b])
  | .txPut l b => (.tx l, .pool, [b])
  | .bfdGet l b => (.pool, .bfd l, [b])
  | .bfdToEgress l b => (.bfd l, .egressQ l, [b])
  | .bfdPut l b => (.bfd l, .pool, [b])
  | .bfdSerializeError l b => (.bfd l, .lost, [b])

/-- stages that work on one buffer at a time (a local variable `p`) -/
def Loc.single : Loc → Bool
  | .proc _ => true | .slow _ => true | .intProc => true | .bfd _ => true
  | _ => false

def holds (h : List (Loc × Buf)) (l : Loc) : List Buf :=
  (h.filter fun p => p.1 == l).map (·.2)

/-- move one buffer; `none` if it is not at the source location -/
def moveOne (h : List (Loc × Buf)) (src dst : Loc) (b : Buf) : Option (List (Loc × Buf)) :=
  if (src, b) ∈ h then some (h.erase (src, b) ++ [(dst, b)]) else none

def moveAll (h : List (Loc × Buf)) (src dst : Loc) : List Buf → Option (List (Loc × Buf))
  | [] => some h
  | b :: bs => match moveOne h src dst b with
    | none => none
    | some h' => moveAll h' src dst bs

/-- one event; `none` = the acting stage does not have the buffer in hand (or a one-buffer stage
would hold two, or a delivery round starts before the previous one ended) -/
def step (s : State) (e : Ev) : Option State :=
  let (src, dst, bs) := e.move
  if dst.single && !(holds s.holdings dst).isEmpty then none
  else match e with
    | .rxRead c _ => if (holds s.holdings (.rxDeliver c)).isEmpty then
        (moveAll s.holdings src dst bs).map State.mk else none
    | _ => (moveAll s.holdings src dst bs).map State.mk

def run (s : State) : List Ev → Option State
  | [] => some s
  | e :: es => match step s e with
    | none => none
    | some s' => run s' es

def Ev.isSerializeError : Ev → Bool
  | .bfdSerializeError _ _ => true
  | _ => false

/-! ### `udpConnection.send`: the batch bookkeeping after `WriteBatch` -/

/-- the loop `for i := range n { pkts[i] = pkts[i+written+1] }` (left shift of the leftovers) -/
def shiftLoop (pkts : List Buf) (written : Nat) : Nat → Nat → List Buf
  | _, 0 => pkts
  | i, fuel + 1 =>
    match pkts[i + written + 1]? with
    | some v => shiftLoop (pkts.set i v) written (i + 1) fuel
    | none => pkts

/-- what `send` does with `pkts[:toWrite]` after `WriteBatch` returned `written`:
the buffers returned to the pool (in order) and the new `pkts[:toWrite']` -/
def afterWrite (pkts : List Buf) (toWrite written : Nat) : List Buf × List Buf :=
  if written ≠ toWrite then
    (pkts.take written ++ (match pkts[written]? with | some p => [p] | none => []),
     (shiftLoop pkts written 0 (toWrite - (written + 1))).take (toWrite - (written + 1)))
  else (pkts.take written, [])

/-! ### `udpConnection.receive`: which slots are refilled and which are reused -/

/-- after a round in which `ReadBatch` returned `numPkts` (or failed: `numPkts = none`) the slots
`packets[batch - numReusable:]` keep their buffers and `packets[:batch - numReusable]` are
refilled from the pool; returns (delivered, reusable) for the batch `packets` -/
def afterRead (packets : List Buf) (numPkts : Option Nat) : List Buf × List Buf :=
  match numPkts with
  | none => ([], packets)
  | some k => (packets.take k, packets.drop k)

/-! ### What can be observed at the sockets (acceptor for engine `pool`)

The scripted `BatchConn`s see which buffers a receiver registers for reading and which buffers a
sender presents for writing. Between these points a buffer is somewhere in the pipeline or back in
the pool (`flight`). -/

inductive Seen where
  | flight
  | rx (c : Nat)
  | tx (l : Nat)
  deriving DecidableEq, Repr

inductive ObsEv where
  /-- a buffer appears in the `msgs` of `ReadBatch` on connection `c` for the first time in
  this tenure (it came out of the pool) -/
  | hold (c : Nat) (b : Buf)
  /-- the buffer is registered again in the next `ReadBatch` (reused slot) -/
  | keep (c : Nat) (b : Buf)
  /-- `ReadBatch` filled it: it is handed to the pipeline -/
  | fill (c : Nat) (b : Buf)
  /-- the buffer is presented to `WriteBatch` on link `l` (first time or as a leftover) -/
  | present (l : Nat) (b : Buf)
  /-- it was written, or it was the one dropped after a partial write: back to the pool -/
  | done (l : Nat) (b : Buf)
  /-- the connection is being closed: its receiver returns the buffers it has registered
  (`receive` puts `packets[batchSize-numReusable:]` back on exit) and its sender stops -/
  | release (c : Nat) (b : Buf)
  deriving Repr

/-- status per buffer (missing = flight) -/
abbrev ObsState := List (Buf × Seen)

def seen (s : ObsState) (b : Buf) : Seen :=
  match s.find? (fun p => p.1 == b) with
  | some p => p.2
  | none => .flight

def setSeen (s : ObsState) (b : Buf) (v : Seen) : ObsState :=
  (b, v) :: s.filter (fun p => p.1 != b)

def obsStep (s : ObsState) : ObsEv → Except String ObsState
  | .hold c b => match seen s b with
    | .flight => .ok (setSeen s b (.rx c))
    | .rx _ => .error "pool-handed-out-a-buffer-a-receiver-holds"
    | .tx _ => .error "pool-handed-out-a-buffer-a-sender-holds"
  | .keep c b => if seen s b = .rx c then .ok s else .error "reused-slot-not-owned"
  | .fill c b => if seen s b = .rx c then .ok (setSeen s b .flight) else .error "filled-buffer-not-owned"
  | .present l b => match seen s b with
    | .flight => .ok (setSeen s b (.tx l))
    | .tx l' => if l' = l then .ok s else .error "two-senders-hold-the-buffer"
    | .rx _ => .error "sender-holds-a-buffer-a-receiver-holds"
  | .done l b => if seen s b = .tx l then .ok (setSeen s b .flight) else .error "returned-buffer-not-owned"
  | .release c b =>
    if seen s b = .rx c ∨ seen s b = .tx c then .ok (setSeen s b .flight)
    else .error "released-buffer-not-owned"

end Scion.Pool
