import Scion.Util.Hex
import Scion.Model.Drkey
/-! Model of the DRKey gRPC service's admission decisions (property C40). Core only.

Mirrors `control/drkey/grpc/drkey_service.go`: the six handlers `DRKeyLevel1`,
`DRKeyIntraLevel1`, `DRKeyASHost`, `DRKeyHostAS`, `DRKeyHostHost`, `DRKeySecretValue` up to the
call into the `Engine`, with `validateClientCertificate`, `validateAllowedHost`,
`validate{ASHost,HostAS,HostHost}Req`, `hostAddrFromPeer`, `getMeta`, and the request → meta
conversions of `protobuf.go`.

Abstractions (computed mechanically by the harness with the same library calls the code makes):
the textual host of a request is passed together with `net.ParseIP` of it (`[]` = nil); the
TLS certificate chain is represented by what the `ClientCertificateVerifier` returns for it. -/
namespace Scion.DrkeySrv
open Scion.Util

/-- `peer.Addr` -/
inductive PeerAddr
  | tcp (ip : Bytes)      -- `*net.TCPAddr` with its `IP` byte slice (any length)
  | other                 -- any other `net.Addr`
deriving DecidableEq, Repr

/-- `peer.AuthInfo` as `validateClientCertificate` sees it -/
inductive Auth
  | none                  -- AuthInfo == nil
  | notTLS                -- not a `credentials.TLSInfo`
  | tlsNoCert             -- TLS, empty `PeerCertificates`
  | tlsBadCert            -- the verifier rejects the chain
  | tlsCert (ia : Nat)    -- the verifier accepts the chain and returns this ISD-AS
deriving DecidableEq, Repr

structure Peer where
  addr : PeerAddr
  auth : Auth
deriving DecidableEq, Repr

/-- `netip.Addr` as a comparable value (the key type of `config.HostProto`) -/
structure NAddr where
  is4 : Bool
  bytes : Bytes     -- 4 or 16 bytes
  zone : String     -- IPv6 zone, "" if none
deriving DecidableEq, Repr

structure Srv where
  localIA : Nat
  allowed : List (NAddr × Nat)     -- `AllowedSVHostProto`: (host, protocol) pairs

/-- protobuf timestamp: `none` = nil message -/
abbrev Ts := Option (Int × Int)

/-- `(*timestamppb.Timestamp).CheckValid` -/
def tsValid : Ts → Bool
  | none => false
  | some (s, n) => decide (-62135596800 ≤ s) && decide (s ≤ 253402300799) && decide (0 ≤ n) && decide (n < 1000000000)

/-- `drkey.Protocol(req.ProtocolId)`: int32 enum value to uint16 -/
def protoOf (p : Int) : Nat := (p % 65536).toNat

def v4InV6Prefix : Bytes := [0, 0, 0, 0, 0, 0, 0, 0, 0, 0, 0xff, 0xff]

/-- `net.IP.Equal` -/
def ipEqual (ip x : Bytes) : Bool :=
  if ip.length = x.length then ip == x
  else if ip.length = 4 ∧ x.length = 16 then x.take 12 == v4InV6Prefix && ip == x.drop 12
  else if ip.length = 16 ∧ x.length = 4 then ip.take 12 == v4InV6Prefix && ip.drop 12 == x
  else false

/-- `netipx.FromStdIP`: `netip.AddrFromSlice` then `Unmap` -/
def fromStdIP (ip : Bytes) : Option NAddr :=
  if ip.length = 4 then some ⟨true, ip, ""⟩
  else if ip.length = 16 then
    if ip.take 12 == v4InV6Prefix then some ⟨true, ip.drop 12, ""⟩ else some ⟨false, ip, ""⟩
  else none

/-- `hostAddrFromPeer` -/
def hostAddrFromPeer : PeerAddr → Option Bytes
  | .tcp ip => some ip
  | .other => none

/-- `Server.validateAllowedHost` -/
def allowedHost (s : Srv) (proto : Nat) (a : PeerAddr) : Bool :=
  match a with
  | .other => false
  | .tcp ip =>
    match fromStdIP ip with
    | none => false
    | some h => s.allowed.contains (h, proto)

/-- `Server.validateClientCertificate` -/
def clientCertIA : Auth → Option Nat
  | .tlsCert ia => some ia
  | _ => none

/-! ### what is handed to the engine -/

structure Level1Meta where
  proto : Nat
  ts : Int × Int
  src : Nat
  dst : Nat
deriving DecidableEq, Repr

structure SVMeta where
  proto : Nat
  ts : Int × Int
deriving DecidableEq, Repr

/-- level-2/3 request (host strings are opaque to the decision; `*IP` is `net.ParseIP` of them) -/
structure HostReq where
  proto : Int
  ts : Ts
  src : Nat
  dst : Nat
  srcHost : Bytes := []     -- the string's bytes (echoed into the meta)
  dstHost : Bytes := []
  srcIP : Bytes := []       -- net.ParseIP(srcHost): [] or 16 bytes
  dstIP : Bytes := []
deriving DecidableEq, Repr

structure HostMeta where
  proto : Nat
  ts : Int × Int
  src : Nat
  dst : Nat
  srcHost : Bytes
  dstHost : Bytes
deriving DecidableEq, Repr

/-- `validateASHostReq` -/
def validateASHost (proto dstIA : Nat) (dstIP : Bytes) (localIA : Nat) (a : PeerAddr) : Bool :=
  if proto = Scion.Drkey.genericProto then false
  else match hostAddrFromPeer a with
    | none => false
    | some ip =>
      if dstIA ≠ localIA then false
      else ipEqual ip dstIP

/-- `validateHostASReq` -/
def validateHostAS (proto srcIA : Nat) (srcIP : Bytes) (localIA : Nat) (a : PeerAddr) : Bool :=
  if proto = Scion.Drkey.genericProto then false
  else match hostAddrFromPeer a with
    | none => false
    | some ip =>
      if srcIA ≠ localIA then false
      else ipEqual ip srcIP

/-- `validateHostHostReq` -/
def validateHostHost (proto srcIA dstIA : Nat) (srcIP dstIP : Bytes) (localIA : Nat)
    (a : PeerAddr) : Bool :=
  if proto = Scion.Drkey.genericProto then false
  else match hostAddrFromPeer a with
    | none => false
    | some ip =>
      if (srcIA ≠ localIA ∨ ipEqual ip srcIP = false) ∧ (dstIA ≠ localIA ∨ ipEqual ip dstIP = false)
      then false else true

/-! ### handlers: `none` = an error is returned and the engine is not called;
    `some m` = the engine is called with `m` (its result is what the client receives) -/

/-- `DRKeyLevel1` → `Engine.DeriveLevel1` -/
def level1 (s : Srv) (peer : Option Peer) (proto : Int) (ts : Ts) : Option Level1Meta :=
  match peer with
  | none => none
  | some p =>
    match clientCertIA p.auth with
    | none => none
    | some certIA =>
      match ts with
      | none => none
      | some t =>
        if tsValid (some t) = false then none
        else if Scion.Drkey.isPredefined (protoOf proto) = false then none
        else some ⟨protoOf proto, t, s.localIA, certIA⟩

/-- `DRKeyIntraLevel1` → `Engine.GetLevel1Key` -/
def intraLevel1 (s : Srv) (peer : Option Peer) (proto : Int) (ts : Ts) (src dst : Nat) :
    Option Level1Meta :=
  match peer with
  | none => none
  | some p =>
    if s.localIA ≠ src ∧ s.localIA ≠ dst then none
    else match ts with
      | none => none
      | some t =>
        if tsValid (some t) = false then none
        else if allowedHost s (protoOf proto) p.addr = false then none
        else some ⟨protoOf proto, t, src, dst⟩

/-- `DRKeySecretValue` → `Engine.GetSecretValue` -/
def secretValue (s : Srv) (peer : Option Peer) (proto : Int) (ts : Ts) : Option SVMeta :=
  match peer with
  | none => none
  | some p =>
    match ts with
    | none => none
    | some t =>
      if tsValid (some t) = false then none
      else if allowedHost s (protoOf proto) p.addr = false then none
      else some ⟨protoOf proto, t⟩

/-- `DRKeyASHost` → `Engine.DeriveASHost` (the meta carries no source host) -/
def asHost (s : Srv) (peer : Option Peer) (r : HostReq) : Option HostMeta :=
  match peer with
  | none => none
  | some p =>
    match r.ts with
    | none => none
    | some t =>
      if tsValid (some t) = false then none
      else if validateASHost (protoOf r.proto) r.dst r.dstIP s.localIA p.addr = false then none
      else some ⟨protoOf r.proto, t, r.src, r.dst, [], r.dstHost⟩

/-- `DRKeyHostAS` → `Engine.DeriveHostAS` -/
def hostAS (s : Srv) (peer : Option Peer) (r : HostReq) : Option HostMeta :=
  match peer with
  | none => none
  | some p =>
    match r.ts with
    | none => none
    | some t =>
      if tsValid (some t) = false then none
      else if validateHostAS (protoOf r.proto) r.src r.srcIP s.localIA p.addr = false then none
      else some ⟨protoOf r.proto, t, r.src, r.dst, r.srcHost, []⟩

/-- `DRKeyHostHost` → `Engine.DeriveHostHost` -/
def hostHost (s : Srv) (peer : Option Peer) (r : HostReq) : Option HostMeta :=
  match peer with
  | none => none
  | some p =>
    match r.ts with
    | none => none
    | some t =>
      if tsValid (some t) = false then none
      else if validateHostHost (protoOf r.proto) r.src r.dst r.srcIP r.dstIP s.localIA p.addr = false
      then none
      else some ⟨protoOf r.proto, t, r.src, r.dst, r.srcHost, r.dstHost⟩

/-! ### request histories on one server

The handlers keep no state: the answer to a request is a function of the server's configuration,
the request, and what the certificate verifier says about the chain presented *with this
request*.  `serve` is therefore a `map`; the harness checks that the real, long-lived `Server`
agrees with it on histories (no memoisation of earlier verifications, no cross-request leakage). -/

inductive Req
  | l1 (peer : Option Peer) (proto : Int) (ts : Ts)
  | il1 (peer : Option Peer) (proto : Int) (ts : Ts) (src dst : Nat)
  | sv (peer : Option Peer) (proto : Int) (ts : Ts)
  | ah (peer : Option Peer) (r : HostReq)
  | ha (peer : Option Peer) (r : HostReq)
  | hh (peer : Option Peer) (r : HostReq)
deriving DecidableEq, Repr

inductive Ans
  | level1 (m : Option Level1Meta)       -- `Engine.DeriveLevel1`
  | intra (m : Option Level1Meta)        -- `Engine.GetLevel1Key`
  | secret (m : Option SVMeta)
  | asHost (m : Option HostMeta)
  | hostAS (m : Option HostMeta)
  | hostHost (m : Option HostMeta)
deriving DecidableEq, Repr

def handle (s : Srv) : Req → Ans
  | .l1 peer proto ts => .level1 (level1 s peer proto ts)
  | .il1 peer proto ts src dst => .intra (intraLevel1 s peer proto ts src dst)
  | .sv peer proto ts => .secret (secretValue s peer proto ts)
  | .ah peer r => .asHost (asHost s peer r)
  | .ha peer r => .hostAS (hostAS s peer r)
  | .hh peer r => .hostHost (hostHost s peer r)

/-- the answers of one server to a history of requests, in order -/
def serve (s : Srv) (hist : List Req) : List Ans := hist.map (handle s)

end Scion.DrkeySrv
