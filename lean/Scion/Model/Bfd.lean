/-! Model of `router/bfd` (property C16). Core Lean only.

* `transition` mirrors `fsm.go: transition` case by case (the complete 4×6 table of the real
  function is compared with it exhaustively on every run, engine `bfd`, ops `tr`).
* `recvStep` mirrors what `Session.Run` does with an accepted packet: the received state is used
  as the event (`event(s.remoteState)`), then a resulting AdminDown is normalised to Down
  (repair 7c477ad, `if s.getLocalState() == stateAdminDown { s.setLocalState(stateDown) }`).
* `timerStep` is the detection-timer branch (`s.transition(ctx, eventTimer)`).
* `Obs` is the acceptor for the event log observed inside the `Run` goroutine of a real
  session (T2): callbacks `recv` (Metrics.PacketsReceived, before the packet is processed),
  `chg` (Metrics.StateChanges, right after `Session.transition` changed the state) and `send`
  (Sender.Send), each carrying the local state read at that moment.
* `Timed` is the detection timer as a timed automaton over abstract time (µs).
* `xstep` is the lossless exchange of two sessions. -/
namespace Scion.Bfd

/-- `state` of fsm.go; numeric values are those of gopacket `layers.BFDState`. -/
inductive St where
  | adminDown | down | init | up
  deriving DecidableEq, Repr, Inhabited

/-- `event` of fsm.go. -/
inductive Ev where
  | adminDown | down | init | up | timer | adminUp
  deriving DecidableEq, Repr, Inhabited

def St.toNat : St → Nat
  | .adminDown => 0 | .down => 1 | .init => 2 | .up => 3

def St.ofNat? : Nat → Option St
  | 0 => some .adminDown | 1 => some .down | 2 => some .init | 3 => some .up | _ => none

def Ev.toNat : Ev → Nat
  | .adminDown => 0 | .down => 1 | .init => 2 | .up => 3 | .timer => 4 | .adminUp => 5

def Ev.ofNat? : Nat → Option Ev
  | 0 => some .adminDown | 1 => some .down | 2 => some .init | 3 => some .up
  | 4 => some .timer | 5 => some .adminUp | _ => none

def St.all : List St := [.adminDown, .down, .init, .up]
def Ev.all : List Ev := [.adminDown, .down, .init, .up, .timer, .adminUp]

/-- `fsm.go: transition`, line by line. (Undefined numeric states/events panic in Go; they are
outside `St`/`Ev` and handled by the driver as `panic`.) -/
def transition : St → Ev → St
  | .adminDown, .adminUp => .down
  | .adminDown, _ => .adminDown
  | .down, .init => .up
  | .down, .down => .init
  | .down, .up => .down
  | .down, .timer => .down
  | .down, .adminUp => .down
  | .down, .adminDown => .adminDown
  | .init, .init => .up
  | .init, .up => .up
  | .init, .timer => .down
  | .init, .down => .init
  | .init, .adminUp => .init
  | .init, .adminDown => .adminDown
  | .up, .init => .up
  | .up, .up => .up
  | .up, .adminUp => .up
  | .up, .timer => .down
  | .up, .down => .down
  | .up, .adminDown => .adminDown

/-- `event(s.remoteState)`: the received state is used as the event. -/
def eventOf : St → Ev
  | .adminDown => .adminDown | .down => .down | .init => .init | .up => .up

/-- the normalisation after the transition in `Session.Run` (repair 7c477ad). -/
def norm : St → St
  | .adminDown => .down
  | s => s

/-- local state after `Session.Run` has processed an accepted packet carrying state `r`. -/
def recvStep (l r : St) : St := norm (transition l (eventOf r))

/-- local state after the detection timer fired. -/
def timerStep (l : St) : St := transition l .timer

/-- inputs of a session: an accepted packet with the given remote state, or a detection-timer
expiry. -/
inductive Input where
  | recv (r : St)
  | timer
  deriving DecidableEq, Repr

def step (l : St) : Input → St
  | .recv r => recvStep l r
  | .timer => timerStep l

/-- the state after a history, starting from `l`. -/
def run (l : St) (h : List Input) : St := h.foldl step l

/-- `Session.Run` starts with `s.setLocalState(stateDown)`. -/
def initial : St := .down

/-! ### Event-log acceptor (T2) -/

structure Obs where
  cur : St
  /-- remote state of the packet whose processing has started, and whether the StateChanges
  callback of its raw transition was already seen -/
  pend : Option (St × Bool)
  deriving Repr

def Obs.init : Obs := ⟨initial, none⟩

inductive ObsEv where
  | recv (r : St) | chg | send | fin
  deriving Repr

/-- finish the pending packet: its raw transition must have been announced iff it changed the
state. -/
def Obs.close (o : Obs) : Except String St :=
  match o.pend with
  | none => .ok o.cur
  | some (r, seen) =>
    if !seen && transition o.cur (eventOf r) != o.cur then .error "missing-chg"
    else .ok (recvStep o.cur r)

def timerChg (c : St) : Except String (Obs × St) :=
  let t := timerStep c
  if t != c then .ok (⟨t, none⟩, t) else .error "chg-without-change"

/-- one observed callback; returns the new acceptor state and the local state the
implementation must show at that moment. -/
def Obs.step (o : Obs) : ObsEv → Except String (Obs × St)
  | .recv r => do
    let c ← o.close
    pure (⟨c, some (r, false)⟩, c)
  | .send => do
    let c ← o.close
    pure (⟨c, none⟩, c)
  | .fin => do
    let c ← o.close
    pure (⟨c, none⟩, c)
  | .chg =>
    match o.pend with
    | some (r, false) =>
      let raw := transition o.cur (eventOf r)
      if raw != o.cur then .ok (⟨o.cur, some (r, true)⟩, raw)
      else timerChg (recvStep o.cur r)
    | some (r, true) => timerChg (recvStep o.cur r)
    | none => timerChg o.cur

/-! ### Detection timer (abstract time in µs) -/

/-- `defaultDetectionTimeout` = one minute. -/
def defaultDetect : Nat := 60000000

structure Timed where
  st : St
  /-- absolute time at which the detection timer fires -/
  deadline : Nat
  deriving Repr

/-- an accepted packet at time `now`: the detection timer is re-armed with
`DetectMultiplier × max(RequiredMinRxInterval, remote DesiredMinTxInterval)`. -/
def Timed.recv (s : Timed) (now : Nat) (r : St) (mult reqRx remTx : Nat) : Timed :=
  { st := recvStep s.st r, deadline := now + mult * max reqRx remTx }

/-- time passes to `now` without a packet: the timer branch runs iff the deadline is reached. -/
def Timed.tick (s : Timed) (now : Nat) : Timed :=
  if s.deadline ≤ now then { st := timerStep s.st, deadline := now + defaultDetect } else s

/-! ### Two sessions exchanging packets without loss -/

inductive Dir where
  | ab | ba
  deriving DecidableEq, Repr

/-- one delivery: `ab` = B processes a packet carrying A's current state, `ba` the converse. -/
def xstep (p : St × St) : Dir → St × St
  | .ab => (p.1, recvStep p.2 p.1)
  | .ba => (recvStep p.1 p.2, p.2)

/-- the pair after `n` deliveries of schedule `sched`. -/
def pairAt (sched : Nat → Dir) (p0 : St × St) : Nat → St × St
  | 0 => p0
  | n + 1 => xstep (pairAt sched p0 n) (sched n)

/-! ### Two sessions over two FIFO channels (packets in flight) -/

/-- `a`, `b`: the local states; `qab`: packets in flight from A to B (oldest first), each
carrying the state A had when it sent it; `qba` likewise -/
structure ACfg where
  a : St
  b : St
  qab : List St
  qba : List St
  deriving DecidableEq, Repr

inductive Act where
  | sendA | sendB | recvA | recvB
  deriving DecidableEq, Repr

/-- one action; a receive on an empty channel does nothing -/
def astep (c : ACfg) : Act → ACfg
  | .sendA => { c with qab := c.qab ++ [c.a] }
  | .sendB => { c with qba := c.qba ++ [c.b] }
  | .recvA => match c.qba with
    | [] => c
    | x :: r => { c with a := recvStep c.a x, qba := r }
  | .recvB => match c.qab with
    | [] => c
    | x :: r => { c with b := recvStep c.b x, qab := r }

/-- the configuration after `n` actions of schedule `sched` -/
def acfgAt (sched : Nat → Act) (c0 : ACfg) : Nat → ACfg
  | 0 => c0
  | n + 1 => astep (acfgAt sched c0 n) (sched n)

/-- both sessions freshly started, nothing in flight -/
def aInit : ACfg := ⟨.down, .down, [], []⟩

/-- a detection-timer expiry at A / at B (only used to show how a configuration arises) -/
def atimerA (c : ACfg) : ACfg := { c with a := timerStep c.a }
def atimerB (c : ACfg) : ACfg := { c with b := timerStep c.b }

/-! ### Send interval (jitter.go) -/

def minJitter : Nat := 0
def minJitterDetectMult1 : Nat := 10
def maxJitter : Nat := 25

/-- the percentage a generator returning `pct` yields when asked for `[lo, hi)` -/
def clampPct (pct lo hi : Nat) : Nat := if pct < lo then lo else if hi ≤ pct then hi - 1 else pct

/-- `computeInterval(transmitInterval, detectMult, gen)` in ns; `none` = the function panics
(`transmitInterval <= 0` or `detectMult == 0`) -/
def computeInterval (interval detectMult pct : Nat) : Option Nat :=
  if interval = 0 then none
  else if detectMult = 0 then none
  else
    some (interval * (100 - clampPct pct (if detectMult = 1 then minJitterDetectMult1 else minJitter) maxJitter) / 100)

/-! ### `shouldDiscard` -/

/-- the fields of a BFD control packet that `shouldDiscard` looks at. -/
structure Pkt where
  version : Nat
  authPresent : Bool
  length : Nat
  detectMult : Nat
  multipoint : Bool
  myDisc : Nat
  yourDisc : Nat
  state : St
  /-- `AuthHeader != nil && AuthHeader.AuthType != None` -/
  authHdrTyped : Bool
  poll : Bool
  final : Bool
  echoRx : Nat
  demand : Bool

/-- `session.go: shouldDiscard`, check by check. -/
def shouldDiscard (p : Pkt) : Bool :=
  if p.version != 1 then true
  else if !p.authPresent && p.length < 24 then true
  else if p.authPresent && p.length < 26 then true
  else if p.detectMult == 0 then true
  else if p.multipoint then true
  else if p.myDisc == 0 then true
  else if p.yourDisc == 0 && p.state != .adminDown && p.state != .down then true
  else if !p.authPresent && p.authHdrTyped then true
  else if p.authPresent then true
  else if p.poll then true
  else if p.final then true
  else if p.echoRx != 0 then true
  else if p.demand then true
  else false

end Scion.Bfd
