import Scion.Model.Signed
/-!
Model of path-segment verification:
`pkg/segment/seg.go` (`associatedData`, `VerifyASEntry`), `private/segment/segverifier`
(`VerifySegment`: binds IA and validity per entry) and `private/trust/verifier.go`
(`Verifier.Verify`: key id → bound IA → chains from the trust DB covering the validity → first
chain whose key verifies the signed message, via `signed.Verify` = `Scion.Signed.verifyMsg`).

A segment is what arrives on the wire: the raw `SegmentInformation` bytes and per AS entry the raw
`SignedMessage` (`HeaderAndBody`, `Signature`).  Everything the verifier looks at is a function of
those bytes; the protobuf parsers are parameters (`Parsers`).  The trust DB is a list of AS
certificates (`Cert`: subject IA, subject key id, validity, public key) — chain validation against
the TRC is C34's subject and is not repeated here.  Core Lean only.
-/
namespace Scion.SegVerify
open Scion.Signed Scion.Util

/-- an AS certificate as the trust DB indexes it; times in ns since the Unix epoch -/
structure Cert (PK : Type) where
  ia : Nat
  skid : Bytes
  nb : Int
  na : Int
  pk : PK

/-- `cppb.VerificationKeyID` (TRC base/serial only feed `NotifyTRC`, not the decision) -/
structure KeyId where
  ia : Nat
  skid : Bytes
deriving DecidableEq, Repr

structure Parsers where
  F : Framing
  /-- `proto.Unmarshal(hdr.VerificationKeyID, &keyID)` -/
  keyId : Bytes → Option KeyId
  /-- `ASEntryFromPB` on the signed body: `Local`, `HopEntry.HopField.ExpTime` -/
  body : Bytes → Option (Nat × Nat)
  /-- `infoFromRaw`: `Timestamp` in seconds -/
  info : Bytes → Option Int

/-- one `cppb.ASEntry.Signed` -/
structure RawEntry where
  hb : Bytes
  sig : Bytes
deriving DecidableEq, Repr

structure RawSeg where
  info : Bytes
  entries : List RawEntry

def RawEntry.msg (e : RawEntry) : SignedMessage := ⟨e.hb, e.sig⟩

/-- `PathSegment.associatedData(idx)` where `earlier = ASEntries[:idx]` -/
def assocData (info : Bytes) (earlier : List RawEntry) : List Bytes :=
  info :: earlier.flatMap fun e => [e.hb, e.sig]

/-- `addr.IA.IsWildcard`: ISD (top 16 bits) or AS (low 48 bits) zero -/
def isWildcard (ia : Nat) : Bool := ia / 2^48 == 0 || ia % 2^48 == 0

/-- `path.expTimeUnit` = 24h/256 in ns -/
def expTimeUnit : Int := 337500000000

/-- `path.ExpTimeToDuration` -/
def expDur (exp : Nat) : Int := ((exp : Int) + 1) * expTimeUnit

def isOk {ε α : Type} : Except ε α → Bool
  | .ok _ => true
  | .error _ => false

/-- the chains `Verifier.Verify` tries: the trust DB query of `getChains` (`sqlite.Chains`: subject
IA, subject key id, `not_before <= q.NotBefore ∧ not_after >= q.NotAfter`) followed by the
verifier's own check `chainValidity(c).Covers(v.BoundValidity)` — exact time comparison, and
independent of `Verifier.Cache`, which is keyed by (IA, subject key id) only -/
def chains {PK : Type} (certs : List (Cert PK)) (k : KeyId) (nb na : Int) : List (Cert PK) :=
  certs.filter fun c => c.ia == k.ia && c.skid == k.skid && decide (c.nb ≤ nb) && decide (na ≤ c.na)

/-- `trust.Verifier.Verify` with `BoundIA`, `BoundValidity = (nb, na)`, cache off -/
def verifierVerify {SK PK : Type} (P : Parsers) (S : Scheme SK PK) (certs : List (Cert PK))
    (boundIA : Nat) (nb na : Int) (m : SignedMessage) (ad : List Bytes) : Bool :=
  match extract P.F m.hb with
  | none => false
  | some (h, _) =>
    match P.keyId h.keyId with
    | none => false
    | some k =>
      if k.skid.isEmpty then false
      else if boundIA ≠ 0 ∧ boundIA ≠ k.ia then false
      else if isWildcard k.ia then false
      else (chains certs k nb na).any fun c => isOk (verifyMsg P.F S m (some c.pk) ad)

/-- what `ASEntryFromPB` reads off the signed body -/
def entryView (P : Parsers) (e : RawEntry) : Option (Nat × Nat) :=
  match extract P.F e.hb with
  | none => none
  | some (_, b) => P.body b

/-- one iteration of the loop of `VerifySegment` for the entry `e` that follows `earlier` -/
def verifyEntry {SK PK : Type} (P : Parsers) (S : Scheme SK PK) (certs : List (Cert PK))
    (info : Bytes) (ts : Int) (earlier : List RawEntry) (e : RawEntry) : Bool :=
  match entryView P e with
  | none => false
  | some (ia, exp) =>
    verifierVerify P S certs ia (ts * 1000000000) (ts * 1000000000 + expDur exp) e.msg
      (assocData info earlier)

/-- the loop of `VerifySegment`: index of the first entry that fails, if any -/
def verifyFrom {SK PK : Type} (P : Parsers) (S : Scheme SK PK) (certs : List (Cert PK))
    (info : Bytes) (ts : Int) : List RawEntry → List RawEntry → Option Nat
  | _, [] => none
  | earlier, e :: rest =>
    if verifyEntry P S certs info ts earlier e then
      verifyFrom P S certs info ts (earlier ++ [e]) rest
    else some earlier.length

inductive Res
  | parseErr
  | ok
  | fail (idx : Nat)
deriving DecidableEq, Repr

/-- `segmentFromPB` followed by `segverifier.VerifySegment` -/
def verifySegment {SK PK : Type} (P : Parsers) (S : Scheme SK PK) (certs : List (Cert PK))
    (seg : RawSeg) : Res :=
  match P.info seg.info with
  | none => .parseErr
  | some ts =>
    if seg.entries.all fun e => (entryView P e).isSome then
      match verifyFrom P S certs seg.info ts [] seg.entries with
      | none => .ok
      | some i => .fail i
    else .parseErr

end Scion.SegVerify
