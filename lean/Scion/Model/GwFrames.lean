import Scion.Util.Hex
/-!
Model of the gateway's frame encapsulation (`gateway/dataplane`):

* sender: `encoder.Read` / `copyToFrame` (`encoder.go`) over the packet ring (`pktring.go`);
* receiver: `worker.processFrame` (`worker.go`), `reassemblyList.Insert / insertFirst /
  tryReassemble / collectAndWrite / removeProcessed / removeBefore` (`rlist.go`),
  `frameBuf.ProcessCompletePkts / Processed / SetProcessed` (`framebuf.go`).

A frame is (index, epoch = stream id, sequence number, payload = the bytes after the 16-byte
header); the version and session bytes of the header are not interpreted by the receiver and are
not modelled.  Offsets (`index`, `frag0Start`) are kept exactly as in the code: `frag0Start`
counts from the start of the frame (header included) and 0 means "no trailing fragment".
Core Lean only.
-/
namespace Scion.GwFrames
open Scion.Util

def hdrLen : Nat := 16
def noIndex : Nat := 0xffff
def listCap : Nat := 100

def be16 (a b : UInt8) : Nat := a.toNat * 256 + b.toNat

structure Frame where
  index : Nat
  epoch : Nat
  seq : Nat
  payload : Bytes
deriving Repr, DecidableEq

/-! ## Sender -/

/-- the validity test of `encoder.Read`: IPv4 with ≥ 20 bytes whose total-length field equals the
length, or IPv6 with ≥ 40 bytes whose payload-length field + 40 equals the length -/
def validPkt (p : Bytes) : Bool :=
  match p[0]? with
  | none => false
  | some b0 =>
    if b0.toNat / 16 = 4 then
      if p.length < 20 then false
      else match p[2]?, p[3]? with
        | some x, some y => be16 x y == p.length
        | _, _ => false
    else if b0.toNat / 16 = 6 then
      if p.length < 40 then false
      else match p[4]?, p[5]? with
        | some x, some y => 40 + be16 x y == p.length
        | _, _ => false
    else false

/-- result of filling one frame -/
structure Fill where
  payload : Bytes
  /-- `indexSet` and the value written -/
  index : Option Nat
  /-- `e.pkt` after the call -/
  res : Bytes
  /-- packets not yet taken from the ring -/
  queue : List Bytes
  sched : List Bool
  /-- the blocking read found the ring closed and empty (`Read` returns nil) -/
  eof : Bool

/-- one `ring.Read(block)` when a packet is still to come: `(gotIt, oracle')`.  A blocking read
(`pos == hdrLen`, i.e. nothing in the frame yet) waits for the packet; a non-blocking read
consults the oracle (`true` = the ring is momentarily empty); an exhausted oracle means
"available". -/
def ringRead (blocking : Bool) : List Bool → Bool × List Bool
  | [] => (true, [])
  | b :: s => if blocking then (true, b :: s) else (!b, s)

/-- `if !indexSet { index = pos - hdrLen; indexSet = true }` -/
def setIndex : Option Nat → Nat → Option Nat
  | some i, _ => some i
  | none, n => some n

/-- the `for` loop of `encoder.Read` ("read more packets and fill in as much of the frame as
possible").  `queue` = the packets still to come, `sched` = oracle for the non-blocking reads. -/
def fill (mtu : Nat) : List Bytes → List Bool → Bytes → Option Nat → Fill
  | [], sched, pl, idx => ⟨pl, idx, [], [], sched, pl.isEmpty⟩
  | p :: q, sched, pl, idx =>
    if mtu - (hdrLen + pl.length) < 40 then ⟨pl, idx, [], p :: q, sched, false⟩
    else
      match ringRead pl.isEmpty sched with
      | (false, sched') => ⟨pl, idx, [], p :: q, sched', false⟩
      | (true, sched') =>
        if !validPkt p then fill mtu q sched' pl idx
        else
          let idx' := setIndex idx pl.length
          let n := min (mtu - (hdrLen + pl.length)) p.length
          let pl' := pl ++ p.take n
          let res := p.drop n
          if res.isEmpty then fill mtu q sched' pl' idx'
          else ⟨pl', idx', res, q, sched', false⟩

/-- the index field of the header: 0xffff unless a packet starts in the frame -/
def indexField : Option Nat → Nat
  | some i => i
  | none => noIndex

structure EncSt where
  seq : Nat
  res : Bytes
deriving Repr

inductive ReadOut
  /-- a frame was produced -/
  | frame (f : Frame) (st : EncSt) (queue : List Bytes) (sched : List Bool)
  /-- the blocking read found nothing (ring closed: `Read` returns nil; ring open: it would block) -/
  | nothing (st : EncSt) (sched : List Bool)

/-- `encoder.Read` -/
def readFrame (mtu epoch : Nat) (st : EncSt) (queue : List Bytes) (sched : List Bool) : ReadOut :=
  let seq' := st.seq + 1
  if !st.res.isEmpty then
    let n := min (mtu - hdrLen) st.res.length
    let pl := st.res.take n
    let res := st.res.drop n
    if !res.isEmpty then .frame ⟨noIndex, epoch, st.seq, pl⟩ ⟨seq', res⟩ queue sched
    else
      let r := fill mtu queue sched pl none
      .frame ⟨indexField r.index, epoch, st.seq, r.payload⟩ ⟨seq', r.res⟩ r.queue r.sched
  else
    let r := fill mtu queue sched [] none
    if r.eof then .nothing ⟨seq', []⟩ r.sched
    else .frame ⟨indexField r.index, epoch, st.seq, r.payload⟩ ⟨seq', r.res⟩ r.queue r.sched

/-- all frames the sender produces for the packet sequence `pkts` (then the ring is closed);
`fuel` bounds the number of `Read` calls -/
def encodeF (mtu epoch : Nat) : Nat → EncSt → List Bytes → List Bool → List Frame
  | 0, _, _, _ => []
  | fuel + 1, st, queue, sched =>
    match readFrame mtu epoch st queue sched with
    | .nothing _ _ => []
    | .frame f st' queue' sched' => f :: encodeF mtu epoch fuel st' queue' sched'

def totalLen (pkts : List Bytes) : Nat := (pkts.map (fun p => p.length + 1)).sum

/-- every `Read` consumes a byte of the residual packet or a packet of the queue -/
def encode (mtu : Nat) (pkts : List Bytes) (sched : List Bool) : List Frame :=
  encodeF mtu 0 (totalLen pkts + 1) ⟨0, []⟩ pkts sched

/-! ## Receiver -/

structure FB where
  seq : Nat
  index : Nat
  payload : Bytes
  frag0Start : Nat
  pktLen : Nat
  frag0Processed : Bool
  fragNProcessed : Bool
  completePktsProcessed : Bool
deriving Repr, DecidableEq

def FB.frameLen (fb : FB) : Nat := hdrLen + fb.payload.length

/-- the packet length `ProcessCompletePkts` reads from the header at the start of `bs`
(`none`: unknown version, header not completely there, or IPv4 total length < 20) -/
def declLen (bs : Bytes) : Option Nat :=
  match bs[0]? with
  | none => none
  | some b0 =>
    if b0.toNat / 16 = 4 then
      if bs.length < 20 then none
      else match bs[2]?, bs[3]? with
        | some x, some y => if be16 x y < 20 then none else some (be16 x y)
        | _, _ => none
    else if b0.toNat / 16 = 6 then
      if bs.length < 40 then none
      else match bs[4]?, bs[5]? with
        | some x, some y => some (be16 x y + 40)
        | _, _ => none
    else none

structure Scan where
  /-- packets written to the wire -/
  out : List Bytes
  /-- bytes consumed by them -/
  consumed : Nat
  /-- declared length of the incomplete packet that follows, if the loop ended with `break` -/
  frag : Option Nat

/-- the loop of `ProcessCompletePkts` over the bytes from `offset` to the end of the frame -/
def scan (bs : Bytes) : Scan :=
  if _h : bs.length = 0 then ⟨[], 0, none⟩
  else
    match _hd : declLen bs with
    | none => ⟨[], 0, none⟩
    | some l =>
      if _hl : bs.length < l then ⟨[], 0, some l⟩
      else if _h0 : l = 0 then ⟨[], 0, none⟩ -- unreachable: declared lengths are ≥ 20
      else
        let r := scan (bs.drop l)
        ⟨bs.take l :: r.out, l + r.consumed, r.frag⟩
termination_by bs.length
decreasing_by simp only [List.length_drop]; omega

/-- `frameBuf.ProcessCompletePkts` -/
def processCompletePkts (fb : FB) : FB × List Bytes :=
  if fb.completePktsProcessed || fb.index == noIndex then
    ({ fb with completePktsProcessed := true }, [])
  else
    let s := scan (fb.payload.drop fb.index)
    let offset := fb.index + hdrLen + s.consumed
    let fb1 : FB := match s.frag with
      | some l => if offset < fb.frameLen then { fb with frag0Start := offset, pktLen := l } else fb
      | none => fb
    ({ fb1 with completePktsProcessed := true, frag0Processed := fb1.frag0Start == 0 }, s.out)

def FB.processed (fb : FB) : Bool :=
  fb.completePktsProcessed && fb.fragNProcessed && (fb.frag0Start == 0 || fb.frag0Processed)

def FB.setProcessed (fb : FB) : FB :=
  { fb with completePktsProcessed := true, fragNProcessed := true, frag0Processed := true }

/-- `reassemblyList.insertFirst` -/
def insertFirst (fb : FB) : List FB × List Bytes :=
  let (fb', out) := processCompletePkts fb
  if fb'.frag0Start != 0 then ([fb'], out) else ([], out)

inductive Verdict | can | framingError | wait
deriving DecidableEq, Repr

/-- the loop of `tryReassemble` over the frames after the first -/
def reassembleScan (pktLen : Nat) : Nat → List FB → Verdict
  | _, [] => .wait
  | bytes, fb :: rest =>
    let bytes' := bytes + (fb.frameLen - hdrLen)
    if bytes' ≥ pktLen then .can
    else if fb.index != noIndex then .framingError
    else reassembleScan pktLen bytes' rest

/-- the collecting loop of `collectAndWrite`: returns the buffer, the frames visited (marked
`fragNProcessed`), the frames not visited -/
def collect (pktLen : Nat) : Bytes → List FB → Bytes × List FB × List FB
  | buf, [] => (buf, [], [])
  | buf, fb :: rest =>
    if buf.length < pktLen then
      let missing := pktLen - buf.length
      let buf' := buf ++ fb.payload.take (min (missing + hdrLen) fb.frameLen - hdrLen)
      let (b, vis, unvis) := collect pktLen buf' rest
      (b, { fb with fragNProcessed := true } :: vis, unvis)
    else (buf, [], fb :: rest)

/-- `collectAndWrite` for a list `start :: rest` with `rest ≠ []` -/
def collectAndWrite (start : FB) (rest : List FB) : List FB × List Bytes :=
  let buf0 := start.payload.drop (start.frag0Start - hdrLen)
  let start' := start.setProcessed
  let (buf, vis, unvis) := collect start.pktLen buf0 rest
  let out1 := if buf.length = start.pktLen then [buf] else []
  -- `frame.ProcessCompletePkts` on the last frame visited
  match vis.reverse with
  | [] => ((start' :: unvis).filter (fun fb => !fb.processed), out1) -- unreachable (see Props)
  | last :: before =>
    let (last', out2) := processCompletePkts last
    ((start' :: (before.reverse ++ last' :: unvis)).filter (fun fb => !fb.processed), out1 ++ out2)

/-- `tryReassemble` -/
def tryReassemble (entries : List FB) : List FB × List Bytes :=
  match entries with
  | [] => ([], [])
  | [fb] => ([fb], [])
  | start :: rest =>
    if start.frag0Start == 0 then ([], []) -- "should never happen": remove all
    else
      match reassembleScan start.pktLen (start.frameLen - start.frag0Start) rest with
      | .can => collectAndWrite start rest
      | .framingError => (match rest.getLast? with | some l => [l] | none => [], [])
      | .wait => (entries, [])

def lastSeq : List FB → Nat
  | [] => 0
  | [fb] => fb.seq
  | _ :: r => lastSeq r

/-- `reassemblyList.Insert` -/
def insert (entries : List FB) (fb : FB) : List FB × List Bytes :=
  match entries with
  | [] => insertFirst fb
  | first :: _ =>
    if fb.seq < first.seq then (entries, []) -- too old
    else if fb.seq ≤ lastSeq entries then (entries, []) -- duplicate
    else if fb.seq > lastSeq entries + 1 then insertFirst fb -- gap: evict all
    else if entries.length = listCap then insertFirst fb -- capacity: evict all
    else tryReassemble (entries ++ [fb])

/-- `worker.processFrame`: the frame buffer as initialised from the header -/
def newFB (f : Frame) : FB :=
  { seq := f.seq, index := f.index, payload := f.payload, frag0Start := 0, pktLen := 0,
    frag0Processed := false, fragNProcessed := f.index == 0,
    completePktsProcessed := f.index == noIndex }

/-- the worker's reassembly lists, by epoch -/
abbrev Worker := List (Nat × List FB)

def getRlist (w : Worker) (epoch : Nat) : List FB :=
  match w with
  | [] => []
  | (e, l) :: r => if e = epoch then l else getRlist r epoch

def setRlist (w : Worker) (epoch : Nat) (l : List FB) : Worker :=
  match w with
  | [] => [(epoch, l)]
  | (e, l') :: r => if e = epoch then (e, l) :: r else (e, l') :: setRlist r epoch l

def processFrame (w : Worker) (f : Frame) : Worker × List Bytes :=
  let (l, out) := insert (getRlist w f.epoch) (newFB f)
  (setRlist w f.epoch l, out)

/-- everything the receiver writes to the local network for a sequence of frames -/
def decodeFrom (w : Worker) : List Frame → List Bytes
  | [] => []
  | f :: fs =>
    let (w', out) := processFrame w f
    out ++ decodeFrom w' fs

def decode (fs : List Frame) : List Bytes := decodeFrom [] fs

end Scion.GwFrames
