/-!
Model of `control/beacon/selection_algo.go`: `baseAlgo.SelectBeacons`, `selectMostDiverse`, and
`Beacon.Diversity` (`control/beacon/beacon.go`).

A beacon is abstracted to its identity (`InIfID`, used by the harness as a unique tag) and the
list of links `(Local IA, ConsEgress)` of its AS entries — the only data the algorithm reads
(`link(entry)` and `len(b.Segment.ASEntries)`).  Segments are non-nil (a nil segment makes the
Go code dereference nil in `selectMostDiverse`; the control service never stores one).
Core Lean only.
-/
namespace Scion.Select

abbrev Link := Nat × Nat

structure Beacon where
  inIf : Nat
  links : List Link
deriving DecidableEq, Repr

/-- `Beacon{}` (what `selectMostDiverse` starts from) -/
def Beacon.zero : Beacon := ⟨0, []⟩

def Beacon.len (b : Beacon) : Nat := b.links.length

/-- `Beacon.Diversity`: number of links of `b` that do not appear in `other`. -/
def diversity (b other : Beacon) : Nat :=
  (b.links.filter fun l => !other.links.contains l).length

/-- loop state of `selectMostDiverse`: `diverse, minLen, maxDiversity` -/
structure Acc where
  diverse : Beacon
  minLen : Nat
  maxDiv : Int
deriving DecidableEq, Repr

/-- `math.MaxUint16` -/
def maxUint16 : Nat := 65535

def Acc.init : Acc := ⟨Beacon.zero, maxUint16, -1⟩

/-- one iteration of the loop in `selectMostDiverse` -/
def mdStep (best : Beacon) (a : Acc) (b : Beacon) : Acc :=
  if (diversity best b : Int) > a.maxDiv ∨ ((diversity best b : Int) = a.maxDiv ∧ a.minLen > b.len)
  then ⟨b, b.len, diversity best b⟩
  else a

/-- `baseAlgo.selectMostDiverse(beacons, best)` -/
def selectMostDiverse (bs : List Beacon) (best : Beacon) : Beacon × Int :=
  match bs with
  | [] => (Beacon.zero, -1)
  | b :: rest =>
    let a := (b :: rest).foldl (mdStep best) Acc.init
    (a.diverse, a.maxDiv)

/-- the part of `SelectBeacons` after the two early returns (`resultSize ≥ 2`, more candidates
than `resultSize`); `k1 = resultSize - 1 ≥ 1`.  `none` = `result[0]` out of range (panic). -/
def selectMain (bs : List Beacon) (k1 : Nat) : Option (List Beacon) :=
  let result := bs.take k1
  match result, bs.drop k1 with
  | r0 :: _, next :: rest' =>
    let (_, dv) := selectMostDiverse result r0
    let (mostDiverseRest, dvRest) := selectMostDiverse (next :: rest') r0
    if dvRest > dv then some (result ++ [mostDiverseRest])
    else some (result ++ [next])
  | _, _ => none

/-- `baseAlgo.SelectBeacons(_, beacons, resultSize)`; `none` = run-time panic. -/
def select (k : Int) (bs : List Beacon) : Option (List Beacon) :=
  if (bs.length : Int) ≤ k then some bs
  else if k ≤ 1 then some (bs.take (max k 0).toNat)
  else selectMain bs (k - 1).toNat

end Scion.Select
