import Scion.Util.Hex
import Scion.Model.PathMeta
/-!
Model of the router's slow path (`router/dataplane.go`):
`slowPathPacketProcessor.{processPacket, handleSCMPTraceRouteRequest, packSCMP, prepareSCMP}`,
the fast path's table "detected problem ↦ (SCMP type, code, pointer)" (`validate*`, `resp*`,
`resolveInbound`, `currentHopPointer`, `currentInfoPointer`), `slayers.ScmpHeaderSize`, and
`udpip.computeProcID`.

The offending packet is given *parsed* (the fields the slow path reads after `decodeLayers`); the
reply is a record of the fields of the SCION/SCMP headers the code serialises, its sizes and where
it is placed in the packet buffer.  Every slice/index expression of the Go code whose range is not
checked by the Go code itself is an explicit `panic` outcome here; `Scion.C08` proves that it is
unreachable for the packets the fast path hands over.  Core Lean only.
-/
namespace Scion.Scmp
open Scion.Util Scion.PathMeta

/-! ### constants (tied to /repo by `Scion.C09.gen_consts`) -/
def cmnHdrLen : Nat := 12
def lineLen : Nat := 4
def iaBytes : Nat := 8
def maxHdrLen : Nat := 1020
def maxSCMPPacketLen : Nat := 1232
def e2eAuthHdrLen : Nat := 32
def metaLen : Nat := 4
def infoLen : Nat := 8
def hopLen : Nat := 12
def bufSize : Nat := 9000

/-- L4 protocol numbers (`pkg/slayers/l4.go`) -/
def l4SCMP : Nat := 202
def l4E2E : Nat := 201

/-- `AddrType.Length`: `LineLen * (1 + (int(tl) & 0x3))` -/
def addrTypeLen (t : Nat) : Nat := lineLen * (1 + t % 4)

/-- `SCION.AddrHdrLen` -/
def addrHdrLen (dstT srcT : Nat) : Nat := 2 * iaBytes + addrTypeLen dstT + addrTypeLen srcT

/-- `scion.Decoded.Len` / `scion.Base.Len` -/
def pathLen (numINF numHops : Nat) : Nat := metaLen + infoLen * numINF + hopLen * numHops

/-- `slayers.ScmpHeaderSize` -/
def scmpHeaderSize (t : Nat) : Nat :=
  if t = 5 then 20 else if t = 6 then 28 else if t = 130 then 24 else if t = 131 then 24 else 8

/-- serialised size of the info block the router writes for SCMP type `t`
(`SCMPParameterProblem`, `SCMPDestinationUnreachable`, `SCMPExternalInterfaceDown`,
`SCMPInternalConnectivityDown`, `SCMPTraceroute` `.SerializeTo`). -/
def infoBlockLen (t : Nat) : Nat :=
  if t = 5 then 16 else if t = 6 then 24 else if t = 131 then 20 else 4

/-- `ParseAddr` succeeds exactly for T4Ip (0), T4Svc (4), T16Ip (3). -/
def addrParsable (t : Nat) : Bool := t == 0 || t == 4 || t == 3

/-! ### parsed packets -/

structure InfoF where
  consDir : Bool
  peer : Bool
  segID : Nat
  ts : Nat
deriving DecidableEq, Repr

inductive Scope | internal | sibling | ext
deriving DecidableEq, Repr

/-- what `lastLayer.NextLayerType()/LayerPayload()` look like to `packSCMP` /
`handleSCMPTraceRouteRequest`: not SCMP; SCMP shorter than its 4-byte header; SCMP with type, code
and `plen` bytes after the header. -/
inductive L4
  | other
  | scmpShort
  | scmp (typ code plen : Nat)
deriving DecidableEq, Repr

structure Offender where
  raw : Bytes            -- pkt.RawPacket as handed to the slow path (only its length matters)
  pathType : Nat         -- 1 = SCION, 3 = EPIC (everything else is refused)
  flowID : Nat
  tc : Nat
  srcIA : Nat
  srcType : Nat          -- SrcAddrType (4 bits)
  rawSrc : Bytes
  pmWord : Nat           -- the 32-bit path meta line
  infos : List InfoF
  hops : List Bytes      -- 12-byte hop fields; bytes 6,7 are the first two MAC bytes
  l4 : L4
  trID : Nat             -- traceroute request identifier / sequence (when l4 is a request)
  trSeq : Nat
  reqAuthValid : Bool    -- result of `hasValidAuth` on the offending packet

structure Cfg where
  localIA : Nat
  hostType : Nat         -- address type of the router's own host address (SetSrcAddr)
  rawHost : Bytes
  auth : Bool            -- ExperimentalSCMPAuthentication
  underlayHeadroom : Nat

/-- `slowPathRequest` + the packet meta data the slow path reads -/
structure Request where
  spType : Int           -- ≥ 0: SCMP type; -1 / -2: ingress / egress router alert
  code : Nat
  pointer : Nat
  ingress : Nat          -- pkt.Link.IfID()
  egress : Nat           -- pkt.egress

structure Reply where
  total : Nat            -- len(pkt.RawPacket) afterwards
  hdrLenField : Nat      -- SCION HdrLen (4-byte lines)
  payloadLen : Nat       -- SCION PayloadLen
  nextHdr : Nat
  pathType : Nat
  flowID : Nat
  tc : Nat
  dstIA : Nat
  srcIA : Nat
  dstType : Nat
  srcType : Nat
  rawDst : Bytes
  rawSrc : Bytes
  numINF : Nat
  numHops : Nat
  pm : Hdr
  infos : List InfoF
  hops : List Bytes
  scmpType : Nat
  scmpCode : Nat
  info : List Nat        -- info block fields in wire order
  auth : Bool            -- an E2E extension with the SPAO option precedes the SCMP header
  isError : Bool
  quote : Bytes          -- the data block
  front : Bool           -- serialised in front of the quoted packet (else at the end of the buffer)
  off : Nat              -- offset of the reply within the packet buffer

inductive Outcome
  | emit (r : Reply)
  | drop (why : String)
  | panic (why : String)

/-! ### path handling of `prepareSCMP` -/

/-- `determinePeer` -/
def determinePeer (m : Hdr) (peerFlag : Bool) : Option Bool :=
  if !peerFlag then some false
  else if m.s0 = 0 then none
  else if m.s1 = 0 then none
  else if m.s2 ≠ 0 then none
  else some (m.currHF + 1 == m.s0 || m.currHF == m.s0)

def flipInfo (i : InfoF) : InfoF := { i with consDir := !i.consDir }

def be16 (bs : Bytes) : Option Nat :=
  match bs with
  | a :: b :: _ => some (a.toNat * 256 + b.toNat)
  | _ => none

structure RevPath where
  b : Base
  infos : List InfoF
  hops : List Bytes

inductive Step (α : Type)
  | ok (a : α)
  | drop (why : String)
  | panic (why : String)

/-- `path.ToDecoded(); decPath.Reverse(); determinePeer(...)`, the cross-over revert. -/
def reversePath (o : Offender) : Step (RevPath × Bool) :=
  match baseDecode (decode o.pmWord) with
  | none => .drop "decode"
  | some b =>
    match reverseMeta b with
    | none => .drop "reverse"
    | some rb =>
      let rinfos := (o.infos.reverse).map flipInfo
      let rhops := o.hops.reverse
      match rinfos[rb.pm.currINF]? with
      | none => .panic "InfoFields[CurrINF]"
      | some inf =>
        match determinePeer rb.pm inf.peer with
        | none => .drop "peer"
        | some peering =>
          if isXover rb && !peering then
            match incPath rb with
            | .error _ => .drop "xover"
            | .ok rb' => .ok (⟨rb', rinfos, rhops⟩, peering)
          else .ok (⟨rb, rinfos, rhops⟩, peering)

/-- `if infoField.ConsDir && !peering { infoField.UpdateSegID(hopField.Mac) }` -/
def updSegID (rp : RevPath) (inf : InfoF) (peering : Bool) : Step (List InfoF) :=
  if inf.consDir && !peering then
    match rp.hops[rp.b.pm.currHF]? with
    | none => .panic "HopFields[CurrHF]"
    | some hop =>
      match be16 (hop.drop 6) with
      | none => .panic "hop.Mac[:2]"
      | some m => .ok (rp.infos.set rp.b.pm.currINF { inf with segID := inf.segID ^^^ m })
  else .ok rp.infos

/-- `if p.pkt.Link.Scope() == External { UpdateSegID; IncPath }` -/
def externalStep (scope : Scope) (rp : RevPath) (peering : Bool) : Step RevPath :=
  if scope ≠ Scope.ext then .ok rp
  else
    match rp.infos[rp.b.pm.currINF]? with
    | none => .panic "InfoFields[CurrINF]"
    | some inf =>
      match updSegID rp inf peering with
      | .panic w => .panic w
      | .drop w => .drop w
      | .ok infos' =>
        match incPath rp.b with
        | .error _ => .drop "incpath"
        | .ok b' => .ok ⟨b', infos', rp.hops⟩

/-! ### sizes -/

/-- `hdrLen` of `prepareSCMP` -/
def hdrLen (dstT srcT numINF numHops typ : Nat) (needsAuth : Bool) : Nat :=
  cmnHdrLen + addrHdrLen dstT srcT + pathLen numINF numHops + scmpHeaderSize typ +
    (if needsAuth then e2eAuthHdrLen else 0)

/-- `quoteLen` of `prepareSCMP` (for `hdrLen ≤ MaxSCMPPacketLen`) -/
def quoteLen (len hdr : Nat) : Nat := min len (maxSCMPPacketLen - hdr)

/-- what is really serialised in front of the quote: SCION header, optional E2E extension with the
authenticator option, 4-byte SCMP header, info block. -/
def actualHdrLen (dstT srcT numINF numHops typ : Nat) (needsAuth : Bool) : Nat :=
  cmnHdrLen + addrHdrLen dstT srcT + pathLen numINF numHops + (4 + infoBlockLen typ) +
    (if needsAuth then e2eAuthHdrLen else 0)

/-! ### `prepareSCMP` -/

def infoBlock (cfg : Cfg) (rq : Request) (typ : Nat) (trID trSeq trIf : Nat) : List Nat :=
  if typ = 4 then [rq.pointer]
  else if typ = 5 then [cfg.localIA, rq.egress]
  else if typ = 6 then [cfg.localIA, rq.ingress, rq.egress]
  else if typ = 131 then [trID, trSeq, cfg.localIA, trIf]
  else []

/-- sizes and placement of the reply in the packet buffer -/
structure Sizes where
  total : Nat
  quote : Bytes
  front : Bool
  off : Nat

/-- the `if isError { ... } else { ... }` part of `prepareSCMP`: how much is quoted and where the
message is serialised. `dstT`/`srcT` are the reply's address types, `ni`/`nh` its path's counts. -/
def placement (cfg : Cfg) (headroom : Nat) (raw : Bytes) (dstT srcT ni nh typ : Nat)
    (needsAuth isError : Bool) : Step Sizes :=
  let hl := hdrLen dstT srcT ni nh typ needsAuth
  let ahl := actualHdrLen dstT srcT ni nh typ needsAuth
  if isError then
    if maxSCMPPacketLen < hl then .panic "RawPacket[:quoteLen<0]"
    else if hl + cfg.underlayHeadroom > headroom then
      -- pack at the end of the buffer
      if ahl + quoteLen raw.length hl > bufSize - headroom then .panic "prepend-before-slice-start"
      else .ok ⟨ahl + quoteLen raw.length hl, raw.take (quoteLen raw.length hl), false,
                bufSize - (ahl + quoteLen raw.length hl)⟩
    else if quoteLen raw.length hl + headroom > bufSize then .panic "buffer[0:quoteLen+headroom]"
    else if ahl > headroom then .panic "prepend-before-buffer-start"
    else .ok ⟨ahl + quoteLen raw.length hl, raw.take (quoteLen raw.length hl), true, headroom - ahl⟩
  else if ahl > bufSize - headroom then .panic "prepend-before-slice-start"
  else .ok ⟨ahl, [], false, bufSize - ahl⟩

/-- the authenticator and `scionL.SerializeTo` part of `prepareSCMP` -/
def finish (cfg : Cfg) (o : Offender) (rq : Request) (rp : RevPath) (typ code : Nat)
    (isError needsAuth : Bool) (trIf : Nat) (sz : Sizes) : Outcome :=
  if needsAuth && !addrParsable o.srcType then .drop "dstaddr"
  else if cmnHdrLen + addrHdrLen o.srcType cfg.hostType + pathLen rp.b.numINF rp.b.numHops > maxHdrLen then
    .drop "hdrlen"
  else if (cmnHdrLen + addrHdrLen o.srcType cfg.hostType + pathLen rp.b.numINF rp.b.numHops) % lineLen ≠ 0 then
    .drop "hdralign"
  else .emit {
    total := sz.total,
    hdrLenField := (cmnHdrLen + addrHdrLen o.srcType cfg.hostType + pathLen rp.b.numINF rp.b.numHops) / lineLen,
    payloadLen := sz.total - (cmnHdrLen + addrHdrLen o.srcType cfg.hostType + pathLen rp.b.numINF rp.b.numHops),
    nextHdr := bif needsAuth then l4E2E else l4SCMP, pathType := 1,
    flowID := o.flowID, tc := o.tc, dstIA := o.srcIA, srcIA := cfg.localIA,
    dstType := o.srcType, srcType := cfg.hostType, rawDst := o.rawSrc, rawSrc := cfg.rawHost,
    numINF := rp.b.numINF, numHops := rp.b.numHops, pm := rp.b.pm,
    infos := rp.infos, hops := rp.hops, scmpType := typ, scmpCode := code,
    info := infoBlock cfg rq typ o.trID o.trSeq trIf, auth := needsAuth,
    isError := isError, quote := sz.quote, front := sz.front, off := sz.off }

/-- `needsAuth` of `prepareSCMP` -/
def needsAuth (cfg : Cfg) (o : Offender) (typ : Nat) (isError : Bool) : Bool :=
  cfg.auth && (isError || (typ == 131 && o.reqAuthValid))

def prepareSCMP (cfg : Cfg) (scope : Scope) (headroom : Nat) (o : Offender) (rq : Request)
    (typ code : Nat) (isError : Bool) (trIf : Nat) : Outcome :=
  match reversePath o with
  | .drop w => .drop w
  | .panic w => .panic w
  | .ok (rp0, peering) =>
    match externalStep scope rp0 peering with
    | .drop w => .drop w
    | .panic w => .panic w
    | .ok rp =>
      match placement cfg headroom o.raw o.srcType cfg.hostType rp.b.numINF rp.b.numHops typ
              (needsAuth cfg o typ isError) isError with
      | .drop w => .drop w
      | .panic w => .panic w
      | .ok sz => finish cfg o rq rp typ code isError (needsAuth cfg o typ isError) trIf sz

/-- `packSCMP` -/
def packSCMP (cfg : Cfg) (scope : Scope) (headroom : Nat) (o : Offender) (rq : Request)
    (typ code : Nat) (isError : Bool) (trIf : Nat) : Outcome :=
  match o.l4 with
  | .scmpShort => .drop "scmp-short"
  | .scmp t _ _ =>
    if t < 128 then .drop "err-on-err"
    else prepareSCMP cfg scope headroom o rq typ code isError trIf
  | .other => prepareSCMP cfg scope headroom o rq typ code isError trIf

/-- `handleSCMPTraceRouteRequest` -/
def traceroute (cfg : Cfg) (scope : Scope) (headroom : Nat) (o : Offender) (rq : Request)
    (ifID : Nat) : Outcome :=
  match o.l4 with
  | .other => .drop "alert-not-scmp"
  | .scmpShort => .drop "alert-scmp-short"
  | .scmp t c plen =>
    if t ≠ 130 ∨ c ≠ 0 then .drop "alert-not-traceroute"
    else if plen < 20 then .drop "traceroute-short"
    else packSCMP cfg scope headroom o rq 131 0 false ifID

/-- `slowPathPacketProcessor.processPacket` (after a successful `decodeLayers`) -/
def processPacket (cfg : Cfg) (scope : Scope) (headroom : Nat) (o : Offender) (rq : Request) :
    Outcome :=
  if o.pathType ≠ 1 ∧ o.pathType ≠ 3 then .drop "pathtype"
  else if rq.spType = -1 then traceroute cfg scope headroom o rq rq.ingress
  else if rq.spType = -2 then traceroute cfg scope headroom o rq rq.egress
  else
    let t := rq.spType.toNat
    if t = 4 ∨ t = 1 ∨ t = 5 ∨ t = 6 then packSCMP cfg scope headroom o rq t rq.code true 0
    else .panic "unsupported slow-path type"

/-! ### detected problem ↦ (type, code, pointer) -/

inductive Cause
  | pathExpired | ingressMismatch | badPktLen | invalidSrcIA | invalidDstIA | invalidSrcHost
  | badMac | noSvcBackend | invalidDstHost | unknownEgress | invalidPath | invalidSegChange
  | extIfDown | intConnDown
deriving DecidableEq, Repr

inductive PtrKind | zero | hop | info | cmnHdr | srcIA
deriving DecidableEq, Repr

/-- (type, code, pointer kind) the fast path puts into `slowPathRequest`; `consDir` is the
direction flag of the current info field. -/
def causeTable (c : Cause) (consDir : Bool) : Nat × Nat × PtrKind :=
  match c with
  | .pathExpired => (4, 52, .hop)
  | .ingressMismatch => (4, if consDir then 49 else 50, .hop)
  | .badPktLen => (4, 19, .zero)
  | .invalidSrcIA => (4, 33, .srcIA)
  | .invalidDstIA => (4, 34, .cmnHdr)
  | .invalidSrcHost => (4, 33, .zero)
  | .badMac => (4, 51, .hop)
  | .noSvcBackend => (1, 0, .zero)
  | .invalidDstHost => (4, 34, .zero)
  | .unknownEgress => (4, if consDir then 50 else 49, .hop)
  | .invalidPath => (4, 48, .hop)
  | .invalidSegChange => (4, 53, .info)
  | .extIfDown => (5, 0, .zero)
  | .intConnDown => (6, 0, .zero)

/-- `epic.MetadataLen`: packet id, PHVF, LHVF in front of the SCION path of an EPIC packet -/
def epicMetadataLen : Nat := 16

/-- offset of the SCION path meta line in the packet (`pathOffset` of the router): behind the
EPIC metadata for EPIC packets -/
def pathOffset (addrHdr : Nat) (epic : Bool) : Nat :=
  cmnHdrLen + addrHdr + (if epic then epicMetadataLen else 0)

/-- `currentHopPointer` -/
def hopPointer (addrHdr numINF currHF : Nat) (epic : Bool) : Nat :=
  pathOffset addrHdr epic + metaLen + infoLen * numINF + hopLen * currHF

/-- `currentInfoPointer` -/
def infoPointer (addrHdr currINF : Nat) (epic : Bool) : Nat :=
  pathOffset addrHdr epic + metaLen + infoLen * currINF

def pointerOf (k : PtrKind) (addrHdr numINF currINF currHF : Nat) (epic : Bool) : Nat :=
  match k with
  | .zero => 0
  | .hop => hopPointer addrHdr numINF currHF epic
  | .info => infoPointer addrHdr currINF epic
  | .cmnHdr => cmnHdrLen
  | .srcIA => cmnHdrLen + iaBytes

/-! ### `udpip.computeProcID` -/

def l4Known (b : Nat) : Bool :=
  b == 6 || b == 17 || b == 202 || b == 203 || b == 200 || b == 201 || b == 253 || b == 254

def fnv1a (s c : Nat) : Nat := ((s ^^^ c) * 16777619) % 2^32

inductive ProcID
  | reject
  | ok (id : Nat)
  | panic
deriving DecidableEq, Repr

/-- `computeProcID(data, n, seed)`; `panic` stands for an index out of range or `% 0`. -/
def computeProcID (data : Bytes) (n seed : Nat) : ProcID :=
  if data.length < cmnHdrLen then .reject
  else
    match data[4]?, data[9]?, data[1]? with
    | some nh, some aty, some b1 =>
      if !l4Known nh.toNat then .reject
      else
        let addrLen := 2 * iaBytes + addrTypeLen (aty.toNat / 16 % 16) + addrTypeLen (aty.toNat % 16)
        if data.length < cmnHdrLen + addrLen then .reject
        else
          let flow := (data.drop 2).take 2
          let addrs := (data.drop cmnHdrLen).take addrLen
          if flow.length ≠ 2 ∨ addrs.length ≠ addrLen then .panic
          else if n = 0 then .panic
          else
            let s := fnv1a seed (b1.toNat % 16)
            let s := flow.foldl (fun s c => fnv1a s c.toNat) s
            let s := addrs.foldl (fun s c => fnv1a s c.toNat) s
            .ok (s % n)
    | _, _, _ => .panic

/-! ### `pkg/stun`: `Is`, `ParseBindingRequest`, `foreachAttr` (the internal link's non-SCION branch)

Slices are taken with `slice?`, which fails when the Go slice expression would panic. -/

/-- `b[i:j]`; `none` iff Go panics (`i > j` or `j > len(b)`) -/
def slice? (b : Bytes) (i j : Nat) : Option Bytes :=
  if i ≤ j ∧ j ≤ b.length then some ((b.drop i).take (j - i)) else none

def stunHeaderLen : Nat := 20
def stunMagic : Bytes := [0x21, 0x12, 0xa4, 0x42]
def stunFingerprintAttr : Nat := 0x8028

/-- `stun.Is` -/
def stunIs (b : Bytes) : Bool :=
  decide (b.length ≥ stunHeaderLen) &&
  (match b[0]? with | some x => x.toNat / 64 == 0 | none => false) &&
  ((b.drop 4).take 4 == stunMagic)

inductive StunRes
  | notStun | notBinding | malformed | noFingerprint
  | crc (n : Nat)      -- reached the fingerprint comparison over the first `n` bytes
  | panic
deriving DecidableEq, Repr

/-- `foreachAttr` with the callback of `ParseBindingRequest`: returns the type of the last
attribute (0 if none); `none` = `ErrMalformedAttrs`; `panic` if a slice is out of range.
`fuel` bounds the loop (every iteration consumes at least 4 bytes). -/
def stunAttrs : Nat → Bytes → Nat → Option (Option Nat)
  | 0, _, _ => some none          -- unreachable with fuel ≥ length
  | fuel+1, b, last =>
    if b.length = 0 then some (some last)
    else if b.length < 4 then some none
    else
      match slice? b 0 2, slice? b 2 4 with
      | some ty, some ln =>
        let attrLen := beNat ln
        let withPad := (attrLen + 3) / 4 * 4
        match slice? b 4 b.length with
        | none => none
        | some b' =>
          if withPad > b'.length then some none
          else
            match slice? b' 0 attrLen, slice? b' withPad b'.length with
            | some _, some rest => stunAttrs fuel rest (beNat ty)
            | _, _ => none
      | _, _ => none

/-- `ParseBindingRequest` up to (not including) the CRC-32 comparison -/
def stunParse (b : Bytes) : StunRes :=
  if !stunIs b then .notStun
  else
    match slice? b 0 2 with
    | none => .panic
    | some ty =>
      if ty ≠ [0, 1] then .notBinding
      else
        match slice? b 8 20, slice? b stunHeaderLen b.length with
        | some _, some attrs =>
          match stunAttrs (attrs.length + 1) attrs 0 with
          | none => .panic
          | some none => .malformed
          | some (some last) =>
            if last ≠ stunFingerprintAttr then .noFingerprint
            else
              match slice? b 0 (b.length - 8) with
              | some pre => .crc pre.length
              | none => .panic
        | _, _ => .panic

end Scion.Scmp
