/-!
Model of the gateway's routing decisions:

* `gateway/dataplane/routingtable.go`: `NewRoutingTable`, `SetSession`, `ClearSession`,
  `RoutingTable.route`, `entry.route`;
* `gateway/dataplane/ipforwarder.go`: the per-packet decision of `IPForwarder.Run`;
* `gateway/routing`: `SingleIAMatcher/NegatedIAMatcher.Match`, `NetworkMatcher.IPSet`,
  `Policy.Match` (sets of addresses as membership predicates), `AdvertiseList`.

Addresses are (family, value) with the value a `Nat`; prefixes are (family, address bits, length);
`contains` compares the top `len` bits of both sides, as `IPNet.Contains` / netipx ranges do.
The traffic-class type and its evaluation are parameters (instantiated with `Scion.Pktcls`
by the driver).  Core Lean only.
-/
namespace Scion.GwRouting

inductive Fam | v4 | v6
deriving DecidableEq, Repr

def Fam.width : Fam → Nat
  | .v4 => 32
  | .v6 => 128

structure Addr where
  fam : Fam
  val : Nat
deriving DecidableEq, Repr

structure Prefix where
  fam : Fam
  bits : Nat
  len : Nat
deriving DecidableEq, Repr

/-- the network number: the top `len` bits -/
def Prefix.net (p : Prefix) : Nat := p.bits / 2 ^ (p.fam.width - p.len)

def Prefix.contains (p : Prefix) (a : Addr) : Bool :=
  p.fam == a.fam && a.val / 2 ^ (p.fam.width - p.len) == p.net

/-- two prefixes denote the same network -/
def Prefix.same (p q : Prefix) : Bool :=
  p.fam == q.fam && p.len == q.len && p.net == q.net

/-! ## Routing table -/

structure SubEntry (C : Type) where
  cls : C
  sess : Option Nat

structure Entry (C : Type) where
  pfx : Prefix
  table : List (SubEntry C)

/-- `entry.route`: session of the first sub-entry whose class matches (which may be nil) -/
def entryRoute {C : Type} (ev : C → Bool) : List (SubEntry C) → Option Nat
  | [] => none
  | s :: ss => if ev s.cls then s.sess else entryRoute ev ss

/-- one iteration of the loop of `RoutingTable.route`; state = (`highestMask`, `ret`) -/
def routeStep {C : Type} (ev : C → Bool) (dst : Addr) (st : Nat × Option Nat) (e : Entry C) :
    Nat × Option Nat :=
  if !e.pfx.contains dst then st
  else if e.pfx.len < st.1 then st
  else (e.pfx.len, entryRoute ev e.table)

/-- `RoutingTable.route` -/
def route {C : Type} (ev : C → Bool) (tbl : List (Entry C)) (dst : Addr) : Option Nat :=
  (tbl.foldl (routeStep ev dst) (0, none)).2

/-! ### construction and session updates (`NewRoutingTable`, `SetSession`, `ClearSession`) -/

/-- a routing chain: prefixes and traffic matchers `(ID, class)` -/
structure Chain (C : Type) where
  prefixes : List Prefix
  matchers : List (Nat × C)

/-- the table with the indirection through `indexToSubEntry` kept explicit -/
structure Table (C : Type) where
  /-- `table`: per prefix the matcher IDs in order -/
  entries : List (Prefix × List Nat)
  /-- `indexToSubEntry`: class registered for an ID (first registration wins) -/
  subs : List (Nat × C)
  /-- current sessions -/
  sess : List (Nat × Nat)

def lookup {α : Type} (k : Nat) : List (Nat × α) → Option α
  | [] => none
  | (k', v) :: r => if k' = k then some v else lookup k r

def registerAll {C : Type} (subs : List (Nat × C)) : List (Nat × C) → List (Nat × C)
  | [] => subs
  | (id, c) :: r =>
    match lookup id subs with
    | some _ => registerAll subs r
    | none => registerAll (subs ++ [(id, c)]) r

def newTable {C : Type} (chains : List (Chain C)) : Table C :=
  let step (t : Table C) (ch : Chain C) : Table C :=
    -- sub-entries are created while the first prefix of the chain is processed; a chain without
    -- prefixes registers nothing
    let subs := if ch.prefixes.isEmpty then t.subs else registerAll t.subs ch.matchers
    { entries := t.entries ++ ch.prefixes.map (fun p => (p, ch.matchers.map (·.1)))
      subs := subs
      sess := t.sess }
  chains.foldl step { entries := [], subs := [], sess := [] }

/-- `SetSession` (`none` = "invalid index") -/
def setSession {C : Type} (t : Table C) (id s : Nat) : Option (Table C) :=
  match lookup id t.subs with
  | none => none
  | some _ => some { t with sess := (id, s) :: t.sess }

/-- `ClearSession` -/
def clearSession {C : Type} (t : Table C) (id : Nat) : Option (Table C) :=
  match lookup id t.subs with
  | none => none
  | some _ => some { t with sess := t.sess.filter (fun kv => kv.1 != id) }

/-- the entries with classes and sessions resolved (IDs without a registered class cannot occur
in a table built by `newTable`; they are skipped) -/
def Table.resolve {C : Type} (t : Table C) : List (Entry C) :=
  t.entries.map fun (p, ids) =>
    { pfx := p
      table := ids.filterMap fun id =>
        match lookup id t.subs with
        | some c => some { cls := c, sess := lookup id t.sess }
        | none => none }

/-! ### `IPForwarder.Run`, one packet -/

/-- what arrives from the local network, after gopacket's decoding -/
inductive Input (P : Type)
  /-- zero-length read, IP version other than 4/6, or a decoding error -/
  | invalid
  /-- IPv4: destination, "MF set or fragment offset ≠ 0", the layer for the classes -/
  | v4 (dst : Nat) (frag : Bool) (pkt : P)
  | v6 (dst : Nat) (pkt : P)

inductive Verdict
  | invalid
  | fragment
  | noRoute
  | session (s : Nat)
deriving DecidableEq, Repr

def forward {C P : Type} (ev : C → P → Bool) (tbl : List (Entry C)) : Input P → Verdict
  | .invalid => .invalid
  | .v4 dst frag pkt =>
    if frag then .fragment
    else match route (fun c => ev c pkt) tbl ⟨.v4, dst⟩ with
      | some s => .session s
      | none => .noRoute
  | .v6 dst pkt =>
    match route (fun c => ev c pkt) tbl ⟨.v6, dst⟩ with
    | some s => .session s
    | none => .noRoute

/-! ## Routing policy -/

/-- ISD-AS as ISD (16 bit) and AS (48 bit) -/
structure IA where
  isd : Nat
  asn : Nat
deriving DecidableEq, Repr

inductive IAMatcher
  | single (ia : IA)
  | neg (m : IAMatcher)
deriving Repr

/-- `SingleIAMatcher.Match` / `NegatedIAMatcher.Match`: zero ISD / AS are wildcards -/
def IAMatcher.matches : IAMatcher → IA → Bool
  | .single m, ia =>
    if m.isd = 0 ∧ m.asn = 0 then true
    else if m.isd = 0 then m.asn == ia.asn
    else if m.asn = 0 then m.isd == ia.isd
    else m.isd == ia.isd && m.asn == ia.asn
  | .neg m, ia => !m.matches ia

inductive Action | unknown | accept | reject | advertise | redistribute
deriving DecidableEq, Repr

structure NetMatcher where
  allowed : List Prefix
  negated : Bool
deriving Repr

/-- `NetworkMatcher.IPSet` as a membership predicate (`Complement` is taken in the universe of
all IPv4 and IPv6 addresses) -/
def NetMatcher.mem (m : NetMatcher) (a : Addr) : Bool :=
  (m.allowed.any (·.contains a)) != m.negated

structure Rule where
  action : Action
  src : IAMatcher
  dst : IAMatcher
  network : NetMatcher
deriving Repr

structure Policy where
  rules : List Rule
  dflt : Action
deriving Repr

/-- the loop of `Policy.Match` for rule `r` applied to the set built so far (`acc`) -/
def applyRule (src dst : IA) (a : Addr) (r : Rule) (acc : Bool) : Bool :=
  if !r.src.matches src || !r.dst.matches dst then acc
  else match r.action with
    | .accept => acc || r.network.mem a
    | .reject => acc && !r.network.mem a
    | _ => acc

/-- `Policy.Match(from, to, ipPrefix)`: membership of `a` in the returned set.  The builder starts
from everything (default accept) or nothing, walks the rules from the LAST to the FIRST adding or
removing each applicable rule's set, and finally intersects with the query prefix. -/
def Policy.matchMem (p : Policy) (src dst : IA) (q : Prefix) (a : Addr) : Bool :=
  (p.rules.foldr (applyRule src dst a) (p.dflt == .accept)) && q.contains a

/-- `AdvertiseList` -/
def advertiseList (p : Policy) (src dst : IA) : List Prefix :=
  p.rules.flatMap fun r =>
    if r.action != .advertise || !r.src.matches src || !r.dst.matches dst then []
    else if r.network.negated then []
    else r.network.allowed

end Scion.GwRouting
