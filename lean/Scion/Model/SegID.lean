/-!
Model of the segment-identifier accumulator (property C22), core Lean only.

Mirrors, line by line where it matters:
* `control/beaconing/extender.go`: `extractBeta` (fold over the AS entries already in the segment),
  the β handed to `createHopEntry` (`hopBeta`) and to `createPeerEntries`
  (`peerBeta := hopBeta ^ MAC[:2]` of the hop entry just created);
* `private/path/combinator/graph.go`: `calculateBeta` (index selection for up/core/down segments
  with shortcut and peer, then the same fold);
* `pkg/slayers/path/infofield.go`: `InfoField.UpdateSegID`;
* `router/dataplane.go`: `updateNonConsDirIngressSegID`, `processEgress` (SegID part) and the
  "no update on a peering hop" rule (`determinePeer`).

A 16-bit value is a `Nat`; `uint16` XOR is `Nat` XOR on values `< 65536` and never leaves that
range (`Scion.C22.xor_closed`).  The MAC prefixes σ are *arbitrary* numbers: that is the
"symbolically" of the property's quantifier.
-/
namespace Scion.SegID

/-- `InfoField.UpdateSegID`: `inf.SegID = inf.SegID ^ BigEndian.Uint16(hfMac[:2])`. -/
def updateSegID (seg m : Nat) : Nat := seg ^^^ m

/-- `extractBeta`: `beta := Info.SegmentID; for entry in ASEntries { beta ^= MAC[:2] }`. -/
def extractBeta (s0 : Nat) (σ : List Nat) : Nat := σ.foldl updateSegID s0

/-- β_i: the accumulator after the first `i` AS entries — what `extractBeta` returned when the
    `i`-th AS extended the beacon. -/
def beta (s0 : Nat) (σ : List Nat) (i : Nat) : Nat := extractBeta s0 (σ.take i)

/-- `Extend`: β used for the regular hop entry of the AS being added (`prev` = MAC prefixes of the
    entries already present). -/
def hopBeta (s0 : Nat) (prev : List Nat) : Nat := extractBeta s0 prev

/-- `Extend`: β used for every peer entry of the AS being added; `m` = MAC prefix of the hop entry
    just created. -/
def peerBeta (s0 : Nat) (prev : List Nat) (m : Nat) : Nat := updateSegID (hopBeta s0 prev) m

/-- index chosen by `calculateBeta` (`n = len(ASEntries)`, Go `int` arithmetic: `n-1` is `-1` for
    the empty segment, which is never equal to a shortcut index). -/
def betaIndex (down : Bool) (n shortcut : Nat) (peer : Bool) : Nat :=
  if down then
    (if peer then shortcut + 1 else shortcut)
  else if n = 0 then 0
  else if n - 1 = shortcut ∧ peer = true then n else n - 1

/-- `calculateBeta`; `none` = the Go loop would index past the AS entries (panic). -/
def calculateBeta (down : Bool) (shortcut : Nat) (peer : Bool) (s0 : Nat) (σ : List Nat) :
    Option Nat :=
  if betaIndex down σ.length shortcut peer ≤ σ.length then
    some (extractBeta s0 (σ.take (betaIndex down σ.length shortcut peer)))
  else none

/-! ### Router rules -/

/-- what one hop of a traversal looks like to the routers of the AS:
    `m` = first two MAC bytes of the hop field carried in the packet, `inExt` = the packet entered
    the AS on an external link (`ingressFromLink ≠ 0` in the router that runs the ingress checks),
    `egExt` = a router runs `processEgress` for this hop (external egress link, hop not ended by
    delivery or a cross-over), `peering` = `determinePeer`. -/
structure HopCtx where
  m : Nat
  inExt : Bool
  egExt : Bool
  peering : Bool
deriving Repr, DecidableEq

/-- `updateNonConsDirIngressSegID` -/
def ingressUpdate (consDir : Bool) (h : HopCtx) (seg : Nat) : Nat :=
  if !consDir && h.inExt && !h.peering then updateSegID seg h.m else seg

/-- SegID part of `processEgress` -/
def egressUpdate (consDir : Bool) (h : HopCtx) (seg : Nat) : Nat :=
  if consDir && h.egExt && !h.peering then updateSegID seg h.m else seg

/-- the SegID values the routers hand to `verifyCurrentMAC`, hop after hop -/
def runHops (consDir : Bool) (seg : Nat) : List HopCtx → List Nat
  | [] => []
  | h :: hs =>
    ingressUpdate consDir h seg ::
      runHops consDir (egressUpdate consDir h (ingressUpdate consDir h seg)) hs

/-- SegID left in the info field after the traversal -/
def finalSeg (consDir : Bool) (seg : Nat) : List HopCtx → Nat
  | [] => seg
  | h :: hs => finalSeg consDir (egressUpdate consDir h (ingressUpdate consDir h seg)) hs

/-! ### Traversals built by the combinator -/

/-- hops after the first one of a traversal: entered over an external link; all but the last one
    are left over an external link (the last one ends in delivery or a cross-over) -/
def tailCtx : List Nat → List HopCtx
  | [] => []
  | [x] => [⟨x, true, false, false⟩]
  | x :: y :: r => ⟨x, true, true, false⟩ :: tailCtx (y :: r)

/-- down/core-in-construction-direction traversal of entries `s … n-1`; with `peer` the first hop
    field is the peer entry of AS `s` (MAC prefix `pm`) entered over the peering link -/
def downCtx (σ : List Nat) (s : Nat) (peer : Bool) (pm : Nat) : List HopCtx :=
  match σ.drop s with
  | [] => []
  | x :: rest => ⟨if peer then pm else x, peer, !rest.isEmpty, peer⟩ :: tailCtx rest

/-- hops before the last one of an against-construction-direction traversal, in forwarding order
    (`first` = the hop is the first of the traversal: it comes from a host or follows a
    cross-over, so no router sees it arrive on an external link) -/
def upBody (first : Bool) : List Nat → List HopCtx
  | [] => []
  | x :: r => ⟨x, !first, true, false⟩ :: upBody false r

/-- up/core traversal of entries `n-1 … s` (forwarding order); with `peer` the last hop field is
    the peer entry of AS `s`, left over the peering link -/
def upCtx (σ : List Nat) (s : Nat) (peer : Bool) (pm : Nat) : List HopCtx :=
  match σ.drop s with
  | [] => []
  | x :: rest =>
    upBody true rest.reverse ++
      [⟨if peer then pm else x, !rest.isEmpty, peer, peer⟩]

/-- construction-time accumulators β_0, β_1, … of a segment -/
def betas (s0 : Nat) : List Nat → List Nat
  | [] => []
  | x :: xs => s0 :: betas (updateSegID s0 x) xs

/-- β the beaconing ASes used for the hop fields of entries `s … n-1` as they appear on a path that
    enters/leaves the segment at `s`: the peer entry of AS `s` was made with β_{s+1}. -/
def expected (s0 : Nat) (σ : List Nat) (s : Nat) (peer : Bool) : List Nat :=
  if peer then
    (if s < σ.length then beta s0 σ (s + 1) :: (betas s0 σ).drop (s + 1) else [])
  else (betas s0 σ).drop s

end Scion.SegID
