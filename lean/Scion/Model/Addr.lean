/-!
# Text formats of ISD, AS, ISD-AS, SVC, host and full SCION addresses (`pkg/addr`)

Executable model of `isdas.go`, `fmt.go`, `svc.go`, `host.go`, `addr.go`.  Core Lean only.

Go strings are byte strings; here a string is a `List Char` whose characters stand for the bytes
(the driver maps byte `b` to `Char.ofNat b`).  Every comparison the Go code makes is against an
ASCII character, so nothing depends on UTF-8 decoding (the only rune-aware call,
`strings.Split(s, "")`, is modelled as "one part per character" and is unreachable through the
public API since `WithSeparator("")` falls back to ":").

Numbers are unbounded `Nat`; the Go types are `uint16` (ISD, SVC, port) and `uint64` (AS, IA):
the formatting functions are meant for arguments in that range, which is a hypothesis of the
theorems where it matters.

Not modelled: the IP literal syntax of Go's `net/netip`.  It is a parameter (`IPCodec`).
-/
namespace Scion.Addr

abbrev Str := List Char

/-! ## `strconv.FormatUint` / `strconv.ParseUint` -/

/-- digit `d < 36` as `strconv.FormatUint` prints it (lower case) -/
def digitChar (d : Nat) : Char :=
  if d < 10 then Char.ofNat (48 + d) else Char.ofNat (87 + d)

/-- value of a digit character as in `strconv.ParseUint` (`0-9`, `a-z`, `A-Z`) -/
def digitVal (c : Char) : Option Nat :=
  if 48 ≤ c.toNat ∧ c.toNat ≤ 57 then some (c.toNat - 48)
  else if 97 ≤ c.toNat ∧ c.toNat ≤ 122 then some (c.toNat - 87)
  else if 65 ≤ c.toNat ∧ c.toNat ≤ 90 then some (c.toNat - 55)
  else none

/-- most significant digit first; `fuel` bounds the number of digits -/
def toDigitsFuel (b : Nat) : Nat → Nat → Str → Str
  | 0, _, acc => acc
  | fuel + 1, n, acc =>
    if n < b then digitChar n :: acc
    else toDigitsFuel b fuel (n / b) (digitChar (n % b) :: acc)

/-- `strconv.FormatUint(n, b)` for `2 ≤ b` -/
def toDigits (b n : Nat) : Str := toDigitsFuel b (n + 1) n []

inductive PErr where
  | syntax   -- `strconv.ErrSyntax`
  | range    -- `strconv.ErrRange`
  | form     -- every other error of `pkg/addr` (wrong number of parts, missing prefix, unknown name…)
  deriving DecidableEq, Repr

instance : DecidableEq (Except PErr Nat) := fun a b =>
  match a, b with
  | .ok x, .ok y => if h : x = y then isTrue (by rw [h]) else isFalse (by intro e; cases e; exact h rfl)
  | .error x, .error y => if h : x = y then isTrue (by rw [h]) else isFalse (by intro e; cases e; exact h rfl)
  | .ok _, .error _ => isFalse (by intro e; cases e)
  | .error _, .ok _ => isFalse (by intro e; cases e)

/-- the loop of `strconv.ParseUint(s, base, bitSize)` with `maxVal = 2^bitSize - 1`: the first
    offending character decides between syntax and range error.  (The additional 64-bit
    `cutoff` test of the Go code cannot fire before `n1 > maxVal` does for `bitSize < 64`.) -/
def parseUintGo (base maxVal : Nat) : Nat → Str → Except PErr Nat
  | n, [] => .ok n
  | n, c :: cs =>
    match digitVal c with
    | none => .error .syntax
    | some d =>
      if base ≤ d then .error .syntax
      else if maxVal < n * base + d then .error .range
      else parseUintGo base maxVal (n * base + d) cs

def parseUint (base bits : Nat) (s : Str) : Except PErr Nat :=
  match s with
  | [] => .error .syntax
  | _ :: _ => parseUintGo base (2 ^ bits - 1) 0 s

/-! ## `strings.Split`, `TrimPrefix`, `HasSuffix` -/

def consHead (c : Char) : List Str → List Str
  | [] => [[c]]
  | p :: ps => (c :: p) :: ps

/-- `strings.Split(s, sep)` for non-empty `sep`; the first argument counts the characters of an
    already matched separator that are still to be skipped.  The result is never empty. -/
def splitGo (sep : Str) : Nat → Str → List Str
  | _, [] => [[]]
  | k + 1, _ :: cs => splitGo sep k cs
  | 0, c :: cs =>
    if sep.isPrefixOf (c :: cs) then [] :: splitGo sep (sep.length - 1) cs
    else consHead c (splitGo sep 0 cs)

/-- `strings.Split(s, sep)`; an empty separator explodes the string -/
def split (sep s : Str) : List Str :=
  match sep with
  | [] => s.map (fun c => [c])
  | _ :: _ => splitGo sep 0 s

/-- `strings.TrimPrefix(s, p)` together with the test `trimmed == s` used by the callers:
    `none` when nothing was trimmed -/
def trimPrefix? (p s : Str) : Option Str :=
  if p.isPrefixOf s then some (s.drop p.length) else none

def trimSuffix? (suf s : Str) : Option Str :=
  if suf.isSuffixOf s then some (s.take (s.length - suf.length)) else none

/-! ## ISD, AS, IA (`isdas.go`) -/

def isdBits : Nat := 16
def asBits : Nat := 48
def bgpASBits : Nat := 32
def asPartBits : Nat := 16
def asPartBase : Nat := 16
def maxISD : Nat := 2 ^ 16 - 1
def maxAS : Nat := 2 ^ 48 - 1
def maxBGPAS : Nat := 2 ^ 32 - 1

def parseISD (s : Str) : Except PErr Nat := parseUint 10 isdBits s

def fmtISD (isd : Nat) : Str := toDigits 10 isd

def illegalASSuffix : Str := " [Illegal AS: larger than 281474976710655]".toList

/-- `fmtAS(as, sep)` -/
def fmtAS (sep : Str) (as : Nat) : Str :=
  if maxAS < as then toDigits 10 as ++ illegalASSuffix
  else if as ≤ maxBGPAS then toDigits 10 as
  else toDigits 16 (as / 2 ^ 32 % 2 ^ 16) ++ sep ++ toDigits 16 (as / 2 ^ 16 % 2 ^ 16) ++ sep ++
    toDigits 16 (as % 2 ^ 16)

/-- `parseAS(as, sep)` -/
def parseAS (sep s : Str) : Except PErr Nat :=
  match split sep s with
  | [_] => parseUint 10 bgpASBits s
  | [a, b, c] =>
    match parseUint asPartBase asPartBits a with
    | .error e => .error e
    | .ok x =>
      match parseUint asPartBase asPartBits b with
      | .error e => .error e
      | .ok y =>
        match parseUint asPartBase asPartBits c with
        | .error e => .error e
        | .ok z =>
          let v := (x * 2 ^ 16 + y) * 2 ^ 16 + z
          if maxAS < v then .error .form else .ok v
  | _ => .error .form

def iaFrom (isd as : Nat) : Nat := isd * 2 ^ 48 + as % 2 ^ 48
def iaISD (ia : Nat) : Nat := ia / 2 ^ 48
def iaAS (ia : Nat) : Nat := ia % 2 ^ 48

/-- `ParseIA` -/
def parseIA (s : Str) : Except PErr Nat :=
  match split ['-'] s with
  | [a, b] =>
    match parseISD a with
    | .error e => .error e
    | .ok isd =>
      match parseAS [':'] b with
      | .error e => .error e
      | .ok as => .ok (iaFrom isd as)
  | _ => .error .form

/-- `IA.String` -/
def fmtIA (ia : Nat) : Str := fmtISD (iaISD ia) ++ ['-'] ++ fmtAS [':'] (iaAS ia)

/-! ## Formatting options (`fmt.go`) -/

structure Opts where
  pfx : Bool
  sep : Str
  deriving DecidableEq, Repr

/-- `applyFormatOptions(nil)` -/
def defaultOpts : Opts := ⟨false, [':']⟩

def withDefaultPrefix (o : Opts) : Opts := { o with pfx := true }

/-- `WithSeparator(sep)`: the empty separator falls back to ":" -/
def withSeparator (sep : Str) (o : Opts) : Opts :=
  { o with sep := match sep with | [] => [':'] | _ :: _ => sep }

/-- the options value resulting from `WithDefaultPrefix()` (iff `p`) followed by
    `WithSeparator(s)` (iff `s = some _`) -/
def mkOpts (p : Bool) (s : Option Str) : Opts :=
  match s with
  | none => if p then withDefaultPrefix defaultOpts else defaultOpts
  | some s => withSeparator s (if p then withDefaultPrefix defaultOpts else defaultOpts)

def isdPrefix : Str := ['I', 'S', 'D']
def asPrefix : Str := ['A', 'S']

def formatISD (o : Opts) (isd : Nat) : Str :=
  if o.pfx then isdPrefix ++ toDigits 10 isd else toDigits 10 isd

def formatAS (o : Opts) (as : Nat) : Str :=
  if o.pfx then asPrefix ++ fmtAS o.sep as else fmtAS o.sep as

def formatIA (o : Opts) (ia : Nat) : Str :=
  if o.pfx then isdPrefix ++ toDigits 10 (iaISD ia) ++ ['-'] ++ asPrefix ++ fmtAS o.sep (iaAS ia)
  else toDigits 10 (iaISD ia) ++ ['-'] ++ fmtAS o.sep (iaAS ia)

def parseFormattedISD (o : Opts) (s : Str) : Except PErr Nat :=
  if o.pfx then
    match trimPrefix? isdPrefix s with
    | none => .error .form
    | some t => parseISD t
  else parseISD s

def parseFormattedAS (o : Opts) (s : Str) : Except PErr Nat :=
  if o.pfx then
    match trimPrefix? asPrefix s with
    | none => .error .form
    | some t => parseAS o.sep t
  else parseAS o.sep s

def parseFormattedIA (o : Opts) (s : Str) : Except PErr Nat :=
  match split ['-'] s with
  | [a, b] =>
    match parseFormattedISD o a with
    | .error e => .error e
    | .ok isd =>
      match parseFormattedAS o b with
      | .error e => .error e
      | .ok as => .ok (iaFrom isd as)
  | _ => .error .form

/-! ## SVC (`svc.go`) -/

def svcDS : Nat := 1
def svcCS : Nat := 2
def svcWildcard : Nat := 16
def svcNone : Nat := 65535
def svcMcast : Nat := 32768

def nameDS : Str := ['D', 'S']
def nameCS : Str := ['C', 'S']
def nameWildcard : Str := "Wildcard".toList
def sufA : Str := ['_', 'A']
def sufM : Str := ['_', 'M']

/-- the second `switch` of `ParseSVC`; `m` is the multicast flag value to be or-ed in -/
def parseSVCBase (m : Nat) (s : Str) : Except PErr Nat :=
  if s = nameDS then .ok (svcDS + m)
  else if s = nameCS then .ok (svcCS + m)
  else if s = nameWildcard then .ok (svcWildcard + m)
  else .error .form

/-- `ParseSVC` -/
def parseSVC (s : Str) : Except PErr Nat :=
  match trimSuffix? sufA s with
  | some t => parseSVCBase 0 t
  | none =>
    match trimSuffix? sufM s with
    | some t => parseSVCBase svcMcast t
    | none => parseSVCBase 0 s

def svcIsMulticast (h : Nat) : Bool := h / svcMcast % 2 = 1
def svcBase (h : Nat) : Nat := if svcIsMulticast h then h - svcMcast else h

/-- `%04x` of a 16-bit value -/
def hex4 (h : Nat) : Str :=
  [digitChar (h / 4096 % 16), digitChar (h / 256 % 16), digitChar (h / 16 % 16), digitChar (h % 16)]

/-- `SVC.BaseString` -/
def svcBaseString (h : Nat) : Str :=
  if svcBase h = svcDS then nameDS
  else if svcBase h = svcCS then nameCS
  else if svcBase h = svcWildcard then nameWildcard
  else "<SVC:0x".toList ++ hex4 h ++ ['>']

/-- `SVC.String` -/
def fmtSVC (h : Nat) : Str :=
  if svcIsMulticast h then svcBaseString h ++ sufM else svcBaseString h

/-! ## Host and full address (`host.go`, `addr.go`) -/

/-- The IP literal syntax is Go's `net/netip`; the model takes it as a parameter. -/
structure IPCodec (IP : Type) where
  parse : Str → Option IP
  fmt : IP → Str

inductive Host (IP : Type) where
  | none
  | ip (a : IP)
  | svc (s : Nat)
  deriving DecidableEq, Repr

/-- `ParseHost`: a service name first, an IP literal otherwise -/
def parseHost {IP : Type} (k : IPCodec IP) (s : Str) : Except PErr (Host IP) :=
  match parseSVC s with
  | .ok v => .ok (.svc v)
  | .error _ =>
    match k.parse s with
    | some a => .ok (.ip a)
    | none => .error .form

/-- `Host.String` -/
def fmtHost {IP : Type} (k : IPCodec IP) : Host IP → Str
  | .none => "<None>".toList
  | .ip a => k.fmt a
  | .svc s => fmtSVC s

/-- `strings.IndexByte(s, c)` as a split at the first occurrence -/
def splitFirst (c : Char) : Str → Option (Str × Str)
  | [] => none
  | x :: xs =>
    if x = c then some ([], xs)
    else match splitFirst c xs with
      | none => none
      | some (a, b) => some (x :: a, b)

/-- `ParseAddr` -/
def parseAddr {IP : Type} (k : IPCodec IP) (s : Str) : Except PErr (Nat × Host IP) :=
  match splitFirst ',' s with
  | none => .error .form
  | some (a, b) =>
    match parseIA a with
    | .error e => .error e
    | .ok ia =>
      match parseHost k b with
      | .error e => .error e
      | .ok h => .ok (ia, h)

/-- `Addr.String` -/
def fmtAddr {IP : Type} (k : IPCodec IP) (ia : Nat) (h : Host IP) : Str :=
  fmtIA ia ++ [','] ++ fmtHost k h

/-- position of the last occurrence (`strings.LastIndexByte`) -/
def lastIndex (c : Char) (s : Str) : Option Nat :=
  match s with
  | [] => none
  | x :: xs =>
    match lastIndex c xs with
    | some i => some (i + 1)
    | none => if x = c then some 0 else none

/-- position of the first occurrence (`strings.IndexByte`) -/
def firstIndex (c : Char) (s : Str) : Option Nat :=
  match s with
  | [] => none
  | x :: xs => if x = c then some 0 else
    match firstIndex c xs with
    | some i => some (i + 1)
    | none => none

/-- `net.SplitHostPort` (Go standard library), line by line -/
def splitHostPort (s : Str) : Option (Str × Str) :=
  match lastIndex ':' s with
  | none => none                                        -- missing port
  | some i =>
    match s with
    | '[' :: _ =>
      match firstIndex ']' s with
      | none => none                                    -- missing ']'
      | some e =>
        if e + 1 = s.length then none                   -- missing port
        else if e + 1 = i then
          if (s.drop 1).contains '[' then none          -- unexpected '['
          else if (s.drop (e + 1)).contains ']' then none
          else some ((s.take e).drop 1, s.drop (i + 1))
        else none                                       -- too many colons / missing port
    | _ =>
      if (s.take i).contains ':' then none              -- too many colons
      else if s.contains '[' then none
      else if s.contains ']' then none
      else some (s.take i, s.drop (i + 1))

/-- `ParseAddrPort` -/
def parseAddrPort {IP : Type} (k : IPCodec IP) (s : Str) : Except PErr ((Nat × Host IP) × Nat) :=
  match splitHostPort s with
  | none => .error .form
  | some (h, p) =>
    match parseAddr k h with
    | .error e => .error e
    | .ok a =>
      match parseUint 10 16 p with
      | .error e => .error e
      | .ok port => .ok (a, port)

/-- `FormatAddrPort` -/
def fmtAddrPort {IP : Type} (k : IPCodec IP) (ia : Nat) (h : Host IP) (port : Nat) : Str :=
  ['['] ++ fmtAddr k ia h ++ [']', ':'] ++ toDigits 10 port

end Scion.Addr
