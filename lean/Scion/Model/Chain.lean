/-!
# Certificate-chain decision logic (C34; reused by C36 and C37)

Mirrors, line by line where it matters,

* `pkg/scrypto/cppki/certs.go`: `classifyCert`, `ValidateCert`, `validateRoot/CA/AS/Sensitive/
  Regular`, `generalValidation`, `commonCAValidation`, `commonVotingValidation`,
  `subjectAndIssuerIASet`, `ValidateChain`, `verifyChain`, `VerifyChain`;
* `pkg/scrypto/cppki/trc.go`: `classifyCerts`, `RootCerts`/`RootPool`, `InGracePeriod`,
  `GracePeriodEnd`; `validity.go`: `Contains`, `Covers`;
* `private/trust/fetching_provider.go`: `activeTRCs`, `filterVerifiableChains`, `GetChains`.

X.509 / ECDSA are **not** modelled (DESIGN §3).  A certificate is the record of the parsed
fields the Go code reads (`Cert`); "`certs[0].Verify` with intermediates `{certs[1]}`, roots =
the TRC's root pool, at time `t`, succeeds" is an oracle Boolean that the harness obtains by
really calling `x509.Certificate.Verify` itself.  Times are integers (nanoseconds relative to a
reference instant chosen by the harness).  Core Lean only.
-/
namespace Scion.Chain

/-- result of looking for the ISD-AS attribute in a distinguished name (`findIA`) -/
inductive IARes where
  | notFound
  | malformed
  | ok (ia : Nat)
  deriving Repr, DecidableEq, Inhabited

def IARes.isOk : IARes → Bool
  | .ok _ => true
  | _ => false

def IARes.isMalformed : IARes → Bool
  | .malformed => true
  | _ => false

/-- ISD part of a 64-bit ISD-AS number -/
def isdOf (ia : Nat) : Nat := ia / 2 ^ 48

/-- The fields of a parsed `x509.Certificate` that the SCION validation code consumes. -/
structure Cert where
  version : Nat
  hasSerial : Bool
  sigAlg : Nat
  skidEmpty : Bool
  /-- AuthorityKeyId: 0 = empty, 1 = non-empty and different from SubjectKeyId, 2 = non-empty
  and equal to SubjectKeyId -/
  akid : Nat
  /-- presence (`some critical`) of the subjectKeyIdentifier / authorityKeyIdentifier /
  basicConstraints extensions in `c.Extensions` -/
  skidExt : Option Bool
  akidExt : Option Bool
  bcExt : Option Bool
  keyUsage : Nat
  eku : List Nat
  /-- `UnknownExtKeyUsage`, in order: 1 = id-kp-sensitive, 2 = id-kp-regular, 3 = id-kp-root,
  0 = any other OID -/
  ueku : List Nat
  bcValid : Bool
  isCA : Bool
  maxPathLen : Int
  issuerIA : IARes
  subjectIA : IARes
  notBefore : Int
  notAfter : Int
  /-- identity of the certified public key (harness-assigned number) -/
  keyId : Nat
  deriving Repr, DecidableEq, Inhabited

inductive CertType where
  | invalid | sensitive | regular | root | ca | as
  deriving Repr, DecidableEq, Inhabited

def CertType.toNat : CertType → Nat
  | .invalid => 0 | .sensitive => 1 | .regular => 2 | .root => 3 | .ca => 4 | .as => 5

/-- x509.KeyUsageDigitalSignature = 1 <<< 0, x509.KeyUsageCertSign = 1 <<< 5 -/
def digSig (c : Cert) : Bool := c.keyUsage % 2 == 1
def certSign (c : Cert) : Bool := c.keyUsage / 32 % 2 == 1

/-- x509.ExtKeyUsageServerAuth = 1, ClientAuth = 2, TimeStamping = 8 -/
def ekuServerAuth : Nat := 1
def ekuClientAuth : Nat := 2
def ekuTimeStamping : Nat := 8

/-- x509.ECDSAWithSHA256/384/512 -/
def validSigAlgs : List Nat := [10, 11, 12]

/-- the loop over `UnknownExtKeyUsage` in `classifyCert`: the first SCION OID decides -/
def classifyUeku : List Nat → Option CertType
  | [] => none
  | u :: r =>
    if u = 1 then some .sensitive
    else if u = 2 then some .regular
    else if u = 3 then some .root
    else classifyUeku r

/-- `classifyCert` (`none` = error; also covers the nil certificate) -/
def classify : Option Cert → Option CertType
  | none => none
  | some c =>
    match classifyUeku c.ueku with
    | some t => some t
    | none =>
      if certSign c then some .ca
      else if digSig c && !certSign c then some .as
      else none

def generalOk (c : Cert) : Bool :=
  c.version == 3 && c.hasSerial && validSigAlgs.contains c.sigAlg && !c.skidEmpty &&
  c.skidExt != some true && c.akidExt != some true

def iaSetOk (c : Cert) : Bool := c.issuerIA.isOk && c.subjectIA.isOk

def commonCAOk (c : Cert) (pathLen : Int) : Bool :=
  certSign c && !digSig c && !c.eku.contains ekuClientAuth && !c.eku.contains ekuServerAuth &&
  c.bcExt != some false && (c.bcValid && c.isCA && c.maxPathLen == pathLen) && iaSetOk c

def rootOk (c : Cert) : Bool :=
  generalOk c && commonCAOk c 1 && c.akid != 1 && c.ueku.contains 3

def caOk (c : Cert) : Bool :=
  generalOk c && commonCAOk c 0 && c.akid != 0

def asOk (c : Cert) : Bool :=
  generalOk c && !certSign c && digSig c && !(c.bcValid && c.isCA) && iaSetOk c &&
  c.akid != 0 && c.eku.contains ekuTimeStamping

def commonVotingOk (c : Cert) : Bool :=
  c.akid != 1 && !certSign c && !digSig c && c.eku.contains ekuTimeStamping &&
  !c.eku.contains ekuClientAuth && !c.eku.contains ekuServerAuth && !(c.bcValid && c.isCA) &&
  !c.issuerIA.isMalformed && !c.subjectIA.isMalformed

def sensitiveOk (c : Cert) : Bool :=
  generalOk c && commonVotingOk c && c.ueku.contains 1 && !c.ueku.contains 2

def regularOk (c : Cert) : Bool :=
  generalOk c && commonVotingOk c && c.ueku.contains 2 && !c.ueku.contains 1

/-- `ValidateCert`: the type and whether the type-specific validation passed.  A
classification error is `(invalid, false)`. -/
def validateCert (oc : Option Cert) : CertType × Bool :=
  match oc, classify oc with
  | some c, some .sensitive => (.sensitive, sensitiveOk c)
  | some c, some .regular => (.regular, regularOk c)
  | some c, some .root => (.root, rootOk c)
  | some c, some .ca => (.ca, caOk c)
  | some c, some .as => (.as, asOk c)
  | _, _ => (.invalid, false)

/-- `Validity.Covers` -/
def covers (nb na onb ona : Int) : Bool := decide (nb ≤ onb) && decide (ona ≤ na)

/-- `Validity.Contains` -/
def contains (nb na t : Int) : Bool := decide (nb ≤ t) && decide (t ≤ na)

inductive ChainErr where
  | length | firstInvalid | firstType | secondInvalid | secondType | notCovered
  deriving Repr, DecidableEq

/-- `ValidateChain` -/
def validateChain (certs : List (Option Cert)) : Except ChainErr (Cert × Cert) :=
  match certs with
  | [c0, c1] =>
    match validateCert c0 with
    | (_, false) => .error .firstInvalid
    | (t0, true) =>
      if t0 ≠ .as then .error .firstType else
      match validateCert c1 with
      | (_, false) => .error .secondInvalid
      | (t1, true) =>
        if t1 ≠ .ca then .error .secondType else
        match c0, c1 with
        | some a, some c =>
          if covers c.notBefore c.notAfter a.notBefore a.notAfter then .ok (a, c)
          else .error .notCovered
        | _, _ => .error .firstInvalid
  | _ => .error .length

def chainOk (certs : List (Option Cert)) : Bool :=
  match validateChain certs with
  | .ok _ => true
  | .error _ => false

/-- The TRC argument of `verifyChain`. -/
inductive TrcArg where
  | nil
  | zero
  | trc (certs : List (Option Cert))
  deriving Repr

/-- `classifyCerts` (trc.go): every certificate validates as sensitive, regular or root -/
def trcCertsOk : List (Option Cert) → Bool
  | [] => true
  | c :: r =>
    match validateCert c with
    | (.sensitive, true) => trcCertsOk r
    | (.regular, true) => trcCertsOk r
    | (.root, true) => trcCertsOk r
    | _ => false

def isRootCert (c : Option Cert) : Bool :=
  match validateCert c with
  | (.root, true) => true
  | _ => false

/-- the certificates that `RootPool` puts into the pool (meaningful when `trcCertsOk`) -/
def rootsOf (certs : List (Option Cert)) : List (Option Cert) := certs.filter isRootCert

/-- `RootPool` succeeds -/
def rootPoolOk (certs : List (Option Cert)) : Bool :=
  trcCertsOk certs && !(rootsOf certs).isEmpty

inductive VerifyErr where
  | chain (e : ChainErr) | noTRC | notIssuedByCA | rootPool | x509
  deriving Repr, DecidableEq

/-- `verifyChain`.  `asByCa` is the oracle "`certs[0].CheckSignatureFrom(certs[1])` succeeds" (the
AS certificate carries a valid signature of the CA certificate's key); `x509ok` is the oracle
"`certs[0].Verify` with intermediates `{certs[1]}` and the TRC's root pool at the verification
time succeeds". -/
def verifyChain (certs : List (Option Cert)) (trc : TrcArg) (asByCa x509ok : Bool) :
    Except VerifyErr Unit :=
  match validateChain certs with
  | .error e => .error (.chain e)
  | .ok _ =>
    match trc with
    | .nil => .error .noTRC
    | .zero => .error .noTRC
    | .trc tc =>
      if !asByCa then .error .notIssuedByCA
      else if !rootPoolOk tc then .error .rootPool
      else if x509ok then .ok () else .error .x509

def verifyOk (certs : List (Option Cert)) (trc : TrcArg) (asByCa x509ok : Bool) : Bool :=
  match verifyChain certs trc asByCa x509ok with
  | .ok _ => true
  | .error _ => false

/-- `VerifyChain`: success iff the chain verifies against at least one of the listed TRCs -/
def verifyAny (certs : List (Option Cert)) (asByCa : Bool) : List (TrcArg × Bool) → Bool
  | [] => false
  | (t, x) :: r => if verifyOk certs t asByCa x then true else verifyAny certs asByCa r

/-! ### What Go's `Verify` is assumed to imply (checked on every harness case, used as a
hypothesis by the property theorems): the intermediate is signed by one of the roots, and leaf,
intermediate and that root are inside their validity at the verification time. -/

structure X509Facts where
  /-- per root of the pool: (CA signed by this root, root.notBefore, root.notAfter) -/
  roots : List (Bool × Int × Int)
  deriving Repr

def x509Necessary (a c : Cert) (f : X509Facts) (t : Int) : Bool :=
  contains a.notBefore a.notAfter t && contains c.notBefore c.notAfter t &&
  f.roots.any (fun r => r.1 && contains r.2.1 r.2.2 t)

/-! ### The trust provider's choice of TRCs -/

structure TrcInfo where
  base : Nat
  serial : Nat
  notBefore : Int
  notAfter : Int
  grace : Int
  deriving Repr, DecidableEq, Inhabited

def TrcInfo.isBase (t : TrcInfo) : Bool := t.base == t.serial

/-- `TRC.InGracePeriod` -/
def TrcInfo.inGrace (t : TrcInfo) (now : Int) : Bool :=
  if t.isBase then false else contains t.notBefore (t.notBefore + t.grace) now

/-- `TRC.GracePeriodEnd`; `zeroTime` is Go's zero `time.Time` in the harness' time scale -/
def TrcInfo.graceEnd (t : TrcInfo) (zeroTime : Int) : Int :=
  if t.isBase then zeroTime else t.notBefore + t.grace

/-- outcome of a `DB.SignedTRC` call -/
inductive Lookup where
  | err
  | zero
  | found (t : TrcInfo)
  deriving Repr, DecidableEq, Inhabited

/-- the abstract TRC store: what the DB holds for one ISD -/
abbrev Store := List TrcInfo

def newer (a b : TrcInfo) : Bool :=
  decide (a.base > b.base) || (a.base == b.base && decide (a.serial > b.serial))

/-- `ORDER BY base DESC, serial DESC LIMIT 1` -/
def Store.latest : Store → Option TrcInfo
  | [] => none
  | t :: r =>
    match Store.latest r with
    | none => some t
    | some m => if newer t m then some t else some m

def Store.find (s : Store) (base serial : Nat) : Option TrcInfo :=
  List.find? (fun t => t.base == base && t.serial == serial) s

def lookupOf (failing : Bool) (o : Option TrcInfo) : Lookup :=
  if failing then .err else match o with | none => .zero | some t => .found t

inductive ActiveRes where
  | dbErr
  | notFound
  | inactive
  | one (t : TrcInfo)
  | two (t g : TrcInfo)
  deriving Repr, DecidableEq, Inhabited

/-- `activeTRCs`: `latest` is the answer of the DB for the latest TRC of the ISD, `pred` the
answer for `(base, serial-1)` of that TRC (only consulted in the grace period). -/
def activeTRCs (latest : Lookup) (pred : Lookup) (now : Int) : ActiveRes :=
  match latest with
  | .err => .dbErr
  | .zero => .notFound
  | .found t =>
    if !contains t.notBefore t.notAfter now then .inactive
    else if !t.inGrace now then .one t
    else match pred with
      | .err => .dbErr
      | .zero => .notFound
      | .found g => .two t g

/-- `activeTRCs` over the abstract store (`failL`/`failP`: the DB call fails) -/
def activeOfStore (s : Store) (failL failP : Bool) (now : Int) : ActiveRes :=
  let l := lookupOf failL s.latest
  let p := match s.latest with
    | some t => lookupOf failP (s.find t.base (t.serial - 1))
    | none => .zero
  activeTRCs l p now

def ActiveRes.trcs : ActiveRes → List TrcInfo
  | .one t => [t]
  | .two t g => [t, g]
  | _ => []

/-- `filterVerifiableChains`: `ok c i` = "`VerifyChain(c, trcs[i])` succeeds now" -/
def filterVerifiable (n : Nat) (chains : List Nat) (ok : Nat → Nat → Bool) : List Nat :=
  chains.filter (fun c => (List.range n).any (fun i => ok c i))

inductive GetErr where
  | wildcard | db | trcs | recursion | fetch | insert
  deriving Repr, DecidableEq

/-- Inputs of one `GetChains` call, chains being numbered by the harness. -/
structure GetIn where
  wildcard : Bool
  allowInactive : Bool
  /-- `DB.Chains` result -/
  dbChains : Option (List Nat)
  active : ActiveRes
  /-- oracle: chain `c` verifies against `active.trcs[i]` now -/
  ok : Nat → Nat → Bool
  recursionAllowed : Bool
  /-- `Fetcher.Chains` result -/
  fetched : Option (List Nat)
  insertFails : Bool

/-- the part of `GetChains` after the active TRCs have been determined (`n` of them) -/
def getChainsActive (i : GetIn) (chains : List Nat) (n : Nat) : Except GetErr (List Nat) :=
  if !(filterVerifiable n chains i.ok).isEmpty then .ok (filterVerifiable n chains i.ok) else
  if !i.recursionAllowed then .error .recursion else
  match i.fetched with
  | none => .error .fetch
  | some f =>
    if !(filterVerifiable n f i.ok).isEmpty && i.insertFails then .error .insert
    else .ok (filterVerifiable n f i.ok)

/-- `FetchingProvider.GetChains` (server given by option, so `Router` is not consulted) -/
def getChains (i : GetIn) : Except GetErr (List Nat) :=
  if i.wildcard then .error .wildcard else
  match i.dbChains with
  | none => .error .db
  | some chains =>
    if i.allowInactive && !chains.isEmpty then .ok chains else
    match i.active with
    | .dbErr => .error .trcs
    | .notFound => .error .trcs
    | .inactive => .error .trcs
    | act => getChainsActive i chains act.trcs.length

/-! ### `LoadChains` (store.go): the second entry point through which chains are accepted -/

/-- what `LoadChains` learns about one `*.pem` file -/
structure FileIn where
  /-- `ReadPEMCerts` succeeds -/
  readable : Bool
  /-- `ValidateChain` succeeds (oracle here; its logic is `validateChain`) -/
  chainValid : Bool
  /-- the AS certificate's validity contains the current time -/
  inValidity : Bool
  /-- result of `activeTRCs` for the ISD of the AS certificate -/
  active : ActiveRes
  /-- oracle: the chain verifies now against `active.trcs[0]` / `[1]` -/
  ok0 : Bool
  ok1 : Bool
  /-- `DB.InsertChain`: fails / reports "already there" -/
  insertFails : Bool
  duplicate : Bool
  deriving Repr

inductive FileRes where
  | ignored | loaded | abort
  deriving Repr, DecidableEq

/-- the chain verifies against one of the selected TRCs -/
def FileIn.verified (f : FileIn) : Bool :=
  match f.active with
  | .one _ => f.ok0
  | .two _ _ => f.ok0 || f.ok1
  | _ => false

/-- the body of the loop of `LoadChains` for one file -/
def loadFile (f : FileIn) : FileRes :=
  if !f.readable then .ignored else
  if !f.chainValid then .ignored else
  if !f.inValidity then .ignored else
  match f.active with
  | .notFound => .ignored
  | .dbErr => .abort
  | .inactive => .abort
  | _ =>
    if !f.verified then .ignored else
    if f.insertFails then .abort else
    if f.duplicate then .ignored else .loaded

/-- `LoadChains`: files in directory order; the first aborting file ends the run -/
def loadChains : List FileIn → List FileRes
  | [] => []
  | f :: r =>
    match loadFile f with
    | .abort => [.abort]
    | x => x :: loadChains r

end Scion.Chain
