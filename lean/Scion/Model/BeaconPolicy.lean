/-!
Decision models for beacon receipt and propagation:

* `control/beacon/policy.go`: `Filter.Apply`, `FilterLoop`, `buildHops`, `filterLoops`,
  `filterAsLoop`, `filterIsdLoop`, `Policies.Filter/Usage`, `CorePolicies.Filter/Usage`;
* `control/beacon/store.go`: `baseStore.PreFilter`, `baseStore.InsertBeacon`;
* `control/beaconing/handler.go`: `Handler.HandleBeacon`, `validateASEntry`;
* `control/beaconing/propagator.go`: `Propagator.shouldIgnore`.

A beacon is abstracted to the list of its AS entries `(Local, Next)`; an ISD-AS is a pair
`(isd, as)`.  Signature verification (`segverifier.VerifySegment`) is a Boolean parameter.
Core Lean only.
-/
namespace Scion.BeaconPolicy

/-- ISD-AS: `(ISD, AS)` -/
abbrev IA := Nat × Nat

def IA.isd (ia : IA) : Nat := ia.1
def IA.as (ia : IA) : Nat := ia.2

/-- `filterAsLoop(hops)`: the first ISD-AS that occurs a second time, `0-0` if none (loop over
`hops` with a `seen` set) -/
def asDupFrom (seen : List IA) : List IA → IA
  | [] => (0, 0)
  | ia :: rest => if seen.contains ia then ia else asDupFrom (ia :: seen) rest

/-- `!filterAsLoop(hops).IsZero()` (a repeated `0-0` therefore ends the search unreported) -/
def asLoop (hops : List IA) : Bool := asDupFrom [] hops != (0, 0)

/-- `filterIsdLoop(hops)`: loop state `(seen, last)`; an ISD equal to the previous one is
skipped, an ISD seen before (and left in between) is returned; 0 if none.  `last` starts as 0. -/
def isdDupFrom (seen : List Nat) (last : Nat) : List IA → Nat
  | [] => 0
  | ia :: rest =>
    if last = ia.isd then isdDupFrom seen last rest
    else if seen.contains ia.isd then ia.isd
    else isdDupFrom (ia.isd :: seen) ia.isd rest

/-- `filterIsdLoop(hops) != 0` -/
def isdLoop (hops : List IA) : Bool := isdDupFrom [] 0 hops != 0

/-- `filterLoops(hops, allowIsdLoop) != nil` -/
def hasLoop (hops : List IA) (allowIsdLoop : Bool) : Bool :=
  if asLoop hops then true
  else if allowIsdLoop then false
  else isdLoop hops

/-- `beacon.Filter` (after `InitDefaults`: `AllowIsdLoop` non-nil) -/
structure Filter where
  maxHops : Int
  asBlack : List Nat
  isdBlack : List Nat
  allowIsdLoop : Bool
deriving DecidableEq, Repr

/-- `DefaultMaxHopsLength` (tied to the source by `Scion.Gen.Beacon`, see `Props/C25`) -/
def defaultMaxHopsLength : Int := 10

/-- a `Filter` as configured, before `Filter.InitDefaults` -/
structure RawFilter where
  maxHops : Int
  asBlack : List Nat
  isdBlack : List Nat
  allowIsdLoop : Option Bool
deriving DecidableEq, Repr

/-- `Filter.InitDefaults` -/
def RawFilter.initDefaults (f : RawFilter) : Filter :=
  { maxHops := if f.maxHops = 0 then defaultMaxHopsLength else f.maxHops
    asBlack := f.asBlack
    isdBlack := f.isdBlack
    allowIsdLoop := match f.allowIsdLoop with
      | none => true
      | some b => b }

/-- the black-list loop of `Filter.Apply`: some hop has a blocked AS or a blocked ISD -/
def blocked (f : Filter) (hops : List IA) : Bool :=
  hops.any fun ia => f.asBlack.contains ia.as || f.isdBlack.contains ia.isd

/-- `Filter.Apply(beacon) == nil`; `hops` = `buildHops(beacon)` = the `Local`s of the entries -/
def Filter.accepts (f : Filter) (hops : List IA) : Bool :=
  if (hops.length : Int) > f.maxHops then false
  else if hasLoop hops f.allowIsdLoop then false
  else !blocked f hops

/-- `FilterLoop(beacon, next, allowIsdLoop) != nil` (`next.IsZero()` ⇒ not appended) -/
def filterLoop (hops : List IA) (next : IA) (allowIsdLoop : Bool) : Bool :=
  hasLoop (if next = (0, 0) then hops else hops ++ [next]) allowIsdLoop

/-- `Propagator.shouldIgnore(beacon, intf)` with `next = intf.TopoInfo().IA`: `FilterLoop` over the
beacon extended by an entry for the local AS (the entry the extender is about to append). -/
def shouldIgnore (localIA : IA) (allowIsdLoop : Bool) (hops : List IA) (next : IA) : Bool :=
  filterLoop (hops ++ [localIA]) next allowIsdLoop

/-! ### policies and usage -/

inductive PolicyTag | upReg | downReg | coreReg | prop
deriving DecidableEq, Repr

/-- `beacon.Usage` bit of a policy -/
def PolicyTag.bit : PolicyTag → Nat
  | .upReg => 1 | .downReg => 2 | .coreReg => 4 | .prop => 8

/-- the policies of a store, in the order `Usage()` evaluates them:
`Policies` = [prop, upReg, downReg], `CorePolicies` = [prop, coreReg] -/
abbrev Policies := List (PolicyTag × Filter)

/-- `Policies.Usage` / `CorePolicies.Usage`: the tags of the accepting policies -/
def usage (ps : Policies) (hops : List IA) : List PolicyTag :=
  (ps.filter fun p => p.2.accepts hops).map (·.1)

/-- `Policies.Filter(beacon) == nil`: not all policies filter the beacon
(`len(errors) == len(policies)` ⇒ error) -/
def preFilterOk (ps : Policies) (hops : List IA) : Bool :=
  (ps.filter fun p => !p.2.accepts hops).length != ps.length

def usageBits (u : List PolicyTag) : Nat := (u.map PolicyTag.bit).foldl (· + ·) 0

/-! ### the handler -/

/-- `topology.LinkType`; `other` = any value without a name -/
inductive LinkType | unset | core | parent | child | peer | other
deriving DecidableEq, Repr

structure Intf where
  ia : IA
  lt : LinkType
deriving DecidableEq, Repr

inductive Outcome
  | noInterface          -- "received beacon on non-existent interface"
  | preFiltered          -- `Inserter.PreFilter` error
  | invalid              -- `validateASEntry` error
  | unverified           -- `verifySegment` error
  | filtered             -- `InsertStats{Filtered: 1}`: usage none
  | stored (u : List PolicyTag)   -- `db.InsertBeacon(beacon, usage)`
  | panic                -- index out of range (no AS entries)
deriving DecidableEq, Repr

/-- `Handler.validateASEntry`; `none` = `ASEntries[MaxIdx()]` out of range -/
def validateASEntry (localIA : IA) (intf : Intf) (entries : List (IA × IA)) : Option Bool :=
  if intf.lt ≠ .parent ∧ intf.lt ≠ .core then some false
  else match entries.getLast? with
    | none => none
    | some (loc, nxt) =>
      if loc ≠ intf.ia then some false
      else if nxt ≠ localIA then some false
      else some true

/-- `Handler.HandleBeacon` (+ `baseStore.PreFilter/InsertBeacon`) -/
def handle (localIA : IA) (ps : Policies) (intf : Option Intf) (entries : List (IA × IA))
    (sigOk : Bool) : Outcome :=
  match intf with
  | none => .noInterface
  | some intf =>
    if !preFilterOk ps (entries.map (·.1)) then .preFiltered
    else match validateASEntry localIA intf entries with
      | none => .panic
      | some false => .invalid
      | some true =>
        if !sigOk then .unverified
        else match usage ps (entries.map (·.1)) with
          | [] => .filtered
          | u => .stored u

end Scion.BeaconPolicy
