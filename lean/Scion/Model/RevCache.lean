/-!
# Model of `private/revcache/memrevcache` (property C31)

`memRevCache` is a `zcache` map `Key ↦ Item{Object: *RevInfo, Expiration: unixnano}` guarded by a
lock.  The model keeps the map as an association list and mirrors the three methods line by
line.  The wall clock the code reads (`time.Until`, `time.Now` inside zcache) is the explicit
argument `now`.  Time unit of `now` and of `Item.expiration`: milliseconds; revocations carry
whole seconds (`RawTimestamp`, `RawTTL` are `uint32` seconds).  Core Lean only.
-/
namespace Scion.RevCache

/-- `revcache.Key` -/
structure Key where
  ia : Nat
  ifid : Nat
  deriving DecidableEq, Repr

/-- `path_mgmt.RevInfo` (the fields the cache looks at, plus the link type it hands back) -/
structure Rev where
  key : Key
  linkType : Nat
  ts : Nat     -- RawTimestamp, seconds
  ttl : Nat    -- RawTTL, seconds
  deriving DecidableEq, Repr

/-- `rev.Timestamp()` in clock units -/
def tsMs (r : Rev) : Nat := r.ts * 1000
/-- `rev.Expiration()` in clock units -/
def expMs (r : Rev) : Nat := (r.ts + r.ttl) * 1000

/-- `zcache.Item` -/
structure Item where
  rev : Rev
  expiration : Nat
  deriving DecidableEq, Repr

abbrev State := List (Key × Item)

def empty : State := []

/-- `c.items[k]` -/
def lookup : State → Key → Option Item
  | [], _ => none
  | (k', it) :: rest, k => if k' = k then some it else lookup rest k

/-- `c.items[k] = it` -/
def set (s : State) (k : Key) (it : Item) : State :=
  (k, it) :: s.filter (fun p => !decide (p.1 = k))

/-- zcache's `Expired`: `now > item.Expiration` (expiration is always > 0 here) -/
def Item.expired (it : Item) (now : Nat) : Bool := decide (now > it.expiration)

/-- `zcache.Get` as used by `memRevCache.Get` and inside `Insert` -/
def getLive (s : State) (now : Nat) (k : Key) : Option Rev :=
  match lookup s k with
  | none => none
  | some it => if it.expired now then none else some it.rev

/-- `memRevCache.Insert` -/
def insert (s : State) (now : Nat) (r : Rev) : State × Bool :=
  -- ttl := time.Until(rev.Expiration()); if ttl <= 0 { return false }
  if expMs r ≤ now then (s, false)
  else
    let ttl := expMs r - now
    match getLive s now r.key with
    | none => (set s r.key ⟨r, now + ttl⟩, true)
    | some v =>
      -- rev.Timestamp().After(val.Timestamp())
      if tsMs v < tsMs r then (set s r.key ⟨r, now + ttl⟩, true) else (s, false)

/-- `memRevCache.DeleteExpired`: new map and the number of evicted items -/
def deleteExpired (s : State) (now : Nat) : State × Nat :=
  (s.filter (fun p => !p.2.expired now), s.countP (fun p => p.2.expired now))

/-- `memRevCache.GetAll` (`zcache.Items`): the unexpired objects, in map order -/
def getAll (s : State) (now : Nat) : List Rev :=
  (s.filter (fun p => !p.2.expired now)).map (fun p => p.2.rev)

inductive Op where
  | insert (now : Nat) (r : Rev)
  | get (now : Nat) (k : Key)
  | delExp (now : Nat)
  | getAll (now : Nat)
  deriving Repr

inductive Out where
  | accepted (b : Bool)
  | got (r : Option Rev)
  | deleted (n : Nat)
  | all (rs : List Rev)
  deriving Repr, DecidableEq

def Op.time : Op → Nat
  | .insert now _ => now
  | .get now _ => now
  | .delExp now => now
  | .getAll now => now

def step (s : State) : Op → State × Out
  | .insert now r => let x := insert s now r; (x.1, .accepted x.2)
  | .get now k => (s, .got (getLive s now k))
  | .delExp now => let x := deleteExpired s now; (x.1, .deleted x.2)
  | .getAll now => (s, .all (getAll s now))

/-- run a history, collecting the answers -/
def run (s : State) : List Op → State × List Out
  | [] => (s, [])
  | op :: rest =>
    let x := step s op
    let y := run x.1 rest
    (y.1, x.2 :: y.2)

/-! ## The abstract store of the property statement

"the newest accepted revocation per interface": a map that remembers, per key, the last
accepted revocation, never deletes anything, and treats an entry as absent once it is expired. -/

abbrev Spec := Key → Option Rev

def liveAt (now : Nat) (r : Rev) : Option Rev := if now ≤ expMs r then some r else none

def Spec.get (σ : Spec) (now : Nat) (k : Key) : Option Rev := (σ k).bind (liveAt now)

/-- the acceptance rule of the statement: unexpired and newer than the live stored one -/
def Spec.accepts (σ : Spec) (now : Nat) (r : Rev) : Bool :=
  decide (now < expMs r) &&
    (match σ.get now r.key with
     | none => true
     | some v => decide (v.ts < r.ts))

def Spec.put (σ : Spec) (r : Rev) : Spec := fun k => if k = r.key then some r else σ k

/-- observable answers of the abstract store; clean-up and enumeration are not observable
    per key (they are characterised separately), so they answer `none` -/
def Spec.step (σ : Spec) : Op → Spec × Option Out
  | .insert now r =>
    if σ.accepts now r then (σ.put r, some (.accepted true)) else (σ, some (.accepted false))
  | .get now k => (σ, some (.got (σ.get now k)))
  | .delExp _ => (σ, none)
  | .getAll _ => (σ, none)

def Spec.run (σ : Spec) : List Op → Spec × List (Option Out)
  | [] => (σ, [])
  | op :: rest =>
    let x := σ.step op
    let y := Spec.run x.1 rest
    (y.1, x.2 :: y.2)

/-- the clock never runs backwards along a history -/
def Mono : Nat → List Op → Prop
  | _, [] => True
  | lo, op :: rest => lo ≤ op.time ∧ Mono op.time rest

end Scion.RevCache
