import Scion.Model.Wire
import Scion.Model.WireExt
/-!
Model of the SPAO authenticated data: `pkg/spao/mac.go` `serializeAuthenticatedData`,
`zeroOutMutablePath`, `zeroOutWithBase`, and the input `ComputeAuthCMAC` hands to AES-CMAC
(`authenticated data ‖ payload`).  The code is modelled AS IT IS — in particular the traffic class
is masked with `0x3f` (`TrafficClass&0x3f`), which keeps the two ECN bits and drops the two top
DSCP bits, although `doc/protocols/authenticator-option.rst` says "TC w/o ECN" (known finding
`C21/tc-mask-0x3f`).  Header values are those of `Scion.Model.Wire`.  Core Lean only.
-/
namespace Scion.Spao
open Scion.Util Scion.Wire Scion

/-- what `ComputeAuthCMAC` is given -/
structure AuthIn where
  hdr : Hdr          -- ScionLayer
  spi : Nat          -- Header.SPI()        (32 bit)
  alg : Nat          -- Header.Algorithm()  (8 bit)
  ts : Nat           -- Header.TimestampSN() (48 bit)
  pldType : Nat      -- PldType
  pld : Bytes        -- Pld
deriving DecidableEq, Repr

/-- `PacketAuthSPI.IsDRKey`: `p > 0 && p < 1<<21` -/
def isDRKey (spi : Nat) : Bool := 0 < spi && spi < 2^21
/-- `PacketAuthSPI.Type`: bit 17 (0 = AS-host, 1 = host-host) -/
def spiType (spi : Nat) : Nat := spi / 2^17 % 2
/-- `PacketAuthSPI.Direction`: bit 16 (0 = sender side, 1 = receiver side) -/
def spiDir (spi : Nat) : Nat := spi / 2^16 % 2

def inclIA (spi : Nat) : Bool := !isDRKey spi
def inclDst (spi : Nat) : Bool := !isDRKey spi || (spiType spi == 0 && spiDir spi == 1)
def inclSrc (spi : Nat) : Bool := !isDRKey spi || (spiType spi == 0 && spiDir spi == 0)

/-- zero `IF.SegID` (bytes 2,3) of the first `n` 8-byte info fields; `none` = index out of range -/
def zeroSegIDs : Nat → Bytes → Option Bytes
  | 0, l => some l
  | n+1, f :: r :: _ :: _ :: t0 :: t1 :: t2 :: t3 :: rest =>
    match zeroSegIDs n rest with
    | some z => some (f :: r :: 0 :: 0 :: t0 :: t1 :: t2 :: t3 :: z)
    | none => none
  | _+1, _ => none

/-- zero the flags byte (byte 0) of the first `n` 12-byte hop fields -/
def zeroHopFlags : Nat → Bytes → Option Bytes
  | 0, l => some l
  | n+1, _ :: e :: i0 :: i1 :: e0 :: e1 :: m0 :: m1 :: m2 :: m3 :: m4 :: m5 :: rest =>
    match zeroHopFlags n rest with
    | some z => some (0 :: e :: i0 :: i1 :: e0 :: e1 :: m0 :: m1 :: m2 :: m3 :: m4 :: m5 :: z)
    | none => none
  | _+1, _ => none

/-- `zeroOutWithBase(base, buf)` on the serialized raw path `line ‖ body`: `CurrINF`/`CurrHF`
byte, then `NumINF` SegIDs, then the flags of all hops of the first `NumINF` segments -/
def zeroRaw (m : PathMeta.Hdr) (body : Bytes) : Option Bytes :=
  match PathMeta.baseDecode m with
  | none => none                   -- not a decodable meta header (excluded by `RawWF`)
  | some b =>
    match natBE 4 (PathMeta.encode m) with
    | _ :: l1 :: l2 :: l3 :: [] =>
      match takeN (b.numINF * 8) body with
      | none => none
      | some (infos, hops) =>
        match zeroSegIDs b.numINF infos, zeroHopFlags b.numHops hops with
        | some zi, some zh => some (0 :: l1 :: l2 :: l3 :: (zi ++ zh))
        | _, _ => none
    | _ => none

/-- `zeroOutMutablePath`: `orig.SerializeTo(buf)` then the per-type zeroing -/
def zeroPath : PathV → Option Bytes
  | .empty => some []
  | .scion m body => zeroRaw m body
  | .onehop i h1 _ =>
    -- SegID := 0, first hop flags byte := 0, second hop := 12 zero bytes
    match encInfo i, encHop h1 with
    | f :: r :: _ :: _ :: t0 :: t1 :: t2 :: t3 :: [], _ :: hrest =>
      some (f :: r :: 0 :: 0 :: t0 :: t1 :: t2 :: t3 :: (0 :: hrest) ++ List.replicate 12 0)
    | _, _ => none
  | .epic ts ctr phvf lhvf m body =>
    if phvf.length ≠ 4 ∨ lhvf.length ≠ 4 then none
    else match zeroRaw m body with
      | some z => some (natBE 4 ts ++ natBE 4 ctr ++ phvf ++ lhvf ++ z)
      | none => none

/-- the fixed 20 bytes: Authenticator Option Metadata and the common header without its second
row.  NOTE `a.hdr.cmn.tc % 64` is `TrafficClass&0x3f`. -/
def fixedPart (a : AuthIn) : Bytes :=
  let c := a.hdr.cmn
  [UInt8.ofNat ((12 + addrHdrLen c + pathLen a.hdr.path) / 4), UInt8.ofNat a.pldType] ++
    natBE 2 a.pld.length ++ [UInt8.ofNat a.alg, 0] ++ natBE 6 a.ts ++
    natBE 4 (c.version % 16 * 2^28 + c.tc % 64 * 2^20 + c.flowID % 2^20) ++
    [UInt8.ofNat c.pathType, UInt8.ofNat (c.dstType % 16 * 16 + c.srcType % 16), 0, 0]

/-- the address part, depending on the SPI -/
def addrPart (a : AuthIn) : Bytes :=
  (if inclIA a.spi then natBE 8 a.hdr.dstIA ++ natBE 8 a.hdr.srcIA else []) ++
  (if inclDst a.spi then a.hdr.rawDst else []) ++
  (if inclSrc a.spi then a.hdr.rawSrc else [])

inductive Err where
  | hdrTooLong | hdrNotAligned | path
deriving DecidableEq, Repr

/-- `serializeAuthenticatedData`: the bytes `buf[:inputLen]` -/
def authData (a : AuthIn) : Except Err Bytes :=
  let hdrLen := 12 + addrHdrLen a.hdr.cmn + pathLen a.hdr.path
  if hdrLen > 1020 then .error .hdrTooLong
  else if hdrLen % 4 ≠ 0 then .error .hdrNotAligned
  else match zeroPath a.hdr.path with
    | none => .error .path
    | some zp => .ok (fixedPart a ++ addrPart a ++ zp)

/-- what `ComputeAuthCMAC` feeds to the MAC: `cmac.Write(aux[:inputLen]); cmac.Write(Pld)` -/
def macInput (a : AuthIn) : Except Err Bytes :=
  match authData a with
  | .error e => .error e
  | .ok d => .ok (d ++ a.pld)


/-! ### where the upper layer starts: extension headers are skipped

`ComputeAuthCMAC` is handed `PldType`/`Pld` by its callers (`router/dataplane.go` `prepareSCMP`,
`hasValidAuth`; end hosts): the protocol number and the bytes of what follows the last extension
header.  `upperLayer` is that walk over the SCION payload (at most one HBH, then at most one E2E
extension, each `(ExtLen+1)·4` bytes). -/

open Scion.WireExt in
/-- the upper layer of a SCION payload whose first header has protocol number `nh` -/
def upperLayer (nh : Nat) (payload : Bytes) : Option (Nat × Bytes) :=
  if nh = 200 then
    match decExtBase payload with
    | .error _ => none
    | .ok (b, _, p2) =>
      if b.nextHdr = 200 then none
      else if b.nextHdr = 201 then
        match decExtBase p2 with
        | .error _ => none
        | .ok (b2, _, p3) => if b2.nextHdr = 200 ∨ b2.nextHdr = 201 then none else some (b2.nextHdr, p3)
      else some (b.nextHdr, p2)
  else if nh = 201 then
    match decExtBase payload with
    | .error _ => none
    | .ok (b, _, p2) => if b.nextHdr = 200 ∨ b.nextHdr = 201 then none else some (b.nextHdr, p2)
  else some (nh, payload)

/-- the `MACInput` of a whole packet (header value, payload bytes) for given option metadata -/
def packetAuthIn (h : Hdr) (payload : Bytes) (spi alg ts : Nat) : Option AuthIn :=
  match upperLayer h.cmn.nextHdr payload with
  | none => none
  | some (t, pl) => some ⟨h, spi, alg, ts, t, pl⟩


/-! ### specification vocabulary -/

/-- well-formed input: a well-formed header (`Wire.Hdr.WF` minus the `HdrLen`/`NextHdr`/
`PayloadLen` fields, which the authenticator ignores) and field widths of the option -/
def AuthIn.WF (a : AuthIn) : Prop :=
  a.hdr.cmn.version < 16 ∧ a.hdr.cmn.tc < 256 ∧ a.hdr.cmn.flowID < 2^20 ∧ a.hdr.cmn.pathType < 256 ∧
  a.hdr.cmn.dstType < 16 ∧ a.hdr.cmn.srcType < 16 ∧
  Addr.WF a.hdr.cmn ⟨a.hdr.dstIA, a.hdr.srcIA, a.hdr.rawDst, a.hdr.rawSrc⟩ ∧ PathWF a.hdr.path ∧
  a.spi < 2^32 ∧ a.alg < 256 ∧ a.ts < 2^48 ∧ a.pldType < 256 ∧ a.pld.length < 65536 ∧
  12 + addrHdrLen a.hdr.cmn + pathLen a.hdr.path ≤ 1020


instance (a : AuthIn) : Decidable a.WF := by unfold AuthIn.WF; exact inferInstance

/-- the SPI decides which address parts enter the input; the property compares packets
authenticated under the same kind of SPI (the same key) -/
def SameClass (a b : AuthIn) : Prop :=
  inclIA a.spi = inclIA b.spi ∧ inclDst a.spi = inclDst b.spi ∧ inclSrc a.spi = inclSrc b.spi

/-- "equal on everything the authenticator covers", parameterised by the projection `tcf` of the
traffic class that is covered: version, `tcf` of the traffic class, flow id, path type, address
types, the addresses the SPI does not leave out, the path with its mutable fields zeroed
(`zeroPath`: pointers, SegIDs, router-alert flags; second hop of a one-hop path), upper-layer
type and payload (hence its length), algorithm, timestamp.  NOT in the list, hence free to
differ: `NextHdr`, `PayloadLen`, `HdrLen` field, extension headers, excluded addresses, and
whatever `tcf` and `zeroPath` drop. -/
def ImmutEq (tcf : Nat → Nat) (a b : AuthIn) : Prop :=
  a.hdr.cmn.version = b.hdr.cmn.version ∧ tcf a.hdr.cmn.tc = tcf b.hdr.cmn.tc ∧
  a.hdr.cmn.flowID = b.hdr.cmn.flowID ∧ a.hdr.cmn.pathType = b.hdr.cmn.pathType ∧
  a.hdr.cmn.dstType = b.hdr.cmn.dstType ∧ a.hdr.cmn.srcType = b.hdr.cmn.srcType ∧
  (inclIA a.spi = true → a.hdr.dstIA = b.hdr.dstIA ∧ a.hdr.srcIA = b.hdr.srcIA) ∧
  (inclDst a.spi = true → a.hdr.rawDst = b.hdr.rawDst) ∧
  (inclSrc a.spi = true → a.hdr.rawSrc = b.hdr.rawSrc) ∧
  zeroPath a.hdr.path = zeroPath b.hdr.path ∧
  a.pldType = b.pldType ∧ a.pld = b.pld ∧ a.alg = b.alg ∧ a.ts = b.ts

instance (a b : AuthIn) : Decidable (SameClass a b) := by unfold SameClass; exact inferInstance
instance (tcf : Nat → Nat) (a b : AuthIn) : Decidable (ImmutEq tcf a b) := by
  unfold ImmutEq; exact inferInstance

instance : DecidableEq (Except Err Bytes) := fun a b =>
  match a, b with
  | .ok x, .ok y => if h : x = y then isTrue (by rw [h]) else isFalse (fun e => h (by injection e))
  | .error x, .error y => if h : x = y then isTrue (by rw [h]) else isFalse (fun e => h (by injection e))
  | .ok _, .error _ => isFalse (fun e => by cases e)
  | .error _, .ok _ => isFalse (fun e => by cases e)

/-- an info field with its (mutable) segment identifier cleared -/
def clearSegID (i : Info) : Info := { i with segID := 0 }
/-- a hop field with its (mutable) router-alert flags cleared -/
def clearAlerts (h : Hop) : Hop := { h with inAlert := false, egAlert := false }

/-- what the specification covers of the traffic class: the six DSCP bits ("TC w/o ECN") -/
def specTC (tc : Nat) : Nat := tc / 4
/-- what the code covers of the traffic class: `TrafficClass & 0x3f` -/
def codeTC (tc : Nat) : Nat := tc % 64

end Scion.Spao
