/-!
Model of `pkg/slayers/path/scion`: `MetaHdr.{DecodeFromBytes,SerializeTo}`,
`Base.{DecodeFromBytes,IncPath,IsXover,IsFirstHopAfterXover,infIndexForHF}`,
`Raw.{IsFirstHop,IsPenultimateHop,IsLastHop,CurrINFMatchesCurrHF}` and the pointer part of
`Decoded.Reverse`.  The 32-bit meta line is a `Nat` handled with `/` and `%` (so that `omega`
decides the bit-field facts).  Core Lean only.
-/
namespace Scion.PathMeta

structure Hdr where
  currINF : Nat
  currHF  : Nat
  s0 : Nat
  s1 : Nat
  s2 : Nat
deriving DecidableEq, Repr

/-- `MetaHdr.DecodeFromBytes` on the big-endian value `w` of the four bytes. -/
def decode (w : Nat) : Hdr :=
  { currINF := w / 2^30 % 4
    currHF  := w / 2^24 % 64
    s0 := w / 2^12 % 64
    s1 := w / 2^6 % 64
    s2 := w % 64 }

/-- `MetaHdr.SerializeTo` (`uint32(CurrINF)<<30` keeps two bits, the rest is masked `&0x3F`). -/
def encode (m : Hdr) : Nat :=
  m.currINF % 4 * 2^30 + m.currHF % 64 * 2^24 + m.s0 % 64 * 2^12 + m.s1 % 64 * 2^6 + m.s2 % 64

def Hdr.InRange (m : Hdr) : Prop :=
  m.currINF < 4 ∧ m.currHF < 64 ∧ m.s0 < 64 ∧ m.s1 < 64 ∧ m.s2 < 64

def segLen (m : Hdr) : Nat → Nat
  | 0 => m.s0 | 1 => m.s1 | _ => m.s2

def segStart (m : Hdr) : Nat → Nat
  | 0 => 0 | 1 => m.s0 | _ => m.s0 + m.s1

def sumHops (m : Hdr) : Nat := m.s0 + m.s1 + m.s2

structure Base where
  pm : Hdr
  numINF : Nat
  numHops : Nat
deriving DecidableEq, Repr

/-- one iteration of the `for i := 2; i >= 0; i--` loop of `Base.DecodeFromBytes`;
state = (NumINF, NumHops), `none` = the loop returned an error. -/
def baseStep (m : Hdr) (st : Option (Nat × Nat)) (i : Nat) : Option (Nat × Nat) :=
  match st with
  | none => none
  | some (ninf, nh) =>
    if segLen m i = 0 ∧ ninf > 0 then none
    else some (if segLen m i > 0 ∧ ninf = 0 then i + 1 else ninf, nh + segLen m i)

def maxHops : Nat := 64

/-- `Base.DecodeFromBytes` after the meta line has been split. -/
def baseDecode (m : Hdr) : Option Base :=
  match [2, 1, 0].foldl (baseStep m) (some (0, 0)) with
  | none => none
  | some (ninf, nh) => if nh > maxHops then none else some ⟨m, ninf, nh⟩

/-- `Base.infIndexForHF` -/
def infIdx (m : Hdr) (hf : Nat) : Nat :=
  if hf < m.s0 then 0 else if hf < m.s0 + m.s1 then 1 else 2

/-- `Base.IsXover` (the `uint8` addition cannot wrap: `currHF ≤ 63`). -/
def isXover (b : Base) : Bool :=
  b.pm.currHF + 1 < b.numHops && b.pm.currINF != infIdx b.pm (b.pm.currHF + 1)

/-- `Base.IsFirstHopAfterXover` -/
def isFirstHopAfterXover (b : Base) : Bool :=
  b.pm.currINF > 0 && b.pm.currHF > 0 && b.pm.currINF - 1 == infIdx b.pm (b.pm.currHF - 1)

def isFirstHop (b : Base) : Bool := b.pm.currHF == 0
def isPenultimateHop (b : Base) : Bool := b.pm.currHF + 2 == b.numHops   -- int(CurrHF) == NumHops-2
def isLastHop (b : Base) : Bool := b.pm.currHF + 1 == b.numHops        -- int(CurrHF) == NumHops-1
def currINFMatchesCurrHF (b : Base) : Bool := b.pm.currINF == infIdx b.pm b.pm.currHF

/-- `Base.IncPath`: `.error` carries the state the Go code leaves behind. -/
def incPath (b : Base) : Except Base Base :=
  if b.numINF = 0 then .error b
  else if b.pm.currHF + 1 ≥ b.numHops then
    .error { b with pm := { b.pm with currHF := (b.numHops + 255) % 256 } }   -- uint8(NumHops-1)
  else
    .ok { b with pm := { b.pm with currHF := b.pm.currHF + 1,
                                    currINF := infIdx b.pm (b.pm.currHF + 1) } }

/-- pointer/length part of `Decoded.Reverse` (uint8 arithmetic, `SegLen[0]`/`SegLen[NumINF-1]`
swapped). `none` = "empty decoded path". -/
def reverseMeta (b : Base) : Option Base :=
  if b.numINF = 0 then none
  else
    let m := b.pm
    let m' : Hdr :=
      if b.numINF = 2 then { m with s0 := m.s1, s1 := m.s0 }
      else if b.numINF ≥ 3 then { m with s0 := m.s2, s2 := m.s0 }
      else m
    some { b with pm := { m' with currINF := (b.numINF + 256 - m.currINF % 256 - 1) % 256,
                                   currHF := (b.numHops + 256 - m.currHF % 256 - 1) % 256 } }

/-- `Decoded.Reverse` on the field lists: swap first and last info field, flip every ConsDir,
reverse the hop fields. -/
def swapEnds {α} : List α → List α
  | [] => []
  | [a] => [a]
  | [a, b] => [b, a]
  | [a, b, c] => [c, b, a]
  | l => l   -- NumINF ≤ 3 always

structure Info where
  consDir : Bool
  rest : Nat          -- peer flag, SegID, timestamp: untouched by Reverse
deriving DecidableEq, Repr

def reverseInfos (l : List Info) : List Info :=
  (swapEnds l).map fun i => { i with consDir := !i.consDir }

end Scion.PathMeta
