import Scion.Model.Addr
/-!
# Path-policy sequences, ACLs and policies (`private/path/pathpol`)

* `Rx`: regular expressions over an arbitrary alphabet with predicate atoms, with an executable
  matcher by Brzozowski derivatives (structural recursion on the word).  Instantiated twice:
  over hops with hop predicates (the *meaning* of a sequence expression) and — for the model of
  the listener's compilation — over characters with character classes.
* `HopPred`, `Expr`: abstract syntax of `antlr/Sequence.g4` (the ANTLR parser itself is not
  modelled; the engine hands the tree to the driver).
* `hopsOf`: `GetSequence`'s reading of the interface list; `seqEval`: `Sequence.Eval`.
* `ACL`: `ACL.Eval` / `evalPath` / `evalInterface` / `HopPredicate.pathIFMatch`.
* `policyFilter`: `Policy.Filter` for a policy with ACL and sequence.
* `compile`, `render`: the regular expression the listener builds and the text it is matched
  against, as character-level `Rx`.

Core Lean only.
-/
namespace Scion.Seq
open Scion.Addr (Str)

/-! ## Regular expressions with predicate atoms -/

inductive Rx (π : Type) where
  | zero                       -- accepts nothing
  | eps                        -- accepts the empty word
  | atom (p : π)               -- one letter satisfying `p`
  | cat (a b : Rx π)
  | alt (a b : Rx π)
  | opt (a : Rx π)
  | plus (a : Rx π)
  | star (a : Rx π)
  deriving Repr

namespace Rx
variable {π α : Type}

def nullable : Rx π → Bool
  | zero => false
  | eps => true
  | atom _ => false
  | cat a b => a.nullable && b.nullable
  | alt a b => a.nullable || b.nullable
  | opt _ => true
  | plus a => a.nullable
  | star _ => true

/-- Brzozowski derivative with respect to the letter `x` -/
def deriv (sat : π → α → Bool) : Rx π → α → Rx π
  | zero, _ => zero
  | eps, _ => zero
  | atom p, x => if sat p x then eps else zero
  | cat a b, x =>
    if a.nullable then alt (cat (deriv sat a x) b) (deriv sat b x) else cat (deriv sat a x) b
  | alt a b, x => alt (deriv sat a x) (deriv sat b x)
  | opt a, x => deriv sat a x
  | plus a, x => cat (deriv sat a x) (star a)
  | star a, x => cat (deriv sat a x) (star a)

/-- does the whole word belong to the language of the expression? -/
def accepts (sat : π → α → Bool) : Rx π → List α → Bool
  | e, [] => e.nullable
  | e, x :: xs => accepts sat (deriv sat e x) xs

end Rx

/-! ## Hops and hop predicates -/

/-- one AS on the path with its ingress and egress interface (0 at the ends) -/
structure Hop where
  isd : Nat
  as : Nat
  inIf : Nat
  outIf : Nat
  deriving DecidableEq, Repr

/-- ISD or interface position of a hop predicate: `0` (wildcard) or a number -/
inductive NumPred where
  | wild
  | lit (n : Nat)
  deriving DecidableEq, Repr

def NumPred.ok : NumPred → Nat → Bool
  | .wild, _ => true
  | .lit n, v => n == v

/-- AS position: `-0` (wildcard), a literal that `addr.ParseAS` accepts (the listener pastes its
    canonical text), or a literal it rejects (pasted verbatim: equal to no canonical AS text) -/
inductive ASPred where
  | wild
  | lit (n : Nat)
  | bad
  deriving DecidableEq, Repr

def ASPred.ok : ASPred → Nat → Bool
  | .wild, _ => true
  | .lit n, v => n == v
  | .bad, _ => false

/-- `normalizeAS` applied to the literal's text -/
def asPredOfText (t : Str) : ASPred :=
  match Scion.Addr.parseAS [':'] t with
  | .ok v => .lit v
  | .error _ => .bad

/-- interface part: absent, `#if` (either direction) or `#in,out` -/
inductive IfPred where
  | any
  | either (p : NumPred)
  | both (i o : NumPred)
  deriving DecidableEq, Repr

structure HopPred where
  isd : NumPred
  as : ASPred
  ifs : IfPred
  deriving DecidableEq, Repr

def IfPred.ok : IfPred → Nat → Nat → Bool
  | .any, _, _ => true
  | .either p, i, o => p.ok o || p.ok i
  | .both pi po, i, o => pi.ok i && po.ok o

def HopPred.ok (p : HopPred) (h : Hop) : Bool :=
  p.isd.ok h.isd && p.as.ok h.as && p.ifs.ok h.inIf h.outIf

/-- sequence expressions: the grammar's `sequence` rule (`zero`/`eps` never come out of the
    parser; they are the derivative's by-products) -/
abbrev Expr := Rx HopPred

/-- the path's hop list is in the language of the expression -/
def Expr.accepts (e : Expr) (hs : List Hop) : Bool := Rx.accepts HopPred.ok e hs

/-! ## `GetSequence` and `Sequence.Eval` -/

/-- `snet.PathInterface` -/
structure PIf where
  isd : Nat
  as : Nat
  id : Nat
  deriving DecidableEq, Repr

abbrev Path := List PIf

/-- hops after the first interface: pairs (ingress, egress) of the transit ASes, then the last -/
def midHops : List PIf → Option (List Hop)
  | [] => none
  | [l] => some [⟨l.isd, l.as, l.id, 0⟩]
  | a :: b :: rest =>
    match midHops rest with
    | none => none
    | some hs => some (⟨a.isd, a.as, a.id, b.id⟩ :: hs)

/-- the hop list `GetSequence` prints; `none` for an odd number of interfaces (error) -/
def hopsOf : Path → Option (List Hop)
  | [] => some []
  | f :: rest =>
    match midHops rest with
    | none => none
    | some hs => some (⟨f.isd, f.as, 0, f.id⟩ :: hs)

/-- does `Sequence.Eval` keep the path?  (`none` = the empty sequence string keeps everything;
    a path with an odd number of interfaces is skipped) -/
def seqAccept (s : Option Expr) (p : Path) : Bool :=
  match s with
  | none => true
  | some e =>
    match hopsOf p with
    | none => false
    | some hs => e.accepts hs

/-- `Sequence.Eval` -/
def seqEval (s : Option Expr) (paths : List Path) : List Path := paths.filter (seqAccept s)

/-! ## ACL (`acl.go`, `hop_pred.go`) -/

/-- `pathpol.HopPredicate` as used by ACL entries: 0 = wildcard; one or two interface IDs -/
structure AclPred where
  isd : Nat
  as : Nat
  if0 : Nat
  if1 : Option Nat
  deriving DecidableEq, Repr

/-- `HopPredicate.pathIFMatch(pi, in)` -/
def AclPred.ifMatch (hp : AclPred) (pi : PIf) (ingress : Bool) : Bool :=
  if hp.isd ≠ 0 ∧ pi.isd ≠ hp.isd then false
  else if hp.as ≠ 0 ∧ pi.as ≠ hp.as then false
  else
    let sel := match hp.if1 with
      | some o => if ingress then hp.if0 else o
      | none => hp.if0
    if sel ≠ 0 ∧ sel ≠ pi.id then false else true

structure AclEntry where
  allow : Bool
  rule : Option AclPred
  deriving DecidableEq, Repr

abbrev ACL := List AclEntry

/-- `ACL.evalInterface`: the action of the first matching entry; `none` = the Go code panics
    ("Default ACL action missing") -/
def evalInterface : ACL → PIf → Bool → Option Bool
  | [], _, _ => none
  | e :: es, pi, ingress =>
    match e.rule with
    | none => some e.allow
    | some r => if r.ifMatch pi ingress then some e.allow else evalInterface es pi ingress

/-- `ACL.evalPath`: interfaces at odd positions are ingress interfaces; deny as soon as one
    interface is denied -/
def evalPathFrom (a : ACL) : Nat → Path → Option Bool
  | _, [] => some true
  | i, pi :: rest =>
    match evalInterface a pi (i % 2 != 0) with
    | none => none
    | some false => some false
    | some true => evalPathFrom a (i + 1) rest

def evalPath (a : ACL) (p : Path) : Option Bool := evalPathFrom a 0 p

/-- `ACL.Eval`; `none` = panic.  A nil ACL or one without entries returns the input. -/
def aclEvalGo (a : ACL) : List Path → Option (List Path)
  | [] => some []
  | p :: ps =>
    match evalPath a p with
    | none => none
    | some keep =>
      match aclEvalGo a ps with
      | none => none
      | some r => some (if keep then p :: r else r)

def aclEval (a : ACL) (paths : List Path) : Option (List Path) :=
  match a with
  | [] => some paths
  | _ :: _ => aclEvalGo a paths

/-- `validateACL`: the first entry that accepts everything exists and is the last one -/
def AclEntry.matchesAll (e : AclEntry) : Bool :=
  match e.rule with
  | none => true
  | some r => r.isd == 0 && r.as == 0

def validACL : ACL → Bool
  | [] => false
  | [e] => e.matchesAll
  | e :: es => !e.matchesAll && validACL es

/-- `Policy.Filter` for a policy with ACL and sequence (no options, no local/remote ISD-AS) -/
def policyFilter (a : ACL) (s : Option Expr) (paths : List Path) : Option (List Path) :=
  match aclEval a paths with
  | none => none
  | some r => some (seqEval s r)

/-! ## The listener's regular expression and the textual hop list -/

/-- character classes used by the listener's output -/
inductive CC where
  | chr (c : Char)
  | digit       -- `[0-9]`
  | hex         -- `[0-9a-fA-F]`
  deriving DecidableEq, Repr

def CC.ok : CC → Char → Bool
  | .chr c, x => c == x
  | .digit, x => 48 ≤ x.toNat && x.toNat ≤ 57
  | .hex, x => (48 ≤ x.toNat && x.toNat ≤ 57) || (97 ≤ x.toNat && x.toNat ≤ 102) ||
      (65 ≤ x.toNat && x.toNat ≤ 70)

abbrev Re := Rx CC

def Re.accepts (r : Re) (s : Str) : Bool := Rx.accepts CC.ok r s

/-- the literal text `s` as a regular expression -/
def lit : Str → Re
  | [] => .eps
  | c :: cs => .cat (.atom (.chr c)) (lit cs)

def digits1 : Re := .plus (.atom .digit)        -- `([0-9]+)`
def hex1 : Re := .plus (.atom .hex)             -- `[0-9a-fA-F]+`
def colon : Re := .atom (.chr ':')

/-- `asWildcard` -/
def asWildRe : Re := .alt digits1 (.cat hex1 (.cat colon (.cat hex1 (.cat colon hex1))))

def numRe : NumPred → Re
  | .wild => digits1
  | .lit n => lit (Scion.Addr.toDigits 10 n)

/-- the AS position; `bad` carries no text in the model: it is compiled to `zero`
    (sound because the verbatim text equals no canonical AS text, see `ASPred`) -/
def asRe : ASPred → Re
  | .wild => asWildRe
  | .lit n => lit (Scion.Addr.fmtAS [':'] n)
  | .bad => .zero

def ifsRe : IfPred → Re
  | .any => .cat digits1 (.cat (.atom (.chr ',')) digits1)
  | .either p => .alt (.cat digits1 (.cat (.atom (.chr ',')) (numRe p)))
                      (.cat (numRe p) (.cat (.atom (.chr ',')) digits1))
  | .both i o => .cat (numRe i) (.cat (.atom (.chr ',')) (numRe o))

/-- `ExitISDHop` … `ExitISDASIFIFHop` followed by `ExitHop` (`(%s +)`) -/
def hopRe (p : HopPred) : Re :=
  .cat (numRe p.isd) (.cat (.atom (.chr '-')) (.cat (asRe p.as) (.cat (.atom (.chr '#'))
    (.cat (ifsRe p.ifs) (.plus (.atom (.chr ' ')))))))

/-- the regular expression the listener leaves on its stack (anchored by `^…$`, i.e. matched
    against the whole text) -/
def compile : Expr → Re
  | .zero => .zero
  | .eps => .eps
  | .atom p => hopRe p
  | .cat a b => .cat (compile a) (compile b)
  | .alt a b => .alt (compile a) (compile b)
  | .opt a => .opt (compile a)
  | .plus a => .plus (compile a)
  | .star a => .star (compile a)

/-- `hop(ia, in, out)`: `isd-as#in,out` -/
def hopText (h : Hop) : Str :=
  Scion.Addr.toDigits 10 h.isd ++ ['-'] ++ Scion.Addr.fmtAS [':'] h.as ++ ['#'] ++
    Scion.Addr.toDigits 10 h.inIf ++ [','] ++ Scion.Addr.toDigits 10 h.outIf

/-- the text `Eval` matches the expression against: hops joined by one space, plus a trailing space when there
    is at least one hop -/
def render : List Hop → Str
  | [] => []
  | h :: hs => hopText h ++ [' '] ++ render hs

/-- `Sequence.Eval` as the code computes it: regular expression against text -/
def seqAcceptRe (s : Option Expr) (p : Path) : Bool :=
  match s with
  | none => true
  | some e =>
    match hopsOf p with
    | none => false
    | some hs => (compile e).accepts (render hs)

end Scion.Seq
