/-!
Model of the TRC payload validation of `pkg/scrypto/cppki`: `TRC.Validate` (trc.go),
`TRCID.Validate` (id.go), `Validity.Validate/Covers` (validity.go), `validateASSequence`,
`classifyCerts`, `uniqueSubject`.

X.509 / ASN.1 are not modelled (DESIGN §3): a certificate is the tuple of facts the decision
logic consumes, obtained by the harness from the real object with the repo's own functions
(`ValidateCert`, `findIA`, `equalName`, `big.Int.Cmp`, …).  The checks are modelled in the order
of the Go code; every Go guard is a guard here and every `return err` an explicit error value.
Core Lean only.
-/
namespace Scion.Trc

/-- outcome of `ValidateCert` on a certificate -/
inductive Cls where
  | bad    -- `ValidateCert` returned an error
  | sens | reg | root | ca | as
deriving DecidableEq, Repr

/-- the facts about one `*x509.Certificate` -/
structure Cert where
  /-- identity of the DER bytes (`cert.Raw`) -/
  id : Nat
  cls : Cls
  /-- subject, up to `equalName` -/
  subj : Nat
  /-- issuer, up to `equalName` -/
  issN : Nat
  /-- issuer, raw DER bytes (`cert.RawIssuer`, used by CMS `FindCertificate`) -/
  issR : Nat
  /-- serial number (up to `big.Int.Cmp`) -/
  serial : Nat
  /-- value of the subject-key-id extension (CMS v3 signer identifiers), if present -/
  ski : Option Nat
  /-- `findIA(cert.Subject)`: 0 = error, 1 = no ISD-AS attribute, 2 = ISD-AS present -/
  iaKind : Nat
  /-- ISD of the subject's ISD-AS (meaningful when `iaKind = 2`) -/
  isd : Nat
  /-- validity, unix nanoseconds -/
  nb : Int
  na : Int
deriving DecidableEq, Repr

/-- the facts about a TRC payload (`cppki.TRC`); the description is irrelevant to validation -/
structure TRC where
  version : Int
  isd : Nat
  base : Nat
  serial : Nat
  nb : Int
  na : Int
  /-- grace period (nanoseconds) -/
  grace : Int
  noTrustReset : Bool
  votes : List Int
  quorum : Int
  core : List Nat
  auth : List Nat
  certs : List Cert
deriving DecidableEq, Repr

/-- the sentinel errors of `TRC.Validate` (one value per sentinel / call site) -/
inductive Err where
  | version | idWildcard | idSerialBeforeBase | idReserved | validity | grace | votesOnBase
  | quorum | noASes | wildcardAS | dupAS | unclassified | certType | voters | iaErr | otherISD
  | notCovered | dup
deriving DecidableEq, Repr

/-- sequencing of two checks: the first error wins (`if err := …; err != nil { return err }`) -/
def andThen (a b : Except Err Unit) : Except Err Unit :=
  match a with
  | .error e => .error e
  | .ok _ => b

/-- `TRCID.IsBase` -/
def TRC.isBase (t : TRC) : Bool := t.serial == t.base

/-- `TRCID.Validate` -/
def checkID (t : TRC) : Except Err Unit :=
  if t.isd = 0 then .error .idWildcard
  else if t.base > t.serial then .error .idSerialBeforeBase
  else if t.base = 0 then .error .idReserved
  else .ok ()

/-- `Validate` up to and including the quorum range check -/
def checkHead (t : TRC) : Except Err Unit :=
  if t.version ≠ 1 then .error .version
  else andThen (checkID t) <|
    if ¬ (t.nb < t.na) then .error .validity                      -- `!NotAfter.After(NotBefore)`
    else if t.isBase = true ∧ t.grace ≠ 0 then .error .grace
    else if t.isBase = true ∧ t.votes ≠ [] then .error .votesOnBase
    else if t.quorum < 1 ∨ t.quorum > 255 then .error .quorum
    else .ok ()

/-- the loop of `validateASSequence` -/
def asSeqLoop : List Nat → Except Err Unit
  | [] => .ok ()
  | a :: rest =>
    if a = 0 then .error .wildcardAS
    else if a ∈ rest then .error .dupAS
    else asSeqLoop rest

/-- `validateASSequence` -/
def asSeq (l : List Nat) : Except Err Unit :=
  if l = [] then .error .noASes else asSeqLoop l

/-- `classifyCerts`: the error of the first certificate that is not a voting/root certificate -/
def classify : List Cert → Except Err Unit
  | [] => .ok ()
  | c :: cs =>
    match c.cls with
    | .bad => .error .unclassified
    | .ca => .error .certType
    | .as => .error .certType
    | _ => classify cs

/-- `len(cl.Sensitive)` etc. -/
def countCls (k : Cls) (cs : List Cert) : Nat := (cs.filter (fun c => c.cls = k)).length

/-- the per-certificate loop: ISD and validity coverage -/
def checkCerts (t : TRC) : List Cert → Except Err Unit
  | [] => .ok ()
  | c :: cs =>
    if c.iaKind = 0 then .error .iaErr
    else if c.iaKind = 2 ∧ c.isd ≠ t.isd then .error .otherISD
    else if ¬ (c.nb ≤ t.nb ∧ t.na ≤ c.na) then .error .notCovered   -- `Covers`
    else checkCerts t cs

def sameIssuerSerial (a b : Cert) : Bool := a.serial == b.serial && a.issN == b.issN

/-- the nested loop "issuer-SN pair is unique" -/
def issSerialUnique : List Cert → Except Err Unit
  | [] => .ok ()
  | a :: rest => if rest.any (sameIssuerSerial a) then .error .dup else issSerialUnique rest

/-- `uniqueSubject` on a list of subjects -/
def subjUniqueLoop : List Nat → Except Err Unit
  | [] => .ok ()
  | a :: rest => if a ∈ rest then .error .dup else subjUniqueLoop rest

def subjectsOf (k : Cls) (cs : List Cert) : List Nat :=
  (cs.filter (fun c => c.cls = k)).map (fun c => c.subj)

/-- `TRC.Validate` from `classifyCerts` on -/
def checkBody (t : TRC) : Except Err Unit :=
  andThen (classify t.certs) <|
    if (countCls .sens t.certs : Int) < t.quorum then .error .voters
    else if (countCls .reg t.certs : Int) < t.quorum then .error .voters
    else
      andThen (checkCerts t t.certs) <|
      andThen (issSerialUnique t.certs) <|
      andThen (subjUniqueLoop (subjectsOf .sens t.certs)) <|
      andThen (subjUniqueLoop (subjectsOf .reg t.certs)) <|
      subjUniqueLoop (subjectsOf .root t.certs)

/-- `TRC.Validate` -/
def validate (t : TRC) : Except Err Unit :=
  andThen (checkHead t) <| andThen (asSeq t.core) <| andThen (asSeq t.auth) <| checkBody t

def Err.name : Err → String
  | .version => "version" | .idWildcard => "id-wildcard" | .idSerialBeforeBase => "id-serial<base"
  | .idReserved => "id-reserved" | .validity => "validity" | .grace => "grace"
  | .votesOnBase => "votes-on-base" | .quorum => "quorum" | .noASes => "no-ases"
  | .wildcardAS => "wildcard-as" | .dupAS => "dup-as" | .unclassified => "unclassified"
  | .certType => "cert-type" | .voters => "voters" | .iaErr => "ia-err" | .otherISD => "other-isd"
  | .notCovered => "not-covered" | .dup => "dup"

end Scion.Trc
