import Scion.Model.Stores
/-!
# Hidden-path registry and authoritative server (property C45)

Decision models of `hiddenpath.RegistryServer.Register` and
`hiddenpath.AuthoritativeServer.Segments` (`canRead`, `isAuthoritative`) over the abstract
path-segment store of `Scion.Model.Stores` (`Storer.Put` = `InsertWithHPGroupIDs` with the single
group, `Storer.Get` = `Get` with `EndsAt = [dst]` and `HPGroupIDs = groups`).  The outcome of
signature verification (`Verifier.Verify`) is a parameter.  Core Lean only.
-/
namespace Scion.Hidden
open Scion.Stores

/-- `hiddenpath.Group` (the id as `GroupID.ToUint64`) -/
structure Group where
  id : Nat
  owner : IA
  writers : List IA
  readers : List IA
  registries : List IA
  deriving Repr

/-- `map[GroupID]*Group`: first entry with the id -/
def findGroup : List Group → Nat → Option Group
  | [], _ => none
  | g :: rest, id => if g.id = id then some g else findGroup rest id

/-- `seg.TypeDown` -/
def typeDown : Nat := 2

/-- `hiddenpath.Registration`; `verifies` = the outcome of `Verifier.Verify(segments, peer)` -/
structure Registration where
  groupID : Nat
  peer : IA
  segs : List (SegIn × Nat)
  verifies : Bool
  deriving Repr

inductive RegErr where
  | unknownGroup | notWriter | notRegistry | wrongType | verify
  deriving DecidableEq, Repr

/-- the validation part of `RegistryServer.Register`, in source order -/
def registerCheck (groups : List Group) (localIA : IA) (reg : Registration) : Except RegErr Unit :=
  match findGroup groups reg.groupID with
  | none => .error .unknownGroup
  | some g =>
    if !(g.writers.contains reg.peer) then .error .notWriter
    else if !(g.registries.contains localIA) then .error .notRegistry
    else if reg.segs.any (fun s => s.2 != typeDown) then .error .wrongType
    else if !reg.verifies then .error .verify
    else .ok ()

/-- `Storer.Put`: one `InsertWithHPGroupIDs(seg, [group])` per segment -/
def put (segs : List SegRec) (items : List (SegIn × Nat)) (group tick : Nat) : List SegRec :=
  items.foldl (fun s it => (insertSeg s it.1 it.2 [group] tick).1) segs

/-- `RegistryServer.Register` -/
def register (groups : List Group) (localIA : IA) (segs : List SegRec) (reg : Registration)
    (tick : Nat) : Except RegErr (List SegRec) :=
  match registerCheck groups localIA reg with
  | .error e => .error e
  | .ok () => .ok (put segs reg.segs reg.groupID tick)

/-- `hiddenpath.SegmentRequest` -/
structure Request where
  groupIDs : List Nat
  dst : IA
  peer : IA
  deriving Repr

inductive SrvErr where
  | noGroups | unknownGroup | notAllowed | notAuthoritative
  deriving DecidableEq, Repr

/-- `canRead` -/
def canRead (peer : IA) (g : Group) : Bool :=
  g.owner == peer || g.registries.contains peer || g.writers.contains peer ||
    g.readers.contains peer

/-- `isAuthoritative` -/
def isAuthoritative (localIA : IA) (g : Group) : Bool := g.registries.contains localIA

/-- the loop over the requested group ids: first failure wins -/
def checkGroups (groups : List Group) (localIA peer : IA) : List Nat → Except SrvErr Unit
  | [] => .ok ()
  | id :: rest =>
    match findGroup groups id with
    | none => .error .unknownGroup
    | some g =>
      if !canRead peer g then .error .notAllowed
      else if !isAuthoritative localIA g then .error .notAuthoritative
      else checkGroups groups localIA peer rest

/-- the query of `Storer.Get` -/
def storerParams (req : Request) : Params := ⟨[], [], req.groupIDs, [], [], [req.dst]⟩

/-- `AuthoritativeServer.Segments` -/
def segments (groups : List Group) (localIA : IA) (segs : List SegRec) (req : Request) :
    Except SrvErr (List Entry) :=
  if req.groupIDs.isEmpty then .error .noGroups
  else
    match checkGroups groups localIA req.peer req.groupIDs with
    | .error e => .error e
    | .ok () => .ok (getSegs segs (storerParams req))

/-! ## Histories of a registry that is also the authoritative server -/

inductive Op where
  | register (reg : Registration)
  | segments (req : Request)
  deriving Repr

inductive Out where
  | registered (r : Except RegErr Unit)
  | served (r : Except SrvErr (List Entry))
  deriving Repr

def step (groups : List Group) (localIA : IA) (segs : List SegRec) (tick : Nat) :
    Op → List SegRec × Out
  | .register reg =>
    match register groups localIA segs reg tick with
    | .error e => (segs, .registered (.error e))
    | .ok s' => (s', .registered (.ok ()))
  | .segments req => (segs, .served (segments groups localIA segs req))

def run (groups : List Group) (localIA : IA) (segs : List SegRec) (tick : Nat) :
    List Op → List SegRec × List Out
  | [] => (segs, [])
  | op :: rest =>
    let x := step groups localIA segs tick op
    let y := run groups localIA x.1 (tick + 1) rest
    (y.1, x.2 :: y.2)

end Scion.Hidden
