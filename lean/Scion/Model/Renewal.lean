import Scion.Model.Chain
/-!
# Certificate renewal: request verification and chain issuance (C37)

Mirrors `private/ca/renewal/request.go` (`RequestVerifier.VerifyCMSSignedRenewalRequest`,
`ExtractChain`, `VerifySignature`, `verifyClientChain`, `verifyWithGraceTRC`, `verifySignerInfo`,
`processCSR`) and `pkg/scrypto/cppki/ca.go` (`CAPolicy.CreateChain`).

CMS / X.509 / ECDSA are not modelled: a request is the record of the facts the decision logic
consumes — what parsed, the certificates' fields, which certificate the signer identifier
selects, whether the message-digest attribute equals the digest of the payload, whether the
signature over the signed attributes checks against the AS certificate's key, whether the chain
verifies against a TRC now, the CSR's subject ISD-AS and whether its self-signature checks — each
obtained by the harness by calling the corresponding primitive itself.  Core Lean only.
-/
namespace Scion.Renewal
open Scion.Chain

inductive XErr where
  | certs | count | firstInvalid | chain (e : ChainErr)
  deriving Repr, DecidableEq

/-- `ExtractChain`: exactly two certificates; if the first one is a (valid) CA certificate the
two are swapped; then `ValidateChain`.  Result: (AS, CA, swapped). -/
def extractChain (certsOk : Bool) (certs : List (Option Cert)) : Except XErr (Cert × Cert × Bool) :=
  if !certsOk then .error .certs else
  match certs with
  | [c0, c1] =>
    match validateCert c0 with
    | (_, false) => .error .firstInvalid
    | (t, true) =>
      if t = .ca then
        match validateChain [c1, c0] with
        | .ok (a, c) => .ok (a, c, true)
        | .error e => .error (.chain e)
      else
        match validateChain [c0, c1] with
        | .ok (a, c) => .ok (a, c, false)
        | .error e => .error (.chain e)
  | _ => .error .count

/-- the TRC side of `verifyClientChain` -/
structure TrcFacts where
  /-- `TRCFetcher.SignedTRC` for the latest TRC of the chain's ISD -/
  latest : Lookup
  /-- … for `(base, serial - 1)` of that TRC -/
  pred : Lookup
  now : Int
  /-- Go's zero time (grace-period end of a base TRC) -/
  zeroTime : Int
  /-- oracle: `VerifyChain(chain, latest)` / `VerifyChain(chain, pred)` succeed now -/
  okLatest : Bool
  okPred : Bool
  deriving Repr

inductive CErr where
  | noIA | fetch | notFound | inactive | verifyAfterGrace | graceFetch | graceNotFound
  | graceInactive | graceVerify
  deriving Repr, DecidableEq

/-- `verifyWithGraceTRC` -/
def verifyWithGrace (f : TrcFacts) : Except CErr Unit :=
  match f.pred with
  | .err => .error .graceFetch
  | .zero => .error .graceNotFound
  | .found g =>
    if !contains g.notBefore g.notAfter f.now then .error .graceInactive
    else if f.okPred then .ok () else .error .graceVerify

/-- `verifyClientChain` for an AS certificate `a` -/
def verifyClientChain (a : Cert) (f : TrcFacts) : Except CErr Unit :=
  if !a.subjectIA.isOk then .error .noIA else
  match f.latest with
  | .err => .error .fetch
  | .zero => .error .notFound
  | .found t =>
    if !contains t.notBefore t.notAfter f.now then .error .inactive
    else if f.okLatest then .ok ()
    else if f.now > t.graceEnd f.zeroTime then .error .verifyAfterGrace
    else verifyWithGrace f

/-- the CMS facts `VerifySignature` consumes -/
structure SigFacts where
  sdVersion : Nat
  nSignerInfos : Nat
  /-- which certificate of the extracted chain (0 = AS, 1 = CA) `FindCertificate` selects -/
  signerIdx : Option Nat
  isTypeData : Bool
  econtentOk : Bool
  /-- message-digest attribute present and equal to the digest of the payload -/
  digestMatch : Bool
  /-- the signature over the signed attributes checks against the AS certificate's key -/
  sigOk : Bool
  deriving Repr

inductive SErr where
  | version | signerInfos | noSigner | notASCert | client (e : CErr) | contentType | payload
  | digest | signature
  deriving Repr, DecidableEq

/-- `VerifySignature` -/
def verifySignature (a : Cert) (s : SigFacts) (f : TrcFacts) : Except SErr Unit :=
  if s.sdVersion ≠ 1 then .error .version else
  if s.nSignerInfos ≠ 1 then .error .signerInfos else
  match s.signerIdx with
  | none => .error .noSigner
  | some i =>
    if i ≠ 0 then .error .notASCert else
    match verifyClientChain a f with
    | .error e => .error (.client e)
    | .ok _ =>
      if !s.isTypeData then .error .contentType else
      if !s.econtentOk then .error .payload else
      if !s.digestMatch then .error .digest else
      if !s.sigOk then .error .signature else .ok ()

/-- the CSR facts `processCSR` consumes -/
structure CsrFacts where
  parseOk : Bool
  subjectIA : IARes
  sigOk : Bool
  /-- identity of the public key in the CSR -/
  keyId : Nat
  deriving Repr

inductive RErr where
  | parse | extract (e : XErr) | sig (e : SErr) | payload | csrParse | csrIA | chainIA
  | subjectMismatch | csrSignature
  deriving Repr, DecidableEq

/-- `processCSR` -/
def processCSR (csr : CsrFacts) (a : Cert) : Except RErr Unit :=
  match csr.subjectIA with
  | .ok cia =>
    match a.subjectIA with
    | .ok aia =>
      if cia ≠ aia then .error .subjectMismatch
      else if !csr.sigOk then .error .csrSignature else .ok ()
    | _ => .error .chainIA
  | _ => .error .csrIA

structure Request where
  /-- `ParseContentInfo` and `SignedDataContent` succeed -/
  parseOk : Bool
  /-- `sd.X509Certificates()` succeeds -/
  certsOk : Bool
  certs : List (Option Cert)
  sig : SigFacts
  trc : TrcFacts
  csr : CsrFacts
  deriving Repr

/-- `VerifyCMSSignedRenewalRequest`; on success the accepted CSR's facts are returned together
with the client chain. -/
def verifyRequest (r : Request) : Except RErr (Cert × Cert) :=
  if !r.parseOk then .error .parse else
  match extractChain r.certsOk r.certs with
  | .error e => .error (.extract e)
  | .ok (a, c, _) =>
    match verifySignature a r.sig r.trc with
    | .error e => .error (.sig e)
    | .ok _ =>
      if !r.sig.econtentOk then .error .payload else
      if !r.csr.parseOk then .error .csrParse else
      match processCSR r.csr a with
      | .error e => .error e
      | .ok _ => .ok (a, c)

/-! ### `CAPolicy.CreateChain` -/

/-- truncation of an instant (ns) to whole seconds, as the DER time encoding does; the harness'
reference instant is a whole second -/
def truncSec (t : Int) : Int := t / 1000000000 * 1000000000

structure IssueIn where
  /-- the CA certificate of the policy -/
  ca : Cert
  /-- `CAPolicy.Validity` (ns) and the signing time -/
  validity : Int
  now : Int
  csrSubjectIA : IARes
  csrKeyId : Nat
  /-- `cppki.SubjectKeyID(csr.PublicKey)` succeeds (ECDSA key) -/
  skidOk : Bool
  /-- `x509.CreateCertificate` + `ParseCertificate` succeed (oracle) -/
  createOk : Bool
  /-- signature algorithm the CA key produces (`x509.SignatureAlgorithm` of the new certificate) -/
  sigAlg : Nat
  /-- the CA certificate's SubjectKeyId is empty / equals the new certificate's key id -/
  caSkidEmpty : Bool
  caSkidIsNew : Bool
  deriving Repr

/-- the AS certificate `CreateChain` issues (fields of the template after the DER round trip) -/
def issuedCert (i : IssueIn) : Cert :=
  { version := 3, hasSerial := true, sigAlg := i.sigAlg, skidEmpty := false,
    akid := if i.caSkidEmpty then 0 else if i.caSkidIsNew then 2 else 1,
    skidExt := some false, akidExt := if i.caSkidEmpty then none else some false, bcExt := none,
    keyUsage := 1, eku := [1, 2, 8], ueku := [], bcValid := false, isCA := false,
    maxPathLen := 0, issuerIA := i.ca.subjectIA, subjectIA := i.csrSubjectIA,
    notBefore := truncSec i.now, notAfter := truncSec (i.now + i.validity), keyId := i.csrKeyId }

inductive IErr where
  | notCovered | skid | create | invalid (e : ChainErr)
  deriving Repr, DecidableEq

/-- `CAPolicy.CreateChain` -/
def createChain (i : IssueIn) : Except IErr (Cert × Cert) :=
  if !covers i.ca.notBefore i.ca.notAfter i.now (i.now + i.validity) then .error .notCovered else
  if !i.skidOk then .error .skid else
  if !i.createOk then .error .create else
  match validateChain [some (issuedCert i), some i.ca] with
  | .ok p => .ok p
  | .error e => .error (.invalid e)

end Scion.Renewal
