/-!
Model of `control/beaconing/extender.go` (`DefaultExtender.Extend`, `createHopEntry`,
`createPeerEntries`, `createPeerEntry`, `createHopF`, `remoteIA`, `remoteMTU`, `remoteInfo`,
`extractBeta`), of `path.MACInput`, `path.ExpTimeToDuration`, `path.ExpTimeFromDuration`
(`pkg/slayers/path`), `trust.LastExpiring` (`private/trust/signer.go`) and
`PathSegment.Validate` / `associatedData` (`pkg/segment/seg.go`).

Times are nanoseconds (`Int`); the segment timestamp is whole seconds.  The hop-field MAC
(`s.MAC()`, a `hash.Hash` over the 16-byte MAC input) is the parameter `mac`; the signature
primitive is outside the model (the signed message and its associated data are modelled as
byte strings).  Static-info, discovery and EPIC extensions are not modelled.  Core Lean only.
-/
namespace Scion.Extend

abbrev Bytes := List UInt8
abbrev IA := Nat × Nat

def IA.isWildcard (ia : IA) : Bool := ia.1 == 0 || ia.2 == 0
def IA.zero : IA := (0, 0)

/-! ### hop expiry encoding -/

/-- `path.MaxTTL` = 24 h in ns -/
def maxTTL : Int := 86400000000000
/-- `expTimeUnit = MaxTTL / 256` -/
def expTimeUnit : Int := 337500000000

/-- `path.ExpTimeToDuration` -/
def expTimeToDuration (e : Nat) : Int := ((e : Int) + 1) * expTimeUnit

/-- `path.ExpTimeFromDuration`; `none` = error.  `% 256` is the `uint8(...)` conversion. -/
def expTimeFromDuration (d : Int) : Option Nat :=
  if d < expTimeUnit then none
  else if d > maxTTL then none
  else some (((d * 256) / maxTTL - 1) % 256).toNat

/-! ### MAC input and accumulator -/

def be16 (n : Nat) : Bytes := [UInt8.ofNat (n / 256 % 256), UInt8.ofNat (n % 256)]
def be32 (n : Nat) : Bytes :=
  [UInt8.ofNat (n / 16777216 % 256), UInt8.ofNat (n / 65536 % 256), UInt8.ofNat (n / 256 % 256),
   UInt8.ofNat (n % 256)]

/-- `path.MACInput(segID, timestamp, expTime, consIngress, consEgress)` (16 bytes) -/
def macInput (beta ts exp ingress egress : Nat) : Bytes :=
  [0, 0] ++ be16 beta ++ be32 ts ++ [0, UInt8.ofNat exp] ++ be16 ingress ++ be16 egress ++ [0, 0]

/-- `binary.BigEndian.Uint16(MAC[:2])` -/
def sigma (m : Bytes) : Nat :=
  match m with
  | a :: b :: _ => a.toNat * 256 + b.toNat
  | _ => 0

structure HopF where
  expTime : Nat
  inIf : Nat
  egIf : Nat
  mac : Bytes
deriving DecidableEq, Repr

structure PeerEntry where
  peer : IA
  peerIf : Nat
  peerMtu : Nat
  hop : HopF
deriving DecidableEq, Repr

structure ASEntry where
  loc : IA
  next : IA
  mtu : Nat
  ingressMtu : Nat
  hop : HopF
  peers : List PeerEntry
deriving DecidableEq, Repr

structure Seg where
  segID : Nat
  ts : Nat            -- `Info.Timestamp`, seconds
  entries : List ASEntry
deriving DecidableEq, Repr

/-- `extractBeta(pseg)` -/
def extractBeta (s : Seg) : Nat :=
  s.entries.foldl (fun beta e => beta ^^^ sigma e.hop.mac) s.segID

/-! ### configuration -/

structure IfInfo where
  ia : IA
  remoteID : Nat
  mtu : Nat
deriving DecidableEq, Repr

structure Cfg where
  ia : IA
  mtu : Nat
  maxExp : Nat
  ifs : List (Nat × IfInfo)      -- `Intfs.Get` = lookup by interface id
  mac : Bytes → Bytes            -- `s.MAC()`: full (16-byte) MAC of the 16-byte input

structure Signer where
  notBefore : Int
  notAfter : Int
deriving DecidableEq, Repr

/-- `cppki.Validity.Covers` -/
def Signer.covers (s : Signer) (nb na : Int) : Bool := !(nb < s.notBefore) && !(na > s.notAfter)

/-- the selection loop of `trust.LastExpiring` over the candidates -/
def latest : Signer → List Signer → Signer
  | cur, [] => cur
  | cur, s :: rest => if s.notAfter > cur.notAfter then latest s rest else latest cur rest

/-- `trust.LastExpiring(signers, Validity{nb, na})` -/
def lastExpiring (signers : List Signer) (nb na : Int) : Option Signer :=
  match signers.filter (fun s => s.covers nb na) with
  | [] => none
  | c :: cs => some (latest c cs)

/-- `remoteIA(ifID)`; `none` = error -/
def remoteIA (c : Cfg) (ifID : Nat) : Option IA :=
  if ifID = 0 then some IA.zero
  else match c.ifs.lookup ifID with
    | none => none
    | some i => if i.ia.isWildcard then none else some i.ia

/-- `remoteMTU(ifID)` -/
def remoteMTU (c : Cfg) (ifID : Nat) : Option Nat :=
  if ifID = 0 then some 0
  else match c.ifs.lookup ifID with
    | none => none
    | some i => some i.mtu

/-- `remoteInfo(ifID)` -/
def remoteInfo (c : Cfg) (ifID : Nat) : Option (IA × Nat × Nat) :=
  if ifID = 0 then some (IA.zero, 0, 0)
  else match c.ifs.lookup ifID with
    | none => none
    | some i =>
      if i.remoteID = 0 then none
      else if i.ia.isWildcard then none
      else some (i.ia, i.remoteID, i.mtu)

/-- `createHopF`: the hop field with the first 6 bytes of the MAC.  `none` = the hash returned
fewer than 6 bytes (slice out of range). -/
def createHopF (c : Cfg) (ingress egress exp ts beta : Nat) : Option HopF :=
  let full := c.mac (macInput beta ts exp ingress egress)
  if full.length < 6 then none
  else some ⟨exp, ingress, egress, full.take 6⟩

/-- `createPeerEntry` -/
def createPeerEntry (c : Cfg) (peerIf egress exp ts beta : Nat) : Option PeerEntry :=
  match remoteInfo c peerIf with
  | none => none
  | some (ia, rid, mtu) =>
    match createHopF c peerIf egress exp ts beta with
    | none => none
    | some h => some ⟨ia, rid, mtu, h⟩

/-- `createPeerEntries`: peers whose entry cannot be built are skipped -/
def createPeerEntries (c : Cfg) (egress : Nat) (peers : List Nat) (exp ts beta : Nat) :
    List PeerEntry :=
  peers.filterMap fun p => createPeerEntry c p egress exp ts beta

/-! ### `PathSegment.Validate` -/

/-- the per-entry loop of `Validate`; `beacon` = `ValidateBeacon` -/
def validateFrom (beacon : Bool) : List ASEntry → Bool
  | [] => true
  | [e] =>
    (if beacon then !e.next.isWildcard && e.hop.egIf != 0
     else e.next == IA.zero && e.hop.egIf == 0)
    && e.peers.all (fun p => p.hop.egIf == e.hop.egIf)
  | e :: e' :: rest =>
    e.next == e'.loc && e.peers.all (fun p => p.hop.egIf == e.hop.egIf)
      && validateFrom beacon (e' :: rest)

def validate (beacon : Bool) (es : List ASEntry) : Bool :=
  match es with
  | [] => false
  | e :: _ => e.hop.inIf == 0 && validateFrom beacon es

/-! ### `Extend` -/

inductive Result
  | error                      -- an error before the segment was touched
  | errorAppended (s : Seg)    -- `Validate` failed after the entry had been appended
  | ok (e : ASEntry) (s : Seg) (signer : Signer)
  | panic

def nsPerSec : Int := 1000000000

/-- the expiry computation of `Extend`: `none` = `ExpTimeFromDuration` error -/
def hopExpTime (maxExp : Nat) (tsNs signerExp : Int) : Option Nat :=
  if tsNs + expTimeToDuration maxExp > signerExp then expTimeFromDuration (signerExp - tsNs)
  else some maxExp

/-- `DefaultExtender.Extend(ctx, pseg, ingress, egress, peers)`; `now` = the `time.Now()` read
inside. -/
def extend (c : Cfg) (s : Seg) (ingress egress : Nat) (peers : List Nat) (signers : List Signer)
    (now : Int) : Result :=
  if c.mtu = 0 then .error
  else
    let firstHop := s.entries.isEmpty
    if ingress = 0 ∧ !firstHop then .error
    else if ingress ≠ 0 ∧ firstHop then .error
    else if ingress = 0 ∧ egress = 0 then .error
    else
      let tsNs : Int := (s.ts : Int) * nsPerSec
      match lastExpiring signers tsNs now with
      | none => .error
      | some signer =>
        match hopExpTime c.maxExp tsNs signer.notAfter with
        | none => .error
        | some exp =>
          let hopBeta := extractBeta s
          match remoteMTU c ingress with
          | none => .error
          | some inMtu =>
            match createHopF c ingress egress exp s.ts hopBeta with
            | none => .panic
            | some hop =>
              let peerBeta := hopBeta ^^^ sigma hop.mac
              let peerEntries := createPeerEntries c egress peers exp s.ts peerBeta
              match remoteIA c egress with
              | none => .error
              | some next =>
                let e : ASEntry := ⟨c.ia, next, c.mtu, inMtu, hop, peerEntries⟩
                let s' : Seg := { s with entries := s.entries ++ [e] }
                if validate (egress != 0) s'.entries then .ok e s' signer
                else .errorAppended s'

/-! ### signature input -/

/-- an AS entry as signed: `Signed.HeaderAndBody` and `Signed.Signature` -/
structure SignedEntry where
  hdrBody : Bytes
  signature : Bytes
deriving DecidableEq, Repr

/-- `PathSegment.associatedData(idx)`: `Info.Raw`, then body and signature of every earlier entry -/
def associatedData (infoRaw : Bytes) (es : List SignedEntry) (idx : Nat) : List Bytes :=
  infoRaw :: ((es.take idx).flatMap fun e => [e.hdrBody, e.signature])

end Scion.Extend
