import Scion.Util.Hex
import Scion.Model.PathMeta
/-!
Model of the SCION-path fast path of the border router (`router/dataplane.go`):
`scionPacketProcessor.processPkt` (decoder + extension skippers, SCION path type only) and
`scionPacketProcessor.process` with every `validate*`/`verify*`/`update*`/`handle*RouterAlert`/
`doXover`/`processEgress`/`resolveInbound` step, in source order, as stages returning
`Except (Disp × Bytes) St`.

* The packet buffer is a `Bytes` value edited in place exactly where the Go code edits it
  (`Raw.SetInfoField`, `Raw.SetHopField`, `Raw.IncPath` → `MetaHdr.SerializeTo`); hop and info
  fields are decoded on demand from the buffer like `scion.Raw` does.
* The hop-field MAC is a parameter `mac : key → input → tag` (all theorems are for every `mac`);
  `resolveLocalDst` (property C11's subject) is a parameter `resolve` as well, with a concrete
  instance `resolveLocal` for the driver.
* `now` is the reading of `time.Now()` in Unix nanoseconds.
Core Lean only.
-/
namespace Scion.Router
open Scion.Util Scion.PathMeta

inductive LinkType | unset | core | parent | child | peer
deriving DecidableEq, Repr

inductive Scope | internal | sibling | external
deriving DecidableEq, Repr

/-- a hop field as `path.HopField.DecodeFromBytes` sees it (`rsv` = the six reserved flag bits) -/
structure Hop where
  rsv : Nat
  inAlert : Bool
  egAlert : Bool
  exp : Nat
  consIn : Nat
  consEg : Nat
  mac : Bytes
deriving DecidableEq, Repr

/-- an info field as `path.InfoField.DecodeFromBytes` sees it -/
structure Info where
  rsv0 : Nat
  rsv1 : Nat
  peer : Bool
  consDir : Bool
  segID : Nat
  ts : Nat
deriving DecidableEq, Repr

/-- `d.interfaces[id]`: the link installed for an interface id -/
structure Iface where
  scope : Scope
  up : Bool
  linkId : Nat      -- identity of the Link object (a sibling link is shared by several ids)
deriving DecidableEq, Repr

structure Cfg where
  localIA : Nat
  key : Bytes
  ifaces : Nat → Option Iface     -- d.interfaces (nil = none)
  ltype : Nat → LinkType          -- d.linkTypes
  svcs : List Nat                 -- base service addresses with a registered backend

/-- the link a packet was received on: `pkt.Link.IfID()` and the identity of the link object -/
structure Ingress where
  ifID : Nat
  linkId : Nat
deriving DecidableEq, Repr

inductive Disp
  | discard
  | otherPath                              -- not a SCION-path packet (not modelled here)
  | slow (typ code ptr : Nat)              -- pSlowPath with an SCMP request
  | alertIngress | alertEgress             -- pSlowPath with a router-alert request
  | deliver (kind : Nat) (host : Bytes) (port : Nat)   -- pForward on the internal link after Resolve
  | forward (egress : Nat)
  | crash                                  -- a Go panic
deriving DecidableEq, Repr

def Disp.accepting : Disp → Bool
  | .deliver _ _ _ => true
  | .forward _ => true
  | _ => false

def Disp.isForward : Disp → Bool
  | .forward _ => true
  | _ => false

def Disp.isDeliver : Disp → Bool
  | .deliver _ _ _ => true
  | _ => false

/-! ### bytes -/

def slice (b : Bytes) (off n : Nat) : Bytes := (b.drop off).take n

/-- overwrite `new.length` bytes at `off` (the Go code writes into a sub-slice of the buffer) -/
def writeAt (b : Bytes) (off : Nat) (new : Bytes) : Bytes :=
  b.take off ++ new ++ b.drop (off + new.length)

def b2n (b : Bool) : Nat := if b then 1 else 0

/-- `InfoField.DecodeFromBytes` -/
def decodeInfo : Bytes → Option Info
  | [b0, b1, s0, s1, t0, t1, t2, t3] =>
    some { rsv0 := b0.toNat / 4, rsv1 := b1.toNat,
           peer := b0.toNat / 2 % 2 == 1, consDir := b0.toNat % 2 == 1,
           segID := s0.toNat * 256 + s1.toNat,
           ts := ((t0.toNat * 256 + t1.toNat) * 256 + t2.toNat) * 256 + t3.toNat }
  | _ => none

/-- `InfoField.SerializeTo`: the reserved bits are written as zero -/
def encodeInfo (i : Info) : Bytes :=
  [UInt8.ofNat (b2n i.peer * 2 + b2n i.consDir), 0] ++ natBE 2 i.segID ++ natBE 4 i.ts

/-- `HopField.DecodeFromBytes` -/
def decodeHop : Bytes → Option Hop
  | [f, e, i0, i1, g0, g1, m0, m1, m2, m3, m4, m5] =>
    some { rsv := f.toNat / 4, inAlert := f.toNat / 2 % 2 == 1, egAlert := f.toNat % 2 == 1,
           exp := e.toNat, consIn := i0.toNat * 256 + i1.toNat, consEg := g0.toNat * 256 + g1.toNat,
           mac := [m0, m1, m2, m3, m4, m5] }
  | _ => none

/-- `HopField.SerializeTo`: the reserved bits are written as zero -/
def encodeHop (h : Hop) : Bytes :=
  [UInt8.ofNat (b2n h.inAlert * 2 + b2n h.egAlert), UInt8.ofNat h.exp] ++ natBE 2 h.consIn ++
    natBE 2 h.consEg ++ h.mac

/-! ### decoded header (what `slayers.SCION.DecodeFromBytes` + the extension skippers keep) -/

structure Hd where
  srcIA : Nat
  dstIA : Nat
  dstType : Nat
  srcType : Nat
  dstHost : Bytes
  srcHost : Bytes
  pathOff : Nat        -- CmnHdrLen + AddrHdrLen
  pldLenOk : Bool      -- PayloadLen field = len(Payload)
  numINF : Nat
  numHops : Nat
  lastNext : Nat       -- NextHdr of the last decoded layer (SCION, HBH or E2E)
  l4 : Bytes           -- payload of that layer
deriving Repr

inductive Parsed
  | drop
  | other
  | ok (h : Hd) (pm : Hdr)

def CmnHdrLen : Nat := 12
def MetaLen : Nat := 4
def InfoLen : Nat := 8
def HopLen : Nat := 12
def hbhClass : Nat := 200
def e2eClass : Nat := 201

/-- path type identifiers and `epicHdrLen()`: the EPIC path type carries 16 extra bytes (packet
id, PHVF, LHVF) in front of the SCION path; the SCMP pointers account for them. This model
handles the SCION path type only (`parse` answers `.other` otherwise), where the term is 0. -/
def scionPathType : Nat := 1
def epicPathType : Nat := 3
def epicHdrLen (pathType : Nat) : Nat := if pathType = epicPathType then 16 else 0

/-- `AddrType.Length` -/
def addrLen (t : Nat) : Nat := 4 * (1 + t % 4)

/-- `decodeExtnBase` followed by `check…ExtnNextHdr`: next header and payload of an extension -/
def skipExt (pld : Bytes) (forbidden : List Nat) : Option (Nat × Bytes) :=
  match pld with
  | n :: l :: _ =>
    if pld.length < (l.toNat + 1) * 4 then none
    else if forbidden.contains n.toNat then none
    else some (n.toNat, pld.drop ((l.toNat + 1) * 4))
  | _ => none

/-- `decodeLayers(raw, &scionLayer, &hbhLayer, &e2eLayer)` for the SCION path type -/
def parse (raw : Bytes) : Parsed :=
  match raw with
  | _ :: _ :: _ :: _ :: nh :: hl :: pl0 :: pl1 :: pt :: ty :: _ :: _ :: rest =>
    if pt.toNat ≠ 1 then .other else
    let dl := addrLen (ty.toNat / 16)
    let sl := addrLen (ty.toNat % 16)
    if rest.length < 16 + dl + sl then .drop else
    if hl.toNat * 4 < 12 + (16 + dl + sl) then .drop else
    if raw.length < hl.toNat * 4 then .drop else
    if hl.toNat * 4 - 12 - (16 + dl + sl) < 4 then .drop else
    let pm := decode (beNat (slice raw (28 + dl + sl) 4))
    match baseDecode pm with
    | none => .drop
    | some b =>
      if hl.toNat * 4 - 12 - (16 + dl + sl) < 4 + 8 * b.numINF + 12 * b.numHops then .drop else
      if 4 + 8 * b.numINF + 12 * b.numHops ≠ hl.toNat * 4 - 12 - (16 + dl + sl) then .drop else
      let pld := raw.drop (hl.toNat * 4)
      match (if nh.toNat = hbhClass then skipExt pld [hbhClass] else some (nh.toNat, pld)) with
      | none => .drop
      | some (n1, p1) =>
        match (if n1 = e2eClass then skipExt p1 [hbhClass, e2eClass] else some (n1, p1)) with
        | none => .drop
        | some (n2, p2) =>
          .ok { srcIA := beNat (slice raw 20 8), dstIA := beNat (slice raw 12 8),
                dstType := ty.toNat / 16, srcType := ty.toNat % 16,
                dstHost := slice raw 28 dl, srcHost := slice raw (28 + dl) sl,
                pathOff := 28 + dl + sl,
                pldLenOk := pl0.toNat * 256 + pl1.toNat == pld.length,
                numINF := b.numINF, numHops := b.numHops, lastNext := n2, l4 := p2 } pm
  | _ => .drop

/-! ### field access in the buffer (`scion.Raw`) -/

def infoOff (h : Hd) (idx : Nat) : Nat := h.pathOff + MetaLen + InfoLen * idx
def hopOff (h : Hd) (idx : Nat) : Nat := h.pathOff + MetaLen + InfoLen * h.numINF + HopLen * idx

/-- `Raw.GetInfoField` -/
def getInfo (h : Hd) (buf : Bytes) (idx : Nat) : Option Info :=
  if idx < h.numINF then decodeInfo (slice buf (infoOff h idx) 8) else none

/-- `Raw.GetHopField` -/
def getHop (h : Hd) (buf : Bytes) (idx : Nat) : Option Hop :=
  if idx < h.numHops then decodeHop (slice buf (hopOff h idx) 12) else none

/-- `Raw.SetInfoField` (index already known to be in range) -/
def setInfo (h : Hd) (buf : Bytes) (idx : Nat) (i : Info) : Bytes := writeAt buf (infoOff h idx) (encodeInfo i)

/-- `Raw.SetHopField` -/
def setHop (h : Hd) (buf : Bytes) (idx : Nat) (x : Hop) : Bytes := writeAt buf (hopOff h idx) (encodeHop x)

/-- `MetaHdr.SerializeTo(s.Raw[:MetaLen])` -/
def setMeta (h : Hd) (buf : Bytes) (pm : Hdr) : Bytes := writeAt buf h.pathOff (natBE 4 (encode pm))

/-! ### checked accesses: what the Go code does when an index or a slice is out of range

`Raw.GetInfoField/GetHopField` return an error for an index beyond NumINF/NumHops and otherwise
slice `s.Raw[off:off+len]`, which panics when the buffer is too short; the `Set…` methods and
`MetaHdr.SerializeTo` write into such a sub-slice. `Rd.oob` / `none` below are those panics; the
stages turn them into the explicit outcome `Disp.crash` (proved unreachable in `Props/C08Fast`). -/

inductive Rd (α : Type)
  | ok (a : α)
  | err      -- the accessor returned an error (index out of bounds)
  | oob      -- slice bounds out of range: Go panic

def readInfo (h : Hd) (buf : Bytes) (idx : Nat) : Rd Info :=
  if idx < h.numINF then
    match decodeInfo (slice buf (infoOff h idx) 8) with
    | some i => .ok i
    | none => .oob
  else .err

def readHop (h : Hd) (buf : Bytes) (idx : Nat) : Rd Hop :=
  if idx < h.numHops then
    match decodeHop (slice buf (hopOff h idx) 12) with
    | some x => .ok x
    | none => .oob
  else .err

def wrInfo (h : Hd) (buf : Bytes) (idx : Nat) (i : Info) : Option Bytes :=
  if infoOff h idx + 8 ≤ buf.length then some (setInfo h buf idx i) else none

def wrHop (h : Hd) (buf : Bytes) (idx : Nat) (x : Hop) : Option Bytes :=
  if hopOff h idx + 12 ≤ buf.length then some (setHop h buf idx x) else none

def wrMeta (h : Hd) (buf : Bytes) (pm : Hdr) : Option Bytes :=
  if h.pathOff + 4 ≤ buf.length then some (setMeta h buf pm) else none

/-! ### the checks -/

/-- key → 16-byte input → tag -/
abbrev Mac := Bytes → Bytes → Bytes

/-- `path.MACInput` -/
def macInput (segID ts exp cin ceg : Nat) : Bytes :=
  [0, 0] ++ natBE 2 segID ++ natBE 4 ts ++ [0, UInt8.ofNat exp] ++ natBE 2 cin ++ natBE 2 ceg ++ [0, 0]

/-- `verifyCurrentMAC`: the six MAC bytes equal the first six bytes of the full MAC -/
def macOk (mac : Mac) (key : Bytes) (inf : Info) (hop : Hop) : Bool :=
  hop.mac == (mac key (macInput inf.segID inf.ts hop.exp hop.consIn hop.consEg)).take 6

/-- `path.expTimeUnit` = 24 h / 256 in nanoseconds -/
def expUnitNs : Nat := 337500000000

/-- `validateHopExpiry`: not `expiration.Before(now)` -/
def unexpired (now : Nat) (inf : Info) (hop : Hop) : Bool :=
  decide (now ≤ inf.ts * 1000000000 + (hop.exp + 1) * expUnitNs)

/-- first two MAC bytes, big endian (`InfoField.UpdateSegID`) -/
def mac2 (hop : Hop) : Nat :=
  match hop.mac with
  | a :: b :: _ => a.toNat * 256 + b.toNat
  | _ => 0

def updSegID (inf : Info) (hop : Hop) : Info := { inf with segID := inf.segID ^^^ mac2 hop }

/-- `determinePeer` (`none` = error) -/
def determinePeer (pm : Hdr) (inf : Info) : Option Bool :=
  if !inf.peer then some false
  else if pm.s0 == 0 then none
  else if pm.s1 == 0 then none
  else if pm.s2 != 0 then none
  else some (pm.currHF + 1 == pm.s0 || pm.currHF == pm.s0)

def PP : Nat := 4            -- SCMPTypeParameterProblem
def cPktSize : Nat := 19     -- SCMPCodeInvalidPacketSize
def cBadSrc : Nat := 33      -- SCMPCodeInvalidSourceAddress
def cBadDst : Nat := 34      -- SCMPCodeInvalidDestinationAddress
def cInvalidPath : Nat := 48
def cUnkIngress : Nat := 49  -- SCMPCodeUnknownHopFieldIngress
def cUnkEgress : Nat := 50   -- SCMPCodeUnknownHopFieldEgress
def cBadMac : Nat := 51      -- SCMPCodeInvalidHopFieldMAC
def cExpired : Nat := 52     -- SCMPCodePathExpired
def cSegChange : Nat := 53   -- SCMPCodeInvalidSegmentChange
def tDestUnreach : Nat := 1  -- SCMPTypeDestinationUnreachable (code 0 = NoRoute)
def tExtDown : Nat := 5      -- SCMPTypeExternalInterfaceDown
def tIntDown : Nat := 6      -- SCMPTypeInternalConnectivityDown

/-- travel-direction ingress / egress interface of a hop (`validateIngressID`, `egressInterface`) -/
def travelIn (inf : Info) (hop : Hop) : Nat := if inf.consDir then hop.consIn else hop.consEg
def travelEg (inf : Info) (hop : Hop) : Nat := if inf.consDir then hop.consEg else hop.consIn

/-- `ingressRouterAlertFlag` / `egressRouterAlertFlag` and the hop with that flag cleared -/
def ingressAlert (inf : Info) (hop : Hop) : Bool := if inf.consDir then hop.inAlert else hop.egAlert
def egressAlert (inf : Info) (hop : Hop) : Bool := if inf.consDir then hop.egAlert else hop.inAlert
def clearIngressAlert (inf : Info) (hop : Hop) : Hop :=
  if inf.consDir then { hop with inAlert := false } else { hop with egAlert := false }
def clearEgressAlert (inf : Info) (hop : Hop) : Hop :=
  if inf.consDir then { hop with egAlert := false } else { hop with inAlert := false }

/-- SCMP codes that depend on the direction -/
def codeUnkIn (inf : Info) : Nat := if inf.consDir then cUnkIngress else cUnkEgress
def codeUnkEg (inf : Info) : Nat := if inf.consDir then cUnkEgress else cUnkIngress

structure St where
  buf : Bytes
  pm : Hdr            -- p.path.PathMeta
  hop : Hop           -- p.hopField
  inf : Info          -- p.infoField
  peering : Bool
  effXover : Bool

abbrev R := Except (Disp × Bytes)

def base (h : Hd) (pm : Hdr) : Base := ⟨pm, h.numINF, h.numHops⟩

/-- `currentHopPointer` / `currentInfoPointer` -/
def hopPtr (h : Hd) (pm : Hdr) : Nat := hopOff h pm.currHF
def infoPtr (h : Hd) (pm : Hdr) : Nat := infoOff h pm.currINF

/-- `parsePath`, `determinePeer` -/
def stParse (h : Hd) (pm : Hdr) (raw : Bytes) : R St :=
  match readHop h raw pm.currHF with
  | .err => .error (.discard, raw)
  | .oob => .error (.crash, raw)
  | .ok hop =>
  match readInfo h raw pm.currINF with
  | .err => .error (.discard, raw)
  | .oob => .error (.crash, raw)
  | .ok inf =>
    if !inf.peer && (pm.s0 == 1 || pm.s1 == 1 || pm.s2 == 1) then .error (.discard, raw) else
    if pm.currINF != infIdx pm pm.currHF then .error (.discard, raw) else
    match determinePeer pm inf with
    | none => .error (.discard, raw)
    | some peering => .ok ⟨raw, pm, hop, inf, peering, false⟩

/-- the condition of `updateNonConsDirIngressSegID` -/
def ingressUpdates (ing : Ingress) (inf : Info) (peering : Bool) : Bool :=
  !inf.consDir && ing.ifID != 0 && !peering

/-- `updateNonConsDirIngressSegID` -/
def stSegID (h : Hd) (ing : Ingress) (s : St) : R St :=
  if ingressUpdates ing s.inf s.peering then
    if s.pm.currINF < h.numINF then
      match wrInfo h s.buf s.pm.currINF (updSegID s.inf s.hop) with
      | none => .error (.crash, s.buf)
      | some b => .ok { s with inf := updSegID s.inf s.hop, buf := b }
    else .error (.discard, s.buf)
  else .ok s

/-- `ingressInterface()`: where the packet was supposed to enter the AS (`none` = Go panic) -/
def ingressInterface (h : Hd) (s : St) : Option Nat :=
  if !s.peering && isFirstHopAfterXover (base h s.pm) then
    match getInfo h s.buf (s.pm.currINF - 1), getHop h s.buf (s.pm.currHF - 1) with
    | some i, some x => some (travelIn i x)
    | _, _ => none
  else some (travelIn s.inf s.hop)

/-- `SrcAddr()` fails or yields an IPv4-mapped IPv6 address -/
def srcHostBad (h : Hd) : Bool :=
  if h.srcType = 0 then false
  else if h.srcType = 4 then false
  else if h.srcType = 3 then
    slice h.srcHost 0 10 == List.replicate 10 0 && slice h.srcHost 10 2 == [0xff, 0xff]
  else true

/-- `validateHopExpiry`, `validateIngressID`, `validatePktLen` -/
def stValidate1 (h : Hd) (now : Nat) (ing : Ingress) (s : St) : R St :=
  if !unexpired now s.inf s.hop then .error (.slow PP cExpired (hopPtr h s.pm), s.buf) else
  if ing.ifID != 0 && ing.ifID != travelIn s.inf s.hop then
    .error (.slow PP (codeUnkIn s.inf) (hopPtr h s.pm), s.buf) else
  if !h.pldLenOk then .error (.slow PP cPktSize 0, s.buf) else
  .ok s

/-- `validateTransitUnderlaySrc` -/
def stTransit (cfg : Cfg) (h : Hd) (ing : Ingress) (s : St) : R St :=
  if s.pm.currHF == 0 || ing.ifID != 0 then .ok s else
  match ingressInterface h s with
  | none => .error (.crash, s.buf)
  | some id =>
    match cfg.ifaces id with
    | none => .error (.discard, s.buf)
    | some l =>
      if l.linkId != ing.linkId || l.scope != .sibling then .error (.discard, s.buf) else .ok s

/-- `validateSrcDstIA`, `validateSrcHost` -/
def stSrcDst (cfg : Cfg) (h : Hd) (ing : Ingress) (s : St) : R St :=
  if ing.ifID == 0 && s.pm.currHF == 0 && h.srcIA != cfg.localIA then
    .error (.slow PP cBadSrc (CmnHdrLen + 8), s.buf) else
  if ing.ifID == 0 && h.dstIA == cfg.localIA then .error (.slow PP cBadDst CmnHdrLen, s.buf) else
  if ing.ifID != 0 && h.srcIA == cfg.localIA then
    .error (.slow PP cBadSrc (CmnHdrLen + 8), s.buf) else
  if ing.ifID != 0 && (isLastHop (base h s.pm) != (h.dstIA == cfg.localIA)) then
    .error (.slow PP cBadDst CmnHdrLen, s.buf) else
  if h.srcIA == cfg.localIA && srcHostBad h then .error (.slow PP cBadSrc 0, s.buf) else
  .ok s

/-- `verifyCurrentMAC`, `handleIngressRouterAlert` -/
def stMac (cfg : Cfg) (mac : Mac) (h : Hd) (ing : Ingress) (s : St) : R St :=
  if !macOk mac cfg.key s.inf s.hop then .error (.slow PP cBadMac (hopPtr h s.pm), s.buf) else
  if ing.ifID != 0 && ingressAlert s.inf s.hop then
    if s.pm.currHF < h.numHops then
      match wrHop h s.buf s.pm.currHF (clearIngressAlert s.inf s.hop) with
      | none => .error (.crash, s.buf)
      | some b => .error (.alertIngress, b)
    else .error (.discard, s.buf)
  else .ok s

inductive ResolveOut
  | ok (kind : Nat) (host : Bytes) (port : Nat)
  | noSvc          -- ErrNoSVCBackend
  | badDst         -- errInvalidDstAddr, 4-in-6, unspecified
  | err            -- any other error
deriving DecidableEq, Repr

/-- `resolveInbound` -/
def inbound (res : ResolveOut) (s : St) : Disp × Bytes :=
  match res with
  | .ok k host port => (.deliver k host port, s.buf)
  | .noSvc => (.slow tDestUnreach 0 0, s.buf)
  | .badDst => (.slow PP cBadDst 0, s.buf)
  | .err => (.discard, s.buf)

/-- the cross-over condition of `process` -/
def doesXover (h : Hd) (s : St) : Bool := isXover (base h s.pm) && !s.peering

/-- `doXover` followed by the second `validateHopExpiry` / `verifyCurrentMAC` -/
def stXover (cfg : Cfg) (mac : Mac) (h : Hd) (now : Nat) (s : St) : R St :=
  if doesXover h s then
    match incPath (base h s.pm) with
    | .error _ => .error (.discard, s.buf)
    | .ok b' =>
      match wrMeta h s.buf b'.pm with
      | none => .error (.crash, s.buf)
      | some buf1 =>
      match readHop h buf1 b'.pm.currHF with
      | .err => .error (.discard, buf1)
      | .oob => .error (.crash, buf1)
      | .ok hop2 =>
      match readInfo h buf1 b'.pm.currINF with
      | .err => .error (.discard, buf1)
      | .oob => .error (.crash, buf1)
      | .ok inf2 =>
        if !unexpired now inf2 hop2 then .error (.slow PP cExpired (hopPtr h b'.pm), buf1) else
        if !macOk mac cfg.key inf2 hop2 then .error (.slow PP cBadMac (hopPtr h b'.pm), buf1) else
        .ok { s with buf := buf1, pm := b'.pm, hop := hop2, inf := inf2, effXover := true }
  else .ok s

/-- `egressInterface()` -/
def egressOf (s : St) : Nat := travelEg s.inf s.hop

/-- the link-type table of `validateEgressID` (`none` = admissible) -/
def pairCheck (xover : Bool) (ingressIf : Nat) (i e : LinkType) : Option Nat :=
  if !xover then
    if ingressIf == 0 then none
    else if i == .core && e == .core then none
    else if i == .child && e == .parent then none
    else if i == .parent && e == .child then none
    else if i == .child && e == .peer then none
    else if i == .peer && e == .child then none
    else some cInvalidPath
  else
    if i == .core && e == .child then none
    else if i == .child && e == .core then none
    else if i == .child && e == .child then none
    else some cSegChange

/-- pointer of a link-type rejection: the info field on a segment change, else the hop field -/
def pairPtr (h : Hd) (s : St) : Nat := if s.effXover then infoPtr h s.pm else hopPtr h s.pm

/-- `validateEgressID` -/
def stEgressID (cfg : Cfg) (h : Hd) (ing : Ingress) (s : St) : R Iface :=
  match cfg.ifaces (egressOf s) with
  | none => .error (.slow PP (codeUnkEg s.inf) (hopPtr h s.pm), s.buf)
  | some l =>
    if ing.ifID == 0 && l.scope != .external then
      .error (.slow PP (codeUnkEg s.inf) (hopPtr h s.pm), s.buf)
    else
      match pairCheck s.effXover ing.ifID (cfg.ltype ing.ifID) (cfg.ltype (egressOf s)) with
      | none => .ok l
      | some code =>
        .error (.slow PP code (pairPtr h s), s.buf)

/-- SCMP type of `validateEgressUp` -/
def downType (l : Iface) : Nat := if l.scope != .external then tIntDown else tExtDown

/-- `handleEgressRouterAlert`, `validateEgressUp` -/
def stEgressAlertUp (h : Hd) (l : Iface) (s : St) : R St :=
  if egressAlert s.inf s.hop && l.scope == .external then
    if s.pm.currHF < h.numHops then
      match wrHop h s.buf s.pm.currHF (clearEgressAlert s.inf s.hop) with
      | none => .error (.crash, s.buf)
      | some b => .error (.alertEgress, b)
    else .error (.discard, s.buf)
  else if !l.up then .error (.slow (downType l) 0 0, s.buf)
  else .ok s

/-- the condition of the SegID update in `processEgress` -/
def egressUpdates (inf : Info) (peering : Bool) : Bool := inf.consDir && !peering

/-- `processEgress` (only when the egress link is external) -/
def stProcessEgress (h : Hd) (s : St) : R St :=
  if egressUpdates s.inf s.peering then
    if s.pm.currINF < h.numINF then
      match wrInfo h s.buf s.pm.currINF (updSegID s.inf s.hop) with
      | none => .error (.crash, s.buf)
      | some buf1 =>
        match incPath (base h s.pm) with
        | .error _ => .error (.discard, buf1)
        | .ok b' =>
          match wrMeta h buf1 b'.pm with
          | none => .error (.crash, buf1)
          | some buf2 => .ok { s with inf := updSegID s.inf s.hop, pm := b'.pm, buf := buf2 }
    else .error (.discard, s.buf)
  else
    match incPath (base h s.pm) with
    | .error _ => .error (.discard, s.buf)
    | .ok b' =>
      match wrMeta h s.buf b'.pm with
      | none => .error (.crash, s.buf)
      | some buf2 => .ok { s with pm := b'.pm, buf := buf2 }

/-- the outbound half of `process` -/
def outbound (cfg : Cfg) (mac : Mac) (h : Hd) (now : Nat) (ing : Ingress) (s : St) : Disp × Bytes :=
  match stXover cfg mac h now s with
  | .error r => r
  | .ok s5 =>
  match stEgressID cfg h ing s5 with
  | .error r => r
  | .ok l =>
  match stEgressAlertUp h l s5 with
  | .error r => r
  | .ok s6 =>
    if l.scope == .external then
      match stProcessEgress h s6 with
      | .error r => r
      | .ok s7 => (.forward (egressOf s5), s7.buf)
    else (.forward (egressOf s5), s6.buf)

/-- `scionPacketProcessor.process` -/
def process (cfg : Cfg) (mac : Mac) (resolve : Cfg → Hd → ResolveOut) (now : Nat) (ing : Ingress)
    (h : Hd) (pm : Hdr) (raw : Bytes) : Disp × Bytes :=
  match stParse h pm raw with
  | .error r => r
  | .ok s0 =>
  match stSegID h ing s0 with
  | .error r => r
  | .ok s1 =>
  match stValidate1 h now ing s1 with
  | .error r => r
  | .ok s2 =>
  match stTransit cfg h ing s2 with
  | .error r => r
  | .ok s3 =>
  match stSrcDst cfg h ing s3 with
  | .error r => r
  | .ok s3' =>
  match stMac cfg mac h ing s3' with
  | .error r => r
  | .ok s4 =>
    if h.dstIA == cfg.localIA then inbound (resolve cfg h) s4
    else outbound cfg mac h now ing s4

/-- the names of the checks `process` calls on its receiver, in source order -/
def processCallOrder : List String :=
  ["parsePath", "determinePeer", "updateNonConsDirIngressSegID", "validateHopExpiry",
   "validateIngressID", "validatePktLen", "validateTransitUnderlaySrc", "validateSrcDstIA",
   "validateSrcHost", "verifyCurrentMAC", "handleIngressRouterAlert", "resolveInbound", "doXover",
   "validateHopExpiry", "verifyCurrentMAC", "egressInterface", "validateEgressID",
   "handleEgressRouterAlert", "validateEgressUp", "processEgress"]

/-- `scionPacketProcessor.processPkt` restricted to SCION-path packets -/
def processPkt (cfg : Cfg) (mac : Mac) (resolve : Cfg → Hd → ResolveOut) (now : Nat) (ing : Ingress)
    (raw : Bytes) : Disp × Bytes :=
  match parse raw with
  | .drop => (.discard, raw)
  | .other => (.otherPath, raw)
  | .ok h pm => process cfg mac resolve now ing h pm raw

/-! ### a concrete `resolveLocalDst` for the driver (destination kinds and L4 protocols that do
not need the nested decoding of a quoted packet; that part belongs to property C11's model) -/

def endhostPort : Nat := 30041

def be16At (b : Bytes) (off : Nat) : Option Nat :=
  match slice b off 2 with
  | [x, y] => some (x.toNat * 256 + y.toNat)
  | _ => none

/-- `dstScionPort` (`none` = error) -/
def dstPort (h : Hd) : Option Nat :=
  if h.lastNext = 17 then (if h.l4.length < 8 then none else be16At h.l4 2)
  else if h.lastNext = 6 then (if h.l4.length < 20 then none else be16At h.l4 2)
  else if h.lastNext = 202 then
    if h.l4.length < 4 then none else
    match h.l4 with
    | t :: _ =>
      if t.toNat = 128 || t.toNat = 130 then some endhostPort
      else if t.toNat = 129 then (if h.l4.length < 8 then none else be16At h.l4 4)
      else if t.toNat = 131 then (if h.l4.length < 24 then none else be16At h.l4 4)
      else none      -- SCMP error messages: not modelled here (never sent to this driver)
    | [] => none
  else some endhostPort

def resolveLocal (cfg : Cfg) (h : Hd) : ResolveOut :=
  if h.dstType = 0 then
    match dstPort h with
    | none => .err
    | some p => if h.dstHost == [0, 0, 0, 0] then .badDst else .ok 0 h.dstHost p
  else if h.dstType = 3 then
    match dstPort h with
    | none => .err
    | some p =>
      if slice h.dstHost 0 10 == List.replicate 10 0 && slice h.dstHost 10 2 == [0xff, 0xff] then .badDst
      else if h.dstHost == List.replicate 16 0 then .badDst
      else .ok 0 h.dstHost p
  else if h.dstType = 4 then
    match be16At h.dstHost 0 with
    | none => .err
    | some svc => if cfg.svcs.contains (svc % 32768) then .ok 1 (natBE 2 svc) 0 else .noSvc
  else .badDst

end Scion.Router
