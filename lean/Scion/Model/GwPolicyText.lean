/-!
Text form of a routing policy (`gateway/routing/marshal.go`): `Policy.MarshalText` (one line per
rule: action, from, to, network list, next hop in columns aligned by a `tabwriter` with padding 4,
then `# comment`; trailing blanks stripped) and `Policy.UnmarshalText` / `parseRule`.

The atoms — ISD-AS, IP prefix and IP address texts — are opaque words here: `addr.IA.String /
ParseIA`, `netip.Prefix.String / ParsePrefix` and `net.IP.String / ParseIP` are not modelled (the
real parser additionally validates them).  Core Lean only.
-/
namespace Scion.GwPolicyText

inductive Action | accept | reject | advertise | redistribute
deriving DecidableEq, Repr

def Action.name : Action → List Char
  | .accept => ['a','c','c','e','p','t']
  | .reject => ['r','e','j','e','c','t']
  | .advertise => ['a','d','v','e','r','t','i','s','e']
  | .redistribute => ['r','e','d','i','s','t','r','i','b','u','t','e','-','b','g','p']

def parseAction (w : List Char) : Option Action :=
  if w = Action.accept.name then some .accept
  else if w = Action.reject.name then some .reject
  else if w = Action.advertise.name then some .advertise
  else if w = Action.redistribute.name then some .redistribute
  else none

/-- a rule with its atoms as text -/
structure TRule where
  action : Action
  fromNeg : Bool
  fromIA : List Char
  toNeg : Bool
  toIA : List Char
  netNeg : Bool
  nets : List (List Char)
  /-- empty = no next hop -/
  nextHop : List Char
  comment : List Char
deriving DecidableEq, Repr

def bang (neg : Bool) (w : List Char) : List Char := if neg then '!' :: w else w

def joinComma : List (List Char) → List Char
  | [] => []
  | [w] => w
  | w :: ws => w ++ ',' :: joinComma ws

/-- the five tab-terminated cells of a rule -/
def cells (r : TRule) : List (List Char) :=
  [r.action.name, bang r.fromNeg r.fromIA, bang r.toNeg r.toIA, bang r.netNeg (joinComma r.nets),
   r.nextHop]

def spaces (k : Nat) : List Char := List.replicate k ' '

def pad (w : Nat) (c : List Char) : List Char := c ++ spaces (w - c.length)

/-- `strings.TrimRight(·, " ")` -/
def trimRight (l : List Char) : List Char := (l.reverse.dropWhile (· == ' ')).reverse

/-- column widths: `tabwriter.NewWriter(_, 0, 0, 4, ' ', 0)` — widest cell of the column + 4 -/
def colWidth (rs : List TRule) (j : Nat) : Nat :=
  (rs.map fun r => ((cells r)[j]?.getD []).length).foldl max 0 + 4

def commentPart (r : TRule) : List Char :=
  if r.comment.isEmpty then [] else '#' :: ' ' :: r.comment

/-- one line, before the trailing blanks are stripped -/
def printLine (w : Nat → Nat) (r : TRule) : List Char :=
  pad (w 0) r.action.name ++ (pad (w 1) (bang r.fromNeg r.fromIA) ++
    (pad (w 2) (bang r.toNeg r.toIA) ++ (pad (w 3) (bang r.netNeg (joinComma r.nets)) ++
      (pad (w 4) r.nextHop ++ commentPart r))))

/-- `Policy.MarshalText` -/
def marshal (rs : List TRule) : List Char :=
  (rs.map fun r => trimRight (printLine (colWidth rs) r) ++ ['\n']).flatten

/-! ### parsing -/

/-- `unicode.IsSpace` on ASCII (what `bytes.Fields` splits on) -/
def isSp (c : Char) : Bool :=
  c == ' ' || c == '\t' || c == '\n' || c == '\r' || c.toNat == 11 || c.toNat == 12

theorem length_dropWhile_le (p : Char → Bool) (l : List Char) : (l.dropWhile p).length ≤ l.length := by
  induction l with
  | nil => simp
  | cons a l ih =>
    simp only [List.dropWhile]
    split
    · simp only [List.length_cons]; omega
    · simp

/-- `bytes.Fields` -/
def fields (l : List Char) : List (List Char) :=
  match _h : l.dropWhile isSp with
  | [] => []
  | c :: r => (c :: r).takeWhile (fun x => !isSp x) :: fields (r.dropWhile (fun x => !isSp x))
termination_by l.length
decreasing_by
  have h1 := length_dropWhile_le isSp l
  have h2 := length_dropWhile_le (fun x => !isSp x) r
  rw [_h] at h1
  simp only [List.length_cons] at h1
  omega

/-- split at the first `#` -/
def splitHash (l : List Char) : List Char × Option (List Char) :=
  match l.dropWhile (· != '#') with
  | [] => (l, none)
  | _ :: r => (l.takeWhile (· != '#'), some r)

def splitComma (l : List Char) : List (List Char) :=
  match _h : l.dropWhile (· != ',') with
  | [] => [l]
  | _ :: r => l.takeWhile (· != ',') :: splitComma r
termination_by l.length
decreasing_by
  have h1 := length_dropWhile_le (· != ',') l
  rw [_h] at h1
  simp only [List.length_cons] at h1
  omega

def unbang : List Char → Bool × List Char
  | '!' :: w => (true, w)
  | w => (false, w)

def trimPrefixSpace : List Char → List Char
  | ' ' :: l => l
  | l => l

/-- `strings.TrimRight(strings.TrimPrefix(text after '#', " "), " ")` -/
def commentOf : Option (List Char) → List Char
  | none => []
  | some c => trimRight (trimPrefixSpace c)

/-- `parseRule` -/
def parseRule (line : List Char) : Option TRule :=
  let (before, cm) := splitHash line
  let comment := commentOf cm
  match fields before with
  | a :: f :: t :: n :: rest =>
    match parseAction a with
    | none => none
    | some act =>
      let (fneg, fia) := unbang f
      let (tneg, tia) := unbang t
      let (nneg, nl) := unbang n
      let nets := splitComma nl
      -- an empty ISD-AS or network item does not parse
      if fia.isEmpty || tia.isEmpty || nets.any (·.isEmpty) then none
      else
        match rest with
        | [] => some ⟨act, fneg, fia, tneg, tia, nneg, nets, [], comment⟩
        | [h] =>
          if act = .advertise then some ⟨act, fneg, fia, tneg, tia, nneg, nets, h, comment⟩
          else none
        | _ => none
  | _ => none

def dropCR (l : List Char) : List Char :=
  match l.reverse with
  | '\r' :: r => r.reverse
  | _ => l

/-- `bufio.ScanLines` -/
def splitLines (l : List Char) : List (List Char) :=
  match _hl : l with
  | [] => []
  | c :: t =>
    match _h : (c :: t).dropWhile (· != '\n') with
    | [] => [dropCR (c :: t)]
    | _ :: r => dropCR ((c :: t).takeWhile (· != '\n')) :: splitLines r
termination_by l.length
decreasing_by
  have h1 := length_dropWhile_le (· != '\n') (c :: t)
  rw [_h] at h1
  simp only [List.length_cons] at h1
  subst _hl
  simp only [List.length_cons]
  omega

def parseAll : List (List Char) → Option (List TRule)
  | [] => some []
  | l :: ls =>
    match parseRule l, parseAll ls with
    | some r, some rs => some (r :: rs)
    | _, _ => none

/-- `Policy.UnmarshalText` -/
def unmarshal (text : List Char) : Option (List TRule) := parseAll (splitLines text)

end Scion.GwPolicyText
