import Scion.Model.Chain
/-!
# Signer generation and signer expiry (C36)

Mirrors `private/trust/signer_gen.go` (`SignerGen.Generate`, `bestForKey`, `filterChains`,
`bestChain`, `minTime`) and `private/trust/signer.go` (`Signer.validate`, `Validity`,
`LastExpiring`).  TRC selection is `Scion.Chain.activeTRCs`.  "The chain verifies against TRC
number `i` of the active TRCs now" (`cppki.VerifyChain` with the current time) is an oracle
Boolean per chain obtained by really calling it.  Times are integers.  Core Lean only.
-/
namespace Scion.Signer
open Scion.Chain

/-- a certificate chain as the signer generator sees it -/
structure ChainInfo where
  /-- harness numbering, identifies the chain -/
  id : Nat
  /-- `chain[0].NotBefore`, `chain[0].NotAfter` -/
  notBefore : Int
  notAfter : Int
  /-- `chain[0].ExtKeyUsage` -/
  eku : List Nat
  /-- oracle: verifies now against `trcs[0]` (the latest TRC) -/
  okLatest : Bool
  /-- oracle: verifies now against `trcs[1]` (the predecessor; only meaningful in grace) -/
  okPred : Bool
  deriving Repr, DecidableEq, Inhabited

/-- `filterChains`: keep the chains whose AS certificate lists the wanted extended key usage -/
def filterChains (chains : List ChainInfo) (want : Nat) : List ChainInfo :=
  chains.filter (fun c => c.eku.contains want)

/-- one iteration of the loop in `bestChain` -/
def bestStep (ok : ChainInfo → Bool) (best : Option ChainInfo) (c : ChainInfo) : Option ChainInfo :=
  if !ok c then best else
  match best with
  | none => some c
  | some b => if c.notAfter < b.notAfter then some b else some c

/-- `bestChain`: among the chains that verify, one with the latest `NotAfter` (the last such in
list order) -/
def bestChain (ok : ChainInfo → Bool) (chains : List ChainInfo) : Option ChainInfo :=
  chains.foldl (bestStep ok) none

/-- `minTime` -/
def minT (a b : Int) : Int := if a < b then a else b

structure SignerOut where
  chain : ChainInfo
  expiration : Int
  inGrace : Bool
  trcBase : Nat
  trcSerial : Nat
  deriving Repr, DecidableEq, Inhabited

/-- what `bestForKey` needs to know about one private key -/
structure KeyIn where
  /-- `cppki.SubjectKeyID` succeeds (ECDSA key) -/
  skidOk : Bool
  /-- `signed.SelectSignatureAlgorithm` succeeds (P-256/384/521) -/
  algoOk : Bool
  /-- result of `DB.Chains` for (IA, subject key id, now); `none` = DB error -/
  chains : Option (List ChainInfo)
  deriving Repr, Inhabited

inductive KeyRes where
  | skip
  | errAlgo
  | errDB
  | signer (s : SignerOut)
  deriving Repr, DecidableEq, Inhabited

/-- expiry of a signer found under the latest TRC `t` -/
def expiryActive (c : ChainInfo) (t : TrcInfo) : Int := minT c.notAfter t.notAfter

/-- expiry of a signer found only under the predecessor `g` during the grace period of `t`
(`zeroTime`: Go's zero time, the grace-period end of a base TRC) -/
def expiryGrace (c : ChainInfo) (t g : TrcInfo) (zeroTime : Int) : Int :=
  minT (minT c.notAfter (t.graceEnd zeroTime)) g.notAfter

/-- `bestForKey` with one active TRC -/
def bestOne (cs : List ChainInfo) (t : TrcInfo) : KeyRes :=
  match bestChain (·.okLatest) cs with
  | some c => .signer ⟨c, expiryActive c t, false, t.base, t.serial⟩
  | none => .skip

/-- `bestForKey` with two active TRCs (grace period) -/
def bestTwo (cs : List ChainInfo) (t g : TrcInfo) (zeroTime : Int) : KeyRes :=
  match bestChain (·.okLatest) cs with
  | some c => .signer ⟨c, expiryActive c t, false, t.base, t.serial⟩
  | none =>
    match bestChain (·.okPred) cs with
    | some c => .signer ⟨c, expiryGrace c t g zeroTime, true, t.base, t.serial⟩
    | none => .skip

/-- `bestForKey`; `want` = `SignerGen.ExtKeyUsage` (0 = `ExtKeyUsageAny`: no filtering).
`act` is a successful result of `activeTRCs`. -/
def bestForKey (act : ActiveRes) (want : Nat) (zeroTime : Int) (k : KeyIn) : KeyRes :=
  if !k.skidOk then .skip else
  if !k.algoOk then .errAlgo else
  match k.chains with
  | none => .errDB
  | some cs =>
    match act with
    | .one t => bestOne (if want = 0 then cs else filterChains cs want) t
    | .two t g => bestTwo (if want = 0 then cs else filterChains cs want) t g zeroTime
    | _ => .errDB

inductive GenErr where
  | keyRing | noKey | trc | algo | db | notFound
  deriving Repr, DecidableEq

/-- the loop over the keys in `Generate` -/
def collect (act : ActiveRes) (want : Nat) (zeroTime : Int) :
    List KeyIn → Except GenErr (List SignerOut)
  | [] => .ok []
  | k :: r =>
    match bestForKey act want zeroTime k with
    | .errAlgo => .error .algo
    | .errDB => .error .db
    | .skip => collect act want zeroTime r
    | .signer s =>
      match collect act want zeroTime r with
      | .ok l => .ok (s :: l)
      | .error e => .error e

/-- `SignerGen.Generate`; `keys = none`: the key ring failed -/
def generate (keys : Option (List KeyIn)) (act : ActiveRes) (want : Nat) (zeroTime : Int) :
    Except GenErr (List SignerOut) :=
  match keys with
  | none => .error .keyRing
  | some [] => .error .noKey
  | some ks =>
    match act with
    | .dbErr => .error .trc
    | .notFound => .error .trc
    | .inactive => .error .trc
    | a =>
      match collect a want zeroTime ks with
      | .error e => .error e
      | .ok [] => .error .notFound
      | .ok l => .ok l

/-- `Signer.validate` (hence `Sign` / `SignCMS`): fails iff `Expiration.Sub(now) < 0` -/
def signOk (expiration now : Int) : Bool := !decide (expiration - now < 0)

/-- `LastExpiring` over `(notBefore, notAfter)` validities: among the signers covering the
requested validity, the first one with the greatest `notAfter` -/
def lastStep (latest : Int × Int) (s : Int × Int) : Int × Int :=
  if s.2 > latest.2 then s else latest

def lastExpiring (signers : List (Int × Int)) (nb na : Int) : Option (Int × Int) :=
  match signers.filter (fun s => covers s.1 s.2 nb na) with
  | [] => none
  | c :: r => some (r.foldl lastStep c)

/-! ### `Verifier.Verify` (verifier.go): the decisions taken on a signed message's key id -/

/-- what `Verifier.Verify` consumes -/
structure VerifyIn where
  /-- `signed.ExtractUnverifiedHeader` and the unmarshalling of the verification key id succeed -/
  hdrOk : Bool
  /-- the key id's subject key id is empty -/
  skidEmpty : Bool
  /-- ISD-AS in the key id (what the signer put there: `Signer.IA`) -/
  ia : Nat
  /-- `Verifier.BoundIA` (0 = unbound) -/
  boundIA : Nat
  engineNil : Bool
  /-- `Engine.NotifyTRC` succeeds -/
  notifyOk : Bool
  /-- `Engine.GetChains` result (`none` = error); per chain the oracle "`signed.Verify` with the
  chain's AS public key succeeds" -/
  chains : Option (List Bool)
  deriving Repr

/-- `addr.IA.IsWildcard` -/
def isWildcard (ia : Nat) : Bool := ia / 2 ^ 48 == 0 || ia % 2 ^ 48 == 0

/-- `Verifier.Verify` (no cache) -/
def verifyMsg (v : VerifyIn) : Bool :=
  if !v.hdrOk then false else
  if v.skidEmpty then false else
  if v.boundIA != 0 && v.boundIA != v.ia then false else
  if isWildcard v.ia then false else
  if v.engineNil then false else
  if !v.notifyOk then false else
  match v.chains with
  | none => false
  | some cs => cs.any id

end Scion.Signer
