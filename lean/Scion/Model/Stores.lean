/-!
# Abstract stores behind the path-segment DB and the beacon DB (properties C27, C45)

The model *is* the abstract store of the property statement: a list of records with pairwise
distinct segment ids (row order = insertion order), each operation of
`private/storage/path/sqlite` / `private/storage/beacon/sqlite` transcribed as a pure function.
What SQL does with it (joins, `group_concat`, `ON DELETE CASCADE`, `INSERT OR REPLACE`) is only
tied by differential histories (engine `stores`), not proved.

Segment ids are opaque: the list of hex digits (lower case) of the id as the store sees it.
`lu` (`LastUpdated`) is a logical clock: the index of the operation that wrote the row.
Core Lean only.
-/
namespace Scion.Stores

abbrev ID := List Char

structure IA where
  isd : Nat
  as : Nat
  deriving DecidableEq, Repr

structure Intf where
  ia : IA
  ifid : Nat
  deriving DecidableEq, Repr

/-- add `x` to a list used as a set (`PRIMARY KEY … ON CONFLICT IGNORE`) -/
def addOne (l : List Nat) (x : Nat) : List Nat := if x ∈ l then l else l ++ [x]

def addAll (l : List Nat) (xs : List Nat) : List Nat := xs.foldl addOne l

/-- `hex(SegID) LIKE partial || '%'` (LIKE is case-insensitive on ASCII; `%`/`_` in the partial
    id are not modelled) -/
def hasPrefix (pre : ID) (id : ID) : Bool := (pre.map Char.toLower).isPrefixOf id

/-! ## Path-segment store -/

/-- what `insert` reads off a path segment -/
structure SegIn where
  id : ID            -- `pseg.ID()`
  full : ID          -- `pseg.FullID()`
  ver : Nat          -- `ExtractLastHopVersion` (ns)
  maxExp : Nat       -- `pseg.MaxExpiry().Unix()`
  first : IA
  last : IA
  intfs : List Intf  -- rows of `insertInterfaces`
  deriving DecidableEq, Repr

structure SegRec where
  id : ID
  full : ID
  ver : Nat
  maxExp : Nat
  first : IA
  last : IA
  intfs : List Intf
  types : List Nat
  groups : List Nat
  lu : Nat
  deriving DecidableEq, Repr

structure NQKey where
  src : IA
  dst : IA
  deriving DecidableEq, Repr

structure PathStore where
  segs : List SegRec
  nq : List (NQKey × Nat)
  deriving Repr

def PathStore.empty : PathStore := ⟨[], []⟩

def findSeg : List SegRec → ID → Option SegRec
  | [], _ => none
  | r :: rest, id => if r.id = id then some r else findSeg rest id

/-- `insertFull` -/
def newRec (x : SegIn) (type : Nat) (groups : List Nat) (tick : Nat) : SegRec :=
  { id := x.id, full := x.full, ver := x.ver, maxExp := x.maxExp, first := x.first,
    last := x.last, intfs := x.intfs, types := [type],
    groups := addAll [] (if groups.isEmpty then [0] else groups), lu := tick }

/-- `updateExisting` + `updateSeg` -/
def updRec (r : SegRec) (x : SegIn) (type : Nat) (groups : List Nat) (tick : Nat) : SegRec :=
  { r with full := x.full, ver := x.ver, maxExp := x.maxExp, lu := tick,
           types := addOne r.types type, groups := addAll r.groups groups,
           intfs := if x.full = r.full then r.intfs else x.intfs }

structure InsertStats where
  inserted : Nat
  updated : Nat
  deriving DecidableEq, Repr

/-- `insert` (inside `InsertWithHPGroupIDs`) -/
def insertSeg (segs : List SegRec) (x : SegIn) (type : Nat) (groups : List Nat) (tick : Nat) :
    List SegRec × InsertStats :=
  match findSeg segs x.id with
  | none => (segs ++ [newRec x type groups tick], ⟨1, 0⟩)
  | some old =>
    -- if newLastHopVersion <= oldLastHopVersion { return }
    if x.ver ≤ old.ver then (segs, ⟨0, 0⟩)
    else (segs.map (fun r => if r.id = x.id then updRec r x type groups tick else r), ⟨0, 1⟩)

structure Params where
  segIDs : List ID
  segTypes : List Nat
  groups : List Nat
  intfs : List Intf
  startsAt : List IA
  endsAt : List IA
  deriving Repr

def Params.all : Params := ⟨[], [], [], [], [], []⟩

/-- `(s.StartIsdID=?)` when the AS part is zero, `(… AND s.StartAsID=?)` otherwise -/
def matchIA (q a : IA) : Bool := if q.as = 0 then q.isd == a.isd else q == a

/-- the `WHERE` conditions that concern the `Segments` row and the interface join -/
def rowMatches (p : Params) (r : SegRec) : Bool :=
  (p.segIDs.isEmpty || p.segIDs.contains r.id) &&
  (p.intfs.isEmpty || p.intfs.any (fun i => r.intfs.contains i)) &&
  (p.startsAt.isEmpty || p.startsAt.any (fun q => matchIA q r.first)) &&
  (p.endsAt.isEmpty || p.endsAt.any (fun q => matchIA q r.last))

/-- `group_concat(DISTINCT t.Type)` under the type filter -/
def selTypes (p : Params) (r : SegRec) : List Nat :=
  if p.segTypes.isEmpty then r.types else r.types.filter (fun t => p.segTypes.contains t)

/-- `group_concat(DISTINCT h.GroupID)` under the group filter -/
def selGroups (p : Params) (r : SegRec) : List Nat :=
  if p.groups.isEmpty then r.groups else r.groups.filter (fun g => p.groups.contains g)

/-- one `query.Result` -/
structure Entry where
  id : ID
  full : ID
  ver : Nat
  maxExp : Nat
  type : Nat
  groups : List Nat
  lu : Nat
  deriving DecidableEq, Repr

def entriesOf (p : Params) (r : SegRec) : List Entry :=
  if rowMatches p r && !(selGroups p r).isEmpty then
    (selTypes p r).map (fun t => ⟨r.id, r.full, r.ver, r.maxExp, t, selGroups p r, r.lu⟩)
  else []

/-- `executor.Get` -/
def getSegs (segs : List SegRec) (p : Params) : List Entry := segs.flatMap (entriesOf p)

/-- `DeleteExpired`: `DELETE FROM Segments WHERE MaxExpiry < now` -/
def deleteExpiredSegs (segs : List SegRec) (now : Nat) : List SegRec × Nat :=
  (segs.filter (fun r => !decide (r.maxExp < now)), segs.countP (fun r => decide (r.maxExp < now)))

/-- `DeleteSegment` -/
def deleteSegs (segs : List SegRec) (pre : ID) : List SegRec :=
  segs.filter (fun r => !hasPrefix pre r.id)

def findNQ : List (NQKey × Nat) → NQKey → Option Nat
  | [], _ => none
  | (k', t) :: rest, k => if k' = k then some t else findNQ rest k

/-- `InsertNextQuery`: write iff there is no entry or the new instant is strictly later -/
def insertNQ (nq : List (NQKey × Nat)) (k : NQKey) (t : Nat) : List (NQKey × Nat) × Bool :=
  match findNQ nq k with
  | none => ((k, t) :: nq, true)
  | some old =>
    if old < t then ((k, t) :: nq.filter (fun p => !decide (p.1 = k)), true) else (nq, false)

inductive POp where
  | insert (x : SegIn) (type : Nat) (groups : List Nat)
  | get (p : Params)
  | delExpired (now : Nat)
  | delSeg (pre : ID)
  | insertNQ (k : NQKey) (t : Nat)
  | getNQ (k : NQKey)
  deriving Repr

inductive POut where
  | stats (s : InsertStats)
  | entries (es : List Entry)
  | count (n : Nat)
  | done
  | wrote (b : Bool)
  | nq (t : Option Nat)
  deriving Repr, DecidableEq

/-- one operation at logical time `tick` -/
def pstep (s : PathStore) (tick : Nat) : POp → PathStore × POut
  | .insert x type groups =>
    let y := insertSeg s.segs x type groups tick; ({ s with segs := y.1 }, .stats y.2)
  | .get p => (s, .entries (getSegs s.segs p))
  | .delExpired now =>
    let y := deleteExpiredSegs s.segs now; ({ s with segs := y.1 }, .count y.2)
  | .delSeg pre => ({ s with segs := deleteSegs s.segs pre }, .done)
  | .insertNQ k t => let y := insertNQ s.nq k t; ({ s with nq := y.1 }, .wrote y.2)
  | .getNQ k => (s, .nq (findNQ s.nq k))

/-- a history; operation number `i` runs at logical time `tick + i` -/
def prun (s : PathStore) (tick : Nat) : List POp → PathStore × List POut
  | [] => (s, [])
  | op :: rest =>
    let x := pstep s tick op
    let y := prun x.1 (tick + 1) rest
    (y.1, x.2 :: y.2)

/-! ## Beacon store -/

structure BIn where
  id : ID
  full : ID
  info : Nat     -- `Info.Timestamp.Unix()`
  exp : Nat      -- `MaxExpiry().Unix()`
  first : IA
  hops : Nat     -- `len(ASEntries)`
  deriving DecidableEq, Repr

structure BRec where
  id : ID
  full : ID
  info : Nat
  exp : Nat
  first : IA
  hops : Nat
  inIf : Nat
  usage : Nat
  lu : Nat
  deriving DecidableEq, Repr

abbrev BeaconStore := List BRec

def findB : BeaconStore → ID → Option BRec
  | [], _ => none
  | r :: rest, id => if r.id = id then some r else findB rest id

def mkB (b : BIn) (inIf usage tick : Nat) : BRec :=
  ⟨b.id, b.full, b.info, b.exp, b.first, b.hops, inIf, usage, tick⟩

/-- `InsertBeacon`: `updateExistingBeacon` rewrites every column except SegID and the start
    ISD-AS -/
def insertBeacon (s : BeaconStore) (b : BIn) (inIf usage tick : Nat) : BeaconStore × InsertStats :=
  match findB s b.id with
  | none => (s ++ [mkB b inIf usage tick], ⟨1, 0⟩)
  | some old =>
    -- b.Segment.Info.Timestamp.After(meta.InfoTime)
    if old.info < b.info then
      (s.map (fun r => if r.id = b.id then { mkB b inIf usage tick with first := r.first } else r),
       ⟨0, 1⟩)
    else (s, ⟨0, 0⟩)

/-- `(Usage & ?1) == ?1` -/
def usageHas (stored want : Nat) : Bool := (stored &&& want) == want

def IA.isZero (a : IA) : Bool := a.isd == 0 && a.as == 0

def candMatches (usage : Nat) (src : IA) (r : BRec) : Bool :=
  usageHas r.usage usage && (src.isZero || r.first == src)

def hopsLe (a b : BRec) : Bool := a.hops ≤ b.hops

/-- `CandidateBeacons`: `ORDER BY HopsLength ASC LIMIT setSize` -/
def candidates (s : BeaconStore) (k usage : Nat) (src : IA) : List BRec :=
  ((s.filter (candMatches usage src)).mergeSort hopsLe).take k

structure BParams where
  segIDs : List ID       -- prefixes
  startsAt : List IA
  inIfs : List Nat
  usages : List Nat
  validAt : Option Nat
  deriving Repr

/-- the four cases of the `StartsAt` switch (the all-zero ISD-AS has been skipped before) -/
def matchStart (q a : IA) : Bool :=
  if q.isd = 0 then q.as == a.as else if q.as = 0 then q.isd == a.isd else q == a

def bMatches (p : BParams) (r : BRec) : Bool :=
  (p.segIDs.isEmpty || p.segIDs.any (fun pre => hasPrefix pre r.id)) &&
  ((p.startsAt.filter (fun q => !q.isZero)).isEmpty ||
    (p.startsAt.filter (fun q => !q.isZero)).any (fun q => matchStart q r.first)) &&
  (p.inIfs.isEmpty || p.inIfs.contains r.inIf) &&
  ((p.usages.filter (fun u => decide (0 < u))).isEmpty ||
    (p.usages.filter (fun u => decide (0 < u))).any (fun u => usageHas r.usage u)) &&
  (match p.validAt with
   | none => true
   | some t => decide (r.info ≤ t) && decide (t ≤ r.exp))

/-- `GetBeacons` (row order; the SQL orders by `LastUpdated DESC`) -/
def getBeacons (s : BeaconStore) (p : BParams) : List BRec := s.filter (bMatches p)

/-- `DeleteExpiredBeacons`: `DELETE FROM Beacons WHERE ExpirationTime < now` -/
def deleteExpiredBeacons (s : BeaconStore) (now : Nat) : BeaconStore × Nat :=
  (s.filter (fun r => !decide (r.exp < now)), s.countP (fun r => decide (r.exp < now)))

/-- `DeleteBeacon` -/
def deleteBeacons (s : BeaconStore) (pre : ID) : BeaconStore :=
  s.filter (fun r => !hasPrefix pre r.id)

/-- `BeaconSources` (`SELECT DISTINCT StartIsd, StartAs`) -/
def beaconSources (s : BeaconStore) : List IA := (s.map (·.first)).eraseDups

inductive BOp where
  | insert (b : BIn) (inIf usage : Nat)
  | candidates (k usage : Nat) (src : IA)
  | get (p : BParams)
  | delExpired (now : Nat)
  | del (pre : ID)
  | sources
  deriving Repr

inductive BOut where
  | stats (s : InsertStats)
  | recs (rs : List BRec)
  | count (n : Nat)
  | done
  | ias (l : List IA)
  deriving Repr, DecidableEq

def bstep (s : BeaconStore) (tick : Nat) : BOp → BeaconStore × BOut
  | .insert b inIf usage => let y := insertBeacon s b inIf usage tick; (y.1, .stats y.2)
  | .candidates k usage src => (s, .recs (candidates s k usage src))
  | .get p => (s, .recs (getBeacons s p))
  | .delExpired now => let y := deleteExpiredBeacons s now; (y.1, .count y.2)
  | .del pre => (deleteBeacons s pre, .done)
  | .sources => (s, .ias (beaconSources s))

def brun (s : BeaconStore) (tick : Nat) : List BOp → BeaconStore × List BOut
  | [] => (s, [])
  | op :: rest =>
    let x := bstep s tick op
    let y := brun x.1 (tick + 1) rest
    (y.1, x.2 :: y.2)

end Scion.Stores
