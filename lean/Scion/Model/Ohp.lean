import Scion.Util.Hex
/-! Model of one-hop-path processing (`scionPacketProcessor.processOHP`, router/dataplane.go),
    with the part of `slayers.SCION.DecodeFromBytes` that decides whether the header length matches
    the one-hop path, `onehop.Path.DecodeFromBytes/SerializeTo`, `path.MACInput`, `path.MAC`,
    `InfoField.UpdateSegID`.  Core Lean only.

    Parameters (not modelled): `mac : Bytes → Bytes`, the AES-CMAC keyed with the router's key (all
    theorems hold for every `mac`); `Pkt.resolves`, whether `dataPlane.resolveLocalDst` finds an
    underlay address for the destination host (property C11 owns that function).
    Modelled: everything else `processOHP` does. -/
namespace Scion.Ohp
open Scion.Util

abbrev Mac := Bytes → Bytes

structure Info where
  peer : Bool
  consDir : Bool
  segID : Nat
  ts : Nat
deriving DecidableEq, Repr

structure Hop where
  ingAlert : Bool
  egAlert : Bool
  exp : Nat
  consIngress : Nat
  consEgress : Nat
  mac : Bytes
deriving DecidableEq, Repr

structure Path where
  info : Info
  first : Hop
  second : Hop
deriving DecidableEq, Repr

/-- big-endian number in `b[i : i+n]` (shorter if `b` ends earlier; callers guard the length) -/
def beAt (b : Bytes) (i n : Nat) : Nat := beNat ((b.drop i).take n)

def bit (v k : Nat) : Bool := v / 2 ^ k % 2 = 1

/-- `InfoField.DecodeFromBytes` -/
def decodeInfo (b : Bytes) : Info :=
  { consDir := bit (beAt b 0 1) 0, peer := bit (beAt b 0 1) 1, segID := beAt b 2 2, ts := beAt b 4 4 }

/-- `HopField.DecodeFromBytes` -/
def decodeHop (b : Bytes) : Hop :=
  { egAlert := bit (beAt b 0 1) 0, ingAlert := bit (beAt b 0 1) 1, exp := beAt b 1 1,
    consIngress := beAt b 2 2, consEgress := beAt b 4 2, mac := (b.drop 6).take 6 }

def PathLen : Nat := 32

/-- `onehop.Path.DecodeFromBytes` -/
def decodePath (b : Bytes) : Option Path :=
  if b.length < PathLen then none
  else some { info := decodeInfo b, first := decodeHop (b.drop 8), second := decodeHop (b.drop 20) }

def b2n (b : Bool) : Nat := if b then 1 else 0

/-- `InfoField.SerializeTo` -/
def encodeInfo (i : Info) : Bytes :=
  [UInt8.ofNat (b2n i.consDir + 2 * b2n i.peer), 0] ++ natBE 2 i.segID ++ natBE 4 i.ts

/-- `HopField.SerializeTo` (the MAC is a `[6]byte` in Go: shorter values are zero-padded) -/
def encodeHop (h : Hop) : Bytes :=
  [UInt8.ofNat (b2n h.egAlert + 2 * b2n h.ingAlert), UInt8.ofNat h.exp] ++ natBE 2 h.consIngress ++
    natBE 2 h.consEgress ++ (h.mac ++ List.replicate 6 0).take 6

/-- `onehop.Path.SerializeTo` -/
def encodePath (p : Path) : Bytes := encodeInfo p.info ++ encodeHop p.first ++ encodeHop p.second

/-- `path.MACInput` -/
def macInput (segID ts exp consIngress consEgress : Nat) : Bytes :=
  natBE 2 0 ++ natBE 2 segID ++ natBE 4 ts ++ [0, UInt8.ofNat exp] ++ natBE 2 consIngress ++
    natBE 2 consEgress ++ natBE 2 0

/-- `path.MAC`: the first six bytes of the MAC over the hop's input block -/
def hopMac (mac : Mac) (i : Info) (h : Hop) : Bytes :=
  (mac (macInput i.segID i.ts h.exp h.consIngress h.consEgress)).take 6

/-- `InfoField.UpdateSegID` -/
def updateSegID (i : Info) (hopMac : Bytes) : Info :=
  { i with segID := i.segID ^^^ beNat (hopMac.take 2) }

structure Cfg where
  localIA : Nat
  /-- `dataPlane.neighborIAs`: interface id ↦ neighbour ISD-AS (absent = 0) -/
  nbs : List (Nat × Nat)

def Cfg.nb (c : Cfg) (ifID : Nat) : Nat :=
  match c.nbs.lookup ifID with
  | some a => a
  | none => 0

/-- what the fast path sees of a one-hop packet -/
structure Pkt where
  /-- `pkt.Link.IfID()`: 0 for the internal link and for sibling links -/
  ingress : Nat
  srcIA : Nat
  dstIA : Nat
  /-- `HdrLen * 4` -/
  hdrBytes : Nat
  /-- length of the address header -/
  addrLen : Nat
  /-- length of the received data -/
  dataLen : Nat
  /-- `PayloadLen` of the common header -/
  payloadLen : Nat
  /-- the bytes after the address header up to `hdrBytes` (clipped to the data) -/
  region : Bytes
  /-- parameter: `resolveLocalDst` succeeds -/
  resolves : Bool

inductive Res where
  | drop
  | fwd (egress : Nat) (p : Path)
deriving DecidableEq, Repr

/-- path part of `slayers.SCION.DecodeFromBytes` for path type one-hop -/
def decodeStage (p : Pkt) : Option Path :=
  if p.hdrBytes < 12 + p.addrLen then none            -- negative pathLen
  else if p.dataLen < p.hdrBytes then none            -- provided buffer is too small
  else
    match decodePath (p.region.take (p.hdrBytes - 12 - p.addrLen)) with
    | none => none                                    -- buffer too short for OneHop path
    | some path =>
      if PathLen ≠ p.hdrBytes - 12 - p.addrLen then none   -- header length does not match path length
      else some path

/-- "OHP leaving our IA" -/
def outStage (c : Cfg) (mac : Mac) (p : Pkt) (path : Path) : Res :=
  if c.localIA ≠ p.srcIA then .drop
  else if c.nb path.first.consEgress = 0 then .drop
  else if c.nb path.first.consEgress ≠ p.dstIA then .drop
  else if path.first.mac ≠ hopMac mac path.info path.first then .drop
  else .fwd path.first.consEgress { path with info := updateSegID path.info path.first.mac }

/-- the second hop field the receiving router fills in -/
def secondHop (mac : Mac) (ingress : Nat) (path : Path) : Hop :=
  let sh : Hop := { ingAlert := false, egAlert := false, exp := path.first.exp,
                    consIngress := ingress, consEgress := 0, mac := [] }
  { sh with mac := hopMac mac path.info sh }

/-- "OHP entering our IA" -/
def inStage (c : Cfg) (mac : Mac) (p : Pkt) (path : Path) : Res :=
  if c.localIA ≠ p.dstIA then .drop
  else if c.nb p.ingress ≠ p.srcIA then .drop
  else if p.resolves = false then .drop
  else .fwd 0 { path with second := secondHop mac p.ingress path }

/-- `processOHP` after `decodeLayers` -/
def process (c : Cfg) (mac : Mac) (p : Pkt) : Res :=
  match decodeStage p with
  | none => .drop
  | some path =>
    if path.info.consDir = false then .drop
    else if p.payloadLen ≠ p.dataLen - p.hdrBytes then .drop      -- int(PayloadLen) != len(Payload)
    else if p.ingress = 0 then outStage c mac p path
    else inStage c mac p path

end Scion.Ohp
