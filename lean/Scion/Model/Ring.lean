/-! Model of `private/ringbuf.Ring` (property C48). Core Lean only.

State and index handling are exactly the code's: `entries` (a fixed slice whose cells are an
entry or nil), `writeIndex`, `readIndex` (both may rest at `count` until the next wrap-around),
`writable`, `readable`, `closed`. `bufWrite`/`bufRead` transcribe `Ring.write`/`Ring.read`
(two `copy` calls each, the second one after the wrap-around), `write`/`read`/`close` the bodies
of the exported methods as executed in their final pass through the critical section: a call
that would have to wait (`for r.writable == 0 && !r.closed { Wait }`) is *not enabled* (`none`).

`Fifo` is the abstract bounded FIFO queue of the property statement; `Mon` is the monitor
(mutex + two condition variables with their sets of parked callers). -/
namespace Scion.Ring

/-- a slot of `entries`: nil or an entry (entries are identified by numbers) -/
abbrev Cell := Option Nat

structure State where
  buf : List Cell
  w : Nat
  r : Nat
  writable : Nat
  readable : Nat
  closed : Bool
  deriving Repr, DecidableEq

def State.cap (s : State) : Nat := s.buf.length

/-- `New(count, nil, _)`: empty ring -/
def newEmpty (count : Nat) : State := ⟨List.replicate count none, 0, 0, count, 0, false⟩

/-- `New(count, newf, _)`: the ring starts full with the `count` entries made by `newf` -/
def newFull (es : List Nat) : State := ⟨es.map some, 0, 0, 0, es.length, false⟩

/-- number of elements the builtin `copy(dst[off:], src)` copies -/
def copyN (dstLen off srcLen : Nat) : Nat := min (dstLen - off) srcLen

/-- `copy(dst[off:], src)`: cell `p` of `dst` receives `src[p-off]` when that exists -/
def copyCell (off : Nat) (src : List Cell) (p : Nat) (x : Cell) : Cell :=
  if off ≤ p then (match src[p - off]? with | some v => v | none => x) else x

def copyAt (dst : List Cell) (off : Nat) (src : List Cell) : List Cell :=
  dst.mapIdx (copyCell off src)

/-- `for i := a; i < a+k; i++ { entries[i] = nil }` -/
def clearCell (a k : Nat) (p : Nat) (x : Cell) : Cell := if a ≤ p ∧ p < a + k then none else x

def clearAt (buf : List Cell) (a k : Nat) : List Cell := buf.mapIdx (clearCell a k)

/-- `Ring.write(entries)`: returns the new slice and the new `writeIndex` -/
def bufWrite (buf : List Cell) (w : Nat) (es : List Nat) : List Cell × Nat :=
  let n := copyN buf.length w es.length
  if n < es.length then
    (copyAt (copyAt buf w (es.map some)) 0 ((es.drop n).map some),
     copyN buf.length 0 (es.length - n))
  else (copyAt buf w (es.map some), w + n)

/-- `Ring.read(entries)` with `len(entries) = len`: new slice, the cells copied out, new
`readIndex` -/
def bufRead (buf : List Cell) (r len : Nat) : List Cell × List Cell × Nat :=
  let n := copyN buf.length r len
  if n < len then
    (clearAt (clearAt buf r n) 0 (copyN buf.length 0 (len - n)),
     (buf.drop r).take len ++ (clearAt buf r n).take (len - n),
     copyN buf.length 0 (len - n))
  else (clearAt buf r n, (buf.drop r).take len, r + n)

/-- `Ring.Write(entries, block)` in its final pass; `none` = the caller has to wait.
Answer: the returned count (−1 = closed). -/
def write (s : State) (es : List Nat) (block : Bool) : Option (State × Int) :=
  if 0 < es.length ∧ s.writable = 0 ∧ s.closed = false then
    (if block then none else some (s, 0))
  else if s.closed then some (s, -1)
  else
    some ({ s with buf := (bufWrite s.buf s.w (es.take (min s.writable es.length))).1,
                   w := (bufWrite s.buf s.w (es.take (min s.writable es.length))).2,
                   writable := s.writable - min s.writable es.length,
                   readable := s.readable + min s.writable es.length },
          (min s.writable es.length : Nat))

/-- `Ring.Read(entries, block)` with `len(entries) = len` in its final pass. Answer: returned
count (−1 = closed and drained) and the cells copied into `entries[:n]`. -/
def read (s : State) (len : Nat) (block : Bool) : Option (State × Int × List Cell) :=
  if 0 < len ∧ s.readable = 0 ∧ s.closed = false then
    (if block then none else some (s, 0, []))
  else if s.closed ∧ s.readable = 0 then some (s, -1, [])
  else
    some ({ s with buf := (bufRead s.buf s.r (min s.readable len)).1,
                   r := (bufRead s.buf s.r (min s.readable len)).2.2,
                   readable := s.readable - min s.readable len,
                   writable := s.writable + min s.readable len },
          (min s.readable len : Nat), (bufRead s.buf s.r (min s.readable len)).2.1)

/-- `Ring.Close()` -/
def close (s : State) : State := { s with closed := true }

/-- position of the `j`-th live entry counted from `readIndex` (indices may rest at `cap`) -/
def phys (cap base j : Nat) : Nat := if base + j < cap then base + j else base + j - cap

/-- abstraction function: the readable entries in order, starting at `readIndex` -/
def abs (s : State) : List Cell :=
  (List.range s.readable).map fun j => (s.buf[phys s.cap s.r j]?).join

/-! ### The abstract bounded FIFO queue -/

structure Fifo where
  q : List Cell
  cap : Nat
  closed : Bool
  deriving Repr, DecidableEq

def Fifo.write (f : Fifo) (es : List Nat) (block : Bool) : Option (Fifo × Int) :=
  if 0 < es.length ∧ f.cap - f.q.length = 0 ∧ f.closed = false then
    (if block then none else some (f, 0))
  else if f.closed then some (f, -1)
  else some ({ f with q := f.q ++ (es.take (min (f.cap - f.q.length) es.length)).map some },
             (min (f.cap - f.q.length) es.length : Nat))

def Fifo.read (f : Fifo) (len : Nat) (block : Bool) : Option (Fifo × Int × List Cell) :=
  if 0 < len ∧ f.q.length = 0 ∧ f.closed = false then
    (if block then none else some (f, 0, []))
  else if f.closed ∧ f.q.length = 0 then some (f, -1, [])
  else some ({ f with q := f.q.drop (min f.q.length len) }, (min f.q.length len : Nat),
             f.q.take (min f.q.length len))

def Fifo.close (f : Fifo) : Fifo := { f with closed := true }

def absF (s : State) : Fifo := ⟨abs s, s.cap, s.closed⟩

/-! ### Operations as data (histories) -/

inductive Op where
  | write (es : List Nat) (block : Bool)
  | read (len : Nat) (block : Bool)
  | close
  deriving Repr, DecidableEq

/-- observable result of an operation -/
inductive Out where
  | wrote (n : Int)
  | got (n : Int) (cells : List Cell)
  | closed
  deriving Repr, DecidableEq

/-- one linearised operation; `none` = the operation is not enabled (its caller waits) -/
def step (s : State) : Op → Option (State × Out)
  | .write es b => (write s es b).map fun (s', n) => (s', .wrote n)
  | .read len b => (read s len b).map fun (s', n, c) => (s', .got n c)
  | .close => some (close s, .closed)

def Fifo.step (f : Fifo) : Op → Option (Fifo × Out)
  | .write es b => (f.write es b).map fun (f', n) => (f', .wrote n)
  | .read len b => (f.read len b).map fun (f', n, c) => (f', .got n c)
  | .close => some (f.close, .closed)

/-- run a sequential history; `none` as soon as an operation is not enabled -/
def runOps (s : State) : List Op → Option (State × List Out)
  | [] => some (s, [])
  | o :: os =>
    match step s o with
    | none => none
    | some (s', out) =>
      match runOps s' os with
      | none => none
      | some (s'', outs) => some (s'', out :: outs)

def Fifo.runOps (f : Fifo) : List Op → Option (Fifo × List Out)
  | [] => some (f, [])
  | o :: os =>
    match f.step o with
    | none => none
    | some (f', out) =>
      match Fifo.runOps f' os with
      | none => none
      | some (f'', outs) => some (f'', out :: outs)

/-! ### Monitor: mutex + condition variables with their parked callers -/

/-- which broadcasts the method bodies perform after changing the state
(`readableC.Broadcast()` in Write, `writableC.Broadcast()` in Read, both in Close) -/
structure Cfg where
  writeWakesReaders : Bool
  readWakesWriters : Bool
  closeWakesWriters : Bool
  closeWakesReaders : Bool
  deriving Repr, DecidableEq

structure Mon where
  ring : State
  /-- callers parked in `readableC.Wait()` -/
  rWait : List Nat
  /-- callers parked in `writableC.Wait()` -/
  wWait : List Nat
  deriving Repr

inductive MStep where
  /-- caller `t` of a blocking Read finds `readable == 0 && !closed` and parks -/
  | parkR (t : Nat) (len : Nat)
  /-- caller `t` of a blocking Write finds `writable == 0 && !closed` and parks -/
  | parkW (t : Nat) (es : List Nat)
  /-- a running (not parked) caller executes the body of Write / Read / Close -/
  | doWrite (es : List Nat) (block : Bool)
  | doRead (len : Nat) (block : Bool)
  | doClose
  deriving Repr

/-- does this Write reach the state change and the broadcast (no early return)? -/
def writeMutates (s : State) (es : List Nat) : Bool :=
  !(decide (0 < es.length) && s.writable == 0 && !s.closed) && !s.closed

def readMutates (s : State) (len : Nat) : Bool :=
  !(decide (0 < len) && s.readable == 0 && !s.closed) && !(s.closed && s.readable == 0)

def mstep (c : Cfg) (m : Mon) : MStep → Option Mon
  | .parkR t len =>
    if 0 < len ∧ m.ring.readable = 0 ∧ m.ring.closed = false then
      some { m with rWait := t :: m.rWait } else none
  | .parkW t es =>
    if 0 < es.length ∧ m.ring.writable = 0 ∧ m.ring.closed = false then
      some { m with wWait := t :: m.wWait } else none
  | .doWrite es block =>
    match write m.ring es block with
    | none => none
    | some (s', _) =>
      some { ring := s',
             rWait := if writeMutates m.ring es && c.writeWakesReaders then [] else m.rWait,
             wWait := m.wWait }
  | .doRead len block =>
    match read m.ring len block with
    | none => none
    | some (s', _, _) =>
      some { ring := s',
             rWait := m.rWait,
             wWait := if readMutates m.ring len && c.readWakesWriters then [] else m.wWait }
  | .doClose =>
    some { ring := close m.ring,
           rWait := if c.closeWakesReaders then [] else m.rWait,
           wWait := if c.closeWakesWriters then [] else m.wWait }

def mrun (c : Cfg) (m : Mon) : List MStep → Option Mon
  | [] => some m
  | st :: rest => match mstep c m st with
    | none => none
    | some m' => mrun c m' rest

end Scion.Ring
