import Scion.Util.Hex
import Scion.Model.PathMeta
/-!
Byte-level codec model of the SCION header: `pkg/slayers/scion.go`
`SCION.{DecodeFromBytes,SerializeTo,DecodeAddrHdr,SerializeAddrHdr}` and the path codecs
`path/empty`, `path/scion` (`Raw`, `MetaHdr`, `Base`; `Decoded` field codecs), `path/onehop`,
`path/epic`, `path.{InfoField,HopField}`.

Discipline: every Go slice expression `data[a:b]` is a `takeN`, which answers `none` where Go
would panic; the decoder turns such a `none` into the explicit outcome `Err.panic`.  The guards of
the Go code appear as the same guards, in the same order.  Theorem `C18.decode_no_panic` shows
`Err.panic` is unreachable.  Core Lean only.
-/
namespace Scion.Wire
open Scion.Util

/-- `data[:n], data[n:]`; `none` iff `n > len(data)` (Go: slice bounds out of range) -/
def takeN (n : Nat) (l : Bytes) : Option (Bytes × Bytes) :=
  if n ≤ l.length then some (l.take n, l.drop n) else none

inductive Err where
  | panic            -- a slice out of range (unreachable: `C18.decode_no_panic`)
  | shortCmn         -- len(data) < CmnHdrLen                       (SetTruncated)
  | shortAddr        -- DecodeAddrHdr: buffer too small             (SetTruncated)
  | negPathLen       -- HdrLen*4 < CmnHdrLen + addrHdrLen
  | shortPath        -- len(data) < offset + pathLen                (SetTruncated)
  | badPathType      -- path.NewPath: unsupported path (strict decoding)
  | pathDecode       -- the path type's DecodeFromBytes failed
  | pathLenMismatch  -- Path.Len() != pathLen (HdrLen declares more than the path needs)
  | hdrTooLong       -- SerializeTo: header length exceeds maximum
  | hdrNotAligned    -- SerializeTo: not a multiple of LineLen
  | pathSerialize    -- the path type's SerializeTo failed
deriving DecidableEq, Repr

def Err.truncated : Err → Bool
  | .shortCmn | .shortAddr | .shortPath => true
  | _ => false

/-! ### info and hop fields -/

structure Info where
  peer : Bool
  consDir : Bool
  segID : Nat
  ts : Nat
deriving DecidableEq, Repr

structure Hop where
  inAlert : Bool
  egAlert : Bool
  expTime : Nat
  consIn : Nat
  consEg : Nat
  mac : Bytes
deriving DecidableEq, Repr

def b2n (b : Bool) : Nat := if b then 1 else 0

/-- `InfoField.SerializeTo` -/
def encInfo (i : Info) : Bytes :=
  UInt8.ofNat (b2n i.consDir + 2 * b2n i.peer) :: 0 :: (natBE 2 i.segID ++ natBE 4 i.ts)

/-- `InfoField.DecodeFromBytes` on exactly `InfoLen` bytes -/
def decInfo : Bytes → Option Info
  | [f, _, s0, s1, t0, t1, t2, t3] =>
    some { consDir := f.toNat % 2 == 1, peer := f.toNat / 2 % 2 == 1,
           segID := beNat [s0, s1], ts := beNat [t0, t1, t2, t3] }
  | _ => none

/-- `copy(b[6:12], h.Mac[:])` of the 6-byte array -/
def fit (n : Nat) (l : Bytes) : Bytes := (l ++ List.replicate n 0).take n

/-- `HopField.SerializeTo` -/
def encHop (h : Hop) : Bytes :=
  UInt8.ofNat (b2n h.egAlert + 2 * b2n h.inAlert) :: UInt8.ofNat h.expTime ::
    (natBE 2 h.consIn ++ natBE 2 h.consEg ++ fit 6 h.mac)

/-- `HopField.DecodeFromBytes` on exactly `HopLen` bytes -/
def decHop : Bytes → Option Hop
  | [f, e, i0, i1, e0, e1, m0, m1, m2, m3, m4, m5] =>
    some { egAlert := f.toNat % 2 == 1, inAlert := f.toNat / 2 % 2 == 1, expTime := e.toNat,
           consIn := beNat [i0, i1], consEg := beNat [e0, e1], mac := [m0, m1, m2, m3, m4, m5] }
  | _ => none

/-- the `for i := range NumINF` loop of `Decoded.DecodeFromBytes` -/
def decInfos : Nat → Bytes → Option (List Info × Bytes)
  | 0, l => some ([], l)
  | n+1, l =>
    match takeN 8 l with
    | none => none
    | some (b, rest) =>
      match decInfo b, decInfos n rest with
      | some i, some (is, r) => some (i :: is, r)
      | _, _ => none

def decHops : Nat → Bytes → Option (List Hop × Bytes)
  | 0, l => some ([], l)
  | n+1, l =>
    match takeN 12 l with
    | none => none
    | some (b, rest) =>
      match decHop b, decHops n rest with
      | some h, some (hs, r) => some (h :: hs, r)
      | _, _ => none

def encInfos (l : List Info) : Bytes := (l.map encInfo).flatten
def encHops (l : List Hop) : Bytes := (l.map encHop).flatten

/-! ### paths -/

inductive PathV where
  | empty
  /-- `scion.Raw`: meta header fields and the bytes after the meta line (`Raw[4:]`) -/
  | scion (pm : PathMeta.Hdr) (body : Bytes)
  | onehop (info : Info) (h1 h2 : Hop)
  /-- `epic.Path` with its embedded `scion.Raw` -/
  | epic (ts ctr : Nat) (phvf lhvf : Bytes) (pm : PathMeta.Hdr) (body : Bytes)
deriving DecidableEq, Repr

/-- `Base.Len() - MetaLen` for the `NumINF`/`NumHops` that `Base.DecodeFromBytes` derives -/
def bodyLen (b : PathMeta.Base) : Nat := b.numINF * 8 + b.numHops * 12

/-- `Base.DecodeFromBytes` after the meta line `w` has been read, and the length check of
`scion.Raw.DecodeFromBytes`; `rest` is `data[MetaLen:]` -/
def decRawBody (w : Nat) (rest : Bytes) : Except Err (PathMeta.Hdr × Bytes × Nat) :=
  match PathMeta.baseDecode (PathMeta.decode w) with
  | none => .error .pathDecode               -- SegLen gap / NumHops > MaxHops
  | some base =>
    if rest.length < bodyLen base then .error .pathDecode    -- "RawPath raw too short"
    else match takeN (bodyLen base) rest with
      | none => .error .panic
      | some (body, _) => .ok (PathMeta.decode w, body, 4 + bodyLen base)

/-- `scion.Raw.DecodeFromBytes`: the value and `Raw.Len()` -/
def decRaw (data : Bytes) : Except Err (PathMeta.Hdr × Bytes × Nat) :=
  match data with
  | a :: b :: c :: d :: rest => decRawBody (beNat [a, b, c, d]) rest   -- len(raw) >= MetaLen
  | _ => .error .pathDecode                     -- "MetaHdr raw too short"

/-- `onehop.Path.DecodeFromBytes` -/
def decOneHop (data : Bytes) : Except Err PathV :=
  if data.length < 32 then .error .pathDecode
  else match takeN 8 data with
    | none => .error .panic
    | some (ib, r1) =>
      match takeN 12 r1 with
      | none => .error .panic
      | some (h1b, r2) =>
        match takeN 12 r2 with
        | none => .error .panic
        | some (h2b, _) =>
          match decInfo ib, decHop h1b, decHop h2b with
          | some i, some h1, some h2 => .ok (.onehop i h1 h2)
          | _, _, _ => .error .panic

/-- `epic.Path.DecodeFromBytes` (`len(b) < MetadataLen` is the failing pattern match) -/
def decEpic (data : Bytes) : Except Err (PathV × Nat) :=
  match data with
  | t0 :: t1 :: t2 :: t3 :: c0 :: c1 :: c2 :: c3 :: p0 :: p1 :: p2 :: p3 ::
      l0 :: l1 :: l2 :: l3 :: rest =>
    match decRaw rest with
    | .error e => .error e
    | .ok (m, body, n) =>
      .ok (.epic (beNat [t0, t1, t2, t3]) (beNat [c0, c1, c2, c3]) [p0, p1, p2, p3]
        [l0, l1, l2, l3] m body, 16 + n)
  | _ => .error .pathDecode

/-- `getPath(pathType)` + `Path.DecodeFromBytes(data[offset:offset+pathLen])`; second component
is `Path.Len()` -/
def decPath (pt : Nat) (pb : Bytes) : Except Err (PathV × Nat) :=
  if pt = 0 then (if pb.length ≠ 0 then .error .pathDecode else .ok (.empty, 0))
  else if pt = 1 then
    match decRaw pb with
    | .error e => .error e
    | .ok (m, body, n) => .ok (.scion m body, n)
  else if pt = 2 then
    match decOneHop pb with
    | .error e => .error e
    | .ok p => .ok (p, 32)
  else if pt = 3 then decEpic pb
  else .error .badPathType

/-- `Raw.SerializeTo`: `PathMeta.SerializeTo(s.Raw)` then `copy(b, s.Raw)` -/
def encRaw (m : PathMeta.Hdr) (body : Bytes) : Bytes := natBE 4 (PathMeta.encode m) ++ body

/-- `Path.SerializeTo` (`none`: the serializer reports an error) -/
def encPath : PathV → Option Bytes
  | .empty => some []
  | .scion m body => some (encRaw m body)
  | .onehop i h1 h2 => some (encInfo i ++ encHop h1 ++ encHop h2)
  | .epic ts ctr phvf lhvf m body =>
    if phvf.length ≠ 4 ∨ lhvf.length ≠ 4 then none
    else some (natBE 4 ts ++ natBE 4 ctr ++ phvf ++ lhvf ++ encRaw m body)

/-- `Path.Type()` -/
def PathV.type : PathV → Nat
  | .empty => 0 | .scion .. => 1 | .onehop .. => 2 | .epic .. => 3

/-! ### common and address header -/

structure Cmn where
  version : Nat
  tc : Nat
  flowID : Nat
  nextHdr : Nat
  hdrLen : Nat
  payloadLen : Nat
  pathType : Nat
  dstType : Nat
  srcType : Nat
deriving DecidableEq, Repr

structure Hdr where
  cmn : Cmn
  dstIA : Nat
  srcIA : Nat
  rawDst : Bytes
  rawSrc : Bytes
  path : PathV
deriving DecidableEq, Repr

/-- `AddrType.Length` -/
def addrLen (t : Nat) : Nat := 4 * (1 + t % 4)

/-- `SCION.AddrHdrLen` -/
def addrHdrLen (c : Cmn) : Nat := 16 + addrLen c.dstType + addrLen c.srcType

/-- the common-header part of `SCION.DecodeFromBytes` -/
def decCmn : Bytes → Option (Cmn × Bytes)
  | b0 :: b1 :: b2 :: b3 :: nh :: hl :: p0 :: p1 :: pt :: atl :: _ :: _ :: rest =>
    let w := beNat [b0, b1, b2, b3]
    some ({ version := w / 2^28, tc := w / 2^20 % 256, flowID := w % 2^20, nextHdr := nh.toNat,
            hdrLen := hl.toNat, payloadLen := beNat [p0, p1], pathType := pt.toNat,
            dstType := atl.toNat / 16 % 16, srcType := atl.toNat % 16 }, rest)
  | _ => none

/-- the common-header part of `SCION.SerializeTo` -/
def encCmn (c : Cmn) : Bytes :=
  natBE 4 (c.version % 16 * 2^28 + c.tc % 256 * 2^20 + c.flowID % 2^20) ++
    [UInt8.ofNat c.nextHdr, UInt8.ofNat c.hdrLen] ++ natBE 2 c.payloadLen ++
    [UInt8.ofNat c.pathType, UInt8.ofNat (c.dstType % 16 * 16 + c.srcType % 16), 0, 0]

structure Addr where
  dstIA : Nat
  srcIA : Nat
  rawDst : Bytes
  rawSrc : Bytes
deriving DecidableEq, Repr

/-- `SCION.DecodeAddrHdr(data[CmnHdrLen:])` -/
def decAddr (c : Cmn) (rest : Bytes) : Except Err (Addr × Bytes) :=
  if rest.length < addrHdrLen c then .error .shortAddr
  else match takeN 8 rest with
    | none => .error .panic
    | some (dia, r1) =>
      match takeN 8 r1 with
      | none => .error .panic
      | some (sia, r2) =>
        match takeN (addrLen c.dstType) r2 with
        | none => .error .panic
        | some (dst, r3) =>
          match takeN (addrLen c.srcType) r3 with
          | none => .error .panic
          | some (src, r4) => .ok (⟨beNat dia, beNat sia, dst, src⟩, r4)

/-- `SCION.SerializeAddrHdr` (`copy` into a slot of the type's length) -/
def encAddr (c : Cmn) (a : Addr) : Bytes :=
  natBE 8 a.dstIA ++ natBE 8 a.srcIA ++ fit (addrLen c.dstType) a.rawDst ++
    fit (addrLen c.srcType) a.rawSrc

/-- the path part of `SCION.DecodeFromBytes`; `r4` is `data[CmnHdrLen+addrHdrLen:]`.
Result: path and payload (`data[hdrBytes:]`). -/
def decPathPart (c : Cmn) (dataLen : Nat) (r4 : Bytes) : Except Err (PathV × Bytes) :=
  if c.hdrLen * 4 < 12 + addrHdrLen c then .error .negPathLen
  else if dataLen < 12 + addrHdrLen c + (c.hdrLen * 4 - 12 - addrHdrLen c) then .error .shortPath
  else if c.pathType > 3 then .error .badPathType
  else match takeN (c.hdrLen * 4 - 12 - addrHdrLen c) r4 with
    | none => .error .panic
    | some (pb, payload) =>
      match decPath c.pathType pb with
      | .error e => .error e
      | .ok (p, n) =>
        if n ≠ c.hdrLen * 4 - 12 - addrHdrLen c then .error .pathLenMismatch
        else .ok (p, payload)

/-- `SCION.DecodeFromBytes`: header value and `Payload` -/
def decodeSCION (data : Bytes) : Except Err (Hdr × Bytes) :=
  match decCmn data with
  | none => .error .shortCmn
  | some (c, rest) =>
    match decAddr c rest with
    | .error e => .error e
    | .ok (a, r4) =>
      match decPathPart c data.length r4 with
      | .error e => .error e
      | .ok (p, payload) => .ok (⟨c, a.dstIA, a.srcIA, a.rawDst, a.rawSrc, p⟩, payload)

/-- `Path.Len()` of a value -/
def pathLen : PathV → Nat
  | .empty => 0
  | .scion m _ => match PathMeta.baseDecode m with
    | some b => 4 + bodyLen b
    | none => 4            -- not a decodable meta header; `Base` fields would be stale
  | .onehop .. => 32
  | .epic _ _ _ _ m _ => match PathMeta.baseDecode m with
    | some b => 20 + bodyLen b
    | none => 20

/-- `SCION.SerializeTo` without `FixLengths` -/
def encodeSCION (h : Hdr) : Except Err Bytes :=
  let scnLen := 12 + addrHdrLen h.cmn + pathLen h.path
  if scnLen > 1020 then .error .hdrTooLong
  else if scnLen % 4 ≠ 0 then .error .hdrNotAligned
  else match encPath h.path with
    | none => .error .pathSerialize
    | some pb => .ok (encCmn h.cmn ++ encAddr h.cmn ⟨h.dstIA, h.srcIA, h.rawDst, h.rawSrc⟩ ++ pb)

/-- the `opts.FixLengths` branch: `HdrLen = scnLen/LineLen`, `PayloadLen = uint16(rest)` -/
def fixLengths (h : Hdr) (payloadLen : Nat) : Hdr :=
  { h with cmn := { h.cmn with
      hdrLen := (12 + addrHdrLen h.cmn + pathLen h.path) / 4 % 256,
      payloadLen := payloadLen % 65536 } }


/-! ### specification vocabulary: well-formed values, reserved bits -/

def Info.WF (i : Info) : Prop := i.segID < 65536 ∧ i.ts < 2^32
def Hop.WF (h : Hop) : Prop :=
  h.expTime < 256 ∧ h.consIn < 65536 ∧ h.consEg < 65536 ∧ h.mac.length = 6

instance (i : Info) : Decidable i.WF := by unfold Info.WF; exact inferInstance
instance (h : Hop) : Decidable h.WF := by unfold Hop.WF; exact inferInstance

/-- a `scion.Raw` value: meta fields in range, a shape `Base.DecodeFromBytes` accepts, and
exactly the bytes of its info and hop fields -/
def RawWF (m : PathMeta.Hdr) (body : Bytes) : Prop :=
  m.InRange ∧ match PathMeta.baseDecode m with
    | some b => body.length = bodyLen b
    | none => False

instance (m : PathMeta.Hdr) : Decidable m.InRange := by unfold PathMeta.Hdr.InRange; exact inferInstance
instance (m : PathMeta.Hdr) (body : Bytes) : Decidable (RawWF m body) := by
  unfold RawWF; cases PathMeta.baseDecode m <;> exact inferInstance

def PathWF : PathV → Prop
  | .empty => True
  | .scion m body => RawWF m body
  | .onehop i h1 h2 => i.WF ∧ h1.WF ∧ h2.WF
  | .epic ts ctr p l m body => ts < 2^32 ∧ ctr < 2^32 ∧ p.length = 4 ∧ l.length = 4 ∧ RawWF m body

instance (p : PathV) : Decidable (PathWF p) := by
  cases p <;> unfold PathWF <;> exact inferInstance

/-- field widths of the common header -/
def Cmn.WF (c : Cmn) : Prop :=
  c.version < 16 ∧ c.tc < 256 ∧ c.flowID < 2^20 ∧ c.nextHdr < 256 ∧ c.hdrLen < 256 ∧
  c.payloadLen < 65536 ∧ c.pathType < 256 ∧ c.dstType < 16 ∧ c.srcType < 16

instance (c : Cmn) : Decidable c.WF := by unfold Cmn.WF; exact inferInstance

/-- 64-bit ISD-AS numbers and host addresses of the length their type declares -/
def Addr.WF (c : Cmn) (a : Addr) : Prop :=
  a.dstIA < 2^64 ∧ a.srcIA < 2^64 ∧ a.rawDst.length = addrLen c.dstType ∧
  a.rawSrc.length = addrLen c.srcType

instance (c : Cmn) (a : Addr) : Decidable (a.WF c) := by unfold Addr.WF; exact inferInstance

/-- a well-formed SCION header value: field widths, address lengths, a well-formed path of the
declared type, and `HdrLen` = the length the header really has (which bounds it by 1020) -/
def Hdr.WF (h : Hdr) : Prop :=
  h.cmn.WF ∧ Addr.WF h.cmn ⟨h.dstIA, h.srcIA, h.rawDst, h.rawSrc⟩ ∧ PathWF h.path ∧
  h.cmn.pathType = h.path.type ∧ h.cmn.hdrLen * 4 = 12 + addrHdrLen h.cmn + pathLen h.path

instance (h : Hdr) : Decidable h.WF := by unfold Hdr.WF; exact inferInstance

/-- keep the `k` low bits of a byte -/
def keepLow (k : Nat) (b : UInt8) : UInt8 := UInt8.ofNat (b.toNat % 2^k)

/-- clear all but the `k` low bits of byte `pos` -/
def clr : Nat → Nat → Bytes → Bytes
  | _, _, [] => []
  | 0, k, b :: r => keepLow k b :: r
  | p+1, k, b :: r => b :: clr p k r

def clearBits (l : Bytes) : List (Nat × Nat) → Bytes
  | [] => l
  | (p, k) :: ms => clearBits (clr p k l) ms

/-- reserved bits inside the path, relative to the start of the path: (byte, low bits kept) -/
def pathMask : PathV → List (Nat × Nat)
  | .empty => []
  | .scion .. => [(1, 2)]                                  -- meta line bits 18..23
  | .onehop .. => [(0, 2), (1, 0), (8, 2), (20, 2)]      -- info flags+RSV, two hop flag bytes
  | .epic .. => [(17, 2)]                                 -- meta line of the embedded path

/-- reserved bits of a SCION header: the two RSV bytes of the common header and the path's -/
def reservedMask (h : Hdr) : List (Nat × Nat) :=
  (10, 0) :: (11, 0) :: (pathMask h.path).map fun (p, k) => (12 + addrHdrLen h.cmn + p, k)

end Scion.Wire
