/-!
Model of how the trust store advances: `FetchingProvider.NotifyTRC`
(private/trust/fetching_provider.go), `loadTRCs` (private/trust/store.go) and the TRC table of
the trust DB (private/storage/trust/sqlite/db.go: `SignedTRC` with the "latest" wildcard,
`InsertTRC`).

A stored TRC is the record of the facts these functions look at.  `SignedTRC.Verify` is a
parameter `Ver pred fetched` (its decision logic is the subject of C32); the fetcher is a script
of responses consumed one per request (any error / any TRC, right or wrong).  Core Lean only.
-/
namespace Scion.TrustStore

structure Rec where
  isd : Nat
  base : Nat
  serial : Nat
  /-- identity of the payload (`trcFingerprint` = SHA-256 of `TRC.Raw`) -/
  fp : Nat
deriving DecidableEq, Repr

abbrev DB := List Rec

/-- `ORDER BY base DESC, serial DESC`: `a` comes before `b` -/
def newer (a b : Rec) : Bool := a.base > b.base || (a.base == b.base && a.serial > b.serial)

def pickLatest : Option Rec → Rec → Option Rec
  | none, r => some r
  | some a, r => if newer r a then some r else some a

/-- `DB.SignedTRC(ctx, {ISD, LatestVer, LatestVer})` -/
def latest (db : DB) (isd : Nat) : Option Rec :=
  (db.filter (fun r => r.isd = isd)).foldl pickLatest none

inductive Ins where
  | inserted | exists | conflict
deriving DecidableEq, Repr

def sameID (r x : Rec) : Bool := x.isd == r.isd && x.base == r.base && x.serial == r.serial

/-- `DB.InsertTRC`: `INSERT … WHERE NOT EXISTS (same id and fingerprint)` into a table with
primary key (isd, base, serial) -/
def insert (db : DB) (r : Rec) : DB × Ins :=
  if db.any (fun x => sameID r x && x.fp == r.fp) then (db, .exists)
  else if db.any (sameID r) then (db, .conflict)
  else (db ++ [r], .inserted)

/-- one response of the (untrusted) fetcher -/
inductive Fetch where
  | err
  | trc (r : Rec)
deriving Repr

inductive Stop where
  | done | fetchErr | verifyErr | insertErr | scriptEnd
deriving DecidableEq, Repr

structure LoopRes where
  db : DB
  /-- the TRCs that were fetched, verified and stored (or already present), in order -/
  chain : List Rec
  fetches : Nat
  stop : Stop
deriving Repr

/-- the `for serial := trc.ID.Serial + 1; serial <= id.Serial; serial++` loop; `n` = number of
iterations left, `cur` = the TRC the next one is verified against -/
def loop (Ver : Rec → Rec → Bool) : Nat → DB → Rec → List Fetch → LoopRes
  | 0, db, _, _ => ⟨db, [], 0, .done⟩
  | _ + 1, db, _, [] => ⟨db, [], 0, .scriptEnd⟩
  | n + 1, db, cur, f :: script =>
    match f with
    | .err => ⟨db, [], 1, .fetchErr⟩
    | .trc r =>
      if Ver cur r = false then ⟨db, [], 1, .verifyErr⟩
      else
        match insert db r with
        | (_, .conflict) => ⟨db, [], 1, .insertErr⟩
        | (db', _) =>
          let res := loop Ver n db' r script
          ⟨res.db, r :: res.chain, res.fetches + 1, res.stop⟩

inductive Out where
  | notFound | baseMismatch | upToDate | notAllowed
  | loop (s : Stop)
deriving DecidableEq, Repr

def Out.isOk : Out → Bool
  | .upToDate => true
  | .loop .done => true
  | _ => false

structure NotifyRes where
  db : DB
  chain : List Rec
  fetches : Nat
  out : Out
deriving Repr

/-- `FetchingProvider.NotifyTRC(id)`; `allow` = `Recurser.AllowRecursion` and
`Router.ChooseServer` succeed -/
def notify (Ver : Rec → Rec → Bool) (db : DB) (isd base serial : Nat) (allow : Bool)
    (script : List Fetch) : NotifyRes :=
  match latest db isd with
  | none => ⟨db, [], 0, .notFound⟩
  | some cur =>
    if cur.base ≠ base then ⟨db, [], 0, .baseMismatch⟩
    else if serial ≤ cur.serial then ⟨db, [], 0, .upToDate⟩
    else if allow = false then ⟨db, [], 0, .notAllowed⟩
    else
      let r := loop Ver (serial - cur.serial) db cur script
      ⟨r.db, r.chain, r.fetches, .loop r.stop⟩

/-- one `*.trc` file as `loadTRCs` sees it -/
inductive File where
  | bad                         -- unreadable / does not decode: the function returns the error
  | trc (r : Rec) (future : Bool)  -- `time.Now().Before(trc.Validity.NotBefore)`
deriving Repr

structure LoadRes where
  db : DB
  loaded : List Rec
  failed : Bool
deriving Repr

/-- `loadTRCs` over the (sorted) file list -/
def load : DB → List File → LoadRes
  | db, [] => ⟨db, [], false⟩
  | db, f :: fs =>
    match f with
    | .bad => ⟨db, [], true⟩
    | .trc r future =>
      if future then load db fs
      else
        match insert db r with
        | (_, .conflict) => ⟨db, [], true⟩
        | (db', .inserted) =>
          let res := load db' fs
          ⟨res.db, r :: res.loaded, res.failed⟩
        | (db', .exists) => load db' fs

/-! ### histories -/

inductive Op where
  | notify (isd base serial : Nat) (allow : Bool) (script : List Fetch)
  | load (files : List File)

/-- the store together with the ghost set of TRCs that entered through `loadTRCs` (trusted
local files) -/
structure State where
  db : DB
  loaded : List Rec

def step (Ver : Rec → Rec → Bool) (s : State) : Op → State
  | .notify isd base serial allow script =>
    { s with db := (notify Ver s.db isd base serial allow script).db }
  | .load files =>
    let r := load s.db files
    { db := r.db, loaded := s.loaded ++ r.loaded }

def run (Ver : Rec → Rec → Bool) (s : State) (ops : List Op) : State :=
  ops.foldl (step Ver) s

end Scion.TrustStore
