import Scion.Util.Hex
/-!
Model of the SCION upper-layer checksum: `pkg/slayers/scion.go`
`SCION.{computeChecksum,pseudoHeaderChecksum,upperLayerChecksum,foldChecksum}` as used by
`UDP.SerializeTo` / `SCMP.SerializeTo`.  The Go accumulator is a `uint32`; the model sums in
`Nat` and reduces `% 2^32` where the Go value leaves the additions (theorem `C20.no_overflow`
shows the reduction is the identity for every upper layer of at most 65535 bytes).
Core Lean only.
-/
namespace Scion.Checksum
open Scion.Util

/-- sum of the big-endian 16-bit words of a byte string; an odd tail byte is the high byte of a
last word (`upperLayerChecksum`: pairs up to `len-1`, then `upperLayer[len-1] << 8`). -/
def sum16 : Bytes → Nat
  | [] => 0
  | [a] => a.toNat * 256
  | a :: b :: rest => a.toNat * 256 + b.toNat + sum16 rest

/-- the address loops of `pseudoHeaderChecksum` read `raw[i]` and `raw[i+1]` for even `i <
len(raw)`: an odd length makes the Go code index out of range. -/
inductive Err where
  | dstMissing      -- "destination address missing"
  | srcMissing      -- "source address missing"
  | oddAddr         -- Go would panic (index out of range); never reached from a decoded header
deriving DecidableEq, Repr

/-- the part of the SCION header that enters the pseudo header -/
structure PHdr where
  srcIA : Nat
  dstIA : Nat
  src : Bytes      -- RawSrcAddr
  dst : Bytes      -- RawDstAddr
deriving DecidableEq, Repr

/-- `uint64(IA)` written big-endian into 8 bytes and summed word-wise -/
def iaSum (ia : Nat) : Nat := sum16 (natBE 8 ia)

/-- `(l >> 16) + (l & 0xffff)` on `l := uint32(length)` -/
def lenSum (length : Nat) : Nat := (length % 2^32) / 65536 + (length % 2^32) % 65536

/-- unreduced accumulator of `pseudoHeaderChecksum` (all additions in `Nat`) -/
def pseudoRaw (h : PHdr) (length protocol : Nat) : Nat :=
  iaSum h.srcIA + iaSum h.dstIA + sum16 h.src + sum16 h.dst + lenSum length + protocol % 256

/-- `SCION.pseudoHeaderChecksum` (result as the `uint32` the Go code returns) -/
def pseudoHeaderChecksum (h : PHdr) (length protocol : Nat) : Except Err Nat :=
  if h.dst.length = 0 then .error .dstMissing
  else if h.src.length = 0 then .error .srcMissing
  else if h.src.length % 2 = 1 ∨ h.dst.length % 2 = 1 then .error .oddAddr
  else .ok (pseudoRaw h length protocol % 2^32)

/-- `SCION.upperLayerChecksum` -/
def upperLayerChecksum (upper : Bytes) (csum : Nat) : Nat := (csum + sum16 upper) % 2^32

/-- the `for csum > 0xffff` loop of `foldChecksum` -/
def fold (c : Nat) : Nat :=
  if c ≤ 0xffff then c else fold (c / 65536 + c % 65536)
termination_by c
decreasing_by omega

/-- `SCION.foldChecksum`: `^uint16(folded)` -/
def foldChecksum (c : Nat) : Nat := 0xffff - fold c

/-- `SCION.computeChecksum` -/
def computeChecksum (h : PHdr) (upper : Bytes) (protocol : Nat) : Except Err Nat :=
  match pseudoHeaderChecksum h upper.length protocol with
  | .error e => .error e
  | .ok c => .ok (foldChecksum (upperLayerChecksum upper c))

/-- unreduced total over pseudo header and upper layer — the sum the receiver forms -/
def totalRaw (h : PHdr) (length protocol : Nat) (upper : Bytes) : Nat :=
  pseudoRaw h length protocol + sum16 upper

/-- write the 16-bit value `c` big-endian at byte offset `off` (the checksum field: 6 in the
SCION/UDP header, 2 in the SCMP header); shorter strings are left as they are -/
def setWord : Bytes → Nat → Nat → Bytes
  | _ :: _ :: rest, 0, c => UInt8.ofNat (c / 256 % 256) :: UInt8.ofNat (c % 256) :: rest
  | l, 0, _ => l
  | [], _, _ => []
  | a :: rest, n+1, c => a :: setWord rest n c

/-- flip bit `b` (0 = least significant) of byte `i` -/
def flipBit : Bytes → Nat → Nat → Bytes
  | [], _, _ => []
  | a :: rest, 0, b => (a ^^^ UInt8.ofNat (2^b % 256)) :: rest
  | a :: rest, i+1, b => a :: flipBit rest i b

/-- the pseudo header as the byte string of `doc/protocols/scion-header.rst`:
DstIA ‖ SrcIA ‖ DstHost ‖ SrcHost ‖ upper-layer length (4) ‖ 0 0 0 ‖ next header -/
def pseudoBytes (h : PHdr) (length protocol : Nat) : Bytes :=
  natBE 8 h.dstIA ++ natBE 8 h.srcIA ++ h.dst ++ h.src ++ natBE 4 length ++
    [0, 0, 0, UInt8.ofNat protocol]

end Scion.Checksum
