import Scion.Model.Scmp
import Scion.Model.Checksum
import Scion.Model.Spao
/-!
Byte level of what `prepareSCMP` serialises behind the SCION header: the SCMP header (type, code,
checksum), the info block and the quote (`SCMP.SerializeTo` with `ComputeChecksums`, the
`SCMP*.SerializeTo` of `pkg/slayers/scmp_msg.go`), and the input of the authenticator
(`spao.ComputeAuthCMAC` over the reply header the model builds and the SCMP message).
Composes `Scion.Scmp` with `Scion.Checksum` (C20) and `Scion.Spao` (C21).  Core Lean only.
-/
namespace Scion.Scmp
open Scion.Util Scion.PathMeta

/-- the info block bytes: `SCMPDestinationUnreachable` (4 unused bytes), `SCMPParameterProblem`
(reserved, pointer), `SCMPExternalInterfaceDown` (IA, IfID), `SCMPInternalConnectivityDown` (IA,
ingress, egress), `SCMPTraceroute` (identifier, sequence, IA, interface) -/
def infoBytes (typ : Nat) (info : List Nat) : Bytes :=
  match typ, info with
  | 4, [p] => [0, 0] ++ natBE 2 p
  | 5, [ia, ifid] => natBE 8 ia ++ natBE 8 ifid
  | 6, [ia, i, e] => natBE 8 ia ++ natBE 8 i ++ natBE 8 e
  | 131, [id, seq, ia, ifid] => natBE 2 id ++ natBE 2 seq ++ natBE 8 ia ++ natBE 8 ifid
  | _, _ => [0, 0, 0, 0]

/-- the SCMP message with a zero checksum field, as `SCMP.SerializeTo` sums it -/
def scmpMsg0 (r : Reply) : Bytes :=
  [UInt8.ofNat r.scmpType, UInt8.ofNat r.scmpCode, 0, 0] ++ infoBytes r.scmpType r.info ++ r.quote

/-- the pseudo header of the reply (`scmpH.SetNetworkLayerForChecksum(&scionL)`) -/
def phdr (r : Reply) : Checksum.PHdr := ⟨r.srcIA, r.dstIA, r.rawSrc, r.rawDst⟩

/-- `s.scn.computeChecksum(b.Bytes(), uint8(L4SCMP))` -/
def scmpChecksum (r : Reply) : Except Checksum.Err Nat :=
  Checksum.computeChecksum (phdr r) (scmpMsg0 r) l4SCMP

/-- the message with the checksum stored at offset 2 -/
def scmpMsgWith (r : Reply) (c : Nat) : Bytes := Checksum.setWord (scmpMsg0 r) 2 c

/-! ### authenticator -/

/-- `MakePacketAuthSPIDRKey(uint16(drkey.SCMP), PacketAuthASHost, PacketAuthSenderSide)`:
type bit 17 = 0, direction bit 16 = 0, protocol 1 -/
def scmpSPI : Nat := 1

def toWireInfo (i : InfoF) : Wire.Info := ⟨i.peer, i.consDir, i.segID, i.ts⟩

/-- the reply's path as `Decoded.SerializeTo` writes it behind the meta line -/
def replyPathBody (r : Reply) : Bytes := Wire.encInfos (r.infos.map toWireInfo) ++ r.hops.flatten

/-- the reply's SCION header as a `Scion.Wire` value (`scionL` of `prepareSCMP`) -/
def replyHdr (r : Reply) : Wire.Hdr :=
  { cmn := ⟨0, r.tc, r.flowID, r.nextHdr, r.hdrLenField, r.payloadLen, r.pathType, r.dstType, r.srcType⟩,
    dstIA := r.dstIA, srcIA := r.srcIA, rawDst := r.rawDst, rawSrc := r.rawSrc,
    path := .scion r.pm (replyPathBody r) }

/-- `spao.MACInput{Header: optAuth, ScionLayer: &scionL, PldType: L4SCMP, Pld: serBuf.Bytes()}`;
`ts` is the option's relative timestamp, `msg` the SCMP message (checksum included) -/
def replyAuthIn (r : Reply) (ts : Nat) (msg : Bytes) : Spao.AuthIn :=
  ⟨replyHdr r, scmpSPI, 0, ts, l4SCMP, msg⟩

/-- the authenticator tag of the reply for a MAC `mac key input`; `none` if the authenticated data
cannot be built (theorem `C09.auth_tag_valid`: never for an emitted reply) -/
def authTag (mac : Bytes → Bytes → Bytes) (key : Bytes) (r : Reply) (ts : Nat) (msg : Bytes) :
    Option Bytes :=
  match Spao.macInput (replyAuthIn r ts msg) with
  | .ok inp => some (mac key inp)
  | .error _ => none

/-- FNV-1a (64 bit) of a byte string: digest for the line protocol -/
def fnv64 (bs : Bytes) : Nat :=
  bs.foldl (fun h b => ((h ^^^ b.toNat) * 0x100000001b3) % 2^64) 0xcbf29ce484222325

end Scion.Scmp
