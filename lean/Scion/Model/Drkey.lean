import Scion.Util.Hex
/-! Model of the DRKey derivations (property C39). Core only.

Mirrors
* `pkg/drkey/protocol.go`   — key types, `SerializeHostHostInput`, `DeriveKey` (= the PRF, a
                              PARAMETER `prf : Key → Bytes → Key` here),
* `pkg/drkey/specific`      — `Deriver.{DeriveLevel1,DeriveASHost,DeriveHostAS,DeriveHostHost}`,
                              `serializeLevel1Input`, `serializeLevel2Input`,
* `pkg/drkey/generic`       — the same with the 2-byte protocol in the level-2 input,
* `control/drkey/service_engine.go` + `secret_value_mgr.go` — `ServiceEngine.{DeriveLevel1,
                              DeriveASHost,DeriveHostAS,DeriveHostHost}`, `obtainLevel1Key`,
                              `getLevel1Key`, epoch of a secret value,
* `pkg/drkey/drkey.go`      — the byte string handed to the KDF by `DeriveSV`,
* `private/drkey/drkeyutil/provider.go` + `pkg/spao/timestamp.go` —
                              `FakeProvider.GetKeyWithinAcceptanceWindow`, `RelativeTimestamp`,
                              `AbsoluteTimestamp`.

Host addresses enter the model in the form produced by `addr.ParseHost` + `slayers.PackAddr`
(4-bit type/length nibble and raw bytes); the text parser is Go's. -/
namespace Scion.Drkey
open Scion.Util

abbrev Key := Bytes

/-! ## key types (`pkg/drkey/protocol.go`, `iota`) -/
def ktAsAs : Nat := 0
def ktAsHost : Nat := 1
def ktHostAS : Nat := 2
def ktHostHost : Nat := 3

/-- protocol identifiers with a protocol-specific derivation (`Protocol.IsPredefined`: the keys
    of `pb.Protocol_name`) -/
def predefinedProtos : List Nat := [0, 1]
def isPredefined (p : Nat) : Bool := predefinedProtos.contains p
/-- `drkey.Generic` -/
def genericProto : Nat := 0

/-- A host address as returned by `slayers.PackAddr`. -/
structure Host where
  typ : Nat        -- `slayers.AddrType` (DT/DL nibble): T4Ip = 0, T16Ip = 3, T4Svc = 4
  raw : Bytes
deriving DecidableEq, Repr

def T4Ip : Nat := 0
def T16Ip : Nat := 3
def T4Svc : Nat := 4

/-- well-formed: a nibble whose DL bits give the length (`AddrType.Length`) -/
def Host.WF (h : Host) : Prop := h.typ < 16 ∧ h.raw.length = 4 * (h.typ % 4 + 1)

instance (h : Host) : Decidable h.WF := by unfold Host.WF; exact inferInstance

/-! ## derivation inputs -/

/-- size of the scratch buffer the derivers allocate (`make([]byte, 32)`) -/
def l2BufLen : Nat := 32

/-- `nrBlocks := (hdr+l-1)/16 + 1; inputLength := 16*nrBlocks` -/
def inputLen (hdr l : Nat) : Nat := 16 * ((hdr + l - 1) / 16 + 1)

/-- body followed by zeros up to `n` bytes (`copy(input[hdr+l:inputLength], ZeroBlock[:])` on a
    freshly allocated, i.e. zeroed, buffer) -/
def zeroPad (body : Bytes) (n : Nat) : Bytes := body ++ List.replicate (n - body.length) 0

/-- `serializeLevel1Input`: type ‖ dstIA (8 bytes, big endian) ‖ zeros, one AES block -/
def level1Input (dstIA : Nat) : Bytes :=
  zeroPad (UInt8.ofNat ktAsAs :: natBE 8 dstIA) 16

/-- `specific.Deriver.serializeLevel2Input` / `drkey.SerializeHostHostInput`:
    type ‖ host type nibble ‖ host bytes ‖ zeros.  `none` = the bounds check
    `_ = input[inputLength-1]` on the 32-byte buffer panics. -/
def specificInput (kt : Nat) (h : Host) : Option Bytes :=
  if inputLen 2 h.raw.length > l2BufLen then none
  else some (zeroPad (UInt8.ofNat kt :: UInt8.ofNat (h.typ % 16) :: h.raw) (inputLen 2 h.raw.length))

/-- `generic.Deriver.serializeLevel2Input`:
    type ‖ protocol (2 bytes, big endian) ‖ host type nibble ‖ host bytes ‖ zeros -/
def genericInput (kt proto : Nat) (h : Host) : Option Bytes :=
  if inputLen 4 h.raw.length > l2BufLen then none
  else some (zeroPad (UInt8.ofNat kt :: UInt8.ofNat (proto / 256 % 256) :: UInt8.ofNat (proto % 256) ::
                      UInt8.ofNat (h.typ % 16) :: h.raw) (inputLen 4 h.raw.length))

/-- `drkey.SerializeHostHostInput` (shared by both derivers) -/
def hostHostInput (h : Host) : Option Bytes := specificInput ktHostHost h

/-! ## derivers (`pkg/drkey/specific`, `pkg/drkey/generic`) — what a host runs itself -/

inductive DErr
  | badHost   -- `addr.ParseHost` / `slayers.PackAddr` failed
  | panic     -- buffer bounds
deriving DecidableEq, Repr

/-- one derivation step: serialise, then PRF under the upper-level key -/
def deriveWith (prf : Key → Bytes → Key) (key : Key) (h : Option Host)
    (ser : Host → Option Bytes) : Except DErr Key :=
  match h with
  | none => .error .badHost
  | some h =>
    match ser h with
    | none => .error .panic
    | some inp => .ok (prf key inp)

namespace Specific
def deriveLevel1 (prf : Key → Bytes → Key) (dstIA : Nat) (key : Key) : Key :=
  prf key (level1Input dstIA)
def deriveASHost (prf : Key → Bytes → Key) (dstHost : Option Host) (key : Key) : Except DErr Key :=
  deriveWith prf key dstHost (specificInput ktAsHost)
def deriveHostAS (prf : Key → Bytes → Key) (srcHost : Option Host) (key : Key) : Except DErr Key :=
  deriveWith prf key srcHost (specificInput ktHostAS)
def deriveHostHost (prf : Key → Bytes → Key) (dstHost : Option Host) (key : Key) : Except DErr Key :=
  deriveWith prf key dstHost hostHostInput
end Specific

namespace Generic
def deriveASHost (prf : Key → Bytes → Key) (proto : Nat) (dstHost : Option Host) (key : Key) :
    Except DErr Key :=
  deriveWith prf key dstHost (genericInput ktAsHost proto)
def deriveHostAS (prf : Key → Bytes → Key) (proto : Nat) (srcHost : Option Host) (key : Key) :
    Except DErr Key :=
  deriveWith prf key srcHost (genericInput ktHostAS proto)
def deriveHostHost (prf : Key → Bytes → Key) (dstHost : Option Host) (key : Key) : Except DErr Key :=
  deriveWith prf key dstHost hostHostInput
end Generic

/-! ## the control service (`control/drkey/service_engine.go`)

`sv ia p` is the secret value of AS `ia` for protocol `p` (in the epoch of the request).  The
service of AS `localIA` reads only `sv localIA ·`; a level-1 key whose source is another AS is
fetched from that AS's service, whose `DRKeyLevel1` handler runs `DeriveLevel1` on *its* secret
value with the destination taken from the client certificate (C40), i.e. `localIA`. -/

inductive SvcErr
  | notEndpoint  -- "neither srcIA nor dstIA matches LocalIA"
  | badHost
  | panic
deriving DecidableEq, Repr

def liftD : Except DErr Key → Except SvcErr Key
  | .ok k => .ok k
  | .error .badHost => .error .badHost
  | .error .panic => .error .panic

/-- `ServiceEngine.getLevel1Key` (DB and fetcher collapsed to "what the source AS derives") -/
def getLevel1Key (prf : Key → Bytes → Key) (sv : Nat → Nat → Key) (localIA p src dst : Nat) :
    Except SvcErr Key :=
  if src = localIA then .ok (Specific.deriveLevel1 prf dst (sv localIA p))
  else if dst ≠ localIA then .error .notEndpoint
  else .ok (Specific.deriveLevel1 prf dst (sv src p))

/-- `ServiceEngine.obtainLevel1Key`: niche protocols hang off the generic level-1 key -/
def obtainLevel1Key (prf : Key → Bytes → Key) (sv : Nat → Nat → Key) (localIA p src dst : Nat) :
    Except SvcErr Key :=
  getLevel1Key prf sv localIA (if isPredefined p then p else genericProto) src dst

/-- `ServiceEngine.DeriveASHost` -/
def svcASHost (prf : Key → Bytes → Key) (sv : Nat → Nat → Key) (localIA p src dst : Nat)
    (dstHost : Option Host) : Except SvcErr Key :=
  match obtainLevel1Key prf sv localIA p src dst with
  | .error e => .error e
  | .ok l1 =>
    if isPredefined p then liftD (Specific.deriveASHost prf dstHost l1)
    else liftD (Generic.deriveASHost prf p dstHost l1)

/-- `ServiceEngine.DeriveHostAS` -/
def svcHostAS (prf : Key → Bytes → Key) (sv : Nat → Nat → Key) (localIA p src dst : Nat)
    (srcHost : Option Host) : Except SvcErr Key :=
  match obtainLevel1Key prf sv localIA p src dst with
  | .error e => .error e
  | .ok l1 =>
    if isPredefined p then liftD (Specific.deriveHostAS prf srcHost l1)
    else liftD (Generic.deriveHostAS prf p srcHost l1)

/-- `ServiceEngine.DeriveHostHost`: via the intermediate host-AS key -/
def svcHostHost (prf : Key → Bytes → Key) (sv : Nat → Nat → Key) (localIA p src dst : Nat)
    (srcHost dstHost : Option Host) : Except SvcErr Key :=
  match svcHostAS prf sv localIA p src dst srcHost with
  | .error e => .error e
  | .ok hostAS =>
    if isPredefined p then liftD (Specific.deriveHostHost prf dstHost hostAS)
    else liftD (Generic.deriveHostHost prf dstHost hostAS)

/-! ## secret values (`drkey.DeriveSV`, `secretValueBackend.getSecretValue`) -/

/-- the byte string handed to PBKDF2 by `DeriveSV`:
    len(secret) (8 bytes) ‖ secret ‖ protocol (2) ‖ epoch begin (4) ‖ epoch end (4).
    `none` = "Invalid zero sized secret". -/
def svInput (secret : Bytes) (proto epochBegin epochEnd : Nat) : Option Bytes :=
  if secret.length = 0 then none
  else some (natBE 8 secret.length ++ secret ++ natBE 2 proto ++ natBE 4 epochBegin ++ natBE 4 epochEnd)

/-- Go's `uint32(x)` of an `int64` -/
def u32 (x : Int) : Nat := (x % 4294967296).toNat

/-- `newEpoch(idx, duration)` (`drkeyutil`) and the same three lines in `getSecretValue`:
    `begin := uint32(idx*duration); end := begin + uint32(duration)` (seconds, wrapping) -/
def newEpoch (idx duration : Int) : Nat × Nat :=
  let b := u32 (idx * duration)
  (b, (b + u32 duration) % 4294967296)

/-- epoch of the secret value covering `validity` (Unix seconds) for a key duration of `duration`
    seconds: `idx := validity.Unix() / duration` (Go division truncates towards zero).
    `none` = integer division by zero. -/
def svEpoch (validity duration : Int) : Option (Nat × Nat) :=
  if duration = 0 then none else some (newEpoch (Int.tdiv validity duration) duration)

/-- `drkey.DeriveSV` with the KDF (PBKDF2-HMAC-SHA256, salt "Derive DRKey Key", 1000 iterations,
    16 bytes) as a parameter -/
def deriveSV (kdf : Bytes → Key) (secret : Bytes) (proto epochBegin epochEnd : Nat) : Option Key :=
  (svInput secret proto epochBegin epochEnd).map kdf

inductive SVOut
  | divZero                              -- key duration < 1 s: integer division by zero
  | emptySecret                          -- "Invalid zero sized secret"
  | sv (epoch : Nat × Nat) (key : Key)
deriving DecidableEq, Repr

/-- `secretValueBackend.getSecretValue` when the store has no entry: epoch from the validity time,
    then `DeriveSV` (16-bit protocol id) -/
def getSecretValue (kdf : Bytes → Key) (secret : Bytes) (duration validity : Int) (proto : Nat) :
    SVOut :=
  match svEpoch validity duration with
  | none => .divZero
  | some ep =>
    match deriveSV kdf secret proto ep.1 ep.2 with
    | none => .emptySecret
    | some k => .sv ep k

/-! ## acceptance window (`FakeProvider.GetKeyWithinAcceptanceWindow`) -/

/-- `drkey.GRACE_PERIOD` in nanoseconds -/
def gracePeriodNs : Int := 5000000000
def nsPerSec : Int := 1000000000

/-- Go's `int64(x)` / `time.Duration(x)` of a `uint64` -/
def toInt64 (u : Nat) : Int := if u < 9223372036854775808 then (u : Int) else (u : Int) - 18446744073709551616

/-- `spao.AbsoluteTimestamp(epoch, relTime)` in Unix nanoseconds -/
def absTime (epochBegin : Nat) (ts : Nat) : Int := (epochBegin : Int) * nsPerSec + toInt64 ts

/-- `spao.RelativeTimestamp(epoch, t)`: nanoseconds from the epoch's begin to `t`, converted to
    `uint64`; `none` = "relative timestamp is bigger than 2^48-1" -/
def relTimestamp (epochBegin : Nat) (tNs : Int) : Option Nat :=
  let r := tNs - (epochBegin : Int) * nsPerSec
  if r ≥ 281474976710656 then none else some (r % 18446744073709551616).toNat

/-- `cppki.Validity.Contains`: closed interval -/
def contains (lo hi x : Int) : Bool := decide (lo ≤ x) && decide (x ≤ hi)

/-- `withinGracePeriod(epoch, absTime)` -/
def withinGrace (e : Nat × Nat) (abs : Int) : Bool :=
  contains ((e.1 : Int) * nsPerSec) ((e.2 : Int) * nsPerSec + gracePeriodNs) abs

structure WinIn where
  tNs : Int          -- reception time, Unix nanoseconds
  epochDurNs : Int   -- FakeProvider.EpochDuration
  accWinNs : Int     -- FakeProvider.AcceptanceWindow
  ts : Nat           -- the authenticator's 48-bit (here: any uint64) relative timestamp

inductive WinOut
  | divZero                      -- EpochDuration < 1 s: integer division by zero
  | noKey                        -- "no absTime falls into the acceptance window"
  | key (epoch : Nat × Nat)      -- the selected key's epoch (seconds)
deriving DecidableEq, Repr

def WinIn.duration (i : WinIn) : Int := Int.tdiv i.epochDurNs nsPerSec
/-- `validTime.Unix()`: floor -/
def WinIn.unix (i : WinIn) : Int := i.tNs / nsPerSec
def WinIn.idx (i : WinIn) : Int := Int.tdiv i.unix i.duration
def WinIn.awBegin (i : WinIn) : Int := i.tNs - Int.tdiv i.accWinNs 2
def WinIn.awEnd (i : WinIn) : Int := i.tNs + Int.tdiv i.accWinNs 2
/-- the candidate epoch with index `idx + k` (`getASHostTriple`: k = -1, 0, 1) -/
def WinIn.epoch (i : WinIn) (k : Int) : Nat × Nat := newEpoch (i.idx + k) i.duration

/-- the test of one `case` of the `switch` -/
def WinIn.ok (i : WinIn) (e : Nat × Nat) : Bool :=
  contains i.awBegin i.awEnd (absTime e.1 i.ts) && withinGrace e (absTime e.1 i.ts)

/-- `GetKeyWithinAcceptanceWindow`: current, then previous, then next epoch -/
def selectKey (i : WinIn) : WinOut :=
  if i.duration = 0 then .divZero
  else if i.ok (i.epoch 0) then .key (i.epoch 0)
  else if i.ok (i.epoch (-1)) then .key (i.epoch (-1))
  else if i.ok (i.epoch 1) then .key (i.epoch 1)
  else .noKey

end Scion.Drkey
