import Scion.Util.Hex
/-!
Model of `gateway/pktcls`: the condition tree (`cond.go`), the IPv4 and port predicates
(`pred_ipv4.go`, `pred_port.go`) and their evaluation on a packet layer.

The packet is what `Cond.Eval` looks at: either an IPv4 layer (as decoded by gopacket: addresses,
TOS, protocol, "is a fragment", L4 payload bytes) or some other layer (IPv6), on which every
IPv4/port predicate is false.  Core Lean only.
-/
namespace Scion.Pktcls
open Scion.Util

/-- the fields of `layers.IPv4` that the predicates read -/
structure V4 where
  src : Nat
  dst : Nat
  tos : Nat
  proto : Nat
  /-- `Flags&MF != 0 || FragOffset != 0` (then `NextLayerType()` is `LayerTypeFragment`) -/
  frag : Bool
  /-- `LayerPayload()` -/
  payload : Bytes
deriving Repr

inductive Pkt
  | v4 (p : V4)
  | other
deriving Repr

/-- an IPv4 `*net.IPNet` with a CIDR mask: address bits and prefix length -/
structure Net where
  bits : Nat
  len : Nat
deriving DecidableEq, Repr

/-- `IPNet.Contains` for an IPv4 address `a` (both sides are masked) -/
def Net.contains (n : Net) (a : Nat) : Bool :=
  a / 2 ^ (32 - n.len) == n.bits / 2 ^ (32 - n.len)

inductive Cond
  | all (cs : List Cond)
  | any (cs : List Cond)
  | not (c : Cond)
  | bool (b : Bool)
  | src (n : Net)
  | dst (n : Net)
  | dscp (v : Nat)
  | tos (v : Nat)
  | proto (v : Nat)
  | sport (lo hi : Nat)
  | dport (lo hi : Nat)
  | cls (n : Nat)
deriving Repr

/-! ### L4 ports as `CondPorts.Eval` extracts them -/

def be16 (a b : UInt8) : Nat := a.toNat * 256 + b.toNat

/-- `layers.UDP.DecodeFromBytes`: needs 8 bytes and a length field that is 0 or ≥ 8 -/
def udpPorts : Bytes → Option (Nat × Nat)
  | s0 :: s1 :: d0 :: d1 :: l0 :: l1 :: _ :: _ :: _ =>
    let l := be16 l0 l1
    if l ≥ 8 ∨ l = 0 then some (be16 s0 s1, be16 d0 d1) else none
  | _ => none

/-- the option walk of `layers.TCP.DecodeFromBytes` (kinds 0 = end, 1 = nop, generic TLV;
the multipath-TCP kind 30 is outside the model, see the C43 assumptions).  `fuel` ≥ length. -/
def tcpOptsOk : Nat → Bytes → Bool
  | _, [] => true
  | 0, _ => false
  | fuel + 1, k :: rest =>
    if k.toNat = 0 then true
    else if k.toNat = 1 then tcpOptsOk fuel rest
    else match rest with
      | [] => false
      | l :: _ =>
        if l.toNat < 2 then false
        else if l.toNat > rest.length + 1 then false
        else tcpOptsOk fuel (rest.drop (l.toNat - 1))

/-- `layers.TCP.DecodeFromBytes`: 20 bytes, data offset ≥ 5 and within the data, options walk -/
def tcpPorts (pl : Bytes) : Option (Nat × Nat) :=
  match pl with
  | s0 :: s1 :: d0 :: d1 :: _ =>
    if pl.length < 20 then none
    else match pl[12]? with
      | none => none
      | some b =>
        let off := b.toNat / 16
        if off < 5 then none
        else if off * 4 > pl.length then none
        else if tcpOptsOk (off * 4) ((pl.take (off * 4)).drop 20) then some (be16 s0 s1, be16 d0 d1)
        else none
  | _ => none

/-- ports are visible only on an unfragmented IPv4 packet whose next layer is UDP or TCP and
whose L4 header decodes -/
def ports (p : V4) : Option (Nat × Nat) :=
  if p.frag then none
  else if p.proto = 17 then udpPorts p.payload
  else if p.proto = 6 then tcpPorts p.payload
  else none

/-! ### predicates -/

def evalV4 (f : V4 → Bool) : Pkt → Bool
  | .v4 p => f p
  | .other => false

def evalPorts (f : Nat × Nat → Bool) : Pkt → Bool
  | .v4 p => match ports p with
    | some sd => f sd
    | none => false
  | .other => false

/-! ### `Cond.Eval` -/

mutual
def eval : Cond → Pkt → Bool
  | .all cs, p => evalAll cs p
  | .any cs, p =>
    -- `CondAnyOf.Eval`: `len(c) == 0` is true (the grammar cannot produce it)
    match cs with
    | [] => true
    | c :: cs' => eval c p || evalAny cs' p
  | .not c, p => !eval c p
  | .bool b, _ => b
  | .src n, p => evalV4 (fun q => n.contains q.src) p
  | .dst n, p => evalV4 (fun q => n.contains q.dst) p
  | .dscp v, p => evalV4 (fun q => v == q.tos / 4) p
  | .tos v, p => evalV4 (fun q => v == q.tos) p
  | .proto v, p => evalV4 (fun q => v == q.proto) p
  | .sport lo hi, p => evalPorts (fun sd => decide (sd.1 ≥ lo) && decide (sd.1 ≤ hi)) p
  | .dport lo hi, p => evalPorts (fun sd => decide (sd.2 ≥ lo) && decide (sd.2 ≤ hi)) p
  | .cls _, _ => false
def evalAll : List Cond → Pkt → Bool
  | [], _ => true
  | c :: cs, p => eval c p && evalAll cs p
def evalAny : List Cond → Pkt → Bool
  | [], _ => false
  | c :: cs, p => eval c p || evalAny cs p
end

end Scion.Pktcls
