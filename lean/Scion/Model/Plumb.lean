/-!
Model of the way the configured socket buffer sizes travel to the socket options (property C17):

`config.RouterConfig` → `NewConnector` (`RunConfig`) → provider factory call sites in
`router/dataplane.go` (`makeDataPlane`, `AddExternalInterface`, `AddNextHop`) →
`udpip.newProvider(batchSize, receiveBufferSize, sendBufferSize)` → `conn.Config` literal at the
two `connOpener.Open` calls (`NewInternalLink`, `newConnectedLink`) → `conn.initConnUDP`
(`SetReadBuffer` / `SetWriteBuffer`, skipped for a size of 0).  Core Lean only.
-/
namespace Scion.Plumb

/-- `router.RunConfig` (the fields that are passed on) -/
structure RunConfig where
  batch : Int
  rcv : Int       -- ReceiveBufferSize
  snd : Int       -- SendBufferSize
deriving DecidableEq, Repr

/-- the three places where `dataplane.go` instantiates an underlay provider -/
inductive Site
  | makeDataPlane | addExternalInterface | addNextHop
deriving DecidableEq, Repr

/-- positional arguments of the factory call at a site -/
def siteArgs (_ : Site) (rc : RunConfig) : Int × Int × Int := (rc.batch, rc.rcv, rc.snd)

/-- `udpip.provider` (the fields set by `newProvider`) -/
structure Provider where
  batchSize : Int
  receiveBufferSize : Int
  sendBufferSize : Int
deriving DecidableEq, Repr

/-- `newProvider(batchSize, receiveBufferSize, sendBufferSize)` -/
def newProvider (a b c : Int) : Provider :=
  { batchSize := a, receiveBufferSize := b, sendBufferSize := c }

/-- `conn.Config` -/
structure ConnConfig where
  sendBufferSize : Int
  receiveBufferSize : Int
deriving DecidableEq, Repr

/-- the two `connOpener.Open` calls -/
inductive OpenSite
  | internalLink | connectedLink
deriving DecidableEq, Repr

def openConfig (_ : OpenSite) (u : Provider) : ConnConfig :=
  { receiveBufferSize := u.receiveBufferSize, sendBufferSize := u.sendBufferSize }

/-- what `initConnUDP` requests from the kernel: `none` = option left at the system default -/
structure SockOpts where
  soRcvBuf : Option Int
  soSndBuf : Option Int
deriving DecidableEq, Repr

def sockOpts (c : ConnConfig) : SockOpts :=
  { soSndBuf := if c.sendBufferSize ≠ 0 then some c.sendBufferSize else none
    soRcvBuf := if c.receiveBufferSize ≠ 0 then some c.receiveBufferSize else none }

/-- the whole chain for a socket opened at `o` by a provider created at `s` -/
def plumb (s : Site) (o : OpenSite) (rc : RunConfig) : ConnConfig :=
  let (a, b, c) := siteArgs s rc
  openConfig o (newProvider a b c)

end Scion.Plumb
