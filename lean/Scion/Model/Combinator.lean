/-!
Model of `private/path/combinator` (`combinator.go`, `graph.go`).

* `pathOf`            – `pathSolution.Path` (hop/info fields, interface metadata, MTU, expiry,
                        segment lengths, `calculateBeta`) for a list of solution edges;
* `filterLongPaths`, `filterDuplicates`, `combine` – `combinator.go`;
* `allJoins`          – SPEC-level enumeration of every way to join at most one up, one core and
                        one down segment (in that order) at common ASes / shortcuts / mutually
                        announced peering links.  It does not mention the graph;
* `newDMG`, `getPaths` – the directed multigraph of `graph.go` (`traverseSegment`, `AddEdge` with
                        its overwrite-on-same-key behaviour) and an exhaustive search over it.

Abstractions (all named in registry `assumptions`):
* a segment is the list of its AS entries with the fields the combinator reads; an IA is the
  full 64-bit ISD-AS value `uint64(addr.IA)` = ISD·2^48 + AS as ONE `Nat` (so two ASes with the same
  AS number in different ISDs are different IAs; `isLong`/`filterLongPaths`, vertices and joins all
  key on this full value, never on the AS number alone); interface ids, MTUs are `Nat`s; a 6-byte MAC is the big-endian number of its bytes; time is in
  milliseconds (`Info.Timestamp` is whole seconds, the hop-field TTL unit is 337.5 s);
* the SHA-256 fingerprint of an interface list is the interface list itself;
* `GetPaths` explores a queue in map-iteration order and sorts by (cost, #edges, segment ids,
  …); the model explores depth-first and sorts (stably) by cost only – the order among paths of
  equal cost is not part of the model (nor of the property);
* static-info metadata (latency, geo, …) and EPIC authenticators are not modelled.
Core Lean only.
-/
namespace Scion.Combinator

/-! ## Input segments -/

/-- `seg.HopField` -/
structure HopF where
  inIf : Nat      -- ConsIngress
  egIf : Nat      -- ConsEgress
  exp : Nat       -- ExpTime (uint8)
  mac : Nat       -- MAC, 6 bytes big endian
deriving DecidableEq, Repr

/-- `seg.PeerEntry` -/
structure PeerE where
  hf : HopF
  peer : Nat      -- Peer (IA)
  peerIf : Nat    -- PeerInterface
  peerMtu : Nat   -- PeerMTU
deriving DecidableEq, Repr

/-- `seg.ASEntry` (fields read by the combinator) -/
structure ASE where
  ia : Nat        -- Local
  hf : HopF       -- HopEntry.HopField
  inMtu : Nat     -- HopEntry.IngressMTU
  mtu : Nat       -- MTU
  peers : List PeerE
deriving DecidableEq, Repr

/-- `seg.PathSegment` -/
structure Seg where
  ts : Nat        -- Info.Timestamp, seconds
  segId : Nat     -- Info.SegmentID
  ents : List ASE
deriving DecidableEq, Repr

inductive Kind | up | core | down
deriving DecidableEq, Repr

/-- `solutionEdge`: the segment with its role plus `edge.Shortcut`, `edge.Peer`
(`edge.Weight` is a function of these, see `edgeWeight`) -/
structure Edge where
  seg : Seg
  kind : Kind
  sc : Nat
  peer : Nat
deriving DecidableEq, Repr

/-! ## `pathSolution.Path` -/

/-- `snet.PathInterface` -/
structure Iface where
  ia : Nat
  id : Nat
deriving DecidableEq, Repr

/-- `path.InfoField` -/
structure InfoF where
  ts : Nat
  segId : Nat
  consDir : Bool
  peer : Bool
deriving DecidableEq, Repr

/-- `segment` of graph.go: info field, hop fields and interfaces in forwarding order -/
structure SegOut where
  info : InfoF
  hops : List HopF
  intfs : List Iface
deriving DecidableEq, Repr

/-- `combinator.Path`: `SCIONPath` (as segments; `segLens`, `infos`, `hopFields` below), metadata
interfaces, MTU, expiry (ms), weight -/
structure Path where
  segs : List SegOut
  intfs : List Iface
  mtu : Nat
  expiry : Nat
  weight : Nat
deriving DecidableEq, Repr

def Path.segLens (p : Path) : List Nat := p.segs.map (·.hops.length)
def Path.infos (p : Path) : List InfoF := p.segs.map (·.info)
def Path.hopFields (p : Path) : List HopF := p.segs.flatMap (·.hops)

inductive Err
  | peerIdx        -- `asEntry.PeerEntries[Peer-1]` out of range (Go: panic)
  | tooManySegs    -- `meta.SegLen[i]`, i ≥ 3 (Go: panic)
deriving DecidableEq, Repr

/-- conversion `uint16(x)` -/
def u16 (n : Nat) : Nat := n % 65536

/-- the two `intfs = append(...)` of one loop iteration: egress first (the segment is walked
against construction direction), the ingress unless this is a non-peer shortcut entry -/
def ifacesOf (ia : Nat) (hf : HopF) (isSc isPeer : Bool) : List Iface :=
  (if hf.egIf ≠ 0 then [⟨ia, hf.egIf⟩] else []) ++
  (if hf.inIf ≠ 0 ∧ (!isSc || isPeer) then [⟨ia, hf.inIf⟩] else [])

/-- result of one iteration of the AS-entry loop -/
structure Iter where
  hf : HopF
  intfs : List Iface
  mtu : Nat
deriving DecidableEq, Repr

/-- one iteration of the loop over AS entries in `Path`; `peer` is `edge.Peer` if this is the
entry at the shortcut index and 0 otherwise, `isSc` = `isShortcut` -/
def iter (mtu : Nat) (e : ASE) (isSc : Bool) (peer : Nat) : Except Err Iter :=
  match peer with
  | 0 =>
    .ok ⟨e.hf, ifacesOf e.ia e.hf isSc false,
      min (if e.inMtu ≠ 0 ∧ isSc = false then min mtu (u16 e.inMtu) else mtu) (u16 e.mtu)⟩
  | k + 1 =>
    match e.peers[k]? with
    | none => .error .peerIdx
    | some p =>
      .ok ⟨p.hf, ifacesOf e.ia p.hf isSc true, min (min mtu (u16 p.peerMtu)) (u16 e.mtu)⟩

/-- MTU update of an iteration for an entry that is not at the shortcut index -/
def plainMtu (mtu : Nat) (e : ASE) : Nat :=
  min (if e.inMtu ≠ 0 then min mtu (u16 e.inMtu) else mtu) (u16 e.mtu)

/-- interfaces of an entry that is not at the shortcut index -/
def plainIfaces (e : ASE) : List Iface := ifacesOf e.ia e.hf false false

/-- the loop `for asEntryIdx := len-1; asEntryIdx >= Shortcut; asEntryIdx--`: the entries
behind the shortcut index are visited from the end with both flags false, then the entry at the
shortcut index with `isShortcut = (Shortcut != 0)` and `isPeer = (Peer != 0)`.
Result: hops and interfaces in visiting order, MTU. -/
def segLoop (mtu : Nat) (ents : List ASE) (sc peer : Nat) :
    Except Err (List HopF × List Iface × Nat) :=
  match ents.drop sc with
  | [] => .ok ([], [], mtu)
  | h :: tl =>
    match iter (tl.reverse.foldl plainMtu mtu) h (sc != 0) peer with
    | .error x => .error x
    | .ok it =>
      .ok (tl.reverse.map (·.hf) ++ [it.hf], tl.reverse.flatMap plainIfaces ++ it.intfs, it.mtu)

/-- first two bytes of the MAC -/
def macHi (hf : HopF) : Nat := hf.mac / 2 ^ 32 % 65536

/-- `index` in `calculateBeta` (for an empty segment Go computes -1, i.e. no iteration) -/
def betaIndex (e : Edge) : Nat :=
  match e.kind with
  | .down => e.sc + (if e.peer ≠ 0 then 1 else 0)
  | _ =>
    if e.seg.ents.length - 1 = e.sc ∧ e.peer ≠ 0 then e.seg.ents.length - 1 + 1
    else e.seg.ents.length - 1

/-- `calculateBeta` -/
def calculateBeta (e : Edge) : Nat :=
  (e.seg.ents.take (betaIndex e)).foldl (fun b a => b ^^^ macHi a.hf) e.seg.segId

/-- `edge.Weight` as set by `traverseSegment` -/
def edgeWeight (e : Edge) : Nat :=
  match e.kind with
  | .core => e.seg.ents.length - 1
  | .up => e.seg.ents.length - 1 - e.sc
  | .down => e.seg.ents.length - 1 - e.sc + (if e.peer ≠ 0 then 1 else 0)

/-- body of the loop over `solution.edges` -/
def edgeOut (mtu : Nat) (e : Edge) : Except Err (SegOut × Nat) :=
  match segLoop mtu e.seg.ents e.sc e.peer with
  | .error x => .error x
  | .ok (hops, intfs, mtu') =>
    let info : InfoF := ⟨e.seg.ts, calculateBeta e, e.kind == .down, e.peer != 0⟩
    if e.kind = .down then .ok (⟨info, hops.reverse, intfs.reverse⟩, mtu')
    else .ok (⟨info, hops, intfs⟩, mtu')

def pathLoop (mtu : Nat) : List Edge → Except Err (List SegOut × Nat)
  | [] => .ok ([], mtu)
  | e :: es =>
    match edgeOut mtu e with
    | .error x => .error x
    | .ok (s, m) =>
      match pathLoop m es with
      | .error x => .error x
      | .ok (ss, m') => .ok (s :: ss, m')

/-- `path.MaxTTL` in ms -/
def maxTTL : Nat := 86400000
/-- `path.ExpTimeToDuration` in ms -/
def expToMs (exp : Nat) : Nat := (exp + 1) * 337500
/-- `maxExpirationTime` in ms -/
def maxExpiration : Nat := 4294967295 * 1000 + expToMs 255

/-- `segment.computeHopFieldsTTL` -/
def hopsTTL (hops : List HopF) : Nat :=
  hops.foldl (fun m hf => if m > expToMs hf.exp then expToMs hf.exp else m) maxTTL

/-- `segment.ComputeExpTime` -/
def segExpiry (s : SegOut) : Nat := s.info.ts * 1000 + hopsTTL s.hops

/-- `segmentList.ComputeExpTime` -/
def computeExpTime (segs : List SegOut) : Nat :=
  segs.foldl (fun m s => if m > segExpiry s then segExpiry s else m) maxExpiration

/-- `pathSolution.Path` -/
def pathOf (edges : List Edge) : Except Err Path :=
  match pathLoop 65535 edges with
  | .error x => .error x
  | .ok (segs, mtu) =>
    if segs.length > 3 then .error .tooManySegs
    else .ok ⟨segs, segs.flatMap (·.intfs), mtu, computeExpTime segs, (edges.map edgeWeight).sum⟩

/-! ## Specification vocabulary for the statements about `pathOf` (not used by the driver) -/

/-- hop field used at the entry at the shortcut index: the entry's own, or peer entry `peer-1` -/
def headHop (h : ASE) (peer : Nat) : Option HopF :=
  match peer with
  | 0 => some h.hf
  | k + 1 => (h.peers[k]?).map (·.hf)

/-- hop fields of the used part `ents[sc..]` of a segment, in construction order -/
def consHops (ents : List ASE) (sc peer : Nat) : Option (List HopF) :=
  match ents.drop sc with
  | [] => some []
  | h :: tl => (headHop h peer).map fun x => x :: tl.map (·.hf)

/-- the interface `(ia, id)` unless the id is 0 -/
def nz (ia id : Nat) : List Iface := if id ≠ 0 then [⟨ia, id⟩] else []

/-- interfaces of the used part of a segment in construction direction: ingress then egress of
every hop field, zero ids left out, and without the ingress of the first entry when that entry is
a non-peer shortcut (the AS is entered / left through the other segment there) -/
def consIfaces (ents : List ASE) (sc peer : Nat) : Option (List Iface) :=
  match ents.drop sc with
  | [] => some []
  | h :: tl => (headHop h peer).map fun x =>
      (if sc ≠ 0 ∧ peer = 0 then [] else nz h.ia x.inIf) ++ nz h.ia x.egIf ++
      tl.flatMap fun e => nz e.ia e.hf.inIf ++ nz e.ia e.hf.egIf

/-- MTU values entering the minimum for an entry behind the shortcut index: its ingress link
(when announced) and the AS-internal MTU -/
def plainTerms (e : ASE) : List Nat := (if e.inMtu ≠ 0 then [u16 e.inMtu] else []) ++ [u16 e.mtu]

/-- MTU values entering the minimum for the entry at the shortcut index: the peering link if one
is used, the ingress link only if the entry is the segment's first (no shortcut), the AS MTU -/
def headTerms (h : ASE) (sc peer : Nat) : List Nat :=
  (match peer with
   | 0 => if h.inMtu ≠ 0 ∧ sc = 0 then [u16 h.inMtu] else []
   | k + 1 => match h.peers[k]? with
     | some p => [u16 p.peerMtu]
     | none => []) ++ [u16 h.mtu]

def mtuTerms (ents : List ASE) (sc peer : Nat) : List Nat :=
  match ents.drop sc with
  | [] => []
  | h :: tl => tl.reverse.flatMap plainTerms ++ headTerms h sc peer

/-- all MTU values along the traversed part of a solution -/
def allMtuTerms (es : List Edge) : List Nat := es.flatMap fun e => mtuTerms e.seg.ents e.sc e.peer

/-- element-wise relation between two lists of equal length -/
inductive Rel2 {α β : Type} (R : α → β → Prop) : List α → List β → Prop
  | nil : Rel2 R [] []
  | cons {a b as bs} : R a b → Rel2 R as bs → Rel2 R (a :: as) (b :: bs)

/-- the admissible sequences of segment kinds -/
def kindShapes : List (List Kind) :=
  [[.up], [.core], [.down], [.up, .core], [.up, .down], [.core, .down], [.up, .core, .down]]

/-! ## `filterLongPaths`, `filterDuplicates` -/

/-- some AS has more than two entries in the interface list -/
def isLong (intfs : List Iface) : Bool :=
  intfs.any fun i => decide ((intfs.map (·.ia)).count i.ia > 2)

def filterLongPaths (ps : List Path) : List Path := ps.filter fun p => !isLong p.intfs

/-- the map `uniquePaths` as an association list: fingerprint ↦ (index, expiry of that path) -/
abbrev UMap := List (List Iface × Nat × Nat)

def ulookup (m : UMap) (fp : List Iface) : Option (Nat × Nat) :=
  match m with
  | [] => none
  | (k, v) :: rest => if k = fp then some v else ulookup rest fp

def uset (m : UMap) (fp : List Iface) (v : Nat × Nat) : UMap :=
  match m with
  | [] => [(fp, v)]
  | (k, w) :: rest => if k = fp then (k, v) :: rest else (k, w) :: uset rest fp v

/-- one iteration of the first loop of `filterDuplicates` -/
def dedupStep (m : UMap) (ip : Nat × Path) : UMap :=
  match ulookup m ip.2.intfs with
  | none => uset m ip.2.intfs (ip.1, ip.2.expiry)
  | some (_, e) => if ip.2.expiry > e then uset m ip.2.intfs (ip.1, ip.2.expiry) else m

def indexedFrom {α : Type} : Nat → List α → List (Nat × α)
  | _, [] => []
  | i, a :: as => (i, a) :: indexedFrom (i + 1) as

/-- `filterDuplicates`: the kept indices, sorted, i.e. the paths whose index is in the map, in
their original order -/
def filterDuplicates (ps : List Path) : List Path :=
  let m := (indexedFrom 0 ps).foldl dedupStep []
  ((indexedFrom 0 ps).filter fun ip => m.any fun kv => kv.2.1 == ip.1).map (·.2)

/-! ## `filterDuplicates` with an explicit fingerprint function

The code keys `uniquePaths` by the SHA-256 of the interface list; the model above keys it by the
interface list itself.  `Scion.C28.fingerprint_sound` shows both return the same paths when the
fingerprint function is injective on the interface lists at hand. -/
section Fingerprint
variable {F : Type} [DecidableEq F]

/-- `uniquePaths` keyed by an explicit fingerprint (SHA-256 of the interface list in the code) -/
def ulookupF (m : List (F × Nat × Nat)) (k : F) : Option (Nat × Nat) :=
  match m with
  | [] => none
  | (k', v) :: rest => if k' = k then some v else ulookupF rest k

def usetF (m : List (F × Nat × Nat)) (k : F) (v : Nat × Nat) : List (F × Nat × Nat) :=
  match m with
  | [] => [(k, v)]
  | (k', w) :: rest => if k' = k then (k', v) :: rest else (k', w) :: usetF rest k v

def dedupStepF (fp : List Iface → F) (m : List (F × Nat × Nat)) (ip : Nat × Path) :
    List (F × Nat × Nat) :=
  match ulookupF m (fp ip.2.intfs) with
  | none => usetF m (fp ip.2.intfs) (ip.1, ip.2.expiry)
  | some (_, e) => if ip.2.expiry > e then usetF m (fp ip.2.intfs) (ip.1, ip.2.expiry) else m

/-- `filterDuplicates` with the fingerprint function `fp` as in combinator.go -/
def filterDuplicatesF (fp : List Iface → F) (ps : List Path) : List Path :=
  let m := (indexedFrom 0 ps).foldl (dedupStepF fp) []
  ((indexedFrom 0 ps).filter fun ip => m.any fun kv => kv.2.1 == ip.1).map (·.2)

end Fingerprint

/-! ## Specification: all joins -/

/-- `vertex` of graph.go: an AS (`ia`) or a peering link -/
structure Vertex where
  ia : Nat
  upIA : Nat
  upIf : Nat
  downIA : Nat
  downIf : Nat
deriving DecidableEq, Repr

def vIA (ia : Nat) : Vertex := ⟨ia, 0, 0, 0, 0⟩
def vPeering (upIA upIf downIA downIf : Nat) : Vertex := ⟨0, upIA, upIf, downIA, downIf⟩
def Vertex.reverse (v : Vertex) : Vertex := ⟨v.ia, v.downIA, v.downIf, v.upIA, v.upIf⟩

def lastIA (s : Seg) : Option Nat := s.ents.getLast?.map (·.ia)
def firstIA (s : Seg) : Option Nat := s.ents.head?.map (·.ia)

/-- the ways to leave an up segment `u` (walked from its last AS): at every AS before the last
(`vIA`), and over every peering link announced by any of its ASes; with the join point reached -/
def upExits (u : Seg) : List (Edge × Vertex) :=
  (indexedFrom 0 u.ents).flatMap fun ie =>
    (if ie.1 + 1 ≠ u.ents.length then [(⟨u, .up, ie.1, 0⟩, vIA ie.2.ia)] else []) ++
    (indexedFrom 0 ie.2.peers).map fun kp =>
      (⟨u, .up, ie.1, kp.1 + 1⟩, vPeering ie.2.ia kp.2.hf.inIf kp.2.peer kp.2.peerIf)

/-- the ways to enter a down segment `d` (walked towards its last AS), with the join point -/
def downEntries (d : Seg) : List (Vertex × Edge) :=
  (indexedFrom 0 d.ents).flatMap fun ie =>
    (if ie.1 + 1 ≠ d.ents.length then [(vIA ie.2.ia, (⟨d, .down, ie.1, 0⟩ : Edge))] else []) ++
    (indexedFrom 0 ie.2.peers).map fun kp =>
      (vPeering kp.2.peer kp.2.peerIf ie.2.ia kp.2.hf.inIf, ⟨d, .down, ie.1, kp.1 + 1⟩)

/-- up segments usable from `src`, with every exit -/
def upsFrom (ups : List Seg) (src : Nat) : List (Edge × Vertex) :=
  (ups.filter fun u => lastIA u == some src).flatMap upExits

/-- down segments usable towards `dst`, with every entry -/
def downsTo (downs : List Seg) (dst : Nat) : List (Vertex × Edge) :=
  (downs.filter fun d => lastIA d == some dst).flatMap downEntries

/-- core segments, used as a whole from their last AS to their first AS -/
def coreLinks (cores : List Seg) : List (Vertex × Edge × Vertex) :=
  cores.filterMap fun c =>
    match lastIA c, firstIA c with
    | some l, some f => some (vIA l, ⟨c, .core, 0, 0⟩, vIA f)
    | _, _ => none

/-- every combination of at most one up, one core and one down segment, in that order, from
`src` to `dst`, joined at common join points -/
def allJoins (ups cores downs : List Seg) (src dst : Nat) : List (List Edge) :=
  let U := upsFrom ups src
  let C := coreLinks cores
  let D := downsTo downs dst
  -- one segment
  (U.filter fun u => u.2 = vIA dst).map (fun u => [u.1]) ++
  (C.filter fun c => c.1 = vIA src ∧ c.2.2 = vIA dst).map (fun c => [c.2.1]) ++
  (D.filter fun d => d.1 = vIA src).map (fun d => [d.2]) ++
  -- two segments
  (U.flatMap fun u => (C.filter fun c => c.1 = u.2 ∧ c.2.2 = vIA dst).map fun c => [u.1, c.2.1]) ++
  (U.flatMap fun u => (D.filter fun d => d.1 = u.2).map fun d => [u.1, d.2]) ++
  (C.flatMap fun c => if c.1 = vIA src then (D.filter fun d => d.1 = c.2.2).map fun d => [c.2.1, d.2]
    else []) ++
  -- three segments
  (U.flatMap fun u => (C.filter fun c => c.1 = u.2).flatMap fun c =>
    (D.filter fun d => d.1 = c.2.2).map fun d => [u.1, c.2.1, d.2])

/-- stable insertion by weight -/
def insertByWeight (p : Path) : List Path → List Path
  | [] => [p]
  | q :: qs => if p.weight ≤ q.weight then p :: q :: qs else q :: insertByWeight p qs

/-- stable sort by weight (the part of `GetPaths`' order the model keeps) -/
def sortByWeight (ps : List Path) : List Path := ps.foldr insertByWeight []

/-- the `Path` of every solution; a solution whose `Path` would panic is dropped here and
counted by `pathErrors` (the driver reports a non-zero count) -/
def pathsOf (sols : List (List Edge)) : List Path :=
  sols.filterMap fun es => match pathOf es with | .ok p => some p | .error _ => none

def pathErrors (sols : List (List Edge)) : Nat :=
  (sols.filter fun es => match pathOf es with | .ok _ => false | .error _ => true).length

/-- `Combine` over the specification enumeration -/
def combineSpec (ups cores downs : List Seg) (src dst : Nat) (findAllIdentical : Bool) :
    List Path :=
  let ps := filterLongPaths (sortByWeight (pathsOf (allJoins ups cores downs src dst)))
  if findAllIdentical then ps else filterDuplicates ps

/-! ## Declarative form of the joins (what `allJoins` enumerates, see `Scion.C29.allJoins_iff`) -/

/-- an exit of up segment `u`: leave at entry `sc` (not the last one) into that AS, or over peer
entry `peer-1` of any entry onto the peering link it announces -/
def IsUpExit (u : Seg) (e : Edge) (v : Vertex) : Prop :=
  e.seg = u ∧ e.kind = .up ∧ ∃ ent, u.ents[e.sc]? = some ent ∧
    ((e.peer = 0 ∧ e.sc + 1 ≠ u.ents.length ∧ v = vIA ent.ia) ∨
     (∃ k p, e.peer = k + 1 ∧ ent.peers[k]? = some p ∧ v = vPeering ent.ia p.hf.inIf p.peer p.peerIf))

/-- an entry of down segment `d`: enter at entry `sc` (not the last one) from that AS, or over
peer entry `peer-1` from the peering link it announces (seen from the other side) -/
def IsDownEntry (d : Seg) (v : Vertex) (e : Edge) : Prop :=
  e.seg = d ∧ e.kind = .down ∧ ∃ ent, d.ents[e.sc]? = some ent ∧
    ((e.peer = 0 ∧ e.sc + 1 ≠ d.ents.length ∧ v = vIA ent.ia) ∨
     (∃ k p, e.peer = k + 1 ∧ ent.peers[k]? = some p ∧ v = vPeering p.peer p.peerIf ent.ia p.hf.inIf))

def UpFrom (ups : List Seg) (src : Nat) (e : Edge) (v : Vertex) : Prop :=
  ∃ u ∈ ups, lastIA u = some src ∧ IsUpExit u e v

def DownTo (downs : List Seg) (dst : Nat) (v : Vertex) (e : Edge) : Prop :=
  ∃ d ∈ downs, lastIA d = some dst ∧ IsDownEntry d v e

/-- a core segment is used as a whole, from its last AS `a` to its first AS `b` -/
def CoreOf (cores : List Seg) (a : Vertex) (e : Edge) (b : Vertex) : Prop :=
  ∃ c ∈ cores, e = ⟨c, .core, 0, 0⟩ ∧ ∃ l f, lastIA c = some l ∧ firstIA c = some f ∧
    a = vIA l ∧ b = vIA f

/-- `es` joins at most one up, one core and one down segment, in that order, from `src` to `dst`,
at common join points `v`, `w` (a common AS, or a peering link announced by both sides) -/
def IsJoin (ups cores downs : List Seg) (src dst : Nat) (es : List Edge) : Prop :=
  (∃ e, es = [e] ∧ UpFrom ups src e (vIA dst)) ∨
  (∃ c, es = [c] ∧ CoreOf cores (vIA src) c (vIA dst)) ∨
  (∃ d, es = [d] ∧ DownTo downs dst (vIA src) d) ∨
  (∃ e c v, es = [e, c] ∧ UpFrom ups src e v ∧ CoreOf cores v c (vIA dst)) ∨
  (∃ e d v, es = [e, d] ∧ UpFrom ups src e v ∧ DownTo downs dst v d) ∨
  (∃ c d v, es = [c, d] ∧ CoreOf cores (vIA src) c v ∧ DownTo downs dst v d) ∨
  (∃ e c d v w, es = [e, c, d] ∧ UpFrom ups src e v ∧ CoreOf cores v c w ∧ DownTo downs dst w d)

/-! ## The directed multigraph of graph.go and the search over it -/

/-- one entry `Adjacencies[src][dst][segment] = edge`; `segIdx` stands for the `*inputSegment`
pointer (position of the segment in `ups ++ cores ++ downs`) -/
structure GEdge where
  src : Vertex
  dst : Vertex
  segIdx : Nat
  e : Edge
deriving DecidableEq, Repr

abbrev DMG := List GEdge

def GEdge.sameKey (a b : GEdge) : Bool := a.src == b.src && a.dst == b.dst && a.segIdx == b.segIdx

/-- `dmg.AddEdge`: `neighborMap[dst][segment] = e` overwrites an entry with the same key -/
def addEdge (g : DMG) (x : GEdge) : DMG :=
  if g.any (·.sameKey x) then g.map fun y => if y.sameKey x then x else y else g ++ [x]

/-- the `tuples` of one AS entry in `traverseSegment` (up segment orientation): the AS vertex
unless this is the last entry, then one peering vertex per peer entry -/
def entryTuples (s : Seg) (kind : Kind) (segIdx : Nat) (pinned : Nat) (ie : Nat × ASE) : List GEdge :=
  let tuples : List (Vertex × Nat) :=
    (if ie.1 + 1 ≠ s.ents.length then [(vIA ie.2.ia, 0)] else []) ++
    (indexedFrom 0 ie.2.peers).map fun (kp : Nat × PeerE) =>
      (vPeering ie.2.ia kp.2.hf.inIf kp.2.peer kp.2.peerIf, kp.1 + 1)
  tuples.map fun (t : Vertex × Nat) =>
    if kind = Kind.down then (⟨t.1.reverse, vIA pinned, segIdx, ⟨s, kind, ie.1, t.2⟩⟩ : GEdge)
    else ⟨vIA pinned, t.1, segIdx, ⟨s, kind, ie.1, t.2⟩⟩

/-- `dmg.traverseSegment`; `none` = index out of range on an empty segment (Go: panic) -/
def traverseSegment (g : DMG) (s : Seg) (kind : Kind) (segIdx : Nat) : Option DMG :=
  match lastIA s, firstIA s with
  | some l, some f =>
    if kind = .core then some (addEdge g ⟨vIA l, vIA f, segIdx, ⟨s, .core, 0, 0⟩⟩)
    else some (((indexedFrom 0 s.ents).reverse.flatMap (entryTuples s kind segIdx l)).foldl addEdge g)
  | _, _ => none

def traverseAll (kind : Kind) : DMG → Nat → List Seg → Option DMG
  | g, _, [] => some g
  | g, i, s :: ss =>
    match traverseSegment g s kind i with
    | none => none
    | some g' => traverseAll kind g' (i + 1) ss

/-- `newDMG` -/
def newDMG (ups cores downs : List Seg) : Option DMG :=
  match traverseAll .up [] 0 ups with
  | none => none
  | some g1 =>
    match traverseAll .core g1 ups.length cores with
    | none => none
    | some g2 => traverseAll .down g2 (ups.length + cores.length) downs

/-- the edges `traverseSegment` adds for one segment (before `AddEdge`'s overwriting) -/
def segTuples (kind : Kind) (is : Nat × Seg) : List GEdge :=
  match lastIA is.2, firstIA is.2 with
  | some l, some f =>
    if kind = .core then [⟨vIA l, vIA f, is.1, ⟨is.2, .core, 0, 0⟩⟩]
    else (indexedFrom 0 is.2.ents).reverse.flatMap (entryTuples is.2 kind is.1 l)
  | _, _ => []

/-- all edges handed to `AddEdge` by `newDMG`, in order -/
def allTuples (ups cores downs : List Seg) : List GEdge :=
  (indexedFrom 0 ups).flatMap (segTuples .up) ++
  (indexedFrom ups.length cores).flatMap (segTuples .core) ++
  (indexedFrom (ups.length + cores.length) downs).flatMap (segTuples .down)

/-- no two edges handed to `AddEdge` have the same (source, target, segment) key -/
def NoCollision (l : DMG) : Prop := l.Pairwise fun a b => a.sameKey b = false

instance (l : DMG) : Decidable (NoCollision l) := by unfold NoCollision; infer_instance

/-- `validNextSeg` -/
def validNextSeg (cur : Option Kind) (next : Kind) : Bool :=
  match cur with
  | none => true
  | some .up => next == .core || next == .down
  | some .core => next == .down
  | some .down => false

/-- `pathSolution` during the search: trail, current vertex, current segment kind -/
structure Sol where
  edges : List Edge
  cur : Vertex
  kind : Option Kind
deriving DecidableEq, Repr

/-- the inner loops of `GetPaths` for one dequeued solution -/
def expand (g : DMG) (s : Sol) : List Sol :=
  (g.filter fun x => x.src == s.cur && validNextSeg s.kind x.e.kind).map fun x =>
    ⟨s.edges ++ [x.e], x.dst, some x.e.kind⟩

/-- `fuel` rounds of the queue loop of `GetPaths`, one BFS level per round: solutions that reached
`dst` are collected and not extended, the others form the next queue -/
def bfs (g : DMG) (dst : Vertex) : Nat → List Sol → List (List Edge)
  | 0, _ => []
  | n + 1, queue =>
    let new := queue.flatMap (expand g)
    (new.filter fun s => s.cur == dst).map (·.edges) ++ bfs g dst n (new.filter fun s => s.cur != dst)

/-- `GetPaths` without the final sort; four rounds exhaust the queue (`validNextSeg` admits at
most three edges, see `Scion.C29.bfs_fuel`) -/
def getPaths (g : DMG) (src dst : Nat) : List (List Edge) := bfs g (vIA dst) 4 [⟨[], vIA src, none⟩]

/-- `Combine` over the graph model; `none` = panic on an empty segment -/
def combineDMG (ups cores downs : List Seg) (src dst : Nat) (findAllIdentical : Bool) :
    Option (List Path) :=
  match newDMG ups cores downs with
  | none => none
  | some g =>
    let ps := filterLongPaths (sortByWeight (pathsOf (getPaths g src dst)))
    some (if findAllIdentical then ps else filterDuplicates ps)

end Scion.Combinator
