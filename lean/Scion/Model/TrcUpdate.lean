import Scion.Model.Trc
/-!
Model of TRC update validation and signature verification of `pkg/scrypto/cppki`:
`TRC.ValidateUpdate`, `validateSensitive`, `validateRegular`, `detectNewVoters`, `certMap.find`
(trc.go) and `SignedTRC.Verify`, `verifyBase`, `verifyUpdate`, `verifyAll` (signed_trc.go),
`SignerInfo.FindCertificate` (cms/protocol).

CMS / ECDSA are not modelled: a signer info is its signer identifier plus the list of
certificates under which the REAL `verifySignerInfo` succeeds (filled in by the harness by
really verifying).  Go's `map[int]*x509.Certificate` is a list of (payload index, certificate)
in payload order; results whose order depends on Go's map iteration are compared as sets.
A `*x509.Certificate` pointer is identified by its payload index.  Core Lean only.
-/
namespace Scion.Trc

abbrev ICert := Nat × Cert

def withIdx : Nat → List Cert → List ICert
  | _, [] => []
  | n, c :: cs => (n, c) :: withIdx (n + 1) cs

/-- one of the three maps of `classifyCerts` -/
def ofCls (k : Cls) (cs : List Cert) : List ICert :=
  (withIdx 0 cs).filter (fun p => p.2.cls = k)

/-- `m[idx]` for an `int` index -/
def lookup (m : List ICert) (i : Int) : Option ICert :=
  m.find? (fun p => (p.1 : Int) = i)

/-- `certMap.find`: the entry with the same subject (up to `equalName`) -/
def findSubj (m : List ICert) (c : Cert) : Option ICert :=
  m.find? (fun p => p.2.subj = c.subj)

/-- second result of `certMap.find`: an entry with the same subject exists and is byte-identical -/
def unchangedIn (m : List ICert) (c : Cert) : Bool :=
  match findSubj m c with
  | some p => p.2.id == c.id
  | none => false

/-- `detectNewVoters` (pass `[]` as predecessor certificates for a base TRC) -/
def newVoters (pcs tcs : List Cert) : List ICert :=
  (ofCls .sens tcs).filter (fun c => !unchangedIn (ofCls .sens pcs) c.2) ++
  (ofCls .reg tcs).filter (fun c => !unchangedIn (ofCls .reg pcs) c.2)

inductive UpdType where
  | sensitive | regular
deriving DecidableEq, Repr

/-- `cppki.Update` -/
structure Update where
  type : UpdType
  /-- (index in the new TRC, certificate) -/
  newVoters : List ICert
  /-- (index in the predecessor, certificate), in vote order -/
  votes : List ICert
  /-- (index in the predecessor, certificate) -/
  acks : List ICert
deriving Repr

/-- why `ValidateUpdate` refused (one value per `return` of the Go code) -/
inductive URej where
  | val (e : Err) | nilPred | isd | base | serial | trustReset | fewVotes | predClassify
  /-- `trc.Votes[0]` on an empty vote list: the Go code panics (only reachable when the
  predecessor's quorum is < 1, i.e. the predecessor is itself invalid) -/
  | noVotesPanic
  | sensVote | quorum | core | auth | sensCount | sensChanged | rootCount | newRoot | regCount
  | newReg | regVote | missingVotes
deriving DecidableEq, Repr

/-- the ID / flag / vote-count checks at the head of `ValidateUpdate` -/
def checkLink (t p : TRC) : Except URej Unit :=
  if p.isd ≠ t.isd then .error .isd
  else if p.base ≠ t.base then .error .base
  else if (p.serial + 1) % 2^64 ≠ t.serial then .error .serial       -- uint64 arithmetic
  else if p.noTrustReset ≠ t.noTrustReset then .error .trustReset
  else if (t.votes.length : Int) < p.quorum then .error .fewVotes
  else .ok ()

/-- the vote loops of `validateSensitive` / `validateRegular`: every vote must index an entry of
`m`; the voters in vote order -/
def castVotes (m : List ICert) : List Int → Option (List ICert)
  | [] => some []
  | v :: vs =>
    match lookup m v with
    | none => none
    | some c =>
      match castVotes m vs with
      | none => none
      | some r => some (c :: r)

/-- "Check all sensitive voting certificates are unchanged" -/
def allUnchanged (pm : List ICert) : List ICert → Bool
  | [] => true
  | c :: cs => unchangedIn pm c.2 && allUnchanged pm cs

/-- the root / regular loops: every certificate must have a same-subject entry in the
predecessor; returns the predecessor entries of the changed ones -/
def changedOf (pm : List ICert) : List ICert → Option (List ICert)
  | [] => some []
  | c :: cs =>
    match findSubj pm c.2 with
    | none => none
    | some p =>
      match changedOf pm cs with
      | none => none
      | some r => some (if p.2.id == c.2.id then r else p :: r)

/-- `validateRegular` -/
def validateRegular (t p : TRC) : Except URej (List ICert × List ICert) :=
  if p.quorum ≠ t.quorum then .error .quorum
  else if p.core ≠ t.core then .error .core
  else if p.auth ≠ t.auth then .error .auth
  else if (ofCls .sens p.certs).length ≠ (ofCls .sens t.certs).length then .error .sensCount
  else if allUnchanged (ofCls .sens p.certs) (ofCls .sens t.certs) = false then .error .sensChanged
  else if (ofCls .root p.certs).length ≠ (ofCls .root t.certs).length then .error .rootCount
  else match changedOf (ofCls .root p.certs) (ofCls .root t.certs) with
    | none => .error .newRoot
    | some acks =>
      if (ofCls .reg p.certs).length ≠ (ofCls .reg t.certs).length then .error .regCount
      else match changedOf (ofCls .reg p.certs) (ofCls .reg t.certs) with
        | none => .error .newReg
        | some expected =>
          match castVotes (ofCls .reg p.certs) t.votes with
          | none => .error .regVote
          | some voters =>
            if expected.all (fun x => t.votes.contains (x.1 : Int)) then .ok (voters, acks)
            else .error .missingVotes

/-- `TRC.ValidateUpdate` (`p = none`: nil predecessor) -/
def validateUpdate (t : TRC) (p : Option TRC) : Except URej Update :=
  match validate t with
  | .error e => .error (.val e)
  | .ok _ =>
    match p with
    | none => .error .nilPred
    | some p =>
      match checkLink t p with
      | .error e => .error e
      | .ok _ =>
        match classify p.certs with
        | .error _ => .error .predClassify
        | .ok _ =>
          match t.votes with
          | [] => .error .noVotesPanic
          | v0 :: _ =>
            match lookup (ofCls .reg p.certs) v0 with
            | none =>
              match castVotes (ofCls .sens p.certs) t.votes with
              | none => .error .sensVote
              | some voters =>
                .ok { type := .sensitive, newVoters := newVoters p.certs t.certs, votes := voters,
                      acks := [] }
            | some _ =>
              match validateRegular t p with
              | .error e => .error e
              | .ok (voters, acks) =>
                .ok { type := .regular, newVoters := newVoters p.certs t.certs, votes := voters,
                      acks := acks }

/-! ### Signatures -/

/-- the facts about one CMS `SignerInfo` -/
structure Signer where
  /-- 1 / 3: well-formed signer identifier of that CMS version; anything else:
  `FindCertificate` fails whatever the certificates -/
  kind : Nat
  /-- v1: issuer (raw DER) and serial number -/
  iss : Nat
  serial : Nat
  /-- v3: subject key identifier -/
  ski : Nat
  /-- ids of the certificates under which the real `verifySignerInfo` succeeds -/
  okUnder : List Nat
deriving Repr

inductive Found where
  | err | none | some (p : ICert)

/-- `SignerInfo.FindCertificate` -/
def findCert (si : Signer) (certs : List ICert) : Found :=
  if si.kind = 1 then
    match certs.find? (fun p => p.2.issR = si.iss ∧ p.2.serial = si.serial) with
    | some p => .some p
    | none => .none
  else if si.kind = 3 then
    match certs.find? (fun p => p.2.ski = some si.ski) with
    | some p => .some p
    | none => .none
  else .err

/-- the loop of `verifyAll`; `seen` = payload indices of the certificates verified so far -/
def verifyLoop (certs : List ICert) : List Signer → List Nat → Option (List Nat)
  | [], seen => some seen
  | si :: sis, seen =>
    match findCert si certs with
    | .err => none
    | .none => verifyLoop certs sis seen
    | .some p =>
      if p.2.id ∈ si.okUnder then verifyLoop certs sis (if p.1 ∈ seen then seen else p.1 :: seen)
      else none

/-- `SignedTRC.verifyAll` -/
def verifyAll (sis : List Signer) (certs : List ICert) : Bool :=
  match verifyLoop certs sis [] with
  | none => false
  | some seen => seen.length == certs.length

inductive VRej where
  | upd (e : URej)   -- `ValidateUpdate` / `Validate` refused
  | basePred         -- base TRC with a non-nil predecessor
  | sigNew | sigAck | sigVote
deriving DecidableEq, Repr

/-- `SignedTRC.Verify`; the result carries the `Update` for a non-base TRC -/
def verify (sis : List Signer) (t : TRC) (p : Option TRC) : Except VRej (Option Update) :=
  if t.isBase = false then
    match validateUpdate t p with
    | .error e => .error (.upd e)
    | .ok u =>
      if verifyAll sis u.newVoters = false then .error .sigNew
      else if verifyAll sis u.acks = false then .error .sigAck
      else if verifyAll sis u.votes = false then .error .sigVote
      else .ok (some u)
  else
    match p with
    | some _ => .error .basePred
    | none =>
      match validate t with
      | .error e => .error (.upd (.val e))
      | .ok _ =>
        if verifyAll sis (newVoters [] t.certs) = false then .error .sigNew
        else .ok none

end Scion.Trc
