import Scion.Model.Pktcls
/-!
Text form of traffic-class expressions (`gateway/pktcls/parse.go`, grammar `antlr/TrafficClass.g4`,
the `String()` methods of `cond.go` / `pred_*.go`).

* `Tok`: the token alphabet of the grammar.  `DIGITS` lexemes are canonical decimal numerals, so
  a `DIGITS` token is represented by its value; a `HEX_DIGITS` lexeme that is not also a `DIGITS`
  lexeme is represented by its digit values; `NET` is five `DIGITS`; `STRING` keeps its letters.
  Keyword case (`ANY`/`any`) is abstracted.
* `print : Cond → List Tok` mirrors `String()`, `parse : List Tok → Option Cond` mirrors the
  grammar plus the semantic actions of `classListener` (value range checks, `net.ParseCIDR`
  masking, protocol names).
* `lex : List Char → List Tok` and `render : List Tok → List Char` connect tokens and
  text; the ANTLR lexer is tied to `lex` by T1.

Core Lean only.
-/
namespace Scion.Pktcls

inductive Tok
  | kAny | kAll | kNot | kBool | kSrc | kDst | kDscp | kTos | kProtocol | kSrcport | kDstport
  | eq | eq0x | clsEq | lpar | rpar | comma | dash | tTrue | tFalse
  | digits (n : Nat)
  | hexd (ds : List Nat)
  | net (a b c d m : Nat)
  | str (s : List Char)
deriving DecidableEq, Repr

/-! ### protocol names (`layers.IPProtocolMetadata[..].Name`, non-empty entries) -/

def protoTable : List (Nat × List Char) :=
  [ (0, ['I','P','v','6','H','o','p','B','y','H','o','p']),
    (1, ['I','C','M','P','v','4']),
    (2, ['I','G','M','P']),
    (4, ['I','P','v','4']),
    (6, ['T','C','P']),
    (17, ['U','D','P']),
    (27, ['R','U','D','P']),
    (41, ['I','P','v','6']),
    (43, ['I','P','v','6','R','o','u','t','i','n','g']),
    (44, ['I','P','v','6','F','r','a','g','m','e','n','t']),
    (47, ['G','R','E']),
    (50, ['I','P','S','e','c','E','S','P']),
    (51, ['I','P','S','e','c','A','H']),
    (58, ['I','C','M','P','v','6']),
    (59, ['N','o','N','e','x','t','H','e','a','d','e','r']),
    (60, ['I','P','v','6','D','e','s','t','i','n','a','t','i','o','n']),
    (89, ['O','S','P','F']),
    (94, ['I','P','v','4']),
    (97, ['E','t','h','e','r','I','P']),
    (112, ['V','R','R','P']),
    (132, ['S','C','T','P']),
    (136, ['U','D','P','L','i','t','e']),
    (137, ['M','P','L','S']) ]

/-- ASCII case folding on character codes -/
def foldChar (c : Char) : Nat :=
  let n := c.toNat
  if 65 ≤ n ∧ n ≤ 90 then n + 32 else n

def isLetter (c : Char) : Bool :=
  let n := c.toNat
  (65 ≤ n && n ≤ 90) || (97 ≤ n && n ≤ 122)

def lettersOnly (s : List Char) : Bool := !s.isEmpty && s.all isLetter

def foldEq (a b : List Char) : Bool := a.map foldChar == b.map foldChar

/-- name printed for a protocol number (empty for the unnamed ones) -/
def protoName (p : Nat) : List Char :=
  match protoTable.find? (fun e => e.1 == p) with
  | some e => e.2
  | none => []

/-- `protocolNameToNumber` on a `STRING` lexeme: first table entry (in number order) whose name
equals the lexeme up to case.  A `STRING` consists of letters only, hence only entries whose name
consists of letters can ever match; the model makes that explicit. -/
def protoNum (s : List Char) : Option Nat :=
  match protoTable.find? (fun e => lettersOnly e.2 && foldEq e.2 s) with
  | some e => some e.1
  | none => none

/-! ### numbers -/

/-- the decimal numeral of `n` re-read in base 16 (`strconv.ParseUint(text, 16, 8)` applied to a
`DIGITS` lexeme); `fuel` ≥ number of digits -/
def rereadHexF : Nat → Nat → Nat
  | 0, _ => 0
  | f + 1, n => if n < 10 then n else 16 * rereadHexF f (n / 10) + n % 10

def rereadHex (n : Nat) : Nat := rereadHexF (n + 1) n

def hexValue (ds : List Nat) : Nat := ds.foldl (fun acc d => acc * 16 + d) 0

/-- value of the token after `=0x` (`HEX_DIGITS | DIGITS`), 8 bits -/
def hexTokValue : Tok → Option Nat
  | .digits n => if rereadHex n < 256 then some (rereadHex n) else none
  | .hexd ds => if hexValue ds < 256 then some (hexValue ds) else none
  | _ => none

/-- the token `%#x` of an 8-bit value lexes to (after the `0x`) -/
def hexTok (v : Nat) : Tok :=
  if v < 16 then (if v < 10 then .digits v else .hexd [v])
  else if v / 16 < 10 ∧ v % 16 < 10 then .digits (10 * (v / 16) + v % 16)
  else .hexd [v / 16, v % 16]

/-! ### printing (`String()`) -/

mutual
def print : Cond → List Tok
  | .all cs => .kAll :: .lpar :: printArgs cs
  | .any cs => .kAny :: .lpar :: printArgs cs
  | .not c => .kNot :: .lpar :: (print c ++ [.rpar])
  | .bool b => [.kBool, .eq, if b then .tTrue else .tFalse]
  | .src n => [.kSrc, .eq, .net (n.bits / 2^24 % 256) (n.bits / 2^16 % 256) (n.bits / 2^8 % 256) (n.bits % 256) n.len]
  | .dst n => [.kDst, .eq, .net (n.bits / 2^24 % 256) (n.bits / 2^16 % 256) (n.bits / 2^8 % 256) (n.bits % 256) n.len]
  | .dscp v => [.kDscp, .eq0x, hexTok v]
  | .tos v => [.kTos, .eq0x, hexTok v]
  | .proto p => [.kProtocol, .eq, .str (protoName p)]
  | .sport lo hi => [.kSrcport, .eq, .digits lo, .dash, .digits hi]
  | .dport lo hi => [.kDstport, .eq, .digits lo, .dash, .digits hi]
  | .cls n => [.clsEq, .digits n]
/-- arguments joined by commas, then the closing parenthesis -/
def printArgs : List Cond → List Tok
  | [] => [.rpar]
  | c :: cs =>
    print c ++ (match cs with
      | [] => [.rpar]
      | _ :: _ => .comma :: printArgs cs)
end

/-! ### parsing -/

/-- `net.ParseCIDR` on a `NET` lexeme: octets ≤ 255, length ≤ 32; the network is masked -/
def parseNet (a b c d m : Nat) : Option Net :=
  if a ≤ 255 ∧ b ≤ 255 ∧ c ≤ 255 ∧ d ≤ 255 ∧ m ≤ 32 then
    let v := a * 2^24 + b * 2^16 + c * 2^8 + d
    some ⟨v / 2^(32 - m) * 2^(32 - m), m⟩
  else none

/-- the leaf alternatives of `cond` (everything except all/any/not) -/
def pLeaf : List Tok → Option (Cond × List Tok)
  | .kBool :: .eq :: .tTrue :: r => some (.bool true, r)
  | .kBool :: .eq :: .tFalse :: r => some (.bool false, r)
  | .kSrc :: .eq :: .net a b c d m :: r =>
    match parseNet a b c d m with
    | some n => some (.src n, r)
    | none => none
  | .kDst :: .eq :: .net a b c d m :: r =>
    match parseNet a b c d m with
    | some n => some (.dst n, r)
    | none => none
  | .kDscp :: .eq0x :: t :: r =>
    match hexTokValue t with
    | some v => some (.dscp v, r)
    | none => none
  | .kTos :: .eq0x :: t :: r =>
    match hexTokValue t with
    | some v => some (.tos v, r)
    | none => none
  | .kProtocol :: .eq :: .str s :: r =>
    match protoNum s with
    | some p => some (.proto p, r)
    | none => none
  | .kSrcport :: .eq :: .digits lo :: .dash :: .digits hi :: r =>
    if lo < 65536 ∧ hi < 65536 then some (.sport lo hi, r) else none
  | .kSrcport :: .eq :: .digits v :: r =>
    if v < 65536 then some (.sport v v, r) else none
  | .kDstport :: .eq :: .digits lo :: .dash :: .digits hi :: r =>
    if lo < 65536 ∧ hi < 65536 then some (.dport lo hi, r) else none
  | .kDstport :: .eq :: .digits v :: r =>
    if v < 65536 then some (.dport v v, r) else none
  | .clsEq :: .digits n :: r => some (.cls n, r)
  | _ => none

mutual
/-- `cond`; `fuel` bounds the nesting -/
def pCond : Nat → List Tok → Option (Cond × List Tok)
  | 0, _ => none
  | f + 1, ts =>
    match ts with
    | .kAll :: .lpar :: r =>
      match pArgs f r with
      | some (cs, r') => some (.all cs, r')
      | none => none
    | .kAny :: .lpar :: r =>
      match pArgs f r with
      | some (cs, r') => some (.any cs, r')
      | none => none
    | .kNot :: .lpar :: r =>
      match pCond f r with
      | some (c, .rpar :: r') => some (.not c, r')
      | _ => none
    | _ => pLeaf ts
/-- `cond (',' cond)* ')'` -/
def pArgs : Nat → List Tok → Option (List Cond × List Tok)
  | 0, _ => none
  | f + 1, ts =>
    match pCond f ts with
    | some (c, .rpar :: r) => some ([c], r)
    | some (c, .comma :: r) =>
      match pArgs f r with
      | some (cs, r') => some (c :: cs, r')
      | none => none
    | _ => none
end

/-- `trafficClass: cond EOF` -/
def parse (ts : List Tok) : Option Cond :=
  match pCond (ts.length + 1) ts with
  | some (c, []) => some c
  | _ => none

/-! ### well-formed trees: what the parser can produce -/

def Net.wf (n : Net) : Bool :=
  decide (n.len ≤ 32) && decide (n.bits < 2^32) && n.bits % 2^(32 - n.len) == 0

def wfProto (p : Nat) : Bool := protoNum (protoName p) == some p

mutual
def Cond.wf : Cond → Bool
  | .all cs => !cs.isEmpty && wfAll cs
  | .any cs => !cs.isEmpty && wfAll cs
  | .not c => c.wf
  | .bool _ => true
  | .src n => n.wf
  | .dst n => n.wf
  | .dscp v => decide (v < 256)
  | .tos v => decide (v < 256)
  | .proto p => wfProto p
  | .sport lo hi => decide (lo < 65536) && decide (hi < 65536)
  | .dport lo hi => decide (lo < 65536) && decide (hi < 65536)
  | .cls _ => true
def wfAll : List Cond → Bool
  | [] => true
  | c :: cs => c.wf && wfAll cs
end

/-! ### text ↔ tokens

`lex` mirrors the ANTLR lexer of the grammar (maximal munch; the first rule wins among equally
long matches; characters that start no token are skipped, as the lexer's error recovery does —
the lexer's error listener is not consulted by `BuildClassTree`).  The real lexer is tied to
`lex` by T1 on every generated input; `lex (render (print e)) = print e` is a theorem
(`Scion.Proofs.PktclsLex`). -/

def digitVal (c : Char) : Option Nat :=
  let n := c.toNat
  if 48 ≤ n ∧ n ≤ 57 then some (n - 48)
  else if 97 ≤ n ∧ n ≤ 102 then some (n - 87)
  else if 65 ≤ n ∧ n ≤ 70 then some (n - 55)
  else none

def isDec (c : Char) : Bool := 48 ≤ c.toNat && c.toNat ≤ 57
def isHexC (c : Char) : Bool := (digitVal c).isSome
def isWs (c : Char) : Bool := c == ' ' || c == '\t' || c == '\r' || c == '\n'

def decValue (cs : List Char) : Nat := cs.foldl (fun acc c => acc * 10 + (c.toNat - 48)) 0

/-- longest prefix matching `DIGITS` (`'0' | [1-9][0-9]*`) -/
def takeDigits : List Char → Option (List Char × List Char)
  | [] => none
  | c :: r =>
    if c = '0' then some (['0'], r)
    else if isDec c then some (c :: r.takeWhile isDec, r.dropWhile isDec)
    else none

/-- the separator expected after a `DIGITS` inside `NET` -/
def expect (ch : Char) : List Char → Option (List Char)
  | [] => none
  | c :: r => if c = ch then some r else none

/-- longest prefix matching `NET` -/
def takeNet (cs : List Char) : Option (Tok × List Char) :=
  match takeDigits cs with
  | none => none
  | some (a, r) =>
    match expect '.' r with
    | none => none
    | some r =>
      match takeDigits r with
      | none => none
      | some (b, r) =>
        match expect '.' r with
        | none => none
        | some r =>
          match takeDigits r with
          | none => none
          | some (c, r) =>
            match expect '.' r with
            | none => none
            | some r =>
              match takeDigits r with
              | none => none
              | some (d, r) =>
                match expect '/' r with
                | none => none
                | some r =>
                  match takeDigits r with
                  | none => none
                  | some (m, r) =>
                    some (.net (decValue a) (decValue b) (decValue c) (decValue d) (decValue m), r)

/-- spellings of the keyword tokens (and of the literals `true` / `false`) -/
def kwTable : List (List Char × Tok) :=
  [ (['A','N','Y'], .kAny), (['a','n','y'], .kAny),
    (['A','L','L'], .kAll), (['a','l','l'], .kAll),
    (['N','O','T'], .kNot), (['n','o','t'], .kNot),
    (['B','O','O','L'], .kBool), (['b','o','o','l'], .kBool),
    (['S','R','C'], .kSrc), (['s','r','c'], .kSrc),
    (['D','S','T'], .kDst), (['d','s','t'], .kDst),
    (['D','S','C','P'], .kDscp), (['d','s','c','p'], .kDscp),
    (['T','O','S'], .kTos), (['t','o','s'], .kTos),
    (['P','R','O','T','O','C','O','L'], .kProtocol), (['p','r','o','t','o','c','o','l'], .kProtocol),
    (['S','R','C','P','O','R','T'], .kSrcport), (['s','r','c','p','o','r','t'], .kSrcport),
    (['D','S','T','P','O','R','T'], .kDstport), (['d','s','t','p','o','r','t'], .kDstport),
    (['t','r','u','e'], .tTrue), (['f','a','l','s','e'], .tFalse) ]

def keyword (w : List Char) : Option Tok :=
  match kwTable.find? (fun e => e.1 == w) with
  | some e => some e.2
  | none => none

/-- the literal (implicit) tokens of the grammar -/
def litTok : List Char → Option (Tok × List Char)
  | [] => none
  | c :: r =>
    if c = 'c' then
      (match r with
        | c1 :: c2 :: c3 :: r' => if c1 = 'l' ∧ c2 = 's' ∧ c3 = '=' then some (.clsEq, r') else none
        | _ => none)
    else if c = '=' then
      (match r with
        | c1 :: c2 :: r' => if c1 = '0' ∧ c2 = 'x' then some (.eq0x, r') else some (.eq, r)
        | _ => some (.eq, r))
    else if c = '(' then some (.lpar, r)
    else if c = ')' then some (.rpar, r)
    else if c = ',' then some (.comma, r)
    else if c = '-' then some (.dash, r)
    else none

/-- `DIGITS`, `HEX_DIGITS`, keywords and `STRING`: the longest of the runs decides, the rule listed
first in the grammar wins a tie (`DIGITS` < `HEX_DIGITS` < keywords < `STRING`; literals such as
`true` precede all of them) -/
def wordTok (cs : List Char) : Option (Tok × List Char) :=
  let hexRun := cs.takeWhile isHexC
  let alphaRun := cs.takeWhile isLetter
  let digLen := match takeDigits cs with | some (d, _) => d.length | none => 0
  if max hexRun.length alphaRun.length = 0 ∧ digLen = 0 then none
  else if alphaRun.length > hexRun.length ∨
      (alphaRun.length = hexRun.length ∧ (keyword alphaRun).isSome) then
    match keyword alphaRun with
    | some t => some (t, cs.drop alphaRun.length)
    | none => some (.str alphaRun, cs.drop alphaRun.length)
  else if digLen ≥ hexRun.length then
    match takeDigits cs with
    | some (d, r') => some (.digits (decValue d), r')
    | none => none
  else some (.hexd (hexRun.filterMap digitVal), cs.drop hexRun.length)

/-- the next token: literal, else `NET`, else a word -/
def nextTok (cs : List Char) : Option (Tok × List Char) :=
  match litTok cs with
  | some x => some x
  | none =>
    match takeNet cs with
    | some x => some x
    | none => wordTok cs

def lexF : Nat → List Char → List Tok
  | 0, _ => []
  | _, [] => []
  | f + 1, c :: r =>
    if isWs c then lexF f r
    else
      match nextTok (c :: r) with
      | some (t, r') => t :: lexF f r'
      | none => lexF f r

def lex (cs : List Char) : List Tok := lexF (cs.length + 1) cs

def digitChar (d : Nat) : Char := Char.ofNat (48 + d)

def hexChar (d : Nat) : Char := if d < 10 then digitChar d else Char.ofNat (87 + d)

/-- the decimal numeral of `n` (`%d`) -/
def decDigits (n : Nat) : List Char :=
  if n < 10 then [digitChar n] else decDigits (n / 10) ++ [digitChar (n % 10)]
termination_by n
decreasing_by omega

def renderTok : Tok → List Char
  | .kAny => ['a','n','y'] | .kAll => ['a','l','l'] | .kNot => ['n','o','t']
  | .kBool => ['B','O','O','L'] | .kSrc => ['s','r','c'] | .kDst => ['d','s','t']
  | .kDscp => ['d','s','c','p'] | .kTos => ['t','o','s']
  | .kProtocol => ['p','r','o','t','o','c','o','l']
  | .kSrcport => ['s','r','c','p','o','r','t'] | .kDstport => ['d','s','t','p','o','r','t']
  | .eq => ['='] | .eq0x => ['=','0','x'] | .clsEq => ['c','l','s','=']
  | .lpar => ['('] | .rpar => [')'] | .comma => [','] | .dash => ['-']
  | .tTrue => ['t','r','u','e'] | .tFalse => ['f','a','l','s','e']
  | .digits n => decDigits n
  | .hexd ds => ds.map hexChar
  | .net a b c d m =>
    decDigits a ++ '.' :: (decDigits b ++ '.' :: (decDigits c ++ '.' :: (decDigits d ++ '/' :: decDigits m)))
  | .str s => s

/-- the text `String()` produces for the printed token list -/
def render (ts : List Tok) : List Char := ts.flatMap renderTok

end Scion.Pktcls
