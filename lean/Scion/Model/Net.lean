import Scion.Model.SegID
/-!
# Abstract network model for the end-to-end properties C02, C03, C04, C10 (core Lean only)

Part 1 — **one border router, one packet**: `routerStep` is a minimal model of
`scionPacketProcessor.process` (router/dataplane.go) at the level the end-to-end properties need:
SegID accumulator, path pointers, interface / link-type / liveness checks, expiry and the MAC
check with the MAC as a *parameter* `mac`.  It abstracts from bytes (the packet is a structured
path with a cursor, see `ofFlat`), from payload-length / source-host checks (assumed to pass: the
harness only sends well-formed packets), from SVC resolution, EPIC and one-hop paths, and from
SCMP pointers.  It does NOT use builder router1's `Scion.Model.Router`.
`scmpPrepare` models the path manipulation of `slowPathPacketProcessor.prepareSCMP`,
`reverseCursor` is `Decoded.Reverse`.

Part 2 — **the network**: ASes with keys, interfaces and border routers; segments built by
`extend` (the extender: MAC over the accumulator β, peer entries with β'); the closure
`Beaconed`/`Registered`; the combinator's `pathOf` for at most three edges; `run`, which pushes a
packet from router to router (sibling hand-over included) until it is delivered or answered.

Each real router invocation of engine `net` is replayed through `routerStep`/`scmpPrepare` by
`Driver/Net.lean` with `mac` instantiated by an executable AES-CMAC, so the abstract step is tied
to the real one, MAC input layout included.
-/
namespace Scion.Net
open Scion.SegID (updateSegID)

/-! ## Part 1: packets and the per-router step -/

abbrev Bytes := List UInt8

/-- the hop-field MAC primitive: key → 16-byte input → 48-bit tag (as a number) -/
abbrev MacFn := Bytes → Bytes → Nat

def be16 (n : Nat) : Bytes := [UInt8.ofNat (n / 256 % 256), UInt8.ofNat (n % 256)]
def be32 (n : Nat) : Bytes :=
  [UInt8.ofNat (n / 16777216 % 256), UInt8.ofNat (n / 65536 % 256), UInt8.ofNat (n / 256 % 256),
   UInt8.ofNat (n % 256)]

/-- `path.MACInput`: 0,0 | SegID | Timestamp | 0 | ExpTime | ConsIngress | ConsEgress | 0,0 -/
def macInput (segID ts exp cIn cEg : Nat) : Bytes :=
  [0, 0] ++ be16 segID ++ be32 ts ++ [0, UInt8.ofNat (exp % 256)] ++ be16 cIn ++ be16 cEg ++ [0, 0]

/-- first two bytes of a 6-byte MAC -/
def pfx (tag : Nat) : Nat := tag / 4294967296 % 65536

inductive LinkType | unset | core | parent | child | peer
deriving DecidableEq, Repr

structure Iface where
  id : Nat
  lt : LinkType     -- type of the link as seen from the local AS ("link to")
  up : Bool
  owner : Nat       -- index of the border router that owns the interface
  nbr : Nat := 0    -- neighbour AS and its interface (used by `run` only)
  nbrIf : Nat := 0
deriving DecidableEq, Repr

structure Info where
  consDir : Bool
  peer : Bool
  segID : Nat
  ts : Nat
deriving DecidableEq, Repr

structure Hop where
  cIn : Nat
  cEg : Nat
  exp : Nat
  mac : Nat
  inAlert : Bool := false
  egAlert : Bool := false
deriving DecidableEq, Repr

structure Seg where
  info : Info
  hops : List Hop
deriving DecidableEq, Repr

/-- a path with the position of the current hop: segments already left behind, the current
    segment split into passed hops / current hop / hops ahead, and the segments ahead -/
structure Cursor where
  before : List Seg
  info : Info
  done : List Hop
  cur : Hop
  todo : List Hop
  after : List Seg
deriving DecidableEq, Repr

namespace Cursor
def isFirstHop (c : Cursor) : Bool := c.before.isEmpty && c.done.isEmpty
def isLastHop (c : Cursor) : Bool := c.todo.isEmpty && c.after.isEmpty
/-- `Base.IsXover`: the next hop belongs to another segment -/
def isXover (c : Cursor) : Bool := c.todo.isEmpty && !c.after.isEmpty
/-- `Base.IsFirstHopAfterXover` -/
def isFirstHopAfterXover (c : Cursor) : Bool := !c.before.isEmpty && c.done.isEmpty
def curSegLen (c : Cursor) : Nat := c.done.length + 1 + c.todo.length
def segLens (c : Cursor) : List Nat :=
  c.before.map (·.hops.length) ++ [c.curSegLen] ++ c.after.map (·.hops.length)
/-- some segment consists of a single hop field -/
def hasSingleton (c : Cursor) : Bool := c.segLens.any (· == 1)

/-- `Base.IncPath` (`none` = already at the last hop) -/
def incPath (c : Cursor) : Option Cursor :=
  match c.todo with
  | h :: t => some { c with done := c.done ++ [c.cur], cur := h, todo := t }
  | [] =>
    match c.after with
    | [] => none
    | s :: rest =>
      match s.hops with
      | [] => none
      | h :: t =>
        some { before := c.before ++ [⟨c.info, c.done ++ [c.cur]⟩], info := s.info, done := [],
               cur := h, todo := t, after := rest }
end Cursor

/-- `determinePeer`: `none` = malformed peering path (discard) -/
def determinePeer (c : Cursor) : Option Bool :=
  if !c.info.peer then some false
  else if c.before.length + 1 + c.after.length ≠ 2 then none
  else some ((c.before.isEmpty && c.todo.isEmpty) || (!c.before.isEmpty && c.done.isEmpty))

inductive Arrival
  | host                 -- internal link (end host of the local AS)
  | sibling (k : Nat)    -- sibling link from border router `k` of the same AS
  | ext (ifid : Nat)     -- external link with this interface id
deriving DecidableEq, Repr

def Arrival.ifid : Arrival → Nat
  | .ext i => i
  | _ => 0

structure RCfg where
  key : Bytes
  self : Nat            -- index of this border router inside its AS
  ifaces : List Iface   -- every inter-AS interface of the AS
deriving Repr

def RCfg.iface (cfg : RCfg) (id : Nat) : Option Iface := cfg.ifaces.find? (·.id == id)

inductive Out
  | deliver (c : Cursor)
  | forward (egress : Nat) (c : Cursor)
  | slow (typ code egress : Nat) (c : Cursor)        -- SCMP error requested
  | alert (ingressSide : Bool) (egress : Nat) (c : Cursor)  -- router alert (traceroute)
  | drop
deriving DecidableEq, Repr

/-- hop expiry: info timestamp (s) + (ExpTime+1)·337.5 s lies before `now` (ms) -/
def expired (nowMs : Nat) (ts exp : Nat) : Bool := ts * 1000 + (exp + 1) * 337500 < nowMs

def macOk (mac : MacFn) (key : Bytes) (i : Info) (h : Hop) : Bool :=
  mac key (macInput i.segID i.ts h.exp h.cIn h.cEg) == h.mac

/-- `ingressInterface()` -/
def ingressInterface (c : Cursor) (peering : Bool) : Nat :=
  let dflt := if c.info.consDir then c.cur.cIn else c.cur.cEg
  if !peering && c.isFirstHopAfterXover then
    match c.before.getLast? with
    | some s =>
      match s.hops.getLast? with
      | some h => if s.info.consDir then h.cIn else h.cEg
      | none => dflt
    | none => dflt
  else dflt

/-- link-type pairs admitted inside a segment (`validateEgressID`, no effective cross-over) -/
def ltSame : LinkType → LinkType → Bool
  | .core, .core | .child, .parent | .parent, .child | .child, .peer | .peer, .child => true
  | _, _ => false

/-- link-type pairs admitted at a segment change -/
def ltXover : LinkType → LinkType → Bool
  | .core, .child | .child, .core | .child, .child => true
  | _, _ => false

structure StIn where
  c : Cursor
  peering : Bool

/-- `parsePath` … `handleIngressRouterAlert` -/
def stIngress (mac : MacFn) (cfg : RCfg) (nowMs : Nat) (arr : Arrival) (srcLocal dstLocal : Bool)
    (c : Cursor) : Except Out StIn :=
  let ingress := arr.ifid
  if !c.info.peer && c.hasSingleton then .error .drop else
  match determinePeer c with
  | none => .error .drop
  | some peering =>
    -- updateNonConsDirIngressSegID
    let c1 : Cursor :=
      if !c.info.consDir && ingress != 0 && !peering then
        { c with info := { c.info with segID := updateSegID c.info.segID (pfx c.cur.mac) } }
      else c
    -- validateHopExpiry
    if expired nowMs c1.info.ts c1.cur.exp then .error (.slow 4 52 0 c1) else
    -- validateIngressID
    if ingress != 0 && ingress != (if c1.info.consDir then c1.cur.cIn else c1.cur.cEg) then
      .error (.slow 4 (if c1.info.consDir then 49 else 50) 0 c1) else
    -- validateTransitUnderlaySrc
    if !(c1.isFirstHop || ingress != 0) &&
        !(match arr, cfg.iface (ingressInterface c1 peering) with
          | .sibling k, some f => f.owner == k && f.owner != cfg.self
          | _, _ => false) then .error .drop else
    -- validateSrcDstIA
    if (if ingress == 0 then c1.isFirstHop && !srcLocal else srcLocal) then
      .error (.slow 4 33 0 c1) else
    if (if ingress == 0 then dstLocal else c1.isLastHop != dstLocal) then
      .error (.slow 4 34 0 c1) else
    -- verifyCurrentMAC
    if !macOk mac cfg.key c1.info c1.cur then .error (.slow 4 51 0 c1) else
    -- handleIngressRouterAlert
    if ingress != 0 && (if c1.info.consDir then c1.cur.inAlert else c1.cur.egAlert) then
      .error (.alert true 0
        { c1 with cur := if c1.info.consDir then { c1.cur with inAlert := false }
                         else { c1.cur with egAlert := false } })
    else .ok ⟨c1, peering⟩

structure StX where
  c : Cursor
  peering : Bool
  xover : Bool

/-- effective cross-over: `doXover`, then expiry and MAC of the new current hop -/
def stXover (mac : MacFn) (cfg : RCfg) (nowMs : Nat) (s : StIn) : Except Out StX :=
  if s.c.isXover && !s.peering then
    match s.c.incPath with
    | none => .error .drop
    | some c2 =>
      if expired nowMs c2.info.ts c2.cur.exp then .error (.slow 4 52 0 c2) else
      if !macOk mac cfg.key c2.info c2.cur then .error (.slow 4 51 0 c2) else
      .ok ⟨c2, s.peering, true⟩
  else .ok ⟨s.c, s.peering, false⟩

/-- `validateEgressID`, `handleEgressRouterAlert`, `validateEgressUp`, `processEgress` -/
def stEgress (cfg : RCfg) (arr : Arrival) (s : StX) : Out :=
  let ingress := arr.ifid
  let c := s.c
  let egress := if c.info.consDir then c.cur.cEg else c.cur.cIn
  -- interface 0 is the internal link: known, but neither external nor of any link type
  match (if egress == 0 then some ⟨0, .unset, true, cfg.self + 1, 0, 0⟩ else cfg.iface egress) with
  | none => .slow 4 (if c.info.consDir then 50 else 49) egress c
  | some eg =>
    let extEg := eg.owner == cfg.self
    if ingress == 0 && !extEg then .slow 4 (if c.info.consDir then 50 else 49) egress c else
    let inLT := match cfg.iface ingress with
      | some f => f.lt
      | none => LinkType.unset
    if !s.xover && ingress != 0 && !ltSame inLT eg.lt then .slow 4 48 egress c else
    if s.xover && !ltXover inLT eg.lt then .slow 4 53 egress c else
    -- handleEgressRouterAlert
    if (if c.info.consDir then c.cur.egAlert else c.cur.inAlert) && extEg then
      .alert false egress
        { c with cur := if c.info.consDir then { c.cur with egAlert := false }
                        else { c.cur with inAlert := false } } else
    -- validateEgressUp (sibling links are always up in this model)
    if extEg && !eg.up then .slow 5 0 egress c else
    if extEg then
      -- processEgress
      let c1 : Cursor :=
        if c.info.consDir && !s.peering then
          { c with info := { c.info with segID := updateSegID c.info.segID (pfx c.cur.mac) } }
        else c
      match c1.incPath with
      | none => .drop
      | some c2 => .forward egress c2
    else .forward egress c

/-- one border router processing one packet (`scionPacketProcessor.process`) -/
def routerStep (mac : MacFn) (cfg : RCfg) (nowMs : Nat) (arr : Arrival) (srcLocal dstLocal : Bool)
    (c : Cursor) : Out :=
  match stIngress mac cfg nowMs arr srcLocal dstLocal c with
  | .error o => o
  | .ok s =>
    if dstLocal then .deliver s.c else
    match stXover mac cfg nowMs s with
    | .error o => o
    | .ok x => stEgress cfg arr x

/-! ### Path reversal and the SCMP reply path -/

def flipInfo (i : Info) : Info := { i with consDir := !i.consDir }
def revSeg (s : Seg) : Seg := ⟨flipInfo s.info, s.hops.reverse⟩

/-- `Decoded.Reverse`: same current hop, everything else mirrored -/
def reverseCursor (c : Cursor) : Cursor :=
  { before := c.after.reverse.map revSeg, info := flipInfo c.info, done := c.todo.reverse,
    cur := c.cur, todo := c.done.reverse, after := c.before.reverse.map revSeg }

/-- `prepareSCMP`, path part: reverse, undo an effective cross-over, and when the reply leaves
    over an external link do the egress processing right away.  `none` = no reply (error). -/
def scmpPrepare (c : Cursor) (linkExternal : Bool) : Option Cursor :=
  let r := reverseCursor c
  match determinePeer r with
  | none => none
  | some peering =>
    match (if r.isXover && !peering then r.incPath else some r) with
    | none => none
    | some r1 =>
      if linkExternal then
        let r2 : Cursor :=
          if r1.info.consDir && !peering then
            { r1 with info := { r1.info with segID := updateSegID r1.info.segID (pfx r1.cur.mac) } }
          else r1
        r2.incPath
      else some r1

/-! ### Flat (wire-like) view: what the harness reads off real packets -/

structure Flat where
  currINF : Nat
  currHF : Nat
  segLens : List Nat     -- the three SegLen fields
  infos : List Info
  hops : List Hop
deriving DecidableEq, Repr

/-- split `hops` according to the non-zero segment lengths -/
def splitSegs : List Nat → List Info → List Hop → Option (List Seg)
  | [], [], [] => some []
  | n :: ns, i :: is, hs =>
    if n = 0 ∨ hs.length < n then none
    else match splitSegs ns is (hs.drop n) with
      | some r => some (⟨i, hs.take n⟩ :: r)
      | none => none
  | _, _, _ => none

/-- position the cursor; `none` when the pointers are out of range or `CurrINF` is not the
    segment containing `CurrHF` (the router discards such packets: `CurrINFMatchesCurrHF`) -/
def ofFlat (f : Flat) : Option Cursor :=
  let lens := f.segLens.filter (· != 0)
  match splitSegs lens f.infos f.hops with
  | none => none
  | some segs =>
    let before := segs.take f.currINF
    match segs.drop f.currINF with
    | [] => none
    | s :: after =>
      let off := (before.map (·.hops.length)).foldl (· + ·) 0
      if f.currHF < off then none else
      let k := f.currHF - off
      match s.hops.drop k with
      | [] => none
      | h :: t => some ⟨before, s.info, s.hops.take k, h, t, after⟩

def Cursor.curSeg (c : Cursor) : Seg := ⟨c.info, c.done ++ [c.cur] ++ c.todo⟩
def Cursor.segs (c : Cursor) : List Seg := c.before ++ [c.curSeg] ++ c.after

def toFlat (c : Cursor) : Flat :=
  let lens := c.segs.map (·.hops.length)
  { currINF := c.before.length
    currHF := (c.before.map (·.hops.length)).foldl (· + ·) 0 + c.done.length
    segLens := lens ++ List.replicate (3 - lens.length) 0
    infos := c.segs.map (·.info)
    hops := (c.segs.map (·.hops)).flatten }

end Scion.Net
