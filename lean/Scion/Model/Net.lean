import Scion.Model.SegID
/-!
# Abstract network model for the end-to-end properties C02, C03, C04, C10 (core Lean only)

Part 1 — **one border router, one packet**: `routerStep` is a minimal model of
`scionPacketProcessor.process` (router/dataplane.go) at the level the end-to-end properties need:
SegID accumulator, path pointers, interface / link-type / liveness checks, expiry and the MAC
check with the MAC as a *parameter* `mac`.  It abstracts from bytes (the packet is a structured
path with a cursor, see `ofFlat`), from payload-length / source-host checks (assumed to pass: the
harness only sends well-formed packets), from SVC resolution, EPIC and one-hop paths, and from
SCMP pointers.  It does NOT use builder router1's `Scion.Model.Router`.
`scmpPrepare` models the path manipulation of `slowPathPacketProcessor.prepareSCMP`,
`reverseCursor` is `Decoded.Reverse`.

Part 2 — **the network**: ASes with keys, interfaces and border routers; segments built by
`extend` (the extender: MAC over the accumulator β, peer entries with β'); the closure
`Beaconed`/`Registered`; the combinator's `pathOf` for at most three edges; `run`, which pushes a
packet from router to router (sibling hand-over included) until it is delivered or answered.

Each real router invocation of engine `net` is replayed through `routerStep`/`scmpPrepare` by
`Driver/Net.lean` with `mac` instantiated by an executable AES-CMAC, so the abstract step is tied
to the real one, MAC input layout included.
-/
namespace Scion.Net
open Scion.SegID (updateSegID)

/-! ## Part 1: packets and the per-router step -/

abbrev Bytes := List UInt8

/-- the hop-field MAC primitive: key → 16-byte input → 48-bit tag (as a number) -/
abbrev MacFn := Bytes → Bytes → Nat

def be16 (n : Nat) : Bytes := [UInt8.ofNat (n / 256 % 256), UInt8.ofNat (n % 256)]
def be32 (n : Nat) : Bytes :=
  [UInt8.ofNat (n / 16777216 % 256), UInt8.ofNat (n / 65536 % 256), UInt8.ofNat (n / 256 % 256),
   UInt8.ofNat (n % 256)]

/-- `path.MACInput`: 0,0 | SegID | Timestamp | 0 | ExpTime | ConsIngress | ConsEgress | 0,0 -/
def macInput (segID ts exp cIn cEg : Nat) : Bytes :=
  [0, 0] ++ be16 segID ++ be32 ts ++ [0, UInt8.ofNat (exp % 256)] ++ be16 cIn ++ be16 cEg ++ [0, 0]

/-- first two bytes of a 6-byte MAC -/
def pfx (tag : Nat) : Nat := tag / 4294967296 % 65536

inductive LinkType | unset | core | parent | child | peer
deriving DecidableEq, Repr

structure Iface where
  id : Nat
  lt : LinkType     -- type of the link as seen from the local AS ("link to")
  up : Bool
  owner : Nat       -- index of the border router that owns the interface
  nbr : Nat := 0    -- neighbour AS and its interface (used by `run` only)
  nbrIf : Nat := 0
deriving DecidableEq, Repr

structure Info where
  consDir : Bool
  peer : Bool
  segID : Nat
  ts : Nat
deriving DecidableEq, Repr

structure Hop where
  cIn : Nat
  cEg : Nat
  exp : Nat
  mac : Nat
  inAlert : Bool := false
  egAlert : Bool := false
deriving DecidableEq, Repr

structure Seg where
  info : Info
  hops : List Hop
deriving DecidableEq, Repr

/-- a path with the position of the current hop: segments already left behind, the current
    segment split into passed hops / current hop / hops ahead, and the segments ahead -/
structure Cursor where
  before : List Seg
  info : Info
  done : List Hop
  cur : Hop
  todo : List Hop
  after : List Seg
deriving DecidableEq, Repr

namespace Cursor
def isFirstHop (c : Cursor) : Bool := c.before.isEmpty && c.done.isEmpty
def isLastHop (c : Cursor) : Bool := c.todo.isEmpty && c.after.isEmpty
/-- `Base.IsXover`: the next hop belongs to another segment -/
def isXover (c : Cursor) : Bool := c.todo.isEmpty && !c.after.isEmpty
/-- `Base.IsFirstHopAfterXover` -/
def isFirstHopAfterXover (c : Cursor) : Bool := !c.before.isEmpty && c.done.isEmpty
def curSegLen (c : Cursor) : Nat := c.done.length + 1 + c.todo.length
def segLens (c : Cursor) : List Nat :=
  c.before.map (·.hops.length) ++ [c.curSegLen] ++ c.after.map (·.hops.length)
/-- some segment consists of a single hop field -/
def hasSingleton (c : Cursor) : Bool := c.segLens.any (· == 1)

/-- `Base.IncPath` (`none` = already at the last hop) -/
def incPath (c : Cursor) : Option Cursor :=
  match c.todo with
  | h :: t => some { c with done := c.done ++ [c.cur], cur := h, todo := t }
  | [] =>
    match c.after with
    | [] => none
    | s :: rest =>
      match s.hops with
      | [] => none
      | h :: t =>
        some { before := c.before ++ [⟨c.info, c.done ++ [c.cur]⟩], info := s.info, done := [],
               cur := h, todo := t, after := rest }
end Cursor

/-- `determinePeer`: `none` = malformed peering path (discard) -/
def determinePeer (c : Cursor) : Option Bool :=
  if !c.info.peer then some false
  else if c.before.length + 1 + c.after.length ≠ 2 then none
  else some ((c.before.isEmpty && c.todo.isEmpty) || (!c.before.isEmpty && c.done.isEmpty))

inductive Arrival
  | host                 -- internal link (end host of the local AS)
  | sibling (k : Nat)    -- sibling link from border router `k` of the same AS
  | ext (ifid : Nat)     -- external link with this interface id
deriving DecidableEq, Repr

def Arrival.ifid : Arrival → Nat
  | .ext i => i
  | _ => 0

structure RCfg where
  key : Bytes
  self : Nat            -- index of this border router inside its AS
  ifaces : List Iface   -- every inter-AS interface of the AS
deriving Repr

def RCfg.iface (cfg : RCfg) (id : Nat) : Option Iface := cfg.ifaces.find? (·.id == id)

inductive Out
  | deliver (c : Cursor)
  | forward (egress : Nat) (c : Cursor)
  | slow (typ code egress : Nat) (c : Cursor)        -- SCMP error requested
  | alert (ingressSide : Bool) (egress : Nat) (c : Cursor)  -- router alert (traceroute)
  | drop
deriving DecidableEq, Repr

/-- the packet continues its journey (handed to the next router or to the destination host) -/
def Out.accepting : Out → Bool
  | .deliver _ => true
  | .forward _ _ => true
  | _ => false

/-- hop expiry: info timestamp (s) + (ExpTime+1)·337.5 s lies before `now` (ms) -/
def expired (nowMs : Nat) (ts exp : Nat) : Bool := ts * 1000 + (exp + 1) * 337500 < nowMs

def macOk (mac : MacFn) (key : Bytes) (i : Info) (h : Hop) : Bool :=
  mac key (macInput i.segID i.ts h.exp h.cIn h.cEg) == h.mac

/-- `ingressInterface()` -/
def ingressInterface (c : Cursor) (peering : Bool) : Nat :=
  let dflt := if c.info.consDir then c.cur.cIn else c.cur.cEg
  if !peering && c.isFirstHopAfterXover then
    match c.before.getLast? with
    | some s =>
      match s.hops.getLast? with
      | some h => if s.info.consDir then h.cIn else h.cEg
      | none => dflt
    | none => dflt
  else dflt

/-- link-type pairs admitted inside a segment (`validateEgressID`, no effective cross-over) -/
def ltSame : LinkType → LinkType → Bool
  | .core, .core | .child, .parent | .parent, .child | .child, .peer | .peer, .child => true
  | _, _ => false

/-- link-type pairs admitted at a segment change -/
def ltXover : LinkType → LinkType → Bool
  | .core, .child | .child, .core | .child, .child => true
  | _, _ => false

structure StIn where
  c : Cursor
  peering : Bool

/-- the packet after `updateNonConsDirIngressSegID` -/
def ingUpd (c : Cursor) (arr : Arrival) (peering : Bool) : Cursor :=
  if !c.info.consDir && arr.ifid != 0 && !peering then
    { c with info := { c.info with segID := updateSegID c.info.segID (pfx c.cur.mac) } }
  else c

/-- ingress router alert consumed: the flag of the side the packet came in on is cleared -/
def clearInAlert (c : Cursor) : Cursor :=
  { c with cur := if c.info.consDir then { c.cur with inAlert := false }
                  else { c.cur with egAlert := false } }

/-- `validateHopExpiry` … `handleIngressRouterAlert` on the packet `c1` as updated at ingress -/
def stChecks (mac : MacFn) (cfg : RCfg) (nowMs : Nat) (arr : Arrival) (srcLocal dstLocal : Bool)
    (c1 : Cursor) (peering : Bool) : Except Out StIn :=
  -- validateHopExpiry
  if expired nowMs c1.info.ts c1.cur.exp then .error (.slow 4 52 0 c1) else
  -- validateIngressID
  if arr.ifid != 0 && arr.ifid != (if c1.info.consDir then c1.cur.cIn else c1.cur.cEg) then
    .error (.slow 4 (if c1.info.consDir then 49 else 50) 0 c1) else
  -- validateTransitUnderlaySrc
  if !(c1.isFirstHop || arr.ifid != 0) &&
      !(match arr, cfg.iface (ingressInterface c1 peering) with
        | .sibling k, some f => f.owner == k && f.owner != cfg.self
        | _, _ => false) then .error .drop else
  -- validateSrcDstIA
  if (if arr.ifid == 0 then c1.isFirstHop && !srcLocal else srcLocal) then
    .error (.slow 4 33 0 c1) else
  if (if arr.ifid == 0 then dstLocal else c1.isLastHop != dstLocal) then
    .error (.slow 4 34 0 c1) else
  -- verifyCurrentMAC
  if !macOk mac cfg.key c1.info c1.cur then .error (.slow 4 51 0 c1) else
  -- handleIngressRouterAlert
  if arr.ifid != 0 && (if c1.info.consDir then c1.cur.inAlert else c1.cur.egAlert) then
    .error (.alert true 0 (clearInAlert c1))
  else .ok ⟨c1, peering⟩

/-- `parsePath` … `handleIngressRouterAlert` -/
def stIngress (mac : MacFn) (cfg : RCfg) (nowMs : Nat) (arr : Arrival) (srcLocal dstLocal : Bool)
    (c : Cursor) : Except Out StIn :=
  if !c.info.peer && c.hasSingleton then .error .drop else
  match determinePeer c with
  | none => .error .drop
  | some peering => stChecks mac cfg nowMs arr srcLocal dstLocal (ingUpd c arr peering) peering

structure StX where
  c : Cursor
  peering : Bool
  xover : Bool

/-- effective cross-over: `doXover`, then expiry and MAC of the new current hop -/
def stXover (mac : MacFn) (cfg : RCfg) (nowMs : Nat) (s : StIn) : Except Out StX :=
  if s.c.isXover && !s.peering then
    match s.c.incPath with
    | none => .error .drop
    | some c2 =>
      if expired nowMs c2.info.ts c2.cur.exp then .error (.slow 4 52 0 c2) else
      if !macOk mac cfg.key c2.info c2.cur then .error (.slow 4 51 0 c2) else
      .ok ⟨c2, s.peering, true⟩
  else .ok ⟨s.c, s.peering, false⟩

/-- egress router alert consumed -/
def clearEgAlert (c : Cursor) : Cursor :=
  { c with cur := if c.info.consDir then { c.cur with egAlert := false }
                  else { c.cur with inAlert := false } }

/-- SegID part of `processEgress` -/
def egUpd (c : Cursor) (peering : Bool) : Cursor :=
  if c.info.consDir && !peering then
    { c with info := { c.info with segID := updateSegID c.info.segID (pfx c.cur.mac) } }
  else c

/-- what the router knows about the egress interface; interface 0 is the internal link: known,
    but neither external nor of any link type -/
def egressIface (cfg : RCfg) (egress : Nat) : Option Iface :=
  if egress == 0 then some ⟨0, .unset, true, cfg.self + 1, 0, 0⟩ else cfg.iface egress

def ingressLT (cfg : RCfg) (ingress : Nat) : LinkType :=
  match cfg.iface ingress with
  | some f => f.lt
  | none => .unset

def egressOf (c : Cursor) : Nat := if c.info.consDir then c.cur.cEg else c.cur.cIn

/-- `validateEgressID`, `handleEgressRouterAlert`, `validateEgressUp`, `processEgress` -/
def stEgress (cfg : RCfg) (arr : Arrival) (s : StX) : Out :=
  let c := s.c
  match egressIface cfg (egressOf c) with
  | none => .slow 4 (if c.info.consDir then 50 else 49) (egressOf c) c
  | some eg =>
    if arr.ifid == 0 && !(eg.owner == cfg.self) then
      .slow 4 (if c.info.consDir then 50 else 49) (egressOf c) c else
    if !s.xover && arr.ifid != 0 && !ltSame (ingressLT cfg arr.ifid) eg.lt then
      .slow 4 48 (egressOf c) c else
    if s.xover && !ltXover (ingressLT cfg arr.ifid) eg.lt then .slow 4 53 (egressOf c) c else
    -- handleEgressRouterAlert
    if (if c.info.consDir then c.cur.egAlert else c.cur.inAlert) && eg.owner == cfg.self then
      .alert false (egressOf c) (clearEgAlert c) else
    -- validateEgressUp (sibling links are always up in this model)
    if eg.owner == cfg.self && !eg.up then .slow 5 0 (egressOf c) c else
    if eg.owner == cfg.self then
      -- processEgress
      match (egUpd c s.peering).incPath with
      | none => .drop
      | some c2 => .forward (egressOf c) c2
    else .forward (egressOf c) c

/-- one border router processing one packet (`scionPacketProcessor.process`) -/
def routerStep (mac : MacFn) (cfg : RCfg) (nowMs : Nat) (arr : Arrival) (srcLocal dstLocal : Bool)
    (c : Cursor) : Out :=
  match stIngress mac cfg nowMs arr srcLocal dstLocal c with
  | .error o => o
  | .ok s =>
    if dstLocal then .deliver s.c else
    match stXover mac cfg nowMs s with
    | .error o => o
    | .ok x => stEgress cfg arr x

/-! ### Path reversal and the SCMP reply path -/

def flipInfo (i : Info) : Info := { i with consDir := !i.consDir }
def revSeg (s : Seg) : Seg := ⟨flipInfo s.info, s.hops.reverse⟩

/-- `Decoded.Reverse`: same current hop, everything else mirrored -/
def reverseCursor (c : Cursor) : Cursor :=
  { before := c.after.reverse.map revSeg, info := flipInfo c.info, done := c.todo.reverse,
    cur := c.cur, todo := c.done.reverse, after := c.before.reverse.map revSeg }

/-- `prepareSCMP`, path part: reverse, undo an effective cross-over, and when the reply leaves
    over an external link do the egress processing right away.  `none` = no reply (error). -/
def scmpPrepare (c : Cursor) (linkExternal : Bool) : Option Cursor :=
  let r := reverseCursor c
  match determinePeer r with
  | none => none
  | some peering =>
    match (if r.isXover && !peering then r.incPath else some r) with
    | none => none
    | some r1 =>
      if linkExternal then
        (egUpd r1 peering).incPath
      else some r1

/-! ### Flat (wire-like) view: what the harness reads off real packets -/

structure Flat where
  currINF : Nat
  currHF : Nat
  segLens : List Nat     -- the three SegLen fields
  infos : List Info
  hops : List Hop
deriving DecidableEq, Repr

/-- split `hops` according to the non-zero segment lengths -/
def splitSegs : List Nat → List Info → List Hop → Option (List Seg)
  | [], [], [] => some []
  | n :: ns, i :: is, hs =>
    if n = 0 ∨ hs.length < n then none
    else match splitSegs ns is (hs.drop n) with
      | some r => some (⟨i, hs.take n⟩ :: r)
      | none => none
  | _, _, _ => none

/-- position the cursor; `none` when the pointers are out of range or `CurrINF` is not the
    segment containing `CurrHF` (the router discards such packets: `CurrINFMatchesCurrHF`) -/
def ofFlat (f : Flat) : Option Cursor :=
  let lens := f.segLens.filter (· != 0)
  match splitSegs lens f.infos f.hops with
  | none => none
  | some segs =>
    let before := segs.take f.currINF
    match segs.drop f.currINF with
    | [] => none
    | s :: after =>
      let off := (before.map (·.hops.length)).foldl (· + ·) 0
      if f.currHF < off then none else
      let k := f.currHF - off
      match s.hops.drop k with
      | [] => none
      | h :: t => some ⟨before, s.info, s.hops.take k, h, t, after⟩

def Cursor.curSeg (c : Cursor) : Seg := ⟨c.info, c.done ++ [c.cur] ++ c.todo⟩
def Cursor.segs (c : Cursor) : List Seg := c.before ++ [c.curSeg] ++ c.after

def toFlat (c : Cursor) : Flat :=
  let lens := c.segs.map (·.hops.length)
  { currINF := c.before.length
    currHF := (c.before.map (·.hops.length)).foldl (· + ·) 0 + c.done.length
    segLens := lens ++ List.replicate (3 - lens.length) 0
    infos := c.segs.map (·.info)
    hops := (c.segs.map (·.hops)).flatten }

/-! ## Part 2: the network, beaconing, path combination, end-to-end runs -/

structure ASCfg where
  key : Bytes
  core : Bool
  ifaces : List Iface
deriving Repr

def ASCfg.iface (a : ASCfg) (id : Nat) : Option Iface := a.ifaces.find? (·.id == id)

/-- a network: AS number ↦ configuration (ASes that do not exist have no interfaces) -/
abbrev Net := Nat → ASCfg

/-! ### Control plane: segments as the beacon extender builds them -/

structure HopE where
  cIn : Nat
  cEg : Nat
  exp : Nat
  mac : Nat
deriving DecidableEq, Repr

structure PeerE where
  hop : HopE        -- `hop.cIn` is the local peering interface
  peerAS : Nat
  peerIf : Nat
deriving DecidableEq, Repr

structure ASE where
  ia : Nat
  hop : HopE
  peers : List PeerE
deriving DecidableEq, Repr

structure PSeg where
  s0 : Nat
  ts : Nat
  entries : List ASE
deriving DecidableEq, Repr

/-- first two MAC bytes of the regular hop entries: the σ of `Scion.SegID` -/
def sigmas (s : PSeg) : List Nat := s.entries.map fun e => pfx e.hop.mac

/-- `createHopF`: the hop field with its MAC under the AS key and accumulator `β` -/
def mkHopE (mac : MacFn) (key : Bytes) (β ts exp ingress egress : Nat) : HopE :=
  ⟨ingress, egress, exp, mac key (macInput β ts exp ingress egress)⟩

/-- `DefaultExtender.Extend`: AS `a` appends its entry — hop entry under `extractBeta`, one peer
    entry per (known) peering interface under `β ⊕ MAC[:2]` of the hop entry just made -/
def extend (mac : MacFn) (net : Net) (s : PSeg) (a exp ingress egress : Nat) (peers : List Nat) :
    PSeg :=
  let β := Scion.SegID.extractBeta s.s0 (sigmas s)
  let h := mkHopE mac (net a).key β s.ts exp ingress egress
  let pβ := updateSegID β (pfx h.mac)
  let pes := peers.filterMap fun p =>
    match (net a).iface p with
    | some f => some ⟨mkHopE mac (net a).key pβ s.ts exp p egress, f.nbr, f.nbrIf⟩
    | none => none
  { s with entries := s.entries ++ [⟨a, h, pes⟩] }

/-- kind of beaconing: core beacons travel over core links, intra-ISD beacons over links to
    children -/
def beaconLink (coreSeg : Bool) : LinkType := if coreSeg then .core else .child

/-- the interfaces handed to the extender as `peers` are peering interfaces of the AS (the
    originator / propagator passes `intfs` of link type Peer) -/
def PeerIfs (net : Net) (a : Nat) (peers : List Nat) : Prop :=
  ∀ p ∈ peers, ∀ f, (net a).iface p = some f → f.lt = LinkType.peer

/-- `Beaconed coreSeg b a i`: beacon `b` has reached AS `a` on its interface `i`, having been
    originated and propagated by ASes of `net` with their own keys (any expiry values, any
    selection of peering interfaces, any propagation order) -/
inductive Beaconed (mac : MacFn) (net : Net) (coreSeg : Bool) : PSeg → Nat → Nat → Prop
  | originate (a s0 ts exp e : Nat) (peers : List Nat) (f : Iface) :
      (net a).iface e = some f → f.lt = beaconLink coreSeg → e ≠ 0 → PeerIfs net a peers →
      Beaconed mac net coreSeg (extend mac net ⟨s0, ts, []⟩ a exp 0 e peers) f.nbr f.nbrIf
  | propagate (b : PSeg) (a i exp e : Nat) (peers : List Nat) (f : Iface) :
      Beaconed mac net coreSeg b a i → (net a).iface e = some f → f.lt = beaconLink coreSeg →
      e ≠ 0 → PeerIfs net a peers →
      Beaconed mac net coreSeg (extend mac net b a exp i e peers) f.nbr f.nbrIf

/-- a registered segment: a beacon terminated (egress 0) by the AS it reached -/
inductive Registered (mac : MacFn) (net : Net) (coreSeg : Bool) : PSeg → Prop
  | terminate (b : PSeg) (a i exp : Nat) (peers : List Nat) :
      Beaconed mac net coreSeg b a i → PeerIfs net a peers →
      Registered mac net coreSeg (extend mac net b a exp i 0 peers)

/-! ### Path combination (`pathSolution.Path`) for a list of at most three edges -/

structure Edge where
  seg : PSeg
  core : Bool := false   -- core segment (always used against construction direction)
  down : Bool            -- used as down segment (construction direction); up and core: false
  shortcut : Nat         -- AS entry where the used part ends (up/core) or starts (down)
  peer : Option Nat      -- index of the peer entry used at the shortcut AS
deriving Repr

def hopOf (h : HopE) : Hop := ⟨h.cIn, h.cEg, h.exp, h.mac, false, false⟩

/-- hop fields of the used part in construction order -/
def edgeHops (e : Edge) : Option (List Hop) :=
  match e.seg.entries.drop e.shortcut with
  | [] => none
  | x :: rest =>
    match e.peer with
    | none => some (hopOf x.hop :: rest.map fun y => hopOf y.hop)
    | some k =>
      match x.peers[k]? with
      | some p => some (hopOf p.hop :: rest.map fun y => hopOf y.hop)
      | none => none

/-- one path segment: info field with `calculateBeta`, hop fields in forwarding order -/
def edgeSeg (e : Edge) : Option Seg :=
  match Scion.SegID.calculateBeta e.down e.shortcut e.peer.isSome e.seg.s0 (sigmas e.seg),
        edgeHops e with
  | some b, some hs =>
    some ⟨⟨e.down, e.peer.isSome, b, e.seg.ts⟩, if e.down then hs else hs.reverse⟩
  | _, _ => none

/-- cursor on the first hop of a list of path segments -/
def startCursor : List Seg → Option Cursor
  | ⟨i, h :: t⟩ :: rest => some ⟨[], i, [], h, t, rest⟩
  | _ => none

def segsOf : List Edge → Option (List Seg)
  | [] => some []
  | e :: es =>
    match edgeSeg e, segsOf es with
    | some s, some r => some (s :: r)
    | _, _ => none

def pathOf (edges : List Edge) : Option Cursor :=
  match segsOf edges with
  | some segs => startCursor segs
  | none => none

/-- the inter-AS interfaces in the path metadata, as (AS, interface) in forwarding order -/
def edgeIfaces (e : Edge) : List (Nat × Nat) :=
  match e.seg.entries.drop e.shortcut with
  | [] => []
  | x :: rest =>
    let cons : List (Nat × Nat) :=
      (match e.peer with
       | none => if x.hop.cEg ≠ 0 then [(x.ia, x.hop.cEg)] else []
       | some k => match x.peers[k]? with
         | some p => [(x.ia, p.hop.cIn)] ++ (if x.hop.cEg ≠ 0 then [(x.ia, x.hop.cEg)] else [])
         | none => []) ++
      (rest.map fun y =>
        [(y.ia, y.hop.cIn)] ++ (if y.hop.cEg ≠ 0 then [(y.ia, y.hop.cEg)] else [])).flatten
    if e.down then cons else cons.reverse

def pathIfaces (edges : List Edge) : List (Nat × Nat) := (edges.map edgeIfaces).flatten

/-! ### End-to-end run -/

inductive Result
  | delivered (as : Nat) (trace : List (Nat × Nat)) (c : Cursor)
  | stopped (as router : Nat) (arr : Arrival) (o : Out) (trace : List (Nat × Nat))
  | lost (trace : List (Nat × Nat))       -- forwarded onto an interface that leads nowhere
  | outOfFuel
deriving Repr

/-- push the packet from border router to border router: over the sibling link when the egress
    interface belongs to another router of the same AS, over the inter-AS link otherwise -/
def run (mac : MacFn) (net : Net) (nowMs src dst : Nat) :
    Nat → Nat → Nat → Arrival → Cursor → List (Nat × Nat) → Result
  | 0, _, _, _, _, _ => .outOfFuel
  | fuel + 1, a, r, arr, c, trace =>
    match routerStep mac ⟨(net a).key, r, (net a).ifaces⟩ nowMs arr (a == src) (a == dst) c with
    | .deliver c' => .delivered a trace c'
    | .forward e c' =>
      match (net a).iface e with
      | none => .lost trace
      | some f =>
        if f.owner == r then
          match (net f.nbr).iface f.nbrIf with
          | some g =>
            run mac net nowMs src dst fuel f.nbr g.owner (.ext f.nbrIf) c'
              (trace ++ [(a, e), (f.nbr, f.nbrIf)])
          | none => .lost trace
        else run mac net nowMs src dst fuel a f.owner (.sibling r) c' trace
    | o => .stopped a r arr o trace

/-- the border router a host of AS `a` hands a packet to: the owner of the first egress interface -/
def entryRouter (net : Net) (a : Nat) (c : Cursor) : Nat :=
  match (net a).iface (if c.info.consDir then c.cur.cEg else c.cur.cIn) with
  | some f => f.owner
  | none => 0

def fuelFor (c : Cursor) : Nat := 2 * ((toFlat c).hops.length) + 2

/-- send a packet with path `c` from a host in AS `src` to AS `dst` -/
def send (mac : MacFn) (net : Net) (nowMs src dst : Nat) (c : Cursor) : Result :=
  run mac net nowMs src dst (fuelFor c) src (entryRouter net src c) .host c []

/-! ## Part 3: the hypotheses of the end-to-end statements -/

def opposite : LinkType → LinkType → Bool
  | .core, .core | .parent, .child | .child, .parent | .peer, .peer => true
  | _, _ => false

/-- links are symmetric, both ends agree on the kind of link, no interface has id 0 -/
def WFNet (net : Net) : Prop :=
  ∀ a e f, (net a).iface e = some f →
    e ≠ 0 ∧ f.id = e ∧
    ∃ g, (net f.nbr).iface f.nbrIf = some g ∧ g.nbr = a ∧ g.nbrIf = e ∧ opposite f.lt g.lt = true

def AllUp (net : Net) : Prop := ∀ a e f, (net a).iface e = some f → f.up = true

/-- one border router per AS (the staged theorems below are proved for such networks; the general
    case, sibling hand-over included, is covered by the tie to the real routers only) -/
def SingleRouter (net : Net) : Prop := ∀ a e f, (net a).iface e = some f → f.owner = 0

def Edge.used (e : Edge) : List ASE := e.seg.entries.drop e.shortcut

/-- ASes visited by the used part of the segment, forwarding order -/
def Edge.ases (e : Edge) : List Nat :=
  if e.down then e.used.map (·.ia) else (e.used.map (·.ia)).reverse

def Edge.kind (e : Edge) : Nat := if e.core then 1 else if e.down then 2 else 0

/-- an edge as the combinator may use it (or its mirror image, which is what a reversed path
    consists of): a registered segment of the right kind; core segments whole; at least two ASes
    unless the single AS is the peering AS -/
def Edge.Valid (mac : MacFn) (net : Net) (e : Edge) : Prop :=
  Registered mac net e.core e.seg ∧ e.shortcut < e.seg.entries.length ∧
  (e.core = true → e.shortcut = 0 ∧ e.peer = none) ∧
  (e.peer = none → e.shortcut + 1 < e.seg.entries.length) ∧
  (∀ k, e.peer = some k → ∃ x p, e.seg.entries[e.shortcut]? = some x ∧ x.peers[k]? = some p)

/-- two consecutive edges fit together: at a common AS, or over a peering link that both ASes
    announced -/
def Joint (e1 e2 : Edge) : Prop :=
  match e1.peer, e2.peer with
  | none, none => e1.ases.getLast? = e2.ases.head? ∧ e1.kind < e2.kind
  | some k1, some k2 =>
    e1.kind = 0 ∧ e2.kind = 2 ∧
    ∃ x1 x2 p1 p2, e1.seg.entries[e1.shortcut]? = some x1 ∧ e2.seg.entries[e2.shortcut]? = some x2 ∧
      x1.peers[k1]? = some p1 ∧ x2.peers[k2]? = some p2 ∧
      p1.peerAS = x2.ia ∧ p2.peerAS = x1.ia ∧ p1.peerIf = p2.hop.cIn ∧ p2.peerIf = p1.hop.cIn
  | _, _ => False

def Joints : List Edge → Prop
  | e1 :: e2 :: rest => Joint e1 e2 ∧ Joints (e2 :: rest)
  | _ => True

/-- ASes on the whole path, the AS of a (non-peering) segment change counted once -/
def pathASes : List Edge → List Nat
  | [] => []
  | [e] => e.ases
  | e1 :: e2 :: rest =>
    (if e1.peer.isSome then e1.ases else e1.ases.dropLast) ++ pathASes (e2 :: rest)

/-- what the combinator's graph search guarantees about the edge lists it turns into paths
    (tied by engine `net`, not proved: C28/C29 treat the search) -/
def Joinable (mac : MacFn) (net : Net) (edges : List Edge) (src dst : Nat) : Prop :=
  edges ≠ [] ∧ edges.length ≤ 3 ∧ (∀ e ∈ edges, e.Valid mac net) ∧ Joints edges ∧
  (∀ e ∈ edges, e.peer.isSome → edges.length = 2) ∧
  (pathASes edges).head? = some src ∧ (pathASes edges).getLast? = some dst ∧
  (pathASes edges).Nodup

/-- no hop field of the path has expired -/
def Unexpired (nowMs : Nat) (c : Cursor) : Prop :=
  ∀ s ∈ c.segs, ∀ h ∈ s.hops, expired nowMs s.info.ts h.exp = false

/-! ### What a stopped packet is answered with, and where the answer goes (C10) -/

/-- what a router that stopped a packet sends back, and where: the reply path and the link it
    leaves on (the link the packet came in on) -/
def replyOf (o : Out) (arr : Arrival) : Option Cursor :=
  match o with
  | .slow _ _ _ c => scmpPrepare c (arr.ifid != 0)
  | .alert _ _ c => scmpPrepare c (arr.ifid != 0)
  | _ => none

/-- continue a run with the reply of the router that stopped the packet -/
def followReply (mac : MacFn) (net : Net) (now src : Nat) (a r : Nat) (arr : Arrival) (rc : Cursor) :
    Result :=
  match arr with
  | .host => .delivered a [] rc
  | .sibling k => run mac net now a src (fuelFor rc) a k (.sibling r) rc []
  | .ext i =>
    match (net a).iface i with
    | some f =>
      match (net f.nbr).iface f.nbrIf with
      | some g => run mac net now a src (fuelFor rc) f.nbr g.owner (.ext f.nbrIf) rc [(a, i), (f.nbr, f.nbrIf)]
      | none => .lost []
    | none => .lost []

end Scion.Net
