import Scion.Model.PathMeta
import Scion.Model.Ohp
/-! Model of `scionPacketProcessor.processEPIC` (router/dataplane.go) with `libepic.VerifyTimestamp`,
    `VerifyHVF`, `CalcMac`, `prepareMacInput` (pkg/experimental/epic/epic.go) and the pieces of the
    SCION path processing that decide WHICH hop field's full MAC authenticates the packet
    (`scion.Raw.DecodeFromBytes`, `determinePeer`, `updateNonConsDirIngressSegID`, `IsXover`, `doXover`,
    `verifyCurrentMAC`'s `cachedMac`).  Core Lean only.

    Parameters (not modelled):
    * `inner : Inner` — the disposition of `process()` on the embedded SCION path (the generic SCION
      processing is property C01…C07's model; the engine obtains it by running the same packet with
      path type SCION through the real router);
    * `mac : Bytes → Bytes` — AES-CMAC under the router's key; `prf : Bytes → Bytes → Bytes` — last block
      of AES-CBC (zero IV) under the given 16-byte key; `now` — the router's clock in ns.
    Modelled: everything `processEPIC` adds to `process()`. -/
namespace Scion.Epic
open Scion.Util Scion.Ohp

abbrev Prf := Bytes → Bytes → Bytes

/-- `libepic.MaxClockSkew`, `MaxPacketLifetime`, `TimestampResolution` in ns (tied to the source by
    `Scion.Gen.Epic`, see Props/C13) -/
def maxClockSkew : Nat := 1000000000
def maxPacketLifetime : Nat := 2000000000
def timestampResolution : Nat := 21000

structure Pkt where
  /-- `pkt.Link.IfID()` -/
  ingress : Nat
  srcIA : Nat
  dstIA : Nat
  /-- `SrcAddrType & 0x3` (the length bits) -/
  srcLenBits : Nat
  /-- `RawSrcAddr` -/
  srcAddr : Bytes
  /-- `PayloadLen` of the common header -/
  payloadLen : Nat
  /-- `PktID.Timestamp`, `PktID.Counter` -/
  pktTs : Nat
  pktCtr : Nat
  phvf : Bytes
  lhvf : Bytes
  /-- the embedded SCION path (meta, info fields, hop fields) as received -/
  scionPath : Bytes

/-- `scion.Raw.DecodeFromBytes`: `Base.DecodeFromBytes` and the length check -/
def parseBase (raw : Bytes) : Option PathMeta.Base :=
  if raw.length < 4 then none
  else
    match PathMeta.baseDecode (PathMeta.decode (beAt raw 0 4)) with
    | none => none
    | some b => if raw.length < 4 + 8 * b.numINF + 12 * b.numHops then none else some b

/-- `Raw.GetInfoField` -/
def infoAt (raw : Bytes) (b : PathMeta.Base) (i : Nat) : Option Info :=
  if i ≥ b.numINF then none else some (decodeInfo (raw.drop (4 + 8 * i)))

/-- `Raw.GetHopField` -/
def hopAt (raw : Bytes) (b : PathMeta.Base) (i : Nat) : Option Hop :=
  if i ≥ b.numHops then none else some (decodeHop (raw.drop (4 + 8 * b.numINF + 12 * i)))

/-- `determinePeer`; `none` = the error cases -/
def determinePeer (m : PathMeta.Hdr) (inf : Info) : Option Bool :=
  if inf.peer = false then some false
  else if m.s0 = 0 then none
  else if m.s1 = 0 then none
  else if m.s2 ≠ 0 then none
  else some (decide (m.currHF + 1 = m.s0) || decide (m.currHF = m.s0))

/-- what `process()` establishes about the hop it validated last, given that it ended in `pForward` -/
structure Validated where
  /-- index of the hop field validated last in this AS -/
  idx : Nat
  numHops : Nat
  /-- `cachedMac`: the full 16-byte MAC of that hop as verified -/
  auth : Bytes
  /-- timestamp of the first info field -/
  ts0 : Nat

/-- The hop whose MAC `verifyCurrentMAC` cached last. Without cross-over: the current hop, verified with
    the SegID after `updateNonConsDirIngressSegID`. With an effective cross-over (`IsXover ∧ ¬peering`,
    only for packets not destined to the local AS): the first hop of the next segment with its own
    info field as carried. `none`: a path `process()` cannot have forwarded. -/
def validated (localIA : Nat) (mac : Mac) (p : Pkt) : Option Validated :=
  match parseBase p.scionPath with
  | none => none
  | some b =>
    match infoAt p.scionPath b b.pm.currINF, hopAt p.scionPath b b.pm.currHF, infoAt p.scionPath b 0 with
    | some inf, some hop, some inf0 =>
      match determinePeer b.pm inf with
      | none => none
      | some peering =>
        if p.dstIA ≠ localIA ∧ PathMeta.isXover b = true ∧ peering = false then
          -- doXover: IncPath, then the new current hop / info field
          match infoAt p.scionPath b (PathMeta.infIdx b.pm (b.pm.currHF + 1)), hopAt p.scionPath b (b.pm.currHF + 1) with
          | some inf', some hop' =>
            some { idx := b.pm.currHF + 1, numHops := b.numHops, ts0 := inf0.ts,
                   auth := mac (macInput inf'.segID inf'.ts hop'.exp hop'.consIngress hop'.consEgress) }
          | _, _ => none
        else
          let inf1 := if inf.consDir = false ∧ p.ingress ≠ 0 ∧ peering = false then updateSegID inf hop.mac else inf
          some { idx := b.pm.currHF, numHops := b.numHops, ts0 := inf0.ts,
                 auth := mac (macInput inf1.segID inf1.ts hop.exp hop.consIngress hop.consEgress) }
    | _, _, _ => none

/-- `prepareMacInput`: flags | timestamp | packet id | srcIA | srcAddr | payloadLen | zero padding to a
    multiple of 16 -/
def macInputEpic (p : Pkt) (ts0 : Nat) : Bytes :=
  let body := [UInt8.ofNat (p.srcLenBits % 4)] ++ natBE 4 ts0 ++ natBE 4 p.pktTs ++ natBE 4 p.pktCtr ++
    natBE 8 p.srcIA ++ p.srcAddr ++ natBE 2 p.payloadLen
  body ++ List.replicate ((16 - body.length % 16) % 16) 0

/-- `CalcMac`: first four bytes of the last CBC block -/
def calcMac (prf : Prf) (auth : Bytes) (p : Pkt) (ts0 : Nat) : Bytes := (prf auth (macInputEpic p ts0)).take 4

/-- sender time in ns: `timestamp.Add((epicTS+1) * 21µs)` -/
def tsSender (ts0 pktTs : Nat) : Nat := ts0 * 1000000000 + (pktTs + 1) * timestampResolution

/-- `VerifyTimestamp` = nil -/
def fresh (ts0 pktTs now : Nat) : Bool :=
  !(decide (tsSender ts0 pktTs > now + maxClockSkew)) &&
  !(decide (now > tsSender ts0 pktTs + maxPacketLifetime + maxClockSkew))

def isPenultimate (v : Validated) : Bool := v.idx + 2 == v.numHops
def isLast (v : Validated) : Bool := v.idx + 1 == v.numHops

/-- the EPIC checks of `processEPIC` after `process()` returned `pForward` -/
def epicChecks (prf : Prf) (now : Nat) (p : Pkt) (v : Validated) : Bool :=
  if isPenultimate v || isLast v then
    if fresh v.ts0 p.pktTs now = false then false
    else
      let hvf := if isLast v then p.lhvf else p.phvf
      decide (hvf = calcMac prf v.auth p v.ts0)
  else true

/-- disposition of the embedded SCION processing -/
inductive Inner where
  | fwd
  | other           -- discard, slow path (SCMP / router alert)
deriving DecidableEq, Repr

inductive Res where
  /-- the packet is treated exactly as `process()` decided -/
  | asInner
  /-- discarded by the EPIC checks -/
  | drop
deriving DecidableEq, Repr

/-- `processEPIC` -/
def process (localIA : Nat) (mac : Mac) (prf : Prf) (now : Nat) (inner : Inner) (p : Pkt) : Res :=
  match inner with
  | .other => .asInner
  | .fwd =>
    match validated localIA mac p with
    | none => .drop
    | some v => if epicChecks prf now p v then .asInner else .drop

end Scion.Epic
