import Scion.Util.Hex
/-!
Model of local delivery in the destination AS (property C11):

* `router/dataplane.go`: `resolveLocalDst`, `dstScionPort`, `getDstPortSCMP`, `SetPortRange`,
  `AddInternalInterface` (as far as the dispatch range is concerned);
* `router/connector.go`: `Connector.SetPortRange` (router-configuration override);
* `router/underlayproviders/udpip/udpip.go`: `provider.SetDispatchPorts`, `NewInternalLink`
  (snapshot of the provider's range), `internalLink.Resolve`, `AddSvc`/`DelSvc`;
* `router/svc.go`: `Services.AddSvc/DelSvc/Any`;
* `private/topology/topology.go`: `validatePortRange`.

The layer-4 header is modelled on bytes (`lastLayer.LayerPayload()`), the offending packet quoted
by an SCMP error is modelled by what gopacket decodes from it (`Quote`).  Core Lean only.
-/
namespace Scion.Resolve
open Scion.Util

/-- `topology.EndhostPort` (tied to the source by `Scion.Gen.Rcfg`, see `Props/C11.lean`). -/
def endhostPort : Nat := 30041

def l4UDP : Nat := 17
def l4TCP : Nat := 6
def l4SCMP : Nat := 202

/-- outcome classes of `resolveLocalDst` other than success -/
inductive Err
  | noLink     -- no internal link (the Go code would dereference nil; never reached after config)
  | dstAddr    -- `errInvalidDstAddr`
  | noSvc      -- `ErrNoSVCBackend`
  | v4mapped   -- `ErrUnsupportedV4MappedV6Address`
  | unspec     -- `ErrUnsupportedUnspecifiedAddress`
  | port       -- any error of `dstScionPort` / `getDstPortSCMP`: the packet is dropped
deriving DecidableEq, Repr

def Err.str : Err → String
  | .noLink => "e:nolink" | .dstAddr => "e:dstaddr" | .noSvc => "e:nosvc"
  | .v4mapped => "e:v4mapped" | .unspec => "e:unspec" | .port => "e:port"

/-- `binary.BigEndian.Uint16(bs[off:])`; `none` = the Go code would index out of range -/
def u16At (bs : Bytes) (off : Nat) : Option Nat :=
  match bs.drop off with
  | a :: b :: _ => some (a.toNat * 256 + b.toNat)
  | _ => none

/-- big-endian encoding of a 16-bit field (`binary.BigEndian.PutUint16`) -/
def be16 (v : Nat) : Bytes := [UInt8.ofNat (v / 256), UInt8.ofNat (v % 256)]

/-- What `gopacket.NewPacket(quote, LayerTypeSCION)` yields for the offending packet quoted by an
SCMP error, as far as `getDstPortSCMP` looks at it. -/
inductive Quote
  /-- the quoted SCION header decodes and at least the 8-byte UDP header behind it is there (the
  UDP payload may be cut anywhere, as routers quote only up to the SCMP size limit); its source port -/
  | udp (src : Nat)
  /-- an SCMP layer decodes with this type; `id` is the identifier of the echo / traceroute
  layer behind it if that layer decodes too -/
  | scmp (typ : Nat) (id : Option Nat)
  /-- neither (TCP, undecodable SCION header, truncated layer-4 header, …) -/
  | other
deriving DecidableEq, Repr

/-- tail of `getDstPortSCMP`: the port named by the quoted packet -/
def quotePort : Quote → Except Err Nat
  | .udp src => if src = 0 then .error .port else .ok src
  | .scmp typ id =>
    if typ ≤ 127 then .error .port                       -- error in response to an error
    else if typ ≠ 128 ∧ typ ≠ 130 then .error .port      -- only echo / traceroute requests
    else match id with
      | some i => .ok i
      | none => .error .port                             -- truncated
  | .other => .error .port

/-- length of the type-specific header of the SCMP error messages `SCMP.NextLayerType` knows -/
def scmpErrHdrLen : Nat → Option Nat
  | 1 => some 4    -- destination unreachable
  | 2 => some 4    -- packet too big
  | 4 => some 4    -- parameter problem
  | 5 => some 16   -- external interface down
  | 6 => some 24   -- internal connectivity down
  | _ => none

/-- `SCMP.DecodeFromBytes` followed by `getDstPortSCMP`; `pld` are the layer-4 bytes. -/
def scmpPort (pld : Bytes) (q : Quote) : Except Err Nat :=
  match pld with
  | t :: _ :: _ :: _ :: body =>
    let typ := t.toNat
    if typ = 128 ∨ typ = 130 then .ok endhostPort
    else if typ = 129 then
      if body.length < 4 then .error .port
      else match u16At body 0 with
        | some p => .ok p
        | none => .error .port
    else if typ = 131 then
      if body.length < 20 then .error .port
      else match u16At body 0 with
        | some p => .ok p
        | none => .error .port
    else match scmpErrHdrLen typ with
      | none => .error .port                     -- unknown type: next layer is plain payload
      | some h =>
        if body.length < h then .error .port     -- message header does not decode
        else if body.length = h then .error .port  -- nothing quoted
        else quotePort q
  | _ => .error .port                            -- SCMP header shorter than 4 bytes

/-- `dataPlane.dstScionPort`: `proto` = `nextHdr(lastLayer)`, `pld` = `lastLayer.LayerPayload()`. -/
def dstScionPort (proto : Nat) (pld : Bytes) (q : Quote) : Except Err Nat :=
  if proto = l4UDP then
    if pld.length < 8 then .error .port
    else match u16At pld 2 with
      | some p => .ok p
      | none => .error .port
  else if proto = l4TCP then
    if pld.length < 20 then .error .port
    else match u16At pld 2 with
      | some p => .ok p
      | none => .error .port
  else if proto = l4SCMP then scmpPort pld q
  else .ok endhostPort

/-! ### destination addresses -/

/-- the SCION destination host as `slayers.SCION.DstAddr()` classifies it -/
inductive Dst
  | ip (bs : Bytes)    -- `T4Ip` (4 bytes) or `T16Ip` (16 bytes)
  | svc (v : Nat)      -- `T4Svc`, 16-bit service number
  | bad                -- any other type/length combination: `DstAddr()` fails
deriving DecidableEq, Repr

def allZero (bs : Bytes) : Bool := bs.all (· == 0)

/-- `netip.Addr.Is4In6`: `::ffff:a.b.c.d` -/
def is4In6 (bs : Bytes) : Bool :=
  bs.length == 16 && allZero (bs.take 10) && (bs.drop 10).take 2 == [0xff, 0xff]

/-- underlay address: IP bytes and UDP port -/
abbrev UAddr := Bytes × Nat

/-- dispatch range as held by provider and internal link -/
structure Range where
  start : Nat
  stop : Nat
  redirect : Nat
deriving DecidableEq, Repr

/-- the redirect step of `internalLink.Resolve` -/
def Range.apply (r : Range) (p : Nat) : Nat :=
  if p < r.start ∨ p > r.stop then r.redirect else p

/-- one registered service instance: (service number as registered, IP bytes, port) -/
abbrev SvcEntry := Nat × Bytes × Nat

/-- `SVC.Base()`: strip the multicast flag (bit 15) -/
def svcBase (v : Nat) : Nat := v % 32768

def instances (svcs : List SvcEntry) (key : Nat) : List UAddr :=
  (svcs.filter (fun e => e.1 == key)).map (fun e => e.2)

/-- `internalLink.Resolve`.  `Services.Any` picks any registered instance: the model returns all
the candidates. -/
def linkResolve (svcs : List SvcEntry) (r : Range) (dst : Dst) (port : Nat) :
    Except Err (List UAddr) :=
  match dst with
  | .svc v =>
    match instances svcs (svcBase v) with
    | [] => .error .noSvc
    | i :: is => .ok ((i :: is).map (fun a => (a.1, r.apply a.2)))
  | .ip bs =>
    if is4In6 bs then .error .v4mapped
    else if allZero bs then .error .unspec
    else .ok [(bs, r.apply port)]
  | .bad => .error .dstAddr

/-! ### configuration state machine -/

/-- The part of the router state the dispatch range and SVC resolution live in. -/
structure Cfg where
  ovStart : Option Nat      -- `Connector.DispatchedPortStart` (router configuration override)
  ovStop : Option Nat       -- `Connector.DispatchedPortEnd`
  dpStart : Nat             -- `dataPlane.dispatchedPortStart`
  dpStop : Nat              -- `dataPlane.dispatchedPortEnd`
  prov : Range              -- the udpip provider's `dispatchStart/End/Redirect`
  link : Option Range       -- the internal link's copy (none: no internal link yet)
  svcs : List SvcEntry
deriving DecidableEq, Repr

def Cfg.init (ovStart ovStop : Option Nat) : Cfg :=
  { ovStart, ovStop, dpStart := 0, dpStop := 0, prov := ⟨0, 0, 0⟩, link := none, svcs := [] }

/-- configuration calls of `control.Dataplane` as issued by `ConfigDataplane` (in any order) -/
inductive Call
  | setPortRange (s e : Nat)
  | addInternal
  | addExternal        -- `AddExternalInterface(..., owned = true)`
  | addSibling         -- `AddExternalInterface(..., owned = false)` → `AddNextHop`
  | setKey
  | addSvc (svc : Nat) (ip : Bytes) (port : Nat)
  | delSvc (svc : Nat) (ip : Bytes) (port : Nat)
deriving DecidableEq, Repr

def override (o : Option Nat) (v : Nat) : Nat :=
  match o with
  | some x => x % 65536     -- `uint16(*c.DispatchedPortStart)`
  | none => v

/-- `AddrPortFrom(host.IP(), port).IsValid()` -/
def validSvcAddr (ip : Bytes) : Bool := ip.length == 4 || ip.length == 16

def step (c : Cfg) : Call → Cfg
  | .setPortRange s e =>
    -- Connector.SetPortRange → dataPlane.SetPortRange → provider.SetDispatchPorts
    let r : Range := ⟨override c.ovStart s, override c.ovStop e, endhostPort⟩
    { c with dpStart := r.start, dpStop := r.stop, prov := r,
             link := match c.link with
               | some _ => some r      -- live update of the existing internal link
               | none => none }
  | .addInternal =>
    match c.link with
    | some _ => c                       -- errAlreadySet
    | none => { c with link := some c.prov }   -- NewInternalLink copies the provider's range
  | .addExternal => c
  | .addSibling => c
  | .setKey => c
  | .addSvc svc ip port =>
    if validSvcAddr ip then
      if c.svcs.contains (svc, ip, port) then c else { c with svcs := c.svcs ++ [(svc, ip, port)] }
    else c
  | .delSvc svc ip port =>
    if validSvcAddr ip then { c with svcs := c.svcs.erase (svc, ip, port) } else c

def run (c : Cfg) (cs : List Call) : Cfg := cs.foldl step c

/-! specification helpers for statements about call sequences -/

def Call.isSetPortRange : Call → Bool
  | .setPortRange _ _ => true
  | _ => false

/-- the arguments of the last `SetPortRange` of a call list, if any -/
def lastSet : List Call → Option (Nat × Nat)
  | [] => none
  | c :: cs =>
    match lastSet cs with
    | some x => some x
    | none =>
      match c with
      | .setPortRange s e => some (s, e)
      | _ => none

/-- the range a `SetPortRange(s, e)` call asks for, after the router-configuration override -/
def wanted (ovStart ovStop : Option Nat) (s e : Nat) : Range :=
  ⟨override ovStart s, override ovStop e, endhostPort⟩

/-- `dataPlane.resolveLocalDst` on the configured router -/
def resolveLocalDst (c : Cfg) (dst : Dst) (proto : Nat) (pld : Bytes) (q : Quote) :
    Except Err (List UAddr) :=
  match c.link with
  | none => .error .noLink
  | some r =>
    match dst with
    | .bad => .error .dstAddr
    | .ip bs =>
      match dstScionPort proto pld q with
      | .error e => .error e
      | .ok p => linkResolve c.svcs r (.ip bs) p
    | .svc v => linkResolve c.svcs r (.svc v) 0

/-! ### `validatePortRange` (on characters) -/

def isDigit (c : Char) : Bool := '0' ≤ c && c ≤ '9'

def digitVal (c : Char) : Nat := c.toNat - 48

/-- value of a digit string (most significant first) -/
def decVal (cs : List Char) : Nat := cs.foldl (fun acc c => acc * 10 + digitVal c) 0

/-- `strconv.ParseUint(s, 10, 16)` -/
def parseU16 (cs : List Char) : Option Nat :=
  if cs.isEmpty then none
  else if cs.all isDigit then
    let v := decVal cs
    if v < 65536 then some v else none
  else none

/-- `strings.Split(s, "-")` -/
def splitDash : List Char → List (List Char)
  | [] => [[]]
  | c :: cs =>
    if c = '-' then [] :: splitDash cs
    else match splitDash cs with
      | [] => [[c]]             -- unreachable: `splitDash` never returns `[]`
      | p :: ps => (c :: p) :: ps

/-- `topology.validatePortRange`; `none` = error -/
def validatePortRange (s : List Char) : Option (Nat × Nat) :=
  if s = [] ∨ s = ['-'] then some (0, 0)
  else if s = ['a', 'l', 'l'] ∨ s = ['A', 'L', 'L'] then some (1, 65535)
  else match splitDash s with
    | [a, b] =>
      match parseU16 a, parseU16 b with
      | some x, some y =>
        if x < 1 then none
        else if y < 1 then none
        else if x > y then none
        else some (x, y)
      | _, _ => none
    | _ => none

/-! ### canonical presentation of an answer (sorted, duplicate-free) -/

def bytesLt : Bytes → Bytes → Bool
  | [], [] => false
  | [], _ :: _ => true
  | _ :: _, [] => false
  | a :: as, b :: bs => a < b || (a == b && bytesLt as bs)

def uaddrLt (a b : UAddr) : Bool :=
  a.1.length < b.1.length ||
  (a.1.length == b.1.length && (bytesLt a.1 b.1 || (a.1 == b.1 && a.2 < b.2)))

def insertSorted (a : UAddr) : List UAddr → List UAddr
  | [] => [a]
  | b :: bs =>
    if a == b then b :: bs
    else if uaddrLt a b then a :: b :: bs
    else b :: insertSorted a bs

def canon (as : List UAddr) : List UAddr := as.foldr insertSorted []

end Scion.Resolve
