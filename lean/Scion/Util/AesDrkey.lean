import Scion.Util.Hex
/-! Executable AES-128 block encryption and AES-CBC-MAC (zero IV, whole blocks), core Lean only.

Used only on the *executable* side of the DRKey correspondence (engine `drkey`, property C39):
every theorem of C39 quantifies over the pseudo-random function `prf`; the driver instantiates
it with `cbcMac` below so that the real key bytes produced by `/repo/pkg/drkey.DeriveKey`
(AES-CBC with a zero IV, last cipher block) are compared and thereby the derivation *inputs*
are checked byte for byte.  No theorem depends on this file.  Validated against FIPS-197 C.1 at
build time (`#guard` below) and against Go's `crypto/aes` on random blocks on every run (op `aes`
of engine `drkey`). -/
namespace Scion.Util.AesDrkey
open Scion.Util

def xtime (b : UInt8) : UInt8 := (b <<< 1) ^^^ (if b &&& 0x80 != 0 then 0x1b else 0)

def gmul (a b : UInt8) : UInt8 := Id.run do
  let mut p : UInt8 := 0
  let mut a := a
  let mut b := b
  for _ in [0:8] do
    if b &&& 1 != 0 then p := p ^^^ a
    a := xtime a
    b := b >>> 1
  return p

/-- multiplicative inverse in GF(2^8) by search (only used to build the S-box table once) -/
def inv (a : UInt8) : UInt8 := Id.run do
  if a == 0 then return 0
  for x in [1:256] do
    if gmul a x.toUInt8 == 1 then return x.toUInt8
  return 0

def rotl8 (x : UInt8) (n : UInt8) : UInt8 := (x <<< n) ||| (x >>> (8 - n))

def sboxByte (a : UInt8) : UInt8 :=
  let b := inv a
  b ^^^ rotl8 b 1 ^^^ rotl8 b 2 ^^^ rotl8 b 3 ^^^ rotl8 b 4 ^^^ 0x63

def sbox : Array UInt8 := (Array.range 256).map fun i => sboxByte i.toUInt8

@[inline] def S (b : UInt8) : UInt8 := sbox.getD b.toNat 0

abbrev Block := Array UInt8   -- 16 bytes, column-major as in FIPS-197

@[inline] def at' (a : Block) (i : Nat) : UInt8 := a.getD i 0

def xorB (a b : Block) : Block := (Array.range 16).map fun i => at' a i ^^^ at' b i

def keyExpand (key : Block) : Array Block := Id.run do
  let mut w : Array (Array UInt8) := #[]   -- words of 4 bytes
  for i in [0:4] do
    w := w.push #[at' key (4*i), at' key (4*i+1), at' key (4*i+2), at' key (4*i+3)]
  let mut rc : UInt8 := 1
  for i in [4:44] do
    let mut t := w.getD (i-1) #[]
    if i % 4 == 0 then
      t := #[S (at' t 1) ^^^ rc, S (at' t 2), S (at' t 3), S (at' t 0)]
      rc := xtime rc
    let p := w.getD (i-4) #[]
    w := w.push #[at' p 0 ^^^ at' t 0, at' p 1 ^^^ at' t 1, at' p 2 ^^^ at' t 2, at' p 3 ^^^ at' t 3]
  let mut rks : Array Block := #[]
  for r in [0:11] do
    rks := rks.push (w.getD (4*r) #[] ++ w.getD (4*r+1) #[] ++ w.getD (4*r+2) #[] ++ w.getD (4*r+3) #[])
  return rks

def subShift (s : Block) : Block :=
  (Array.range 16).map fun i =>
    let c := i / 4; let r := i % 4
    S (at' s (4 * ((c + r) % 4) + r))

def mixCol (s : Block) : Block :=
  (Array.range 16).map fun i =>
    let c := i / 4; let r := i % 4
    let a := fun k => at' s (4*c + (r + k) % 4)
    gmul 2 (a 0) ^^^ gmul 3 (a 1) ^^^ a 2 ^^^ a 3

def encrypt (rks : Array Block) (pt : Block) : Block := Id.run do
  let mut s := xorB pt (rks.getD 0 #[])
  for r in [1:10] do
    s := xorB (mixCol (subShift s)) (rks.getD r #[])
  return xorB (subShift s) (rks.getD 10 #[])

/-- AES-128 encryption of one block (missing bytes read as 0). -/
def encryptBlock (key pt : Bytes) : Bytes :=
  (encrypt (keyExpand key.toArray) pt.toArray).toList

/-- CBC-MAC chaining over the whole 16-byte blocks of `msg` (a trailing partial block is
    ignored — the caller, `Scion.Drkey`, only ever passes whole blocks and guards that). -/
def cbcLoop (rks : Array Block) : Nat → Block → Bytes → Block
  | 0, x, _ => x
  | n+1, x, msg => cbcLoop rks n (encrypt rks (xorB x (msg.take 16).toArray)) (msg.drop 16)

/-- `pkg/drkey.DeriveKey`: AES-128-CBC with zero IV over `msg`, result = last cipher block. -/
def cbcMac (key msg : Bytes) : Bytes :=
  (cbcLoop (keyExpand key.toArray) (msg.length / 16) (Array.replicate 16 0) msg).toList

end Scion.Util.AesDrkey

namespace Scion.Util.AesDrkey
-- FIPS-197 Appendix C.1
#guard hexOf (encryptBlock ((unhex "000102030405060708090a0b0c0d0e0f").getD [])
  ((unhex "00112233445566778899aabbccddeeff").getD [])) == "69c4e0d86a7b0430d8cdb78070b4c55a"
end Scion.Util.AesDrkey
