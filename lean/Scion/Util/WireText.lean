import Scion.Model.Wire
/-! Text form of SCION header values shared by the model drivers (`wire`, `spao`, `dispatcher`):
printing and parsing of the positional value dump.  Core only. -/
namespace Scion.WireText
open Scion.Wire Scion.Util Scion

def b2s (b : Bool) : String := if b then "1" else "0"

def infoStr (i : Info) : String := s!"{b2s i.peer}.{b2s i.consDir}.{i.segID}.{i.ts}"
def hopStr (h : Hop) : String :=
  s!"{b2s h.inAlert}.{b2s h.egAlert}.{h.expTime}.{h.consIn}.{h.consEg}.{hexOf h.mac}"

def pathStr : PathV → String
  | .empty => "empty"
  | .scion m body => s!"scion {PathMeta.encode m} {hexOf body}"
  | .onehop i h1 h2 => s!"onehop {infoStr i} {hopStr h1} {hopStr h2}"
  | .epic ts ctr p l m body => s!"epic {ts} {ctr} {hexOf p} {hexOf l} {PathMeta.encode m} {hexOf body}"

def hdrStr (h : Hdr) : String :=
  let c := h.cmn
  s!"{c.version} {c.tc} {c.flowID} {c.nextHdr} {c.hdrLen} {c.payloadLen} {c.pathType} " ++
  s!"{c.dstType} {c.srcType} {h.dstIA} {h.srcIA} {hexOf h.rawDst} {hexOf h.rawSrc} {pathStr h.path}"

def errStr (e : Err) : String :=
  match e with
  | .panic => "PANIC-MODEL"
  | e => s!"err {if e.truncated then 1 else 0}"

/-! parsing of the positional value dump (for `ser`) -/

def splitDots (s : String) : List String := s.splitOn "."

def parseBool : String → Option Bool
  | "1" => some true | "0" => some false | _ => none

def parseInfo (s : String) : Option Info :=
  match splitDots s with
  | [p, c, sid, ts] =>
    match parseBool p, parseBool c, sid.toNat?, ts.toNat? with
    | some p, some c, some sid, some ts => some ⟨p, c, sid, ts⟩
    | _, _, _, _ => none
  | _ => none

def parseHop (s : String) : Option Hop :=
  match splitDots s with
  | [i, e, x, ci, ce, mac] =>
    match parseBool i, parseBool e, x.toNat?, ci.toNat?, ce.toNat?, unhex mac with
    | some i, some e, some x, some ci, some ce, some mac => some ⟨i, e, x, ci, ce, mac⟩
    | _, _, _, _, _, _ => none
  | _ => none

def parsePath : List String → Option PathV
  | ["empty"] => some .empty
  | ["scion", w, body] =>
    match w.toNat?, unhex body with
    | some w, some b => some (.scion (PathMeta.decode w) b)
    | _, _ => none
  | ["onehop", i, h1, h2] =>
    match parseInfo i, parseHop h1, parseHop h2 with
    | some i, some h1, some h2 => some (.onehop i h1 h2)
    | _, _, _ => none
  | ["epic", ts, ctr, p, l, w, body] =>
    match ts.toNat?, ctr.toNat?, unhex p, unhex l, w.toNat?, unhex body with
    | some ts, some ctr, some p, some l, some w, some b => some (.epic ts ctr p l (PathMeta.decode w) b)
    | _, _, _, _, _, _ => none
  | _ => none

def parseHdr : List String → Option Hdr
  | v :: tc :: fl :: nh :: hl :: pl :: pt :: dt :: st :: dia :: sia :: dst :: src :: path =>
    match v.toNat?, tc.toNat?, fl.toNat?, nh.toNat?, hl.toNat?, pl.toNat?, pt.toNat?, dt.toNat?,
      st.toNat? with
    | some v, some tc, some fl, some nh, some hl, some pl, some pt, some dt, some st =>
      match dia.toNat?, sia.toNat?, unhex dst, unhex src, parsePath path with
      | some dia, some sia, some dst, some src, some p =>
        some ⟨⟨v, tc, fl, nh, hl, pl, pt, dt, st⟩, dia, sia, dst, src, p⟩
      | _, _, _, _, _ => none
    | _, _, _, _, _, _, _, _, _ => none
  | _ => none

end Scion.WireText
