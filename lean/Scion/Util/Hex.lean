/-! Byte strings as `List UInt8`/`Array UInt8`, hex text, big-endian helpers. Core only. -/
namespace Scion.Util

abbrev Bytes := List UInt8

def hexDigit (n : Nat) : Char :=
  if n < 10 then Char.ofNat (48 + n) else Char.ofNat (87 + n)

def hexOfByte (b : UInt8) : String :=
  String.ofList [hexDigit (b.toNat / 16), hexDigit (b.toNat % 16)]

def hexOf (bs : Bytes) : String :=
  if bs.isEmpty then "-" else String.join (bs.map hexOfByte)

def hexVal (c : Char) : Option Nat :=
  if '0' ≤ c ∧ c ≤ '9' then some (c.toNat - 48)
  else if 'a' ≤ c ∧ c ≤ 'f' then some (c.toNat - 87)
  else if 'A' ≤ c ∧ c ≤ 'F' then some (c.toNat - 55)
  else none

def unhexChars : List Char → Option Bytes
  | [] => some []
  | [_] => none
  | a :: b :: rest =>
    match hexVal a, hexVal b, unhexChars rest with
    | some x, some y, some r => some (UInt8.ofNat (x * 16 + y) :: r)
    | _, _, _ => none

/-- `-` is the empty byte string. -/
def unhex (s : String) : Option Bytes :=
  if s == "-" then some [] else unhexChars s.toList

/-- big-endian value of a byte list -/
def beNat : Bytes → Nat
  | bs => bs.foldl (fun acc b => acc * 256 + b.toNat) 0

/-- big-endian encoding of `n` on `k` bytes (truncating) -/
def natBE : Nat → Nat → Bytes
  | 0, _ => []
  | k+1, n => UInt8.ofNat (n / 256^k % 256) :: natBE k n

end Scion.Util
