import Scion.Model.Pktcls
/-!
Word-level codec of traffic-class conditions and packets for the gateway drivers
(`Driver/Gwrouting.lean`, `Driver/Pktcls.lean`).  Prefix notation, one word per token:

`A n c₁…cₙ` all · `O n c₁…cₙ` any · `N c` not · `T`/`F` bool · `s bits len` src · `d bits len` dst ·
`q v` dscp · `o v` tos · `p v` protocol · `sp lo hi` · `dp lo hi` · `c n` cls

Packets: `4 src dst tos proto frag payload-hex` or `x` (a non-IPv4 layer).  Parsing only; no logic.
-/
namespace Scion.Util.GwCodec
open Scion.Pktcls Scion.Util

mutual
def encCond : Cond → String
  | .all cs => s!"A {cs.length}" ++ encConds cs
  | .any cs => s!"O {cs.length}" ++ encConds cs
  | .not c => "N " ++ encCond c
  | .bool b => if b then "T" else "F"
  | .src n => s!"s {n.bits} {n.len}"
  | .dst n => s!"d {n.bits} {n.len}"
  | .dscp v => s!"q {v}"
  | .tos v => s!"o {v}"
  | .proto v => s!"p {v}"
  | .sport lo hi => s!"sp {lo} {hi}"
  | .dport lo hi => s!"dp {lo} {hi}"
  | .cls n => s!"c {n}"
def encConds : List Cond → String
  | [] => ""
  | c :: cs => " " ++ encCond c ++ encConds cs
end

mutual
/-- `fuel` bounds the recursion (number of words is enough) -/
def decCond : Nat → List String → Option (Cond × List String)
  | 0, _ => none
  | fuel + 1, ws =>
    match ws with
    | "A" :: n :: r => do
      let (cs, r') ← decConds fuel (← n.toNat?) r
      pure (.all cs, r')
    | "O" :: n :: r => do
      let (cs, r') ← decConds fuel (← n.toNat?) r
      pure (.any cs, r')
    | "N" :: r => do
      let (c, r') ← decCond fuel r
      pure (.not c, r')
    | "T" :: r => some (.bool true, r)
    | "F" :: r => some (.bool false, r)
    | "s" :: b :: l :: r => do pure (.src ⟨← b.toNat?, ← l.toNat?⟩, r)
    | "d" :: b :: l :: r => do pure (.dst ⟨← b.toNat?, ← l.toNat?⟩, r)
    | "q" :: v :: r => do pure (.dscp (← v.toNat?), r)
    | "o" :: v :: r => do pure (.tos (← v.toNat?), r)
    | "p" :: v :: r => do pure (.proto (← v.toNat?), r)
    | "sp" :: a :: b :: r => do pure (.sport (← a.toNat?) (← b.toNat?), r)
    | "dp" :: a :: b :: r => do pure (.dport (← a.toNat?) (← b.toNat?), r)
    | "c" :: v :: r => do pure (.cls (← v.toNat?), r)
    | _ => none
def decConds : Nat → Nat → List String → Option (List Cond × List String)
  | _, 0, ws => some ([], ws)
  | 0, _ + 1, _ => none
  | fuel + 1, n + 1, ws => do
    let (c, r) ← decCond fuel ws
    let (cs, r') ← decConds fuel n r
    pure (c :: cs, r')
end

def decPkt : List String → Option (Pkt × List String)
  | "x" :: r => some (.other, r)
  | "4" :: s :: d :: t :: p :: f :: pl :: r => do
    let pl ← unhex pl
    pure (.v4 { src := ← s.toNat?, dst := ← d.toNat?, tos := ← t.toNat?, proto := ← p.toNat?,
                frag := f == "1", payload := pl }, r)
  | _ => none

end Scion.Util.GwCodec
