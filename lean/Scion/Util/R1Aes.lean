/-! Prototype: executable AES-128 encryption and AES-CMAC (RFC 4493), core Lean only.
    Used only on the *executable* side of the correspondence (the theorems quantify over `mac`). -/
namespace Scion.R1Aes

def xtime (b : UInt8) : UInt8 := (b <<< 1) ^^^ (if b &&& 0x80 != 0 then 0x1b else 0)

def gmul (a b : UInt8) : UInt8 := Id.run do
  let mut p : UInt8 := 0
  let mut a := a
  let mut b := b
  for _ in [0:8] do
    if b &&& 1 != 0 then p := p ^^^ a
    a := xtime a
    b := b >>> 1
  return p

/-- multiplicative inverse in GF(2^8) by brute force (table built once) -/
def inv (a : UInt8) : UInt8 := Id.run do
  if a == 0 then return 0
  for x in [1:256] do
    if gmul a x.toUInt8 == 1 then return x.toUInt8
  return 0

def rotl8 (x : UInt8) (n : UInt8) : UInt8 := (x <<< n) ||| (x >>> (8 - n))

def sboxByte (a : UInt8) : UInt8 :=
  let b := inv a
  b ^^^ rotl8 b 1 ^^^ rotl8 b 2 ^^^ rotl8 b 3 ^^^ rotl8 b 4 ^^^ 0x63

def sbox : Array UInt8 := (Array.range 256).map fun i => sboxByte i.toUInt8
def S (b : UInt8) : UInt8 := sbox[b.toNat]!

abbrev Block := Array UInt8   -- 16 bytes, column-major as in FIPS-197

def xorB (a b : Block) : Block := (Array.range 16).map fun i => a[i]! ^^^ b[i]!

def keyExpand (key : Block) : Array Block := Id.run do
  let mut w : Array (Array UInt8) := #[]   -- words of 4 bytes
  for i in [0:4] do
    w := w.push #[key[4*i]!, key[4*i+1]!, key[4*i+2]!, key[4*i+3]!]
  let mut rc : UInt8 := 1
  for i in [4:44] do
    let mut t := w[i-1]!
    if i % 4 == 0 then
      t := #[S t[1]! ^^^ rc, S t[2]!, S t[3]!, S t[0]!]
      rc := xtime rc
    let p := w[i-4]!
    w := w.push #[p[0]! ^^^ t[0]!, p[1]! ^^^ t[1]!, p[2]! ^^^ t[2]!, p[3]! ^^^ t[3]!]
  let mut rks : Array Block := #[]
  for r in [0:11] do
    rks := rks.push (w[4*r]! ++ w[4*r+1]! ++ w[4*r+2]! ++ w[4*r+3]!)
  return rks

def subShift (s : Block) : Block :=
  (Array.range 16).map fun i =>
    let c := i / 4; let r := i % 4
    S s[4 * ((c + r) % 4) + r]!

def mixCol (s : Block) : Block :=
  (Array.range 16).map fun i =>
    let c := i / 4; let r := i % 4
    let a := fun k => s[4*c + (r + k) % 4]!
    gmul 2 (a 0) ^^^ gmul 3 (a 1) ^^^ a 2 ^^^ a 3

def encrypt (rks : Array Block) (pt : Block) : Block := Id.run do
  let mut s := xorB pt rks[0]!
  for r in [1:10] do
    s := xorB (mixCol (subShift s)) rks[r]!
  return xorB (subShift s) rks[10]!

def shl1 (b : Block) : Block :=
  (Array.range 16).map fun (i : Nat) =>
    let hi : UInt8 := b[i]! <<< 1
    let lo : UInt8 := if i < 15 then b[i+1]! >>> 7 else 0
    hi ||| lo

def dbl (b : Block) : Block :=
  let s := shl1 b
  if b[0]! &&& 0x80 != 0 then s.set! 15 (s[15]! ^^^ 0x87) else s

def cmac (key : Block) (msg : Array UInt8) : Block := Id.run do
  let rks := keyExpand key
  let zero : Block := Array.replicate 16 0
  let k1 := dbl (encrypt rks zero)
  let k2 := dbl k1
  let n := if msg.size == 0 then 1 else (msg.size + 15) / 16
  let complete := msg.size != 0 && msg.size % 16 == 0
  let mut x := zero
  for i in [0:n-1] do
    x := encrypt rks (xorB x (msg.extract (16*i) (16*i+16)))
  let lastRaw := msg.extract (16*(n-1)) msg.size
  let last : Block :=
    if complete then xorB lastRaw k1
    else xorB ((lastRaw.push 0x80) ++ Array.replicate (15 - lastRaw.size) 0) k2
  return encrypt rks (xorB x last)

def hexOf (b : Array UInt8) : String :=
  b.foldl (fun s x => s ++ (String.singleton (Nat.digitChar (x.toNat / 16))) ++ (String.singleton (Nat.digitChar (x.toNat % 16)))) ""

def unhex (s : String) : Array UInt8 := Id.run do
  let cs := s.toList.toArray
  let v := fun (c : Char) => if c.isDigit then c.toNat - 48 else c.toNat - 87
  let mut out := #[]
  for i in [0:cs.size/2] do
    out := out.push (UInt8.ofNat (v cs[2*i]! * 16 + v cs[2*i+1]!))
  return out

end Scion.R1Aes
