import Scion.Util.Hex
/-! Executable SHA-256, HMAC-SHA-256 and PBKDF2 (first output block), core Lean only.

Used only on the *executable* side of the DRKey correspondence (engine `drkey`, op `sv`): the
model `Scion.Drkey.svInput` builds the byte string that `drkey.DeriveSV` hands to
`pbkdf2.Key(buf, "Derive DRKey Key", 1000, 16, sha256.New)`; running the same KDF here lets the
real secret-value bytes be compared, which checks that input layout byte for byte.
No theorem depends on this file.  Validated at build time against FIPS 180-4 ("abc") and the
PBKDF2-HMAC-SHA256 vectors of RFC 7914 §11 (`#guard` below). -/
namespace Scion.Util.Sha256Drkey
open Scion.Util

def K : Array UInt32 := #[
  0x428a2f98, 0x71374491, 0xb5c0fbcf, 0xe9b5dba5, 0x3956c25b, 0x59f111f1, 0x923f82a4, 0xab1c5ed5,
  0xd807aa98, 0x12835b01, 0x243185be, 0x550c7dc3, 0x72be5d74, 0x80deb1fe, 0x9bdc06a7, 0xc19bf174,
  0xe49b69c1, 0xefbe4786, 0x0fc19dc6, 0x240ca1cc, 0x2de92c6f, 0x4a7484aa, 0x5cb0a9dc, 0x76f988da,
  0x983e5152, 0xa831c66d, 0xb00327c8, 0xbf597fc7, 0xc6e00bf3, 0xd5a79147, 0x06ca6351, 0x14292967,
  0x27b70a85, 0x2e1b2138, 0x4d2c6dfc, 0x53380d13, 0x650a7354, 0x766a0abb, 0x81c2c92e, 0x92722c85,
  0xa2bfe8a1, 0xa81a664b, 0xc24b8b70, 0xc76c51a3, 0xd192e819, 0xd6990624, 0xf40e3585, 0x106aa070,
  0x19a4c116, 0x1e376c08, 0x2748774c, 0x34b0bcb5, 0x391c0cb3, 0x4ed8aa4a, 0x5b9cca4f, 0x682e6ff3,
  0x748f82ee, 0x78a5636f, 0x84c87814, 0x8cc70208, 0x90befffa, 0xa4506ceb, 0xbef9a3f7, 0xc67178f2]

def H0 : Array UInt32 := #[
  0x6a09e667, 0xbb67ae85, 0x3c6ef372, 0xa54ff53a, 0x510e527f, 0x9b05688c, 0x1f83d9ab, 0x5be0cd19]

@[inline] def rotr (x : UInt32) (n : UInt32) : UInt32 := (x >>> n) ||| (x <<< (32 - n))

@[inline] def w32 (a : Array UInt32) (i : Nat) : UInt32 := a.getD i 0

/-- one compression: state (8 words) and a 64-byte block given as 16 big-endian words -/
def compress (st : Array UInt32) (blk : Array UInt32) : Array UInt32 := Id.run do
  let mut w := blk
  for i in [16:64] do
    let x15 := w32 w (i-15)
    let x2 := w32 w (i-2)
    let s0 := rotr x15 7 ^^^ rotr x15 18 ^^^ (x15 >>> 3)
    let s1 := rotr x2 17 ^^^ rotr x2 19 ^^^ (x2 >>> 10)
    w := w.push (w32 w (i-16) + s0 + w32 w (i-7) + s1)
  let mut a := w32 st 0
  let mut b := w32 st 1
  let mut c := w32 st 2
  let mut d := w32 st 3
  let mut e := w32 st 4
  let mut f := w32 st 5
  let mut g := w32 st 6
  let mut h := w32 st 7
  for i in [0:64] do
    let s1 := rotr e 6 ^^^ rotr e 11 ^^^ rotr e 25
    let ch := (e &&& f) ^^^ ((~~~ e) &&& g)
    let t1 := h + s1 + ch + w32 K i + w32 w i
    let s0 := rotr a 2 ^^^ rotr a 13 ^^^ rotr a 22
    let mj := (a &&& b) ^^^ (a &&& c) ^^^ (b &&& c)
    let t2 := s0 + mj
    h := g; g := f; f := e; e := d + t1; d := c; c := b; b := a; a := t1 + t2
  return #[w32 st 0 + a, w32 st 1 + b, w32 st 2 + c, w32 st 3 + d,
           w32 st 4 + e, w32 st 5 + f, w32 st 6 + g, w32 st 7 + h]

def wordOf (b0 b1 b2 b3 : UInt8) : UInt32 :=
  (b0.toUInt32 <<< 24) ||| (b1.toUInt32 <<< 16) ||| (b2.toUInt32 <<< 8) ||| b3.toUInt32

/-- 64 bytes → 16 words (missing bytes read as 0) -/
def blockWords (bs : Array UInt8) (off : Nat) : Array UInt32 :=
  (Array.range 16).map fun i =>
    wordOf (bs.getD (off + 4*i) 0) (bs.getD (off + 4*i+1) 0) (bs.getD (off + 4*i+2) 0) (bs.getD (off + 4*i+3) 0)

def wordsBytes (st : Array UInt32) : Bytes :=
  st.toList.flatMap fun (w : UInt32) => [(w >>> 24).toUInt8, (w >>> 16).toUInt8, (w >>> 8).toUInt8, w.toUInt8]

/-- `msg` followed by the SHA-256 padding for a message of `total` bytes in all -/
def padded (msg : Array UInt8) (total : Nat) : Array UInt8 :=
  let m1 := msg.push 0x80
  let z := (64 - (m1.size + 8) % 64) % 64
  let m2 := m1 ++ Array.replicate z 0
  m2 ++ (natBE 8 (total * 8)).toArray

/-- continue hashing `msg` from state `st` having already consumed `done` bytes (a multiple of 64) -/
def finishFrom (st : Array UInt32) (done : Nat) (msg : Array UInt8) : Array UInt32 := Id.run do
  let p := padded msg (done + msg.size)
  let mut s := st
  for i in [0:p.size / 64] do
    s := compress s (blockWords p (64*i))
  return s

def sha256 (msg : Bytes) : Bytes := wordsBytes (finishFrom H0 0 msg.toArray)

/-- HMAC key schedule: states after absorbing `key ⊕ ipad` and `key ⊕ opad` -/
def hmacInit (key : Bytes) : Array UInt32 × Array UInt32 :=
  let k := if key.length > 64 then sha256 key else key
  let k := (k ++ List.replicate (64 - k.length) 0).toArray
  (compress H0 (blockWords (k.map (· ^^^ 0x36)) 0), compress H0 (blockWords (k.map (· ^^^ 0x5c)) 0))

def hmacWith (ks : Array UInt32 × Array UInt32) (msg : Bytes) : Bytes :=
  let inner := wordsBytes (finishFrom ks.1 64 msg.toArray)
  wordsBytes (finishFrom ks.2 64 inner.toArray)

def hmac (key msg : Bytes) : Bytes := hmacWith (hmacInit key) msg

def xorBytes (a b : Bytes) : Bytes := List.zipWith (· ^^^ ·) a b

/-- PBKDF2-HMAC-SHA256, first output block (32 bytes) truncated to `dkLen ≤ 32` -/
def pbkdf2 (password salt : Bytes) (iter dkLen : Nat) : Bytes := Id.run do
  let ks := hmacInit password
  let mut u := hmacWith ks (salt ++ [0, 0, 0, 1])
  let mut t := u
  for _ in [1:iter] do
    u := hmacWith ks u
    t := xorBytes t u
  return t.take dkLen

def ascii (s : String) : Bytes := s.toList.map fun c => UInt8.ofNat c.toNat

#guard hexOf (sha256 (ascii "abc")) == "ba7816bf8f01cfea414140de5dae2223b00361a396177a9cb410ff61f20015ad"
#guard hexOf (sha256 (ascii "abcdbcdecdefdefgefghfghighijhijkijkljklmklmnlmnomnopnopq")) ==
  "248d6a61d20638b8e5c026930c3e6039a33ce45964ff2167f6ecedd419db06c1"
-- RFC 7914 §11
#guard hexOf (pbkdf2 (ascii "passwd") (ascii "salt") 1 32) ==
  "55ac046e56e3089fec1691c22544b605f94185216dde0465e68b9d57c20dacbc"
-- RFC 6070-style vector for SHA-256 (c = 2)
#guard hexOf (pbkdf2 (ascii "password") (ascii "salt") 2 32) ==
  "ae4d0c95af6b46d32d0adff928f06dd02a303f8ef3c251dfd6e2d85a95474c43"

end Scion.Util.Sha256Drkey
