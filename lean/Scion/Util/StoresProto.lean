import Scion.Model.Stores
/-! Text protocol of the abstract stores (parsing of op lines, rendering of answers), shared by
    the drivers `Driver/Stores.lean` (C27) and `Driver/Hidden.lean` (C45).  Core only.

    lists are comma separated, `-` = empty; ISD-AS = `isd:as`, interface = `isd:as:ifid` -/
namespace Scion.Util.StoresProto

open Scion.Stores

def csv (s : String) : List String := if s == "-" then [] else s.splitOn ","

def allSome {α : Type} : List (Option α) → Option (List α)
  | [] => some []
  | none :: _ => none
  | some x :: rest => (allSome rest).map (x :: ·)

def natList (s : String) : Option (List Nat) := allSome ((csv s).map String.toNat?)

def parseIA (s : String) : Option IA :=
  match s.splitOn ":" with
  | [a, b] => match a.toNat?, b.toNat? with
    | some a, some b => some ⟨a, b⟩
    | _, _ => none
  | _ => none

def parseIntf (s : String) : Option Intf :=
  match s.splitOn ":" with
  | [a, b, c] => match a.toNat?, b.toNat?, c.toNat? with
    | some a, some b, some c => some ⟨⟨a, b⟩, c⟩
    | _, _, _ => none
  | _ => none

def iaList (s : String) : Option (List IA) := allSome ((csv s).map parseIA)
def intfList (s : String) : Option (List Intf) := allSome ((csv s).map parseIntf)
def idOf (s : String) : ID := s.toList
def idList (s : String) : List ID := (csv s).map idOf

def showID (i : ID) : String := String.ofList i
def showNats (l : List Nat) : String :=
  if l.isEmpty then "-" else String.intercalate "," (l.map toString)
def showIA (a : IA) : String := s!"{a.isd}:{a.as}"

def sortNats (l : List Nat) : List Nat := l.mergeSort (fun a b => decide (a ≤ b))
def sortStrs (l : List String) : List String := l.mergeSort (fun a b => decide (a ≤ b))

def countLine (items : List String) : String :=
  String.intercalate " " (toString items.length :: sortStrs items)

def showEntry (e : Entry) : String :=
  s!"{showID e.id}/{showID e.full}/{e.ver}/{e.maxExp}/{e.type}/{showNats (sortNats e.groups)}/{e.lu}"

def showBRec (r : BRec) : String :=
  s!"{showID r.id}/{showID r.full}/{r.info}/{r.exp}/{r.usage}/{r.inIf}/{r.lu}"

/-- tie-insensitive rendering of a candidate list: the lengths in order, the ids strictly
    below the cut length (all ids when fewer than `k` were returned), and how many were taken at the cut length -/
def showCands (k : Nat) (rs : List BRec) : String :=
  let lens := rs.map (·.hops)
  match rs.getLast? with
  | none => "0 - - 0"
  | some lastR =>
    let cut := lastR.hops
    let below := (rs.filter (fun r => decide (rs.length < k) || decide (r.hops < cut))).map
      (fun r => showID r.id)
    let atCut := (rs.filter (fun r => r.hops == cut)).length
    let belowS := if below.isEmpty then "-" else String.intercalate "," (sortStrs below)
    s!"{rs.length} {showNats lens} {belowS} {atCut}"

def iaLe (a b : IA) : Bool := a.isd < b.isd || (a.isd == b.isd && a.as ≤ b.as)

def renderP : POut → String
  | .stats s => s!"{s.inserted} {s.updated}"
  | .entries es => countLine (es.map showEntry)
  | .count n => toString n
  | .done => "ok"
  | .wrote b => if b then "1" else "0"
  | .nq none => "none"
  | .nq (some t) => toString t

def renderB (cand : Option Nat) : BOut → String
  | .stats s => s!"{s.inserted} {s.updated}"
  | .recs rs => match cand with
    | some k => showCands k rs
    | none => countLine (rs.map showBRec)
  | .count n => toString n
  | .done => "ok"
  | .ias l =>
    let l := l.mergeSort iaLe
    s!"{l.length} " ++ (if l.isEmpty then "-" else String.intercalate "," (l.map showIA))

def parseP : List String → Option POp
  | ["pins", id, full, ver, mx, first, last, intfs, type, groups] =>
    match ver.toNat?, mx.toNat?, parseIA first, parseIA last, intfList intfs, type.toNat?,
          natList groups with
    | some ver, some mx, some first, some last, some intfs, some type, some groups =>
      some (.insert ⟨idOf id, idOf full, ver, mx, first, last, intfs⟩ type groups)
    | _, _, _, _, _, _, _ => none
  | ["pget", ids, types, groups, intfs, starts, ends] =>
    match natList types, natList groups, intfList intfs, iaList starts, iaList ends with
    | some types, some groups, some intfs, some starts, some ends =>
      some (.get ⟨idList ids, types, groups, intfs, starts, ends⟩)
    | _, _, _, _, _ => none
  | ["pdelexp", now] => now.toNat?.map .delExpired
  | ["pdelseg", pre] => some (.delSeg (idOf pre))
  | ["pnq", src, dst, t] =>
    match parseIA src, parseIA dst, t.toNat? with
    | some src, some dst, some t => some (.insertNQ ⟨src, dst⟩ t)
    | _, _, _ => none
  | ["pgnq", src, dst] =>
    match parseIA src, parseIA dst with
    | some src, some dst => some (.getNQ ⟨src, dst⟩)
    | _, _ => none
  | _ => none

def parseB : List String → Option BOp
  | ["bins", id, full, info, exp, first, hops, inif, usage] =>
    match info.toNat?, exp.toNat?, parseIA first, hops.toNat?, inif.toNat?, usage.toNat? with
    | some info, some exp, some first, some hops, some inif, some usage =>
      some (.insert ⟨idOf id, idOf full, info, exp, first, hops⟩ inif usage)
    | _, _, _, _, _, _ => none
  | ["bcand", k, usage, src] =>
    match k.toNat?, usage.toNat?, parseIA src with
    | some k, some usage, some src => some (.candidates k usage src)
    | _, _, _ => none
  | ["bget", ids, starts, inifs, usages, valid] =>
    match iaList starts, natList inifs, natList usages with
    | some starts, some inifs, some usages =>
      if valid == "-" then some (.get ⟨idList ids, starts, inifs, usages, none⟩)
      else valid.toNat?.map (fun t => .get ⟨idList ids, starts, inifs, usages, some t⟩)
    | _, _, _ => none
  | ["bdelexp", now] => now.toNat?.map .delExpired
  | ["bdel", pre] => some (.del (idOf pre))
  | ["bsrc"] => some .sources
  | _ => none

end Scion.Util.StoresProto
