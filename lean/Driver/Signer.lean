import Driver.Common
import Scion.Model.Signer
import Scion.Model.ChainParse
/-! Driver for the signer-generation model (engine `signer`, property C36). -/
namespace Driver.Signer
open Scion.Chain Scion.ChainParse Scion.Signer

/-- `<id>:<nb>:<na>:<eku>:<okLatest>:<okPred>` -/
def parseChain (w : String) : Option ChainInfo :=
  match w.splitOn ":" with
  | [i, nb, na, eku, l, p] => do
    let id ← i.toNat?
    let notBefore ← nb.toInt?
    let notAfter ← na.toInt?
    let eku ← parseNatList eku
    let okLatest ← parseBool l
    let okPred ← parseBool p
    some { id, notBefore, notAfter, eku, okLatest, okPred }
  | _ => none

/-- `<skidOk> <algoOk> (e | <n> <chain>*)` -/
def takeKey : List String → Option (KeyIn × List String)
  | s :: a :: "e" :: ws => do
    some ({ skidOk := (← parseBool s), algoOk := (← parseBool a), chains := none }, ws)
  | s :: a :: ws => do
    let (cs, ws) ← takeCounted parseChain ws
    some ({ skidOk := (← parseBool s), algoOk := (← parseBool a), chains := some cs }, ws)
  | _ => none

def takeKeys : Nat → List String → Option (List KeyIn × List String)
  | 0, ws => some ([], ws)
  | n + 1, ws => do
    let (k, ws) ← takeKey ws
    let (r, ws) ← takeKeys n ws
    some (k :: r, ws)

/-- `<now> <failL> <failP> <n> <trcinfo>*` -/
def takeActive (ws : List String) : Option (ActiveRes × List String) :=
  match ws with
  | now :: fl :: fp :: ws => do
    let now ← now.toInt?
    let fl ← parseBool fl
    let fp ← parseBool fp
    let (store, ws) ← takeCounted parseTrcInfo ws
    some (activeOfStore store fl fp now, ws)
  | _ => none

def renderSigner (s : SignerOut) : String :=
  s!"{s.chain.notAfter}:{s.expiration}:{Driver.boolStr s.inGrace}:{s.trcBase}:{s.trcSerial}"

def renderErr (a : ActiveRes) : GenErr → String
  | .keyRing => "err keyring"
  | .noKey => "err other"
  | .trc => match a with
    | .dbErr => "err dberr"
    | .notFound => "err notfound"
    | .inactive => "err inactive"
    | _ => "err ?"
  | .algo => "err other"
  | .db => "err dberr"
  | .notFound => "err other"

/-- `gen <want> <zeroTime> <keyRingFails> <nkeys> <key>* <active>` -/
def gen : List String → Option String
  | want :: zero :: kf :: nk :: ws => do
    let want ← want.toNat?
    let zero ← zero.toInt?
    let kf ← parseBool kf
    let nk ← nk.toNat?
    let (keys, ws) ← takeKeys nk ws
    let (act, ws) ← takeActive ws
    if !ws.isEmpty then none else
    match generate (if kf then none else some keys) act want zero with
    | .ok l => some (s!"ok {l.length} " ++ " ".intercalate (l.map renderSigner))
    | .error e => some (renderErr act e)
  | _ => none

def parseVal (w : String) : Option (Int × Int) :=
  match w.splitOn ":" with
  | [a, b] => do some ((← a.toInt?), (← b.toInt?))
  | _ => none

/-- `ver <hdrOk> <skidEmpty> <ia> <boundIA> <engineNil> <notifyOk> (e | <n> <bit>*)` -/
def ver : List String → Option String
  | h :: s :: ia :: b :: en :: no :: ws => do
    let hdrOk ← parseBool h
    let skidEmpty ← parseBool s
    let ia ← ia.toNat?
    let boundIA ← b.toNat?
    let engineNil ← parseBool en
    let notifyOk ← parseBool no
    let chains ← match ws with
      | ["e"] => some none
      | ws => match takeCounted parseBool ws with
        | some (l, []) => some (some l)
        | _ => none
    some (if verifyMsg { hdrOk, skidEmpty, ia, boundIA, engineNil, notifyOk, chains } then "ok" else "rej")
  | _ => none

def handle : List String → String
  | "gen" :: ws => (gen ws).getD "bad-op"
  | "ver" :: ws => (ver ws).getD "bad-op"
  | ["sign", e, n] =>
    match e.toInt?, n.toInt? with
    | some e, some n => if signOk e n then "ok" else "expired"
    | _, _ => "bad-op"
  | ["signcms", e, n] =>
    match e.toInt?, n.toInt? with
    | some e, some n => if signOk e n then "ok" else "expired"
    | _, _ => "bad-op"
  | "last" :: nb :: na :: ws =>
    match nb.toInt?, na.toInt?, takeCounted parseVal ws with
    | some nb, some na, some (l, []) =>
      match lastExpiring l nb na with
      | some s => s!"{s.1}:{s.2}"
      | none => "none"
    | _, _, _ => "bad-op"
  | _ => "bad-op"

end Driver.Signer

def main : IO Unit := Driver.statelessLoop Driver.Signer.handle
