import Driver.Common
import Scion.Model.Combinator
/-! Driver for the combinator model (engine `comb`, properties C28 and C29).

op:  `comb <all|uniq> <src> <dst> <nUp> <nCore> <nDown> <seg>*`
seg: `S <ts> <segid> <nEnt> <ent>*`
ent: `E <ia> <in> <eg> <exp> <mac> <inMtu> <mtu> <nPeer> <peer>*`
peer:`P <in> <eg> <exp> <mac> <peerIA> <peerIf> <peerMtu>`
answer: `n <k> w <weights in result order> | <path> | <path> …` with the paths sorted as strings.
-/
namespace Driver.Comb
open Scion.Combinator

abbrev P (α : Type) := List String → Option (α × List String)

def pNat : P Nat
  | w :: rest => (w.toNat?).map fun n => (n, rest)
  | [] => none

def pPeers : Nat → P (List PeerE)
  | 0, ws => some ([], ws)
  | n + 1, "P" :: a :: b :: c :: d :: e :: f :: g :: ws =>
    match a.toNat?, b.toNat?, c.toNat?, d.toNat?, e.toNat?, f.toNat?, g.toNat? with
    | some a, some b, some c, some d, some e, some f, some g =>
      match pPeers n ws with
      | some (ps, ws') => some (⟨⟨a, b, c, d⟩, e, f, g⟩ :: ps, ws')
      | none => none
    | _, _, _, _, _, _, _ => none
  | _, _ => none

def pEnts : Nat → P (List ASE)
  | 0, ws => some ([], ws)
  | n + 1, "E" :: ia :: a :: b :: c :: d :: im :: m :: np :: ws =>
    match ia.toNat?, a.toNat?, b.toNat?, c.toNat?, d.toNat?, im.toNat?, m.toNat?, np.toNat? with
    | some ia, some a, some b, some c, some d, some im, some m, some np =>
      match pPeers np ws with
      | some (ps, ws') =>
        match pEnts n ws' with
        | some (es, ws'') => some (⟨ia, ⟨a, b, c, d⟩, im, m, ps⟩ :: es, ws'')
        | none => none
      | none => none
    | _, _, _, _, _, _, _, _ => none
  | _, _ => none

def pSegs : Nat → P (List Seg)
  | 0, ws => some ([], ws)
  | n + 1, "S" :: ts :: id :: ne :: ws =>
    match ts.toNat?, id.toNat?, ne.toNat? with
    | some ts, some id, some ne =>
      match pEnts ne ws with
      | some (es, ws') =>
        match pSegs n ws' with
        | some (ss, ws'') => some (⟨ts, id, es⟩ :: ss, ws'')
        | none => none
      | none => none
    | _, _, _ => none
  | _, _ => none

def joinWith (sep : String) (xs : List String) : String := sep.intercalate xs

def b01 (b : Bool) : String := if b then "1" else "0"

def renderIfs (is : List Iface) : String := joinWith "," (is.map fun i => s!"{i.ia}#{i.id}")

def renderFull (p : Path) : String :=
  s!"W{p.weight} L" ++ joinWith "," (p.segLens.map toString) ++
  " I" ++ joinWith "," (p.infos.map fun i => s!"{i.ts}:{i.segId}:{b01 i.consDir}:{b01 i.peer}") ++
  " H" ++ joinWith "," (p.hopFields.map fun h => s!"{h.inIf}:{h.egIf}:{h.exp}:{h.mac}") ++
  " F" ++ renderIfs p.intfs ++ s!" M{p.mtu} X{p.expiry}"

def renderUniq (p : Path) : String :=
  s!"W{p.weight} F" ++ renderIfs p.intfs ++ s!" X{p.expiry}"

def strLe (a b : String) : Bool := decide (a ≤ b)

def answer (all : Bool) (src dst : Nat) (ups cores downs : List Seg) : String :=
  let joins := allJoins ups cores downs src dst
  let ps := combineSpec ups cores downs src dst all
  let lines := (ps.map (if all then renderFull else renderUniq)).mergeSort strLe
  let errs := pathErrors joins
  -- cross-check: the graph model must return the same paths as the specification enumeration
  let dmgNote := match combineDMG ups cores downs src dst all with
    | none => " dmg-panic"
    | some qs =>
      if (qs.map renderFull).mergeSort strLe = (ps.map renderFull).mergeSort strLe then ""
      else " dmg-mismatch"
  s!"n {ps.length} w " ++ joinWith "," (ps.map fun p => toString p.weight) ++
    (if errs = 0 then "" else s!" path-errors {errs}") ++ dmgNote ++
    " | " ++ joinWith " | " lines

/-! property-specific ops: the op carries what the implementation returned (after `R`).

`c28`: the model answers, for every returned path, its own version of that path (looked up among
the paths of all joins passing no AS more than twice) — equal lines mean every returned path is a
model path with the same metadata; a missing combination does not disturb this op.
`c29`: the model answers the interface sequences of the specification that the implementation did
not return — the expected line is `missing`; wrong metadata does not disturb this op. -/

def takeGroups (size : Nat) : Nat → List String → Option (List (List String) × List String)
  | 0, ws => some ([], ws)
  | n + 1, ws =>
    if ws.length < size then none
    else match takeGroups size n (ws.drop size) with
      | some (gs, rest) => some (ws.take size :: gs, rest)
      | none => none

def hWord (p : Path) : String :=
  "H" ++ joinWith "," (p.hopFields.map fun h => s!"{h.inIf}:{h.egIf}:{h.exp}:{h.mac}")
def fWord (p : Path) : String := "F" ++ renderIfs p.intfs

def cands (src dst : Nat) (ups cores downs : List Seg) : List Path :=
  filterLongPaths (sortByWeight (pathsOf (allJoins ups cores downs src dst)))

def natLe (a b : Nat) : Bool := decide (a ≤ b)

/-- cross-check on every op: the graph model must return the same paths as the enumeration -/
def dmgNote (src dst : Nat) (ups cores downs : List Seg) (cs : List Path) : String :=
  (match combineDMG ups cores downs src dst true with
  | none => " dmg-panic"
  | some qs =>
    if (qs.map renderFull).mergeSort strLe = (cs.map renderFull).mergeSort strLe then ""
    else " dmg-mismatch") ++
  -- hypotheses of `Scion.C29.getPaths_complete`, checked on every generated input: no key
  -- collision, and no join passing through the destination vertex (then the search finds exactly
  -- the joins of the specification, before any filtering)
  (if decide (NoCollision (allTuples ups cores downs)) then "" else " key-collision") ++
  (match newDMG ups cores downs with
   | some g =>
     if (getPaths g src dst).length = (allJoins ups cores downs src dst).length then ""
     else " join-through-dst"
   | none => "")

def weightOf (g : List String) : Nat :=
  match g with
  | w :: _ => ((w.drop 1).toString.toNat?).getD 0
  | [] => 0

/-- the model's version of one path returned with findAllIdentical=true: looked up among the
paths of all joins passing no AS more than twice, by full rendering, else by hop fields and
interfaces (then the differing metadata shows in the diff) -/
def matchPath (cs : List Path) (g : List String) : Option Path :=
  let line := joinWith " " g
  match cs.find? fun p => renderFull p == line with
  | some p => some p
  | none =>
    match g with
    | [_, _, _, h, f, _, _] => cs.find? fun p => hWord p == h && fWord p == f
    | _ => none

/-- `c28`: R part — every returned path re-derived by the model, in the order returned, and the
returned weights sorted; U part — the model's `filterDuplicates` applied to the (model versions of
the) paths returned with findAllIdentical=true, as a sorted list (the two `Combine` calls order
equal-key solutions independently, so only the multiset is determined) -/
def answer28 (src dst : Nat) (ups cores downs : List Seg) (ga gu : List (List String)) : String :=
  let cs := cands src dst ups cores downs
  let matched := ga.map (matchPath cs)
  let wsA := (ga.map weightOf).mergeSort natLe
  let wsU := (gu.map weightOf).mergeSort natLe
  let linesA := matched.map fun m => match m with | some p => renderFull p | none => "no-such-path"
  let kept := filterDuplicates (matched.filterMap id)
  let linesU := (kept.map renderUniq).mergeSort strLe
  "w " ++ joinWith "," (wsA.map toString) ++ dmgNote src dst ups cores downs cs ++ " | " ++
    joinWith " | " linesA ++ " || w " ++ joinWith "," (wsU.map toString) ++ " | " ++
    joinWith " | " linesU

def removeOne (x : String) : List String → Option (List String)
  | [] => none
  | y :: ys => if x == y then some ys else (removeOne x ys).map (y :: ·)

def answer29 (all : Bool) (src dst : Nat) (ups cores downs : List Seg) (given : List String) :
    String :=
  let cs := cands src dst ups cores downs
  let spec := (cs.map fWord).mergeSort strLe
  let spec := if all then spec else spec.eraseDups
  let (missing, _) := spec.foldl (fun (acc : List String × List String) s =>
    if all then
      match removeOne s acc.2 with
      | some rest => (acc.1, rest)
      | none => (acc.1 ++ [s], acc.2)
    else if acc.2.contains s then acc else (acc.1 ++ [s], acc.2)) ([], given)
  joinWith " " ("missing" :: missing) ++ (if all then dmgNote src dst ups cores downs cs else "")

def parseCase (ws : List String) :
    Option (Nat × Nat × List Seg × List Seg × List Seg × List String) :=
  match ws with
  | src :: dst :: nu :: nc :: nd :: ws =>
    match src.toNat?, dst.toNat?, nu.toNat?, nc.toNat?, nd.toNat? with
    | some src, some dst, some nu, some nc, some nd =>
      match pSegs nu ws with
      | some (ups, ws1) =>
        match pSegs nc ws1 with
        | some (cores, ws2) =>
          match pSegs nd ws2 with
          | some (downs, rest) => some (src, dst, ups, cores, downs, rest)
          | none => none
        | none => none
      | none => none
    | _, _, _, _, _ => none
  | _ => none

/-- `c28|c29 <src> <dst> <nU> <nC> <nD> <seg>* R <k> <returned, findAllIdentical=true> U <k'>
<returned, findAllIdentical=false>`; a returned path is 7 words (`c28` R), 3 words (`c28` U) or
one `F…` word (`c29`) -/
def handleProp (prop : String) (ws : List String) : String :=
  match parseCase ws with
  | some (src, dst, ups, cores, downs, "R" :: k :: rest) =>
    match k.toNat? with
    | none => "bad-op"
    | some k =>
      match takeGroups (if prop = "c28" then 7 else 1) k rest with
      | some (ga, "U" :: k2 :: rest2) =>
        match k2.toNat? with
        | none => "bad-op"
        | some k2 =>
          match takeGroups (if prop = "c28" then 3 else 1) k2 rest2 with
          | some (gu, []) =>
            if prop = "c28" then
              answer28 src dst ups cores downs ga gu
            else
              answer29 true src dst ups cores downs ga.flatten ++ " || " ++
              answer29 false src dst ups cores downs gu.flatten
          | _ => "bad-op"
      | _ => "bad-op"
  | _ => "bad-op"

def handle : List String → String
  | "c28" :: ws => handleProp "c28" ws
  | "c29" :: ws => handleProp "c29" ws
  | "comb" :: mode :: src :: dst :: nu :: nc :: nd :: ws =>
    match src.toNat?, dst.toNat?, nu.toNat?, nc.toNat?, nd.toNat? with
    | some src, some dst, some nu, some nc, some nd =>
      match pSegs nu ws with
      | some (ups, ws1) =>
        match pSegs nc ws1 with
        | some (cores, ws2) =>
          match pSegs nd ws2 with
          | some (downs, []) =>
            if mode = "all" then answer true src dst ups cores downs
            else if mode = "uniq" then answer false src dst ups cores downs
            else "bad-op"
          | _ => "bad-op"
        | none => "bad-op"
      | none => "bad-op"
    | _, _, _, _, _ => "bad-op"
  | _ => "bad-op"

end Driver.Comb

def main : IO Unit := Driver.statelessLoop Driver.Comb.handle
