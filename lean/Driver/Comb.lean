import Driver.Common
import Scion.Model.Combinator
/-! Driver for the combinator model (engine `comb`, properties C28 and C29).

op:  `comb <all|uniq> <src> <dst> <nUp> <nCore> <nDown> <seg>*`
seg: `S <ts> <segid> <nEnt> <ent>*`
ent: `E <ia> <in> <eg> <exp> <mac> <inMtu> <mtu> <nPeer> <peer>*`
peer:`P <in> <eg> <exp> <mac> <peerIA> <peerIf> <peerMtu>`
answer: `n <k> w <weights in result order> | <path> | <path> …` with the paths sorted as strings.
-/
namespace Driver.Comb
open Scion.Combinator

abbrev P (α : Type) := List String → Option (α × List String)

def pNat : P Nat
  | w :: rest => (w.toNat?).map fun n => (n, rest)
  | [] => none

def pPeers : Nat → P (List PeerE)
  | 0, ws => some ([], ws)
  | n + 1, "P" :: a :: b :: c :: d :: e :: f :: g :: ws =>
    match a.toNat?, b.toNat?, c.toNat?, d.toNat?, e.toNat?, f.toNat?, g.toNat? with
    | some a, some b, some c, some d, some e, some f, some g =>
      match pPeers n ws with
      | some (ps, ws') => some (⟨⟨a, b, c, d⟩, e, f, g⟩ :: ps, ws')
      | none => none
    | _, _, _, _, _, _, _ => none
  | _, _ => none

def pEnts : Nat → P (List ASE)
  | 0, ws => some ([], ws)
  | n + 1, "E" :: ia :: a :: b :: c :: d :: im :: m :: np :: ws =>
    match ia.toNat?, a.toNat?, b.toNat?, c.toNat?, d.toNat?, im.toNat?, m.toNat?, np.toNat? with
    | some ia, some a, some b, some c, some d, some im, some m, some np =>
      match pPeers np ws with
      | some (ps, ws') =>
        match pEnts n ws' with
        | some (es, ws'') => some (⟨ia, ⟨a, b, c, d⟩, im, m, ps⟩ :: es, ws'')
        | none => none
      | none => none
    | _, _, _, _, _, _, _, _ => none
  | _, _ => none

def pSegs : Nat → P (List Seg)
  | 0, ws => some ([], ws)
  | n + 1, "S" :: ts :: id :: ne :: ws =>
    match ts.toNat?, id.toNat?, ne.toNat? with
    | some ts, some id, some ne =>
      match pEnts ne ws with
      | some (es, ws') =>
        match pSegs n ws' with
        | some (ss, ws'') => some (⟨ts, id, es⟩ :: ss, ws'')
        | none => none
      | none => none
    | _, _, _ => none
  | _, _ => none

def joinWith (sep : String) (xs : List String) : String := sep.intercalate xs

def b01 (b : Bool) : String := if b then "1" else "0"

def renderIfs (is : List Iface) : String := joinWith "," (is.map fun i => s!"{i.ia}#{i.id}")

def renderFull (p : Path) : String :=
  s!"W{p.weight} L" ++ joinWith "," (p.segLens.map toString) ++
  " I" ++ joinWith "," (p.infos.map fun i => s!"{i.ts}:{i.segId}:{b01 i.consDir}:{b01 i.peer}") ++
  " H" ++ joinWith "," (p.hopFields.map fun h => s!"{h.inIf}:{h.egIf}:{h.exp}:{h.mac}") ++
  " F" ++ renderIfs p.intfs ++ s!" M{p.mtu} X{p.expiry}"

def renderUniq (p : Path) : String :=
  s!"W{p.weight} F" ++ renderIfs p.intfs ++ s!" X{p.expiry}"

def strLe (a b : String) : Bool := decide (a ≤ b)

def answer (all : Bool) (src dst : Nat) (ups cores downs : List Seg) : String :=
  let joins := allJoins ups cores downs src dst
  let ps := combineSpec ups cores downs src dst all
  let lines := (ps.map (if all then renderFull else renderUniq)).mergeSort strLe
  let errs := pathErrors joins
  -- cross-check: the graph model must return the same paths as the specification enumeration
  let dmgNote := match combineDMG ups cores downs src dst all with
    | none => " dmg-panic"
    | some qs =>
      if (qs.map renderFull).mergeSort strLe = (ps.map renderFull).mergeSort strLe then ""
      else " dmg-mismatch"
  s!"n {ps.length} w " ++ joinWith "," (ps.map fun p => toString p.weight) ++
    (if errs = 0 then "" else s!" path-errors {errs}") ++ dmgNote ++
    " | " ++ joinWith " | " lines

def handle : List String → String
  | "comb" :: mode :: src :: dst :: nu :: nc :: nd :: ws =>
    match src.toNat?, dst.toNat?, nu.toNat?, nc.toNat?, nd.toNat? with
    | some src, some dst, some nu, some nc, some nd =>
      match pSegs nu ws with
      | some (ups, ws1) =>
        match pSegs nc ws1 with
        | some (cores, ws2) =>
          match pSegs nd ws2 with
          | some (downs, []) =>
            if mode = "all" then answer true src dst ups cores downs
            else if mode = "uniq" then answer false src dst ups cores downs
            else "bad-op"
          | _ => "bad-op"
        | none => "bad-op"
      | none => "bad-op"
    | _, _, _, _, _ => "bad-op"
  | _ => "bad-op"

end Driver.Comb

def main : IO Unit := Driver.statelessLoop Driver.Comb.handle
