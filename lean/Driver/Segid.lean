import Driver.Common
import Scion.Model.SegID
/-! Driver for the SegID accumulator model (engine `segid`, property C22). -/
namespace Driver.Segid
open Scion.SegID

def nats (ws : List String) : Option (List Nat) := ws.mapM String.toNat?

def bool? : String → Option Bool
  | "0" => some false
  | "1" => some true
  | _ => none

def join (l : List Nat) : String :=
  if l.isEmpty then "-" else ",".intercalate (l.map toString)

def handle : List String → String
  -- extractBeta: xb <s0> <σ…>
  | "xb" :: s0 :: σ => match s0.toNat?, nats σ with
    | some s0, some σ => toString (extractBeta s0 σ)
    | _, _ => "bad-op"
  -- Extend: ext <s0> <m> <σ of the entries already present…> → β of hop entry, β of peer entries
  | "ext" :: s0 :: m :: prev => match s0.toNat?, m.toNat?, nats prev with
    | some s0, some m, some prev => s!"{hopBeta s0 prev} {peerBeta s0 prev m}"
    | _, _, _ => "bad-op"
  -- calculateBeta: cb <down> <shortcut> <peer> <s0> <σ…>
  | "cb" :: d :: sc :: p :: s0 :: σ => match bool? d, sc.toNat?, bool? p, s0.toNat?, nats σ with
    | some d, some sc, some p, some s0, some σ =>
      match calculateBeta d sc p s0 σ with
      | some b => toString b
      | none => "panic"
    | _, _, _, _, _ => "bad-op"
  -- InfoField.UpdateSegID: upd <seg> <m>
  | ["upd", a, b] => match a.toNat?, b.toNat? with
    | some a, some b => toString (updateSegID a b)
    | _, _ => "bad-op"
  -- router rules along a traversal: sync <down> <shortcut> <peer> <pm> <s0> <σ…>
  --   → SegID presented to MAC validation at every hop (forwarding order), value left behind
  | "sync" :: d :: sc :: p :: pm :: s0 :: σ =>
    match bool? d, sc.toNat?, bool? p, pm.toNat?, s0.toNat?, nats σ with
    | some d, some sc, some p, some pm, some s0, some σ =>
      match calculateBeta d sc p s0 σ with
      | none => "panic"
      | some b =>
        let c := if d then downCtx σ sc p pm else upCtx σ sc p pm
        s!"{join (runHops d b c)} {finalSeg d b c}"
    | _, _, _, _, _, _ => "bad-op"
  | _ => "bad-op"

end Driver.Segid

def main : IO Unit := Driver.statelessLoop Driver.Segid.handle
