import Driver.Common
import Scion.Model.Drkey
import Scion.Util.AesDrkey
import Scion.Util.Sha256Drkey
/-! Driver for the DRKey derivation model (engine `drkey`, property C39).
The model's `prf` parameter is instantiated with the executable AES-128-CBC-MAC so that real key
bytes are compared. Parsing and printing only. -/
namespace Driver.Drkey
open Scion.Util Scion.Drkey

def prfReal (key inp : Bytes) : Bytes := AesDrkey.cbcMac key inp

/-- `pbkdf2.Key(buf, []byte("Derive DRKey Key"), 1000, 16, sha256.New)` -/
def kdfReal (inp : Bytes) : Bytes :=
  Sha256Drkey.pbkdf2 inp (Sha256Drkey.ascii "Derive DRKey Key") 1000 16

def showSV : SVOut → String
  | .divZero => "panic"
  | .emptySecret => "err"
  | .sv (b, e) k => s!"ok {b} {e} " ++ hexOf k

/-- `<typ>:<rawhex>` or `x` (unparsable host string) -/
def parseHost (w : String) : Option (Option Host) :=
  if w == "x" then some none
  else match w.splitOn ":" with
    | [t, r] => match t.toNat?, unhex r with
      | some t, some r => some (some ⟨t, r⟩)
      | _, _ => none
    | _ => none

def showD : Except DErr Key → String
  | .ok k => "ok " ++ hexOf k
  | .error .badHost => "err badhost"
  | .error .panic => "panic"

def showS (ep : Option (Nat × Nat)) : Except SvcErr Key → String
  | .ok k => match ep with
    | some (b, e) => s!"ok {b} {e} " ++ hexOf k
    | none => "panic"
  | .error .notEndpoint => "err notendpoint"
  | .error .badHost => "err badhost"
  | .error .panic => "panic"

def showW : WinOut → String
  | .divZero => "panic"
  | .noKey => "nokey"
  | .key (b, e) => s!"key {b} {e}"

def derive (flavour kind : String) (proto : Nat) (h : Option Host) (key : Bytes) : Option (Except DErr Key) :=
  match flavour, kind with
  | "s", "ah" => some (Specific.deriveASHost prfReal h key)
  | "s", "ha" => some (Specific.deriveHostAS prfReal h key)
  | "s", "hh" => some (Specific.deriveHostHost prfReal h key)
  | "g", "ah" => some (Generic.deriveASHost prfReal proto h key)
  | "g", "ha" => some (Generic.deriveHostAS prfReal proto h key)
  | "g", "hh" => some (Generic.deriveHostHost prfReal h key)
  | _, _ => none

def handle : List String → String
  | ["aes", k, b] => match unhex k, unhex b with
    | some k, some b => hexOf (AesDrkey.encryptBlock k b)
    | _, _ => "bad-op"
  | ["cbc", k, m] => match unhex k, unhex m with
    | some k, some m => hexOf (prfReal k m)
    | _, _ => "bad-op"
  | ["l1", sv, ia] => match unhex sv, ia.toNat? with
    | some sv, some ia => hexOf (Specific.deriveLevel1 prfReal ia sv)
    | _, _ => "bad-op"
  | ["d", flavour, kind, proto, host, key] =>
    match proto.toNat?, parseHost host, unhex key with
    | some proto, some h, some key => match derive flavour kind proto h key with
      | some r => showD r
      | none => "bad-op"
    | _, _, _ => "bad-op"
  | ["svc", kind, loc, proto, src, dst, sh, dh, svL0, svLp, svS0, svSp, val, durL, durS] =>
    match loc.toNat?, proto.toNat?, src.toNat?, dst.toNat?, parseHost sh, parseHost dh with
    | some loc, some proto, some src, some dst, some sh, some dh =>
      match unhex svL0, unhex svLp, unhex svS0, unhex svSp, val.toInt?, durL.toInt?, durS.toInt? with
      | some svL0, some svLp, some svS0, some svSp, some val, some durL, some durS =>
        let sv : Nat → Nat → Key := fun ia p =>
          if ia = loc then (if p = genericProto then svL0 else svLp)
          else (if p = genericProto then svS0 else svSp)
        let ep := svEpoch val (if src = loc then durL else durS)
        match kind with
        | "ah" => showS ep (svcASHost prfReal sv loc proto src dst dh)
        | "ha" => showS ep (svcHostAS prfReal sv loc proto src dst sh)
        | "hh" => showS ep (svcHostHost prfReal sv loc proto src dst sh dh)
        | _ => "bad-op"
      | _, _, _, _, _, _, _ => "bad-op"
    | _, _, _, _, _, _ => "bad-op"
  | ["ep", val, dur] => match val.toInt?, dur.toInt? with
    | some val, some dur => match svEpoch val dur with
      | some (b, e) => s!"{b} {e}"
      | none => "panic"
    | _, _ => "bad-op"
  | ["svd", secret, proto, b, e] => match unhex secret, proto.toNat?, b.toNat?, e.toNat? with
    | some secret, some proto, some b, some e => match deriveSV kdfReal secret proto b e with
      | some k => "ok " ++ hexOf k
      | none => "err"
    | _, _, _, _ => "bad-op"
  | ["gsv", secret, proto, val, dur] => match unhex secret, proto.toNat?, val.toInt?, dur.toInt? with
    | some secret, some proto, some val, some dur => showSV (getSecretValue kdfReal secret dur val proto)
    | _, _, _, _ => "bad-op"
  | ["svin", secret, proto, b, e] => match unhex secret, proto.toNat?, b.toNat?, e.toNat? with
    | some secret, some proto, some b, some e => match svInput secret proto b e with
      | some inp => hexOf inp
      | none => "err"
    | _, _, _, _ => "bad-op"
  | ["rel", b, t] => match b.toNat?, t.toInt? with
    | some b, some t => match relTimestamp b t with
      | some ts => s!"ok {ts}"
      | none => "err"
    | _, _ => "bad-op"
  | ["win", t, ed, aw, ts] => match t.toInt?, ed.toInt?, aw.toInt?, ts.toNat? with
    | some t, some ed, some aw, some ts => showW (selectKey ⟨t, ed, aw, ts⟩)
    | _, _, _, _ => "bad-op"
  | _ => "bad-op"

end Driver.Drkey

def main : IO Unit := Driver.statelessLoop Driver.Drkey.handle
