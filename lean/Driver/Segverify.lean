import Driver.Common
import Scion.Model.SegVerify
/-! Driver for the segment-verification model (engine `segverify`, property C24).
Parses the op (raw segment bytes + the facts the protobuf parsers / the signature primitive
yield on them), calls `Scion.SegVerify.verifySegment` / `assocData`, prints. -/
namespace Driver.Segverify
open Scion.Signed Scion.SegVerify Scion.Util

abbrev P := StateT (List String) Option

def word : P String := fun
  | [] => none
  | w :: ws => some (w, ws)

def nat : P Nat := do let w ← word; (w.toNat? : Option Nat)
def int : P Int := do let w ← word; (w.toInt? : Option Int)
def hex : P Bytes := do let w ← word; (unhex w : Option Bytes)

def rep {α : Type} (p : P α) : Nat → P (List α)
  | 0 => pure []
  | n+1 => do let a ← p; let r ← rep p n; pure (a :: r)

structure CertF where
  ia : Nat
  skid : Bytes
  nb : Int
  na : Int
  kind : KeyKind

def certF : P CertF := do
  let ia ← nat; let skid ← hex; let nb ← int; let na ← int; let k ← word
  pure ⟨ia, skid, nb, na, if k == "e" then .ecdsa else .other⟩

structure EntryF where
  hb : Bytes
  sig : Bytes
  outer : Option (Bytes × Bytes × Bytes)
  hdr : Option Header
  kid : Option KeyId
  body : Option (Nat × Nat)
  bits : List Char

def entryF : P EntryF := do
  let hb ← hex; let sig ← hex
  let ot ← word; let e ← hex; let b ← hex; let u ← hex
  let ht ← word; let algo ← nat; let keyid ← hex; let sec ← int; let nanos ← nat; let md ← hex
  let adlen ← int
  let kt ← word; let kia ← nat; let kskid ← hex
  let bt ← word; let loc ← nat; let exp ← nat
  let bits ← word
  pure { hb := hb, sig := sig
         outer := if ot == "O" then some (e, b, u) else none
         hdr := if ht == "P" then some ⟨algo, keyid, sec, nanos, md, adlen⟩ else none
         kid := if kt == "K" then some ⟨kia, kskid⟩ else none
         body := if bt == "B" then some (loc, exp) else none
         bits := if bits == "-" then [] else bits.toList }

def lookup {β : Type} (tbl : List (Bytes × Option β)) (x : Bytes) : Option β :=
  match tbl.find? (fun p => p.1 == x) with
  | some (_, v) => v
  | none => none

/-- the parsers as finite tables of the facts of this op (functions of the bytes) -/
def parsers (ts : Option Int) (es : List EntryF) : Parsers :=
  let outerT := es.map fun e => (e.hb, e.outer)
  let hdrT := es.filterMap fun e => e.outer.map fun o => (o.1, e.hdr)
  let kidT := es.filterMap fun e => e.hdr.map fun h => (h.keyId, e.kid)
  let bodyT := es.filterMap fun e => e.outer.map fun o => (o.2.1, e.body)
  { F := { parseOuter := lookup outerT, parseHdr := lookup hdrT }
    keyId := lookup kidT, body := lookup bodyT, info := fun _ => ts }

def rawOf (es : List EntryF) : List RawEntry := es.map fun e => ⟨e.hb, e.sig⟩

/-- the primitive's verdicts as a table: (pre-image, signature) ↦ one bit per certificate -/
def scheme (info : Bytes) (cs : List CertF) (es : List EntryF) : Scheme Unit Nat :=
  let raws := rawOf es
  let tbl := (List.range es.length).zip es |>.map fun (i, e) =>
    (preimage e.hb (assocData info (raws.take i)), e.sig, e.bits)
  { pub := fun _ => 0
    kind := fun pk => match cs[pk]? with | some c => c.kind | none => .other
    sign := fun _ _ _ _ => []
    verify := fun pk _ m σ => tbl.any fun (m', σ', bits) =>
      m' == m && σ' == σ && (match bits[pk]? with | some c => c == '1' | none => false) }

def runSeg : P String := do
  let info ← hex
  let tt ← word; let ts ← int
  let nc ← nat; let cs ← rep certF nc
  let ne ← nat; let es ← rep entryF ne
  let certs : List (Cert Nat) := (List.range cs.length).zip cs |>.map fun (i, c) =>
    ⟨c.ia, c.skid, c.nb, c.na, i⟩
  let P := parsers (if tt == "I" then some ts else none) es
  pure <| match verifySegment P (scheme info cs es) certs ⟨info, rawOf es⟩ with
    | .parseErr => "parse-err"
    | .ok => "ok -"
    | .fail i => s!"err {i}"

def rawEntry : P RawEntry := do let hb ← hex; let sig ← hex; pure ⟨hb, sig⟩

def runAd : P String := do
  let idx ← nat
  let info ← hex
  let n ← nat
  let es ← rep rawEntry n
  pure <| " ".intercalate ((assocData info (es.take idx)).map hexOf)

def handle : List String → String
  | "seg" :: rest => match runSeg rest with
    | some (s, []) => s
    | _ => "bad-op"
  | "ad" :: rest => match runAd rest with
    | some (s, []) => s
    | _ => "bad-op"
  | _ => "bad-op"

end Driver.Segverify

def main : IO Unit := Driver.statelessLoop Driver.Segverify.handle
