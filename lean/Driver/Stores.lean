import Driver.Common
import Scion.Model.Stores
import Scion.Util.StoresProto
/-! Driver for the abstract stores (engine `stores`, property C27).  Stateful: one path store
    and one beacon store per history; `new` starts a history.  The logical clock (`lu`) is the
    number of op lines since `new`.

    lists are comma separated, `-` = empty; ISD-AS = `isd:as`, interface = `isd:as:ifid`

    new                                                          → ok
    pins <id> <full> <ver> <maxexp> <first> <last> <intfs> <type> <groups>   → <ins> <upd>
    pget <ids> <types> <groups> <intfs> <starts> <ends>          → <n> id/full/ver/maxexp/type/groups/lu …
    pdelexp <now>                                                → <n>
    pdelseg <prefix>                                             → ok
    pnq <src> <dst> <t>                                          → 1 | 0
    pgnq <src> <dst>                                             → <t> | none
    bins <id> <full> <info> <exp> <first> <hops> <inif> <usage>  → <ins> <upd>
    bcand <k> <usage> <src>                                      → <n> <lens> <ids below cut> <#at cut>
    bget <idprefixes> <starts> <inifs> <usages> <valid|->        → <n> id/full/info/exp/usage/inif/lu …
    bdelexp <now>                                                → <n>
    bdel <prefix>                                                → ok
    bsrc                                                         → <n> isd:as,…
-/
namespace Driver.Stores
open Scion.Stores Scion.Util.StoresProto

structure St where
  p : PathStore
  b : BeaconStore
  tick : Nat

def St.init : St := ⟨PathStore.empty, [], 0⟩

def handle (s : St) (ws : List String) : St × String :=
  match ws with
  | ["new"] => (St.init, "ok")
  | _ =>
    match parseP ws with
    | some op =>
      let x := pstep s.p s.tick op
      ({ s with p := x.1, tick := s.tick + 1 }, renderP x.2)
    | none =>
      match parseB ws with
      | some op =>
        let x := bstep s.b s.tick op
        let isCand := match op with | .candidates k _ _ => some k | _ => none
        ({ s with b := x.1, tick := s.tick + 1 }, renderB isCand x.2)
      | none => (s, "bad-op")

end Driver.Stores

def main : IO Unit := Driver.statefulLoop Driver.Stores.St.init Driver.Stores.handle
