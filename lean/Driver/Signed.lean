import Driver.Common
import Scion.Model.Signed
/-! Driver for the signed-message model (engine `signed`, property C38). Parses, calls
`Scion.Signed.signInput` / `verifyMsg`, prints. -/
namespace Driver.Signed
open Scion.Signed Scion.Util

def kindArg : String → Option (Option KeyKind)
  | "e" => some (some .ecdsa)
  | "o" => some (some .other)
  | "n" => some none
  | _ => none

def hdrArgs (algo keyid sec nanos md adlen : String) : Option Header := do
  let a ← algo.toNat?
  let k ← unhex keyid
  let s ← sec.toInt?
  let n ← nanos.toNat?
  let m ← unhex md
  let l ← adlen.toInt?
  pure ⟨a, k, s, n, m, l⟩

def showHdr (h : Header) (b : Bytes) : String :=
  s!"{h.algo} {hexOf h.keyId} {h.sec} {h.nanos} {hexOf h.metadata} {h.adLen} {hexOf b}"

/-- the key is represented by its kind; the primitive's verdict is a fact supplied by the op -/
def factScheme (sigok : Bool) : Scheme KeyKind KeyKind :=
  { pub := id, kind := id, sign := fun _ _ _ _ => [], verify := fun _ _ _ _ => sigok }

def handle : List String → String
  | "enc" :: kind :: algo :: keyid :: sec :: nanos :: md :: adlen :: body :: ad =>
    match kindArg kind, hdrArgs algo keyid sec nanos md adlen, unhex body, ad.mapM unhex with
    | some k, some h, some b, some ad =>
      match signInput (pbFraming fun _ => none) h b k ad with
      | .ok (hb, pre) => s!"ok {hexOf hb} {hexOf pre}"
      | .error _ => "err"
    | _, _, _, _ => "bad-op"
  | "ver" :: kind :: sigok :: "P" :: algo :: keyid :: sec :: nanos :: md :: adlen :: body :: ad =>
    match kindArg kind, hdrArgs algo keyid sec nanos md adlen, unhex body, ad.mapM unhex with
    | some k, some h, some b, some ad =>
      match verifyMsg (pbFraming fun _ => some (h, b)) (factScheme (sigok == "1")) ⟨[], []⟩ k ad with
      | .ok (h', b') => "ok " ++ showHdr h' b'
      | .error _ => "err"
    | _, _, _, _ => "bad-op"
  | "ver" :: kind :: sigok :: "E" :: ad =>
    match kindArg kind, ad.mapM unhex with
    | some k, some ad =>
      match verifyMsg (pbFraming fun _ => none) (factScheme (sigok == "1")) ⟨[], []⟩ k ad with
      | .ok (h', b') => "ok " ++ showHdr h' b'
      | .error _ => "err"
    | _, _ => "bad-op"
  | _ => "bad-op"

end Driver.Signed

def main : IO Unit := Driver.statelessLoop Driver.Signed.handle
