import Driver.Common
import Scion.Model.Signed
/-! Driver for the signed-message model (engine `signed`, property C38). Parses, calls
`Scion.Signed.signInput` / `verifyMsg`, prints. -/
namespace Driver.Signed
open Scion.Signed Scion.Util

def kindArg : String → Option (Option KeyKind)
  | "e" => some (some .ecdsa)
  | "o" => some (some .other)
  | "n" => some none
  | _ => none

def hdrArgs (algo keyid sec nanos md adlen : String) : Option Header := do
  let a ← algo.toNat?
  let k ← unhex keyid
  let s ← sec.toInt?
  let n ← nanos.toNat?
  let m ← unhex md
  let l ← adlen.toInt?
  pure ⟨a, k, s, n, m, l⟩

def showHdr (h : Header) (b : Bytes) : String :=
  s!"{h.algo} {hexOf h.keyId} {h.sec} {h.nanos} {hexOf h.metadata} {h.adLen} {hexOf b}"

/-- the key is represented by its kind; the primitive's verdict is a fact supplied by the op -/
def factScheme (sigok : Bool) : Scheme KeyKind KeyKind :=
  { pub := id, kind := id, sign := fun _ _ _ _ => [], verify := fun _ _ _ _ => sigok }

def hdrOnly (h : Header) : String :=
  s!"{h.algo} {hexOf h.keyId} {h.sec} {h.nanos} {hexOf h.metadata} {h.adLen}"

def runVerify (k : Option KeyKind) (sigok : String) (hb : Bytes)
    (outer : Option (Bytes × Bytes × Bytes)) (inner : Option Header) (ad : List Bytes) : String :=
  let F : Framing := { parseHdr := fun _ => inner, parseOuter := fun _ => outer }
  match verifyMsg F (factScheme (sigok == "1")) ⟨hb, []⟩ k ad with
  | .ok (h', b') => "ok " ++ showHdr h' b'
  | .error _ => "err"

def handle : List String → String
  | "enc" :: kind :: algo :: keyid :: sec :: nanos :: md :: adlen :: body :: ad =>
    match kindArg kind, hdrArgs algo keyid sec nanos md adlen, unhex body, ad.mapM unhex with
    | some k, some h, some b, some ad =>
      match signInput h b k ad with
      | .ok (hb, pre) => s!"ok {hexOf hb} {hexOf pre}"
      | .error _ => "err"
    | _, _, _, _ => "bad-op"
  | "ver" :: kind :: sigok :: hb :: "O" :: e :: b :: u :: "P" :: algo :: keyid :: sec :: nanos :: md :: adlen :: ad =>
    match kindArg kind, unhex hb, unhex e, unhex b, unhex u, hdrArgs algo keyid sec nanos md adlen,
      ad.mapM unhex with
    | some k, some hb, some e, some b, some u, some h, some ad =>
      runVerify k sigok hb (some (e, b, u)) (some h) ad
    | _, _, _, _, _, _, _ => "bad-op"
  | "ver" :: kind :: sigok :: hb :: "O" :: e :: b :: u :: "E" :: ad =>
    match kindArg kind, unhex hb, unhex e, unhex b, unhex u, ad.mapM unhex with
    | some k, some hb, some e, some b, some u, some ad => runVerify k sigok hb (some (e, b, u)) none ad
    | _, _, _, _, _, _ => "bad-op"
  | "ver" :: kind :: sigok :: hb :: "X" :: ad =>
    match kindArg kind, unhex hb, ad.mapM unhex with
    | some k, some hb, some ad => runVerify k sigok hb none none ad
    | _, _, _ => "bad-op"
  | _ => "bad-op"

end Driver.Signed

def main : IO Unit := Driver.statelessLoop Driver.Signed.handle
